/-
  Proofs for C09 (emitted CIP paths denote the addressed object).
  `parsePadded`/`parseRequestPath` (PycommModel/Epath.lean) is the independent strict parser.
-/
import PycommModel.Epath
import PycommProofs.EPBasic
namespace Pycomm.Path
open Pycomm.EP

/-- spec-side decimal rendering (what a user types for an array index) -/
def decRev (n : Nat) : List Nat :=
  if h : n < 10 then [48 + n] else (48 + n % 10) :: decRev (n / 10)
termination_by n
decreasing_by omega

def decRender (n : Nat) : Name := (decRev n).reverse

/-- one level of a tag: a member/tag name with 0..3 array indices -/
structure TagLevel where
  name : Name
  idx : List Nat

def joinWith (sep : Nat) : List Name → Name
  | [] => []
  | [x] => x
  | x :: rest => x ++ [sep] ++ joinWith sep rest

def renderLevel (l : TagLevel) : Name :=
  if l.idx = [] then l.name else l.name ++ [91] ++ joinWith 44 (l.idx.map decRender) ++ [93]

/-- the documented tag syntax: levels joined by '.' -/
def renderTag (ls : List TagLevel) : Name := joinWith 46 (ls.map renderLevel)

/-- identifier characters (letters, digits, underscore, and ':' for the `Program:` scope) -/
def identChar (c : Nat) : Bool :=
  (48 ≤ c && c ≤ 58) || (65 ≤ c && c ≤ 90) || (97 ≤ c && c ≤ 122) || c == 95

def WfLevel (l : TagLevel) : Prop :=
  l.name ≠ [] ∧ l.name.length ≤ 255 ∧ (∀ c ∈ l.name, identChar c = true) ∧ l.idx.length ≤ 3 ∧ ∀ i ∈ l.idx, i < 2 ^ 32

/-- what the path must denote: the name as an ANSI extended symbol, each index as a member id -/
def levelSegs (l : TagLevel) : List PSeg :=
  PSeg.symbol (l.name.map UInt8.ofNat) :: l.idx.map (PSeg.logical 8)

/-! ### helper lemmas: decimal rendering -/

theorem decRev_digits (n : Nat) : ∀ c ∈ decRev n, PyStr.isDigitC c = true := by
  induction n using Nat.strongRecOn with
  | _ n ih =>
    unfold decRev
    split
    · intro c hc; simp at hc; subst hc; simp [PyStr.isDigitC]; omega
    · intro c hc
      simp only [List.mem_cons] at hc
      rcases hc with rfl | hc
      · simp [PyStr.isDigitC]; omega
      · exact ih (n / 10) (by omega) c hc

theorem decRev_ne_nil (n : Nat) : decRev n ≠ [] := by
  unfold decRev; split <;> simp

/-- value of a little-endian digit list -/
def leDec : List Nat → Nat
  | [] => 0
  | c :: cs => (c - 48) + 10 * leDec cs

theorem leDec_decRev (n : Nat) : leDec (decRev n) = n := by
  induction n using Nat.strongRecOn with
  | _ n ih =>
    unfold decRev
    split
    · simp [leDec]
    · simp only [leDec]
      rw [ih (n / 10) (by omega)]; omega

theorem decVal_reverse (cs : List Nat) : PyStr.decVal cs.reverse = leDec cs := by
  induction cs with
  | nil => rfl
  | cons c cs ih =>
    simp only [List.reverse_cons, PyStr.decVal, List.foldl_append, List.foldl_cons, List.foldl_nil, leDec]
    have : List.foldl (fun a c => a * 10 + (c - 48)) 0 cs.reverse = leDec cs := ih
    rw [this]; omega

theorem decRender_digits (n : Nat) : ∀ c ∈ decRender n, PyStr.isDigitC c = true := by
  intro c hc
  exact decRev_digits n c (by simpa [decRender] using hc)

theorem decRender_ne_nil (n : Nat) : decRender n ≠ [] := by
  simpa [decRender] using decRev_ne_nil n

theorem digit_not_space (c : Nat) (h : PyStr.isDigitC c = true) : PyStr.isSpaceC c = false := by
  simp [PyStr.isDigitC, PyStr.isSpaceC] at *; omega

theorem dropWhile_head {α} (p : α → Bool) (a : α) (l : List α) (h : p a = false) :
    (a :: l).dropWhile p = a :: l := by simp [List.dropWhile, h]

theorem strip_digits (s : Name) (hne : s ≠ []) (hd : ∀ c ∈ s, PyStr.isDigitC c = true) : PyStr.strip s = s := by
  have h1 : PyStr.lstrip s = s := by
    cases s with
    | nil => exact absurd rfl hne
    | cons a l => exact dropWhile_head _ _ _ (digit_not_space a (hd a (by simp)))
  have h2 : PyStr.rstrip s = s := by
    unfold PyStr.rstrip
    cases hr : s.reverse with
    | nil => simp at hr; exact absurd hr hne
    | cons a l =>
      have : a ∈ s := by rw [← List.mem_reverse, hr]; simp
      rw [dropWhile_head _ _ _ (digit_not_space a (hd a this)), ← hr, List.reverse_reverse]
  rw [PyStr.strip, h1, h2]

theorem digitsUnderscore_digits (s : Name) (hd : ∀ c ∈ s, PyStr.isDigitC c = true) :
    PyStr.digitsUnderscore s true = some s := by
  induction s with
  | nil => rfl
  | cons c cs ih =>
    simp [PyStr.digitsUnderscore, hd c (by simp), ih (fun c hc => hd c (by simp [hc]))]

theorem sign_match (c : Nat) (cs : List Nat) (h45 : c ≠ 45) (h43 : c ≠ 43) :
    PyStr.pyInt.match_1 (fun _ => Bool × List Nat) (c :: cs) (fun r => (true, r)) (fun r => (false, r))
      (fun r => (false, r)) = (false, c :: cs) := by
  split
  · rename_i h; cases h; exact absurd rfl h45
  · rename_i h; cases h; exact absurd rfl h43
  · rfl

theorem pyInt_digits (s : Name) (hne : s ≠ []) (hd : ∀ c ∈ s, PyStr.isDigitC c = true) :
    PyStr.pyInt s = some (PyStr.decVal s : Int) := by
  unfold PyStr.pyInt
  rw [strip_digits s hne hd]
  cases s with
  | nil => exact absurd rfl hne
  | cons c cs =>
    have hc := hd c (by simp)
    have h45 : c ≠ 45 := by intro e; subst e; simp [PyStr.isDigitC] at hc
    have h43 : c ≠ 43 := by intro e; subst e; simp [PyStr.isDigitC] at hc
    have hdu : PyStr.digitsUnderscore (c :: cs) false = some (c :: cs) := by
      simp [PyStr.digitsUnderscore, hc, digitsUnderscore_digits cs (fun c hc => hd c (by simp [hc]))]
    simp only [sign_match c cs h45 h43, hdu]
    simp

theorem pyInt_decRender' (n : Nat) : PyStr.pyInt (decRender n) = some (n : Int) := by
  rw [pyInt_digits _ (decRender_ne_nil n) (decRender_digits n)]
  simp [decRender, decVal_reverse, leDec_decRev]

/-! ### helper lemmas: segment lists -/

theorem encSegs_even (segs : List Seg) (path : Bytes) (h : encSegs true segs = .ok path)
    (heven : ∀ s ∈ segs, ∀ e, encSeg true s = .ok e → e.length % 2 = 0) : path.length % 2 = 0 := by
  induction segs generalizing path with
  | nil => simp [encSegs] at h; subst h; rfl
  | cons s segs ih =>
    simp only [encSegs, bind, Except.bind] at h
    split at h
    · cases h
    · rename_i v hv
      split at h
      · cases h
      · rename_i w hw
        cases h
        have h1 := heven s (by simp) v hv
        have h2 := ih w hw (fun s hs => heven s (by simp [hs]))
        simp; omega

theorem enc1_logical (ltype : Name) (ty : Nat) (hty : lookupName ltype Gen.logicalTypes = some ty)
    (v : Nat) (hv : v < 2 ^ 32) : Enc1 (Seg.logical (.int v) ltype) (PSeg.logical ty v) 6 :=
  encLogical_int ltype ty hty v hv

theorem enc1_logical_byte (ltype : Name) (ty : Nat) (hty : lookupName ltype Gen.logicalTypes = some ty)
    (b : UInt8) : Enc1 (Seg.logical (.bytes [b]) ltype) (PSeg.logical ty b.toNat) 6 :=
  encLogical_byte ltype ty hty b

theorem enc1_symbol (name : Name) (hlen : name.length ≤ 255) (hascii : ∀ c ∈ name, c < 128) :
    Enc1 (Seg.dataStr name) (PSeg.symbol (name.map UInt8.ofNat)) (2 + name.length + 1) :=
  encDataStr_ok name hlen hascii

/-! ### helper lemmas: rendered tags -/

theorem mem_joinWith (sep : Nat) (xs : List Name) (c : Nat) (h : c ∈ joinWith sep xs) :
    c = sep ∨ ∃ x ∈ xs, c ∈ x := by
  induction xs with
  | nil => simp [joinWith] at h
  | cons x rest ih =>
    cases rest with
    | nil => simp only [joinWith] at h; exact Or.inr ⟨x, by simp, h⟩
    | cons y rest =>
      simp only [joinWith, List.mem_append, List.mem_singleton] at h
      rcases h with (h | h) | h
      · exact Or.inr ⟨x, by simp, h⟩
      · exact Or.inl h
      · rcases ih h with h | ⟨z, hz, hc⟩
        · exact Or.inl h
        · exact Or.inr ⟨z, by simp [hz], hc⟩

theorem splitOn_joinWith (sep : Nat) (xs : List Name) (hne : xs ≠ []) (h : ∀ x ∈ xs, sep ∉ x) :
    splitOn sep (joinWith sep xs) = xs := by
  induction xs with
  | nil => exact absurd rfl hne
  | cons x rest ih =>
    cases rest with
    | nil => simp only [joinWith]; exact splitOn_no_sep sep x (h x (by simp))
    | cons y rest =>
      simp only [joinWith, List.append_assoc, List.singleton_append]
      rw [splitOn_append_sep sep x _ (h x (by simp)), ih (by simp) (fun z hz => h z (by simp [hz]))]

theorem ident_facts (c : Nat) (h : identChar c = true) :
    c ≠ 91 ∧ c ≠ 93 ∧ c ≠ 44 ∧ c ≠ 46 ∧ c < 128 := by
  simp [identChar] at h; omega

theorem digit_facts (c : Nat) (h : PyStr.isDigitC c = true) : c ≠ 91 ∧ c ≠ 93 ∧ c ≠ 44 ∧ c ≠ 46 := by
  simp [PyStr.isDigitC] at h; omega

theorem idxJoin_facts (idx : List Nat) (c : Nat) (h : c ∈ joinWith 44 (idx.map decRender)) : c ≠ 91 ∧ c ≠ 46 := by
  rcases mem_joinWith _ _ _ h with h | ⟨x, hx, hc⟩
  · omega
  · obtain ⟨n, _, rfl⟩ := List.mem_map.mp hx
    have := digit_facts c (decRender_digits n c hc)
    omega

theorem renderLevel_no_dot (l : TagLevel) (hw : WfLevel l) : (46 : Nat) ∉ renderLevel l := by
  obtain ⟨_, _, hid, _, _⟩ := hw
  intro hm
  unfold renderLevel at hm
  split at hm
  · exact (ident_facts 46 (hid 46 hm)).2.2.2.1 rfl
  · simp only [List.mem_append, List.mem_singleton] at hm
    rcases hm with ((hm | hm) | hm) | hm
    · exact (ident_facts 46 (hid 46 hm)).2.2.2.1 rfl
    · omega
    · exact (idxJoin_facts _ 46 hm).2 rfl
    · omega

theorem findTagIndex_render' (l : TagLevel) (hw : WfLevel l) :
    findTagIndex (renderLevel l) = (l.name, l.idx.map decRender) := by
  obtain ⟨_, _, hid, _, _⟩ := hw
  have hn91 : (91 : Nat) ∉ l.name := fun hm => (ident_facts 91 (hid 91 hm)).1 rfl
  unfold renderLevel
  split
  · rename_i h0
    simp [findTagIndex, find_none 91 l.name hn91, h0]
  · rename_i h0
    have e1 : l.name ++ [91] ++ joinWith 44 (l.idx.map decRender) ++ [93] =
        l.name ++ 91 :: (joinWith 44 (l.idx.map decRender) ++ [93]) := by simp
    have e2 : (l.name ++ [91] ++ joinWith 44 (l.idx.map decRender) ++ [93]).take
        ((l.name ++ [91] ++ joinWith 44 (l.idx.map decRender) ++ [93]).length - 1) =
        l.name ++ 91 :: joinWith 44 (l.idx.map decRender) := by
      have : (l.name ++ [91] ++ joinWith 44 (l.idx.map decRender) ++ [93]).length - 1 =
          (l.name ++ [91] ++ joinWith 44 (l.idx.map decRender)).length := by simp
      rw [this, List.take_left']
      · simp
      · rfl
    have e3 : PyStr.split 44 (joinWith 44 (l.idx.map decRender)) = l.idx.map decRender := by
      apply splitOn_joinWith
      · simpa using h0
      · intro x hx hm
        obtain ⟨n, _, rfl⟩ := List.mem_map.mp hx
        exact (digit_facts 44 (decRender_digits n 44 hm)).2.2.1 rfl
    have e4 : (l.name ++ 91 :: joinWith 44 (l.idx.map decRender)).take l.name.length = l.name := by
      rw [List.take_left']; rfl
    have e5 : (l.name ++ 91 :: joinWith 44 (l.idx.map decRender)).drop (l.name.length + 1) =
        joinWith 44 (l.idx.map decRender) := by
      have : l.name ++ 91 :: joinWith 44 (l.idx.map decRender) =
          (l.name ++ [91]) ++ joinWith 44 (l.idx.map decRender) := by simp
      rw [this, List.drop_left']
      simp
    simp only [findTagIndex, e2]
    rw [e1, find_append 91 _ _ hn91]
    simp only [find_append 91 _ _ hn91, e3, e4, e5]

/-- the source segments a level is turned into -/
def idxSrc (idx : List Nat) : List Seg := idx.map fun (i : Nat) => Seg.logical (.int (i : Int)) (nm "member_id")
def levelSrc (l : TagLevel) : List Seg := Seg.dataStr l.name :: idxSrc l.idx

theorem indexSegs_render (idx : List Nat) : indexSegs (idx.map decRender) = .ok (idxSrc idx) := by
  induction idx with
  | nil => rfl
  | cons i idx ih =>
    simp only [List.map_cons, indexSegs, pyInt_decRender' i, ih, bind, Except.bind]
    rfl

theorem attrSegs_render (ls : List TagLevel) (hw : ∀ l ∈ ls, WfLevel l) :
    attrSegs (ls.map renderLevel) = .ok (ls.flatMap levelSrc) := by
  induction ls with
  | nil => rfl
  | cons l ls ih =>
    have := ih (fun l hl => hw l (by simp [hl]))
    simp [attrSegs, findTagIndex_render' l (hw l (by simp)), indexSegs_render, this, bind, Except.bind, levelSrc]

theorem encAll_idx (idx : List Nat) (h : ∀ i ∈ idx, i < 2 ^ 32) :
    EncAll (idxSrc idx) (idx.map (PSeg.logical 8)) (6 * idx.length) := by
  induction idx with
  | nil => exact EncAll.nil
  | cons i idx ih =>
    have hm : lookupName (nm "member_id") Gen.logicalTypes = some 8 := by decide
    have := EncAll.cons (enc1_logical _ _ hm i (h i (by simp))) (ih (fun j hj => h j (by simp [hj])))
    exact this.mono (by simp; omega)

theorem encAll_level (l : TagLevel) (hw : WfLevel l) :
    EncAll (levelSrc l) (levelSegs l) (2 + l.name.length + 1 + 6 * l.idx.length) := by
  obtain ⟨_, hlen, hid, _, hidx⟩ := hw
  exact EncAll.cons (enc1_symbol l.name hlen (fun c hc => (ident_facts c (hid c hc)).2.2.2.2)) (encAll_idx l.idx hidx)

theorem encAll_levels (ls : List TagLevel) (hw : ∀ l ∈ ls, WfLevel l) :
    EncAll (ls.flatMap levelSrc) (ls.flatMap levelSegs)
      ((ls.map fun l => 2 + l.name.length + 1 + 6 * l.idx.length).sum) := by
  induction ls with
  | nil => exact EncAll.nil
  | cons l ls ih =>
    have := EncAll.append (encAll_level l (hw l (by simp))) (ih (fun l hl => hw l (by simp [hl])))
    simpa using this

theorem split_renderTag (ls : List TagLevel) (hne : ls ≠ []) (hw : ∀ l ∈ ls, WfLevel l) :
    PyStr.split 46 (renderTag ls) = ls.map renderLevel := by
  apply splitOn_joinWith
  · simpa using hne
  · intro x hx
    obtain ⟨l, hl, rfl⟩ := List.mem_map.mp hx
    exact renderLevel_no_dot l (hw l hl)

-- PROPERTY THEOREMS

/-- the generated segment tables have the shape the CIP specification gives them (logical format 00 = 8-bit, 01 = 16-bit, 10 = 32-bit; 11 is reserved) -/
theorem logical_tables_wf :
    Gen.LOGICAL_SEGMENT_TYPE = 32 ∧ Gen.logicalFormat = [(1, 0), (2, 1), (4, 2)] ∧
    (Gen.logicalTypes.all fun e => e.2 % 4 == 0 && e.2 < 32) = true ∧
    lookupName (nm "class_id") Gen.logicalTypes = some 0 ∧
    lookupName (nm "instance_id") Gen.logicalTypes = some 4 ∧
    lookupName (nm "member_id") Gen.logicalTypes = some 8 ∧
    lookupName (nm "attribute_id") Gen.logicalTypes = some 16 := by
  decide

/-- every logical value below 2^32 of every logical type is emitted as a well-formed padded segment
    (8/16/32-bit format chosen by size, pad byte for the wide formats, even length) that the independent
    parser decodes back to exactly that type and value -/
theorem logical_roundtrip (ltype : Name) (ty : Nat) (hty : lookupName ltype Gen.logicalTypes = some ty)
    (v : Nat) (hv : v < 2 ^ 32) :
    ∃ bs, encLogical (.int v) ltype true = .ok bs ∧ bs.length % 2 = 0 ∧
      ∀ rest fuel, rest.length + bs.length < fuel →
        parsePadded fuel (bs ++ rest) = (parsePadded (fuel - 1) rest).map (PSeg.logical ty v :: ·) := by
  obtain ⟨bs, h1, _, h2, h3, h4⟩ := encLogical_int ltype ty hty v hv
  exact ⟨bs, h1, h3, h4⟩

/-- port segments: port number 1..14 with a one-byte link -/
theorem port_roundtrip_slot (p : Nat) (hp : 1 ≤ p ∧ p ≤ 14) (l : Nat) (hl : l < 256) :
    encPort (.int p) (.int l) = .ok [UInt8.ofNat p, UInt8.ofNat l] ∧
    ∀ rest fuel, rest.length + 2 < fuel →
      parsePadded fuel ([UInt8.ofNat p, UInt8.ofNat l] ++ rest) =
        (parsePadded (fuel - 1) rest).map (PSeg.port p [UInt8.ofNat l] :: ·) := by
  refine ⟨encPort_slot p hp l hl, ?_⟩
  intro rest fuel hf
  exact (segok_port p hp (UInt8.ofNat l)).2.2 rest fuel (by simpa using hf)

/-- port segments with an IPv4 link address: extended link, length byte, ASCII address, pad to even -/
theorem port_roundtrip_ip (p : Nat) (hp : 1 ≤ p ∧ p ≤ 14) (s : Name) (octets : List Nat)
    (hip : parseIPv4 s = some octets) (hlen : 1 < s.length ∧ s.length ≤ 255) (hascii : ∀ c ∈ s, c < 128) :
    ∃ bs, encPort (.int p) (.str s) = .ok bs ∧ bs.length % 2 = 0 ∧
      ∀ rest fuel, rest.length + bs.length < fuel →
        parsePadded fuel (bs ++ rest) =
          (parsePadded (fuel - 1) rest).map (PSeg.port p (s.map UInt8.ofNat) :: ·) := by
  have _ := hascii
  refine ⟨_, encPort_ip p hp s octets hip hlen, ?_⟩
  have hx : (UInt8.ofNat (p + 16)).toNat = p + 16 := by rw [toNat_ofNat]; omega
  have := segok_prefixed (UInt8.ofNat (p + 16)) (s.map UInt8.ofNat) (PSeg.port p (s.map UInt8.ofNat))
    (fun rest k => step_port_ext _ p hx hp _ (by simpa using hlen.2) rest k)
  exact ⟨this.2.1, this.2.2⟩

/-- symbolic segments: ANSI extended symbol, length byte, name, pad to even -/
theorem symbol_roundtrip (name : Name) (hlen : name.length ≤ 255) (hascii : ∀ c ∈ name, c < 128) :
    ∃ bs, encDataStr name = .ok bs ∧ bs.length % 2 = 0 ∧
      ∀ rest fuel, rest.length + bs.length < fuel →
        parsePadded fuel (bs ++ rest) =
          (parsePadded (fuel - 1) rest).map (PSeg.symbol (name.map UInt8.ofNat) :: ·) := by
  obtain ⟨bs, h1, _, h2, h3, h4⟩ := encDataStr_ok name hlen hascii
  exact ⟨bs, h1, h3, h4⟩

/-- word-count prefix: the first byte of a length-prefixed padded path is its length in 16-bit words,
    for any list of logical / port / symbolic segments -/
theorem epath_wordcount (segs : List Seg)
    (bs : Bytes) (h : encEpath true segs true false = .ok bs)
    (heven : ∀ s ∈ segs, ∀ e, encSeg true s = .ok e → e.length % 2 = 0) :
    ∃ body, bs = UInt8.ofNat (body.length / 2) :: body ∧ body.length % 2 = 0 ∧ body.length / 2 < 256 := by
  simp only [encEpath] at h
  split at h
  · cases h
  · rename_i path hpath
    simp only [if_true] at h
    split at h
    · rename_i l hl
      obtain ⟨h0, h255, rfl⟩ := usint_ok_inv _ _ hl
      cases h
      refine ⟨path, ?_, encSegs_even segs path hpath heven, by omega⟩
      have : ((path.length : Int) / 2).toNat = path.length / 2 := by omega
      simp [this]
    · cases h

/-- class/instance(/attribute) paths of generic messages parse back to exactly those ids -/
theorem request_path_denotes (cls inst attr : Nat) (hc : cls < 2 ^ 32) (hi : inst < 2 ^ 32) (ha : attr < 2 ^ 32) :
    ∃ bs, requestPath (.int cls) (.int inst) (.int attr) = .ok bs ∧
      parseRequestPath bs = some ([PSeg.logical 0 cls, PSeg.logical 4 inst] ++
        (if attr = 0 then [] else [PSeg.logical 16 attr]), []) := by
  have hc0 : lookupName (nm "class_id") Gen.logicalTypes = some 0 := by decide
  have hi4 : lookupName (nm "instance_id") Gen.logicalTypes = some 4 := by decide
  have ha16 : lookupName (nm "attribute_id") Gen.logicalTypes = some 16 := by decide
  have e1 := enc1_logical _ _ hc0 cls hc
  have e2 := enc1_logical _ _ hi4 inst hi
  have e3 := enc1_logical _ _ ha16 attr ha
  by_cases h0 : attr = 0
  · subst h0
    have ht : (LVal.int ((0 : Nat) : Int)).truthy = false := by simp [LVal.truthy]
    have := (EncAll.cons e1 (EncAll.cons e2 EncAll.nil)).request (by omega)
    simp only [requestPath, ht]
    simpa using this
  · have ht : (LVal.int (attr : Int)).truthy = true := by simp [LVal.truthy, h0]
    have := (EncAll.cons e1 (EncAll.cons e2 (EncAll.cons e3 EncAll.nil))).request (by omega)
    simpa [requestPath, ht, h0] using this

/-- decimal indices are read back exactly -/
theorem pyInt_decRender (n : Nat) : PyStr.pyInt (decRender n) = some (n : Int) := by
  exact pyInt_decRender' n

/-- a rendered level is split into its name and its index strings -/
theorem findTagIndex_render (l : TagLevel) (hw : WfLevel l) :
    findTagIndex (renderLevel l) = (l.name, l.idx.map decRender) := by
  exact findTagIndex_render' l hw

/-- every tag in the documented syntax (any nesting depth, 0–3 indices per level, symbolic addressing)
    is emitted as a request path that the independent parser decodes to exactly the intended names and indices -/
theorem tag_path_denotes (ls : List TagLevel) (hne : ls ≠ []) (hw : ∀ l ∈ ls, WfLevel l)
    (hsize : (ls.map fun l => 2 + l.name.length + 1 + 6 * l.idx.length).sum ≤ 510) :
    ∃ bs, tagRequestPath (renderTag ls) none false = .ok (some bs) ∧
      parseRequestPath bs = some (ls.flatMap levelSegs, []) := by
  cases ls with
  | nil => exact absurd rfl hne
  | cons l0 rest =>
    have hsplit := split_renderTag (l0 :: rest) hne hw
    have hfind := findTagIndex_render' l0 (hw l0 (by simp))
    have hattr := attrSegs_render rest (fun l hl => hw l (by simp [hl]))
    obtain ⟨bs, hb, hp⟩ := (encAll_levels (l0 :: rest) hw).request hsize
    refine ⟨bs, ?_, hp⟩
    have hb' : encEpath true ([Seg.dataStr l0.name] ++ idxSrc l0.idx ++ rest.flatMap levelSrc) true false = .ok bs := by
      simpa [levelSrc] using hb
    simp only [tagRequestPath, hsplit, List.map_cons, hfind, indexSegs_render, hattr, Bool.false_and, if_false,
      Bool.false_eq_true, hb']

/-- symbol-instance addressing: class 0x6B + instance id replace the base tag name -/
theorem tag_path_instance (base : TagLevel) (rest : List TagLevel) (inst : Nat)
    (hw : ∀ l ∈ base :: rest, WfLevel l) (hi : 0 < inst ∧ inst < 2 ^ 32)
    (hprog : PyStr.startsWith (nm "Program:") (renderLevel base) = false)
    (hsize : ((base :: rest).map fun l => 2 + l.name.length + 1 + 6 * l.idx.length).sum ≤ 500) :
    ∃ bs, tagRequestPath (renderTag (base :: rest)) (some inst) true = .ok (some bs) ∧
      parseRequestPath bs = some ([PSeg.logical 0 0x6B, PSeg.logical 4 inst] ++ base.idx.map (PSeg.logical 8) ++
        rest.flatMap levelSegs, []) := by
  have hsplit := split_renderTag (base :: rest) (by simp) hw
  have hwb := hw base (by simp)
  have hfind := findTagIndex_render' base hwb
  have hattr := attrSegs_render rest (fun l hl => hw l (by simp [hl]))
  have hc0 : lookupName (nm "class_id") Gen.logicalTypes = some 0 := by decide
  have hi4 : lookupName (nm "instance_id") Gen.logicalTypes = some 4 := by decide
  have hall := EncAll.cons (enc1_logical_byte _ _ hc0 0x6b)
    (EncAll.cons (enc1_logical _ _ hi4 inst hi.2)
      (EncAll.append (encAll_idx base.idx hwb.2.2.2.2) (encAll_levels rest (fun l hl => hw l (by simp [hl])))))
  have hbound : 6 + (6 + (6 * base.idx.length +
      (rest.map fun l => 2 + l.name.length + 1 + 6 * l.idx.length).sum)) ≤ 510 := by
    simp only [List.map_cons, List.sum_cons] at hsize
    omega
  obtain ⟨bs, hb, hp⟩ := hall.request hbound
  refine ⟨bs, ?_, ?_⟩
  · have hne : (inst != 0) = true := by simp; omega
    have hb' : encEpath true ([Seg.logical (.bytes [0x6b]) (nm "class_id"),
        Seg.logical (.int ((inst : Nat) : Int)) (nm "instance_id")] ++ idxSrc base.idx ++ rest.flatMap levelSrc)
        true false = .ok bs := by
      simpa using hb
    simp only [tagRequestPath, hsplit, List.map_cons, hfind, indexSegs_render, hattr, hprog, Option.getD_some, hne,
      Bool.true_and, Bool.not_false, if_true, hb']
  · rw [hp]
    have : (0x6b : UInt8).toNat = 0x6B := by decide
    simp [this]

end Pycomm.Path
