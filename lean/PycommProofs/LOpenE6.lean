/-
  LogixDriver.open(), end to end, part 6: `_initialize_driver` unfolded along its successful path (ControlLogix and
  Micro800 variants), the decorator in front of `get_plc_name` / `get_tag_list`, and the identification steps with what
  they leave of the target.
-/
import PycommProofs.LOpenE4
import PycommProofs.LOpenE5
namespace Pycomm.Lgx.Opn
open Pycomm Pycomm.Tgt Pycomm.Path Pycomm.Reply Pycomm.Encap Pycomm.Cli Pycomm.Ident Pycomm.EP

/-! ### the decorator in front of `get_plc_name` and `get_tag_list` -/

/-- `get_plc_name()` on a driver the decorator connects first -/
theorem loe_getPlcName_via {σ} (hook : ObjHook σ) (w w0 : World σ)
    (hfo : ensureForwardOpen hook FUEL w = (w0, .ok ())) (hc : w0.drv.targetIsConnected = true) :
    getPlcName hook w = getPlcName hook w0 := by
  have h0 : ensureForwardOpen hook FUEL w0 = (w0, .ok ()) := gme_ensureFO_connected hook 7 w0 hc
  unfold getPlcName
  rw [hfo, h0]

/-- `get_tag_list()` on a driver the decorator connects first -/
theorem loe_getTagList_via {σ} (hook : ObjHook σ) (w w0 : World σ) (l : LDrv) (b : Bool)
    (hfo : ensureForwardOpen hook FUEL w = (w0, .ok ())) (hc : w0.drv.targetIsConnected = true) :
    getTagList hook w l b = getTagList hook w0 l b := by
  have h0 : ensureForwardOpen hook FUEL w0 = (w0, .ok ()) := gme_ensureFO_connected hook 7 w0 hc
  unfold getTagList
  rw [hfo, h0]

/-! ### `_initialize_driver` along its successful path -/

/-- the driver state after the identification steps -/
def loe_identified (l : LDrv) (micro : Bool) (plc : List (Name × PyVal)) (name : Option Name) : LDrv :=
  { l with micro800 := micro, info := { plc := plc, name := name },
           useInstanceIds := Drv.useInstanceIdsOf (revisionMajor { plc := plc }) micro }

/-- a ControlLogix / CompactLogix: identity, controller info, program name, then the tag upload -/
theorem loe_initialize_logix {σ} (hook : ObjHook σ) (cfg : Config) (w w1 w2 w3 : World σ) (l : LDrv)
    (identity plc : List (Name × PyVal)) (n : Name)
    (h1 : listIdentity hook w = (w1, .ok identity)) (hm : isMicro800 identity = false)
    (h2 : getPlcInfo hook w1 false = (w2, .ok plc)) (h3 : getPlcName hook w2 = (w3, .ok n)) :
    initializeDriver hook cfg w l =
      if cfg.initTags then getTagList hook w3 (loe_identified l false plc (some n)) cfg.initProgramTags
      else (w3, loe_identified l false plc (some n), .ok ()) := by
  unfold initializeDriver
  generalize getTagList hook = G
  generalize getPlcName hook = P at h3 ⊢
  generalize getPlcInfo hook = I at h2 ⊢
  generalize listIdentity hook = L at h1 ⊢
  simp only [h1, hm, h2, h3, Bool.false_eq_true, if_false]
  rfl

/-- a Micro800: no program name, the trailing backplane segment of the route is dropped before the tag upload -/
theorem loe_initialize_micro {σ} (hook : ObjHook σ) (cfg : Config) (w w1 w2 : World σ) (l : LDrv)
    (identity plc : List (Name × PyVal))
    (h1 : listIdentity hook w = (w1, .ok identity)) (hm : isMicro800 identity = true)
    (h2 : getPlcInfo hook w1 true = (w2, .ok plc)) :
    initializeDriver hook cfg w l =
      if cfg.initTags then
        getTagList hook { w2 with drv := { w2.drv with cipPath := popPortSegment w2.drv.cipPath } }
          (loe_identified l true plc none) cfg.initProgramTags
      else ({ w2 with drv := { w2.drv with cipPath := popPortSegment w2.drv.cipPath } }, loe_identified l true plc none, .ok ()) := by
  unfold initializeDriver
  generalize getTagList hook = G
  generalize getPlcName hook = P
  generalize getPlcInfo hook = I at h2 ⊢
  generalize listIdentity hook = L at h1 ⊢
  rw [h1]
  dsimp only
  rw [hm, h2]
  simp only [if_true]
  rfl

/-! ### the identification steps, with what they leave of the target -/

/-- what an unconnected exchange that only adds to the target's log leaves alone -/
structure loe_TKeep {σ} (t t' : Target σ) : Prop extends loe_TSame t t' where
  conns : t'.base.conns = t.base.conns
  nextCid : t'.base.nextCid = t.base.nextCid

theorem loe_TKeep.refl {σ} (t : Target σ) : loe_TKeep t t := ⟨loe_TSame.refl t, rfl, rfl⟩

theorem loe_TKeep.trans {σ} {a b c : Target σ} (h1 : loe_TKeep a b) (h2 : loe_TKeep b c) : loe_TKeep a c :=
  ⟨h1.toloe_TSame.trans h2.toloe_TSame, h2.conns.trans h1.conns, h2.nextCid.trans h1.nextCid⟩

/-- `_list_identity()` then `get_plc_info()` on a registered session: both answers are the target's identity; two
    frames; the driver is unchanged; of the target only the log grew -/
theorem loe_identify {σ} (hook : ObjHook σ) (w : World σ) (sess : Nat) (micro : Bool) (ps : List PSeg)
    (hw : gme_Session w sess) (hid : IdOk w.net.target.base.identity) (henc : EncAll w.drv.cipPath ps 300) :
    ∃ w1 w2,
      listIdentity hook w = (w1, .ok (ide_presentList w.net.target.base.identity)) ∧
      getPlcInfo hook w1 micro = (w2, .ok (ide_presentInfo w.net.target.base.identity)) ∧
      w2.drv = w.drv ∧ gme_Session w2 sess ∧ loe_TKeep w.net.target w2.net.target ∧
      (∃ f1 f2, w2.net.sent = w.net.sent ++ [f1, f2]) := by
  obtain ⟨w1, f1, _, h1, hs1, hd1, _, _, _, _, ht1, _, hk1⟩ :=
    list_identity_e2e hook w sess _ (ide_Sock_of_Session hw) rfl hid
  have hidn1 : w1.net.target.base.identity = w.net.target.base.identity := by rw [ht1]; rfl
  obtain ⟨route, _, _, h2⟩ := get_plc_info_e2e hook w1 sess micro _ ps (hk1 hw) hidn1 hid (by rw [hd1]; exact henc)
  obtain ⟨w2, f2, h2, hs2, hd2, ht2, hk2⟩ := h2
  refine ⟨w1, w2, ?_, h2, by rw [hd2, hd1], hk2, ?_, ⟨f1, f2, ?_⟩⟩
  · rw [ide_presentList_eq]; exact h1
  · rw [ht2, ht1]
    exact ⟨⟨rfl, rfl, rfl, rfl, rfl⟩, rfl, rfl⟩
  · rw [hs2, hs1]; simp

theorem loe_ProgName_mono {size size' : Nat} {pn : Name} (h : lon_ProgName size pn) (hs : size ≤ size') :
    lon_ProgName size' pn :=
  ⟨h.ne, h.colon, h.len, h.ascii, by have := h.size; omega⟩

theorem loe_Programs_mono {p : Project} {size size' : Nat} (h : loe_Programs p size) (hs : size ≤ size') :
    loe_Programs p size' :=
  ⟨fun s hs1 hs2 => loe_ProgName_mono (h.names s hs1 hs2) hs, h.syms⟩

end Pycomm.Lgx.Opn
