/-
  Helper definitions and lemmas for CodecErrors (C08): Except lemmas, decoder predicates,
  decoder combinators.
-/
import PycommProofs.CodecSpec
namespace Pycomm.ER

abbrev D (α : Type) := Bytes → R (α × Bytes)

theorem bind_ok_iff {α β} (x : R α) (f : α → R β) (b : β) :
    (x >>= f) = .ok b ↔ ∃ a, x = .ok a ∧ f a = .ok b := by
  cases x <;> simp [bind, Except.bind]

theorem bind_err_iff {α β} (x : R α) (f : α → R β) (e : Exn) :
    (x >>= f) = .error e ↔ x = .error e ∨ ∃ a, x = .ok a ∧ f a = .error e := by
  cases x <;> simp [bind, Except.bind]

def C2 (e : Exn) : Prop := e = .data ∨ e = .bufferEmpty
def C3 (e : Exn) : Prop := e = .data ∨ e = .bufferEmpty ∨ e = .hang

def ErrIn {α} (Q : Exn → Prop) (f : D α) : Prop := ∀ bs e, f bs = .error e → Q e
def Suf {α} (f : D α) : Prop := ∀ bs v r, f bs = .ok (v, r) → r <:+ bs
def Prog {α} (f : D α) : Prop := ∀ bs v r, f bs = .ok (v, r) → r.length < bs.length
def Stab {α} (f : D α) : Prop := ∀ p v r, f p = .ok (v, r) → ∀ ext, f (p ++ ext) = .ok (v, r ++ ext)
def Fixed {α} (f : D α) (w : Nat) : Prop := ∀ bs v r, f bs = .ok (v, r) → w ≤ bs.length ∧ r = bs.drop w

def bindD {α β} (f : D α) (g : α → D β) : D β := fun bs => f bs >>= fun p => g p.1 p.2
def ret {α} (a : α) : D α := fun bs => .ok (a, bs)
def fail {α} (e : Exn) : D α := fun _ => .error e

theorem bindD_ok {α β} (f : D α) (g : α → D β) (bs v r) :
    bindD f g bs = .ok (v, r) ↔ ∃ a r1, f bs = .ok (a, r1) ∧ g a r1 = .ok (v, r) := by
  simp [bindD, bind_ok_iff]

theorem bindD_err {α β} (f : D α) (g : α → D β) (bs e) :
    bindD f g bs = .error e ↔ f bs = .error e ∨ ∃ a r1, f bs = .ok (a, r1) ∧ g a r1 = .error e := by
  simp [bindD, bind_err_iff]


variable {α β : Type}

theorem ErrIn.mono {Q Q' : Exn → Prop} {f : D α} (h : ErrIn Q f) (hq : ∀ e, Q e → Q' e) : ErrIn Q' f :=
  fun bs e he => hq e (h bs e he)

theorem ErrIn.bind {Q : Exn → Prop} {f : D α} {g : α → D β} (hf : ErrIn Q f) (hg : ∀ a, ErrIn Q (g a)) :
    ErrIn Q (bindD f g) := by
  intro bs e h
  rcases (bindD_err ..).1 h with h | ⟨a, r1, _, h⟩
  · exact hf _ _ h
  · exact hg _ _ _ h

theorem ErrIn.ret {Q : Exn → Prop} {a : α} : ErrIn Q (ret a) := by
  intro bs e h; simp [ER.ret] at h

theorem ErrIn.fail {Q : Exn → Prop} {e : Exn} (h : Q e) : ErrIn Q (fail e : D α) := by
  intro bs e' h'; simp [ER.fail] at h'; exact h' ▸ h

theorem Suf.bind {f : D α} {g : α → D β} (hf : Suf f) (hg : ∀ a, Suf (g a)) : Suf (bindD f g) := by
  intro bs v r h
  obtain ⟨a, r1, h1, h2⟩ := (bindD_ok ..).1 h
  exact (hg _ _ _ _ h2).trans (hf _ _ _ h1)

theorem Suf.ret {a : α} : Suf (ret a) := by
  intro bs v r h; simp [ER.ret] at h; exact h.2 ▸ List.suffix_refl _

theorem Suf.fail {e : Exn} : Suf (fail e : D α) := by
  intro bs v r h; simp [ER.fail] at h

theorem Prog.bind_left {f : D α} {g : α → D β} (hf : Prog f) (hg : ∀ a, Suf (g a)) : Prog (bindD f g) := by
  intro bs v r h
  obtain ⟨a, r1, h1, h2⟩ := (bindD_ok ..).1 h
  have := (hg _ _ _ _ h2).length_le
  have := hf _ _ _ h1
  omega

theorem Prog.fail {e : Exn} : Prog (fail e : D α) := by
  intro bs v r h; simp [ER.fail] at h

theorem Stab.bind {f : D α} {g : α → D β} (hf : Stab f) (hg : ∀ a, Stab (g a)) : Stab (bindD f g) := by
  intro p v r h ext
  obtain ⟨a, r1, h1, h2⟩ := (bindD_ok ..).1 h
  exact (bindD_ok ..).2 ⟨a, r1 ++ ext, hf _ _ _ h1 ext, hg _ _ _ _ h2 ext⟩

theorem Stab.ret {a : α} : Stab (ret a) := by
  intro p v r h ext; simp [ER.ret] at h ⊢; simp [h]

theorem Stab.fail {e : Exn} : Stab (fail e : D α) := by
  intro p v r h; simp [ER.fail] at h

theorem Fixed.bind {f : D α} {g : α → D β} {w1 w2 : Nat} (hf : Fixed f w1) (hg : ∀ a, Fixed (g a) w2) :
    Fixed (bindD f g) (w1 + w2) := by
  intro bs v r h
  obtain ⟨a, r1, h1, h2⟩ := (bindD_ok ..).1 h
  obtain ⟨l1, e1⟩ := hf _ _ _ h1
  obtain ⟨l2, e2⟩ := hg _ _ _ _ h2
  subst e1 e2
  simp at l2
  refine ⟨by omega, ?_⟩
  simp [List.drop_drop]

theorem Fixed.ret {a : α} : Fixed (ret a) 0 := by
  intro bs v r h; simp [ER.ret] at h; simp [h]

theorem Fixed.fail {e : Exn} {w : Nat} : Fixed (fail e : D α) w := by
  intro bs v r h; simp [ER.fail] at h

theorem Fixed.suf {f : D α} {w : Nat} (h : Fixed f w) : Suf f := by
  intro bs v r h'; rw [(h _ _ _ h').2]; exact List.drop_suffix _ _

theorem Fixed.prog {f : D α} {w : Nat} (h : Fixed f w) (hw : 0 < w) : Prog f := by
  intro bs v r h'; obtain ⟨l, e⟩ := h _ _ _ h'; subst e; simp; omega

/-- read exactly `n > 0` bytes: nothing there → BufferEmptyError, too few → DataError -/
def rd (n : Nat) : D Bytes := fun bs =>
  if n = 0 ∨ bs = [] then .error .bufferEmpty
  else if bs.length < n then .error .data
  else .ok (bs.take n, bs.drop n)

/-- `stream.read(1)[0]` -/
def byte1 : D UInt8 := fun bs =>
  match bs with
  | [] => .error .data
  | b :: r => .ok (b, r)

theorem streamRead_nat (n : Nat) (bs : Bytes) :
    streamRead (n : Int) bs =
      if n = 0 ∨ bs = [] then .error .bufferEmpty else .ok (bs.take n, bs.drop n) := by
  have : ¬ ((n : Int) < 0) := by omega
  simp [streamRead, this]

theorem rd_ok (n : Nat) (bs d r) : rd n bs = .ok (d, r) ↔ 0 < n ∧ n ≤ bs.length ∧ d = bs.take n ∧ r = bs.drop n := by
  unfold rd
  split
  · rename_i h; rcases h with h | h <;> simp [h]; omega
  · split
    · simp; omega
    · rename_i h1 h2
      simp at h1 h2 ⊢
      constructor
      · rintro ⟨rfl, rfl⟩; exact ⟨by omega, h2, rfl, rfl⟩
      · rintro ⟨_, _, rfl, rfl⟩; exact ⟨rfl, rfl⟩

theorem rd_err (n : Nat) (bs e) : rd n bs = .error e ↔
    ((n = 0 ∨ bs = []) ∧ e = .bufferEmpty) ∨ (¬ (n = 0 ∨ bs = []) ∧ bs.length < n ∧ e = .data) := by
  unfold rd
  split
  · rename_i h; simp [h]; exact eq_comm
  · rename_i h
    split
    · rename_i h2; simp [h, h2]; exact eq_comm
    · rename_i h2; simp [h, h2]

theorem rd_errIn {Q : Exn → Prop} (n : Nat) (hq : ∀ e, C2 e → Q e) : ErrIn Q (rd n) := by
  intro bs e h
  rcases (rd_err ..).1 h with ⟨_, rfl⟩ | ⟨_, _, rfl⟩
  · exact hq _ (Or.inr rfl)
  · exact hq _ (Or.inl rfl)

theorem rd_fixed (n : Nat) : Fixed (rd n) n := by
  intro bs v r h
  obtain ⟨_, h2, _, h4⟩ := (rd_ok ..).1 h
  exact ⟨h2, h4⟩

theorem rd_suf (n : Nat) : Suf (rd n) := (rd_fixed n).suf

theorem rd_prog (n : Nat) : Prog (rd n) := by
  intro bs v r h
  obtain ⟨h1, h2, _, h4⟩ := (rd_ok ..).1 h
  subst h4; simp; omega

theorem rd_stab (n : Nat) : Stab (rd n) := by
  intro p v r h ext
  obtain ⟨h1, h2, h3, h4⟩ := (rd_ok ..).1 h
  refine (rd_ok ..).2 ⟨h1, by simp; omega, ?_, ?_⟩
  · rw [h3, List.take_append_of_le_length h2]
  · rw [h4, List.drop_append_of_le_length h2]

theorem byte1_errIn {Q : Exn → Prop} (hq : ∀ e, C2 e → Q e) : ErrIn Q byte1 := by
  intro bs e h
  cases bs <;> simp [byte1] at h
  exact h ▸ hq _ (Or.inl rfl)

theorem byte1_fixed : Fixed byte1 1 := by
  intro bs v r h
  cases bs <;> simp [byte1] at h
  simp [h]

theorem byte1_suf : Suf byte1 := byte1_fixed.suf

theorem byte1_stab : Stab byte1 := by
  intro p v r h ext
  cases p <;> simp [byte1] at h
  simp [byte1, h]


/-- the three properties every non-recursive tail-safe decoder has -/
structure Good (f : D α) : Prop where
  err : ErrIn C2 f
  suf : Suf f
  stab : Stab f

theorem Good.bind {f : D α} {g : α → D β} (hf : Good f) (hg : ∀ a, Good (g a)) : Good (bindD f g) :=
  ⟨hf.err.bind fun a => (hg a).err, hf.suf.bind fun a => (hg a).suf, hf.stab.bind fun a => (hg a).stab⟩

theorem Good.ret {a : α} : Good (ret a) := ⟨ErrIn.ret, Suf.ret, Stab.ret⟩
theorem Good.fail : Good (fail .data : D α) := ⟨ErrIn.fail (Or.inl rfl), Suf.fail, Stab.fail⟩
theorem Good.rd (n : Nat) : Good (rd n) := ⟨rd_errIn n fun _ h => h, rd_suf n, rd_stab n⟩
theorem Good.byte1 : Good byte1 := ⟨byte1_errIn fun _ h => h, byte1_suf, byte1_stab⟩

end Pycomm.ER
