/-
  LogixDriver.read of TWO elementary scalar tags in one call: the multi-service path
  (`_read_build_multi_requests`, `MultiServiceRequestPacket`, the reference controller's Multiple Service Packet,
  `MultiServiceResponsePacket`).
-/
import PycommProofs.LDRead2Core
namespace Pycomm.Lgx.Drv
open Pycomm Pycomm.Tgt Pycomm.Path Pycomm.Reply Pycomm.Encap Pycomm.Lgx Pycomm.Lgx.E2E

/-! ### (e) an embedded reply behind the 46 zero bytes the multi-service response class puts in front -/

theorem ldr2_parse_padded_reply (svc : Nat) (data : Bytes) :
    ∃ cmd svc', parseCip (some (List.replicate 46 0 ++ encMRReply svc { status := 0, ext := [], data := data })) .connected =
      { err := none, command := some cmd, commandStatus := some 0, service := svc', serviceStatus := some 0,
        data := some data } := by
  have hsv : 128 ≤ (UInt8.ofNat (svc % 128 + 128)).toNat := by rw [EP.toNat_ofNat]; omega
  have hmr : encMRReply svc { status := 0, ext := [], data := data } =
      [UInt8.ofNat (svc % 128 + 128), 0, 0, 0] ++ data := by
    simp [encMRReply]
  rw [hmr]
  generalize hraw : List.replicate 46 (0 : UInt8) ++ ([UInt8.ofNat (svc % 128 + 128), 0, 0, 0] ++ data) = raw
  have hH : (List.replicate 46 (0 : UInt8)).length = Transport.connected.off := by simp [Transport.off]
  have hraw1 : raw = List.replicate 8 (0 : UInt8) ++ ([0, 0, 0, 0] ++
      (List.replicate 34 (0 : UInt8) ++ ([UInt8.ofNat (svc % 128 + 128), 0, 0, 0] ++ data))) := by
    rw [← hraw]
    have : List.replicate 46 (0 : UInt8) = List.replicate 8 0 ++ ([0, 0, 0, 0] ++ List.replicate 34 0) := by decide
    rw [this]; simp only [List.append_assoc]
  obtain ⟨k1, k2, k3⟩ := Cli.parseCip_ok raw .connected _ _ (by simp) hraw1 _ hsv data _ hH hraw.symm
  have hlen : Transport.connected.off + 3 ≤ raw.length := by
    rw [← hraw, List.length_append, hH]; simp
  have hget : 128 ≤ (raw.getD Transport.connected.off 0).toNat := by
    rw [← hraw, ← hH]
    simpa [List.getD_eq_getElem?_getD] using hsv
  obtain ⟨svc', _, hp⟩ := RP.parseCip_good .connected raw hlen hget
  rw [hp] at k1 k2 k3 ⊢
  simp only [Option.some.injEq] at k1 k2 k3
  rw [k1, k2, k3]
  exact ⟨_, _, rfl⟩

/-- (e) such an embedded reply is a valid response without error that carries the service data -/
theorem ldr2_tagResp_padded (svc : Nat) (data : Bytes) :
    (tagResp (some (List.replicate 46 0 ++ encMRReply svc { status := 0, ext := [], data := data }))).valid = true ∧
    (tagResp (some (List.replicate 46 0 ++ encMRReply svc { status := 0, ext := [], data := data }))).p.data = some data := by
  obtain ⟨cmd, svc', hp⟩ := ldr2_parse_padded_reply svc data
  have hv : validCip .connected (parseCip (some (List.replicate 46 0 ++
      encMRReply svc { status := 0, ext := [], data := data })) .connected) = true := by
    rw [hp]; exact (validCip_record _ _ _ _ _ _).2 ⟨rfl, Or.inl rfl⟩
  unfold tagResp
  simp only [hv]
  rw [hp]
  exact ⟨trivial, rfl⟩

/-- (e) `ReadTagResponsePacket` over an embedded reply whose data `parse_read_reply` decodes -/
theorem ldr2_readResp_padded (req : ReadReq) (data : Bytes) (v : PyVal) (dt : Name)
    (hp : parseReadReply data req.info req.elements = .ok (v, dt)) :
    (readResp req (some (List.replicate 46 0 ++ encMRReply 0x4C { status := 0, ext := [], data := data }))).1.valid = true ∧
    (readResp req (some (List.replicate 46 0 ++ encMRReply 0x4C { status := 0, ext := [], data := data }))).2 =
      (v, some dt) := by
  obtain ⟨h1, h2⟩ := ldr2_tagResp_padded 0x4C data
  unfold readResp
  simp only [h1, if_true, h2, Option.getD_some, hp]
  exact ⟨trivial, trivial⟩

/-! ### (b) building the multi-service request for two live requests -/

/-- the parsed request of a plain tag name at position `rid` (`ldr_parse_plain`) -/
def ldr2_parsedAt (rid : Nat) (n : Name) (info : TagInfo) : Parsed :=
  { requestId := rid, requestTag := n, userTag := n, plcTag := n, bit := none, elements := 1, info := some info,
    boolElements := none }

/-- the estimated reply size of a one-element read (`_tag_return_size` + `len(request.message)` + 2) -/
def ldr2_estimate (info : TagInfo) (path : Bytes) : Nat := tagReturnSize info 1 + (2 + (Cl.readMsg path 1).length) + 2

/-- (b) `_read_build_multi_requests` for two error-free one-element requests whose estimated replies fit one
    multi-service packet: three sequence numbers are drawn (one per read packet, one for the multi-service packet),
    the result is one multi-service request embedding the two reads in order -/
theorem ldr2_build_two (cfg : Cfg) (d : Cli.Drv) (a b : Name) (ia ib : TagInfo) (pa pb : Bytes)
    (hmicro : cfg.micro800 = false)
    (hpa : requestPathOf cfg a ia = .ok pa) (hpb : requestPathOf cfg b ib = .ok pb)
    (hsize : K.OVERHEAD + ldr2_estimate ia pa + ldr2_estimate ib pb ≤ d.connectionSize) :
    readBuildRequests cfg d [ldr2_parsedAt 0 a ia, ldr2_parsedAt 1 b ib] =
      (d.nextSeq.2.nextSeq.2.nextSeq.2,
       .ok [Request.multiRead d.nextSeq.2.nextSeq.2.nextSeq.1
              [{ seq := d.nextSeq.1, tag := a, elements := 1, info := ia, rid := 0, path := pa },
               { seq := d.nextSeq.2.nextSeq.1, tag := b, elements := 1, info := ib, rid := 1, path := pb }]]) := by
  have hel : elementsNat 1 = .ok 1 := rfl
  have hcs1 : d.nextSeq.2.connectionSize = d.connectionSize := by rw [(Cli.lcs_nextSeq d).2]
  have hoh : K.OVERHEAD = 10 := rfl
  unfold ldr2_estimate at hsize
  have hna : ¬ (tagReturnSize ia 1 + (2 + (Cl.readMsg pa 1).length) + 2 + K.OVERHEAD > d.connectionSize) := by omega
  have hnb : ¬ (tagReturnSize ib 1 + (2 + (Cl.readMsg pb 1).length) + 2 + K.OVERHEAD > d.connectionSize) := by omega
  have hg1 : ¬ (K.OVERHEAD + (tagReturnSize ia 1 + (2 + (Cl.readMsg pa 1).length) + 2) > d.connectionSize) := by omega
  have hg2 : ¬ (K.OVERHEAD + (tagReturnSize ia 1 + (2 + (Cl.readMsg pa 1).length) + 2) +
      (tagReturnSize ib 1 + (2 + (Cl.readMsg pb 1).length) + 2) > d.connectionSize) := by omega
  unfold readBuildRequests
  simp only [List.length_cons, List.length_nil, Nat.zero_add, Nat.reduceAdd, ne_eq, Nat.succ_ne_self,
    not_false_eq_true, hmicro, Bool.not_false, and_self, if_true,
    readBuildLive, ldr2_parsedAt, mkReadReq, hpa, hpb, hel, ReadReq.returnSize, ReadReq.messageLen, hna, hnb, decide_false,
    Bool.false_eq_true, if_false, Except.map, List.map_cons, List.map_nil]
  simp only [K.plan, List.filter_cons, List.filter_nil, Bool.not_false, if_true, hna, hnb, decide_false, Bool.false_eq_true,
    if_false, List.map_cons, List.map_nil, List.foldl_cons, List.foldl_nil, K.groupStep, hg1, hg2, List.reverse_cons,
    List.reverse_nil, List.nil_append, List.cons_append, ne_eq, not_false_eq_true, decide_true,
    reduceCtorEq, List.filterMap_cons, List.filterMap_nil, List.find?_cons, beq_self_eq_true, Option.map_some, drawSeqs,
    List.append_nil]
  rfl

/-! ### (d) the Multiple Service Packet with two embedded requests -/

theorem ldr2_packMulti_two_length (x y : Bytes) : (K.packMulti [x, y]).length = 6 + x.length + y.length := by
  rw [LB.packMulti_length]
  simp [LB.offOf, LB.psum]
  omega

/-- (d) the Logix services answer a Multiple Service Packet with two embedded non-multi requests by executing them in
    order, each on the state the previous one left, and packing the two replies -/
theorem ldr2_multi_two (st : LState) (cap : Nat) (ma mb : Bytes) (qa qb : MRReq)
    (hqa : parseMR ma = some qa) (hqb : parseMR mb = some qb) (hna : qa.service ≠ 0x0A) (hnb : qb.service ≠ 0x0A)
    (hsz : ma.length + mb.length < 65000) :
    logixService st { service := 0x0A, path := [.logical 0 2, .logical 4 1], data := K.packMulti [ma, mb] } (some cap) =
      some ((Cl.exchange (Cl.exchange st cap ma).1 cap mb).1,
        { status := if [encMRReply qa.service (Cl.exchange st cap ma).2,
                        encMRReply qb.service (Cl.exchange (Cl.exchange st cap ma).1 cap mb).2].any
                      (fun r => r.getD 2 0 != 0) then 0x1E else 0,
          data := K.packMulti [encMRReply qa.service (Cl.exchange st cap ma).2,
                               encMRReply qb.service (Cl.exchange (Cl.exchange st cap ma).1 cap mb).2] }) := by
  have hma : ma ≠ [] := by intro h; rw [h] at hqa; simp [parseMR] at hqa
  have hmb : mb ≠ [] := by intro h; rw [h] at hqb; simp [parseMR] at hqb
  have hemb : execEmbedded cap st [ma, mb] =
      ((Cl.exchange (Cl.exchange st cap ma).1 cap mb).1,
       [encMRReply qa.service (Cl.exchange st cap ma).2,
        encMRReply qb.service (Cl.exchange (Cl.exchange st cap ma).1 cap mb).2]) := by
    rw [execEmbedded_cons, embStep_exchange cap st ma qa hqa hna]
    simp only
    rw [execEmbedded_cons, embStep_exchange cap _ mb qb hqb hnb]
    simp [execEmbedded]
  have he := multi_e2e st cap [ma, mb] (by simp) (by simp; omega)
    (by intro m hm; simp only [List.mem_cons, List.not_mem_nil, or_false] at hm; rcases hm with rfl | rfl <;> assumption)
  rw [hemb] at he
  have hl : logixService st { service := 0x0A, path := [.logical 0 2, .logical 4 1], data := K.packMulti [ma, mb] } (some cap) =
      some (multiService st (K.packMulti [ma, mb]) cap) := by
    simp [logixService]
  have hx : Cl.exchange st cap (Cl.multiMsg [ma, mb]) = multiService st (K.packMulti [ma, mb]) cap := by
    unfold Cl.exchange Cl.multiMsg
    rw [parseMR_multi]
    simp only [hl]
  rw [hl, ← hx, he]

/-! ### (f) result assembly from a results table -/

theorem ldr2_readResult_get (p : Parsed) (info : TagInfo) (t : LTag) (rs : Results)
    (herr : p.error = none) (hinfo : p.info = some info) (hbit : p.bit = none)
    (hnd : info.core.dataTypeName ≠ nm "DWORD") (hv : t.value ≠ .none) (hte : t.error = none)
    (hget : rs.get? p.requestId = some t) : readResult p rs = t := by
  have htr : t.truthy = true := by
    unfold LTag.truthy
    rw [hte]
    cases hval : t.value <;> simp_all
  have hdw : (info.core.dataTypeName != nm "DWORD") = true := by simpa using hnd
  unfold readResult
  simp only [herr, hinfo, hget, htr, if_true, hdw, hbit]

theorem ldr2_sendRequest_multi (w w2 : Cli.World Ext) (rs : Results) (seq : Nat) (reqs : List ReadReq) (raw : Option Bytes)
    (h : sendUnit hookAll w seq (Cl.multiMsg (reqs.map fun q => Cl.readMsg q.path q.elements)) = (w2, .ok raw))
    (hcs : (tagResp raw).p.commandStatus = some 0) :
    sendRequest hookAll w rs (.multiRead seq reqs) =
      (w2, multiReadResults rs (reqs.zip (embeddedReplies (tagResp raw).p.data))) := by
  unfold sendRequest
  simp only [h, multiPacketError, hcs, if_true]

/-! ### the two reads composed -/

/-- `read(a, b)` of two controller-scope elementary scalar tags on a healthy connected driver (not a Micro800) whose
    two estimated replies fit one multi-service packet: ONE frame is written — a Multiple Service Packet embedding
    the two Read Tag requests in order —, three sequence numbers are drawn, and the two Tags come back in the order
    of the request, each with its name, type name and the value decoded from its symbol's memory -/
theorem ldr2_read_two (cfg : Cfg) (w : Cli.World Ext) (sess : Nat) (cidb : Bytes) (conn : Conn) (st : LState)
    (sa sb : Symbol) (ia ib : TagInfo) (ca cb sza szb : Nat) (na nb : Name) (ta tb : Ty) (va vb : PyVal) (ra rb : Bytes)
    (hw : ldr_Healthy w sess cidb conn) (hlogix : w.net.target.ext.logix = some st) (hmicro : cfg.micro800 = false)
    (hbytes : ∀ s' ∈ st.proj.controller, ∀ ch ∈ s'.name, ch < 256)
    (hsa : sa ∈ st.proj.controller) (hsb : sb ∈ st.proj.controller)
    (huniqNa : ∀ s' ∈ st.proj.controller, s'.name = sa.name → s' = sa)
    (huniqNb : ∀ s' ∈ st.proj.controller, s'.name = sb.name → s' = sb)
    (huniqIa : ∀ s' ∈ st.proj.controller, s'.inst = sa.inst → s' = sa)
    (huniqIb : ∀ s' ∈ st.proj.controller, s'.inst = sb.inst → s' = sb)
    (hida : PlainIdent sa.name) (hidb : PlainIdent sb.name) (hinsta : sa.inst < 2 ^ 32) (hinstb : sb.inst < 2 ^ 32)
    (htya : elTyOfWord sa.symbolType = .atomic ca) (htyb : elTyOfWord sb.symbolType = .atomic cb)
    (hata : atomicOfCode ca = some (na, ta)) (hatb : atomicOfCode cb = some (nb, tb))
    (hba : ta.isBits = none) (hbb : tb.isBits = none)
    (hsza : atomicSize ca = some sza) (hszb : atomicSize cb = some szb)
    (hlena : sa.mem.length = sza) (hlenb : sb.mem.length = szb)
    (hgeta : cfg.tags.get? sa.name = some ia) (hgetb : cfg.tags.get? sb.name = some ib)
    (hinfoa : ldr_InfoOf ia na ta sa.inst) (hinfob : ldr_InfoOf ib nb tb sb.inst)
    (hdeca : decode ta sa.mem = .ok (va, ra)) (hdecb : decode tb sb.mem = .ok (vb, rb))
    (hC : sa.name.length + sb.name.length + 66 ≤ w.drv.connectionSize)
    (hT : sa.name.length + sb.name.length + 66 ≤ conn.size) :
    ∃ w' frm, read hookAll cfg w [sa.name, sb.name] =
        (w', .ok [{ tag := sa.name, value := va, type := some na, error := none },
                  { tag := sb.name, value := vb, type := some nb, error := none }]) ∧
      w'.drv = w.drv.nextSeq.2.nextSeq.2.nextSeq.2 ∧ w'.net.sent = w.net.sent ++ [frm] ∧
      w'.net.target.ext = { w.net.target.ext with logix := some { st with ctr := st.ctr + 2 } } ∧
      ldr_Healthy w' sess cidb { conn with lastSeq := some w.drv.nextSeq.2.nextSeq.2.nextSeq.1 } := by
  obtain ⟨hatya, hentrya, hndwa, hposa, hle8a⟩ := ldr_atomic_table ca sza na ta hata hba hsza
  obtain ⟨hatyb, hentryb, hndwb, hposb, hle8b⟩ := ldr_atomic_table cb szb nb tb hatb hbb hszb
  -- (a) parsing
  have hnda : isDword ia = false := by
    have : (na == nm "DWORD") = false := by simpa using hndwa
    simp [isDword, hinfoa.typeName, this]
  have hndb : isDword ib = false := by
    have : (nb == nm "DWORD") = false := by simpa using hndwb
    simp [isDword, hinfob.typeName, this]
  have hparsed : parseRequestedTags cfg.tags false [sa.name, sb.name] =
      [ldr2_parsedAt 0 sa.name ia, ldr2_parsedAt 1 sb.name ib] := by
    show [parseTagRequest cfg.tags false 0 sa.name, parseTagRequest cfg.tags false 1 sb.name] = _
    rw [ldr_parse_plain cfg.tags false 0 sa.name ia hida hgeta hnda, ldr_parse_plain cfg.tags false 1 sb.name ib hidb hgetb hndb]
    rfl
  -- (b) building
  obtain ⟨pa, hpa, hpla, hdena⟩ := ldr_requestPath cfg sa.name ia sa.inst hida hinfoa.instanceId hinsta
  obtain ⟨pb, hpb, hplb, hdenb⟩ := ldr_requestPath cfg sb.name ib sb.inst hidb hinfob.instanceId hinstb
  have hrsa : tagReturnSize ia 1 = sza := by simp [tagReturnSize, hinfoa.struct, hinfoa.typeName, hentrya]
  have hrsb : tagReturnSize ib 1 = szb := by simp [tagReturnSize, hinfob.struct, hinfob.typeName, hentryb]
  have hmla : (Cl.readMsg pa 1).length = pa.length + 3 := by simp [Cl.readMsg, le, RT.leBytes_length]
  have hmlb : (Cl.readMsg pb 1).length = pb.length + 3 := by simp [Cl.readMsg, le, RT.leBytes_length]
  have hoh : K.OVERHEAD = 10 := rfl
  have hbuild := ldr2_build_two cfg w.drv sa.name sb.name ia ib pa pb hmicro hpa hpb
    (by unfold ldr2_estimate; rw [hrsa, hrsb, hmla, hmlb, hoh]; omega)
  -- (c)+(d) sending
  have hw1 : ldr_Healthy ({ w with drv := w.drv.nextSeq.2.nextSeq.2.nextSeq.2 } : Cli.World Ext) sess cidb conn :=
    ldr_Healthy_seq hw _ rfl
  have hqa : parseMR (Cl.readMsg pa 1) = some { service := 0x4C, path := ldr_segs sa.name sa.inst cfg.useInstanceIds, data := le 2 1 } := by
    have := parseMR_msg 0x4C pa (le 2 1) _ hdena
    simpa [Cl.readMsg] using this
  have hqb : parseMR (Cl.readMsg pb 1) = some { service := 0x4C, path := ldr_segs sb.name sb.inst cfg.useInstanceIds, data := le 2 1 } := by
    have := parseMR_msg 0x4C pb (le 2 1) _ hdenb
    simpa [Cl.readMsg] using this
  have hexa := ldr_exchange st (conn.size - 2) sa ca sza cfg.useInstanceIds pa hida hsa hbytes huniqNa huniqIa htya hsza hlena
    hposa hdena (by omega)
  have hexb := ldr_exchange { st with ctr := st.ctr + 1 } (conn.size - 2) sb cb szb cfg.useInstanceIds pb hidb hsb hbytes
    huniqNb huniqIb htyb hszb hlenb hposb hdenb (by omega)
  have hls := ldr2_multi_two st (conn.size - 2) (Cl.readMsg pa 1) (Cl.readMsg pb 1) _ _ hqa hqb (by simp) (by simp)
    (by rw [hmla, hmlb]; have := hida.2.1; have := hidb.2.1; omega)
  rw [hexa] at hls
  simp only at hls
  rw [hexb] at hls
  have hst0 : ([encMRReply 0x4C { status := 0, data := le 2 ca ++ sa.mem },
      encMRReply 0x4C { status := 0, data := le 2 cb ++ sb.mem }].any (fun r => r.getD 2 0 != 0)) = false := by
    simp [encMRReply]
  simp only [hst0, Bool.false_eq_true, if_false] at hls
  have hml : (Cl.multiMsg [Cl.readMsg pa 1, Cl.readMsg pb 1]).length = 12 + (pa.length + 3) + (pb.length + 3) := by
    unfold Cl.multiMsg
    rw [List.length_append, ldr2_packMulti_two_length, hmla, hmlb]
    simp; omega
  obtain ⟨w2, frm, hsend, hd2, hsent2, hext2, hh2⟩ := ldr2_sendUnit_logix
    ({ w with drv := w.drv.nextSeq.2.nextSeq.2.nextSeq.2 } : Cli.World Ext) sess cidb conn st
    w.drv.nextSeq.2.nextSeq.2.nextSeq.1 (Cl.multiMsg [Cl.readMsg pa 1, Cl.readMsg pb 1])
    { service := 0x0A, path := [.logical 0 2, .logical 4 1], data := K.packMulti [Cl.readMsg pa 1, Cl.readMsg pb 1] } _
    hw1 hlogix (parseMR_multi _)
    (Or.inr ⟨2, 1, [], rfl, by decide, by decide, by decide, by decide, by decide⟩) hls
    (ldr_nextSeq_lt _) (by rw [hml]; have := hida.2.1; have := hidb.2.1; omega) (by rw [hml]; omega)
  -- (e) the response
  obtain ⟨_, hdata, _⟩ := ldr_tagResp_ok 0x0A sess conn.toId w.drv.nextSeq.2.nextSeq.2.nextSeq.1
    w.drv.nextSeq.2.nextSeq.2.nextSeq.2.context
    (K.packMulti [encMRReply 0x4C { status := 0, data := le 2 ca ++ sa.mem },
                  encMRReply 0x4C { status := 0, data := le 2 cb ++ sb.mem }]) hw1.ctx8
  have hrla : (encMRReply 0x4C { status := 0, data := le 2 ca ++ sa.mem }).length = 6 + sza := by
    simp [encMRReply, le, RT.leBytes_length, hlena]; omega
  have hrlb : (encMRReply 0x4C { status := 0, data := le 2 cb ++ sb.mem }).length = 6 + szb := by
    simp [encMRReply, le, RT.leBytes_length, hlenb]; omega
  have hemb : embeddedReplies (some (K.packMulti [encMRReply 0x4C { status := 0, data := le 2 ca ++ sa.mem },
      encMRReply 0x4C { status := 0, data := le 2 cb ++ sb.mem }])) =
      [some (List.replicate 46 0 ++ encMRReply 0x4C { status := 0, data := le 2 ca ++ sa.mem }),
       some (List.replicate 46 0 ++ encMRReply 0x4C { status := 0, data := le 2 cb ++ sb.mem })] := by
    unfold embeddedReplies
    simp only
    rw [if_neg (by rw [ldr2_packMulti_two_length]; omega),
      K.client_unpacks_packed _ (by simp) (by simp only [List.length_cons, List.length_nil, List.map_cons, List.map_nil,
        List.foldl_cons, List.foldl_nil, hrla, hrlb]; omega)]
    rfl
  have hrpa := ldr2_readResp_padded
    { seq := w.drv.nextSeq.1, tag := sa.name, elements := 1, info := ia, rid := 0, path := pa } (le 2 ca ++ sa.mem) va na
    (ldr_parseReadReply ia ca ta na sa.mem ra va hinfoa.ty hinfoa.typeName hndwa hatya hba hdeca)
  have hrpb := ldr2_readResp_padded
    { seq := w.drv.nextSeq.2.nextSeq.1, tag := sb.name, elements := 1, info := ib, rid := 1, path := pb } (le 2 cb ++ sb.mem)
    vb nb (ldr_parseReadReply ib cb tb nb sb.mem rb vb hinfob.ty hinfob.typeName hndwb hatyb hbb hdecb)
  -- the decorator
  have hfo : Cli.ensureForwardOpen hookAll Cli.FUEL w = (w, .ok ()) := ldr_ensureFO_connected hookAll 7 w hw.connected
  refine ⟨w2, frm, ?_, hd2, hsent2, ?_, hh2⟩
  · unfold read
    rw [hfo]
    dsimp only
    rw [hparsed, hbuild]
    dsimp only
    unfold sendRequests
    have hmap : ([{ seq := w.drv.nextSeq.1, tag := sa.name, elements := 1, info := ia, rid := 0, path := pa },
        { seq := w.drv.nextSeq.2.nextSeq.1, tag := sb.name, elements := 1, info := ib, rid := 1, path := pb }] : List ReadReq).map
        (fun q => Cl.readMsg q.path q.elements) = [Cl.readMsg pa 1, Cl.readMsg pb 1] := rfl
    rw [← hmap] at hsend
    rw [ldr2_sendRequest_multi ({ w with drv := w.drv.nextSeq.2.nextSeq.2.nextSeq.2 } : Cli.World Ext) w2 []
      w.drv.nextSeq.2.nextSeq.2.nextSeq.1 _ _ hsend (ldr_tagResp_commandStatus _ _ _ _)]
    dsimp only
    rw [hdata, hemb]
    have hmr : multiReadResults []
        (([{ seq := w.drv.nextSeq.1, tag := sa.name, elements := 1, info := ia, rid := 0, path := pa },
           { seq := w.drv.nextSeq.2.nextSeq.1, tag := sb.name, elements := 1, info := ib, rid := 1, path := pb }] : List ReadReq).zip
          [some (List.replicate 46 0 ++ encMRReply 0x4C { status := 0, data := le 2 ca ++ sa.mem }),
           some (List.replicate 46 0 ++ encMRReply 0x4C { status := 0, data := le 2 cb ++ sb.mem })]) =
        .ok [((0 : Nat), { tag := sa.name, value := va, type := some na, error := none }),
             ((1 : Nat), { tag := sb.name, value := vb, type := some nb, error := none })] := by
      simp only [List.zip_cons_cons, List.zip_nil_right, multiReadResults, hrpa.1, hrpa.2, hrpb.1, hrpb.2, if_true]
      rfl
    rw [hmr]
    dsimp only
    unfold sendRequests
    dsimp only [List.isEmpty_cons, Bool.false_eq_true, if_false, List.map_cons, List.map_nil]
    have hresa := ldr2_readResult_get (ldr2_parsedAt 0 sa.name ia) ia
      { tag := sa.name, value := va, type := some na, error := none }
      [((0 : Nat), { tag := sa.name, value := va, type := some na, error := none }),
       ((1 : Nat), { tag := sb.name, value := vb, type := some nb, error := none })]
      rfl rfl rfl (by rw [hinfoa.typeName]; exact hndwa) (ldr_decode_not_none ca ta hatya hba sa.mem ra va hdeca) rfl rfl
    have hresb := ldr2_readResult_get (ldr2_parsedAt 1 sb.name ib) ib
      { tag := sb.name, value := vb, type := some nb, error := none }
      [((0 : Nat), { tag := sa.name, value := va, type := some na, error := none }),
       ((1 : Nat), { tag := sb.name, value := vb, type := some nb, error := none })]
      rfl rfl rfl (by rw [hinfob.typeName]; exact hndwb) (ldr_decode_not_none cb tb hatyb hbb sb.mem rb vb hdecb) rfl rfl
    simp only [Bool.false_eq_true, if_false, List.map_cons, List.map_nil]
    rw [hresa, hresb]
  · rw [hext2]

end Pycomm.Lgx.Drv
