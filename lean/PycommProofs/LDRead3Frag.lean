/-
  LogixDriver.read of ONE request whose answer does not fit one reply: `_read_build_single_request` switches to
  Read Tag Fragmented, `_send_read_fragmented` asks again at the byte offset reached while the controller answers
  with status 6; the value is decoded from the type bytes of the last reply and all value bytes received.

    sizes     `ldr3_fragSizes` (the fragment sizes the controller's schedule yields), `ldr3_fragSizes_sum`
    (b)       `ldr3_build_frag`
    (e)       `ldr3_tagResp_frag` (a status 0 / status 6 reply of service 0x52 is a valid response)
    (c)+(d)   `ldr3_sendUnit_readFrag` (one fragment), `ldr3_frag_loop` (the loop against the controller)
    composed  `ldr3_read_single_frag`
-/
import PycommProofs.LDRead2Core
import PycommProofs.LOpenReply
namespace Pycomm.Lgx.Drv
open Pycomm Pycomm.Tgt Pycomm.Path Pycomm.Reply Pycomm.Encap Pycomm.Lgx Pycomm.Lgx.E2E

/-! ### the fragment sizes -/

/-- the sizes of the fragments the controller delivers for a value of `total` bytes from byte `off` on, when every
    reply has room for `room` value bytes and the controller's cyclic read schedule `sched` stands at index `ctr`
    (`fuel` bounds the number of fragments) -/
def ldr3_fragSizes (sched : List Nat) (room total : Nat) : Nat → Nat → Nat → List Nat
  | 0, _, _ => []
  | fuel + 1, ctr, off =>
      if min (total - off) (min room (cyc sched ctr 1000000)) < total - off then
        min (total - off) (min room (cyc sched ctr 1000000)) ::
          ldr3_fragSizes sched room total fuel (ctr + 1) (off + min (total - off) (min room (cyc sched ctr 1000000)))
      else [min (total - off) (min room (cyc sched ctr 1000000))]

/-- with enough fuel the fragments tile the value: every fragment has at least one byte and at most `room`, and
    together they are the `total - off` bytes asked for -/
theorem ldr3_fragSizes_sum (sched : List Nat) (room total : Nat) (hroom : 1 ≤ room) :
    ∀ (fuel ctr off : Nat), off < total → total - off ≤ fuel →
      (ldr3_fragSizes sched room total fuel ctr off).sum = total - off ∧
      (∀ k ∈ ldr3_fragSizes sched room total fuel ctr off, 1 ≤ k ∧ k ≤ room) ∧
      1 ≤ (ldr3_fragSizes sched room total fuel ctr off).length := by
  intro fuel
  induction fuel with
  | zero => intro ctr off h1 h2; omega
  | succ fuel ih =>
    intro ctr off h1 h2
    have hc := cyc_pos sched ctr
    rw [ldr3_fragSizes]
    generalize hk : min (total - off) (min room (cyc sched ctr 1000000)) = k
    have hk1 : 1 ≤ k := by omega
    have hk2 : k ≤ room := by omega
    by_cases hlt : k < total - off
    · rw [if_pos hlt]
      obtain ⟨i1, i2, i3⟩ := ih (ctr + 1) (off + k) (by omega) (by omega)
      refine ⟨by rw [List.sum_cons, i1]; omega, ?_, by simp⟩
      intro x hx
      rcases List.mem_cons.1 hx with rfl | hx
      · exact ⟨hk1, hk2⟩
      · exact i2 x hx
    · rw [if_neg hlt]
      refine ⟨by simp; omega, ?_, by simp⟩
      intro x hx
      simp only [List.mem_singleton] at hx
      subst hx
      exact ⟨hk1, hk2⟩

/-! ### (b) the single-request path chooses the fragmented service -/

/-- (b) `_read_build_requests` for one error-free parsed request of `n` elements whose estimated answer
    (`_tag_return_size` + request message + 2) exceeds the connection size: TWO sequence numbers are drawn (the Read
    Tag packet, then the Read Tag Fragmented packet made from it), the result is one fragmented read request -/
theorem ldr3_build_frag (cfg : Cfg) (d : Cli.Drv) (p : Parsed) (info : TagInfo) (path : Bytes) (n : Nat)
    (hp : p.error = none) (hinfo : p.info = some info) (hel : p.elements = (n : Int)) (hn : n ≤ 65535)
    (hpath : requestPathOf cfg p.plcTag info = .ok path)
    (hsize : tagReturnSize info n + (2 + (Cl.readMsg path n).length) + 2 > d.connectionSize) :
    readBuildRequests cfg d [p] =
      (d.nextSeq.2.nextSeq.2, .ok [Request.readFrag { seq := d.nextSeq.2.nextSeq.1, tag := p.plcTag, elements := n,
                                                      info := info, rid := p.requestId, path := path }]) := by
  have hel' : elementsNat p.elements = .ok n := by
    rw [hel]; unfold elementsNat
    rw [if_pos (by omega)]; rfl
  unfold readBuildRequests
  simp only [List.length_cons, List.length_nil, Nat.zero_add, ne_eq, not_true_eq_false, false_and, if_false,
    readBuildLive, hp, hinfo, mkReadReq, hpath, hel', ReadReq.returnSize, ReadReq.messageLen, hsize, decide_true,
    Bool.false_eq_true, if_true, ReadReq.refresh, Except.map, List.map_cons, List.map_nil]

/-! ### (e) the reply frame of one fragment -/

/-- the reply service byte of Read Tag Fragmented (0x52) names a multi-packet service: status 6 is a valid reply -/
theorem ldr3_sfr_52 : serviceFromReply [UInt8.ofNat (0x52 % 128 + 128)] = .ok (some [0x52]) := by rfl

/-- (e) the connected reply frame of a Read Tag Fragmented answer with status 0 or 6: a valid response without error
    that carries the status and the service data -/
theorem ldr3_tagResp_frag (status s toId seq : Nat) (ctx data : Bytes) (hc : ctx.length = 8)
    (hst : status = 0 ∨ status = 6) :
    (tagResp (some (frame CMD_SEND_UNIT s 0 ctx (cpfReplyConnected toId seq
        (encMRReply 0x52 { status := status, ext := [], data := data }))))).valid = true ∧
    (tagResp (some (frame CMD_SEND_UNIT s 0 ctx (cpfReplyConnected toId seq
        (encMRReply 0x52 { status := status, ext := [], data := data }))))).p.data = some data ∧
    (tagResp (some (frame CMD_SEND_UNIT s 0 ctx (cpfReplyConnected toId seq
        (encMRReply 0x52 { status := status, ext := [], data := data }))))).p.serviceStatus = some status ∧
    (tagResp (some (frame CMD_SEND_UNIT s 0 ctx (cpfReplyConnected toId seq
        (encMRReply 0x52 { status := status, ext := [], data := data }))))).error = .ok none := by
  obtain ⟨cmd, svc', hs, hp⟩ := Opn.lo_parseCip_reply 0x52 status s toId seq ctx data hc (by omega)
  rw [ldr3_sfr_52] at hs
  cases hs
  have hv : validCip .connected (parseCip (some (frame CMD_SEND_UNIT s 0 ctx (cpfReplyConnected toId seq
        (encMRReply 0x52 { status := status, ext := [], data := data })))) .connected) = true := by
    rw [hp, Reply.validCip_record]
    refine ⟨rfl, ?_⟩
    rcases hst with h | h
    · exact Or.inl h
    · exact Or.inr ⟨h, rfl, by decide⟩
  unfold Resp.error tagResp
  simp only [hv]
  rw [hp]
  exact ⟨trivial, rfl, rfl, by simp [errorCip, Except.map]⟩

/-! ### (c)+(d) one fragment -/

/-- (c)+(d) the driver's Read Tag Fragmented request for `n` elements from byte `off` of the value at a resolvable
    address, sent on the healthy connection: one frame is written; the reply is the framed answer with the type
    bytes and the next `fragK` bytes, status 6 when more are left -/
theorem ldr3_sendUnit_readFrag (w : Cli.World Ext) (sess : Nat) (cidb : Bytes) (conn : Conn) (st : LState)
    (path : Bytes) (segs : List PSeg) (loc : Loc) (n off : Nat) (bs : Bytes) (seq : Nat)
    (hw : ldr_Healthy w sess cidb conn) (hlogix : w.net.target.ext.logix = some st)
    (hp : Denotes path segs) (hr : resolve st.proj segs = .ok loc)
    (hn : 1 ≤ n ∧ n ≤ loc.avail ∧ n < 65536) (hb : readBytes st.proj loc n = some bs)
    (hoff : off < bs.length) (hlen : bs.length < 2 ^ 32)
    (hseq : seq < 65536) (hpl : path.length ≤ 600) (hfit : path.length + 9 ≤ conn.size) :
    ∃ w' frm, sendUnit hookAll w seq (Cl.readFragMsg path n off) =
        (w', .ok (some (frame CMD_SEND_UNIT sess 0 w.drv.context (cpfReplyConnected conn.toId seq
          (encMRReply 0x52 { status := if fragK st loc (conn.size - 2) bs.length off < bs.length - off then 6 else 0,
                             ext := [],
                             data := typeBytes st.proj loc.ty ++
                               (bs.drop off).take (fragK st loc (conn.size - 2) bs.length off) }))))) ∧
      w'.drv = w.drv ∧ w'.net.sent = w.net.sent ++ [frm] ∧
      w'.net.target.ext = { w.net.target.ext with logix := some { st with ctr := st.ctr + 1 } } ∧
      ldr_Healthy w' sess cidb { conn with lastSeq := some seq } := by
  have hml : (Cl.readFragMsg path n off).length = path.length + 7 := by
    simp [Cl.readFragMsg, le, RT.leBytes_length]
  have hpm : parseMR (Cl.readFragMsg path n off) = some { service := 0x52, path := segs, data := le 2 n ++ le 4 off } := by
    have := parseMR_msg 0x52 path (le 2 n ++ le 4 off) segs hp
    rw [readFragMsg_eq]
    exact this
  have hrt := readTag_frag st loc n (conn.size - 2) off bs hn hb hoff hlen
  have hls : logixService st { service := 0x52, path := segs, data := le 2 n ++ le 4 off } (some (conn.size - 2)) =
      some ({ st with ctr := st.ctr + 1 },
        { status := if fragK st loc (conn.size - 2) bs.length off < bs.length - off then 6 else 0,
          data := typeBytes st.proj loc.ty ++ (bs.drop off).take (fragK st loc (conn.size - 2) bs.length off) }) := by
    have h1 : single st { service := 0x52, path := segs, data := le 2 n ++ le 4 off } (conn.size - 2) =
        some (tagAnswer st loc 0x52 (le 2 n ++ le 4 off) (conn.size - 2)) :=
      single_of_resolve st { service := 0x52, path := segs, data := le 2 n ++ le 4 off } (conn.size - 2) loc hr
        (Or.inr (Or.inl rfl))
    have h3 : tagAnswer st loc 0x52 (le 2 n ++ le 4 off) (conn.size - 2) =
        Lgx.readTag st loc (le 2 n ++ le 4 off) (conn.size - 2) true := by
      unfold tagAnswer; rw [if_neg (by decide), if_pos rfl]
    simp only [logixService, Option.getD_some]
    rw [if_neg (by simp), h1, h3, hrt]
  have hlp : ldr2_LogixPath segs := ldr2_logixPath_of_resolve _ _ _ hr
  have h := ldr2_sendUnit_logix w sess cidb conn st seq (Cl.readFragMsg path n off)
    { service := 0x52, path := segs, data := le 2 n ++ le 4 off }
    ({ st with ctr := st.ctr + 1 },
      { status := if fragK st loc (conn.size - 2) bs.length off < bs.length - off then 6 else 0,
        data := typeBytes st.proj loc.ty ++ (bs.drop off).take (fragK st loc (conn.size - 2) bs.length off) })
    hw hlogix hpm hlp hls hseq (by omega) (by omega)
  exact h

/-! ### (c)+(d) the loop of `_send_read_fragmented` -/

/-- the driver state after `k` more sequence numbers have been drawn -/
def ldr3_seqs : Nat → Cli.Drv → Cli.Drv
  | 0, d => d
  | k + 1, d => ldr3_seqs k d.nextSeq.2

/-- `fragK` is the head of `ldr3_fragSizes` -/
theorem ldr3_fragK_eq (st : LState) (loc : Loc) (cap total off : Nat) :
    fragK st loc cap total off =
      min (total - off) (min (cap - 4 - (typeBytes st.proj loc.ty).length) (cyc st.proj.readSchedule st.ctr 1000000)) := rfl

/-- (c)+(d)+(e) the loop of `_send_read_fragmented` from byte `off` on, on a healthy connection, when the value
    bytes before `off` have been received: every request is sent with its own sequence number (one frame each) and
    answered with the next fragment — of whatever size the controller's schedule yields —; the loop ends with the
    last fragment and hands `parse_read_reply` the type bytes and ALL the value bytes; the controller's project is
    untouched (its schedule counter advances by one per fragment); the world is healthy again -/
theorem ldr3_frag_loop (sess : Nat) (cidb : Bytes) (conn : Conn) (p : Project) (req : ReadReq) (segs : List PSeg)
    (loc : Loc) (bs : Bytes) (v : PyVal) (dt : Name)
    (hp : Denotes req.path segs) (hr : resolve p segs = .ok loc) (hty : TyOk loc.ty)
    (hn : 1 ≤ req.elements ∧ req.elements ≤ loc.avail ∧ req.elements < 65536)
    (hb : readBytes p loc req.elements = some bs) (hlen : bs.length < 2 ^ 32)
    (hroom : 4 + (typeBytes p loc.ty).length + 1 ≤ conn.size - 2)
    (hpl : req.path.length ≤ 600) (hfit : req.path.length + 9 ≤ conn.size)
    (hreply : parseReadReply (typeBytes p loc.ty ++ bs) req.info req.elements = .ok (v, dt)) :
    ∀ (fuel : Nat) (w : Cli.World Ext) (ls : Option Nat) (st : LState) (seq off : Nat),
      ldr_Healthy w sess cidb { conn with lastSeq := ls } → w.net.target.ext.logix = some st → st.proj = p →
      seq < 65536 → off < bs.length → bs.length - off ≤ fuel →
      ∃ (w' : Cli.World Ext) (fs : List Bytes) (resp : Resp) (ls' : Option Nat),
        readFragLoop hookAll req fuel w seq off (bs.take off) true = (w', .ok (resp, v, some dt)) ∧
        resp.valid = true ∧ resp.error = .ok none ∧
        w'.drv = ldr3_seqs (fs.length - 1) w.drv ∧
        w'.net.sent = w.net.sent ++ fs ∧
        fs.length = (ldr3_fragSizes p.readSchedule (conn.size - 2 - 4 - (typeBytes p loc.ty).length) bs.length
                      fuel st.ctr off).length ∧
        w'.net.target.ext = { w.net.target.ext with logix := some { st with ctr := st.ctr + fs.length } } ∧
        ldr_Healthy w' sess cidb { conn with lastSeq := ls' } := by
  intro fuel
  induction fuel with
  | zero => intro w ls st seq off _ _ _ _ h1 h2; omega
  | succ fuel ih =>
    intro w ls st seq off hw hlogix hst hseq hoff hfuel
    subst hst
    obtain ⟨w1, frm, hsend, hd1, hsent1, hext1, hh1⟩ := ldr3_sendUnit_readFrag w sess cidb { conn with lastSeq := ls } st
      req.path segs loc req.elements off bs seq hw hlogix hp hr hn hb hoff hlen hseq hpl hfit
    have hk1 : 1 ≤ fragK st loc (conn.size - 2) bs.length off := by
      have := cyc_pos st.proj.readSchedule st.ctr
      unfold fragK; omega
    have hk2 : fragK st loc (conn.size - 2) bs.length off ≤ bs.length - off := by unfold fragK; omega
    have hkeq := ldr3_fragK_eq st loc (conn.size - 2) bs.length off
    rw [ldr3_fragSizes, ← hkeq]
    dsimp only at hsend
    generalize fragK st loc (conn.size - 2) bs.length off = k at hsend hk1 hk2
    have hvl : ((bs.drop off).take k).length = k := by
      rw [List.length_take, List.length_drop]; omega
    have hacc : bs.take off ++ (bs.drop off).take k = bs.take (off + k) := by
      rw [List.take_add]
    have hsplit := splitTyped_typeBytes st.proj loc.ty hty ((bs.drop off).take k)
    by_cases hlt : k < bs.length - off
    · -- status 6: ask again
      rw [if_pos hlt] at hsend ⊢
      obtain ⟨r1, r2, r3, _⟩ := ldr3_tagResp_frag 6 sess conn.toId seq w.drv.context
        (typeBytes st.proj loc.ty ++ (bs.drop off).take k) hw.ctx8 (Or.inr rfl)
      have hw2 : ldr_Healthy ({ w1 with drv := w1.drv.nextSeq.2 } : Cli.World Ext) sess cidb { conn with lastSeq := some seq } :=
        ldr_Healthy_seq hh1 _ (by rw [(Cli.lcs_nextSeq w1.drv).2])
      have hlogix2 : ({ w1 with drv := w1.drv.nextSeq.2 } : Cli.World Ext).net.target.ext.logix =
          some { st with ctr := st.ctr + 1 } := by
        show w1.net.target.ext.logix = _
        rw [hext1]
      obtain ⟨w', fs, resp, ls', k1, k2, k3, k4, k5, k6, k7, k8⟩ := ih ({ w1 with drv := w1.drv.nextSeq.2 } : Cli.World Ext)
        (some seq) { st with ctr := st.ctr + 1 } w1.drv.nextSeq.1 (off + k) hw2 hlogix2 rfl (ldr_nextSeq_lt w1.drv)
        (by omega) (by omega)
      have hfs1 : 1 ≤ fs.length := by
        rw [k6]
        exact (ldr3_fragSizes_sum st.proj.readSchedule _ bs.length (by omega) fuel (st.ctr + 1) (off + k)
          (by omega) (by omega)).2.2
      refine ⟨w', frm :: fs, resp, ls', ?_, k2, k3, ?_, ?_, ?_, ?_, k8⟩
      · rw [readFragLoop, hsend]
        dsimp only
        rw [r2]
        dsimp only
        rw [hsplit, r3]
        simp only [Gen.INSUFFICIENT_PACKETS, beq_self_eq_true, if_true, r1, Bool.and_self, hvl, hacc]
        exact k1
      · rw [k4]
        dsimp only
        rw [hd1]
        have e : (frm :: fs).length - 1 = (fs.length - 1) + 1 := by simp only [List.length_cons]; omega
        rw [e]
        rfl
      · rw [k5]
        dsimp only
        rw [hsent1, List.append_assoc]
        rfl
      · simp only [List.length_cons, k6]
      · rw [k7]
        dsimp only
        rw [hext1]
        simp only [List.length_cons]
        have e : st.ctr + 1 + fs.length = st.ctr + (fs.length + 1) := by omega
        rw [e]
    · -- status 0: the last fragment
      rw [if_neg hlt] at hsend ⊢
      obtain ⟨r1, r2, r3, r4⟩ := ldr3_tagResp_frag 0 sess conn.toId seq w.drv.context
        (typeBytes st.proj loc.ty ++ (bs.drop off).take k) hw.ctx8 (Or.inl rfl)
      have hall : bs.take (off + k) = bs := List.take_of_length_le (by omega)
      refine ⟨w1, [frm], _, some seq, ?_, r1, r4, ?_, hsent1, rfl, ?_, hh1⟩
      · rw [readFragLoop, hsend]
        dsimp only
        rw [r2]
        dsimp only
        rw [hsplit, r3]
        simp only [Gen.INSUFFICIENT_PACKETS, Option.some.injEq, Nat.reduceEqDiff, beq_iff_eq, if_false, r4, r1, Bool.and_self,
          if_true, List.append_assoc, hacc, hall, hreply]
      · rw [hd1]; rfl
      · rw [hext1]; rfl

theorem ldr3_seqs_add (k : Nat) : ∀ (j : Nat) (d : Cli.Drv), ldr3_seqs k (ldr3_seqs j d) = ldr3_seqs (j + k) d := by
  intro j
  induction j with
  | zero => intro d; rw [Nat.zero_add]; rfl
  | succ j ih =>
    intro d
    have e : j + 1 + k = (j + k) + 1 := by omega
    rw [e]
    exact ih d.nextSeq.2

/-- drawing sequence numbers changes nothing but the counter -/
theorem ldr3_seqs_seqVal (k : Nat) : ∀ d : Cli.Drv, ldr3_seqs k d = { d with seqVal := (ldr3_seqs k d).seqVal } := by
  induction k with
  | zero => intro d; rfl
  | succ k ih =>
    intro d
    show ldr3_seqs k d.nextSeq.2 = { d with seqVal := (ldr3_seqs k d.nextSeq.2).seqVal }
    rw [ih d.nextSeq.2, (Cli.lcs_nextSeq d).2]

/-! ### composed -/

/-- `LogixDriver.read` of one tag string on a healthy connected driver, when the estimated answer exceeds the
    driver's connection size: the request is sent as Read Tag Fragmented, once per fragment the controller delivers
    (`ldr3_fragSizes`); the result is what the result loop of `read` makes of the Tag decoded from the type bytes
    and ALL the value bytes. One frame per fragment is written, one sequence number per fragment and one more
    (the discarded Read Tag packet) are drawn, the controller's project is unchanged, the world is healthy again.

    `p` is the parsed request; `path`/`segs` its request path and what it denotes; `loc` where the controller
    resolves it; `bs` the bytes the controller holds there (at most `FRAG_FUEL` = 70000: the bound of the model's
    loop); `(v, dt)` what `parse_read_reply` makes of type bytes ++ `bs`. -/
theorem ldr3_read_single_frag (cfg : Cfg) (w : Cli.World Ext) (sess : Nat) (cidb : Bytes) (conn : Conn)
    (st : LState) (tag0 : Name) (p : Parsed) (info : TagInfo) (path : Bytes) (segs : List PSeg) (loc : Loc)
    (n : Nat) (bs : Bytes) (v : PyVal) (dt : Name)
    (hw : ldr_Healthy w sess cidb conn) (hlogix : w.net.target.ext.logix = some st)
    (hparse : parseTagRequest cfg.tags false 0 tag0 = p)
    (hperr : p.error = none) (hpinfo : p.info = some info) (hpel : p.elements = (n : Int)) (hrid : p.requestId = 0)
    (hpath : requestPathOf cfg p.plcTag info = .ok path) (hden : Denotes path segs) (hpl : path.length ≤ 600)
    (hr : resolve st.proj segs = .ok loc) (hty : TyOk loc.ty)
    (hn : 1 ≤ n ∧ n ≤ loc.avail ∧ n < 65536) (hb : readBytes st.proj loc n = some bs)
    (hne : bs ≠ []) (hlen : bs.length ≤ FRAG_FUEL)
    (hreply : parseReadReply (typeBytes st.proj loc.ty ++ bs) info n = .ok (v, dt))
    (hC : tagReturnSize info n + path.length + 7 > w.drv.connectionSize)
    (hT : path.length + 9 ≤ conn.size) (hroom : (typeBytes st.proj loc.ty).length + 7 ≤ conn.size) :
    ∃ w' fs ls', read hookAll cfg w [tag0] =
        (w', .ok [readResult p [((0 : Nat), { tag := p.plcTag, value := v, type := some dt, error := none })]]) ∧
      w'.drv = ldr3_seqs (fs.length + 1) w.drv ∧ w'.net.sent = w.net.sent ++ fs ∧
      fs.length = (ldr3_fragSizes st.proj.readSchedule (conn.size - 2 - 4 - (typeBytes st.proj loc.ty).length)
                    bs.length FRAG_FUEL st.ctr 0).length ∧
      w'.net.target.ext = { w.net.target.ext with logix := some { st with ctr := st.ctr + fs.length } } ∧
      ldr_Healthy w' sess cidb { conn with lastSeq := ls' } := by
  have hparsed : parseRequestedTags cfg.tags false [tag0] = [p] := by
    show [parseTagRequest cfg.tags false 0 tag0] = _
    rw [hparse]
  have hml : (Cl.readMsg path n).length = path.length + 3 := by
    simp [Cl.readMsg, le, RT.leBytes_length]
  have hbuild := ldr3_build_frag cfg w.drv p info path n hperr hpinfo hpel (by omega) hpath (by rw [hml]; omega)
  have hw1 : ldr_Healthy ({ w with drv := w.drv.nextSeq.2.nextSeq.2 } : Cli.World Ext) sess cidb conn :=
    ldr_Healthy_seq hw _ (by rw [(Cli.lcs_nextSeq w.drv.nextSeq.2).2, (Cli.lcs_nextSeq w.drv).2])
  have hbpos : 0 < bs.length := List.length_pos_iff.mpr hne
  have hF : FRAG_FUEL = 70000 := rfl
  obtain ⟨w2, fs, resp, ls', k1, k2, k3, k4, k5, k6, k7, k8⟩ := ldr3_frag_loop sess cidb conn st.proj
    { seq := w.drv.nextSeq.2.nextSeq.1, tag := p.plcTag, elements := n, info := info, rid := p.requestId, path := path }
    segs loc bs v dt hden hr hty hn hb (by omega) (by omega) hpl hT hreply FRAG_FUEL
    ({ w with drv := w.drv.nextSeq.2.nextSeq.2 } : Cli.World Ext) conn.lastSeq st w.drv.nextSeq.2.nextSeq.1 0
    hw1 hlogix rfl (ldr_nextSeq_lt w.drv.nextSeq.2) hbpos (by omega)
  rw [List.take_zero] at k1
  have hfs1 : 1 ≤ fs.length := by
    rw [k6]
    exact (ldr3_fragSizes_sum st.proj.readSchedule _ bs.length (by omega) FRAG_FUEL st.ctr 0 hbpos (by omega)).2.2
  have hfo : Cli.ensureForwardOpen hookAll Cli.FUEL w = (w, .ok ()) := ldr_ensureFO_connected hookAll 7 w hw.connected
  refine ⟨w2, fs, ls', ?_, ?_, k5, k6, k7, k8⟩
  · unfold read
    rw [hfo]
    dsimp only
    rw [hparsed, hbuild]
    dsimp only
    unfold sendRequests sendRequest
    dsimp only
    rw [k1]
    dsimp only
    unfold readTag
    rw [k3]
    dsimp only [Except.map]
    unfold sendRequests
    simp only [k2, if_true, List.isEmpty_cons, Bool.false_eq_true, if_false, List.map_cons, List.map_nil, Results.set,
      List.any_nil, List.nil_append, hrid]
  · rw [k4]
    have e : fs.length + 1 = 2 + (fs.length - 1) := by omega
    rw [e, ← ldr3_seqs_add]
    rfl

end Pycomm.Lgx.Drv
