/-
  Helper lemmas for C05 (upload parsers): symbol records.
-/
import PycommProofs.UPDefs
import PycommProofs.RTLemmas
namespace Pycomm.Lgx.Up
open Pycomm Pycomm.Tgt Pycomm.Lgx

/-! ### symbol records -/

theorem up_decodeInt (k : IntK) (w n : Nat) (rest : Bytes) (hw : w = k.size) (h : n < 256 ^ w) :
    decodeIntNat k (le w n ++ rest) = .ok (n, rest) := by
  subst hw
  exact RT.decodeIntNat_append k n rest h

theorem up_decodeByte (n : Nat) (rest : Bytes) (h : n < 256) :
    decodeIntNat .usint (UInt8.ofNat n :: rest) = .ok (n, rest) := by
  have := RT.decodeIntNat_append .usint n rest (by simpa [IntK.size] using h)
  simpa [IntK.size, leBytes, Nat.mod_eq_of_lt h] using this

theorem up_decodeStr (cs : Name) (rest : Bytes) (hl : cs.length < 65536) (hc : ∀ c ∈ cs, c < 256) :
    decodeStr .uint .latin1 (le 2 cs.length ++ (cs.map (fun c => UInt8.ofNat c) ++ rest)) = .ok (.str cs, rest) := by
  unfold decodeStr
  rw [up_decodeInt .uint 2 _ _ rfl (by simpa using hl)]
  simp only [bind, Except.bind, charWidth, Nat.mul_one]
  cases cs with
  | nil => simp
  | cons c cs =>
    have hlen : ((c :: cs).map (fun c => UInt8.ofNat c)).length = (c :: cs).length := by simp
    rw [if_neg (by simp), RT.streamRead_append _ _ _ hlen (by simp)]
    simp only [hlen, Nat.lt_irrefl, if_false, Text.decode, Text.decLatin1]
    have : ((c :: cs).map (fun c => UInt8.ofNat c)).map (·.toNat) = c :: cs := by
      rw [List.map_map]
      conv => rhs; rw [← List.map_id (c :: cs)]
      apply List.map_congr_left
      intro x hx
      simp [Nat.mod_eq_of_lt (hc x hx)]
    rw [this]

theorem up_dims3 (ds : List Nat) (h : ∀ d ∈ ds, d < 2 ^ 32) :
    ∃ a b c, (ds ++ [0, 0, 0]).take 3 = [a, b, c] ∧ a < 2 ^ 32 ∧ b < 2 ^ 32 ∧ c < 2 ^ 32 := by
  match ds, h with
  | [], _ => exact ⟨0, 0, 0, rfl, by omega, by omega, by omega⟩
  | [a], h => exact ⟨a, 0, 0, rfl, h a (by simp), by omega, by omega⟩
  | [a, b], h => exact ⟨a, b, 0, rfl, h a (by simp), h b (by simp), by omega⟩
  | a :: b :: c :: _, h => exact ⟨a, b, c, rfl, h a (by simp), h b (by simp), h c (by simp)⟩

theorem up_record (wa : Bool) (s : Symbol) (rest : Bytes) (h : WfSymbol s) :
    parseRecord wa (encSymbolRecord s (wantedAttrs wa) ++ rest) = .ok (recOfSymbol wa s, rest) := by
  obtain ⟨h1, h2, h3, h4, h5, h6, h7, h8, h9⟩ := h
  obtain ⟨a, b, c, hd, ha, hb, hc⟩ := up_dims3 s.dims h8
  have e4 : ∀ n, n < 2 ^ 32 → ∀ r, decodeIntNat .udint (le 4 n ++ r) = .ok (n, r) :=
    fun n hn r => up_decodeInt .udint 4 n r rfl (by simpa using hn)
  have e2 : ∀ n, n < 65536 → ∀ r, decodeIntNat .uint (le 2 n ++ r) = .ok (n, r) :=
    fun n hn r => up_decodeInt .uint 2 n r rfl (by simpa using hn)
  cases wa <;>
  simp [parseRecord, encSymbolRecord, wantedAttrs, recOfSymbol, hd, bind, Except.bind, e4 _ h1, e4 _ h5, e4 _ h6,
    e4 _ h7, e4 _ ha, e4 _ hb, e4 _ hc, e2 _ h4, up_decodeStr _ _ h2 h3, up_decodeByte _ _ h9]

theorem up_record_ne_nil (s : Symbol) (attrs : List Nat) : encSymbolRecord s attrs ≠ [] := by
  simp [encSymbolRecord, le, leBytes]

theorem up_records (wa : Bool) (ss : List Symbol) (h : ∀ s ∈ ss, WfSymbol s) :
    ∀ fuel, ss.length < fuel →
    parseRecords wa fuel ((ss.map fun s => encSymbolRecord s (wantedAttrs wa)).flatten) =
      .ok (ss.map (recOfSymbol wa)) := by
  induction ss with
  | nil =>
    intro fuel hf
    cases fuel with
    | zero => omega
    | succ f => simp [parseRecords]
  | cons s ss ih =>
    intro fuel hf
    cases fuel with
    | zero => omega
    | succ f =>
      have hne := up_record_ne_nil s (wantedAttrs wa)
      simp only [List.map_cons, List.flatten_cons, parseRecords]
      rw [if_neg (by simp [hne]), up_record wa s _ (h s (by simp))]
      simp only [ih (fun x hx => h x (by simp [hx])) f (by simp at hf; omega)]

/-! ### structure definitions: the member-info block -/

def infoBytes (m : MemberDef) : Bytes := le 2 m.info ++ le 2 m.typeWord ++ le 4 m.offset

theorem up_infoBytes_length (m : MemberDef) : (infoBytes m).length = 8 := by
  simp [infoBytes, le, RT.leBytes_length]

theorem up_infoBlock_length (ms : List MemberDef) : ((ms.map infoBytes).flatten).length = ms.length * 8 := by
  induction ms with
  | nil => rfl
  | cons m ms ih => simp [up_infoBytes_length, ih]; omega

theorem up_parseMemberInfo (m : MemberDef) (h : WfMember m) :
    parseMemberInfo (infoBytes m) = .ok (m.info, m.typeWord, m.offset) := by
  obtain ⟨_, h1, h2, h3⟩ := h
  have e3 := up_decodeInt .udint 4 m.offset [] rfl (by simpa using h3)
  rw [List.append_nil] at e3
  simp [parseMemberInfo, infoBytes, bind, Except.bind, up_decodeInt .uint 2 _ _ rfl (show m.info < 256 ^ 2 by simpa using h1),
    up_decodeInt .uint 2 _ _ rfl (show m.typeWord < 256 ^ 2 by simpa using h2), e3]

theorem up_infos (ms : List MemberDef) (h : ∀ m ∈ ms, WfMember m) :
    (chunks8 ms.length (ms.map infoBytes).flatten).mapM parseMemberInfo =
      .ok (ms.map fun m => (m.info, m.typeWord, m.offset)) := by
  induction ms with
  | nil => rfl
  | cons m ms ih =>
    have hl := up_infoBytes_length m
    simp only [List.map_cons, List.flatten_cons, List.length_cons, chunks8,
      RT.take_append_len _ _ 8 hl, RT.drop_append_len _ _ 8 hl, List.mapM_cons,
      up_parseMemberInfo m (h m (by simp)), ih (fun x hx => h x (by simp [hx])), bind, Except.bind, pure, Except.pure]

/-! ### splitNul -/

theorem up_splitNul_ne_nil (bs : Bytes) : splitNul bs ≠ [] := by
  cases bs with
  | nil => simp [splitNul]
  | cons b rest =>
    unfold splitNul
    split
    · simp
    · split <;> simp

theorem up_splitNul_zero (rest : Bytes) : splitNul (0 :: rest) = [] :: splitNul rest := by
  have := up_splitNul_ne_nil rest
  rw [splitNul]
  split
  · contradiction
  · rename_i e; simp [e]

theorem up_splitNul_seg (a rest : Bytes) (h : ∀ b ∈ a, b ≠ 0) :
    splitNul (a ++ 0 :: rest) = a :: splitNul rest := by
  induction a with
  | nil => exact up_splitNul_zero rest
  | cons b a ih =>
    have hb : b ≠ 0 := h b (by simp)
    rw [List.cons_append, splitNul, ih (fun x hx => h x (by simp [hx]))]
    simp [hb]

theorem up_splitNul_pad (pad : Nat) : splitNul (List.replicate pad 0) = List.replicate (pad + 1) [] := by
  induction pad with
  | zero => rfl
  | succ n ih => rw [List.replicate_succ, up_splitNul_zero, ih]; rfl

theorem up_splitNul_segs (segs : List Bytes) (tail : Bytes) (h : ∀ a ∈ segs, ∀ b ∈ a, b ≠ 0) :
    splitNul ((segs.map fun a => a ++ [0]).flatten ++ tail) = segs ++ splitNul tail := by
  induction segs with
  | nil => rfl
  | cons a segs ih =>
    simp only [List.map_cons, List.flatten_cons, List.append_assoc, List.cons_append, List.nil_append]
    rw [up_splitNul_seg a _ (h a (by simp)), ih (fun x hx => h x (by simp [hx]))]

/-! ### names -/

def encName (n : Name) : Bytes := n.map (fun c => UInt8.ofNat c)

theorem up_encName_toNat (n : Name) (h : ∀ c ∈ n, c < 256) : (encName n).map (·.toNat) = n := by
  unfold encName
  rw [List.map_map]
  conv => rhs; rw [← List.map_id n]
  apply List.map_congr_left
  intro x hx
  simp [Nat.mod_eq_of_lt (h x hx)]

theorem up_encName_nz (n : Name) (h : Ident n) : ∀ b ∈ encName n, b ≠ 0 := by
  intro b hb
  simp only [encName, List.mem_map] at hb
  obtain ⟨c, hc, rfl⟩ := hb
  obtain ⟨h0, h1, _⟩ := h.2 c hc
  intro e
  have := congrArg UInt8.toNat e
  simp [Nat.mod_eq_of_lt (show c < 256 by omega)] at this
  omega

theorem up_splitNames_some (t : Name) (ns : List Name) : splitNames (some t) ns = (some t, ns) := by
  induction ns with
  | nil => rfl
  | cons n ns ih => simp [splitNames, ih]

theorem up_takeWhile_semi (t rest : Name) (h : ∀ c ∈ t, c ≠ 59) :
    (t ++ 59 :: rest).takeWhile (· != 59) = t := by
  induction t with
  | nil => simp
  | cons c t ih =>
    have hc := h c (by simp)
    simp [hc, ih (fun x hx => h x (by simp [hx]))]

theorem up_splitNames_first (t rest : Name) (ns : List Name) (h : ∀ c ∈ t, c ≠ 59) :
    splitNames none ((t ++ 59 :: rest) :: ns) = (some t, ns) := by
  rw [splitNames, if_pos (by simp), up_takeWhile_semi t rest h, up_splitNames_some]

/-! ### UTF-8 with replacement on ASCII prefixes -/

theorem up_utf8Step_ascii (b : UInt8) (rest : Bytes) (h : b < 0x80) : PyStr.utf8Step b rest = (b.toNat, 1) := by
  unfold PyStr.utf8Step
  rw [if_pos h]

theorem up_utf8Go_nil (f : Nat) : PyStr.utf8Go f [] = [] := by
  cases f <;> rfl

theorem up_utf8Go_ascii (a : Bytes) (h : ∀ b ∈ a, b < 0x80) (rest : Bytes) :
    ∀ f, a.length ≤ f → PyStr.utf8Go f (a ++ rest) = a.map (·.toNat) ++ PyStr.utf8Go (f - a.length) rest := by
  induction a with
  | nil => intro f _; simp
  | cons b a ih =>
    intro f hf
    cases f with
    | zero => simp at hf
    | succ f =>
      have hb : b < 0x80 := h b (by simp)
      simp only [List.cons_append, PyStr.utf8Go, up_utf8Step_ascii b (a ++ rest) hb, Nat.sub_self, List.drop_zero,
        List.map_cons, List.length_cons]
      rw [ih (fun x hx => h x (by simp [hx])) f (by simpa using hf)]
      simp

/-- the decoded text of an ASCII prefix is the prefix; what follows is decoded on its own -/
theorem up_utf8Replace_ascii_append (a rest : Bytes) (h : ∀ b ∈ a, b < 0x80) :
    PyStr.utf8Replace (a ++ rest) = a.map (·.toNat) ++ PyStr.utf8Replace rest := by
  unfold PyStr.utf8Replace
  rw [up_utf8Go_ascii a h rest _ (by simp)]
  simp

theorem up_utf8Replace_ascii (a : Bytes) (h : ∀ b ∈ a, b < 0x80) : PyStr.utf8Replace a = a.map (·.toNat) := by
  have := up_utf8Replace_ascii_append a [] h
  simpa [PyStr.utf8Replace, up_utf8Go_nil] using this

theorem up_encName_ascii (n : Name) (h : ∀ c ∈ n, c < 128) : ∀ b ∈ encName n, b < 0x80 := by
  intro b hb
  simp only [encName, List.mem_map] at hb
  obtain ⟨c, hc, rfl⟩ := hb
  have := h c hc
  show (UInt8.ofNat c).toNat < 128
  simp [Nat.mod_eq_of_lt (by omega : c < 256)]
  exact this

/-! ### buildMembers -/

def pmOf (predefine : Bool) (m : MemberDef) : PMember :=
  { name := m.name, info := m.info, typ := m.typeWord, offset := m.offset, priv := hidden predefine m.name }

theorem up_buildMembers (predefine : Bool) (k : Nat) (ms : List MemberDef) (extra : List Name)
    (h : ∀ m ∈ ms, m.name ≠ []) :
    buildMembers predefine k (ms.map (·.name) ++ extra) (ms.map fun m => (m.info, m.typeWord, m.offset)) =
      ms.map (pmOf predefine) := by
  induction ms with
  | nil => cases extra <;> simp [buildMembers]
  | cons m ms ih =>
    have hm : m.name ≠ [] := h m (by simp)
    simp only [List.map_cons, List.cons_append, buildMembers, List.isEmpty_iff, hm, if_false,
      ih (fun x hx => h x (by simp [hx])), pmOf, hidden]

/-! ### parseTemplate -/

theorem up_parseTemplate_of (count st : Nat) (data : Bytes) (infos : List (Nat × Nat × Nat)) (tn : Name)
    (mn : List Name)
    (h1 : (chunks8 count (data.take (count * 8))).mapM parseMemberInfo = .ok infos)
    (h2 : splitNames none ((splitNul (data.drop (count * 8))).map PyStr.utf8Replace) = (some tn, mn)) :
    ∃ str, parseTemplate count st data = .ok
      { name := some (if tn == nm "ASCIISTRING82" then nm "STRING" else tn),
        members := buildMembers (isPredefined st) 0 mn infos,
        attributes := ((buildMembers (isPredefined st) 0 mn infos).filter (!·.priv)).map (·.name),
        string := str } := by
  unfold parseTemplate
  simp only [h1, h2, bind, Except.bind]
  exact ⟨_, rfl⟩

theorem up_defBytes (t : Template) (pad : Nat) :
    t.defBytes ++ List.replicate pad 0 =
      (t.members.map infoBytes).flatten ++
        (t.nameField ++ 0 :: ((t.members.map fun m => encName m.name).map fun a => a ++ [0]).flatten ++
          List.replicate pad 0) := by
  have e : infoBytes = fun m => le 2 m.info ++ le 2 m.typeWord ++ le 4 m.offset := rfl
  simp [Template.defBytes, e, encName, List.map_map, Function.comp_def]

theorem up_template (t : Template) (tname : Name) (junk : Bytes) (symbolType pad : Nat)
    (h : WfTemplate t tname junk) :
    ∃ str, parseTemplate t.members.length symbolType (t.defBytes ++ List.replicate pad 0) = .ok
      { name := some (if tname == nm "ASCIISTRING82" then nm "STRING" else tname),
        members := t.members.map (pmOf (isPredefined symbolType)),
        attributes := ((t.members.map (pmOf (isPredefined symbolType))).filter (!·.priv)).map (·.name),
        string := str } := by
  obtain ⟨hid, hj, hnf, hm⟩ := h
  have hlen := up_infoBlock_length t.members
  have hmn : ∀ m ∈ t.members, m.name ≠ [] := fun m hx => (hm m hx).1.1
  have hb := up_buildMembers (isPredefined symbolType) 0 t.members (List.replicate (pad + 1) []) hmn
  have hnz : ∀ b ∈ t.nameField, b ≠ 0 := by
    intro b hb
    rw [hnf] at hb
    simp only [List.mem_append, List.mem_singleton] at hb
    rcases hb with (hb | hb) | hb
    · exact up_encName_nz tname hid b hb
    · subst hb; decide
    · exact hj b hb
  have hseg : ∀ a ∈ t.members.map (fun m => encName m.name), ∀ b ∈ a, b ≠ 0 := by
    intro a ha
    simp only [List.mem_map] at ha
    obtain ⟨m, hx, rfl⟩ := ha
    exact up_encName_nz m.name (hm m hx).1
  have hnames : (t.members.map fun m => encName m.name).map PyStr.utf8Replace = t.members.map (·.name) := by
    rw [List.map_map]
    apply List.map_congr_left
    intro m hx
    show PyStr.utf8Replace (encName m.name) = m.name
    rw [up_utf8Replace_ascii _ (up_encName_ascii m.name (fun c hc => ((hm m hx).1.2 c hc).2.1))]
    exact up_encName_toNat m.name (fun c hc => by have := (hm m hx).1.2 c hc; omega)
  have hnfN : PyStr.utf8Replace t.nameField = tname ++ 59 :: PyStr.utf8Replace junk := by
    rw [hnf, List.append_assoc]
    show PyStr.utf8Replace (encName tname ++ ([59] ++ junk)) = _
    rw [up_utf8Replace_ascii_append _ _ (up_encName_ascii tname (fun c hc => (hid.2 c hc).2.1)),
      up_utf8Replace_ascii_append [59] junk (by decide)]
    have := up_encName_toNat tname (fun c hc => by have := hid.2 c hc; omega)
    simp [this]
  have h2 : splitNames none ((splitNul ((t.defBytes ++ List.replicate pad 0).drop (t.members.length * 8))).map
      PyStr.utf8Replace) = (some tname, t.members.map (·.name) ++ List.replicate (pad + 1) []) := by
    rw [up_defBytes, RT.drop_append_len _ _ _ hlen, List.append_assoc, List.cons_append,
      up_splitNul_seg _ _ hnz, up_splitNul_segs _ _ hseg, up_splitNul_pad]
    simp only [List.map_cons, List.map_append, hnames, hnfN]
    rw [up_splitNames_first _ _ _ (fun c hc => (hid.2 c hc).2.2)]
    simp [PyStr.utf8Replace, PyStr.utf8Go]
  have h1 : (chunks8 t.members.length ((t.defBytes ++ List.replicate pad 0).take (t.members.length * 8))).mapM
      parseMemberInfo = .ok (t.members.map fun m => (m.info, m.typeWord, m.offset)) := by
    rw [up_defBytes, RT.take_append_len _ _ _ hlen]
    exact up_infos t.members hm
  obtain ⟨str, hs⟩ := up_parseTemplate_of _ symbolType _ _ _ _ h1 h2
  rw [hb] at hs
  exact ⟨str, hs⟩

end Pycomm.Lgx.Up
