/-
  Helper lemmas for C11 at driver level (LifecycleFrames.lean).  Part 3: the invariant of LCFr1.lean along the
  connected requests of `LogixDriver.read` / `write`, `SLCDriver.read` / `write` (through `lcl_Reach`) and the
  uploads `LogixDriver.open()` / `get_tag_list` (through `lcu_Closed`).
-/
import PycommProofs.LCFr2
import PycommProofs.LCLogix1
import PycommProofs.LCSlc1
import PycommProofs.LCUp2
namespace Pycomm.Cli
open Pycomm.Tgt Pycomm.Encap Pycomm.Path Pycomm.Reply Pycomm.EN

/-- the invariant with "nothing is waiting to be read" -/
def lcfr_I (cid0 : Nat) {σ} (w : World σ) : Prop := lcfr_Inv cid0 w ∧ lcfr_Pend w

/-- draws of sequence numbers and connected requests on a driver that believes it is connected -/
theorem lcfr_Reach {σ} {hook : ObjHook σ} (hh : lci_HookOk hook) {cid0 : Nat} {w w' : World σ}
    (h : Lgx.Drv.lcl_Reach hook w w') (hi : lcfr_I cid0 w) (hcon : w.drv.targetIsConnected = true) :
    lcfr_I cid0 w' ∧ w'.drv.targetIsConnected = true := by
  induction h with
  | refl => exact ⟨hi, hcon⟩
  | @draw w1 v _ ih =>
    obtain ⟨⟨b1, b2⟩, b3⟩ := ih
    exact ⟨⟨lcfr_Inv_drv b1 _ rfl rfl rfl rfl rfl, b2⟩, b3⟩
  | @send w1 seq msg _ ih =>
    obtain ⟨⟨b1, b2⟩, b3⟩ := ih
    refine ⟨lcfr_sendUnit hook hh cid0 w1 b1 b2 b3 seq msg, ?_⟩
    rw [(lcfr_sendReq_net hook w1 (.sendUnit seq msg) false).1]
    exact b3

/-- a call behind the `@with_forward_open` decorator whose body is draws and connected requests -/
theorem lcfr_decorated {σ} (hook : ObjHook σ) (hh : lci_HookOk hook) (cid0 : Nat) (w wf : World σ)
    (hi : lcfr_I cid0 w)
    (hr : (∀ e, (ensureForwardOpen hook FUEL w).2 = .error e → wf = (ensureForwardOpen hook FUEL w).1) ∧
          (∀ u, (ensureForwardOpen hook FUEL w).2 = .ok u → Lgx.Drv.lcl_Reach hook (ensureForwardOpen hook FUEL w).1 wf)) :
    lcfr_I cid0 wf := by
  have b := lcfr_cli_ensureFO hook hh cid0 FUEL w hi.1 hi.2
  have b3 := lcfr_efo_ok_conn hook FUEL w
  obtain ⟨r1, r2⟩ := hr
  generalize ensureForwardOpen hook FUEL w = r0 at b b3 r1 r2
  obtain ⟨w0, pre⟩ := r0
  cases pre with
  | error e => rw [r1 e rfl]; exact b
  | ok u => exact (lcfr_Reach hh (r2 u rfl) b (b3 w0 u rfl)).1

theorem lcfr_read {σ} (hook : ObjHook σ) (hh : lci_HookOk hook) (cid0 : Nat) (cfg : Lgx.Drv.Cfg) (w : World σ)
    (tags : List Name) (hi : lcfr_I cid0 w) : lcfr_I cid0 (Lgx.Drv.read hook cfg w tags).1 :=
  lcfr_decorated hook hh cid0 w _ hi (Lgx.Drv.lcl_read_reach hook cfg w tags _ rfl)

theorem lcfr_write {σ} (hook : ObjHook σ) (hh : lci_HookOk hook) (cid0 : Nat) (cfg : Lgx.Drv.Cfg) (w : World σ)
    (tvs : List (Name × PyVal)) (hi : lcfr_I cid0 w) : lcfr_I cid0 (Lgx.Drv.write hook cfg w tvs).1 :=
  lcfr_decorated hook hh cid0 w _ hi (Lgx.Drv.lcl_write_reach hook cfg w tvs _ rfl)

theorem lcfr_slcRead {σ} (hook : ObjHook σ) (hh : lci_HookOk hook) (cid0 : Nat) (w : World σ)
    (ts : List Name) (hi : lcfr_I cid0 w) : lcfr_I cid0 (Slc.Drv.slcRead hook w ts).1 :=
  lcfr_decorated hook hh cid0 w _ hi (Slc.Drv.lcsl_slcRead_reach hook w ts _ rfl)

theorem lcfr_slcWrite {σ} (hook : ObjHook σ) (hh : lci_HookOk hook) (cid0 : Nat) (w : World σ)
    (avs : List (Name × PyVal)) (hi : lcfr_I cid0 w) : lcfr_I cid0 (Slc.Drv.slcWrite hook w avs).1 :=
  lcfr_decorated hook hh cid0 w _ hi (Slc.Drv.lcsl_slcWrite_reach hook w avs _ rfl)

/-- the invariant is closed in the sense of LCUp2.lean: it holds across `get_tag_list` and `LogixDriver.open()` -/
theorem lcfr_closed {σ} (hook : ObjHook σ) (hh : lci_HookOk hook) (cid0 : Nat) :
    Lgx.Opn.lcu_Closed hook (fun _ => True) (fun w : World σ => lcfr_I cid0 w) where
  openD w rnd _ h := lcfr_openDrv hook hh cid0 w rnd h.1 h.2
  listId w h := ⟨lcfr_sendReq hook hh cid0 w h.1 .listIdentity trivial false, lcfr_sendReq_pend hook w h.2 _⟩
  gm w a _ _ h := lcfr_cli_generic hook hh cid0 FUEL w a h.1 h.2
  efo w h := lcfr_cli_ensureFO hook hh cid0 FUEL w h.1 h.2
  pop _w h := ⟨lcfr_Inv_drv h.1 _ rfl rfl rfl rfl rfl, h.2⟩
  fresh _w _w' hcon hf h := (lcfr_Reach hh (Lgx.Opn.lcu_Fresh_reach hf) h hcon).1

end Pycomm.Cli
