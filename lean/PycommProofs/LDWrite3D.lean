/-
  LogixDriver.write of a packed BOOL member of a structure tag (`udt.flag`): the driver sends a plain Write Tag of type
  BOOL (code 0xC1) with ONE byte (0xFF / 0x00) to the symbolic address; the controller sets / clears the member's bit
  in its host byte.
    (d)  `ldw3_locBool`, `ldw3_resolve_boolMember`, `ldw3_bitByte`, `ldw3_bitByte_law`, `ldw3_writeTag_bool`,
         `ldw3_exchange_bool`
    composed `ldw3_write_boolMember`
-/
import PycommProofs.LDWrite3B
namespace Pycomm.Lgx.Drv
open Pycomm Pycomm.Tgt Pycomm.Path Pycomm.Reply Pycomm.Encap Pycomm.Lgx Pycomm.Lgx.E2E

/-- the location a packed BOOL member of a controller-scope structure symbol resolves to: the host byte at the
    member's offset, bit `m.info` -/
def ldw3_locBool (s : Symbol) (m : MemberDef) : Loc :=
  { symInst := s.inst, scope := none, offset := m.offset, ty := .boolBit m.info, avail := 1 }

/-- (d, addressing) the symbolic path `udt.flag` resolves to the member's bit inside the symbol -/
theorem ldw3_resolve_boolMember (p : Project) (s : Symbol) (tid : Nat) (tm : Template) (m : MemberDef)
    (hid : PlainIdent s.name) (hs : s ∈ p.controller)
    (hbytes : ∀ s' ∈ p.controller, ∀ ch ∈ s'.name, ch < 256)
    (huniqN : ∀ s' ∈ p.controller, s'.name = s.name → s' = s)
    (hty : elTyOfWord s.symbolType = .struct tid) (htm : p.template? tid = some tm) (hmem : s.mem ≠ [])
    (hm : m ∈ tm.members) (hmbytes : ∀ m' ∈ tm.members, ∀ ch ∈ m'.name, ch < 256)
    (hmuniq : ∀ m' ∈ tm.members, m'.name = m.name → m' = m)
    (hmty : elTyOfWord m.typeWord = .atomic 0xC1) :
    resolve p [PSeg.symbol (s.name.map UInt8.ofNat), PSeg.symbol (m.name.map UInt8.ofNat)] =
      .ok (ldw3_locBool s m) := by
  have hme : s.mem.isEmpty = false := by
    cases h : s.mem with
    | nil => exact absurd h hmem
    | cons _ _ => rfl
  have hel : p.elSize (.struct tid) = some tm.size := by simp [Project.elSize, htm]
  have hfm := ldr3_find_member tm m hm hmbytes hmuniq
  have hb' : (ElTy.atomic 0xC1 == ElTy.atomic 0xC1) = true := by decide
  unfold resolve
  simp only [ldr_not_programName s.name hid, Bool.false_eq_true, if_false, Project.findSymbol,
    ldr_find_name p s hs hbytes huniqN, Option.map_some, hme, hty, hel, takeIndices, if_true, List.length_cons,
    List.length_nil, Nat.zero_add, resolveMembers, htm, hfm, hmty, hb', Nat.zero_mul, ldw3_locBool]

/-- the host byte after the controller's bit write: the bit set, or cleared -/
def ldw3_bitByte (old bit : Nat) (on : Bool) : Nat :=
  if on then old ||| 2 ^ bit else old - (old / 2 ^ bit % 2) * 2 ^ bit

def ldw3_bitChk (old bit : Nat) (on : Bool) : Bool :=
  decide (ldw3_bitByte old bit on < 256) &&
    (List.range 8).all fun i => (ldw3_bitByte old bit on).testBit i == (if i = bit then on else old.testBit i)

theorem ldw3_bitChk_all : ∀ old, old < 256 → ∀ bit, bit < 8 → ∀ on, ldw3_bitChk old bit on = true := by
  decide +kernel

/-- the bit law of the controller's BOOL-member write on a host byte: the result is a byte again, bit `bit` of it is
    the written truth value, every other bit is unchanged -/
theorem ldw3_bitByte_law (old bit : Nat) (on : Bool) (ho : old < 256) (hb : bit < 8) :
    ldw3_bitByte old bit on < 256 ∧
    ∀ i, i < 8 → (ldw3_bitByte old bit on).testBit i = if i = bit then on else old.testBit i := by
  have h := ldw3_bitChk_all old ho bit hb on
  unfold ldw3_bitChk at h
  simp only [Bool.and_eq_true, decide_eq_true_eq, List.all_eq_true, List.mem_range, beq_iff_eq] at h
  exact h

/-- (d) the controller's Write Tag on a packed BOOL location with the type code 0xC1, one element and one byte -/
theorem ldw3_writeTag_bool (st : LState) (loc : Loc) (s : Symbol) (bit : Nat) (b : UInt8)
    (hty : loc.ty = .boolBit bit) (hav : 1 ≤ loc.avail) (hs : st.proj.symbolOf loc = some s)
    (hoff : loc.offset < s.mem.length) :
    Lgx.writeTag st loc (le 2 0xC1 ++ le 2 1 ++ [b]) false =
      ({ st with
          proj := written st.proj loc loc.offset [UInt8.ofNat (ldw3_bitByte (s.mem.getD loc.offset 0).toNat bit (b != 0))] },
       {}) := by
  have hd : (le 2 0xC1 ++ le 2 1 ++ [b] : Bytes) = [0xC1, 0, 1, 0, b] := by
    have e1 : le 2 0xC1 = [0xC1, 0] := by decide
    have e2 : le 2 1 = [1, 0] := by decide
    rw [e1, e2]; rfl
  have hel : st.proj.elSize (.boolBit bit) = some 1 := rfl
  have htb : typeBytes st.proj (.boolBit bit) = [0xC1, 0] := by
    show le 2 0xC1 = _
    decide
  have hn : leAt ([0xC1, 0, 1, 0, b] : Bytes) 2 2 = 1 := by
    show leVal [1, 0] = 1
    decide
  rw [hd]
  unfold Lgx.writeTag
  simp only [hty, hs, hel, htb, hn, Bool.false_eq_true, if_false, List.length_cons, List.length_nil, List.take_succ_cons,
    List.take_zero, List.drop_succ_cons, List.drop_zero, Nat.add_zero, false_or]
  rw [if_neg (by omega), if_neg (by simp), if_neg (by omega), if_neg (by omega), if_neg (by simp; omega)]
  simp only [List.getD_cons_zero, ldw3_bitByte, written, logWrite, List.length_cons, List.length_nil]

/-- (d) the driver's BOOL Write Tag message at a tag address that resolves to a packed BOOL location: the controller
    accepts it and its whole effect is the host byte with that one bit set / cleared, one write logged -/
theorem ldw3_exchange_bool (st : LState) (cap : Nat) (path : Bytes) (segs : List PSeg) (loc : Loc) (s : Symbol)
    (bit : Nat) (b : UInt8)
    (hp : Denotes path segs) (hr : resolve st.proj segs = .ok loc)
    (hty : loc.ty = .boolBit bit) (hav : 1 ≤ loc.avail) (hs : st.proj.symbolOf loc = some s)
    (hoff : loc.offset < s.mem.length) :
    Cl.exchange st cap (Cl.writeMsg path (le 2 0xC1) 1 [b]) =
      ({ st with
          proj := written st.proj loc loc.offset [UInt8.ofNat (ldw3_bitByte (s.mem.getD loc.offset 0).toNat bit (b != 0))] },
       {}) := by
  have h := exchange_4D st cap path (le 2 0xC1 ++ le 2 1 ++ [b]) segs loc hp hr
  rw [ldw3_writeTag_bool st loc s bit b hty hav hs hoff] at h
  rw [← h]
  simp only [Cl.writeMsg, List.append_assoc]

/-- `write` of `udt.flag`: a packed BOOL member of a controller-scope structure, with any value that is not a `bytes`
    object: the member's bit takes the truth value of the value -/
theorem ldw3_write_boolMember (cfg : Cfg) (w : Cli.World Ext) (sess : Nat) (cidb : Bytes) (conn : Conn)
    (st : LState) (s : Symbol) (tid : Nat) (tm : Template) (m : MemberDef) (info minfo : TagInfo) (v : PyVal)
    (hw : ldr_Healthy w sess cidb conn) (hlogix : w.net.target.ext.logix = some st)
    (hs : s ∈ st.proj.controller)
    (hbytes : ∀ s' ∈ st.proj.controller, ∀ ch ∈ s'.name, ch < 256)
    (huniqN : ∀ s' ∈ st.proj.controller, s'.name = s.name → s' = s)
    (huniqI : ∀ s' ∈ st.proj.controller, s'.inst = s.inst → s' = s)
    (hid : PlainIdent s.name)
    (hty : elTyOfWord s.symbolType = .struct tid) (htm : st.proj.template? tid = some tm)
    (hm : m ∈ tm.members) (hmbytes : ∀ m' ∈ tm.members, ∀ ch ∈ m'.name, ch < 256)
    (hmuniq : ∀ m' ∈ tm.members, m'.name = m.name → m' = m)
    (hmid : PlainIdent m.name) (hnum : PyStr.isDigit m.name = false) (hnl : s.name.length + m.name.length ≤ 500)
    (hmty : elTyOfWord m.typeWord = .atomic 0xC1) (hin : m.offset < s.mem.length)
    (hget : cfg.tags.get? s.name = some info) (hk : info.core.tagType = .struct)
    (hmget : info.members.get? m.name = some minfo) (hminfo : ldr3_MemberOf minfo (nm "BOOL") .bool)
    (hnbv : ∀ b, v ≠ .bytes b)
    (hC : s.name.length + m.name.length + 16 ≤ w.drv.connectionSize)
    (hT : s.name.length + m.name.length + 15 ≤ conn.size) :
    ∃ w' frm, write hookAll cfg w [(ldr3_memberStr s.name m.name, v)] =
        (w', .ok [{ tag := ldr3_memberStr s.name m.name, value := v, type := some (nm "BOOL"), error := none }]) ∧
      w'.drv = w.drv.nextSeq.2 ∧ w'.net.sent = w.net.sent ++ [frm] ∧
      w'.net.target.ext =
        { w.net.target.ext with
          logix := some
            { st with
              proj := written st.proj (ldw3_locBool s m) m.offset
                        [UInt8.ofNat (ldw3_bitByte (s.mem.getD m.offset 0).toNat m.info v.truthy)] } } ∧
      ldr_Healthy w' sess cidb { conn with lastSeq := some w.drv.nextSeq.1 } := by
  have hat : atomicOfCode 0xC1 = some (nm "BOOL", .bool) := rfl
  obtain ⟨haty, hentry, hndw, _, _⟩ := ldr_atomic_table 0xC1 1 (nm "BOOL") .bool hat rfl rfl
  have hnd : isDword minfo = false := by
    have : (nm "BOOL" == nm "DWORD") = false := by decide
    simp [isDword, hminfo.typeName, this]
  have hmem : s.mem ≠ [] := by
    intro h; rw [h, List.length_nil] at hin; omega
  have hl1 := hid.2.1
  have hl2 := hmid.2.1
  -- (a)
  have hparse := ldr3_parse_member cfg.tags true 0 s.name m.name info minfo hid hmid hnum hget hk hmget hnd
  -- (b)
  obtain ⟨path, hpath, hpl, hden⟩ := ldr3_requestPath_member cfg s.name m.name minfo hid hmid (by omega) hminfo.instanceId
  have hpt : packedTypeOf minfo = le 2 0xC1 := ldw_packedType minfo (nm "BOOL") 0xC1 1 hminfo.struct hminfo.typeName hentry
  have henc : encode .bool v = .ok [if v.truthy then 0xFF else 0x00] := by simp only [encode]
  have hencv := ldw_encodeValue
    ({ requestId := 0, requestTag := ldr3_memberStr s.name m.name, userTag := ldr3_memberStr s.name m.name,
       plcTag := ldr3_memberStr s.name m.name, bit := none, elements := 1, info := some minfo, boolElements := none,
       value := v } : Drv.Parsed) minfo .bool _ hnbv (by rw [hminfo.typeName]; exact hndw) hminfo.ty (Or.inl rfl) henc
  -- (d)
  have hr := ldw3_resolve_boolMember st.proj s tid tm m hid hs hbytes huniqN hty htm hmem hm hmbytes hmuniq hmty
  have hsym : st.proj.symbolOf (ldw3_locBool s m) = some s := ldr_find_inst st.proj s hs huniqI
  have hex := ldw3_exchange_bool st (conn.size - 2) path _ (ldw3_locBool s m) s m.info (if v.truthy then 0xFF else 0x00)
    hden hr rfl (Nat.le_refl 1) hsym hin
  have hbv : ((if v.truthy then (0xFF : UInt8) else 0x00) != 0) = v.truthy := by
    cases v.truthy <;> decide
  rw [hbv, ← hpt] at hex
  obtain ⟨w', frm, hwr, h2, h3, h4, h5⟩ := ldw3_write_single cfg w sess cidb conn st _ (ldr3_memberStr s.name m.name) v _ _
    minfo path _ (ldw3_locBool s m) 1 [if v.truthy then 0xFF else 0x00] hw hlogix hparse rfl rfl rfl hencv rfl rfl rfl
    (by omega) hpath hden (by omega) hr hex (by rw [hpt, le_length]; omega) (by simp)
    (by rw [hpt, le_length]; simp only [List.length_cons, List.length_nil]; omega)
    (by rw [hpt, le_length]; simp only [List.length_cons, List.length_nil]; omega)
  refine ⟨w', frm, ?_, h2, h3, h4, h5⟩
  rw [hwr]
  have hresult := ldw_writeResult
    ({ requestId := 0, requestTag := ldr3_memberStr s.name m.name, userTag := ldr3_memberStr s.name m.name,
       plcTag := ldr3_memberStr s.name m.name, bit := none, elements := 1, info := some minfo, boolElements := none,
       value := v } : Drv.Parsed) minfo
    { tag := ldr3_memberStr s.name m.name, value := .bytes [if v.truthy then 0xFF else 0x00],
      type := some minfo.core.dataTypeName, error := none }
    rfl rfl rfl rfl rfl rfl
  dsimp only at hresult ⊢
  rw [hresult, hminfo.typeName]

end Pycomm.Lgx.Drv
