/-
  C16 end to end, part 1: the ListIdentity exchange. `sendReq … .listIdentity` on an open socket → encapsulation frame →
  `handle` (command 0x63) → reply frame → `Ident.parseListIdentity` → `Opn.listIdentity`, for any identity.
-/
import PycommModel.Logix.Open
import PycommProofs.IdentityProofs
import PycommProofs.GMe2eCore
namespace Pycomm.Cli
open Pycomm.Tgt Pycomm.Encap Pycomm.Path Pycomm.Reply Pycomm.EN Pycomm.EP Pycomm.Ident

/-- a driver with an open socket on a transport without faults and with nothing pending; the session handle it
    would put into a header is `s` (0 before `_register_session`, the registered handle afterwards) -/
structure ide_Sock {σ} (w : World σ) (s : Nat) : Prop where
  /-- the socket exists -/
  sock : w.drv.hasSock = true
  /-- the sender context is 8 bytes -/
  ctx8 : w.drv.context.length = 8
  /-- the option field is 0 -/
  opt0 : w.drv.option = 0
  /-- the session attribute is `s` (32 bit); ListIdentity does not need it to be registered -/
  session : w.drv.session = some s
  session32 : s < 2 ^ 32
  /-- no reply is pending, no transport faults are scheduled -/
  pend : w.net.pending = []
  faults : w.net.faults = []

theorem ide_Sock_of_Session {σ} {w : World σ} {s : Nat} (h : gme_Session w s) : ide_Sock w s :=
  { sock := h.sock, ctx8 := h.ctx8, opt0 := h.opt0, session := h.session, session32 := h.session32,
    pend := h.pend, faults := h.faults }

/-- what the API presents for a ListIdentity reply -/
def ide_presentList (id : Identity) : List (Name × PyVal) :=
  [(Ident.s "encap_protocol_version", .int 1),
   (Ident.s "ip_address", .str (renderIPv4 ((leBytes 4 id.ip).reverse)))] ++
  presentModule id ++ [(Ident.s "state", .int id.state)]

/-- the ListIdentity request can be built whenever the session attribute is a 32-bit number -/
theorem ide_build_li (ctx : Ctx) (s : Nat) (hs : ctx.session = some s) (hs32 : s < 2 ^ 32) (ho : ctx.option = 0) :
    buildRequest .listIdentity ctx =
      .ok (leBytes 2 CMD_LIST_IDENTITY ++ leBytes 2 0 ++ leBytes 4 s ++ [0, 0, 0, 0] ++ ctx.context ++ leBytes 4 0 ++ []) := by
  have e4 := lcs_buildHeader_ok (Req.listIdentity).command 0 ctx s hs hs32 ho (by omega)
  unfold buildRequest
  dsimp only [bind, Except.bind, pure, Except.pure, List.length_nil]
  rw [e4]
  rfl

/-- the target's answer to a well-formed ListIdentity frame: the event is logged, nothing else changes, the reply
    carries the identity item -/
theorem ide_handle_li {σ} (hook : ObjHook σ) (t : Target σ) (raw : Bytes) (f : Frame)
    (hp : parseFrame raw = some f) (hst : f.status = 0) (hopt : f.options = 0) (hc : f.command = CMD_LIST_IDENTITY)
    (hb : f.body = []) :
    handle hook t raw =
      ({ t with base := t.base.event (.encap CMD_LIST_IDENTITY f.session true) },
       some (frame CMD_LIST_IDENTITY f.session 0 f.context (listIdentityBody t.base.identity))) := by
  have c1 : ¬ (CMD_LIST_IDENTITY = CMD_REGISTER) := by decide
  unfold handle
  simp only [hp]
  rw [if_neg (by simp [hst, hopt])]
  simp only [hc, c1, if_false, if_true, hb, ne_eq, not_true_eq_false]

/-- one ListIdentity exchange on an open socket -/
theorem ide_sendReq_li {σ} (hook : ObjHook σ) (w : World σ) (s : Nat) (hw : ide_Sock w s) :
    ∃ frm f, buildRequest .listIdentity w.drv.ctx = .ok frm ∧
      parseFrame frm = some f ∧ f.command = CMD_LIST_IDENTITY ∧ f.session = s ∧ f.body = [] ∧
      sendReq hook w .listIdentity false =
        ({ w with net := { w.net with
              nSend := w.net.nSend + 1, nRecv := w.net.nRecv + 1, sent := w.net.sent ++ [frm], pending := [],
              target := { w.net.target with base := w.net.target.base.event (.encap CMD_LIST_IDENTITY s true) } } },
         .ok (some (frame CMD_LIST_IDENTITY s 0 w.drv.context (listIdentityBody w.net.target.base.identity)))) := by
  have hb := ide_build_li w.drv.ctx s hw.session hw.session32 hw.opt0
  obtain ⟨s2, common, g1, g2, _, g4⟩ := parse_built _ w.drv.ctx _ hw.ctx8 hb
  have g1' : w.drv.ctx.session = some s := hw.session
  rw [g1'] at g1; cases g1
  have g2' : common = [] := g2
  subst g2'
  have ho : w.drv.ctx.option = 0 := hw.opt0
  have hh := ide_handle_li hook w.net.target _ _ g4 rfl ho rfl rfl
  exact ⟨_, _, hb, g4, rfl, rfl, rfl, gme_sendReq_eq hook w _ _ _ _ hw.sock hw.faults hw.pend hb hh⟩

end Pycomm.Cli

namespace Pycomm.Lgx.Opn
open Pycomm.Tgt Pycomm.Encap Pycomm.Cli Pycomm.Ident

/-- `_list_identity()` on an open socket in front of a target whose identity is in the wire ranges: one frame, the
    event in the target's log, the identity's fields as the result -/
theorem ide_listIdentity {σ} (hook : ObjHook σ) (w : World σ) (s : Nat) (hw : ide_Sock w s)
    (hid : IdOk w.net.target.base.identity) :
    ∃ frm f, buildRequest .listIdentity w.drv.ctx = .ok frm ∧
      parseFrame frm = some f ∧ f.command = CMD_LIST_IDENTITY ∧ f.session = s ∧ f.body = [] ∧
      listIdentity hook w =
        ({ w with net := { w.net with
              nSend := w.net.nSend + 1, nRecv := w.net.nRecv + 1, sent := w.net.sent ++ [frm], pending := [],
              target := { w.net.target with base := w.net.target.base.event (.encap CMD_LIST_IDENTITY s true) } } },
         .ok (ide_presentList w.net.target.base.identity)) := by
  obtain ⟨frm, f, hb, hf, hc, hs, hbody, hsend⟩ := ide_sendReq_li hook w s hw
  refine ⟨frm, f, hb, hf, hc, hs, hbody, ?_⟩
  unfold listIdentity
  rw [hsend]
  dsimp only
  rw [list_identity_decode_spec _ hid s w.drv.context hw.ctx8]
  rfl

end Pycomm.Lgx.Opn
