/-
  Helper lemmas for C10 / C17 over histories that contain `SLCDriver.read` / `SLCDriver.write` calls
  (model: PycommModel/SlcDriver.lean).  Part 1: the shape of one `_read_tag` / `_write_tag` (`lcsl_Step`: nothing
  drawn / the transaction id drawn / transaction id and sequence count drawn and the latter sent through
  `CIPDriver.send` of a connected request), of the list comprehension over the addresses (`lcsl_Chain`), and of a
  whole call after its `@with_forward_open` decorator; hence the lifecycle invariant and the idle invariant across
  `slcRead` / `slcWrite` (through `lcl_Reach` of LCLogix1.lean).
-/
import PycommModel.SlcDriver
import PycommProofs.LCLogix2
namespace Pycomm.Slc.Drv
open Pycomm Pycomm.Tgt Pycomm.Slc Pycomm.Lgx.Drv

/-- the call returned (did not raise) -/
def lcsl_ok {α} : Except Exn α → Bool
  | .ok _ => true
  | .error _ => false

/-- `CIPDriver.send` of a request that expects a response never returns without one -/
theorem lcsl_sendReq_some {σ} (hook : ObjHook σ) (w : Cli.World σ) (r : Encap.Req) :
    (Cli.sendReq hook w r false).2 ≠ .ok none := by
  unfold Cli.sendReq
  split
  · intro h; cases h
  · split
    · intro h; cases h
    · dsimp only
      generalize w.net.sockSend hook _ = s
      obtain ⟨n1, s⟩ := s
      cases s with
      | error e => intro h; cases h
      | ok u =>
        dsimp only
        simp only [Bool.false_eq_true, if_false]
        generalize n1.sockReceive = rc
        obtain ⟨n2, rcv⟩ := rc
        cases rcv with
        | error e => intro h; cases h
        | ok reply => intro h; cases h

/-- `sendPccc`: one draw, then `CIPDriver.send` of the connected request carrying the number drawn -/
theorem lcsl_sendPccc {σ} (hook : ObjHook σ) (w : Cli.World σ) (msg : Bytes) :
    (sendPccc hook w msg).1 =
      (Cli.sendReq hook { w with drv := w.drv.nextSeq.2 } (.sendUnit w.drv.nextSeq.1 msg) false).1 ∧
    (∀ raw, (sendPccc hook w msg).2 = .ok raw →
      (Cli.sendReq hook { w with drv := w.drv.nextSeq.2 } (.sendUnit w.drv.nextSeq.1 msg) false).2 = .ok (some raw)) ∧
    (∀ e, (sendPccc hook w msg).2 = .error e →
      (Cli.sendReq hook { w with drv := w.drv.nextSeq.2 } (.sendUnit w.drv.nextSeq.1 msg) false).2 = .error e) := by
  have hne := lcsl_sendReq_some hook { w with drv := w.drv.nextSeq.2 } (.sendUnit w.drv.nextSeq.1 msg)
  unfold sendPccc
  dsimp only
  generalize Cli.sendReq hook { w with drv := w.drv.nextSeq.2 } (.sendUnit w.drv.nextSeq.1 msg) false = res at hne ⊢
  obtain ⟨w1, r⟩ := res
  cases r with
  | error e =>
    dsimp only
    refine ⟨rfl, (fun raw h => nomatch h), fun e' h => ?_⟩
    simp only [Except.error.injEq] at h
    rw [h]
  | ok o =>
    cases o with
    | none => exact absurd rfl hne
    | some raw =>
      dsimp only
      refine ⟨rfl, fun raw' h => ?_, fun e' h => nomatch h⟩
      simp only [Except.ok.injEq] at h
      rw [h]

/-- what one `_read_tag` / `_write_tag` does to the world: nothing (the address or the value is refused before
    anything is drawn); one draw (the transaction id — the message cannot be encoded); or two draws (transaction id,
    sequence count) and the send of the second number through `CIPDriver.send`.  The flag says that a Tag was
    returned — which needs that the send returned a reply. -/
inductive lcsl_Step {σ} (hook : ObjHook σ) (w : Cli.World σ) : Cli.World σ → Bool → Prop
  | refused : lcsl_Step hook w w false
  | unbuilt : lcsl_Step hook w { w with drv := w.drv.nextSeq.2 } false
  | sent (msg : Bytes) (ok : Bool)
      (h : ok = true → ∃ x, (Cli.sendReq hook { w with drv := w.drv.nextSeq.2.nextSeq.2 }
        (.sendUnit w.drv.nextSeq.2.nextSeq.1 msg) false).2 = .ok x) :
      lcsl_Step hook w (Cli.sendReq hook { w with drv := w.drv.nextSeq.2.nextSeq.2 }
        (.sendUnit w.drv.nextSeq.2.nextSeq.1 msg) false).1 ok

/-- after the transaction id was drawn: `sendPccc` and the judgement of the reply -/
theorem lcsl_sendPccc_step {σ} (hook : ObjHook σ) (w : Cli.World σ) (msg : Bytes)
    (f : Bytes → Except Exn STag) :
    lcsl_Step hook w
      (match sendPccc hook { w with drv := w.drv.nextSeq.2 } msg with
        | (w2, .error e) => ((w2, .error e) : Cli.World σ × Except Exn STag)
        | (w2, .ok raw) => (w2, f raw)).1
      (lcsl_ok (match sendPccc hook { w with drv := w.drv.nextSeq.2 } msg with
        | (w2, .error e) => ((w2, .error e) : Cli.World σ × Except Exn STag)
        | (w2, .ok raw) => (w2, f raw)).2) := by
  obtain ⟨s1, s2, s3⟩ := lcsl_sendPccc hook { w with drv := w.drv.nextSeq.2 } msg
  generalize sendPccc hook { w with drv := w.drv.nextSeq.2 } msg = sp at s1 s2 s3 ⊢
  obtain ⟨w2, r⟩ := sp
  dsimp only at s1 s2 s3 ⊢
  subst s1
  cases r with
  | error e => exact .sent msg false (fun h => nomatch h)
  | ok raw =>
    dsimp only
    have hs := s2 raw rfl
    exact .sent msg _ (fun _ => ⟨_, hs⟩)

theorem lcsl_readTag_step {σ} (hook : ObjHook σ) (w : Cli.World σ) (t : Name) :
    lcsl_Step hook w (readTag hook w t).1 (lcsl_ok (readTag hook w t).2) := by
  unfold readTag
  cases hparse : parseTag t with
  | none => exact .refused
  | some a =>
    dsimp only
    cases hm : slcReadMsg a w.drv.nextSeq.1 with
    | error e => exact .unbuilt
    | ok pccc =>
      dsimp only
      have := lcsl_sendPccc_step hook w (msgStart w.drv.nextSeq.2 ++ pccc) (fun raw =>
        match replyRefused raw with
        | .error e => .error e
        | .ok (some txt) => .ok (refusedTag a txt)
        | .ok none => .ok (readTagOf a raw))
      generalize sendPccc hook { w with drv := w.drv.nextSeq.2 } (msgStart w.drv.nextSeq.2 ++ pccc) = sp at this ⊢
      obtain ⟨w2, r⟩ := sp
      cases r with
      | error e => exact this
      | ok raw =>
        dsimp only at this ⊢
        cases hr : replyRefused raw with
        | error e => rw [hr] at this; exact this
        | ok o => cases o <;> (rw [hr] at this; exact this)

theorem lcsl_writeTag_step {σ} (hook : ObjHook σ) (w : Cli.World σ) (t : Name) (v : PyVal) :
    lcsl_Step hook w (writeTag hook w t v).1 (lcsl_ok (writeTag hook w t v).2) := by
  unfold writeTag
  cases hparse : parseTag t with
  | none => exact .refused
  | some a =>
    dsimp only
    cases hv : writeValue a v with
    | error e => exact .refused
    | ok x =>
      dsimp only
      cases hm : writeMsg a w.drv.nextSeq.1 v with
      | error e => exact .unbuilt
      | ok pccc =>
        dsimp only
        have := lcsl_sendPccc_step hook w (msgStart w.drv.nextSeq.2 ++ pccc) (fun raw =>
          match replyRefused raw with
          | .error e => .error e
          | .ok (some txt) => .ok (refusedTag a txt)
          | .ok none => .ok (writeTagOf a v raw))
        generalize sendPccc hook { w with drv := w.drv.nextSeq.2 } (msgStart w.drv.nextSeq.2 ++ pccc) = sp at this ⊢
        obtain ⟨w2, r⟩ := sp
        cases r with
        | error e => exact this
        | ok raw =>
          dsimp only at this ⊢
          cases hr : replyRefused raw with
          | error e => rw [hr] at this; exact this
          | ok o => cases o <;> (rw [hr] at this; exact this)

/-- the list comprehension `[self._read_tag(tag) for tag in addresses]` (likewise for writes): steps that returned a
    Tag, ended by the first step that raised (flag `false`) or by the end of the list (flag `true`); the number counts
    the steps that returned a Tag -/
inductive lcsl_Chain {σ} (hook : ObjHook σ) : Cli.World σ → Cli.World σ → Bool → Nat → Prop
  | nil (w : Cli.World σ) : lcsl_Chain hook w w true 0
  | fail {w w1 : Cli.World σ} : lcsl_Step hook w w1 false → lcsl_Chain hook w w1 false 0
  | cons {w w1 w2 : Cli.World σ} {b : Bool} {n : Nat} : lcsl_Step hook w w1 true → lcsl_Chain hook w1 w2 b n →
      lcsl_Chain hook w w2 b (n + 1)

theorem lcsl_readTags_chain {σ} (hook : ObjHook σ) (ts : List Name) :
    ∀ w : Cli.World σ, ∃ n, lcsl_Chain hook w (readTags hook w ts).1 (lcsl_ok (readTags hook w ts).2) n ∧
      (lcsl_ok (readTags hook w ts).2 = true → n = ts.length) := by
  induction ts with
  | nil => intro w; exact ⟨0, .nil w, fun _ => rfl⟩
  | cons t rest ih =>
    intro w
    rw [readTags]
    have st := lcsl_readTag_step hook w t
    generalize readTag hook w t = r1 at st ⊢
    obtain ⟨w1, r⟩ := r1
    cases r with
    | error e => exact ⟨0, .fail st, fun h => nomatch h⟩
    | ok tg =>
      dsimp only at st ⊢
      obtain ⟨n, ch, hn⟩ := ih w1
      generalize readTags hook w1 rest = r2 at ch hn ⊢
      obtain ⟨w2, rs⟩ := r2
      cases rs with
      | error e => exact ⟨n + 1, .cons st ch, fun h => nomatch h⟩
      | ok tgs => exact ⟨n + 1, .cons st ch, fun _ => by rw [hn rfl]; rfl⟩

theorem lcsl_writeTags_chain {σ} (hook : ObjHook σ) (avs : List (Name × PyVal)) :
    ∀ w : Cli.World σ, ∃ n, lcsl_Chain hook w (writeTags hook w avs).1 (lcsl_ok (writeTags hook w avs).2) n ∧
      (lcsl_ok (writeTags hook w avs).2 = true → n = avs.length) := by
  induction avs with
  | nil => intro w; exact ⟨0, .nil w, fun _ => rfl⟩
  | cons p rest ih =>
    intro w
    obtain ⟨t, v⟩ := p
    rw [writeTags]
    have st := lcsl_writeTag_step hook w t v
    generalize writeTag hook w t v = r1 at st ⊢
    obtain ⟨w1, r⟩ := r1
    cases r with
    | error e => exact ⟨0, .fail st, fun h => nomatch h⟩
    | ok tg =>
      dsimp only at st ⊢
      obtain ⟨n, ch, hn⟩ := ih w1
      generalize writeTags hook w1 rest = r2 at ch hn ⊢
      obtain ⟨w2, rs⟩ := r2
      cases rs with
      | error e => exact ⟨n + 1, .cons st ch, fun h => nomatch h⟩
      | ok tgs => exact ⟨n + 1, .cons st ch, fun _ => by rw [hn rfl]; rfl⟩

/-- a list that was served completely without a single step is the empty list: the world is untouched -/
theorem lcsl_Chain_zero {σ} {hook : ObjHook σ} {w w' : Cli.World σ} (h : lcsl_Chain hook w w' true 0) : w' = w := by
  cases h
  rfl

/-! ### everything goes through draws and connected sends -/

theorem lcsl_Step_reach {σ} {hook : ObjHook σ} {w w' : Cli.World σ} {ok : Bool} (h : lcsl_Step hook w w' ok) :
    lcl_Reach hook w w' := by
  cases h with
  | refused => exact .refl w
  | unbuilt => exact lcl_Reach_next (.refl w)
  | sent msg ok h => exact .send _ msg (lcl_Reach_next (lcl_Reach_next (.refl w)))

theorem lcsl_Chain_reach {σ} {hook : ObjHook σ} {w w' : Cli.World σ} {b : Bool} {n : Nat}
    (h : lcsl_Chain hook w w' b n) : lcl_Reach hook w w' := by
  induction h with
  | nil w => exact .refl w
  | fail st => exact lcsl_Step_reach st
  | cons st _ ih => exact lcl_Reach_trans (lcsl_Step_reach st) ih

/-- `slcRead`: the world after the call is the world the `@with_forward_open` decorator left when the decorator
    raised; otherwise it is reached from that world by draws of sequence numbers and sends of connected requests -/
theorem lcsl_slcRead_reach {σ} (hook : ObjHook σ) (w : Cli.World σ) (ts : List Name)
    (r0 : Cli.World σ × Except Exn Unit) (h0 : Cli.ensureForwardOpen hook Cli.FUEL w = r0) :
    (∀ e, r0.2 = .error e → (slcRead hook w ts).1 = r0.1) ∧
    (∀ u, r0.2 = .ok u → lcl_Reach hook r0.1 (slcRead hook w ts).1) := by
  unfold slcRead
  rw [h0]
  obtain ⟨w0, pre⟩ := r0
  dsimp only
  cases pre with
  | error e => exact ⟨fun _ _ => rfl, fun u h => nomatch h⟩
  | ok u =>
    refine ⟨(fun e h => nomatch h), fun _ _ => ?_⟩
    dsimp only
    obtain ⟨n, ch, _⟩ := lcsl_readTags_chain hook ts w0
    exact lcsl_Chain_reach ch

theorem lcsl_slcWrite_reach {σ} (hook : ObjHook σ) (w : Cli.World σ) (avs : List (Name × PyVal))
    (r0 : Cli.World σ × Except Exn Unit) (h0 : Cli.ensureForwardOpen hook Cli.FUEL w = r0) :
    (∀ e, r0.2 = .error e → (slcWrite hook w avs).1 = r0.1) ∧
    (∀ u, r0.2 = .ok u → lcl_Reach hook r0.1 (slcWrite hook w avs).1) := by
  unfold slcWrite
  rw [h0]
  obtain ⟨w0, pre⟩ := r0
  dsimp only
  cases pre with
  | error e => exact ⟨fun _ _ => rfl, fun u h => nomatch h⟩
  | ok u =>
    refine ⟨(fun e h => nomatch h), fun _ _ => ?_⟩
    dsimp only
    obtain ⟨n, ch, _⟩ := lcsl_writeTags_chain hook avs w0
    exact lcsl_Chain_reach ch

/-- `slcRead` preserves the lifecycle invariant, whatever it returns or raises -/
theorem lcsl_slcRead_inv {σ} (hook : ObjHook σ) (hh : Cli.lci_HookOk hook) (S : Prop) (w : Cli.World σ)
    (ts : List Name) (hi : Cli.lci_Inv S w) (hc : Cli.lci_Conn w) :
    Cli.lci_Inv S (slcRead hook w ts).1 ∧ Cli.lci_Conn (slcRead hook w ts).1 := by
  obtain ⟨b1, b2, b3⟩ := Cli.lci_cli_ensureFO hook S Cli.FUEL w hi hc _ rfl
  obtain ⟨r1, r2⟩ := lcsl_slcRead_reach hook w ts _ rfl
  generalize Cli.ensureForwardOpen hook Cli.FUEL w = r0 at b1 b2 b3 r1 r2
  obtain ⟨w0, pre⟩ := r0
  cases pre with
  | error e => rw [r1 e rfl]; exact ⟨b1, b2⟩
  | ok u =>
    obtain ⟨a1, a2, _⟩ := lcl_Reach_inv hh (r2 u rfl) b1 b2 (b3 rfl)
    exact ⟨a1, a2⟩

/-- `slcWrite` preserves the lifecycle invariant, whatever it returns or raises -/
theorem lcsl_slcWrite_inv {σ} (hook : ObjHook σ) (hh : Cli.lci_HookOk hook) (S : Prop) (w : Cli.World σ)
    (avs : List (Name × PyVal)) (hi : Cli.lci_Inv S w) (hc : Cli.lci_Conn w) :
    Cli.lci_Inv S (slcWrite hook w avs).1 ∧ Cli.lci_Conn (slcWrite hook w avs).1 := by
  obtain ⟨b1, b2, b3⟩ := Cli.lci_cli_ensureFO hook S Cli.FUEL w hi hc _ rfl
  obtain ⟨r1, r2⟩ := lcsl_slcWrite_reach hook w avs _ rfl
  generalize Cli.ensureForwardOpen hook Cli.FUEL w = r0 at b1 b2 b3 r1 r2
  obtain ⟨w0, pre⟩ := r0
  cases pre with
  | error e => rw [r1 e rfl]; exact ⟨b1, b2⟩
  | ok u =>
    obtain ⟨a1, a2, _⟩ := lcl_Reach_inv hh (r2 u rfl) b1 b2 (b3 rfl)
    exact ⟨a1, a2⟩

/-- `slcRead` neither opens nor closes the socket -/
theorem lcsl_slcRead_nstep {σ} (hook : ObjHook σ) (hh : Cli.lci_HookOk hook) (w : Cli.World σ) (ts : List Name) :
    Cli.lci_NStep w (slcRead hook w ts).1 := by
  have b1 := (Cli.lci_NStep_mutual hook hh Cli.FUEL).2.1 w
  obtain ⟨r1, r2⟩ := lcsl_slcRead_reach hook w ts _ rfl
  generalize Cli.ensureForwardOpen hook Cli.FUEL w = r0 at b1 r1 r2
  obtain ⟨w0, pre⟩ := r0
  cases pre with
  | error e => rw [r1 e rfl]; exact b1
  | ok u => exact Cli.lci_NStep_trans b1 (lcl_Reach_nstep hh (r2 u rfl))

theorem lcsl_slcWrite_nstep {σ} (hook : ObjHook σ) (hh : Cli.lci_HookOk hook) (w : Cli.World σ)
    (avs : List (Name × PyVal)) : Cli.lci_NStep w (slcWrite hook w avs).1 := by
  have b1 := (Cli.lci_NStep_mutual hook hh Cli.FUEL).2.1 w
  obtain ⟨r1, r2⟩ := lcsl_slcWrite_reach hook w avs _ rfl
  generalize Cli.ensureForwardOpen hook Cli.FUEL w = r0 at b1 r1 r2
  obtain ⟨w0, pre⟩ := r0
  cases pre with
  | error e => rw [r1 e rfl]; exact b1
  | ok u => exact Cli.lci_NStep_trans b1 (lcl_Reach_nstep hh (r2 u rfl))

end Pycomm.Slc.Drv
