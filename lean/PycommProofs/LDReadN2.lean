/-
  LogixDriver.read of any number of requests: facts about the groups `_read_build_multi_requests` forms
  (`ldrn_groups`, from `K.plan`): they partition the requests in order, none is empty, each fits the connection size
  by the loop's accounting, and there is exactly one when everything fits one packet.
-/
import PycommProofs.LDReadN1
namespace Pycomm.Lgx.Drv
open Pycomm Pycomm.Tgt Pycomm.Path Pycomm.Reply Pycomm.Encap Pycomm.Lgx Pycomm.Lgx.E2E

theorem ldrn_reqs_rid (d : Cli.Drv) (k : Nat) (es : List ldrn_Ent) :
    (ldrn_reqs d k es).map (·.rid) = List.range' k es.length := by
  induction es generalizing d k with
  | nil => rfl
  | cons e es ih => rw [ldrn_reqs, List.map_cons, ih, List.length_cons, List.range'_succ]

theorem ldrn_reqs_nodup (d : Cli.Drv) (k : Nat) (es : List ldrn_Ent) : ((ldrn_reqs d k es).map (·.rid)).Nodup := by
  rw [ldrn_reqs_rid]; exact List.nodup_range'

theorem ldrn_reqs_est (d : Cli.Drv) (k : Nat) (es : List ldrn_Ent) :
    (ldrn_reqs d k es).map ldrn_est = es.map fun e => ldr2_estimate e.info e.path := by
  induction es generalizing d k with
  | nil => rfl
  | cons e es ih => rw [ldrn_reqs, List.map_cons, ih, List.map_cons]; rfl

theorem ldrn_find_self (rs : List ReadReq) (hn : (rs.map (·.rid)).Nodup) (r : ReadReq) (hr : r ∈ rs) :
    rs.find? (·.rid == r.rid) = some r := by
  induction rs with
  | nil => cases hr
  | cons a t ih =>
    simp only [List.map_cons, List.nodup_cons] at hn
    rcases List.mem_cons.1 hr with rfl | h'
    · simp
    · have hne : a.rid ≠ r.rid := by
        intro e; apply hn.1; rw [e]; exact List.mem_map_of_mem h'
      have : (a.rid == r.rid) = false := by simpa using hne
      rw [List.find?_cons, this]
      exact ih hn.2 h'

theorem ldrn_filterMap_self {α} (f : α → Option α) (l : List α) (h : ∀ x ∈ l, f x = some x) : l.filterMap f = l := by
  induction l with
  | nil => rfl
  | cons a t ih =>
    rw [List.filterMap_cons, h a List.mem_cons_self, ih (fun x hx => h x (List.mem_cons_of_mem _ hx))]

theorem ldrn_flatten_filterMap {α β} (f : α → Option β) (gs : List (List α)) :
    (gs.map (List.filterMap f)).flatten = gs.flatten.filterMap f := by
  induction gs with
  | nil => rfl
  | cons g gs ih => rw [List.map_cons, List.flatten_cons, List.flatten_cons, List.filterMap_append, ih]

theorem ldrn_kitems_filter (C : Nat) (rs : List ReadReq) (hf : ∀ r ∈ rs, ldrn_est r + K.OVERHEAD ≤ C) :
    ((ldrn_kitems rs).filter (!·.error)).filter (fun i => !(i.size + K.OVERHEAD > C)) = ldrn_kitems rs := by
  have h1 : (ldrn_kitems rs).filter (!·.error) = ldrn_kitems rs := by
    rw [List.filter_eq_self]
    intro x hx
    obtain ⟨r, _, rfl⟩ := List.mem_map.1 hx
    rfl
  rw [h1, List.filter_eq_self]
  intro x hx
  obtain ⟨r, hr, rfl⟩ := List.mem_map.1 hx
  have := hf r hr
  simp only [Bool.not_eq_eq_eq_not, Bool.not_true, decide_eq_false_iff_not]
  omega

theorem ldrn_kitems_ids (rs : List ReadReq) : (ldrn_kitems rs).map (·.id) = rs.map (·.rid) := by
  unfold ldrn_kitems; rw [List.map_map]; rfl

/-- the groups partition the requests, in request order -/
theorem ldrn_groups_flatten (C : Nat) (rs : List ReadReq) (hn : (rs.map (·.rid)).Nodup)
    (hf : ∀ r ∈ rs, ldrn_est r + K.OVERHEAD ≤ C) : (ldrn_groups C rs).flatten = rs := by
  unfold ldrn_groups
  rw [ldrn_flatten_filterMap, (K.plan_partition C (ldrn_kitems rs)).1, ldrn_kitems_filter C rs hf, ldrn_kitems_ids,
    List.filterMap_map]
  exact ldrn_filterMap_self _ rs (fun r hr => ldrn_find_self rs hn r hr)

/-- the ids of the groups of the plan are request ids -/
theorem ldrn_plan_ids (C : Nat) (rs : List ReadReq) (hf : ∀ r ∈ rs, ldrn_est r + K.OVERHEAD ≤ C)
    (g : List Nat) (hg : g ∈ (K.plan C (ldrn_kitems rs)).groups) (id : Nat) (hid : id ∈ g) : id ∈ rs.map (·.rid) := by
  have : id ∈ (K.plan C (ldrn_kitems rs)).groups.flatten := List.mem_flatten.2 ⟨g, hg, hid⟩
  rw [(K.plan_partition C (ldrn_kitems rs)).1, ldrn_kitems_filter C rs hf, ldrn_kitems_ids] at this
  exact this

/-- no group is empty -/
theorem ldrn_groups_nonempty (C : Nat) (rs : List ReadReq) (hf : ∀ r ∈ rs, ldrn_est r + K.OVERHEAD ≤ C) :
    ∀ g ∈ ldrn_groups C rs, g ≠ [] := by
  intro g hg
  unfold ldrn_groups at hg
  obtain ⟨g0, hg0, rfl⟩ := List.mem_map.1 hg
  have hne := K.plan_no_empty_group C (ldrn_kitems rs) g0 hg0
  cases g0 with
  | nil => exact absurd rfl hne
  | cons id t =>
    have hid := ldrn_plan_ids C rs hf _ hg0 id List.mem_cons_self
    obtain ⟨r, hr, hrid⟩ := List.mem_map.1 hid
    have hsome : (rs.find? (·.rid == id)).isSome = true := by
      rw [List.find?_isSome]
      exact ⟨r, hr, by simp [hrid]⟩
    obtain ⟨r', hr'⟩ := Option.isSome_iff_exists.1 hsome
    rw [List.filterMap_cons, hr']
    exact List.cons_ne_nil _ _

theorem ldrn_sizeOf (rs : List ReadReq) (id : Nat) :
    K.sizeOf (ldrn_kitems rs) id = ((rs.find? (·.rid == id)).map ldrn_est).getD 0 := by
  unfold K.sizeOf ldrn_kitems
  induction rs with
  | nil => rfl
  | cons r rs ih =>
    rw [List.map_cons, List.find?_cons, List.find?_cons]
    cases h : (r.rid == id) with
    | true => rfl
    | false => exact ih

theorem ldrn_sum_filterMap (rs : List ReadReq) (g : List Nat) :
    ((g.filterMap fun id => rs.find? (·.rid == id)).map ldrn_est).sum = (g.map (K.sizeOf (ldrn_kitems rs))).sum := by
  induction g with
  | nil => rfl
  | cons id t ih =>
    rw [List.filterMap_cons, List.map_cons, List.sum_cons, ldrn_sizeOf]
    cases h : rs.find? (·.rid == id) with
    | none => simp only [Option.map_none, Option.getD_none, Nat.zero_add]; exact ih
    | some r => simp only [List.map_cons, List.sum_cons, Option.map_some, Option.getD_some, ih]

/-- each group fits the connection size by the loop's accounting -/
theorem ldrn_groups_fit (C : Nat) (rs : List ReadReq) (hn : (rs.map (·.rid)).Nodup) :
    ∀ g ∈ ldrn_groups C rs, K.OVERHEAD + (g.map ldrn_est).sum ≤ C := by
  intro g hg
  unfold ldrn_groups at hg
  obtain ⟨g0, hg0, rfl⟩ := List.mem_map.1 hg
  have hu : K.UniqueIds (ldrn_kitems rs) := by
    unfold K.UniqueIds; rw [ldrn_kitems_ids]; exact hn
  have := K.plan_groups_fit C (ldrn_kitems rs) hu g0 hg0
  rw [K.sumSizes_eq] at this
  rw [ldrn_sum_filterMap]
  exact this

theorem ldrn_le_sum {α} (f : α → Nat) (l : List α) (x : α) (hx : x ∈ l) : f x ≤ (l.map f).sum := by
  induction l with
  | nil => cases hx
  | cons a t ih =>
    rw [List.map_cons, List.sum_cons]
    rcases List.mem_cons.1 hx with rfl | h
    · omega
    · have := ih h; omega

theorem ldrn_fold_fit (C : Nat) (l : List (Nat × Nat)) (done : List (List Nat)) (cur : List Nat) (sz : Nat)
    (h : sz + (l.map (·.2)).sum ≤ C) :
    l.foldl (K.groupStep C) (done, cur, sz) = (done, (l.map (·.1)).reverse ++ cur, sz + (l.map (·.2)).sum) := by
  induction l generalizing cur sz with
  | nil => simp
  | cons a t ih =>
    simp only [List.map_cons, List.sum_cons] at h
    rw [List.foldl_cons]
    have hstep : K.groupStep C (done, cur, sz) a = (done, a.1 :: cur, sz + a.2) := by
      unfold K.groupStep
      simp only []
      rw [if_neg (by omega)]
    rw [hstep, ih (a.1 :: cur) (sz + a.2) (by omega)]
    simp only [List.map_cons, List.reverse_cons, List.append_assoc, List.singleton_append, List.sum_cons, Nat.add_assoc]

/-- when all requests together fit one packet by the loop's accounting there is exactly one group: all of them -/
theorem ldrn_groups_one (C : Nat) (rs : List ReadReq) (hn : (rs.map (·.rid)).Nodup) (hne : rs ≠ [])
    (hfit : K.OVERHEAD + (rs.map ldrn_est).sum ≤ C) : ldrn_groups C rs = [rs] := by
  have hf : ∀ r ∈ rs, ldrn_est r + K.OVERHEAD ≤ C := by
    intro r hr
    have : ldrn_est r ≤ (rs.map ldrn_est).sum := ldrn_le_sum ldrn_est rs r hr
    omega
  unfold ldrn_groups
  rw [K.plan_eq]
  simp only []
  rw [ldrn_kitems_filter C rs hf]
  have hsum : ((ldrn_kitems rs).map fun i => (i.id, i.size)).map (·.2) = rs.map ldrn_est := by
    unfold ldrn_kitems; rw [List.map_map, List.map_map]; rfl
  have hids : ((ldrn_kitems rs).map fun i => (i.id, i.size)).map (·.1) = rs.map (·.rid) := by
    unfold ldrn_kitems; rw [List.map_map, List.map_map]; rfl
  rw [ldrn_fold_fit C _ [] [] K.OVERHEAD (by rw [hsum]; exact hfit), hids]
  simp only [List.append_nil, List.reverse_reverse, List.reverse_cons, List.reverse_nil, List.nil_append]
  have hne' : rs.map (·.rid) ≠ [] := by
    intro h; exact hne (List.map_eq_nil_iff.1 h)
  rw [List.filter_cons, if_pos (by simpa using hne'), List.filter_nil, List.map_cons, List.map_nil, List.filterMap_map]
  rw [show ((fun id => List.find? (fun x => x.rid == id) rs) ∘ fun x : ReadReq => x.rid) =
      (fun r => rs.find? (·.rid == r.rid)) from rfl,
    ldrn_filterMap_self _ rs (fun r hr => ldrn_find_self rs hn r hr)]

end Pycomm.Lgx.Drv
