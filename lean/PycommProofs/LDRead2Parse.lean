/-
  LogixDriver.read, layer (a) for the documented request shapes of a controller-scope tag:
  `name`, `name[i]` (up to three indexes), with an optional bit number `.b` and an optional element count `{n}`.
-/
import PycommProofs.LDReadParse
import PycommProofs.LDShape
namespace Pycomm.Lgx.Drv
open Pycomm Pycomm.Tgt Pycomm.Path Pycomm.Reply Pycomm.EP

/-- the request strings: the tag (with indexes), then `.b`, then `{n}` -/
def ldr2_tagStr (l : TagLevel) (bit : Option Nat) (cnt : Option Nat) : Name :=
  renderLevel l ++ (match bit with | some b => [46] ++ decRender b | none => []) ++
    (match cnt with | some n => [123] ++ decRender n ++ [125] | none => [])

/-- a controller-scope tag name with at most three 32-bit indexes -/
def ldr2_Level (l : TagLevel) : Prop := PlainIdent l.name ∧ l.idx.length ≤ 3 ∧ ∀ i ∈ l.idx, i < 2 ^ 32

theorem ldr2_level_wf (l : TagLevel) (h : ldr2_Level l) : WfLevel l :=
  ⟨h.1.1, h.1.2.1, fun c hc => (ldr_ident_facts c (h.1.2.2 c hc)).2.2.2.2.2.2.2, h.2.1, h.2.2⟩

/-- the characters of a rendered level: identifier characters (digits included), brackets and commas -/
theorem ldr2_level_chars (l : TagLevel) (h : ldr2_Level l) (c : Nat) (hc : c ∈ renderLevel l) :
    ldr_identChar c = true ∨ c = 91 ∨ c = 93 ∨ c = 44 := by
  unfold renderLevel at hc
  split at hc
  · exact Or.inl (h.1.2.2 c hc)
  · simp only [List.mem_append, List.mem_singleton] at hc
    rcases hc with ((hc | hc) | hc) | hc
    · exact Or.inl (h.1.2.2 c hc)
    · exact Or.inr (Or.inl hc)
    · rcases mem_joinWith _ _ _ hc with hc | ⟨x, hx, hcx⟩
      · exact Or.inr (Or.inr (Or.inr hc))
      · obtain ⟨n, _, rfl⟩ := List.mem_map.mp hx
        have := decRender_digits n c hcx
        left
        simp only [PyStr.isDigitC, Bool.and_eq_true, decide_eq_true_eq] at this
        simp only [ldr_identChar, Bool.or_eq_true, Bool.and_eq_true, decide_eq_true_eq, beq_iff_eq]
        omega
    · exact Or.inr (Or.inr (Or.inl hc))

theorem ldr2_level_not_mem (l : TagLevel) (h : ldr2_Level l) (c : Nat)
    (hc : c = 46 ∨ c = 58 ∨ c = 123 ∨ c = 125) : c ∉ renderLevel l := by
  intro hm
  rcases ldr2_level_chars l h c hm with h1 | h1 | h1 | h1
  · have := ldr_ident_facts c h1; omega
  · omega
  · omega
  · omega

theorem ldr2_digits_not_mem (n : Nat) (c : Nat) (hc : c = 46 ∨ c = 58 ∨ c = 91 ∨ c = 93 ∨ c = 123 ∨ c = 125) :
    c ∉ decRender n := by
  intro hm
  have := decRender_digits n c hm
  simp only [PyStr.isDigitC, Bool.and_eq_true, decide_eq_true_eq] at this
  omega

/-! ### `splitElements` -/

theorem ldr2_splitElements_none (t : Name) (h : 123 ∉ t) : splitElements t = .ok (t, 1, true) := by
  unfold splitElements
  rw [ldr_contains_false t 123 h]
  simp

theorem ldr2_splitElements_cnt (t : Name) (n : Nat) (h : 123 ∉ t) :
    splitElements (t ++ ([123] ++ decRender n ++ [125])) = .ok (t, (n : Int), false) := by
  have hd : (123 : Nat) ∉ decRender n ++ [125] := by
    intro hm
    simp only [List.mem_append, List.mem_singleton] at hm
    rcases hm with hm | hm
    · exact ldr2_digits_not_mem n 123 (by omega) hm
    · omega
  have hsplit : PyStr.split 123 (t ++ ([123] ++ decRender n ++ [125])) = [t, decRender n ++ [125]] := by
    have e : t ++ ([123] ++ decRender n ++ [125]) = t ++ 123 :: (decRender n ++ [125]) := by simp
    unfold PyStr.split
    rw [e, splitOn_append_sep 123 t _ h, splitOn_no_sep 123 _ hd]
  have hlast : (t ++ ([123] ++ decRender n ++ [125])).getLast? = some 125 := by
    have e : t ++ ([123] ++ decRender n ++ [125]) = (t ++ [123] ++ decRender n) ++ [125] := by simp
    rw [e, List.getLast?_append]; rfl
  have hcont : (t ++ ([123] ++ decRender n ++ [125])).contains 123 = true := by simp
  have htake : (decRender n ++ [125]).take ((decRender n ++ [125]).length - 1) = decRender n := by simp
  unfold splitElements
  rw [hlast, hcont, hsplit]
  simp only [beq_self_eq_true, Bool.and_self, if_true, htake, pyInt_decRender]

/-! ### the index validation -/

theorem ldr2_isDigit_decRender (n : Nat) : PyStr.isDigit (decRender n) = true := by
  unfold PyStr.isDigit
  have h1 : (decRender n).isEmpty = false := by
    cases h : decRender n with
    | nil => exact absurd h (decRender_ne_nil n)
    | cons _ _ => rfl
  rw [h1]
  simp only [Bool.not_false, Bool.true_and, List.all_eq_true]
  exact decRender_digits n

theorem ldr2_indexPartOk_digits (n : Nat) : indexPartOk (decRender n) = true := by
  unfold indexPartOk
  rw [ldr_contains_false _ 91 (ldr2_digits_not_mem n 91 (by omega)),
    ldr_contains_false _ 93 (ldr2_digits_not_mem n 93 (by omega))]
  simp

theorem ldr2_indexPartOk_level (l : TagLevel) (h : ldr2_Level l) : indexPartOk (renderLevel l) = true := by
  have hn91 : (91 : Nat) ∉ l.name := ldr_plain_not_mem l.name h.1 91 (by omega)
  have hn93 : (93 : Nat) ∉ l.name := ldr_plain_not_mem l.name h.1 93 (by omega)
  unfold renderLevel
  split
  · unfold indexPartOk
    rw [ldr_contains_false _ 91 hn91, ldr_contains_false _ 93 hn93]
    simp
  · rename_i h0
    have e1 : l.name ++ [91] ++ joinWith 44 (l.idx.map decRender) ++ [93] =
        l.name ++ 91 :: (joinWith 44 (l.idx.map decRender) ++ [93]) := by simp
    have htw := lds_takeWhile_stop (· != 91) l.name (joinWith 44 (l.idx.map decRender) ++ [93]) 91
      (by intro x hx; simp only [bne_iff_ne, ne_eq]; intro e; exact hn91 (e ▸ hx)) (by simp)
    have e3 : PyStr.split 44 (joinWith 44 (l.idx.map decRender)) = l.idx.map decRender := by
      apply splitOn_joinWith
      · simpa using h0
      · intro x hx hm
        obtain ⟨n, _, rfl⟩ := List.mem_map.mp hx
        exact (digit_facts 44 (decRender_digits n 44 hm)).2.2.1 rfl
    have hne : l.name.isEmpty = false := by
      cases hh : l.name with
      | nil => exact absurd hh h.1.1
      | cons _ _ => rfl
    unfold indexPartOk
    rw [e1]
    have hc : (l.name ++ 91 :: (joinWith 44 (l.idx.map decRender) ++ [93])).contains 91 = true := by simp
    rw [hc]
    simp only [Bool.true_or, Bool.not_true, Bool.false_eq_true, if_false, htw.1, htw.2, List.drop_succ_cons,
      List.drop_zero, hne, Bool.not_false, Bool.true_and]
    have hl : (joinWith 44 (l.idx.map decRender) ++ [93]).getLast? = some 93 := by
      rw [List.getLast?_append]; rfl
    have ht : (joinWith 44 (l.idx.map decRender) ++ [93]).take
        ((joinWith 44 (l.idx.map decRender) ++ [93]).length - 1) = joinWith 44 (l.idx.map decRender) := by simp
    rw [hl, ht, e3]
    simp only [beq_self_eq_true, Bool.true_and, List.all_eq_true]
    intro x hx
    obtain ⟨n, _, rfl⟩ := List.mem_map.mp hx
    rw [strip_digits _ (decRender_ne_nil n) (decRender_digits n)]
    exact ldr2_isDigit_decRender n

/-! ### name, scope, bit number -/

theorem ldr2_not_program (t : Name) (h : 58 ∉ t) : PyStr.startsWith (nm "Program:") t = false := by
  cases hs : PyStr.startsWith (nm "Program:") t with
  | false => rfl
  | true =>
    exfalso
    apply h
    have e : t.take (nm "Program:").length = nm "Program:" := by
      simpa [PyStr.startsWith] using hs
    have : (58 : Nat) ∈ t.take (nm "Program:").length := by rw [e]; decide
    exact List.mem_of_mem_take this

theorem ldr2_stripArray_level (l : TagLevel) (h : ldr2_Level l) : stripArray (renderLevel l) = l.name := by
  have hn91 : (91 : Nat) ∉ l.name := ldr_plain_not_mem l.name h.1 91 (by omega)
  unfold stripArray renderLevel
  by_cases h0 : l.idx = []
  · rw [if_pos h0, find_none 91 l.name hn91]
  · rw [if_neg h0]
    have e1 : l.name ++ [91] ++ joinWith 44 (l.idx.map decRender) ++ [93] =
        l.name ++ 91 :: (joinWith 44 (l.idx.map decRender) ++ [93]) := by simp
    rw [e1, find_append 91 _ _ hn91]
    simp

theorem ldr2_tagStr_plain (l : TagLevel) : ldr2_tagStr l none none = renderLevel l := by
  simp [ldr2_tagStr]

theorem ldr2_decVal_decRender (n : Nat) : PyStr.decVal (decRender n) = n := by
  unfold decRender
  rw [decVal_reverse, leDec_decRev]

/-- `(bit, attrs, tag without bit number)` for the attributes left after the base tag -/
theorem ldr2_bitSplit_none (tag base : Name) : lds_bitSplit tag base [] = (none, [], tag) := rfl

theorem ldr2_bitSplit_some (tag base : Name) (b : Nat) :
    lds_bitSplit tag base [decRender b] = (some (b : Int), [], base) := by
  unfold lds_bitSplit
  simp only [List.getLast?_singleton, ldr2_isDigit_decRender, if_true, List.dropLast_singleton, List.isEmpty_nil,
    ldr2_decVal_decRender]

/-- (a) `_parse_tag_request` of such a request string, up to the tag-database lookup: element count, base tag and
    bit number are split off as written -/
theorem ldr2_parse_unfold (db : TagDb) (write : Bool) (rid : Nat) (l : TagLevel) (bit cnt : Option Nat)
    (hl : ldr2_Level l) (hcnt : ∀ n, cnt = some n → n ≤ 65535) :
    parseTagRequest db write rid (ldr2_tagStr l bit cnt) =
      lds_tail db write rid (ldr2_tagStr l bit cnt) (ldr2_tagStr l bit none) ((cnt.getD 1 : Nat) : Int) cnt.isNone
        (renderLevel l) (bit.map Int.ofNat) [] (renderLevel l) := by
  have h123 : (123 : Nat) ∉ ldr2_tagStr l bit none := by
    unfold ldr2_tagStr
    intro hm
    simp only [List.append_nil, List.mem_append] at hm
    rcases hm with hm | hm
    · exact ldr2_level_not_mem l hl 123 (by omega) hm
    · cases bit with
      | none => simp at hm
      | some b =>
        simp only [List.mem_append, List.mem_singleton] at hm
        rcases hm with hm | hm
        · omega
        · exact ldr2_digits_not_mem b 123 (by omega) hm
  have hse : splitElements (ldr2_tagStr l bit cnt) = .ok (ldr2_tagStr l bit none, ((cnt.getD 1 : Nat) : Int), cnt.isNone) := by
    cases cnt with
    | none => exact ldr2_splitElements_none _ h123
    | some n =>
      have e : ldr2_tagStr l bit (some n) = ldr2_tagStr l bit none ++ ([123] ++ decRender n ++ [125]) := by
        simp [ldr2_tagStr]
      rw [e]
      exact ldr2_splitElements_cnt _ n h123
  have hrange : (0 : Int) ≤ ((cnt.getD 1 : Nat) : Int) ∧ ((cnt.getD 1 : Nat) : Int) ≤ 65535 := by
    cases cnt with
    | none => simp
    | some n => have := hcnt n rfl; simp; omega
  have h46 : (46 : Nat) ∉ renderLevel l := ldr2_level_not_mem l hl 46 (by omega)
  have h58 : (58 : Nat) ∉ renderLevel l := ldr2_level_not_mem l hl 58 (by omega)
  have hsplit : PyStr.split 46 (ldr2_tagStr l bit none) =
      renderLevel l :: (match bit with | some b => [decRender b] | none => []) := by
    unfold PyStr.split ldr2_tagStr
    cases bit with
    | none => simp only [List.append_nil]; exact splitOn_no_sep 46 _ h46
    | some b =>
      have e : renderLevel l ++ ([46] ++ decRender b) ++ [] = renderLevel l ++ 46 :: decRender b := by simp
      rw [e, splitOn_append_sep 46 _ _ h46, splitOn_no_sep 46 _ (ldr2_digits_not_mem b 46 (by omega))]
  have hscoped : ∀ as, lds_scoped (renderLevel l) as = some (renderLevel l, as) := by
    intro as
    unfold lds_scoped
    rw [ldr2_not_program _ h58]
    simp
  rw [lds_parse_unfold, hse]
  simp only [hrange, and_self, Bool.not_true, decide_true, Bool.false_eq_true, if_false, hsplit]
  cases bit with
  | none =>
    simp only [List.find?_cons, ldr2_indexPartOk_level l hl, Bool.not_true, List.find?_nil, hscoped,
      ldr2_bitSplit_none, Option.map_none, ldr2_tagStr_plain]
  | some b =>
    simp only [List.find?_cons, ldr2_indexPartOk_level l hl, ldr2_indexPartOk_digits, Bool.not_true, List.find?_nil,
      hscoped, ldr2_bitSplit_some, Option.map_some, Int.ofNat_eq_natCast]

/-! ### the part after the database lookup -/

theorem ldr2_getTagInfo_level (db : TagDb) (l : TagLevel) (info : TagInfo) (hl : ldr2_Level l)
    (hget : db.get? l.name = some info) : getTagInfo db (renderLevel l) [] = .ok (some info) := by
  unfold getTagInfo
  rw [ldr2_stripArray_level l hl, hget]
  simp

/-- (a) a tag that is not a BOOL array (DWORD): the request addresses the tag as written (without bit number and
    element count) -/
theorem ldr2_tail_plain (db : TagDb) (write : Bool) (rid : Nat) (tag0 tag : Name) (elements : Int) (implicit : Bool)
    (l : TagLevel) (bit : Option Int) (info : TagInfo) (hl : ldr2_Level l) (hget : db.get? l.name = some info)
    (hnd : isDword info = false) (hbit : lds_bitBad info bit = false) :
    lds_tail db write rid tag0 tag elements implicit (renderLevel l) bit [] (renderLevel l) =
      { requestId := rid, requestTag := tag0, userTag := tag, plcTag := renderLevel l, bit := bit, elements := elements,
        info := some info, boolElements := none } := by
  unfold lds_tail
  simp only [ldr2_getTagInfo_level db l info hl hget, hbit, hnd, Bool.false_eq_true, if_false]

theorem ldr2_renderLevel_one (name : Name) (i : Nat) :
    renderLevel ⟨name, [i]⟩ = name ++ 91 :: (decRender i ++ [93]) := by
  simp [renderLevel, joinWith]

theorem ldr2_getArrayIndex_one (name : Name) (i : Nat) :
    getArrayIndex (renderLevel ⟨name, [i]⟩) = some (name, some (i : Int)) := by
  have hd : (91 : Nat) ∉ decRender i ++ [93] := by
    intro hm
    simp only [List.mem_append, List.mem_singleton] at hm
    rcases hm with hm | hm
    · exact ldr2_digits_not_mem i 91 (by omega) hm
    · omega
  have hlast : (name ++ 91 :: (decRender i ++ [93])).getLast? = some 93 := by
    have e : name ++ 91 :: (decRender i ++ [93]) = (name ++ [91] ++ decRender i) ++ [93] := by simp
    rw [e, List.getLast?_append]; rfl
  have hcont : (name ++ 91 :: (decRender i ++ [93])).contains 91 = true := by simp
  have htake : (decRender i ++ [93]).take ((decRender i ++ [93]).length - 1) = decRender i := by simp
  rw [ldr2_renderLevel_one]
  unfold getArrayIndex
  rw [hlast, hcont, lds_rsplit1 91 name _ hd]
  simp only [beq_self_eq_true, Bool.and_self, if_true, htake, pyInt_decRender]

/-- (a) one element (or a range starting at an element) of a BOOL array: the request reads DWORD 0 up to the DWORD
    holding the last requested bit; `bit` is the index -/
theorem ldr2_tail_dword (db : TagDb) (rid : Nat) (tag0 tag : Name) (elements : Int) (implicit : Bool)
    (name : Name) (i : Nat) (info : TagInfo) (hl : ldr2_Level ⟨name, [i]⟩) (hget : db.get? name = some info)
    (hd : isDword info = true)
    (hwords : ((i : Int) + elements) / 32 + (if ((i : Int) + elements) % 32 ≠ 0 then 1 else 0) ≤ 65535) :
    lds_tail db false rid tag0 tag elements implicit (renderLevel ⟨name, [i]⟩) none [] (renderLevel ⟨name, [i]⟩) =
      { requestId := rid, requestTag := tag0, userTag := tag, plcTag := name ++ nm "[0]", bit := some (i : Int),
        elements := ((i : Int) + elements) / 32 + (if ((i : Int) + elements) % 32 ≠ 0 then 1 else 0),
        info := some info, boolElements := if implicit || elements == 1 then none else some elements } := by
  have hnot : ¬ (((i : Int) + elements) / 32 + (if ((i : Int) + elements) % 32 ≠ 0 then 1 else 0) > 65535) := by omega
  unfold lds_tail
  simp only [ldr2_getTagInfo_level db ⟨name, [i]⟩ info hl hget, lds_bitBad, hd, Bool.false_eq_true, if_false, if_true,
    ldr2_getArrayIndex_one, Option.getD_some, hnot]

end Pycomm.Lgx.Drv
