/-
  C14 end to end, the helpers built on `generic_message`: reading a Tag off `gme_TagOf`, the generic object, and the
  wall-clock object behind get_plc_time / set_plc_time.
-/
import PycommProofs.GMe2eCore
namespace Pycomm.Cli
open Pycomm.Tgt Pycomm.Encap Pycomm.Path Pycomm.Reply Pycomm.EN Pycomm.EP

/-! ### reading the Tag -/

theorem gme_truthy_bytes (n : Name) (b : Bytes) : ({ name := n, value := .bytes b, error := none } : Tag).truthy = true := rfl

theorem gme_falsy_of_error (n : Name) (v : PyVal) (e : Err) : ({ name := n, value := v, error := some e } : Tag).truthy = false := by
  simp [Tag.truthy]

/-- a one-byte id -/
theorem gme_Id_byte (b : UInt8) : gme_Id (.bytes [b]) b.toNat := by
  have h := gme_Id.bytes [b] (Or.inl rfl)
  have e : leVal [b] = b.toNat := by simp [leVal]
  rw [e] at h
  exact h

/-- the Tag of a request without a data type -/
theorem gme_tag_untyped (tr : Transport) (svc : Nat) (r : MRReply) (n : Name) (value : PyVal) (err : Option Err)
    (h : gme_TagOf tr svc r none value err) :
    value = .bytes (gme_payload r) ∧
    (gme_accepted tr svc (r.status % 256) = true →
      err = none ∧ ({ name := n, value := value, error := err } : Tag).truthy = true) ∧
    (gme_accepted tr svc (r.status % 256) = false →
      (∃ suffix, err = some (.text (serviceStatusTextI ((r.status % 256 : Nat) : Int) ++ suffix))) ∧
      ({ name := n, value := value, error := err } : Tag).truthy = false) := by
  have hv := h.untyped rfl
  refine ⟨hv, ?_, ?_⟩
  · intro hacc
    have he := h.okUntyped hacc rfl
    rw [hv, he]
    exact ⟨rfl, rfl⟩
  · intro hacc
    obtain ⟨⟨suffix, he⟩, _⟩ := h.refused hacc
    refine ⟨⟨suffix, he⟩, ?_⟩
    rw [he]
    exact gme_falsy_of_error _ _ _

/-- the Tag of a request with a data type -/
theorem gme_tag_typed (tr : Transport) (svc : Nat) (r : MRReply) (ty : Ty) (n : Name) (value : PyVal) (err : Option Err)
    (h : gme_TagOf tr svc r (some ty) value err) :
    (∀ v rest, gme_accepted tr svc (r.status % 256) = true → decode ty (gme_payload r) = .ok (v, rest) →
      value = v ∧ err = none) ∧
    (∀ e, gme_accepted tr svc (r.status % 256) = true → decode ty (gme_payload r) = .error e →
      value = .none ∧ err = some .parseFailed ∧ ({ name := n, value := value, error := err } : Tag).truthy = false) ∧
    (gme_accepted tr svc (r.status % 256) = false →
      value = .none ∧ (∃ suffix, err = some (.text (serviceStatusTextI ((r.status % 256 : Nat) : Int) ++ suffix))) ∧
      ({ name := n, value := value, error := err } : Tag).truthy = false) := by
  refine ⟨fun v rest hacc hd => h.okTyped ty v rest hacc rfl hd, ?_, ?_⟩
  · intro e hacc hd
    obtain ⟨hv, he⟩ := h.badTyped ty e hacc rfl hd
    refine ⟨hv, he, ?_⟩
    rw [he]
    exact gme_falsy_of_error _ _ _
  · intro hacc
    obtain ⟨⟨suffix, he⟩, hv⟩ := h.refused hacc
    refine ⟨hv (by simp), ⟨suffix, he⟩, ?_⟩
    rw [he]
    exact gme_falsy_of_error _ _ _

/-! ### state components the bookkeeping of an exchange leaves alone -/

theorem gme_unitBase_timeUs (b : Base) (session cid seq : Nat) (c : Conn) :
    (ldr_unitBase b session cid seq c).timeUs = b.timeUs := by
  unfold ldr_unitBase; dsimp only; split <;> rfl

theorem gme_unitBase_generic (b : Base) (session cid seq : Nat) (c : Conn) :
    (ldr_unitBase b session cid seq c).generic = b.generic := by
  unfold ldr_unitBase; dsimp only; split <;> rfl

theorem gme_unitAfter_timeUs {σ} (t1 : Target σ) (c : Conn) (mr : Bytes) :
    (ldr_unitAfter t1 c mr).base.timeUs = t1.base.timeUs := by
  unfold ldr_unitAfter; split <;> rfl

/-- the request is in the log after a connected exchange whose object does not touch the log -/
theorem gme_unitAfter_log {σ} (t1 : Target σ) (c : Conn) (mr : Bytes) (e : Event) (h : e ∈ t1.base.log) :
    e ∈ (ldr_unitAfter t1 c mr).base.log := by
  unfold ldr_unitAfter
  split
  · exact List.mem_cons_of_mem _ h
  · exact h

/-! ### the wall-clock object (class 0x8B, instance 1) -/

/-- the data type get_plc_time decodes the reply with: Struct(n_bytes(6), ULINT("µs")) -/
def gme_timeTy : Ty := .struct (.cons (some []) (.nbytes 6) (.cons (some [0xB5, 115]) (.int .ulint) .nil))

theorem gme_wallClockSet (b : Base) (t : Nat) (ht : t < 2 ^ 64) :
    wallClockSet b (leBytes 2 1 ++ leBytes 2 6 ++ leBytes 8 t) =
      ({ b with timeUs := t }, { data := le 2 1 ++ le 2 6 ++ le 2 0 }) := by
  have e : leBytes 2 1 ++ leBytes 2 6 ++ leBytes 8 t = [1,0,6,0] ++ leBytes 8 t := rfl
  have hl : ([1,0,6,0] ++ leBytes 8 t).length = 12 := by simp [RT.leBytes_length]
  have h1 : leAt ([1,0,6,0] ++ leBytes 8 t) 0 2 = 1 := rfl
  have h2 : leAt ([1,0,6,0] ++ leBytes 8 t) 2 2 = 6 := rfl
  have h3 : leAt ([1,0,6,0] ++ leBytes 8 t) 4 8 = t := by
    have : (([1,0,6,0] ++ leBytes 8 t).drop 4).take 8 = leBytes 8 t := by
      simp [List.take_of_length_le, RT.leBytes_length]
    rw [leAt, this, RT.leVal_leBytes 8 t (by omega)]
  rw [e]
  unfold wallClockSet
  rw [if_pos ⟨hl, h1, h2⟩, h3]

theorem gme_wallClockGet (b : Base) :
    wallClockGet b [1, 0, 0x0B, 0] = { data := le 2 1 ++ le 2 0x0B ++ le 2 0 ++ le 8 b.timeUs } := by
  have g1 : leAt [1, 0, 0x0B, 0] 0 2 = 1 := rfl
  have g2 : leAt [1, 0, 0x0B, 0] 2 2 = 0x0B := rfl
  unfold wallClockGet
  rw [if_pos ⟨by simp, g1, g2⟩]

theorem gme_clock_notCM : classInst (gme_wantPath 0x8B 1 none) ≠ some (0x06, 1, []) := by decide

theorem gme_baseObject_set (b : Base) (d : Bytes) :
    baseObject b { service := 0x04, path := gme_wantPath 0x8B 1 none, data := d } = some (wallClockSet b d) := by
  simp [baseObject, gme_wantPath, classInst]

theorem gme_baseObject_get (b : Base) (d : Bytes) :
    baseObject b { service := 0x03, path := gme_wantPath 0x8B 1 none, data := d } = some (b, wallClockGet b d) := by
  simp [baseObject, gme_wantPath, classInst]

/-- `set_plc_time`'s generic message on a healthy connection: one frame; the wall clock holds the written time; the
    connection stays healthy; the Tag is truthy -/
theorem gme_set_time {σ} (hook : ObjHook σ) (w : World σ) (sess : Nat) (cidb : Bytes) (conn : Conn) (t : Nat) (n : Name)
    (hw : gme_Healthy w sess cidb conn) (ht : t < 2 ^ 64) (hsize : 34 ≤ conn.size) :
    ∃ w1 frm, genericMessage hook FUEL w
        { service := 0x04, cls := .bytes [0x8b], inst := .bytes [0x01],
          data := leBytes 2 1 ++ leBytes 2 6 ++ leBytes 8 t, name := n } =
        (w1, .ok { name := n, value := .bytes [1, 0, 6, 0, 0, 0], error := none }) ∧
      gme_Healthy w1 sess cidb { conn with lastSeq := some w.drv.nextSeq.1 } ∧
      w1.drv = w.drv.nextSeq.2 ∧ w1.net.sent = w.net.sent ++ [frm] ∧
      w1.net.target.base.timeUs = t ∧ w1.net.target.ext = w.net.target.ext := by
  obtain ⟨frm, f, rp, value, err, _, _, _, _, _, _, hgm, htag⟩ := gme_connected_core hook w sess cidb conn
    { service := 0x04, cls := .bytes [0x8b], inst := .bytes [0x01],
      data := leBytes 2 1 ++ leBytes 2 6 ++ leBytes 8 t, name := n } 0x8B 1 none hw rfl (by show (4 : Nat) < 256; omega)
    (gme_Id_byte 0x8b) (gme_Id_byte 0x01) .absent (by simp [RT.leBytes_length]; omega) (by simp [RT.leBytes_length])
  have hreq : gme_reqOf {
      service := 0x04, cls := .bytes [0x8b], inst := .bytes [0x01],
      data := leBytes 2 1 ++ leBytes 2 6 ++ leBytes 8 t, name := n } 0x8B 1 none =
      { service := 0x04, path := gme_wantPath 0x8B 1 none, data := leBytes 2 1 ++ leBytes 2 6 ++ leBytes 8 t } := rfl
  rw [hreq] at hgm htag
  generalize hin : gme_connIn w.net.target sess (leVal cidb) w.drv.nextSeq.1 conn
    { service := 0x04, path := gme_wantPath 0x8B 1 none, data := leBytes 2 1 ++ leBytes 2 6 ++ leBytes 8 t } = tIn at hgm htag
  have hd := gme_dispatch_base hook tIn sess (some (conn.size - 2)) true
    { service := 0x04, path := gme_wantPath 0x8B 1 none, data := leBytes 2 1 ++ leBytes 2 6 ++ leBytes 8 t }
    _ _ gme_clock_notCM (by rw [gme_baseObject_set, gme_wallClockSet _ t ht])
  rw [hd] at hgm htag
  dsimp only at hgm htag
  obtain ⟨hv, hok, _⟩ := gme_tag_untyped _ _ _ n _ _ htag
  obtain ⟨he, _⟩ := hok (gme_accepted_zero _ _)
  have hv' : value = .bytes [1, 0, 6, 0, 0, 0] := hv
  rw [hv', he] at hgm
  refine ⟨_, frm, hgm, ?_, rfl, rfl, ?_, ?_⟩
  · refine gme_Healthy_after hw frm w.drv.nextSeq.1
      { service := 0x04, path := gme_wantPath 0x8B 1 none, data := leBytes 2 1 ++ leBytes 2 6 ++ leBytes 8 t } _ _ ?_ ?_
    · rw [hin]
    · rw [hin]
  · show (ldr_unitAfter _ conn _).base.timeUs = t
    rw [gme_unitAfter_timeUs]
  · show (ldr_unitAfter _ conn _).ext = _
    rw [ldr_unitAfter_ext, ← hin]
    rfl

/-- `get_plc_time`'s generic message on a healthy connection: one frame; the decoded value is the wall clock's time -/
theorem gme_get_time {σ} (hook : ObjHook σ) (w : World σ) (sess : Nat) (cidb : Bytes) (conn : Conn) (n : Name)
    (hw : gme_Healthy w sess cidb conn) (ht : w.net.target.base.timeUs < 2 ^ 64) (hsize : 26 ≤ conn.size) :
    ∃ w1 frm, genericMessage hook FUEL w
        { service := 0x03, cls := .bytes [0x8b], inst := .bytes [0x01], data := [1, 0, 0x0B, 0],
          dataType := some gme_timeTy, name := n } =
        (w1, .ok { name := n, value := .dict [([0xB5, 115], .int w.net.target.base.timeUs)], error := none }) ∧
      gme_Healthy w1 sess cidb { conn with lastSeq := some w.drv.nextSeq.1 } ∧
      w1.drv = w.drv.nextSeq.2 ∧ w1.net.sent = w.net.sent ++ [frm] ∧
      w1.net.target.base.timeUs = w.net.target.base.timeUs ∧ w1.net.target.ext = w.net.target.ext := by
  obtain ⟨frm, f, rp, value, err, _, _, _, _, _, _, hgm, htag⟩ := gme_connected_core hook w sess cidb conn
    { service := 0x03, cls := .bytes [0x8b], inst := .bytes [0x01], data := [1, 0, 0x0B, 0],
      dataType := some gme_timeTy, name := n } 0x8B 1 none hw rfl (by show (3 : Nat) < 256; omega)
    (gme_Id_byte 0x8b) (gme_Id_byte 0x01) .absent (by simp; omega) (by simp)
  have hreq : gme_reqOf {
      service := 0x03, cls := .bytes [0x8b], inst := .bytes [0x01], data := [1, 0, 0x0B, 0],
      dataType := some gme_timeTy, name := n } 0x8B 1 none =
      { service := 0x03, path := gme_wantPath 0x8B 1 none, data := [1, 0, 0x0B, 0] } := rfl
  rw [hreq] at hgm htag
  have htime : (gme_connIn w.net.target sess (leVal cidb) w.drv.nextSeq.1 conn
      { service := 0x03, path := gme_wantPath 0x8B 1 none, data := [1, 0, 0x0B, 0] }).base.timeUs = w.net.target.base.timeUs := by
    show (ldr_unitBase w.net.target.base sess (leVal cidb) w.drv.nextSeq.1 conn).timeUs = _
    rw [gme_unitBase_timeUs]
  generalize hin : gme_connIn w.net.target sess (leVal cidb) w.drv.nextSeq.1 conn
    { service := 0x03, path := gme_wantPath 0x8B 1 none, data := [1, 0, 0x0B, 0] } = tIn at hgm htag htime
  have hd := gme_dispatch_base hook tIn sess (some (conn.size - 2)) true
    { service := 0x03, path := gme_wantPath 0x8B 1 none, data := [1, 0, 0x0B, 0] }
    _ _ gme_clock_notCM (by rw [gme_baseObject_get, gme_wallClockGet])
  rw [hd] at hgm htag
  dsimp only at hgm htag
  obtain ⟨hok, _, _⟩ := gme_tag_typed _ _ _ _ n _ _ htag
  have hdec : decode gme_timeTy (gme_payload { data := le 2 1 ++ le 2 0x0B ++ le 2 0 ++ le 8 tIn.base.timeUs }) =
      .ok (.dict [([0xB5, 115], .int w.net.target.base.timeUs)], []) := by
    rw [htime]
    exact time_reply_decodes _ ht
  obtain ⟨hv, he⟩ := hok _ _ (gme_accepted_zero _ _) hdec
  rw [hv, he] at hgm
  refine ⟨_, frm, hgm, ?_, rfl, rfl, ?_, ?_⟩
  · refine gme_Healthy_after hw frm w.drv.nextSeq.1
      { service := 0x03, path := gme_wantPath 0x8B 1 none, data := [1, 0, 0x0B, 0] } _ _ ?_ ?_
    · rw [hin]
    · rw [hin]
  · show (ldr_unitAfter _ conn _).base.timeUs = _
    rw [gme_unitAfter_timeUs]
    exact htime
  · show (ldr_unitAfter _ conn _).ext = _
    rw [ldr_unitAfter_ext, ← hin]
    rfl

end Pycomm.Cli
