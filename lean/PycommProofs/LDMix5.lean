/-
  LogixDriver.read of mixed shapes: member paths of controller-scope structure tags as entries —
    `ldmx_levels_ok`   a dotted path of levels, given where the controller resolves it and what it holds (after
                       `ldr4_read_levels_core`);
    `ldmx_Member`      `tag[i].m1[j]. … .leaf` ending at an elementary member (`read_member_path_e2e`);
    `ldmx_BoolMember`  `tag[i].m1. … .flag` ending at a BOOL member (`read_nested_bool_member_e2e`).
-/
import PycommProofs.LDMix4
import PycommProofs.LogixDriverRead4
namespace Pycomm.Lgx.Drv
open Pycomm Pycomm.Tgt Pycomm.Path Pycomm.Reply Pycomm.Encap Pycomm.Lgx Pycomm.Lgx.E2E

/-- the entry of a dotted path of levels `ls` whose last member has the entry `leaf`: the request addresses the string
    as written, one element; `data` is the data of the controller's answer, `out` the Tag -/
def ldmx_entLevels (cfg : Cfg) (ls : List TagLevel) (leaf : TagInfo) (data : Bytes) (out : LTag) : ldmx_Ent :=
  { tag := renderTag ls, user := renderTag ls, plc := renderTag ls, bit := none, els := 1, boolEls := none,
    info := leaf, path := ldrn_pathOf cfg (renderTag ls) leaf, segs := ls.flatMap levelSegs,
    reply := { status := 0, data := data }, adv := 1, rcd := out, res := out }

theorem ldmx_levels_est (cfg : Cfg) (ls : List TagLevel) (leaf : TagInfo) (data : Bytes) (out : LTag) (hne : ls ≠ [])
    (hls : ∀ l ∈ ls, ldr2_Level l) (hsize : ldr4_pathSize ls ≤ 510) (hinst : leaf.core.instanceId = none) :
    ldmx_estE (ldmx_entLevels cfg ls leaf data out) =
      tagReturnSize leaf 1 + (ldrn_pathOf cfg (renderTag ls) leaf).length + 7 ∧
    3 ≤ (ldrn_pathOf cfg (renderTag ls) leaf).length ∧
    (ldrn_pathOf cfg (renderTag ls) leaf).length ≤ ldr4_pathSize ls + 1 := by
  obtain ⟨path, hpathOk, hpl, hden⟩ := ldr4_requestPath cfg ls leaf hne hls hsize hinst
  have hpo : ldrn_pathOf cfg (renderTag ls) leaf = path := by unfold ldrn_pathOf; rw [hpathOk]
  have hsegs : ls.flatMap levelSegs ≠ [] := by
    cases ls with
    | nil => exact absurd rfl hne
    | cons l0 rest => simp [levelSegs]
  have h3 := ldmx_den_len path _ hden hsegs
  rw [ldmx_estE_eq]
  show tagReturnSize leaf 1 + (ldrn_pathOf cfg (renderTag ls) leaf).length + 7 = _ ∧ _
  rw [hpo]
  exact ⟨rfl, h3, hpl⟩

/-- a dotted member path `l0.rest…` of a controller-scope structure tag, for any location the controller resolves the
    symbolic path to and any bytes it holds there -/
theorem ldmx_levels_ok (cfg : Cfg) (st : LState) (cap : Nat) (l0 : TagLevel) (rest : List TagLevel) (info leaf : TagInfo)
    (loc : Loc) (bs data : Bytes) (v : PyVal) (dt : Name)
    (hl0 : ldr2_Level l0) (hrest : ∀ l ∈ rest, ldr2_Level l) (hne : rest ≠ [])
    (hnum : ∀ l, rest.getLast? = some l → PyStr.isDigit l.name = false)
    (hsize : ldr4_pathSize (l0 :: rest) ≤ 500)
    (hget : cfg.tags.get? l0.name = some info) (hk : info.core.tagType = .struct)
    (hpath : ldr4_InfoPath info.members (rest.map (·.name)) leaf)
    (hnd : leaf.core.dataTypeName ≠ nm "DWORD") (hinst : leaf.core.instanceId = none)
    (hr : resolve st.proj ((l0 :: rest).flatMap levelSegs) = .ok loc) (hav : 1 ≤ loc.avail)
    (hbts : readBytes st.proj loc 1 = some bs) (hdata : data = typeBytes st.proj loc.ty ++ bs)
    (hreply : parseReadReply data leaf 1 = .ok (v, dt)) (hvn : v ≠ .none)
    (hret : bs.length + (typeBytes st.proj loc.ty).length ≤ tagReturnSize leaf 1 + 4)
    (hc : ldmx_estE (ldmx_entLevels cfg (l0 :: rest) leaf data
      { tag := renderTag (l0 :: rest), value := v, type := some dt, error := none }) + 10 ≤ cap + 2) :
    ldmx_EntOk cfg st cap (ldmx_entLevels cfg (l0 :: rest) leaf data
      { tag := renderTag (l0 :: rest), value := v, type := some dt, error := none }) := by
  have hndw : isDword leaf = false := by
    have : (leaf.core.dataTypeName == nm "DWORD") = false := by simpa using hnd
    simp [isDword, this]
  have hall : ∀ l ∈ l0 :: rest, ldr2_Level l := by
    intro l hl
    rcases List.mem_cons.1 hl with rfl | hl
    · exact hl0
    · exact hrest l hl
  obtain ⟨path, hpathOk, hpl, hden⟩ := ldr4_requestPath cfg (l0 :: rest) leaf (by simp) hall (by omega) hinst
  have hpo : ldrn_pathOf cfg (renderTag (l0 :: rest)) leaf = path := by unfold ldrn_pathOf; rw [hpathOk]
  have hest := ldmx_levels_est cfg (l0 :: rest) leaf data
    { tag := renderTag (l0 :: rest), value := v, type := some dt, error := none } (by simp) hall (by omega) hinst
  have hparse : ∀ rid, parseTagRequest cfg.tags false rid (renderTag (l0 :: rest)) =
      ldmx_parsedAt rid (ldmx_entLevels cfg (l0 :: rest) leaf data
        { tag := renderTag (l0 :: rest), value := v, type := some dt, error := none }) := by
    intro rid
    exact ldr4_parse_path cfg.tags false rid l0 rest info leaf hl0 hrest hne hnum hget hk hpath hndw
  subst hdata
  refine ldmx_served_ok cfg st cap _ loc bs v dt hparse ?_ ?_ hr ⟨Nat.le_refl 1, hav, by show (1 : Nat) < 65536; decide⟩
    hbts rfl rfl hreply rfl ?_ ?_ hc
  · show requestPathOf cfg (renderTag (l0 :: rest)) leaf = .ok (ldrn_pathOf cfg (renderTag (l0 :: rest)) leaf)
    rw [hpo]; exact hpathOk
  · show Denotes (ldrn_pathOf cfg (renderTag (l0 :: rest)) leaf) _
    rw [hpo]; exact hden
  · intro rid rs hget'
    exact ldr2_readResult_get (ldmx_parsedAt rid (ldmx_entLevels cfg (l0 :: rest) leaf _ _)) leaf _ rs rfl rfl rfl hnd hvn
      rfl hget'
  · rw [hest.1]
    have := hest.2.1
    omega

/-! ### a member path that ends at an elementary member -/

/-- `tag[i].m1[j]. … .leaf`: symbol, its structure definition, indexes after the tag name and their linear index, the
    steps, tag-database entries of the tag and of the leaf, the leaf's type code / size / name / codec type, the value -/
structure ldmx_Member where
  s : Symbol
  tid0 : Nat
  tm0 : Template
  idx0 : List Nat
  li : Nat
  hops : List ldr4_Hop
  info : TagInfo
  leaf : TagInfo
  c : Nat
  sz : Nat
  name : Name
  t : Ty
  v : PyVal
  rest : Bytes

/-- the byte offset of the leaf inside the tag's memory -/
def ldmx_Member.off (x : ldmx_Member) : Nat := x.li * x.tm0.size + ldr4_offset x.hops

/-- the hypotheses of `read_member_path_e2e` on one request -/
structure ldmx_MemberOk (cfg : Cfg) (st : LState) (x : ldmx_Member) : Prop where
  mem : x.s ∈ st.proj.controller
  uniqN : ∀ s' ∈ st.proj.controller, s'.name = x.s.name → s' = x.s
  uniqI : ∀ s' ∈ st.proj.controller, s'.inst = x.s.inst → s' = x.s
  level0 : ldr2_Level ⟨x.s.name, x.idx0⟩
  ty : elTyOfWord x.s.symbolType = .struct x.tid0
  tmpl : st.proj.template? x.tid0 = some x.tm0
  idxOk : (x.idx0 = [] ∧ x.li = 0) ∨ (x.idx0 ≠ [] ∧ linearIndex x.s.dims x.idx0 = some x.li)
  ne : x.hops ≠ []
  chain : ldr4_Chain st.proj (.struct x.tid0) x.hops (.atomic x.c)
  levels : ∀ h ∈ x.hops, ldr2_Level h.level
  notNum : ∀ h, x.hops.getLast? = some h → PyStr.isDigit h.m.name = false
  pathSize : ldr4_pathSize (ldr4_levels x.s.name x.idx0 x.hops) ≤ 500
  atomic : atomicOfCode x.c = some (x.name, x.t)
  notBits : x.t.isBits = none
  size : atomicSize x.c = some x.sz
  inside : x.off + x.sz ≤ x.s.mem.length
  get : cfg.tags.get? x.s.name = some x.info
  kind : x.info.core.tagType = .struct
  infoPath : ldr4_InfoPath x.info.members (x.hops.map (·.m.name)) x.leaf
  leafOf : ldr4_LeafOf x.leaf x.name x.t
  dec : decode x.t (x.s.mem.drop x.off) = .ok (x.v, x.rest)

/-- the request string -/
def ldmx_Member.request (x : ldmx_Member) : Name := renderTag (ldr4_levels x.s.name x.idx0 x.hops)

/-- the Tag `read` returns -/
def ldmx_Member.out (x : ldmx_Member) : LTag := { tag := x.request, value := x.v, type := some x.name, error := none }

def ldmx_entMember (cfg : Cfg) (x : ldmx_Member) : ldmx_Ent :=
  ldmx_entLevels cfg (ldr4_levels x.s.name x.idx0 x.hops) x.leaf (le 2 x.c ++ (x.s.mem.drop x.off).take x.sz) x.out

theorem ldmx_member_levels (cfg : Cfg) (st : LState) (x : ldmx_Member) (h : ldmx_MemberOk cfg st x) :
    ∀ l ∈ ldr4_levels x.s.name x.idx0 x.hops, ldr2_Level l := by
  intro l hl
  rcases List.mem_cons.1 hl with rfl | hl
  · exact h.level0
  · obtain ⟨hp, hh, rfl⟩ := List.mem_map.1 hl
    exact h.levels hp hh

theorem ldmx_member_est (cfg : Cfg) (st : LState) (x : ldmx_Member) (h : ldmx_MemberOk cfg st x) :
    ldmx_estE (ldmx_entMember cfg x) = x.sz + (ldrn_pathOf cfg x.request x.leaf).length + 7 ∧
    3 ≤ (ldrn_pathOf cfg x.request x.leaf).length ∧
    (ldrn_pathOf cfg x.request x.leaf).length ≤ ldr4_pathSize (ldr4_levels x.s.name x.idx0 x.hops) + 1 := by
  obtain ⟨_, hentry, _, _, _⟩ := ldr_atomic_table x.c x.sz x.name x.t h.atomic h.notBits h.size
  have hrs : tagReturnSize x.leaf 1 = x.sz := by
    simp [tagReturnSize, h.leafOf.struct, h.leafOf.typeName, hentry]
  have hps := h.pathSize
  have := ldmx_levels_est cfg (ldr4_levels x.s.name x.idx0 x.hops) x.leaf (le 2 x.c ++ (x.s.mem.drop x.off).take x.sz) x.out
    (by simp [ldr4_levels]) (ldmx_member_levels cfg st x h) (by omega) h.leafOf.instanceId
  rw [hrs] at this
  exact this

theorem ldmx_member_ok (cfg : Cfg) (st : LState) (cap : Nat) (x : ldmx_Member)
    (hbytes : ∀ s' ∈ st.proj.controller, ∀ ch ∈ s'.name, ch < 256)
    (h : ldmx_MemberOk cfg st x) (hc : ldmx_estE (ldmx_entMember cfg x) + 10 ≤ cap + 2) :
    ldmx_EntOk cfg st cap (ldmx_entMember cfg x) := by
  obtain ⟨haty, hentry, hndw, hpos, hle8⟩ := ldr_atomic_table x.c x.sz x.name x.t h.atomic h.notBits h.size
  have hin := h.inside
  have hoff : x.off = x.li * x.tm0.size + ldr4_offset x.hops := rfl
  have hmem : x.s.mem ≠ [] := by
    intro hm; rw [hm, List.length_nil] at hin; omega
  have hrs : tagReturnSize x.leaf 1 = x.sz := by
    simp [tagReturnSize, h.leafOf.struct, h.leafOf.typeName, hentry]
  have hlvs : ∀ l ∈ x.hops.map (·.level), ldr2_Level l := by
    intro l hl
    obtain ⟨hp, hh, rfl⟩ := List.mem_map.1 hl
    exact h.levels hp hh
  have hr := ldr4_resolve_path st.proj x.s x.tid0 x.tm0 x.idx0 x.li x.hops (.atomic x.c) h.level0.1 h.mem hbytes h.uniqN
    h.ty h.tmpl hmem h.idxOk h.chain
  rw [← ldr4_flatMap_levels] at hr
  have hdp : 1 ≤ dimsProduct x.s.dims - x.li := by
    rcases h.idxOk with ⟨_, e⟩ | ⟨h0, hli⟩
    · have := ldr_dimsProduct_pos x.s.dims; omega
    · have := ldr4_linearIndex_lt x.s.dims x.idx0 x.li hli; omega
  have hav := ldr4_avail_pos st.proj x.hops (.struct x.tid0) (.atomic x.c) (dimsProduct x.s.dims - x.li) hdp h.chain
  have hbts := ldr4_readBytes st.proj x.s x.off (.atomic x.c) (ldr4_avail (dimsProduct x.s.dims - x.li) x.hops) x.sz 1
    h.mem h.uniqI (fun b e => by cases e) h.size (by omega)
  rw [Nat.one_mul] at hbts
  have hreply := ldr4_parseReadReply_leaf x.leaf x.c x.sz x.name x.t x.s.mem x.off x.v x.rest h.leafOf h.atomic h.notBits
    h.size h.dec
  have hbl : ((x.s.mem.drop x.off).take x.sz).length ≤ x.sz := by
    rw [List.length_take]; exact Nat.min_le_left _ _
  have hnd : x.leaf.core.dataTypeName ≠ nm "DWORD" := by rw [h.leafOf.typeName]; exact hndw
  exact ldmx_levels_ok cfg st cap ⟨x.s.name, x.idx0⟩ (x.hops.map (·.level)) x.info x.leaf _ _
    (le 2 x.c ++ (x.s.mem.drop x.off).take x.sz) x.v x.name h.level0 hlvs (by simpa using h.ne)
    (by intro l hl
        rw [ldr4_getLast_levels] at hl
        cases hg : x.hops.getLast? with
        | none => rw [hg] at hl; cases hl
        | some hp =>
          rw [hg] at hl
          simp only [Option.map_some, Option.some.injEq] at hl
          subst hl
          exact h.notNum hp hg)
    h.pathSize h.get h.kind (by simpa [ldr4_Hop.level, List.map_map, Function.comp_def] using h.infoPath)
    hnd h.leafOf.instanceId hr hav hbts rfl hreply (ldr_decode_not_none x.c x.t haty h.notBits _ x.rest x.v h.dec)
    (by have htb : (typeBytes st.proj (ElTy.atomic x.c)).length = 2 := by simp [typeBytes, le, RT.leBytes_length]
        show ((x.s.mem.drop x.off).take x.sz).length + (typeBytes st.proj (ElTy.atomic x.c)).length ≤
          tagReturnSize x.leaf 1 + 4
        rw [hrs, htb]; omega)
    hc

/-! ### a member path that ends at a BOOL member -/

/-- `tag[i].m1. … .flag`: the walk `hops` (possibly empty) leads to a structure of definition `tmL`, `mb` is a BOOL
    member of it -/
structure ldmx_BoolMember where
  s : Symbol
  tid0 : Nat
  tm0 : Template
  idx0 : List Nat
  li : Nat
  hops : List ldr4_Hop
  tidL : Nat
  tmL : Template
  mb : MemberDef
  info : TagInfo
  leaf : TagInfo

/-- the byte offset of the host byte inside the tag's memory -/
def ldmx_BoolMember.off (x : ldmx_BoolMember) : Nat := x.li * x.tm0.size + ldr4_offset x.hops + x.mb.offset

def ldmx_BoolMember.levels (x : ldmx_BoolMember) : List TagLevel :=
  ldr4_levels x.s.name x.idx0 x.hops ++ [⟨x.mb.name, []⟩]

/-- the hypotheses of `read_nested_bool_member_e2e` on one request -/
structure ldmx_BoolMemberOk (cfg : Cfg) (st : LState) (x : ldmx_BoolMember) : Prop where
  mem : x.s ∈ st.proj.controller
  uniqN : ∀ s' ∈ st.proj.controller, s'.name = x.s.name → s' = x.s
  uniqI : ∀ s' ∈ st.proj.controller, s'.inst = x.s.inst → s' = x.s
  level0 : ldr2_Level ⟨x.s.name, x.idx0⟩
  ty : elTyOfWord x.s.symbolType = .struct x.tid0
  tmpl : st.proj.template? x.tid0 = some x.tm0
  idxOk : (x.idx0 = [] ∧ x.li = 0) ∨ (x.idx0 ≠ [] ∧ linearIndex x.s.dims x.idx0 = some x.li)
  chain : ldr4_Chain st.proj (.struct x.tid0) x.hops (.struct x.tidL)
  tmplL : st.proj.template? x.tidL = some x.tmL
  levels : ∀ h ∈ x.hops, ldr2_Level h.level
  mbMem : x.mb ∈ x.tmL.members
  mbBytes : ∀ m' ∈ x.tmL.members, ∀ ch ∈ m'.name, ch < 256
  mbUniq : ∀ m' ∈ x.tmL.members, m'.name = x.mb.name → m' = x.mb
  mbIdent : PlainIdent x.mb.name
  mbNotNum : PyStr.isDigit x.mb.name = false
  mbTy : elTyOfWord x.mb.typeWord = .atomic 0xC1
  pathSize : ldr4_pathSize x.levels ≤ 500
  inside : x.off < x.s.mem.length
  get : cfg.tags.get? x.s.name = some x.info
  kind : x.info.core.tagType = .struct
  infoPath : ldr4_InfoPath x.info.members (x.hops.map (·.m.name) ++ [x.mb.name]) x.leaf
  leafOf : ldr4_BoolOf x.leaf

def ldmx_BoolMember.request (x : ldmx_BoolMember) : Name := renderTag x.levels

/-- the Tag `read` returns: bit `mb.info` of the host byte, typed BOOL -/
def ldmx_BoolMember.out (x : ldmx_BoolMember) : LTag :=
  { tag := x.request, value := .bool (ldr4_bitOf x.s.mem x.off x.mb.info), type := some (nm "BOOL"), error := none }

def ldmx_entBoolMember (cfg : Cfg) (x : ldmx_BoolMember) : ldmx_Ent :=
  ldmx_entLevels cfg x.levels x.leaf
    (le 2 0xC1 ++ [if ldr4_bitOf x.s.mem x.off x.mb.info then (0xFF : UInt8) else 0x00]) x.out

theorem ldmx_boolMember_levels (cfg : Cfg) (st : LState) (x : ldmx_BoolMember) (h : ldmx_BoolMemberOk cfg st x) :
    x.levels = (⟨x.s.name, x.idx0⟩ : TagLevel) :: (x.hops.map (·.level) ++ [⟨x.mb.name, []⟩]) ∧
    ∀ l ∈ x.hops.map (·.level) ++ [(⟨x.mb.name, []⟩ : TagLevel)], ldr2_Level l := by
  refine ⟨by simp [ldmx_BoolMember.levels, ldr4_levels], ?_⟩
  intro l hl
  rcases List.mem_append.1 hl with hl | hl
  · obtain ⟨hp, hh, rfl⟩ := List.mem_map.1 hl
    exact h.levels hp hh
  · simp only [List.mem_singleton] at hl
    subst hl
    exact ⟨h.mbIdent, by simp, by simp⟩

theorem ldmx_boolMember_est (cfg : Cfg) (st : LState) (x : ldmx_BoolMember) (h : ldmx_BoolMemberOk cfg st x) :
    ldmx_estE (ldmx_entBoolMember cfg x) = 1 + (ldrn_pathOf cfg x.request x.leaf).length + 7 ∧
    3 ≤ (ldrn_pathOf cfg x.request x.leaf).length ∧
    (ldrn_pathOf cfg x.request x.leaf).length ≤ ldr4_pathSize x.levels + 1 := by
  obtain ⟨hlv, hrestlv⟩ := ldmx_boolMember_levels cfg st x h
  have hrs := ldr4_returnSize_bool x.leaf h.leafOf
  have hps := h.pathSize
  have hall : ∀ l ∈ x.levels, ldr2_Level l := by
    rw [hlv]
    intro l hl
    rcases List.mem_cons.1 hl with rfl | hl
    · exact h.level0
    · exact hrestlv l hl
  have := ldmx_levels_est cfg x.levels x.leaf
    (le 2 0xC1 ++ [if ldr4_bitOf x.s.mem x.off x.mb.info then (0xFF : UInt8) else 0x00]) x.out
    (by rw [hlv]; simp) hall (by omega) h.leafOf.instanceId
  rw [hrs] at this
  exact this

theorem ldmx_boolMember_ok (cfg : Cfg) (st : LState) (cap : Nat) (x : ldmx_BoolMember)
    (hbytes : ∀ s' ∈ st.proj.controller, ∀ ch ∈ s'.name, ch < 256)
    (h : ldmx_BoolMemberOk cfg st x) (hc : ldmx_estE (ldmx_entBoolMember cfg x) + 10 ≤ cap + 2) :
    ldmx_EntOk cfg st cap (ldmx_entBoolMember cfg x) := by
  obtain ⟨hlv, hrestlv⟩ := ldmx_boolMember_levels cfg st x h
  have hin := h.inside
  have hoff : x.off = x.li * x.tm0.size + ldr4_offset x.hops + x.mb.offset := rfl
  have hmem : x.s.mem ≠ [] := by
    intro hm; rw [hm, List.length_nil] at hin; omega
  have hr := ldr4_resolve_path_bool st.proj x.s x.tid0 x.tm0 x.idx0 x.li x.hops x.tidL x.tmL x.mb h.level0.1 h.mem hbytes
    h.uniqN h.ty h.tmpl hmem h.idxOk h.chain h.tmplL h.mbMem h.mbBytes h.mbUniq h.mbTy
  have hsegs : ((⟨x.s.name, x.idx0⟩ : TagLevel) :: (x.hops.map (·.level) ++ [⟨x.mb.name, []⟩])).flatMap levelSegs =
      levelSegs ⟨x.s.name, x.idx0⟩ ++ (ldr4_segs x.hops ++ [PSeg.symbol (x.mb.name.map UInt8.ofNat)]) := by
    simp [ldr4_segs, List.flatMap_map, levelSegs]
  have hbts := ldr4_readBytes_bool st.proj x.s (x.li * x.tm0.size + ldr4_offset x.hops) x.mb h.mem h.uniqI hin
  have hreply := ldr4_parseReadReply_bool x.leaf h.leafOf (ldr4_bitOf x.s.mem x.off x.mb.info)
  have hrs := ldr4_returnSize_bool x.leaf h.leafOf
  have hps := h.pathSize
  have hnum : ∀ l, (x.hops.map (·.level) ++ [(⟨x.mb.name, []⟩ : TagLevel)]).getLast? = some l →
      PyStr.isDigit l.name = false := by
    intro l hl
    simp only [List.getLast?_append, List.getLast?_singleton, Option.some_or, Option.some.injEq] at hl
    subst hl
    exact h.mbNotNum
  have hpath : ldr4_InfoPath x.info.members ((x.hops.map (·.level) ++ [(⟨x.mb.name, []⟩ : TagLevel)]).map (·.name)) x.leaf := by
    simpa [ldr4_Hop.level, List.map_map, Function.comp_def] using h.infoPath
  have hnd : x.leaf.core.dataTypeName ≠ nm "DWORD" := by rw [h.leafOf.typeName]; decide
  have hr2 : resolve st.proj (((⟨x.s.name, x.idx0⟩ : TagLevel) :: (x.hops.map (·.level) ++ [⟨x.mb.name, []⟩])).flatMap levelSegs) =
      .ok (ldr4_locBool x.s (x.li * x.tm0.size + ldr4_offset x.hops) x.mb) := by rw [hsegs]; exact hr
  have key := ldmx_levels_ok cfg st cap ⟨x.s.name, x.idx0⟩ (x.hops.map (·.level) ++ [⟨x.mb.name, []⟩]) x.info x.leaf
    (ldr4_locBool x.s (x.li * x.tm0.size + ldr4_offset x.hops) x.mb)
    [if ldr4_bitOf x.s.mem x.off x.mb.info then 0xFF else 0x00]
    (le 2 0xC1 ++ [if ldr4_bitOf x.s.mem x.off x.mb.info then (0xFF : UInt8) else 0x00])
    (.bool (ldr4_bitOf x.s.mem x.off x.mb.info)) (nm "BOOL")
    h.level0 hrestlv (by simp) hnum (by rw [← hlv]; exact hps) h.get h.kind hpath hnd h.leafOf.instanceId hr2 (Nat.le_refl 1)
    hbts rfl hreply (by simp)
    (by rw [hrs]
        have : (typeBytes st.proj (ldr4_locBool x.s (x.li * x.tm0.size + ldr4_offset x.hops) x.mb).ty).length = 2 := by
          simp [ldr4_locBool, typeBytes, le, RT.leBytes_length]
        rw [this]; simp)
    (by rw [← hlv]; exact hc)
  rw [← hlv] at key
  exact key

end Pycomm.Lgx.Drv
