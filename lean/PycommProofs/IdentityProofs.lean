/-
  Proofs for C16 (device identities decode faithfully).
-/
import PycommModel.Identity
import PycommModel.Target
import PycommProofs.IDLemmas
import PycommProofs.CodecWire
namespace Pycomm.Ident
open Pycomm.Tgt

/-- identity field values a device may report -/
def IdOk (id : Identity) : Prop :=
  id.vendor < 65536 ∧ id.productType < 65536 ∧ id.productCode < 65536 ∧ id.major < 256 ∧ id.minor < 256 ∧
  id.status < 65536 ∧ id.serial < 2 ^ 32 ∧ id.name.length ≤ 255 ∧ id.state < 256 ∧ id.ip < 2 ^ 32

def s (x : String) : Name := x.toList.map Char.toNat

/-- what the API presents for an identity -/
def presentModule (id : Identity) : List (Name × PyVal) :=
  [(s "vendor", .str (lookupId id.vendor Gen.vendors)),
   (s "product_type", .str (lookupId id.productType Gen.productTypes)),
   (s "product_code", .int id.productCode),
   (s "revision", .dict [(s "major", .int id.major), (s "minor", .int id.minor)]),
   (s "status", .bytes (leBytes 2 id.status)),
   (s "serial", .str (hex8 id.serial)),
   (s "product_name", .str (id.name.map (·.toNat)))]

/-! ### helper lemmas -/

/-- the seven members every identity layout shares, followed by `tail` -/
def idMembers (tail : Members) : Members :=
  .cons (some [118, 101, 110, 100, 111, 114]) (.int .uint)
  (.cons (some [112, 114, 111, 100, 117, 99, 116, 95, 116, 121, 112, 101]) (.int .uint)
  (.cons (some [112, 114, 111, 100, 117, 99, 116, 95, 99, 111, 100, 101]) (.int .uint)
  (.cons (some [114, 101, 118, 105, 115, 105, 111, 110])
    (.struct (.cons (some [109, 97, 106, 111, 114]) (.int .usint) (.cons (some [109, 105, 110, 111, 114]) (.int .usint) .nil)))
  (.cons (some [115, 116, 97, 116, 117, 115]) (.nbytes 2)
  (.cons (some [115, 101, 114, 105, 97, 108]) (.int .udint)
  (.cons (some [112, 114, 111, 100, 117, 99, 116, 95, 110, 97, 109, 101]) (.str .usint .latin1) tail))))))

theorem moduleMembers_eq : Gen.moduleIdentityMembers = idMembers .nil := rfl

/-- the raw struct decode of the seven shared members, into any accumulator -/
theorem decodeMembers_id (id : Identity) (h : IdOk id) (tail : Members) (rest : Bytes) (acc : List (Name × PyVal)) :
    decodeMembers (idMembers tail) (encIdentity id ++ rest) acc =
      decodeMembers tail rest
        (dictSet (dictSet (dictSet (dictSet (dictSet (dictSet (dictSet acc
          (s "vendor") (.int id.vendor))
          (s "product_type") (.int id.productType))
          (s "product_code") (.int id.productCode))
          (s "revision") (.dict [(s "major", .int id.major), (s "minor", .int id.minor)]))
          (s "status") (.bytes (leBytes 2 id.status)))
          (s "serial") (.int id.serial))
          (s "product_name") (.str (id.name.map (·.toNat)))) := by
  obtain ⟨h1, h2, h3, h4, h5, h6, h7, h8, h9, h10⟩ := h
  have e : encIdentity id ++ rest =
      leBytes 2 id.vendor ++ (leBytes 2 id.productType ++ (leBytes 2 id.productCode ++
        (UInt8.ofNat id.major :: UInt8.ofNat id.minor :: (leBytes 2 id.status ++ (leBytes 4 id.serial ++
          (UInt8.ofNat id.name.length :: (id.name ++ rest))))))) := by
    simp [encIdentity, le]
  rw [e, idMembers,
    ID.decodeMembers_some _ _ _ _ _ _ _ (ID.decode_uint _ _ h1) rfl,
    ID.decodeMembers_some _ _ _ _ _ _ _ (ID.decode_uint _ _ h2) rfl,
    ID.decodeMembers_some _ _ _ _ _ _ _ (ID.decode_uint _ _ h3) rfl,
    ID.decodeMembers_some _ _ _ _ _ _ _ (ID.decode_revision _ _ _ h4 h5) rfl,
    ID.decodeMembers_some _ _ _ _ _ _ _ (ID.decode_nbytes2 _ _) rfl,
    ID.decodeMembers_some _ _ _ _ _ _ _ (ID.decode_udint _ _ h7) rfl,
    ID.decodeMembers_some _ _ _ _ _ _ _ (ID.decode_shortString _ _ h8) rfl]
  rfl

theorem s_vendor : s "vendor" = [118, 101, 110, 100, 111, 114] := rfl
theorem s_product_type : s "product_type" = [112, 114, 111, 100, 117, 99, 116, 95, 116, 121, 112, 101] := rfl
theorem s_product_code : s "product_code" = [112, 114, 111, 100, 117, 99, 116, 95, 99, 111, 100, 101] := rfl
theorem s_revision : s "revision" = [114, 101, 118, 105, 115, 105, 111, 110] := rfl
theorem s_status : s "status" = [115, 116, 97, 116, 117, 115] := rfl
theorem s_serial : s "serial" = [115, 101, 114, 105, 97, 108] := rfl
theorem s_product_name : s "product_name" = [112, 114, 111, 100, 117, 99, 116, 95, 110, 97, 109, 101] := rfl
theorem s_major : s "major" = [109, 97, 106, 111, 114] := rfl
theorem s_minor : s "minor" = [109, 105, 110, 111, 114] := rfl
theorem s_state : s "state" = [115, 116, 97, 116, 101] := rfl
theorem s_epv : s "encap_protocol_version" = [101, 110, 99, 97, 112, 95, 112, 114, 111, 116, 111, 99, 111, 108, 95, 118, 101, 114, 115, 105, 111, 110] := rfl
theorem s_ip : s "ip_address" = [105, 112, 95, 97, 100, 100, 114, 101, 115, 115] := rfl
theorem kVendor_eq : kVendor = [118, 101, 110, 100, 111, 114] := rfl
theorem kProductType_eq : kProductType = [112, 114, 111, 100, 117, 99, 116, 95, 116, 121, 112, 101] := rfl
theorem kSerial_eq : kSerial = [115, 101, 114, 105, 97, 108] := rfl

theorem listMembers_eq : Gen.listIdentityMembers =
    .cons none (.int .uint) (.cons none (.int .uint)
    (.cons (some [101, 110, 99, 97, 112, 95, 112, 114, 111, 116, 111, 99, 111, 108, 95, 118, 101, 114, 115, 105, 111, 110]) (.int .uint)
    (.cons none (.int .int) (.cons none (.int .uint)
    (.cons (some [105, 112, 95, 97, 100, 100, 114, 101, 115, 115]) .ipAddr
    (.cons none (.int .ulint)
    (idMembers (.cons (some [115, 116, 97, 116, 101]) (.int .usint) .nil)))))))) := rfl

theorem encHeader_length (cmd len session status : Nat) (context : Bytes) (hc : context.length = 8) :
    (encHeader cmd len session status context).length = 24 := by
  simp [encHeader, le, RT.leBytes_length, hc]

/-- the struct encoder writes the device's wire form of the (id-valued) dict -/
theorem encode_module_raw (id : Identity) (h : IdOk id) :
    encode (.struct Gen.moduleIdentityMembers)
      (.dict [(s "vendor", .int id.vendor), (s "product_type", .int id.productType),
              (s "product_code", .int id.productCode),
              (s "revision", .dict [(s "major", .int id.major), (s "minor", .int id.minor)]),
              (s "status", .bytes (leBytes 2 id.status)),
              (s "serial", .int id.serial),
              (s "product_name", .str (id.name.map (·.toNat)))]) = .ok (encIdentity id) := by
  obtain ⟨h1, h2, h3, h4, h5, h6, h7, h8, h9, h10⟩ := h
  have e : encIdentity id =
      leBytes 2 id.vendor ++ (leBytes 2 id.productType ++ (leBytes 2 id.productCode ++
        ([UInt8.ofNat id.major, UInt8.ofNat id.minor] ++ (leBytes 2 id.status ++ (leBytes 4 id.serial ++
          (UInt8.ofNat id.name.length :: id.name ++ [])))))) := by
    simp [encIdentity, le]
  rw [e, moduleMembers_eq]
  simp only [s_vendor, s_product_type, s_product_code, s_revision, s_status, s_serial, s_product_name, s_major, s_minor]
  apply ID.encode_struct_dict
  exact
    ID.encodeMembersDict_some _ _ _ _ _ _ _ (by simp [dictGet]) (ID.encode_uint _ h1)
    (ID.encodeMembersDict_some _ _ _ _ _ _ _ (by simp [dictGet]) (ID.encode_uint _ h2)
    (ID.encodeMembersDict_some _ _ _ _ _ _ _ (by simp [dictGet]) (ID.encode_uint _ h3)
    (ID.encodeMembersDict_some _ _ _ _ _ _ _ (by simp [dictGet]) (ID.encode_revision _ _ h4 h5)
    (ID.encodeMembersDict_some _ _ _ _ _ _ _ (by simp [dictGet]) (ID.encode_nbytes2 _)
    (ID.encodeMembersDict_some _ _ _ _ _ _ _ (by simp [dictGet]) (ID.encode_udint _ h7)
    (ID.encodeMembersDict_some _ _ _ _ _ _ _ (by simp [dictGet]) (ID.encode_shortString _ h8)
    (ID.encodeMembersDict_nil _)))))))

-- PROPERTY THEOREMS

/-- the serial number is always 8 lower-case hex digits that read back as the number -/
theorem hex8_spec (n : Nat) (h : n < 2 ^ 32) : (hex8 n).length = 8 ∧ parseHex (hex8 n) = some n :=
  ⟨ID.hex8_length n h, ID.hex8_parse n⟩

/-- unknown ids map to "UNKNOWN", known ids to the table's name -/
theorem lookupId_spec (k : Nat) (tbl : List (Nat × Name)) :
    (lookupId k tbl = unknown ∧ ∀ e ∈ tbl, e.1 ≠ k) ∨ (∃ e ∈ tbl, e.1 = k ∧ lookupId k tbl = e.2) :=
  ID.lookupId_spec k tbl

/-- an Identity object (Get_Attributes_All reply, CIP Vol 1 5-2) decodes to exactly the device's fields,
    whatever follows it in the buffer — for every field value.  The member layout is the one the source
    declares now (regenerated): swapping two members in the source breaks this proof. -/
theorem module_identity_decode_spec (id : Identity) (h : IdOk id) (rest : Bytes) :
    decodeModuleIdentity (encIdentity id ++ rest) = .ok (.dict (presentModule id), rest) := by
  unfold decodeModuleIdentity
  rw [moduleMembers_eq, ID.decode_struct _ _ _ _ (by rw [decodeMembers_id id h, ID.decodeMembers_nil])]
  simp only [s_vendor, s_product_type, s_product_code, s_revision, s_status, s_serial, s_product_name, s_major, s_minor, presentModule]
  simp [dictSet, postprocess, dictGet, kVendor_eq, kProductType_eq, kSerial_eq]

/-- the ListIdentity reply of a device: the identity item decodes (from byte 26 of the frame) to the same
    fields plus protocol version, IP address and state -/
theorem list_identity_decode_spec (id : Identity) (h : IdOk id) (session : Nat) (context : Bytes)
    (hc : context.length = 8) :
    parseListIdentity (frame Encap.CMD_LIST_IDENTITY session 0 context (listIdentityBody id)) =
      some (.dict ([(s "encap_protocol_version", .int 1),
                    (s "ip_address", .str (renderIPv4 ((leBytes 4 id.ip).reverse)))] ++
                   presentModule id ++ [(s "state", .int id.state)])) := by
  obtain ⟨L, hL⟩ : ∃ L, listIdentityBody id = leBytes 2 1 ++ (leBytes 2 0xC ++ (leBytes 2 L ++ (leBytes 2 1 ++
      ([0, 2] ++ ([0xAF, 0x12] ++ ((leBytes 4 id.ip).reverse ++ (List.replicate 8 0 ++
        (encIdentity id ++ [UInt8.ofNat id.state])))))))) := by
    refine ⟨(le 2 1 ++ ([0x00, 0x02] ++ [0xAF, 0x12] ++ (le 4 id.ip).reverse ++ List.replicate 8 0) ++
      encIdentity id ++ [UInt8.ofNat id.state]).length, ?_⟩
    simp [listIdentityBody, le]
  have hdrop : (frame Encap.CMD_LIST_IDENTITY session 0 context (listIdentityBody id)).drop 26 =
      leBytes 2 0xC ++ (leBytes 2 L ++ (leBytes 2 1 ++
      ([0, 2] ++ ([0xAF, 0x12] ++ ((leBytes 4 id.ip).reverse ++ (List.replicate 8 0 ++
        (encIdentity id ++ [UInt8.ofNat id.state]))))))) := by
    unfold frame
    generalize (listIdentityBody id).length = len
    rw [hL, ← List.append_assoc]
    exact RT.drop_append_len _ _ 26 (by simp [encHeader_length _ _ _ _ _ hc, RT.leBytes_length])
  have hdec : decodeMembers Gen.listIdentityMembers
      ((frame Encap.CMD_LIST_IDENTITY session 0 context (listIdentityBody id)).drop 26) [] = .ok
        (dictSet (dictSet (dictSet (dictSet (dictSet (dictSet (dictSet (dictSet (dictSet (dictSet []
          (s "encap_protocol_version") (.int 1))
          (s "ip_address") (.str (renderIPv4 ((leBytes 4 id.ip).reverse))))
          (s "vendor") (.int id.vendor))
          (s "product_type") (.int id.productType))
          (s "product_code") (.int id.productCode))
          (s "revision") (.dict [(s "major", .int id.major), (s "minor", .int id.minor)]))
          (s "status") (.bytes (leBytes 2 id.status)))
          (s "serial") (.int id.serial))
          (s "product_name") (.str (id.name.map (·.toNat))))
          (s "state") (.int id.state), []) := by
    rw [hdrop, listMembers_eq,
      ID.decodeMembers_none _ _ _ _ _ _ (decode_int_wire .uint (leBytes 2 _) _ (RT.leBytes_length 2 _)),
      ID.decodeMembers_none _ _ _ _ _ _ (decode_int_wire .uint (leBytes 2 _) _ (RT.leBytes_length 2 _)),
      ID.decodeMembers_some _ _ _ _ _ _ _ (ID.decode_uint 1 _ (by omega)) rfl,
      ID.decodeMembers_none _ _ _ _ _ _ (decode_int_wire .int [0, 2] _ rfl),
      ID.decodeMembers_none _ _ _ _ _ _ (decode_int_wire .uint [0xAF, 0x12] _ rfl),
      ID.decodeMembers_some _ _ _ _ _ _ _ (ID.decode_ip _ _ (by simp [RT.leBytes_length])) rfl,
      ID.decodeMembers_none _ _ _ _ _ _ (decode_int_wire .ulint (List.replicate 8 0) _ rfl),
      decodeMembers_id id h,
      ID.decodeMembers_some _ _ _ _ _ _ _ (ID.decode_usint _ _ h.2.2.2.2.2.2.2.2.1) rfl,
      ID.decodeMembers_nil]
    rfl
  unfold parseListIdentity decodeListIdentity
  rw [ID.decode_struct _ _ _ _ hdec]
  simp only [s_vendor, s_product_type, s_product_code, s_revision, s_status, s_serial, s_product_name, s_major, s_minor, s_state, s_epv, s_ip, presentModule]
  simp [dictSet, postprocess, dictGet, kVendor_eq, kProductType_eq, kSerial_eq]

/-- encoding a presented identity with a known vendor and product type and decoding it again is the identity -/
theorem identity_encode_decode (id : Identity) (h : IdOk id)
    (hv : ∃ e ∈ Gen.vendors, e.1 = id.vendor) (hp : ∃ e ∈ Gen.productTypes, e.1 = id.productType)
    (hvr : ∃ i, lookupByName (lookupId id.vendor Gen.vendors) Gen.vendorsByName = some i ∧
                lookupId i Gen.vendors = lookupId id.vendor Gen.vendors ∧ i < 65536)
    (hpr : ∃ i, lookupByName (lookupId id.productType Gen.productTypes) Gen.productTypesByName = some i ∧
                lookupId i Gen.productTypes = lookupId id.productType Gen.productTypes ∧ i < 65536) :
    ∃ bs, encodeModuleIdentity (.dict (presentModule id)) = .ok bs ∧
      decodeModuleIdentity bs = .ok (.dict (presentModule id), []) := by
  have _ := hv; have _ := hp   -- (not needed: `hvr` / `hpr` already carry the ids)
  obtain ⟨vi, hv1, hv2, hv3⟩ := hvr
  obtain ⟨pi, hp1, hp2, hp3⟩ := hpr
  have hok : IdOk { id with vendor := vi, productType := pi } := by
    obtain ⟨h1, h2, h3, h4, h5, h6, h7, h8, h9, h10⟩ := h
    exact ⟨hv3, hp3, h3, h4, h5, h6, h7, h8, h9, h10⟩
  have hpres : presentModule { id with vendor := vi, productType := pi } = presentModule id := by
    simp only [presentModule, hv2, hp2]
  have hlen : ((hex8 id.serial).length % 2 == 0) = true := by
    rw [ID.hex8_length id.serial h.2.2.2.2.2.2.1]; rfl
  refine ⟨encIdentity { id with vendor := vi, productType := pi }, ?_, ?_⟩
  · rw [← encode_module_raw _ hok]
    unfold encodeModuleIdentity
    simp only [presentModule, s_vendor, s_product_type, s_product_code, s_revision, s_status, s_serial,
      s_product_name, s_major, s_minor, kVendor_eq, kProductType_eq, kSerial_eq]
    simp [dictGet, dictSet, hv1, hp1, hlen, ID.hex8_parse]
  · have := module_identity_decode_spec _ hok []
    rw [hpres] at this
    simpa using this

end Pycomm.Ident
