/-
  Proofs for C16 (device identities decode faithfully).
-/
import PycommModel.Identity
import PycommModel.Target
namespace Pycomm.Ident
open Pycomm.Tgt

/-- identity field values a device may report -/
def IdOk (id : Identity) : Prop :=
  id.vendor < 65536 ∧ id.productType < 65536 ∧ id.productCode < 65536 ∧ id.major < 256 ∧ id.minor < 256 ∧
  id.status < 65536 ∧ id.serial < 2 ^ 32 ∧ id.name.length ≤ 255 ∧ id.state < 256 ∧ id.ip < 2 ^ 32

def s (x : String) : Name := x.toList.map Char.toNat

/-- what the API presents for an identity -/
def presentModule (id : Identity) : List (Name × PyVal) :=
  [(s "vendor", .str (lookupId id.vendor Gen.vendors)),
   (s "product_type", .str (lookupId id.productType Gen.productTypes)),
   (s "product_code", .int id.productCode),
   (s "revision", .dict [(s "major", .int id.major), (s "minor", .int id.minor)]),
   (s "status", .bytes (leBytes 2 id.status)),
   (s "serial", .str (hex8 id.serial)),
   (s "product_name", .str (id.name.map (·.toNat)))]

-- PROPERTY THEOREMS

/-- the serial number is always 8 lower-case hex digits that read back as the number -/
theorem hex8_spec (n : Nat) (h : n < 2 ^ 32) : (hex8 n).length = 8 ∧ parseHex (hex8 n) = some n := by
  sorry

/-- unknown ids map to "UNKNOWN", known ids to the table's name -/
theorem lookupId_spec (k : Nat) (tbl : List (Nat × Name)) :
    (lookupId k tbl = unknown ∧ ∀ e ∈ tbl, e.1 ≠ k) ∨ (∃ e ∈ tbl, e.1 = k ∧ lookupId k tbl = e.2) := by
  sorry

/-- an Identity object (Get_Attributes_All reply, CIP Vol 1 5-2) decodes to exactly the device's fields,
    whatever follows it in the buffer — for every field value.  The member layout is the one the source
    declares now (regenerated): swapping two members in the source breaks this proof. -/
theorem module_identity_decode_spec (id : Identity) (h : IdOk id) (rest : Bytes) :
    decodeModuleIdentity (encIdentity id ++ rest) = .ok (.dict (presentModule id), rest) := by
  sorry

/-- the ListIdentity reply of a device: the identity item decodes (from byte 26 of the frame) to the same
    fields plus protocol version, IP address and state -/
theorem list_identity_decode_spec (id : Identity) (h : IdOk id) (session : Nat) (context : Bytes)
    (hc : context.length = 8) :
    parseListIdentity (frame Encap.CMD_LIST_IDENTITY session 0 context (listIdentityBody id)) =
      some (.dict ([(s "encap_protocol_version", .int 1),
                    (s "ip_address", .str (renderIPv4 ((leBytes 4 id.ip).reverse)))] ++
                   presentModule id ++ [(s "state", .int id.state)])) := by
  sorry

/-- encoding a presented identity with a known vendor and product type and decoding it again is the identity -/
theorem identity_encode_decode (id : Identity) (h : IdOk id)
    (hv : ∃ e ∈ Gen.vendors, e.1 = id.vendor) (hp : ∃ e ∈ Gen.productTypes, e.1 = id.productType)
    (hvr : ∃ i, lookupByName (lookupId id.vendor Gen.vendors) Gen.vendorsByName = some i ∧
                lookupId i Gen.vendors = lookupId id.vendor Gen.vendors ∧ i < 65536)
    (hpr : ∃ i, lookupByName (lookupId id.productType Gen.productTypes) Gen.productTypesByName = some i ∧
                lookupId i Gen.productTypes = lookupId id.productType Gen.productTypes ∧ i < 65536) :
    ∃ bs, encodeModuleIdentity (.dict (presentModule id)) = .ok bs ∧
      decodeModuleIdentity bs = .ok (.dict (presentModule id), []) := by
  sorry

end Pycomm.Ident
