/-
  SLC refinement (C18 over histories), helper layer 2: the reference target's data table seen through file numbers
  and 16-bit words (`slrf_view`); the typed read and the masked write of the target in that view - every outcome,
  the refusals included, without any assumption on the table (file numbers need not be unique: the first file with a
  number is the one a request reaches, before and after a write).
-/
import PycommProofs.SlcRef1
namespace Pycomm.Slc.Drv
open Pycomm Pycomm.Tgt Pycomm.Slc

/-- the file a number selects, as (type code, 16-bit words) -/
def slrf_view (tbl : Table) (k : Nat) : Option (Nat × List Nat) :=
  (sd2_file tbl k).map fun f => (f.ftype, words f.data)

theorem slrf_view_none {tbl : Table} {k : Nat} (h : slrf_view tbl k = none) : tbl.find? (fun g => g.num == k) = none := by
  unfold slrf_view sd2_file at h
  cases hf : tbl.find? (fun g => g.num == k) with
  | none => rfl
  | some f => rw [hf] at h; cases h

theorem slrf_view_some {tbl : Table} {k ty : Nat} {ws : List Nat} (h : slrf_view tbl k = some (ty, ws)) :
    ∃ f, tbl.find? (fun g => g.num == k) = some f ∧ f.ftype = ty ∧ words f.data = ws := by
  unfold slrf_view sd2_file at h
  cases hf : tbl.find? (fun g => g.num == k) with
  | none => rw [hf] at h; cases h
  | some f =>
    rw [hf] at h
    simp only [Option.map_some, Option.some.injEq, Prod.mk.injEq] at h
    exact ⟨f, rfl, h.1, h.2⟩

/-! ### typed read -/

theorem slrf_typedRead_none (tbl : Table) (size fnum ftype elem sub : Nat) (h : slrf_view tbl fnum = none) :
    typedRead tbl size fnum ftype elem sub = .error 0x10 := by
  unfold typedRead
  rw [slrf_view_none h]

theorem slrf_typedRead_type (tbl : Table) (size fnum ftype elem sub ty : Nat) (ws : List Nat)
    (h : slrf_view tbl fnum = some (ty, ws)) (hty : ty ≠ ftype) :
    typedRead tbl size fnum ftype elem sub = .error 0x10 := by
  obtain ⟨f, hf, h1, _⟩ := slrf_view_some h
  unfold typedRead
  simp only [hf]
  rw [if_pos (by rw [h1]; exact hty)]

theorem slrf_typedRead_range (tbl : Table) (n fnum ftype elem sub i : Nat) (ws : List Nat)
    (h : slrf_view tbl fnum = some (ftype, ws)) (hoff : byteOffset ftype elem sub = 2 * i) (hn : 0 < n)
    (hr : ws.length < i + n) : typedRead tbl (2 * n) fnum ftype elem sub = .error 0x50 := by
  obtain ⟨f, hf, h1, h2⟩ := slrf_view_some h
  rw [← h2, slrf_words_len] at hr
  unfold typedRead
  simp only [hf, hoff]
  rw [if_neg (by rw [h1]; exact fun h => h rfl), if_neg (by omega), if_pos (by omega)]

theorem slrf_typedRead_ok (tbl : Table) (n fnum ftype elem sub i : Nat) (ws : List Nat)
    (h : slrf_view tbl fnum = some (ftype, ws)) (hoff : byteOffset ftype elem sub = 2 * i) (hn : 0 < n)
    (hr : i + n ≤ ws.length) :
    typedRead tbl (2 * n) fnum ftype elem sub = .ok (slrf_bytes ((ws.drop i).take n)) := by
  obtain ⟨f, hf, h1, h2⟩ := slrf_view_some h
  subst h2
  have hr' := hr
  rw [slrf_words_len] at hr'
  rw [slx_typedRead_ok tbl f (2 * n) fnum ftype elem sub hf h1 (by omega) (by rw [hoff]; omega), hoff,
    slrf_slice f.data i n hr]

/-! ### masked write -/

theorem slrf_maskedWrite_none (tbl : Table) (size fnum ftype elem sub mask : Nat) (data : Bytes)
    (h : slrf_view tbl fnum = none) : maskedWrite tbl size fnum ftype elem sub mask data = .error 0x10 := by
  unfold maskedWrite
  rw [slrf_view_none h]

theorem slrf_maskedWrite_type (tbl : Table) (size fnum ftype elem sub mask ty : Nat) (data : Bytes) (ws : List Nat)
    (h : slrf_view tbl fnum = some (ty, ws)) (hty : ty ≠ ftype) :
    maskedWrite tbl size fnum ftype elem sub mask data = .error 0x10 := by
  obtain ⟨f, hf, h1, _⟩ := slrf_view_some h
  unfold maskedWrite
  simp only [hf]
  rw [if_pos (by rw [h1]; exact hty)]

theorem slrf_maskedWrite_range (tbl : Table) (n fnum ftype elem sub mask i : Nat) (data : Bytes) (ws : List Nat)
    (h : slrf_view tbl fnum = some (ftype, ws)) (hoff : byteOffset ftype elem sub = 2 * i) (hn : 0 < n)
    (hdl : data.length = 2 * n) (hr : ws.length < i + n) :
    maskedWrite tbl (2 * n) fnum ftype elem sub mask data = .error 0x50 := by
  obtain ⟨f, hf, h1, h2⟩ := slrf_view_some h
  rw [← h2, slrf_words_len] at hr
  unfold maskedWrite
  simp only [hf, hoff]
  rw [if_neg (by rw [h1]; exact fun h => h rfl), if_neg (by omega), if_pos (by omega)]

/-- a masked write the table can serve, in the view: the file the number selects has the n words from word i on
    replaced by the words of the masked data; every other number selects what it selected before -/
theorem slrf_maskedWrite_ok (tbl : Table) (n fnum ftype elem sub mask i : Nat) (data : Bytes) (ws : List Nat)
    (h : slrf_view tbl fnum = some (ftype, ws)) (hoff : byteOffset ftype elem sub = 2 * i) (hn : 0 < n)
    (hdl : data.length = 2 * n) (hr : i + n ≤ ws.length) :
    ∃ tbl', maskedWrite tbl (2 * n) fnum ftype elem sub mask data = .ok tbl' ∧
      slrf_view tbl' fnum = some (ftype, ws.take i ++
        words (maskWords mask (slrf_bytes ((ws.drop i).take n)) data) ++ ws.drop (i + n)) ∧
      (∀ k, k ≠ fnum → slrf_view tbl' k = slrf_view tbl k) ∧ tbl'.length = tbl.length := by
  obtain ⟨f, hf, h1, h2⟩ := slrf_view_some h
  subst h2
  have hr' := hr
  rw [slrf_words_len] at hr'
  have hfn : f.num = fnum := by
    have := List.find?_some hf
    simpa using this
  have hold : ((f.data.drop (2 * i)).take (2 * n)).length = data.length := by
    simp only [List.length_take, List.length_drop]; omega
  have hnw : (maskWords mask ((f.data.drop (2 * i)).take (2 * n)) data).length = 2 * n := by
    rw [maskWords_length mask n _ _ hdl hold]; exact hdl
  refine ⟨tbl.map fun g => if g.num == fnum then
      { g with data := f.data.take (2 * i) ++ maskWords mask ((f.data.drop (2 * i)).take (2 * n)) data ++
          f.data.drop (2 * i + 2 * n) } else g, ?_, ?_, ?_, by simp⟩
  · unfold maskedWrite
    simp only [hf, hoff]
    rw [if_neg (by rw [h1]; exact fun h => h rfl), if_neg (by omega), if_neg (by omega)]
  · unfold slrf_view sd2_file
    rw [find_map_num tbl fnum _ (by intro g; split <;> rfl), hf]
    simp only [Option.map_some, hfn, beq_self_eq_true, if_true, h1]
    rw [slrf_splice f.data _ i n hnw hr, slrf_slice f.data i n hr]
  · intro k hk
    unfold slrf_view sd2_file
    rw [find_map_num tbl k _ (by intro g; split <;> rfl)]
    cases hg : tbl.find? (fun g => g.num == k) with
    | none => rfl
    | some g =>
      have hgn : g.num = k := by
        have := List.find?_some hg
        simpa using this
      have : (g.num == fnum) = false := by simp [hgn, hk]
      simp only [Option.map_some, this, Bool.false_eq_true, if_false]

/-- the words of a full-mask write are the data words -/
theorem slrf_maskWords_full (n : Nat) (old data : Bytes) (hdl : data.length = 2 * n) (hol : old.length = data.length) :
    words (maskWords 65535 old data) = words data := by
  rw [maskWords_full n old data hdl hol]

/-- the word of a one-word masked write -/
theorem slrf_maskWords_one (mask o d : Nat) (ho : o < 65536) (hd : d < 65536) :
    words (maskWords mask (slrf_bytes [o]) (leBytes 2 d)) = [maskedWord o d mask] := by
  have hn := slx_maskedWord_lt o d mask ho hd
  rw [slrf_bytes_one, slx_le2, slx_le2]
  simp only [maskWords, slx_le2_val o ho, slx_le2_val d hd, words]
  have : (UInt8.ofNat (maskedWord o d mask % 256)).toNat + 256 * (UInt8.ofNat (maskedWord o d mask / 256)).toNat =
      maskedWord o d mask := by
    simp only [UInt8.toNat_ofNat']; omega
  exact congrArg (· :: []) this

end Pycomm.Slc.Drv
