/-
  LogixDriver.read, layers (b) and (d, addressing) for an indexed controller-scope tag: the request path of
  `name[i,…]` and where the reference controller resolves it; the bytes of `n` elements from there.
-/
import PycommProofs.LDRead2Parse
import PycommProofs.LDReadTarget
namespace Pycomm.Lgx.Drv
open Pycomm Pycomm.Tgt Pycomm.Path Pycomm.Reply Pycomm.EP Pycomm.Lgx Pycomm.Lgx.E2E

theorem ldr2_tagRequestPath_level (l : TagLevel) (hl : ldr2_Level l) (inst : Nat) (useIds : Bool) :
    tagRequestPath (renderLevel l) (some inst) useIds =
      match encEpath true (ldr_first l.name inst useIds ++ idxSrc l.idx) true false with
      | .ok bs => .ok (some bs)
      | .error e => .error e := by
  have hfind := findTagIndex_render' l (ldr2_level_wf l hl)
  have hprog : PyStr.startsWith (Path.nm "Program:") (renderLevel l) = false :=
    ldr2_not_program _ (ldr2_level_not_mem l hl 58 (by omega))
  have hsplit : PyStr.split 46 (renderLevel l) = [renderLevel l] :=
    splitOn_no_sep 46 _ (ldr2_level_not_mem l hl 46 (by omega))
  unfold tagRequestPath
  rw [hsplit]
  simp only [hfind, indexSegs_render, attrSegs, hprog, Bool.not_false, Bool.and_true, Option.getD_some,
    List.append_nil, ldr_first]
  generalize encEpath true _ true false = r
  cases r <;> rfl

/-- (b, path) `tag_request_path` of `name[i,…]`: it exists, is short, and the controller's strict parser reads it as
    the symbol (instance or name) followed by the indexes as member ids -/
theorem ldr2_requestPath (cfg : Cfg) (l : TagLevel) (info : TagInfo) (inst : Nat) (hl : ldr2_Level l)
    (hinst : info.core.instanceId = some inst) (hi : inst < 2 ^ 32) :
    ∃ path, requestPathOf cfg (renderLevel l) info = .ok path ∧ path.length ≤ l.name.length + 13 + 6 * l.idx.length ∧
      Denotes path (ldr_segs l.name inst cfg.useInstanceIds ++ l.idx.map (PSeg.logical 8)) := by
  have hall := (ldr_encAll_first l.name hl.1 inst hi cfg.useInstanceIds).append (encAll_idx l.idx hl.2.2)
  obtain ⟨bs, hb, hp⟩ := hall.request (by have := hl.1.2.1; have := hl.2.1; omega)
  refine ⟨bs, ?_, ?_, hp⟩
  · unfold requestPathOf
    rw [hinst, ldr2_tagRequestPath_level l hl inst cfg.useInstanceIds, hb]
  · have := ldr_encEpath_len hall hb
    omega

/-- the location element `i` of a one-dimensional controller-scope array of an elementary type resolves to -/
def ldr2_locAt (s : Symbol) (c sz i dim : Nat) : Loc :=
  { symInst := s.inst, scope := none, offset := i * sz, ty := .atomic c, avail := dim - i }

/-- (d, addressing) both renderings of `name[i]` resolve to element `i` of the symbol `s` named so -/
theorem ldr2_resolve_elem (p : Project) (s : Symbol) (c sz : Nat) (useIds : Bool) (i dim : Nat)
    (hid : PlainIdent s.name) (hs : s ∈ p.controller)
    (hbytes : ∀ s' ∈ p.controller, ∀ ch ∈ s'.name, ch < 256)
    (huniqN : ∀ s' ∈ p.controller, s'.name = s.name → s' = s)
    (huniqI : ∀ s' ∈ p.controller, s'.inst = s.inst → s' = s)
    (hty : elTyOfWord s.symbolType = .atomic c) (hsz : atomicSize c = some sz) (hmem : s.mem ≠ [])
    (hdims : s.dims.filter (· != 0) = [dim]) (hi : i < dim) :
    resolve p (ldr_segs s.name s.inst useIds ++ [PSeg.logical 8 i]) = .ok (ldr2_locAt s c sz i dim) := by
  have hme : s.mem.isEmpty = false := by
    cases h : s.mem with
    | nil => exact absurd h hmem
    | cons _ _ => rfl
  have hel : p.elSize (.atomic c) = some sz := hsz
  have hli : linearIndex s.dims [i] = some i := by
    unfold linearIndex
    simp only [hdims, List.length_singleton, ne_eq, not_true_eq_false, if_false, List.zip_cons_cons, List.zip_nil_right,
      List.any_cons, List.any_nil, Bool.or_false, decide_eq_true_eq, List.foldl_cons, List.foldl_nil, Nat.zero_mul,
      Nat.zero_add]
    rw [if_neg (by omega)]
  have hdp : dimsProduct s.dims = dim := by
    unfold dimsProduct; rw [hdims]; simp
  unfold ldr_segs
  split
  · unfold resolve
    simp only [List.cons_append, List.nil_append, Project.findSymbol, ldr_find_inst p s hs huniqI, Option.map_some, hme,
      Bool.false_eq_true, if_false, hty, hel, takeIndices, List.cons_ne_nil, hli, hdp, List.length_nil, Nat.zero_add,
      resolveMembers, ldr2_locAt]
  · unfold resolve
    simp only [List.cons_append, List.nil_append, ldr_not_programName s.name hid, Bool.false_eq_true, if_false,
      Project.findSymbol, ldr_find_name p s hs hbytes huniqN, Option.map_some, hme, hty, hel, takeIndices,
      List.cons_ne_nil, hli, hdp, List.length_nil, Nat.zero_add, resolveMembers, ldr2_locAt]

/-- (d, memory) the bytes of `n` elements from element `i` -/
theorem ldr2_readBytes_elem (p : Project) (s : Symbol) (c sz i dim n : Nat) (hs : s ∈ p.controller)
    (huniqI : ∀ s' ∈ p.controller, s'.inst = s.inst → s' = s)
    (hsz : atomicSize c = some sz) (hlen : s.mem.length = dim * sz) (hin : i + n ≤ dim) :
    readBytes p (ldr2_locAt s c sz i dim) n = some ((s.mem.drop (i * sz)).take (n * sz)) := by
  have hel : p.elSize (.atomic c) = some sz := hsz
  have hle : i * sz + n * sz ≤ s.mem.length := by
    rw [hlen, ← Nat.add_mul]; exact Nat.mul_le_mul_right sz hin
  unfold readBytes
  simp only [Project.symbolOf, Project.findSymbol, ldr2_locAt, ldr_find_inst p s hs huniqI, hel, hle, if_true]

/-- the location without index is element 0 with the whole array available -/
theorem ldr2_loc_zero (s : Symbol) (c sz dim : Nat) (hdims : s.dims.filter (· != 0) = [dim]) :
    ldr_loc s c = ldr2_locAt s c sz 0 dim := by
  have hdp : dimsProduct s.dims = dim := by
    unfold dimsProduct; rw [hdims]; simp
  simp [ldr_loc, ldr2_locAt, hdp]

end Pycomm.Lgx.Drv
