/-
  Helper lemmas for C16 (device identities): hex digits, leaf decoders on concrete prefixes,
  member-by-member stepping of the struct codec.
-/
import PycommModel.Identity
import PycommModel.Target
import PycommProofs.RTLemmas
namespace Pycomm.ID
open Pycomm Pycomm.Ident Pycomm.Status

/-! ### hex digits -/

theorem hexDigits_length_le : ∀ (k n : Nat), n < 16 ^ (k + 1) → (hexDigits n).length ≤ k + 1 := by
  intro k
  induction k with
  | zero =>
    intro n h
    unfold hexDigits
    have : n < 16 := by simpa using h
    simp [this]
  | succ k ih =>
    intro n h
    unfold hexDigits
    by_cases h16 : n < 16
    · simp [h16]
    · have h' : n / 16 < 16 ^ (k + 1) := by
        rw [Nat.pow_succ] at h
        exact Nat.div_lt_of_lt_mul (by omega)
      have := ih _ h'
      simp [h16]
      omega

/-- one step of the `parseHex` fold -/
def hexStep (acc : Option Nat) (c : Nat) : Option Nat :=
  acc.bind fun a =>
    if 48 ≤ c ∧ c ≤ 57 then some (a * 16 + (c - 48))
    else if 97 ≤ c ∧ c ≤ 102 then some (a * 16 + (c - 87))
    else if 65 ≤ c ∧ c ≤ 70 then some (a * 16 + (c - 55))
    else none

theorem parseHex_eq (cs : Name) : parseHex cs = cs.foldl hexStep (some 0) := rfl

theorem hexStep_digit (a m : Nat) (h : m < 16) : hexStep (some a) (hexDigitLower m) = some (a * 16 + m) := by
  unfold hexStep hexDigitLower
  by_cases h10 : m < 10
  · have h1 : 48 ≤ 48 + m ∧ 48 + m ≤ 57 := by omega
    simp only [h10, if_true, Option.bind_some, h1, and_self]
    congr 2; omega
  · have h1 : ¬ (48 ≤ 87 + m ∧ 87 + m ≤ 57) := by omega
    have h2 : 97 ≤ 87 + m ∧ 87 + m ≤ 102 := by omega
    simp only [h10, if_false, Option.bind_some, h1, h2, and_self, if_true]
    congr 2; omega

theorem foldl_hexDigits (n : Nat) : (hexDigits n).foldl hexStep (some 0) = some n := by
  induction n using Nat.strongRecOn with
  | _ n ih =>
    unfold hexDigits
    by_cases h16 : n < 16
    · simp only [h16, dite_true, List.foldl_cons, List.foldl_nil, hexStep_digit 0 n h16]
      congr 1; omega
    · simp only [h16, dite_false, List.foldl_append, List.foldl_cons, List.foldl_nil,
        ih (n / 16) (by omega), hexStep_digit (n / 16) (n % 16) (by omega)]
      congr 1; omega

theorem foldl_zeros (k : Nat) : (List.replicate k 48).foldl hexStep (some 0) = some 0 := by
  induction k with
  | zero => rfl
  | succ k ih =>
    rw [List.replicate_succ, List.foldl_cons]
    have : hexStep (some 0) 48 = some 0 := by decide
    rw [this]; exact ih

theorem parseHex_padded (k n : Nat) : parseHex (List.replicate k 48 ++ hexDigits n) = some n := by
  rw [parseHex_eq, List.foldl_append, foldl_zeros, foldl_hexDigits]

theorem hex8_length (n : Nat) (h : n < 2 ^ 32) : (hex8 n).length = 8 := by
  have hl := hexDigits_length_le 7 n (by simpa using h)
  unfold hex8
  simp only
  split
  · simp; omega
  · omega

theorem hex8_parse (n : Nat) : parseHex (hex8 n) = some n := by
  unfold hex8
  simp only
  split
  · exact parseHex_padded _ _
  · simpa using parseHex_padded 0 n

/-! ### table lookups -/

theorem lookupId_spec (k : Nat) (tbl : List (Nat × Name)) :
    (lookupId k tbl = unknown ∧ ∀ e ∈ tbl, e.1 ≠ k) ∨ (∃ e ∈ tbl, e.1 = k ∧ lookupId k tbl = e.2) := by
  induction tbl with
  | nil => left; simp [lookupId]
  | cons e tbl ih =>
    obtain ⟨k', v⟩ := e
    by_cases hk : k' = k
    · right; exact ⟨(k', v), by simp, hk, by simp [lookupId, hk]⟩
    · rcases ih with ⟨h1, h2⟩ | ⟨e, he, h1, h2⟩
      · left
        refine ⟨by simp [lookupId, hk, h1], ?_⟩
        intro e he
        rcases List.mem_cons.1 he with rfl | he
        · exact hk
        · exact h2 e he
      · right
        exact ⟨e, List.mem_cons_of_mem _ he, h1, by simp [lookupId, hk, h2]⟩

/-! ### leaf decoders on a concrete prefix -/

theorem decode_uint (n : Nat) (r : Bytes) (h : n < 65536) :
    decode (.int .uint) (leBytes 2 n ++ r) = .ok (.int n, r) := by
  have := RT.decodeIntNat_append .uint n r (by simpa [IntK.size] using h)
  simp only [IntK.size] at this
  simp [decode, decodeIntVal, this, bind, Except.bind, IntK.signed]

theorem decode_udint (n : Nat) (r : Bytes) (h : n < 2 ^ 32) :
    decode (.int .udint) (leBytes 4 n ++ r) = .ok (.int n, r) := by
  have := RT.decodeIntNat_append .udint n r (by simpa [IntK.size] using h)
  simp only [IntK.size] at this
  simp [decode, decodeIntVal, this, bind, Except.bind, IntK.signed]

theorem leBytes_one (n : Nat) (h : n < 256) : leBytes 1 n = [UInt8.ofNat n] := by
  simp [leBytes, Nat.mod_eq_of_lt h]

theorem decodeIntNat_usint (n : Nat) (r : Bytes) (h : n < 256) :
    decodeIntNat .usint (UInt8.ofNat n :: r) = .ok (n, r) := by
  have := RT.decodeIntNat_append .usint n r (by simpa [IntK.size] using h)
  simpa [IntK.size, leBytes_one n h] using this

theorem decode_usint (n : Nat) (r : Bytes) (h : n < 256) :
    decode (.int .usint) (UInt8.ofNat n :: r) = .ok (.int n, r) := by
  simp [decode, decodeIntVal, decodeIntNat_usint n r h, bind, Except.bind, IntK.signed]

theorem decode_nbytes2 (n : Nat) (r : Bytes) :
    decode (.nbytes 2) (leBytes 2 n ++ r) = .ok (.bytes (leBytes 2 n), r) := by
  have : streamRead (2 : Int) (leBytes 2 n ++ r) = .ok (leBytes 2 n, r) :=
    RT.streamRead_append (leBytes 2 n) r 2 (RT.leBytes_length _ _) (RT.leBytes_ne_nil _ _ (by omega))
  simp [decode, decodeNBytes, this, bind, Except.bind, RT.leBytes_length]

theorem decode_ip (a : Bytes) (r : Bytes) (h : a.length = 4) :
    decode .ipAddr (a ++ r) = .ok (.str (renderIPv4 a), r) := by
  have hne : a ≠ [] := by intro e; simp [e] at h
  have : streamRead (4 : Int) (a ++ r) = .ok (a, r) := RT.streamRead_append a r 4 h hne
  simp [decode, decodeIp, this, bind, Except.bind, h]

/-- SHORT_STRING: a length byte and that many Latin-1 bytes (also the empty string) -/
theorem decode_shortString (name r : Bytes) (h : name.length ≤ 255) :
    decode (.str .usint .latin1) (UInt8.ofNat name.length :: (name ++ r)) =
      .ok (.str (name.map (·.toNat)), r) := by
  simp only [decode, decodeStr, decodeIntNat_usint name.length (name ++ r) (by omega), bind, Except.bind]
  cases name with
  | nil => simp
  | cons x xs =>
    have : streamRead ((xs.length : Int) + 1) (x :: (xs ++ r)) = .ok (x :: xs, r) := by
      simpa using RT.streamRead_append (x :: xs) r (x :: xs).length rfl (by simp)
    simp [charWidth, this, Text.decode, Text.decLatin1]

/-! ### stepping through struct members -/

theorem decodeMembers_nil (bs : Bytes) (acc : List (Name × PyVal)) :
    decodeMembers .nil bs acc = .ok (acc, bs) := by
  simp [decodeMembers]

theorem decodeMembers_some (nm : Name) (t : Ty) (ms : Members) (bs r : Bytes) (acc : List (Name × PyVal))
    (v : PyVal) (hd : decode t bs = .ok (v, r)) (hne : nm.isEmpty = false) :
    decodeMembers (.cons (some nm) t ms) bs acc = decodeMembers ms r (dictSet acc nm v) := by
  rw [decodeMembers, hd]
  simp [bind, Except.bind, hne]

theorem decodeMembers_none (t : Ty) (ms : Members) (bs r : Bytes) (acc : List (Name × PyVal))
    (v : PyVal) (hd : decode t bs = .ok (v, r)) :
    decodeMembers (.cons none t ms) bs acc = decodeMembers ms r acc := by
  rw [decodeMembers, hd]
  simp [bind, Except.bind]

theorem decode_struct (ms : Members) (bs r : Bytes) (kvs : List (Name × PyVal))
    (h : decodeMembers ms bs [] = .ok (kvs, r)) : decode (.struct ms) bs = .ok (.dict kvs, r) := by
  rw [decode, h]

/-- the nested `revision` struct -/
theorem decode_revision (a b : Nat) (r : Bytes) (ha : a < 256) (hb : b < 256) :
    decode (.struct (.cons (some [109, 97, 106, 111, 114]) (.int .usint)
                     (.cons (some [109, 105, 110, 111, 114]) (.int .usint) .nil)))
      (UInt8.ofNat a :: UInt8.ofNat b :: r) =
    .ok (.dict [([109, 97, 106, 111, 114], .int a), ([109, 105, 110, 111, 114], .int b)], r) := by
  apply decode_struct
  rw [decodeMembers_some _ _ _ _ _ _ _ (decode_usint a _ ha) rfl,
      decodeMembers_some _ _ _ _ _ _ _ (decode_usint b _ hb) rfl, decodeMembers_nil]
  simp [dictSet]

/-! ### leaf encoders -/

theorem encode_uint (n : Nat) (h : n < 65536) : encode (.int .uint) (.int n) = .ok (leBytes 2 n) := by
  have := (RT.packInt_nat .uint n rfl (by simp [IntK.hi, IntK.signed, IntK.size]; omega)).1
  simpa [encode, IntK.size] using this

theorem encode_udint (n : Nat) (h : n < 2 ^ 32) : encode (.int .udint) (.int n) = .ok (leBytes 4 n) := by
  have := (RT.packInt_nat .udint n rfl (by simp [IntK.hi, IntK.signed, IntK.size]; omega)).1
  simpa [encode, IntK.size] using this

theorem encode_usint (n : Nat) (h : n < 256) : encode (.int .usint) (.int n) = .ok [UInt8.ofNat n] := by
  have := (RT.packInt_nat .usint n rfl (by simp [IntK.hi, IntK.signed, IntK.size]; omega)).1
  simpa [encode, IntK.size, leBytes_one n h] using this

theorem encode_nbytes2 (n : Nat) : encode (.nbytes 2) (.bytes (leBytes 2 n)) = .ok (leBytes 2 n) := by
  have : (leBytes 2 n).take 2 = leBytes 2 n := List.take_of_length_le (by simp [RT.leBytes_length])
  simp [encode, encodeNBytes, sliceN, this]

theorem encode_latin1_bytes (bs : Bytes) : Text.encode .latin1 (bs.map (·.toNat)) = some bs := by
  induction bs with
  | nil => rfl
  | cons b bs ih =>
    have hb : b.toNat < 256 := UInt8.toNat_lt b
    simp [Text.encode, Text.encChar, hb, ih, Text.b]

theorem encode_shortString (name : Bytes) (h : name.length ≤ 255) :
    encode (.str .usint .latin1) (.str (name.map (·.toNat))) = .ok (UInt8.ofNat name.length :: name) := by
  have := (RT.packInt_nat .usint name.length rfl (by simp [IntK.hi, IntK.signed, IntK.size]; omega)).1
  simp only [IntK.size, leBytes_one _ (show name.length < 256 by omega)] at this
  simp [encode, encodeStr, this, encode_latin1_bytes, bind, Except.bind]

/-! ### stepping through struct members (encoder) -/

theorem encodeMembersDict_nil (kvs : List (Name × PyVal)) : encodeMembersDict .nil kvs = .ok [] := by
  simp [encodeMembersDict]

theorem encodeMembersDict_some (nm : Name) (t : Ty) (ms : Members) (kvs : List (Name × PyVal))
    (v : PyVal) (a r : Bytes) (hg : dictGet kvs nm = some v) (he : encode t (argOf t v) = .ok a)
    (hr : encodeMembersDict ms kvs = .ok r) :
    encodeMembersDict (.cons (some nm) t ms) kvs = .ok (a ++ r) := by
  rw [encodeMembersDict]
  simp [hg, he, hr, bind, Except.bind]

theorem encode_struct_dict (ms : Members) (kvs : List (Name × PyVal)) (bs : Bytes)
    (h : encodeMembersDict ms kvs = .ok bs) : encode (.struct ms) (.dict kvs) = .ok bs := by
  rw [encode, h]

theorem encode_revision (a b : Nat) (ha : a < 256) (hb : b < 256) :
    encode (.struct (.cons (some [109, 97, 106, 111, 114]) (.int .usint)
                     (.cons (some [109, 105, 110, 111, 114]) (.int .usint) .nil)))
      (.dict [([109, 97, 106, 111, 114], .int a), ([109, 105, 110, 111, 114], .int b)]) =
    .ok [UInt8.ofNat a, UInt8.ofNat b] := by
  apply encode_struct_dict
  exact encodeMembersDict_some _ _ _ _ _ _ _ (by simp [dictGet]) (encode_usint a ha)
    (encodeMembersDict_some _ _ _ _ _ _ _ (by simp [dictGet]) (encode_usint b hb) (encodeMembersDict_nil _))

end Pycomm.ID
