/-
  Proofs for C06 (round trip).  Statements are restated in PycommProps/C06.lean.
  Helper lemmas: PycommProofs/RTLemmas.lean (bytes, integers, text, leaves),
  PycommProofs/RTMain.lean (the mutual induction over `Ty`/`Members`).
-/
import PycommProofs.CodecSpec
import PycommProofs.RTMain
namespace Pycomm
open Pycomm.RT

-- PROPERTY THEOREMS
/-- Every canonical in-domain value of every tail-safe type (elementary, strings, bit strings, byte
    placeholders, fixed arrays, all-named structures, Logix fixed-capacity strings, nested to any depth)
    encodes, and decoding the encoding followed by ANY further bytes returns the value and leaves
    exactly those further bytes: values compose in structures and arrays. -/
theorem decode_encode (t : Ty) (v : PyVal) (h : Canon t v) :
    ∃ bs, encode t v = .ok bs ∧ ∀ rest, decode t (bs ++ rest) = .ok (v, rest) := by
  obtain ⟨bs, h1, h2, _, _⟩ := full t v h
  exact ⟨bs, h1, h2⟩

/-- a canonical value of a positive-width type takes at least one byte -/
theorem encode_ne_nil (t : Ty) (v : PyVal) (h : Canon t v) (hw : PosWidth t) (bs : Bytes)
    (he : encode t v = .ok bs) : bs ≠ [] := by
  obtain ⟨bs', h1, _, h3, _⟩ := full t v h
  rw [he] at h1
  cases h1
  exact (h3 hw).1

/-- a positive-width type with at least one canonical value raises BufferEmptyError on an empty buffer -/
theorem decode_nil_of_canon (t : Ty) (v : PyVal) (h : Canon t v) (hw : PosWidth t) :
    decode t [] = .error .bufferEmpty := by
  obtain ⟨_, _, _, h3, _⟩ := full t v h
  exact (h3 hw).2

-- STATEMENT CHANGED: hypothesis `h0` added.  The original statement is false for `vs = []`:
-- with t = .struct (.cons (some [97]) (.arr .all (.arr (.fixed 0) .bool)) (.cons (some [98]) .bool .nil))
-- we have `t.isBits = none`, `PosWidth t`, `encode (.arr .all t) (.list []) = .ok []`, but
-- `decode (.arr .all t) [] = .error .data` (the inner unbounded array of zero-width elements decodes an
-- element without consuming anything: DataError since the repair of `Array._decode_all`, an endless loop
-- before; so `decode t []` is `data`, not `bufferEmpty`, and the outer loop propagates it).
-- `PosWidth t` says nothing about the *kind* of failure on an empty buffer, and with `vs = []`
-- no `Canon t x` hypothesis restricts `t`.  For `vs = []` the conclusion holds iff
-- `decode t [] = .error .bufferEmpty`, so `h0` is the weakest possible repair; for `vs ≠ []` it is
-- vacuous (see `decode_encode_unbounded_of_ne_nil`), and `decode_nil_of_canon` discharges it for any
-- type that has a canonical value.
theorem decode_encode_unbounded (t : Ty) (vs : List PyVal) (hb : t.isBits = none)
    (hw : PosWidth t) (h : ∀ x ∈ vs, Canon t x)
    (h0 : vs = [] → decode t [] = .error .bufferEmpty) :
    ∃ bs, encode (.arr .all t) (.list vs) = .ok bs ∧ decode (.arr .all t) bs = .ok (.list vs, []) := by
  have hempty : decode t [] = .error .bufferEmpty := by
    cases vs with
    | nil => exact h0 rfl
    | cons x xs => exact decode_nil_of_canon t x (h x (List.mem_cons_self)) hw
  obtain ⟨bs, he, _, hd⟩ := list_roundtrip_all (encode t) (decode t) vs (fun x hx => by
    obtain ⟨a, h1, h2, h3, _⟩ := full t x (h x hx)
    exact ⟨a, h1, (h3 hw).1, h2⟩) hempty
  refine ⟨bs, ?_, ?_⟩
  · simp [encode, PyVal.len?, PyVal.seq?, hb, encodeList_argOf_canon t vs h, he]
  · simp [decode, hd (bs.length + 1) (Nat.lt_succ_self _), hb]

/-- the original statement of `decode_encode_unbounded`, for a non-empty list -/
theorem decode_encode_unbounded_of_ne_nil (t : Ty) (vs : List PyVal) (hb : t.isBits = none)
    (hw : PosWidth t) (h : ∀ x ∈ vs, Canon t x) (hne : vs ≠ []) :
    ∃ bs, encode (.arr .all t) (.list vs) = .ok bs ∧ decode (.arr .all t) bs = .ok (.list vs, []) :=
  decode_encode_unbounded t vs hb hw h (fun e => absurd e hne)

theorem decode_encode_prefixed (k : IntK) (t : Ty) (vs : List PyVal) (hb : t.isBits = none)
    (hw : PosWidth t) (hk : k.signed = false) (hn : (vs.length : Int) ≤ k.hi) (h : ∀ x ∈ vs, Canon t x) :
    ∃ bs, encode (.arr (.pref k) t) (.list vs) = .ok bs ∧
      ∀ rest, decode (.arr (.pref k) t) (leBytes k.size vs.length ++ bs ++ rest) = .ok (.list vs, rest) := by
  obtain ⟨bs, he, hd⟩ := list_roundtrip (encode t) (decode t) vs (fun x hx => by
    obtain ⟨a, h1, h2, _, _⟩ := full t x (h x hx)
    exact ⟨a, h1, h2⟩)
  have hlen : vs.length ≤ bs.length := encodeList_len (encode t) vs
    (fun x hx a ha => encode_ne_nil t x (h x hx) hw a ha) bs he
  obtain ⟨_, hlt⟩ := packInt_nat k vs.length hk hn
  refine ⟨bs, ?_, ?_⟩
  · simp [encode, PyVal.len?, PyVal.seq?, hb, encodeList_argOf_canon t vs h, he]
  · intro rest
    have hnot : ¬ (vs.length > (bs ++ rest).length + 65536) := by simp; omega
    simp only [decode, List.append_assoc, decodeIntNat_append k vs.length (bs ++ rest) hlt, hnot,
      if_false, hd rest, hb]
    simp

theorem encode_fixed_truncates (n : Nat) (t : Ty) (vs extra : List PyVal) (hb : t.isBits = none)
    (hn : vs.length = n) :
    encode (.arr (.fixed n) t) (.list (vs ++ extra)) = encode (.arr (.fixed n) t) (.list vs) := by
  subst hn
  simp [encode, PyVal.len?, PyVal.seq?, hb]
  omega

theorem encode_tuple_eq_list (l : ArrLen) (t : Ty) (vs : List PyVal) :
    encode (.arr l t) (.tuple vs) = encode (.arr l t) (.list vs) := by
  simp only [encode, PyVal.len?, PyVal.seq?]

theorem struct_dict_eq_seq (ms : Members) (kvs : List (Name × PyVal)) (h : CanonMembers ms kvs) :
    encode (.struct ms) (.dict kvs) = encode (.struct ms) (.list (kvs.map (·.2))) := by
  have := membersDict_eq_seq ms kvs [] h (by simp)
  simp only [List.nil_append] at this
  simp only [encode, PyVal.iter?, PyVal.seq?, this]

theorem bits_roundtrip (k : IntK) (hk : k.signed = false) (bs : List Bool) (h : bs.length = 8 * k.size)
    (rest : Bytes) :
    ∃ enc, encode (.bits k) (.list (bs.map PyVal.bool)) = .ok enc ∧
      decode (.bits k) (enc ++ rest) = .ok (.list (bs.map PyVal.bool), rest) := by
  obtain ⟨enc, he, hd, _, _⟩ := leaf_bits k (.list (bs.map PyVal.bool)) ⟨bs, rfl, h, hk⟩
  exact ⟨enc, he, hd rest⟩

end Pycomm
