/-
  Proofs for C06 (round trip).  Statements are restated in PycommProps/C06.lean.
-/
import PycommProofs.CodecSpec
namespace Pycomm

theorem decode_encode (t : Ty) (v : PyVal) (h : Canon t v) :
    ∃ bs, encode t v = .ok bs ∧ ∀ rest, decode t (bs ++ rest) = .ok (v, rest) := by
  sorry

theorem decode_encode_unbounded (t : Ty) (vs : List PyVal) (hb : t.isBits = none)
    (hw : PosWidth t) (h : ∀ x ∈ vs, Canon t x) :
    ∃ bs, encode (.arr .all t) (.list vs) = .ok bs ∧ decode (.arr .all t) bs = .ok (.list vs, []) := by
  sorry

theorem decode_encode_prefixed (k : IntK) (t : Ty) (vs : List PyVal) (hb : t.isBits = none)
    (hw : PosWidth t) (hk : k.signed = false) (hn : (vs.length : Int) ≤ k.hi) (h : ∀ x ∈ vs, Canon t x) :
    ∃ bs, encode (.arr (.pref k) t) (.list vs) = .ok bs ∧
      ∀ rest, decode (.arr (.pref k) t) (leBytes k.size vs.length ++ bs ++ rest) = .ok (.list vs, rest) := by
  sorry

theorem encode_fixed_truncates (n : Nat) (t : Ty) (vs extra : List PyVal) (hb : t.isBits = none)
    (hn : vs.length = n) :
    encode (.arr (.fixed n) t) (.list (vs ++ extra)) = encode (.arr (.fixed n) t) (.list vs) := by
  sorry

theorem encode_tuple_eq_list (l : ArrLen) (t : Ty) (vs : List PyVal) :
    encode (.arr l t) (.tuple vs) = encode (.arr l t) (.list vs) := by
  sorry

theorem struct_dict_eq_seq (ms : Members) (kvs : List (Name × PyVal)) (h : CanonMembers ms kvs) :
    encode (.struct ms) (.dict kvs) = encode (.struct ms) (.list (kvs.map (·.2))) := by
  sorry

theorem bits_roundtrip (k : IntK) (hk : k.signed = false) (bs : List Bool) (h : bs.length = 8 * k.size)
    (rest : Bytes) :
    ∃ enc, encode (.bits k) (.list (bs.map PyVal.bool)) = .ok enc ∧
      decode (.bits k) (enc ++ rest) = .ok (.list (bs.map PyVal.bool), rest) := by
  sorry

end Pycomm
