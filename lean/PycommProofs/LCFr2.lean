/-
  Helper lemmas for C11 at driver level (LifecycleFrames.lean).  Part 2: the invariant of LCFr1.lean across
  `_register_session`, `open()`, the Forward Open exchange, `_forward_open`, the `@with_forward_open` decorator,
  `generic_message` (any arguments), `_forward_close` and `close()`.
-/
import PycommProofs.LCFr1
namespace Pycomm.Cli
open Pycomm.Tgt Pycomm.Encap Pycomm.Path Pycomm.Reply Pycomm.EN

/-! ### registration -/

/-- a valid reply to the driver's RegisterSession frame carries a handle the target has just recorded as granted -/
theorem lcfr_handle_reg {σ} (hook : ObjHook σ) (t : Target σ) (raw : Bytes) (f : Frame)
    (hp : parseFrame raw = some f) (hst : f.status = 0) (hopt : f.options = 0) (hc : f.command = CMD_REGISTER)
    (hs : f.session = 0) (hb : f.body = [1, 0, 0, 0]) (hns : t.base.nextSession < 2 ^ 32) :
    ∀ rep, (handle hook t raw).2 = some rep → (parseRegister (some rep)).valid = true →
      ∃ s', (parseRegister (some rep)).session = some s' ∧
        Event.encap CMD_REGISTER s' true ∈ (handle hook t raw).1.base.log := by
  unfold handle
  simp only [hp]
  rw [if_neg (by simp [hst, hopt])]
  simp only [hc, if_true, hb, hs, ne_eq, not_true_eq_false, if_false]
  split
  · intro rep hrep hv
    simp only [Option.some.injEq] at hrep
    subst hrep
    obtain ⟨h0, _⟩ := lci_parseRegister_valid _ hv
    rw [(lci_frame_slices _ _ _ _ _).2] at h0
    exact absurd h0 (by decide)
  · intro rep hrep hv
    simp only [Option.some.injEq] at hrep
    subst hrep
    obtain ⟨_, h1⟩ := lci_parseRegister_valid _ hv
    rw [(lci_frame_slices _ _ _ _ _).1, leVal_leBytes 4 _ (by omega)] at h1
    exact ⟨_, h1, List.mem_cons_self⟩

/-- a new session handle in the driver -/
theorem lcfr_Inv_session {cid0 : Nat} {σ} {w : World σ} (hi : lcfr_Inv cid0 w) (ss : Option Nat)
    (h1 : ∀ s, ss = some s → s ≠ 0 → s ∈ lcfr_sessions w.net.target.base.log)
    (h2 : w.drv.targetIsConnected = true → ss ≠ some 0) :
    lcfr_Inv cid0 ({ w with drv := { w.drv with session := ss } } : World σ) :=
  ⟨hi.ctx8, hi.opt0, hi.t, h1, hi.cid, fun h => ⟨(hi.con h).1, h2 h⟩, hi.sent⟩

/-- without a session value no request can be built -/
theorem lcfr_sendReq_nosession {σ} (hook : ObjHook σ) (w : World σ) (hc : w.drv.context.length = 8)
    (hs : w.drv.session = none) (r : Req) (nr : Bool) : ∃ e, sendReq hook w r nr = (w, .error e) := by
  unfold sendReq
  cases hb : buildRequest r w.drv.ctx with
  | error e => exact ⟨e, rfl⟩
  | ok frame =>
    obtain ⟨s, _, h, _⟩ := parse_built r w.drv.ctx frame hc hb
    have : w.drv.session = some s := h
    rw [hs] at this
    cases this

theorem lcfr_registerSession {σ} (hook : ObjHook σ) (hh : lci_HookOk hook) (cid0 : Nat) (w : World σ)
    (hi : lcfr_Inv cid0 w) (hp : lcfr_Pend w) :
    lcfr_Inv cid0 (registerSession hook w).1 ∧ lcfr_Pend (registerSession hook w).1 := by
  unfold registerSession
  cases hs : w.drv.session with
  | none =>
    simp only []
    obtain ⟨e, he⟩ := lcfr_sendReq_nosession hook w hi.ctx8 hs (.registerSession [1, 0] [0, 0]) false
    rw [he]
    exact ⟨hi, hp⟩
  | some s =>
    simp only []
    by_cases h0 : s ≠ 0
    · rw [if_pos h0]; exact ⟨hi, hp⟩
    have h0 : s = 0 := by simpa using h0
    subst h0
    rw [if_neg (by simp)]
    have hconF : w.drv.targetIsConnected = false := by
      cases h : w.drv.targetIsConnected
      · rfl
      · exact absurd hs (hi.con h).2
    have hI := lcfr_sendReq hook hh cid0 w hi (.registerSession [1, 0] [0, 0]) ⟨rfl, .inl hs⟩ false
    have hP := lcfr_sendReq_pend hook w hp (.registerSession [1, 0] [0, 0])
    obtain ⟨hd, _, hcases⟩ := lci_sendReq hook w (.registerSession [1, 0] [0, 0]) false hp _ rfl
    generalize sendReq hook w (.registerSession [1, 0] [0, 0]) false = res at hI hP hd hcases
    obtain ⟨w1, r⟩ := res
    dsimp only at hI hP hd hcases ⊢
    cases r with
    | error e => exact ⟨hI, hP⟩
    | ok reply =>
      dsimp only
      split
      · rename_i hv
        refine ⟨lcfr_Inv_session hI _ ?_ ?_, hP⟩
        · intro s' hs' hne
          rcases hcases with ⟨_, hr⟩ | ⟨frame, hb, _, ht, hr⟩
          · rcases hr with ⟨h, _⟩ | ⟨e, he⟩
            · cases h
            · cases he
          · rcases hr with ⟨e, he⟩ | ⟨h, _⟩ | ⟨rep, hrep, hrr⟩
            · cases he
            · cases h
            · simp only [Except.ok.injEq] at hrep
              subst hrep
              obtain ⟨s0, common, g1, hco, _, hpf⟩ := parse_built _ w.drv.ctx frame hi.ctx8 hb
              have g1' : w.drv.session = some s0 := g1
              rw [hs] at g1'
              cases g1'
              have hco' : common = [1, 0, 0, 0] := hco
              subst hco'
              obtain ⟨s2, k1, k2⟩ := lcfr_handle_reg hook w.net.target frame _ hpf rfl hi.opt0 rfl rfl rfl hi.t.ns
                rep hrr hv
              rw [k1] at hs'
              cases hs'
              rw [ht]
              exact (lcfr_mem_sessions _ _).2 k2
        · intro h
          rw [hd, hconF] at h
          cases h
      · exact ⟨hI, hP⟩

theorem lcfr_openDrv {σ} (hook : ObjHook σ) (hh : lci_HookOk hook) (cid0 : Nat) (w : World σ) (rnd : Bytes)
    (hi : lcfr_Inv cid0 w) (hp : lcfr_Pend w) :
    lcfr_Inv cid0 (openDrv hook w rnd).1 ∧ lcfr_Pend (openDrv hook w rnd).1 := by
  unfold openDrv
  split
  · exact ⟨hi, hp⟩
  · dsimp only
    have hi1 : lcfr_Inv cid0 ({ drv := { w.drv with hasSock := true, connectionOpened := true, cid := rnd.take 4, vsn := (rnd.drop 4).take 4 }, net := { w.net with tcpOpen := true, pending := if w.drv.hasSock then w.net.pending else [] } } : World σ) :=
      ⟨hi.ctx8, hi.opt0, hi.t, hi.sess, hi.cid, hi.con, hi.sent⟩
    have hp1 : lcfr_Pend ({ drv := { w.drv with hasSock := true, connectionOpened := true, cid := rnd.take 4, vsn := (rnd.drop 4).take 4 }, net := { w.net with tcpOpen := true, pending := if w.drv.hasSock then w.net.pending else [] } } : World σ) := by
      intro _
      show (if w.drv.hasSock then w.net.pending else []) = []
      split
      · rename_i h; exact hp h
      · rfl
    have h2 := lcfr_registerSession hook hh cid0 _ hi1 hp1
    generalize registerSession hook _ = r at h2
    obtain ⟨w2, o⟩ := r
    dsimp only at h2 ⊢
    cases o with
    | error e => exact h2
    | ok v => cases v <;> exact h2

/-! ### the Forward Open exchange -/

/-- a reply the generic response classes report without an error has sound status words -/
theorem lcfr_ok_none_words (raw : Bytes) (tr : Transport)
    (h : errorCip (some raw) tr (parseGeneric (some raw) tr none).2.1 (parseGeneric (some raw) tr none).2.2 = .ok none) :
    StatusWordsOk tr raw := by
  have hpg : parseGeneric (some raw) tr none =
      ((match (parseCip (some raw) tr).data with | some d => PyVal.bytes d | none => PyVal.none),
       parseCip (some raw) tr, validCip tr (parseCip (some raw) tr)) := rfl
  rw [hpg] at h
  cases hv : validCip tr (parseCip (some raw) tr) with
  | true => exact (valid_iff tr raw).1 hv
  | false =>
    simp only [hv] at h
    rcases invalid_has_error tr (some raw) false hv.symm rfl with ⟨e, he⟩ | he | he
    · rw [he] at h; cases h
    · rw [he] at h; cases h
    · rw [he] at h; cases h

/-- the driver's Forward Open request, answered without an error: the first four bytes of the reply data are a
    connection id the target has just recorded as granted -/
theorem lcfr_fo_exchange {σ} (hook : ObjHook σ) (cid0 : Nat) (w : World σ) (hi : lcfr_Inv cid0 w) (hp : lcfr_Pend w)
    (svcb : UInt8) (hsv : svcb.toNat = 0x54 ∨ svcb.toNat = 0x5B) (d : Bytes)
    (res : World σ × Except Exn (Option Bytes))
    (hres : sendReq hook w (.sendRR (svcb :: ([0x02, 0x20, 0x06, 0x24, 0x01] ++ d))) false = res)
    (reply : Option Bytes) (hrep : res.2 = .ok reply)
    (hok : errorCip reply .unconnected (parseGeneric reply .unconnected none).2.1
              (parseGeneric reply .unconnected none).2.2 = .ok none) :
    ∃ cidb rest, (parseGeneric reply .unconnected none).1 = .bytes (cidb ++ rest) ∧ cidb.length = 4 ∧
      leVal cidb ∈ lcfr_cids cid0 res.1.net.target.base.log := by
  obtain ⟨hd, _, hcases⟩ := lci_sendReq hook w _ false hp res hres
  rcases hcases with ⟨_, hr⟩ | ⟨frame, hb, _, ht, hr⟩
  · rcases hr with ⟨h, _⟩ | ⟨e, he⟩
    · cases h
    · rw [he] at hrep; cases hrep
  rcases hr with ⟨e, he⟩ | ⟨h, _⟩ | ⟨rep, hrep', hrr⟩
  · rw [he] at hrep; cases hrep
  · cases h
  rw [hrep'] at hrep
  simp only [Except.ok.injEq] at hrep
  subst hrep
  obtain ⟨s, common, _, hco, _, hpf⟩ := parse_built _ w.drv.ctx frame hi.ctx8 hb
  obtain ⟨hm, hc⟩ := hco
  have hcpf : parseCpf common = some (.unconnected (svcb :: ([0x02, 0x20, 0x06, 0x24, 0x01] ++ d))) := by
    rw [hc]; exact parseCpf_unconnected _ hm
  by_cases hsm : s ∈ w.net.target.base.sessions
  · have hh := lci_handle_rr hook w.net.target frame _ _ hpf rfl hi.opt0 rfl hsm hcpf
    dsimp only at hh
    rw [hh] at hrr ht
    simp only [Option.some.injEq] at hrr
    rw [lci_rrStep_fo hook _ s svcb d hsv] at ht hrr
    generalize hbr : Tgt.forwardOpen ((w.net.target.base.event (.encap CMD_SEND_RR s true)).event
            (.mr false false { service := svcb.toNat, path := [PSeg.logical 0 6, PSeg.logical 4 1], data := d } []))
            s (svcb.toNat = 0x5B) d = br at ht hrr
    obtain ⟨_, _, k3⟩ := lci_forwardOpen _ _ _ _ br hbr
    simp only [] at ht hrr
    have hb' : res.1.net.target.base = br.1 := by rw [ht]
    have hctx : w.drv.ctx.context.length = 8 := hi.ctx8
    have bad : br.2.status < 256 → br.2.status ≠ 0 → False := by
      intro hlt hne
      exact (lci_rr_reply s svcb.toNat w.drv.ctx.context br.2 hctx hlt rep hrr.symm).1 hne none hok rfl
    rcases k3 with ⟨_, _, _, _, p5⟩ | ⟨r, _, ⟨_, _, _, p5⟩ | ⟨_, _, _, _, p5⟩ | ⟨p2, _, p5, p6, c, rest, _, _, _, p10⟩⟩
    · exact (bad (by omega) (by omega)).elim
    · exact (bad (by rcases p5 with h | h <;> omega) (by rcases p5 with h | h <;> omega)).elim
    · exact (bad (by omega) (by omega)).elim
    · obtain ⟨q1, _⟩ := (lci_rr_reply s svcb.toNat w.drv.ctx.context br.2 hctx (by omega) rep hrr.symm).2 p5
      refine ⟨leBytes 4 w.net.target.base.nextCid, rest, ?_, leBytes_length _ _, ?_⟩
      · rw [q1, p6, p10]; rfl
      · have hlt : w.net.target.base.nextCid < 2 ^ 32 := by rw [hi.t.nc]; exact lcfr_cidAt_lt _ _
        rw [leVal_leBytes 4 _ (by omega), hb', p2, lcfr_mem_cids]
        refine ⟨lcfr_foCount w.net.target.base.log, ?_, hi.t.nc⟩
        show _ < lcfr_foCount (_ :: _ :: _ :: w.net.target.base.log)
        unfold lcfr_foCount
        rw [List.countP_cons, List.countP_cons, List.countP_cons]
        simp [lcfr_isFoOk]
  · have hh := lci_handle_rr0 hook w.net.target frame _ hpf rfl hi.opt0 rfl hsm
    dsimp only at hh
    rw [hh] at hrr
    simp only [Option.some.injEq] at hrr
    subst hrr
    have hw := lcfr_ok_none_words _ _ hok
    have h812 := hw.2.1
    rw [(lci_frame_slices _ _ _ _ _).2] at h812
    exact absurd h812 (by decide)

/-! ### `_forward_open`, the decorator, `generic_message` -/

theorem lcfr_cli_forwardOpen {σ} (hook : ObjHook σ) (hh : lci_HookOk hook) (cid0 : Nat) (fuel : Nat) (w : World σ)
    (hi : lcfr_Inv cid0 w) (hp : lcfr_Pend w) :
    lcfr_Inv cid0 (forwardOpen hook fuel w).1 ∧ lcfr_Pend (forwardOpen hook fuel w).1 := by
  generalize hf : forwardOpen hook fuel w = r
  cases fuel with
  | zero =>
    unfold forwardOpen at hf
    subst hf; exact ⟨hi, hp⟩
  | succ fuel =>
    unfold forwardOpen at hf
    by_cases hcon : w.drv.targetIsConnected = true
    · simp only [hcon, if_true] at hf
      subst hf; exact ⟨hi, hp⟩
    simp only [hcon, if_false, Bool.false_eq_true] at hf
    by_cases hs0 : (w.drv.session == some 0) = true
    · simp only [hs0, if_true] at hf
      subst hf; exact ⟨hi, hp⟩
    simp only [hs0, if_false, Bool.false_eq_true] at hf
    split at hf
    case h_2 => subst hf; exact ⟨hi, hp⟩
    rename_i np route hnp hroute
    generalize hg : genericMessage hook fuel w _ = g at hf
    cases fuel with
    | zero =>
      unfold genericMessage at hg
      subst hg
      simp only [] at hf
      subst hf; exact ⟨hi, hp⟩
    | succ fuel =>
      rcases lci_gm_unconn hook fuel w _ rfl g hg with ⟨g1, e, g2⟩ | ⟨reqPath, rp, m, h1, h2, hm, g1, g2⟩
      · obtain ⟨gw, gr⟩ := g
        simp only [] at g1 g2 hf
        subst g1 g2
        simp only [] at hf
        subst hf; exact ⟨hi, hp⟩
      · dsimp only at h1 h2 g2
        have e1 : reqPath = [0x02, 0x20, 0x06, 0x24, 0x01] := (Except.ok.inj (ucs_path.symm.trans h1)).symm
        have e2 : rp = route := (Except.ok.inj h2).symm
        rcases hm with ⟨_, hm⟩ | ⟨hu, _⟩
        case inr => exact (Bool.false_ne_true hu).elim
        dsimp only at hm
        subst e1 e2
        generalize hD : [10, 5] ++ [0, 0, 0, 0] ++ w.drv.cid ++ w.drv.csn ++ w.drv.vid ++ w.drv.vsn ++ [7] ++ [0, 0, 0] ++
            [1, 64, 32, 0] ++ np ++ [1, 64, 32, 0] ++ np ++ [163] = D at hm
        generalize hsvcb : UInt8.ofNat (if w.drv.extendedFo = true then 91 else 84) = svcb at hm
        have hm' : m = svcb :: ([0x02, 0x20, 0x06, 0x24, 0x01] ++ (D ++ rp)) := by rw [hm]; simp
        subst hm'
        have hsv : svcb.toNat = 0x54 ∨ svcb.toNat = 0x5B := by
          rw [← hsvcb]; cases w.drv.extendedFo
          · left; decide
          · right; decide
        have x1 := lcfr_sendReq hook hh cid0 w hi (.sendRR (svcb :: ([0x02, 0x20, 0x06, 0x24, 0x01] ++ (D ++ rp)))) trivial false
        have xp := lcfr_sendReq_pend hook w hp (.sendRR (svcb :: ([0x02, 0x20, 0x06, 0x24, 0x01] ++ (D ++ rp))))
        have x2 := (lcfr_sendReq_net hook w (.sendRR (svcb :: ([0x02, 0x20, 0x06, 0x24, 0x01] ++ (D ++ rp)))) false).1
        have X := lcfr_fo_exchange hook cid0 w hi hp svcb hsv (D ++ rp)
          (sendReq hook w (.sendRR (svcb :: ([0x02, 0x20, 0x06, 0x24, 0x01] ++ (D ++ rp)))) false) rfl
        rw [← g1] at x1 xp x2 X
        clear hg hm h1 hnp
        cases hgr : g.2 with
        | error e =>
          simp only [hgr] at hf
          subst hf
          exact ⟨x1, xp⟩
        | ok tag =>
          simp only [hgr] at hf
          by_cases htr : tag.truthy = true
          · simp only [htr, if_true] at hf
            subst hf
            obtain ⟨reply, y1, y2, y3⟩ := g2 tag hgr
            have hte : tag.error = none := by
              unfold Tag.truthy at htr
              cases h : tag.error with
              | none => rfl
              | some e => rw [h] at htr; simp at htr
            rw [hte] at y2
            obtain ⟨cidb, rest, z2, z3, z4⟩ := X reply y1 y2
            have hv : tag.value = .bytes (cidb ++ rest) := y3.trans z2
            dsimp only
            constructor
            · refine ⟨x1.ctx8, x1.opt0, x1.t, x1.sess, ?_, ?_, x1.sent⟩
              · intro c hc
                have hc' : some (match tag.value with | PyVal.bytes b => List.take 4 b | _ => []) = some c := hc
                rw [hv] at hc'
                have : cidb = c := by
                  have := Option.some.inj hc'
                  simpa [← z3] using this
                subst this
                exact ⟨z3, z4⟩
              · intro _
                refine ⟨(fun h => nomatch h), ?_⟩
                show g.1.drv.session ≠ some 0
                rw [x2]
                intro h
                rw [h] at hs0
                exact hs0 rfl
            · exact xp
          · simp only [htr, Bool.false_eq_true, if_false] at hf
            subst hf
            exact ⟨x1, xp⟩

theorem lcfr_cli_ensureFO {σ} (hook : ObjHook σ) (hh : lci_HookOk hook) (cid0 : Nat) (fuel : Nat) (w : World σ)
    (hi : lcfr_Inv cid0 w) (hp : lcfr_Pend w) :
    lcfr_Inv cid0 (ensureForwardOpen hook fuel w).1 ∧ lcfr_Pend (ensureForwardOpen hook fuel w).1 := by
  generalize hf : ensureForwardOpen hook fuel w = r
  cases fuel with
  | zero =>
    unfold ensureForwardOpen at hf
    subst hf; exact ⟨hi, hp⟩
  | succ fuel =>
    unfold ensureForwardOpen at hf
    by_cases hcon : w.drv.targetIsConnected = true
    · simp only [hcon, if_true] at hf
      subst hf; exact ⟨hi, hp⟩
    simp only [hcon, if_false, Bool.false_eq_true] at hf
    obtain ⟨a1, a2⟩ := lcfr_cli_forwardOpen hook hh cid0 fuel w hi hp
    generalize forwardOpen hook fuel w = r1 at hf a1 a2
    obtain ⟨w1, o1⟩ := r1
    simp only [] at hf a1 a2
    cases o1 with
    | error e => simp only [] at hf; subst hf; exact ⟨a1, a2⟩
    | ok b =>
      cases b with
      | true => simp only [] at hf; subst hf; exact ⟨a1, a2⟩
      | false =>
        simp only [] at hf
        by_cases hext : w1.drv.extendedFo = true
        · simp only [hext, if_true] at hf
          have hi2 : lcfr_Inv cid0 ({ w1 with drv := { w1.drv with extendedFo := false, connectionSize := 500 } } : World σ) :=
            lcfr_Inv_drv a1 _ rfl rfl rfl rfl rfl
          have hp2 : lcfr_Pend ({ w1 with drv := { w1.drv with extendedFo := false, connectionSize := 500 } } : World σ) := a2
          obtain ⟨b1, b2⟩ := lcfr_cli_forwardOpen hook hh cid0 fuel _ hi2 hp2
          generalize forwardOpen hook fuel _ = r2 at hf b1 b2
          obtain ⟨w3, o3⟩ := r2
          simp only [] at hf b1 b2
          cases o3 with
          | error e => simp only [] at hf; subst hf; exact ⟨b1, b2⟩
          | ok b => cases b <;> (simp only [] at hf; subst hf; exact ⟨b1, b2⟩)
        · simp only [hext, if_false, Bool.false_eq_true] at hf
          subst hf; exact ⟨a1, a2⟩

/-- the decorator returns normally only on a connected driver -/
theorem lcfr_fo_ok_conn {σ} (hook : ObjHook σ) (fuel : Nat) (w w1 : World σ)
    (h : forwardOpen hook fuel w = (w1, .ok true)) : w1.drv.targetIsConnected = true := by
  cases fuel with
  | zero => unfold forwardOpen at h; cases h
  | succ fuel =>
    unfold forwardOpen at h
    split at h
    · rename_i hcon
      cases h; exact hcon
    split at h
    · cases h
    simp only [] at h
    split at h
    · generalize genericMessage hook fuel w _ = g at h
      obtain ⟨w2, r⟩ := g
      cases r with
      | error e => simp only [] at h; cases h
      | ok tag =>
        simp only [] at h
        split at h
        · cases h; rfl
        · cases h
    · cases h

theorem lcfr_efo_ok_conn {σ} (hook : ObjHook σ) (fuel : Nat) (w w0 : World σ) (u : Unit)
    (h : ensureForwardOpen hook fuel w = (w0, .ok u)) : w0.drv.targetIsConnected = true := by
  cases fuel with
  | zero => unfold ensureForwardOpen at h; cases h
  | succ fuel =>
    unfold ensureForwardOpen at h
    split at h
    · rename_i hcon
      cases h; exact hcon
    have h1 := lcfr_fo_ok_conn hook fuel w
    generalize forwardOpen hook fuel w = r1 at h h1
    obtain ⟨w1, o1⟩ := r1
    cases o1 with
    | error e => simp only [] at h; cases h
    | ok b =>
      cases b with
      | true => simp only [] at h; cases h; exact h1 _ rfl
      | false =>
        simp only [] at h
        split at h
        · have h2 := lcfr_fo_ok_conn hook fuel ({ w1 with drv := { w1.drv with extendedFo := false, connectionSize := 500 } } : World σ)
          generalize forwardOpen hook fuel _ = r2 at h h2
          obtain ⟨w3, o3⟩ := r2
          cases o3 with
          | error e => simp only [] at h; cases h
          | ok b =>
            cases b with
            | true => simp only [] at h; cases h; exact h2 _ rfl
            | false => simp only [] at h; cases h
        · cases h

/-- a connected request on a driver that believes it is connected -/
theorem lcfr_sendUnit {σ} (hook : ObjHook σ) (hh : lci_HookOk hook) (cid0 : Nat) (w : World σ) (hi : lcfr_Inv cid0 w)
    (hp : lcfr_Pend w) (hcon : w.drv.targetIsConnected = true) (seq : Nat) (m : Bytes) :
    lcfr_Inv cid0 (sendReq hook w (.sendUnit seq m) false).1 ∧ lcfr_Pend (sendReq hook w (.sendUnit seq m) false).1 :=
  ⟨lcfr_sendReq hook hh cid0 w hi (.sendUnit seq m) hcon false, lcfr_sendReq_pend hook w hp _⟩

/-- `generic_message`, whatever its arguments — also requests to the Connection Manager -/
theorem lcfr_cli_generic {σ} (hook : ObjHook σ) (hh : lci_HookOk hook) (cid0 : Nat) (fuel : Nat) (w : World σ)
    (a : GenArgs) (hi : lcfr_Inv cid0 w) (hp : lcfr_Pend w) :
    lcfr_Inv cid0 (genericMessage hook fuel w a).1 ∧ lcfr_Pend (genericMessage hook fuel w a).1 := by
  cases fuel with
  | zero => unfold genericMessage; exact ⟨hi, hp⟩
  | succ fuel =>
    by_cases hcn : a.connected = true
    · generalize hg : genericMessage hook (fuel + 1) w a = g
      unfold genericMessage at hg
      simp only [hcn, if_true] at hg
      obtain ⟨b1, b2⟩ := lcfr_cli_ensureFO hook hh cid0 fuel w hi hp
      have b3 := lcfr_efo_ok_conn hook fuel w
      generalize ensureForwardOpen hook fuel w = r0 at hg b1 b2 b3
      obtain ⟨w0, o0⟩ := r0
      simp only [] at hg b1 b2 b3
      cases o0 with
      | error e => simp only [] at hg; subst hg; exact ⟨b1, b2⟩
      | ok u =>
        simp only [] at hg
        split at hg
        · subst hg; exact ⟨b1, b2⟩
        · rename_i reqPath hrp
          have hi1 : lcfr_Inv cid0 ({ w0 with drv := w0.drv.nextSeq.2 } : World σ) :=
            lcfr_Inv_drv b1 _ rfl rfl rfl rfl rfl
          have hp1 : lcfr_Pend ({ w0 with drv := w0.drv.nextSeq.2 } : World σ) := b2
          have hcon1 : ({ w0 with drv := w0.drv.nextSeq.2 } : World σ).drv.targetIsConnected = true := b3 w0 u rfl
          have := lcfr_sendUnit hook hh cid0 _ hi1 hp1 hcon1 w0.drv.nextSeq.1 ([UInt8.ofNat a.service] ++ reqPath ++ a.data)
          split at hg
          · subst hg; exact this
          · split at hg
            · subst hg; exact this
            · subst hg; exact this
    · have hcn : a.connected = false := by simpa using hcn
      generalize hg : genericMessage hook (fuel + 1) w a = g
      rcases lci_gm_unconn hook fuel w a hcn g hg with ⟨g1, _⟩ | ⟨reqPath, rp, m, h1, h2, hm, g1, _⟩
      · rw [g1]; exact ⟨hi, hp⟩
      · rw [g1]
        exact ⟨lcfr_sendReq hook hh cid0 w hi (.sendRR m) trivial false, lcfr_sendReq_pend hook w hp _⟩

/-! ### `_forward_close` and `close()` -/

theorem lcfr_cli_forwardCloseF {σ} (hook : ObjHook σ) (hh : lci_HookOk hook) (cid0 : Nat) (fuel : Nat) (w : World σ)
    (hi : lcfr_Inv cid0 w) (hp : lcfr_Pend w) :
    lcfr_Inv cid0 (lci_forwardCloseF hook fuel w).1 ∧ lcfr_Pend (lci_forwardCloseF hook fuel w).1 := by
  generalize hf : lci_forwardCloseF hook fuel w = r
  unfold lci_forwardCloseF at hf
  by_cases hs0 : (w.drv.session == some 0) = true
  · simp only [hs0, if_true] at hf
    subst hf; exact ⟨hi, hp⟩
  simp only [hs0, if_false, Bool.false_eq_true] at hf
  split at hf
  · subst hf; exact ⟨hi, hp⟩
  rename_i route hroute
  have key := lcfr_cli_generic hook hh cid0 fuel w
    { service := 0x4E, cls := .bytes [0x06], inst := .bytes [0x01], connected := false, route := .bytes route,
      data := [0x0a, 0x05] ++ w.drv.csn ++ w.drv.vid ++ w.drv.vsn, name := nm "forward_close" } hi hp
  generalize genericMessage hook fuel w _ = g at hf key
  obtain ⟨k1, k2⟩ := key
  cases hgr : g.2 with
  | error e => simp only [hgr] at hf; subst hf; exact ⟨k1, k2⟩
  | ok tag =>
    simp only [hgr] at hf
    by_cases htr : tag.truthy = true
    · simp only [htr, if_true] at hf
      subst hf
      exact ⟨⟨k1.ctx8, k1.opt0, k1.t, k1.sess, k1.cid, (fun h => nomatch h), k1.sent⟩, k2⟩
    · simp only [htr, Bool.false_eq_true, if_false] at hf
      subst hf; exact ⟨k1, k2⟩

theorem lcfr_cli_forwardClose {σ} (hook : ObjHook σ) (hh : lci_HookOk hook) (cid0 : Nat) (w : World σ)
    (hi : lcfr_Inv cid0 w) (hp : lcfr_Pend w) :
    lcfr_Inv cid0 (forwardClose hook w).1 ∧ lcfr_Pend (forwardClose hook w).1 := by
  have key : ∀ fuel, FUEL = fuel → forwardClose hook w = lci_forwardCloseF hook fuel w := by
    intro fuel hfu
    unfold forwardClose lci_forwardCloseF
    rw [hfu]
    rfl
  rw [key FUEL rfl]
  exact lcfr_cli_forwardCloseF hook hh cid0 FUEL w hi hp

theorem lcfr_closeFc {σ} (hook : ObjHook σ) (hh : lci_HookOk hook) (cid0 : Nat) (w : World σ)
    (hi : lcfr_Inv cid0 w) (hp : lcfr_Pend w) :
    lcfr_Inv cid0 (lcCloseFc hook w).1 ∧ lcfr_Pend (lcCloseFc hook w).1 := by
  unfold lcCloseFc
  split
  · have h := lcfr_cli_forwardClose hook hh cid0 w hi hp
    generalize forwardClose hook w = fc at h ⊢
    obtain ⟨w', r⟩ := fc
    cases r <;> exact h
  · exact ⟨hi, hp⟩

theorem lcfr_closeUnreg {σ} (hook : ObjHook σ) (hh : lci_HookOk hook) (cid0 : Nat) (p : World σ × Except Exn Unit)
    (hi : lcfr_Inv cid0 p.1) : lcfr_Inv cid0 (lcCloseUnreg hook p).1 := by
  obtain ⟨wa, ra⟩ := p
  unfold lcCloseUnreg
  cases ra with
  | error e => exact hi
  | ok u =>
    dsimp only
    split
    · rename_i hs
      have hne : wa.drv.session ≠ some 0 := by
        intro h
        rw [h] at hs
        exact absurd hs (by decide)
      have hI := lcfr_sendReq hook hh cid0 wa hi .unregisterSession hne true
      generalize sendReq hook wa .unregisterSession true = sr at hI ⊢
      obtain ⟨wb, rb⟩ := sr
      cases rb with
      | error e => exact hI
      | ok x => exact lcfr_Inv_session hI none (fun s h => nomatch h) (fun _ h => nomatch h)
    · exact hi

theorem lcfr_closeDrv {σ} (hook : ObjHook σ) (hh : lci_HookOk hook) (cid0 : Nat) (w : World σ)
    (hi : lcfr_Inv cid0 w) (hp : lcfr_Pend w) :
    lcfr_Inv cid0 (closeDrv hook w).1 ∧ lcfr_Pend (closeDrv hook w).1 := by
  have h1 : lcfr_Inv cid0 (lcCloseTry hook w).1 :=
    lcfr_closeUnreg hook hh cid0 _ (lcfr_closeFc hook hh cid0 w hi hp).1
  rw [lc_closeDrv_eq]
  dsimp only
  generalize lcCloseTry hook w = ct at h1
  obtain ⟨w1, e1⟩ := ct
  dsimp only at h1 ⊢
  have hbase : ((if w1.drv.hasSock then w1.net.sockClose else w1.net).target.base.log = w1.net.target.base.log) ∧
      ((if w1.drv.hasSock then w1.net.sockClose else w1.net).target.base.nextSession = w1.net.target.base.nextSession) ∧
      ((if w1.drv.hasSock then w1.net.sockClose else w1.net).target.base.nextCid = w1.net.target.base.nextCid) ∧
      ((if w1.drv.hasSock then w1.net.sockClose else w1.net).sent = w1.net.sent) := by
    split
    · unfold Net.sockClose
      split
      · exact ⟨rfl, rfl, rfl, rfl⟩
      · exact ⟨rfl, rfl, rfl, rfl⟩
    · exact ⟨rfl, rfl, rfl, rfl⟩
  obtain ⟨hl, hns, hnc, hsent⟩ := hbase
  constructor
  · refine ⟨h1.ctx8, h1.opt0, ⟨?_, ?_⟩, ?_, ?_, (fun h => nomatch h), ?_⟩
    · show (if w1.drv.hasSock then w1.net.sockClose else w1.net).target.base.nextCid = _
      rw [hnc]
      show _ = lcfr_cidAt cid0 (lcfr_foCount (if w1.drv.hasSock then w1.net.sockClose else w1.net).target.base.log)
      rw [hl]; exact h1.t.nc
    · show (if w1.drv.hasSock then w1.net.sockClose else w1.net).target.base.nextSession < _
      rw [hns]; exact h1.t.ns
    · intro s h h0
      have : (0 : Nat) = s := Option.some.inj h
      exact absurd this.symm h0
    · intro c h
      show _ ∧ leVal c ∈ lcfr_cids cid0 (if w1.drv.hasSock then w1.net.sockClose else w1.net).target.base.log
      rw [hl]
      exact h1.cid c h
    · show lcfr_SentOk cid0 (if w1.drv.hasSock then w1.net.sockClose else w1.net).sent
        (if w1.drv.hasSock then w1.net.sockClose else w1.net).target.base.log
      rw [hl, hsent]; exact h1.sent
  · intro h; cases h

end Pycomm.Cli
