/-
  LogixDriver.write of ANY number of requests of MIXED shapes in one call, the driver side (generalises LDWriteN1 /
  LDWriteN3 from one-element requests to requests for `n ≥ 1` elements whose tag string may carry an element count):
    `ldwx_It`            one request as the builder sees it (request string, tag without the count, element count,
                         database entry, caller's value, request path, encoded value)
    `ldwx_buildLive`, `ldwx_build`   `_write_build_multi_requests`: one Write Tag packet per request, greedy grouping
    `ldwx_results`       the result loop of `write`
    `ldwx_write_general` `write` for ANY answers of the controller that are successes or refusals
-/
import PycommProofs.LDWriteN7
namespace Pycomm.Lgx.Drv
open Pycomm Pycomm.Tgt Pycomm.Path Pycomm.Reply Pycomm.Encap Pycomm.Lgx Pycomm.Lgx.E2E

/-- one plain write request (no bit number, no BOOL range) as the builder sees it -/
structure ldwx_It where
  tag : Name        -- the request string, possibly with an element count `{n}`
  utag : Name       -- without the element count: the Tag's name and the address of the request
  n : Nat           -- elements
  info : TagInfo
  v : PyVal
  path : Bytes
  value : Bytes

/-- the parsed request of an item at position `rid` -/
def ldwx_parsedOf (rid : Nat) (it : ldwx_It) : Drv.Parsed :=
  { requestId := rid, requestTag := it.tag, userTag := it.utag, plcTag := it.utag, bit := none, elements := (it.n : Int),
    info := some it.info, boolElements := none, value := it.v }

/-- the Write Tag packet built for an item -/
def ldwx_reqOf (seq rid : Nat) (it : ldwx_It) : WriteReq :=
  { seq := seq, tag := it.utag, elements := it.n, info := it.info, rid := rid, path := it.path,
    typeBytes := packedTypeOf it.info, value := it.value }

/-- the driver's accounting of an item: `len(request.message)` of its Write Tag packet -/
def ldwx_It.wlen (it : ldwx_It) : Nat := 2 + (Cl.writeMsg it.path (packedTypeOf it.info) it.n it.value).length

/-- the parsed requests of the items, request ids `k, k + 1, …` -/
def ldwx_parsed (k : Nat) : List ldwx_It → List Drv.Parsed
  | [] => []
  | it :: rest => ldwx_parsedOf k it :: ldwx_parsed (k + 1) rest

/-- the Write Tag packets of the items: sequence numbers drawn one after the other, request ids `k, k + 1, …` -/
def ldwx_reqs (d : Cli.Drv) (k : Nat) : List ldwx_It → List WriteReq
  | [] => []
  | it :: rest => ldwx_reqOf d.nextSeq.1 k it :: ldwx_reqs d.nextSeq.2 (k + 1) rest

/-- what the builder needs of an item -/
structure ldwx_ItOk (cfg : Cfg) (C : Nat) (it : ldwx_It) : Prop where
  enc : ∀ rid, encodeValue (ldwx_parsedOf rid it) it.info = (ldwx_parsedOf rid it, some it.value)
  path : requestPathOf cfg it.utag it.info = .ok it.path
  count : it.n ≤ 65535
  fit : it.wlen + K.OVERHEAD ≤ C

theorem ldwx_parsed_length (its : List ldwx_It) : ∀ k, (ldwx_parsed k its).length = its.length := by
  induction its with
  | nil => intro k; rfl
  | cons it rest ih => intro k; simp [ldwx_parsed, ih]

theorem ldwx_reqs_length (its : List ldwx_It) : ∀ d k, (ldwx_reqs d k its).length = its.length := by
  induction its with
  | nil => intro d k; rfl
  | cons it rest ih => intro d k; simp [ldwx_reqs, ih]

theorem ldwx_parsed_id_ge (its : List ldwx_It) : ∀ k, ∀ p ∈ ldwx_parsed k its, k ≤ p.requestId := by
  induction its with
  | nil => intro k p hp; cases hp
  | cons it rest ih =>
    intro k p hp
    rcases List.mem_cons.1 hp with rfl | hp
    · exact Nat.le_refl _
    · exact Nat.le_of_succ_le (ih (k + 1) p hp)

theorem ldwx_parsed_id_inj (its : List ldwx_It) : ∀ k, ∀ p ∈ ldwx_parsed k its, ∀ q ∈ ldwx_parsed k its,
    q.requestId = p.requestId → q = p := by
  induction its with
  | nil => intro k p hp; cases hp
  | cons it rest ih =>
    intro k p hp q hq he
    rcases List.mem_cons.1 hp with rfl | hp <;> rcases List.mem_cons.1 hq with rfl | hq
    · rfl
    · have := ldwx_parsed_id_ge rest (k + 1) q hq
      have e : (ldwx_parsedOf k it).requestId = k := rfl
      omega
    · have := ldwx_parsed_id_ge rest (k + 1) p hp
      have e : (ldwx_parsedOf k it).requestId = k := rfl
      omega
    · exact ih (k + 1) p hp q hq he

theorem ldwx_replace_self (its : List ldwx_It) (k : Nat) (p : Drv.Parsed) (hp : p ∈ ldwx_parsed k its) :
    replaceParsed (ldwx_parsed k its) p = ldwx_parsed k its := by
  unfold replaceParsed
  conv => rhs; rw [← List.map_id (ldwx_parsed k its)]
  apply List.map_congr_left
  intro q hq
  by_cases h : (q.requestId == p.requestId) = true
  · rw [if_pos h]
    exact (ldwx_parsed_id_inj its k p hp q hq (by simpa using h)).symm
  · rw [if_neg h]; rfl

/-! ### (b) the first loop of `_write_build_multi_requests` -/

theorem ldwx_buildLive (cfg : Cfg) (C : Nat) (its : List ldwx_It) :
    ∀ (d : Cli.Drv) (acc : WriteBuild) (k : Nat), (∀ it ∈ its, ldwx_ItOk cfg C it) →
      (∀ p ∈ ldwx_parsed k its, replaceParsed acc.parsed p = acc.parsed) →
      writeBuildLive cfg C d acc (ldwx_parsed k its) =
        (ldwn_seqN its.length d, .ok { acc with writes := acc.writes ++ (ldwx_reqs d k its).map (·, false) }) := by
  induction its with
  | nil =>
    intro d acc k _ _
    simp [ldwx_parsed, writeBuildLive, ldwn_seqN, ldwx_reqs]
  | cons it rest ih =>
    intro d acc k hok hrep
    have hit := hok it List.mem_cons_self
    have herr : (ldwx_parsedOf k it).error = none := rfl
    have hinf : (ldwx_parsedOf k it).info = some it.info := rfl
    have hbw : (ldwx_parsedOf k it).isBitWrite = false := rfl
    have hpath : requestPathOf cfg (ldwx_parsedOf k it).plcTag it.info = .ok it.path := hit.path
    have hel : elementsNat (ldwx_parsedOf k it).elements = .ok it.n := by
      show elementsNat (it.n : Int) = _
      unfold elementsNat
      have := hit.count
      rw [if_pos (by omega)]; rfl
    have hr := hrep (ldwx_parsedOf k it) List.mem_cons_self
    have hfit := hit.fit
    unfold ldwx_It.wlen at hfit
    have hnf : ¬ (2 + (Cl.writeMsg it.path (packedTypeOf it.info) it.n it.value).length + K.OVERHEAD > C) := by omega
    have hstep : writeBuildLive cfg C d acc (ldwx_parsed k (it :: rest)) =
        writeBuildLive cfg C d.nextSeq.2
          { acc with writes := acc.writes ++ [(ldwx_reqOf d.nextSeq.1 k it, false)] }
          (ldwx_parsed (k + 1) rest) := by
      simp only [ldwx_parsed, writeBuildLive, herr, hinf, hbw, Bool.false_eq_true, if_false, hit.enc k, hr, mkWriteReq,
        hpath, hel, WriteReq.messageLen, hnf, decide_false]
      rfl
    rw [hstep, ih d.nextSeq.2
      { acc with writes := acc.writes ++ [(ldwx_reqOf d.nextSeq.1 k it, false)] }
      (k + 1) (fun x hx => hok x (List.mem_cons_of_mem _ hx))
      (fun p hp => hrep p (List.mem_cons_of_mem _ hp))]
    simp [ldwn_seqN, ldwx_reqs, List.append_assoc]

/-- (b) `_write_build_requests` for the parsed items (not exactly one, not a Micro800) -/
theorem ldwx_build (cfg : Cfg) (d : Cli.Drv) (its : List ldwx_It) (hmicro : cfg.micro800 = false)
    (hlen : its.length ≠ 1) (hok : ∀ it ∈ its, ldwx_ItOk cfg d.connectionSize it) :
    writeBuildRequests cfg d (ldwx_parsed 0 its) =
      ((drawSeqs (ldwn_seqN its.length d) (ldwn_groups d.connectionSize (ldwx_reqs d 0 its))).1,
       .ok (ldwx_parsed 0 its,
            (drawSeqs (ldwn_seqN its.length d) (ldwn_groups d.connectionSize (ldwx_reqs d 0 its))).2.map
              fun m => Request.multiWrite m.1 m.2)) := by
  unfold writeBuildRequests
  have hcond : ((ldwx_parsed 0 its).length ≠ 1 ∧ (!cfg.micro800) = true) := by
    rw [ldwx_parsed_length, hmicro]; exact ⟨hlen, rfl⟩
  rw [if_pos hcond]
  rw [ldwx_buildLive cfg d.connectionSize its d { parsed := ldwx_parsed 0 its } 0 hok
    (fun p hp => ldwx_replace_self its 0 p hp)]
  simp only [List.nil_append, (ldwn_filter_plain _).1, (ldwn_filter_plain _).2, List.map_nil, List.append_nil]
  rfl

/-! ### the built requests of the items -/

/-- the Write Tag message of an item -/
def ldwx_itMsg (it : ldwx_It) : Bytes := Cl.writeMsg it.path (packedTypeOf it.info) it.n it.value

theorem ldwx_reqs_msgs (its : List ldwx_It) : ∀ d k, (ldwx_reqs d k its).map ldwn_msgOf = its.map ldwx_itMsg := by
  induction its with
  | nil => intro d k; rfl
  | cons it rest ih => intro d k; simp only [ldwx_reqs, List.map_cons, ih]; rfl

theorem ldwx_reqs_rids (its : List ldwx_It) : ∀ d k, (ldwx_reqs d k its).map (·.rid) = List.range' k its.length := by
  induction its with
  | nil => intro d k; rfl
  | cons it rest ih => intro d k; simp only [ldwx_reqs, List.map_cons, ih, List.length_cons, List.range'_succ]; rfl

theorem ldwx_reqs_nodup (its : List ldwx_It) (d : Cli.Drv) (k : Nat) : ((ldwx_reqs d k its).map (·.rid)).Nodup := by
  rw [ldwx_reqs_rids]; exact List.nodup_range'

theorem ldwx_reqs_mem (its : List ldwx_It) : ∀ d k, ∀ q ∈ ldwx_reqs d k its,
    ∃ it ∈ its, q.path = it.path ∧ q.typeBytes = packedTypeOf it.info ∧ q.messageLen = it.wlen := by
  induction its with
  | nil => intro d k q hq; cases hq
  | cons it rest ih =>
    intro d k q hq
    rcases List.mem_cons.1 hq with rfl | hq
    · exact ⟨it, List.mem_cons_self, rfl, rfl, rfl⟩
    · obtain ⟨it', h1, h2⟩ := ih _ _ q hq
      exact ⟨it', List.mem_cons_of_mem _ h1, h2⟩

theorem ldwx_reqs_planItems (its : List ldwx_It) : ∀ d k,
    (ldwx_reqs d k its).map ldwn_planItem = ldwn_planItems k (its.map (·.wlen)) := by
  induction its with
  | nil => intro d k; rfl
  | cons it rest ih => intro d k; simp only [ldwx_reqs, List.map_cons, ldwn_planItems, ih]; rfl

theorem ldwx_reqs_groupSize (its : List ldwx_It) : ∀ d k,
    ldwn_groupSize (ldwx_reqs d k its) = (its.map (·.wlen)).sum := by
  induction its with
  | nil => intro d k; rfl
  | cons it rest ih =>
    intro d k
    have := ih d.nextSeq.2 (k + 1)
    unfold ldwn_groupSize at this ⊢
    simp only [ldwx_reqs, List.map_cons, List.sum_cons, this]
    rfl

/-! ### (f) the result loop -/

/-- (f) the result loop of `write` for an error-free request of `n` elements that is neither a bit write nor a
    BOOL-array range, whose response was recorded as `t`: the Tag carries the request's tag (without the element
    count), the caller's value, the type string `T` / `T[n]` and the error of the response -/
theorem ldwx_writeResult_get (p : Drv.Parsed) (info : TagInfo) (t : LTag) (rs : Results) (n : Nat)
    (herr : p.error = none) (hinfo : p.info = some info) (hbit : p.bit = none) (hbe : p.boolElements = none)
    (hel : p.elements = (n : Int)) (hget : rs.get? p.requestId = some t) :
    writeResult p rs =
      { tag := p.userTag, value := p.value, type := some (ldr2_typeStr info.core.dataTypeName n), error := t.error } := by
  unfold writeResult
  simp only [herr, hinfo, hget, hbit, hbe, hel, Option.isSome_none, Bool.false_and, Bool.false_eq_true, if_false,
    ldw2_typeStr_eq]

/-- the Tag of the result loop of `write` for an item answered with `r` -/
def ldwx_outTag (it : ldwx_It) (r : MRReply) : LTag :=
  { tag := it.utag, value := it.v, type := some (ldr2_typeStr it.info.core.dataTypeName it.n), error := ldwn_errOf r }

theorem ldwx_results (rs : Results) (its : List ldwx_It) : ∀ (d : Cli.Drv) (k : Nat) (ans : List MRReply),
    ans.length = its.length →
    (∀ x ∈ (ldwx_reqs d k its).zip ans, rs.get? (x.1.rid : Int) = some (ldwn_tagOf x.1 x.2)) →
    (ldwx_parsed k its).map (fun p => writeResult p rs) = (its.zip ans).map fun x => ldwx_outTag x.1 x.2 := by
  induction its with
  | nil => intro d k ans _ _; rfl
  | cons it rest ih =>
    intro d k ans hl hget
    cases ans with
    | nil => simp at hl
    | cons r ra =>
      simp only [List.length_cons, Nat.add_right_cancel_iff] at hl
      simp only [ldwx_parsed, ldwx_reqs, List.map_cons, List.zip_cons_cons] at hget ⊢
      have h0 := hget (ldwx_reqOf d.nextSeq.1 k it, r) List.mem_cons_self
      have hres := ldwx_writeResult_get (ldwx_parsedOf k it) it.info _ rs it.n rfl rfl rfl rfl rfl h0
      rw [hres, ldwn_tagOf_error, ih d.nextSeq.2 (k + 1) ra hl (fun x hx => hget x (List.mem_cons_of_mem _ hx))]
      rfl

/-! ### the composition -/

theorem ldwx_parsed_getElem (its : List ldwx_It) : ∀ (k j : Nat) (h : j < its.length),
    (ldwx_parsed k its)[j]'(by rw [ldwx_parsed_length]; exact h) = ldwx_parsedOf (k + j) its[j] := by
  induction its with
  | nil => intro k j h; cases h
  | cons it rest ih =>
    intro k j h
    cases j with
    | zero => rfl
    | succ j =>
      simp only [ldwx_parsed, List.getElem_cons_succ]
      rw [ih (k + 1) j (by simpa using h)]
      congr 1
      omega

/-- (a) the parsed requests of `write` for items with plain parses -/
theorem ldwx_wparse (cfg : Cfg) (its : List ldwx_It)
    (hparse : ∀ it ∈ its, ∀ rid, parseTagRequest cfg.tags true rid it.tag = { ldwx_parsedOf rid it with value := .none }) :
    lds_wparse cfg.tags (its.map fun it => (it.tag, it.v)) = ldwx_parsed 0 its := by
  apply List.ext_getElem
  · rw [lds_wparse_length, ldwx_parsed_length, List.length_map]
  · intro j h1 h2
    have hj : j < its.length := by rw [ldwx_parsed_length] at h2; exact h2
    rw [lds_wparse_getElem cfg.tags _ j (by rw [List.length_map]; exact hj), ldwx_parsed_getElem its 0 j hj]
    simp only [List.getElem_map, Nat.zero_add]
    rw [hparse its[j] (List.getElem_mem hj) j]
    rfl

/-- `write` of `n ≥ 2` plain requests (each for one or more elements) on a healthy connected driver that is not a
    Micro800, each message below the fragmentation threshold, for ANY answers of the controller to the embedded Write
    Tag requests that are successes or refusals (executed in request order): the driver draws `n` sequence numbers for
    the Write Tag packets and one per multi-service packet, writes one frame per packet, and returns one Tag per
    request, in request order, carrying the caller's value, the type string and the error of the request's own answer -/
theorem ldwx_write_general (cfg : Cfg) (w : Cli.World Ext) (sess : Nat) (cidb : Bytes) (conn : Conn) (st : LState)
    (its : List ldwx_It)
    (hw : ldr_Healthy w sess cidb conn) (hlogix : w.net.target.ext.logix = some st) (hmicro : cfg.micro800 = false)
    (hlen : 2 ≤ its.length)
    (hparse : ∀ it ∈ its, ∀ rid, parseTagRequest cfg.tags true rid it.tag = { ldwx_parsedOf rid it with value := .none })
    (hok : ∀ it ∈ its, ldwx_ItOk cfg w.drv.connectionSize it)
    (hden : ∀ it ∈ its, ∃ segs, Denotes it.path segs)
    (hCT : w.drv.connectionSize ≤ conn.size) (hCmax : w.drv.connectionSize ≤ 65400)
    (hans : ∀ r ∈ (ldwn_exch (conn.size - 2) st (its.map ldwx_itMsg)).2, ldwn_Ans r) :
    ∃ w' frms, write hookAll cfg w (its.map fun it => (it.tag, it.v)) =
        (w', .ok ((its.zip (ldwn_exch (conn.size - 2) st (its.map ldwx_itMsg)).2).map fun x => ldwx_outTag x.1 x.2)) ∧
      w'.drv = ldwn_seqN (its.length + (ldwn_groups w.drv.connectionSize (ldwx_reqs w.drv 0 its)).length) w.drv ∧
      w'.net.sent = w.net.sent ++ frms ∧
      frms.length = (ldwn_groups w.drv.connectionSize (ldwx_reqs w.drv 0 its)).length ∧
      w'.net.target.ext =
        { w.net.target.ext with logix := some (ldwn_exch (conn.size - 2) st (its.map ldwx_itMsg)).1 } ∧
      ldr_Healthy w' sess cidb { conn with lastSeq := (ldwn_last conn.lastSeq
        (drawSeqs (ldwn_seqN its.length w.drv) (ldwn_groups w.drv.connectionSize (ldwx_reqs w.drv 0 its))).2) } := by
  generalize hC : w.drv.connectionSize = C at *
  generalize hreqs : ldwx_reqs w.drv 0 its = reqs
  have hnd : (reqs.map (·.rid)).Nodup := by rw [← hreqs]; exact ldwx_reqs_nodup its w.drv 0
  have hmsgs : reqs.map ldwn_msgOf = its.map ldwx_itMsg := by rw [← hreqs]; exact ldwx_reqs_msgs its w.drv 0
  have hrl : reqs.length = its.length := by rw [← hreqs]; exact ldwx_reqs_length its w.drv 0
  have hmem : ∀ q ∈ reqs, ∃ it ∈ its, q.path = it.path ∧ q.typeBytes = packedTypeOf it.info ∧
      q.messageLen = it.wlen := by
    rw [← hreqs]; exact ldwx_reqs_mem its w.drv 0
  have hfit1 : ∀ r ∈ reqs, r.messageLen + K.OVERHEAD ≤ C := by
    intro q hq
    obtain ⟨it, hit, _, _, h3⟩ := hmem q hq
    rw [h3]; exact (hok it hit).fit
  generalize hgs : ldwn_groups C reqs = gs
  have hG1 : gs.flatten = reqs := by rw [← hgs]; exact ldwn_groups_flatten C reqs hnd hfit1
  have hG2 : ∀ g ∈ gs, g ≠ [] := by rw [← hgs]; exact ldwn_groups_ne_nil C reqs hnd hfit1
  have hG3 : ∀ g ∈ gs, K.OVERHEAD + ldwn_groupSize g ≤ C := by rw [← hgs]; exact ldwn_groups_fit C reqs hnd
  -- (a), (b)
  have hbuild := ldwx_build cfg w.drv its hmicro (by omega) (by rw [hC]; exact hok)
  rw [hC, hreqs, hgs] at hbuild
  generalize hms : (drawSeqs (ldwn_seqN its.length w.drv) gs) = dm at hbuild ⊢
  have hd2 : dm.1 = ldwn_seqN (its.length + gs.length) w.drv := by
    rw [← hms, ldwn_drawSeqs_fst, ldwn_seqN_add]
  have hm2 : dm.2.map (·.2) = gs := by rw [← hms]; exact lds_drawSeqs_snd gs _
  have hmlt : ∀ m ∈ dm.2, m.1 < 65536 := by rw [← hms]; exact ldwn_drawSeqs_lt gs _
  have hflat : dm.2.flatMap (·.2) = reqs := by
    rw [List.flatMap_def, hm2, hG1]
  -- (c)+(d)+(e)
  have hw1 : ldr_Healthy ({ w with drv := dm.1 } : Cli.World Ext) sess cidb conn :=
    ldr_Healthy_seq hw _ (by rw [hd2]; exact ldwn_seqN_eq _ _)
  obtain ⟨w2, frms, hsend, hdrv, hsent, hflen, hext, hh2⟩ := ldwn_sendRequests sess cidb dm.2
    ({ w with drv := dm.1 } : Cli.World Ext) conn st [] hw1 hlogix
    (by
      intro m hm
      have hg : m.2 ∈ gs := by rw [← hm2]; exact List.mem_map_of_mem hm
      have := hG3 m.2 hg
      exact ⟨hmlt m hm, hG2 m.2 hg, by omega, by omega⟩)
    (by
      rw [hflat]
      intro q hq
      obtain ⟨it, hit, h1, h2, _⟩ := hmem q hq
      rw [h1, h2]
      exact ⟨hden it hit, ldwn_packedType_len it.info⟩)
    (by rw [hflat, hmsgs]; exact hans)
  rw [hflat, hmsgs] at hsend hext
  have hfo : Cli.ensureForwardOpen hookAll Cli.FUEL w = (w, .ok ()) := ldr_ensureFO_connected hookAll 7 w hw.connected
  have hflen' : frms.length = gs.length := by rw [hflen, ← hm2, List.length_map]
  refine ⟨w2, frms, ?_, by rw [hdrv, hd2], hsent, hflen', hext, hh2⟩
  unfold write
  rw [hfo]
  dsimp only
  have hwp := ldwx_wparse cfg its hparse
  unfold lds_wparse at hwp
  rw [hwp, hbuild]
  dsimp only
  rw [hsend]
  dsimp only
  rw [ldwn_fanOut_multi]
  dsimp only
  have hne : (its.map fun it => (it.tag, it.v)).isEmpty = false := by
    cases its with
    | nil => simp at hlen
    | cons a t => rfl
  rw [hne]
  simp only [Bool.false_eq_true, if_false]
  have hres := ldwx_results (ldwn_table [] (reqs.zip (ldwn_exch (conn.size - 2) st (its.map ldwx_itMsg)).2)) its w.drv 0
    (ldwn_exch (conn.size - 2) st (its.map ldwx_itMsg)).2 (by rw [ldwn_exch_length, List.length_map])
    (by
      rw [hreqs]
      intro x hx
      refine ldwn_table_get _ ?_ [] x hx
      have : (reqs.zip (ldwn_exch (conn.size - 2) st (its.map ldwx_itMsg)).2).map (fun x => x.1.rid) =
          reqs.map (·.rid) := by
        have e : (fun x : WriteReq × MRReply => x.1.rid) = (fun q : WriteReq => q.rid) ∘ Prod.fst := rfl
        rw [e, ← List.map_map, List.map_fst_zip (by rw [ldwn_exch_length, List.length_map, hrl]; exact Nat.le_refl _)]
      rw [this]; exact hnd)
  rw [hres]

end Pycomm.Lgx.Drv
