/-
  C13 at the driver level for ARBITRARY reply bytes, part 5: Multiple Service Packets, and `generic_message`.

    * `lda_EncapOk`, `lda_commandStatus_iff`: the encapsulation status of arbitrary bytes;
    * `lda_multiRead_step`, `lda_multiWrite_step`: one embedded reply is treated like the reply of a plain request;
    * `lda_multiRead_table`, `lda_multiWrite_table`, `lda_multiFail_table`: the entries a multi-service iteration adds;
    * `lda_apply_multi_table`: together — every new entry is a good entry for the claim `lda_PairOk raw reqs k`;
    * `lda_read_many`, `lda_write_many`: `read` / `write` of n requests that build to one packet;
    * `lda_generic_tag`: the Tag of `generic_message` over arbitrary bytes.
-/
import PycommProofs.LDAny4
namespace Pycomm.Lgx.Drv
open Pycomm Pycomm.Tgt Pycomm.Path Pycomm.Reply Pycomm.Encap Pycomm.RP

/-! ### the encapsulation status of arbitrary bytes -/

/-- the 4 status bytes of the encapsulation header are there and are 0 -/
def lda_EncapOk (raw : Bytes) : Prop := 12 ≤ raw.length ∧ leVal (slice raw 8 12) = 0

theorem lda_parseService_cs (raw : Bytes) (off : Nat) (p : Reply.Parsed) :
    (parseService raw off p).commandStatus = p.commandStatus := by
  unfold parseService
  split
  · rfl
  · split <;> rfl

theorem lda_commandStatus_iff (raw : Bytes) : (tagResp (some raw)).p.commandStatus = some 0 ↔ lda_EncapOk raw := by
  show (parseService raw _ (parseBase raw {})).commandStatus = some 0 ↔ _
  rw [lda_parseService_cs]
  unfold lda_EncapOk
  by_cases hl : 12 ≤ raw.length
  · unfold parseBase
    rw [dint_slice_ok raw hl]
    simp only [Option.some.injEq, hl, true_and]
    exact encStatus_zero_iff raw hl
  · obtain ⟨e, he⟩ := dint_slice_err raw (by omega)
    unfold parseBase
    rw [he]
    simp [hl]

/-! ### one embedded reply -/

theorem lda_resp_error_valid (r : Resp) (h : r.valid = true) : r.error = .ok none := by
  unfold Resp.error
  rw [h, lda_errorCip_valid]
  rfl

theorem lda_multiRead_step (rs : Results) (req : ReadReq) (raw : Option Bytes) (rest : List (ReadReq × Option Bytes)) :
    multiReadResults rs ((req, raw) :: rest) =
      match lda_readOutcome req raw with
      | .error e => .error e
      | .ok t => multiReadResults (rs.set req.rid t) rest := by
  rw [multiReadResults]
  unfold lda_readOutcome readTag
  rcases readResp req raw with ⟨r, v, dt⟩
  dsimp only
  cases hv : r.valid with
  | true =>
    rw [lda_resp_error_valid r hv]
    simp only [if_true]
  | false =>
    simp only [Bool.false_eq_true, if_false]
    cases r.error with
    | error e => rfl
    | ok err => rfl

theorem lda_multiWrite_step (rs : Results) (req : WriteReq) (raw : Option Bytes) (rest : List (WriteReq × Option Bytes)) :
    multiWriteResults rs ((req, raw) :: rest) =
      match lda_writeOutcome req.tag (.bytes req.value) req.info.core.dataTypeName raw with
      | .error e => .error e
      | .ok t => multiWriteResults (rs.set req.rid t) rest := by
  rw [multiWriteResults]
  unfold lda_writeOutcome writeTag
  cases hv : (tagResp raw).valid with
  | true =>
    rw [lda_resp_error_valid _ hv]
    simp only [if_true]
  | false =>
    simp only [Bool.false_eq_true, if_false]
    cases (tagResp raw).error with
    | error e => rfl
    | ok err => rfl

/-! ### the entries a multi-service iteration adds -/

/-- every entry after `multiReadResults` is an old one, or the good entry of a pair (request, embedded reply) under the
    request's id: without error only if the embedded reply's own status words are OK -/
theorem lda_multiRead_table : ∀ (l : List (ReadReq × Option Bytes)) (rs rs' : Results),
    multiReadResults rs l = .ok rs' →
    ∀ x ∈ rs', x ∈ rs ∨ ∃ q ∈ l, x.1 = (q.1.rid : Int) ∧
      lda_GoodEntry (∃ b, q.2 = some b ∧ StatusWordsOk .connected b) x.2 := by
  intro l
  induction l with
  | nil =>
    intro rs rs' h x hx
    rw [multiReadResults] at h
    cases h
    exact .inl hx
  | cons q rest ih =>
    intro rs rs' h x hx
    obtain ⟨req, raw⟩ := q
    rw [lda_multiRead_step] at h
    rcases lda_readOutcome_cases req raw with ⟨t, ht, _, hcase⟩ | he | he
    · rw [ht] at h
      dsimp only at h
      rcases ih _ _ h x hx with h1 | ⟨q, hq, h2, h3⟩
      · rcases lds_set_mem _ _ _ _ h1 with h1 | h1
        · exact .inl h1
        · refine .inr ⟨(req, raw), List.mem_cons_self, by rw [h1], ?_⟩
          rw [h1]
          rcases hcase with ⟨e1, e2, dt, e3⟩ | ⟨e, e1, e2, e3, _⟩
          · exact .inl ⟨e1, e2, lda_parseReadReply_solid _ _ _ _ _ e3⟩
          · exact .inr ⟨e, e1, e2, e3⟩
      · exact .inr ⟨q, List.mem_cons_of_mem _ hq, h2, h3⟩
    · rw [he] at h; cases h
    · rw [he] at h; cases h

theorem lda_multiWrite_table : ∀ (l : List (WriteReq × Option Bytes)) (rs rs' : Results),
    multiWriteResults rs l = .ok rs' →
    ∀ x ∈ rs', x ∈ rs ∨ ∃ q ∈ l, x.1 = (q.1.rid : Int) ∧
      lda_GoodEntryW (∃ b, q.2 = some b ∧ StatusWordsOk .connected b) x.2 := by
  intro l
  induction l with
  | nil =>
    intro rs rs' h x hx
    rw [multiWriteResults] at h
    cases h
    exact .inl hx
  | cons q rest ih =>
    intro rs rs' h x hx
    obtain ⟨req, raw⟩ := q
    rw [lda_multiWrite_step] at h
    rcases lda_writeOutcome_cases req.tag (.bytes req.value) req.info.core.dataTypeName raw with ⟨t, ht, _, hcase⟩ | he | he
    · rw [ht] at h
      dsimp only at h
      rcases ih _ _ h x hx with h1 | ⟨q, hq, h2, h3⟩
      · rcases lds_set_mem _ _ _ _ h1 with h1 | h1
        · exact .inl h1
        · refine .inr ⟨(req, raw), List.mem_cons_self, by rw [h1], ?_⟩
          rw [h1]
          rcases hcase with ⟨e1, e2, _⟩ | ⟨e, e1, e2, _, _⟩
          · exact .inl ⟨e1, e2⟩
          · exact .inr ⟨e, e1, e2⟩
      · exact .inr ⟨q, List.mem_cons_of_mem _ hq, h2, h3⟩
    · rw [he] at h; cases h
    · rw [he] at h; cases h

theorem lda_multiRead_err : ∀ (l : List (ReadReq × Option Bytes)) (rs : Results) (e : Exn),
    multiReadResults rs l = .error e → e = .bufferEmpty ∨ e = .data := by
  intro l
  induction l with
  | nil => intro rs e h; rw [multiReadResults] at h; cases h
  | cons q rest ih =>
    intro rs e h
    obtain ⟨req, raw⟩ := q
    rw [lda_multiRead_step] at h
    rcases lda_readOutcome_cases req raw with ⟨t, ht, _⟩ | he | he
    · rw [ht] at h; exact ih _ _ h
    · rw [he] at h; cases h; exact .inl rfl
    · rw [he] at h; cases h; exact .inr rfl

theorem lda_multiWrite_err : ∀ (l : List (WriteReq × Option Bytes)) (rs : Results) (e : Exn),
    multiWriteResults rs l = .error e → e = .bufferEmpty ∨ e = .data := by
  intro l
  induction l with
  | nil => intro rs e h; rw [multiWriteResults] at h; cases h
  | cons q rest ih =>
    intro rs e h
    obtain ⟨req, raw⟩ := q
    rw [lda_multiWrite_step] at h
    rcases lda_writeOutcome_cases req.tag (.bytes req.value) req.info.core.dataTypeName raw with ⟨t, ht, _⟩ | he | he
    · rw [ht] at h; exact ih _ _ h
    · rw [he] at h; cases h; exact .inl rfl
    · rw [he] at h; cases h; exact .inr rfl

theorem lda_multiPacketError_err (raw : Option Bytes) (e : Exn) (h : multiPacketError (tagResp raw) = .error e) :
    e = .bufferEmpty ∨ e = .data := by
  have := lds_multiPacketError_err _ _ h
  rcases lda_tagResp_cases_opt raw with ⟨_, _, he⟩ | ⟨_, ⟨e2, he, _⟩ | he | he⟩ <;> rw [he] at this <;> cases this
  · exact .inl rfl
  · exact .inr rfl

/-- a multi-service iteration over arbitrary bytes raises BufferEmptyError / DataError at most -/
theorem lda_apply_multi_err (rs : Results) (raw : Option Bytes) (q : Request) (e : Exn)
    (hq : (∃ seq reqs, q = .multiRead seq reqs) ∨ (∃ seq reqs, q = .multiWrite seq reqs))
    (h : lda_apply rs raw q = .error e) : e = .bufferEmpty ∨ e = .data := by
  rcases hq with ⟨seq, reqs, rfl⟩ | ⟨seq, reqs, rfl⟩
  · unfold lda_apply at h
    dsimp only at h
    split at h
    · next e' hm => cases h; exact lda_multiPacketError_err raw _ hm
    · cases h
    · exact lda_multiRead_err _ _ _ h
  · unfold lda_apply at h
    dsimp only at h
    split at h
    · next e' hm => cases h; exact lda_multiPacketError_err raw _ hm
    · cases h
    · exact lda_multiWrite_err _ _ _ h

/-- the error `multiPacketError` attaches to every paired request is a non-empty text -/
theorem lda_multiPacketError_text (raw : Option Bytes) (err : TagErr) (h : multiPacketError (tagResp raw) = .ok (some err)) :
    lda_ErrText err ∧ (tagResp raw).p.commandStatus ≠ some 0 := by
  unfold multiPacketError at h
  split at h
  · cases h
  · next hcs =>
    refine ⟨?_, hcs⟩
    split at h
    · cases h; trivial
    · rcases lda_tagResp_cases_opt raw with ⟨hv, _, _⟩ | ⟨_, he⟩
      · rw [lme_invalid raw hcs] at hv; cases hv
      · rcases he with ⟨e, he, hne⟩ | he | he
        · rw [he] at h; cases h; exact hne
        · rw [he] at h; cases h
        · rw [he] at h; cases h

/-- the claim about the reply of a multi-service packet for the request with id `k`: the packet's encapsulation status
    is 0, and the request was paired with an embedded reply whose own status words are OK -/
def lda_PairOk {ρ} (rid : ρ → Nat) (raw : Bytes) (reqs : List ρ) (k : Int) : Prop :=
  lda_EncapOk raw ∧ ∃ q ∈ reqs.zip (embeddedReplies (tagResp (some raw)).p.data),
    (rid q.1 : Int) = k ∧ ∃ b, q.2 = some b ∧ StatusWordsOk .connected b

/-- a multi-service READ answered by arbitrary bytes: every entry the iteration adds is a good entry for `lda_PairOk` -/
theorem lda_apply_multiRead_table (rs rs' : Results) (raw : Bytes) (seq : Nat) (reqs : List ReadReq)
    (h : lda_apply rs (some raw) (.multiRead seq reqs) = .ok rs') :
    ∀ x ∈ rs', x ∈ rs ∨ lda_GoodEntry (lda_PairOk (·.rid) raw reqs x.1) x.2 := by
  intro x hx
  unfold lda_apply at h
  dsimp only at h
  split at h
  · cases h
  · next err hm =>
    cases h
    rcases lme_multiFailAll_mem err _ rs x hx with h1 | ⟨h2, _, h4, _⟩
    · exact .inl h1
    · exact .inr (.inr ⟨err, h4, (lda_multiPacketError_text _ _ hm).1, h2⟩)
  · next hm =>
    have hcs : (tagResp (some raw)).p.commandStatus = some 0 := by
      unfold multiPacketError at hm
      split at hm
      · assumption
      · next hcs =>
        split at hm
        · cases hm
        · exfalso
          exact lme_error_ne_none (some raw) (lme_invalid (some raw) hcs) hm
    rcases lda_multiRead_table _ rs rs' h x hx with h1 | ⟨q, hq, h2, h3⟩
    · exact .inl h1
    · right
      rcases h3 with ⟨e1, e2, e3⟩ | h3
      · exact .inl ⟨e1, ⟨(lda_commandStatus_iff raw).1 hcs, q, hq, h2.symm, e2⟩, e3⟩
      · exact .inr h3

theorem lda_apply_multiWrite_table (rs rs' : Results) (raw : Bytes) (seq : Nat) (reqs : List WriteReq)
    (h : lda_apply rs (some raw) (.multiWrite seq reqs) = .ok rs') :
    ∀ x ∈ rs', x ∈ rs ∨ lda_GoodEntryW (lda_PairOk (·.rid) raw reqs x.1) x.2 := by
  intro x hx
  unfold lda_apply at h
  dsimp only at h
  split at h
  · cases h
  · next err hm =>
    cases h
    rcases lme_multiFailAll_mem err _ rs x hx with h1 | ⟨_, _, h4, _⟩
    · exact .inl h1
    · exact .inr (.inr ⟨err, h4, (lda_multiPacketError_text _ _ hm).1⟩)
  · next hm =>
    have hcs : (tagResp (some raw)).p.commandStatus = some 0 := by
      unfold multiPacketError at hm
      split at hm
      · assumption
      · next hcs =>
        split at hm
        · cases hm
        · exfalso
          exact lme_error_ne_none (some raw) (lme_invalid (some raw) hcs) hm
    rcases lda_multiWrite_table _ rs rs' h x hx with h1 | ⟨q, hq, h2, h3⟩
    · exact .inl h1
    · right
      rcases h3 with ⟨e1, e2⟩ | h3
      · exact .inl ⟨e1, (lda_commandStatus_iff raw).1 hcs, q, hq, h2.symm, e2⟩
      · exact .inr h3

/-! ### `read` / `write` of n requests that build to one packet -/

theorem lda_read_many {σ} (hook : ObjHook σ) (cfg : Cfg) (w : Cli.World σ) (tags : List Name) (d1 : Cli.Drv) (q : Request)
    (hconn : w.drv.targetIsConnected = true) (hne : tags ≠ [])
    (hbuild : readBuildRequests cfg w.drv (parseRequestedTags cfg.tags false tags) = (d1, .ok [q])) :
    (read hook cfg w tags).2 =
      match (sendRequest hook { w with drv := d1 } [] q).2 with
      | .error e => .error e
      | .ok rs => .ok ((parseRequestedTags cfg.tags false tags).map fun p => readResult p rs) := by
  have hfo : Cli.ensureForwardOpen hook Cli.FUEL w = (w, .ok ()) := ldr_ensureFO_connected hook 7 w hconn
  have hemp : tags.isEmpty = false := by cases tags with | nil => exact absurd rfl hne | cons _ _ => rfl
  unfold read
  rw [hfo]
  dsimp only
  rw [hbuild]
  dsimp only
  have hs := lda_sendRequests_single hook { w with drv := d1 } [] q
  rcases hr : sendRequests hook { w with drv := d1 } [] [q] with ⟨w2, rs⟩
  rw [hr] at hs
  dsimp only at hs ⊢
  rw [← hs]
  cases rs with
  | error e => rfl
  | ok rs => simp only [hemp, Bool.false_eq_true, if_false]

theorem lda_write_many {σ} (hook : ObjHook σ) (cfg : Cfg) (w : Cli.World σ) (tvs : List (Name × PyVal)) (d1 : Cli.Drv)
    (ps' : List Drv.Parsed) (q : Request)
    (hconn : w.drv.targetIsConnected = true) (hne : tvs ≠ [])
    (hbuild : writeBuildRequests cfg w.drv (lds_wparse cfg.tags tvs) = (d1, .ok (ps', [q]))) :
    (write hook cfg w tvs).2 =
      match (sendRequest hook { w with drv := d1 } [] q).2 with
      | .error e => .error e
      | .ok rs =>
          match fanOutRmw rs [q] with
          | none => .error (.foreign "KeyError")
          | some rs' => .ok (ps'.map fun p => writeResult p rs') := by
  have hfo : Cli.ensureForwardOpen hook Cli.FUEL w = (w, .ok ()) := ldr_ensureFO_connected hook 7 w hconn
  have hemp : tvs.isEmpty = false := by cases tvs with | nil => exact absurd rfl hne | cons _ _ => rfl
  unfold lds_wparse at hbuild
  unfold write
  rw [hfo]
  dsimp only
  rw [hbuild]
  dsimp only
  have hs := lda_sendRequests_single hook { w with drv := d1 } [] q
  rcases hr : sendRequests hook { w with drv := d1 } [] [q] with ⟨w2, rs⟩
  rw [hr] at hs
  dsimp only at hs ⊢
  rw [← hs]
  cases rs with
  | error e => rfl
  | ok rs =>
    dsimp only
    cases fanOutRmw rs [q] with
    | none => rfl
    | some rs' => simp only [hemp, Bool.false_eq_true, if_false]

/-! ### `generic_message` over arbitrary bytes -/

/-- the Tag `generic_message` makes of the reply `raw` (the response class over `raw`, then `response.error`): either
    `response.error` raises BufferEmptyError / DataError, or the Tag is truthy only with OK status words, carries a
    non-empty error text whenever the status words are not OK, and is falsy only with a non-empty error text -/
theorem lda_generic_tag (raw : Bytes) (tr : Transport) (dt : Option Ty) (name : Name) :
    (errorCip (some raw) tr (parseGeneric (some raw) tr dt).2.1 (parseGeneric (some raw) tr dt).2.2 = .error .bufferEmpty ∨
     errorCip (some raw) tr (parseGeneric (some raw) tr dt).2.1 (parseGeneric (some raw) tr dt).2.2 = .error .data) ∨
    ∃ err, errorCip (some raw) tr (parseGeneric (some raw) tr dt).2.1 (parseGeneric (some raw) tr dt).2.2 = .ok err ∧
      (({ name := name, value := (parseGeneric (some raw) tr dt).1, error := err } : Cli.Tag).truthy = true →
        StatusWordsOk tr raw) ∧
      (¬ StatusWordsOk tr raw → ∃ e, err = some e ∧ lda_ErrNonEmpty e) ∧
      (({ name := name, value := (parseGeneric (some raw) tr dt).1, error := err } : Cli.Tag).truthy = false →
        ∃ e, err = some e ∧ lda_ErrNonEmpty e) := by
  have hinv : validCip tr (parseCip (some raw) tr) = false →
      (errorCip (some raw) tr (parseCip (some raw) tr) false = .error .bufferEmpty ∨
       errorCip (some raw) tr (parseCip (some raw) tr) false = .error .data) ∨
      ∃ err, errorCip (some raw) tr (parseCip (some raw) tr) false = .ok err ∧
        ∃ e, err = some e ∧ lda_ErrNonEmpty e := by
    intro _
    rcases lda_errorCip_invalid tr (some raw) with ⟨e, he, hne⟩ | he | he
    · exact .inr ⟨some e, he, e, rfl, hne⟩
    · exact .inl (.inl he)
    · exact .inl (.inr he)
  cases hv : validCip tr (parseCip (some raw) tr) with
  | false =>
    have hnot : ¬ StatusWordsOk tr raw := fun h => by
      rw [(valid_iff tr raw).2 h] at hv; cases hv
    cases dt with
    | none =>
      have hpg : parseGeneric (some raw) tr none =
          ((match (parseCip (some raw) tr).data with | some d => PyVal.bytes d | none => PyVal.none),
            parseCip (some raw) tr, false) := by
        unfold parseGeneric; simp only [hv]; rfl
      rw [hpg]
      rcases hinv hv with h | ⟨err, h1, e, rfl, hne⟩
      · exact .inl h
      · refine .inr ⟨some e, h1, fun ht => ?_, fun _ => ⟨e, rfl, hne⟩, fun _ => ⟨e, rfl, hne⟩⟩
        simp [Cli.Tag.truthy] at ht
    | some ty =>
      have hpg : parseGeneric (some raw) tr (some ty) = (.none, parseCip (some raw) tr, false) := by
        unfold parseGeneric; simp only [hv, Bool.false_eq_true, if_false]
      rw [hpg]
      rcases hinv hv with h | ⟨err, h1, e, rfl, hne⟩
      · exact .inl h
      · refine .inr ⟨some e, h1, fun ht => ?_, fun _ => ⟨e, rfl, hne⟩, fun _ => ⟨e, rfl, hne⟩⟩
        simp [Cli.Tag.truthy] at ht
  | true =>
    have hok : StatusWordsOk tr raw := (valid_iff tr raw).1 hv
    obtain ⟨svc, _, hp⟩ := parseCip_good tr raw hok.1 hok.2.2.1
    cases dt with
    | none =>
      have hpg : parseGeneric (some raw) tr none = (.bytes (raw.drop (tr.off + 4)), parseCip (some raw) tr, true) :=
        untyped_value_is_data tr raw hok
      rw [hpg]
      refine .inr ⟨none, lda_errorCip_valid _ _ _, fun _ => hok, fun hn => absurd hok hn, fun hf => ?_⟩
      simp [Cli.Tag.truthy] at hf
    | some ty =>
      cases hd : decode ty ((parseCip (some raw) tr).data.getD []) with
      | ok x =>
        obtain ⟨v, rest⟩ := x
        have hpg : parseGeneric (some raw) tr (some ty) = (v, parseCip (some raw) tr, true) := by
          unfold parseGeneric; simp only [hv, if_true, hd]
        rw [hpg]
        refine .inr ⟨none, lda_errorCip_valid _ _ _, fun _ => hok, fun hn => absurd hok hn, fun hf => ?_⟩
        have hvn := lda_decode_ne_none _ _ _ _ hd
        cases v <;> simp [Cli.Tag.truthy] at hf hvn
      | error e =>
        have hpg : parseGeneric (some raw) tr (some ty) =
            (.none, { parseCip (some raw) tr with err := some .parseFailed }, false) := by
          unfold parseGeneric; simp only [hv, if_true, hd]
        rw [hpg]
        refine .inr ⟨some .parseFailed, by simp [errorCip], fun ht => ?_, fun _ => ⟨_, rfl, trivial⟩,
          fun _ => ⟨_, rfl, trivial⟩⟩
        simp [Cli.Tag.truthy] at ht

end Pycomm.Lgx.Drv
