/-
  Helper lemmas for the extension of C18 to the status, input/output and timer/counter address forms,
  the address fields, and the end-to-end read / write statements (PycommProofs/SlcProofsExt.lean).
-/
import PycommProofs.SlcProofs
import PycommProofs.CodecWire
namespace Pycomm.Slc
open Pycomm.PyStr

/-! ### spec-side tokens of the address text -/

/-- optional `.s` token -/
def posTok : Option Nat → Name
  | none => []
  | some s => 46 :: dec s

/-- optional `/b` token -/
def bitTok : Option Nat → Name
  | none => []
  | some b => 47 :: dec b

/-- optional `{n}` token -/
def cntTok : Option Nat → Name
  | none => []
  | some n => 123 :: (dec n ++ [125])

/-- the optional file-number digits of an I/O address: nothing, or 1–3 decimal digits -/
def OptDig3 (df : Name) : Prop := df = [] ∨ Dig 3 df

/-- the letters of the input and output files, either case -/
def IsIO (c : Nat) : Prop := upperC c = 73 ∨ upperC c = 79

/-- the letters of the timer and counter files, either case -/
def IsCT (c : Nat) : Prop := upperC c = 67 ∨ upperC c = 84

/-- the sub-element names of timers and counters with the word (PRE, ACC) or status bit they select -/
def ctTable : List (Name × Nat) :=
  [(nm "PRE", 1), (nm "ACC", 2), (nm "EN", 15), (nm "TT", 14), (nm "DN", 13),
   (nm "CU", 15), (nm "CD", 14), (nm "OV", 12), (nm "UN", 11), (nm "UA", 10)]

/-- no `{` in a piece of text -/
def No123 (l : Name) : Prop := ∀ x ∈ l, x ≠ 123

theorem slx_no123_nil : No123 [] := by intro x hx; cases hx

theorem slx_no123_cons {c : Nat} {l : Name} (hc : c ≠ 123) (hl : No123 l) : No123 (c :: l) := by
  intro x hx
  rcases List.mem_cons.mp hx with rfl | h
  · exact hc
  · exact hl x h

theorem slx_no123_append {l1 l2 : Name} (h1 : No123 l1) (h2 : No123 l2) : No123 (l1 ++ l2) := by
  intro x hx
  rcases List.mem_append.mp hx with h | h
  · exact h1 x h
  · exact h2 x h

theorem slx_no123_dig {d : Name} (hd : ∀ c ∈ d, isDigitC c = true) : No123 d := dig_ne123 hd

theorem slx_no123_dec (n : Nat) : No123 (dec n) := dig_ne123 (dec_digit n)

theorem slx_no123_optdig {df : Name} (h : OptDig3 df) : No123 df := by
  rcases h with rfl | h
  · exact slx_no123_nil
  · exact slx_no123_dig h.dig

theorem slx_no123_posTok (s : Option Nat) : No123 (posTok s) := by
  cases s with
  | none => exact slx_no123_nil
  | some s => exact slx_no123_cons (by decide) (slx_no123_dec s)

theorem slx_no123_bitTok (b : Option Nat) : No123 (bitTok b) := by
  cases b with
  | none => exact slx_no123_nil
  | some b => exact slx_no123_cons (by decide) (slx_no123_dec b)

/-- `stripCount` removes exactly the `{n}` token -/
theorem slx_stripCount_tok {t : Name} (h : No123 t) (n : Option Nat) : stripCount (t ++ cntTok n) = t := by
  cases n with
  | none => simpa [cntTok] using stripCount_no h
  | some n => exact stripCount_brace h

theorem slx_tw_cntTok (n : Option Nat) : (cntTok n).takeWhile isDigitC = [] := by
  cases n <;> simp [cntTok, isDigitC]

theorem slx_tw_bitTok (b : Option Nat) (r : Name) (hr : r.takeWhile isDigitC = []) :
    (bitTok b ++ r).takeWhile isDigitC = [] := by
  cases b <;> simp [bitTok, isDigitC, hr]

theorem slx_tw_posTok (s : Option Nat) (r : Name) (hr : r.takeWhile isDigitC = []) :
    (posTok s ++ r).takeWhile isDigitC = [] := by
  cases s <;> simp [posTok, isDigitC, hr]

theorem slx_countToken_tok (n : Option Nat) : countToken (cntTok n) = some n := by
  cases n with
  | none => rfl
  | some n => simpa [cntTok, dec_val] using countToken_dig (dec_digit n) (dec_ne n)

/-- the optional bit token followed by the optional count token -/
theorem slx_optBit_tok (b n : Option Nat) (hb : ∀ x, b = some x → x ≤ 99) :
    optBit (bitTok b ++ cntTok n) = some (b, cntTok n) := by
  cases b with
  | none => cases n <;> simp [bitTok, cntTok, optBit]
  | some x =>
    have := optBit_dig (dig_dec 1 x (by have := hb x rfl; omega)) (slx_tw_cntTok n)
    simpa [bitTok, dec_val] using this

/-! ### status file -/

theorem slx_parseS_shape (c : Nat) (hc : upperC c = 83) (de r2 r3 : Name) (bit cnt : Option Nat)
    (hde : Dig 3 de) (hr2 : r2.takeWhile isDigitC = []) (hbit : optBit r2 = some (bit, r3))
    (hcnt : countToken r3 = some cnt) :
    parseS (c :: 58 :: (de ++ r2)) =
      some (if decVal de ≤ 255 ∧ bit.getD 0 ≤ 15 then
        some { fileType := [83], fileNumber := 2, element := decVal de, subElement := bit.getD 0,
               addressField := if bit.isSome then 3 else 2, count := cnt.getD 1,
               tag := if bit.isSome then c :: 58 :: (de ++ r2) else stripCount (c :: 58 :: (de ++ r2)) }
      else none) := by
  have h2 : digits 3 (de ++ r2) = some (de, r2) := digits_dig hde hr2
  simp only [parseS, hc, h2, hbit, hcnt, if_true]

theorem slx_isS_notLFBN {c : Nat} (hc : upperC c = 83) : ¬ IsLFBN c := by
  unfold IsLFBN; omega

theorem slx_parseTag_S (c : Nat) (hc : upperC c = 83) (r : Name) (res : Option Addr)
    (h : parseS (c :: r) = some res) : parseTag (c :: r) = res := by
  simp only [parseTag, parseCT_none c r (by omega) (by omega), parseLFBN_none c r (slx_isS_notLFBN hc),
    parseIO_none c r (by omega) (by omega), h]

/-- `S` followed by anything but `:` is no address (the status file takes no file number) -/
theorem slx_parseTag_S_nocolon (c x : Nat) (hc : upperC c = 83) (hx : x ≠ 58) (r : Name) :
    parseTag (c :: x :: r) = none := by
  have hS : parseS (c :: x :: r) = none := by
    unfold parseS
    split
    · rename_i t r1 heq
      injection heq with _ h2
      injection h2 with h3 _
      exact absurd h3 hx
    · rfl
  simp only [parseTag, parseCT_none c _ (by omega) (by omega), parseLFBN_none c _ (slx_isS_notLFBN hc),
    parseIO_none c _ (by omega) (by omega), hS, parseB_none c _ (by omega)]

/-! ### input / output files -/

theorem slx_isIO_notCT {c : Nat} (hc : IsIO c) : upperC c ≠ 67 ∧ upperC c ≠ 84 := by
  unfold IsIO at hc; omega

theorem slx_isIO_notLFBN {c : Nat} (hc : IsIO c) : ¬ IsLFBN c := by
  unfold IsIO at hc; unfold IsLFBN; omega

theorem slx_isIO_ne123 {c : Nat} (hc : IsIO c) : c ≠ 123 :=
  upperC_ne123 (by unfold IsIO at hc; omega)

theorem slx_parseTag_IO (c : Nat) (hc : IsIO c) (r : Name) (res : Option Addr)
    (h : parseIO (c :: r) = some res) : parseTag (c :: r) = res := by
  have := slx_isIO_notCT hc
  simp only [parseTag, parseCT_none c r this.1 this.2, parseLFBN_none c r (slx_isIO_notLFBN hc), h]

theorem slx_parseIO_core (c : Nat) (hc : IsIO c) (r0 de : Name) (s bit cnt : Option Nat) (r5 r6 : Name)
    (hr0 : (digits 3 r0 = none ∧ r0 = 58 :: (de ++ (posTok s ++ r5))) ∨
           ∃ fn, digits 3 r0 = some (fn, 58 :: (de ++ (posTok s ++ r5))))
    (hde : Dig 3 de) (hs : ∀ x, s = some x → x ≤ 999)
    (hr5 : r5.takeWhile isDigitC = []) (h46 : ∀ r, r5 ≠ 46 :: r)
    (hbit : optBit r5 = some (bit, r6)) (hcnt : countToken r6 = some cnt) :
    parseIO (c :: r0) =
      some (if decVal de ≤ 255 ∧ bit.getD 0 ≤ 15 then
        some { fileType := [upperC c], fileNumber := if upperC c = 79 then 0 else 1, element := decVal de,
               posNumber := s.getD 0, subElement := bit.getD 0, addressField := if bit.isSome then 3 else 2,
               count := cnt.getD 1, tag := stripCount (c :: r0) }
      else none) := by
  have h2 : digits 3 (de ++ (posTok s ++ r5)) = some (de, posTok s ++ r5) :=
    digits_dig hde (slx_tw_posTok s r5 hr5)
  unfold IsIO at hc
  have h3 : ∀ x, s = some x → digits 3 (dec x ++ r5) = some (dec x, r5) := fun x hx =>
    digits_dig (dig_dec 2 x (by have := hs x hx; omega)) hr5
  rcases hr0 with ⟨hd, rfl⟩ | ⟨fn, hd⟩
  · simp only [parseIO, hc, if_true, hd, h2]
    cases s with
    | none =>
      simp only [posTok, List.nil_append]
      -- (the side condition of the default branch, `r5 ≠ 46 :: _`, is discharged from `h46`)
      simp only [hbit, hcnt, Option.getD_none]
    | some x =>
      simp only [posTok, List.cons_append, h3 x rfl, dec_val, hbit, hcnt, Option.getD_some]
  · simp only [parseIO, hc, if_true, hd, h2]
    cases s with
    | none =>
      simp only [posTok, List.nil_append]
      -- (the side condition of the default branch, `r5 ≠ 46 :: _`, is discharged from `h46`)
      simp only [hbit, hcnt, Option.getD_none]
    | some x =>
      simp only [posTok, List.cons_append, h3 x rfl, dec_val, hbit, hcnt, Option.getD_some]

/-- `[IO](nnn)?:e` followed by the optional position, bit and count tokens -/
theorem slx_parseIO_shape (c : Nat) (hc : IsIO c) (df de : Name) (s bit cnt : Option Nat) (r5 r6 : Name)
    (hdf : OptDig3 df) (hde : Dig 3 de) (hs : ∀ x, s = some x → x ≤ 999)
    (hr5 : r5.takeWhile isDigitC = []) (h46 : ∀ r, r5 ≠ 46 :: r)
    (hbit : optBit r5 = some (bit, r6)) (hcnt : countToken r6 = some cnt) :
    parseIO (c :: (df ++ 58 :: (de ++ (posTok s ++ r5)))) =
      some (if decVal de ≤ 255 ∧ bit.getD 0 ≤ 15 then
        some { fileType := [upperC c], fileNumber := if upperC c = 79 then 0 else 1, element := decVal de,
               posNumber := s.getD 0, subElement := bit.getD 0, addressField := if bit.isSome then 3 else 2,
               count := cnt.getD 1, tag := stripCount (c :: (df ++ 58 :: (de ++ (posTok s ++ r5)))) }
      else none) := by
  apply slx_parseIO_core c hc _ de s bit cnt r5 r6 _ hde hs hr5 h46 hbit hcnt
  rcases hdf with rfl | hdf
  · left; simp [digits, isDigitC]
  · right; exact ⟨df, digits_dig hdf (by simp [isDigitC])⟩

theorem slx_bitcnt_no46 (b n : Option Nat) : ∀ r, bitTok b ++ cntTok n ≠ 46 :: r := by
  intro r h
  cases b <;> cases n <;> simp [bitTok, cntTok] at h

/-! ### timers / counters -/

theorem slx_isCT_notLFBN {c : Nat} (hc : IsCT c) : ¬ IsLFBN c := by
  unfold IsCT at hc; unfold IsLFBN; omega

/-- a rejection by the timer/counter pattern is final: no other pattern starts with `C` or `T` -/
theorem slx_parseTag_CT (c : Nat) (hc : IsCT c) (r : Name) : parseTag (c :: r) = parseCT (c :: r) := by
  unfold IsCT at hc
  cases h : parseCT (c :: r) with
  | some a => simp only [parseTag, h]
  | none =>
    simp only [parseTag, h, parseLFBN_none c r (slx_isCT_notLFBN hc), parseIO_none c r (by omega) (by omega),
      parseS_none c r (by omega), parseB_none c r (by omega)]

theorem slx_ctNames : ctNames = [nm "ACC", nm "PRE", nm "EN", nm "DN", nm "TT", nm "CU", nm "CD", nm "OV", nm "UN", nm "UA"] := by
  decide

theorem slx_ctTable_eq : ctTable = Gen.pcccCT := by decide

/-- every name of the table is one the pattern accepts -/
theorem slx_ctTable_name {k : Name} {v : Nat} (h : (k, v) ∈ ctTable) :
    ctNames.contains k = true ∧ lookup k Gen.pcccCT = some v := by
  simp only [ctTable, List.mem_cons, Prod.mk.injEq, List.not_mem_nil, or_false] at h
  rcases h with ⟨rfl, rfl⟩ | ⟨rfl, rfl⟩ | ⟨rfl, rfl⟩ | ⟨rfl, rfl⟩ | ⟨rfl, rfl⟩ | ⟨rfl, rfl⟩ | ⟨rfl, rfl⟩ | ⟨rfl, rfl⟩ |
    ⟨rfl, rfl⟩ | ⟨rfl, rfl⟩ <;> decide

/-- the names the pattern accepts are non-empty words of capital letters -/
theorem slx_ctNames_letters {k : Name} (h : ctNames.contains k = true) : k ≠ [] ∧ ∀ x ∈ k, 65 ≤ x ∧ x ≤ 90 := by
  rw [slx_ctNames] at h
  simp only [List.contains_eq_mem, List.mem_cons, List.not_mem_nil, or_false, decide_eq_true_eq] at h
  rcases h with rfl | rfl | rfl | rfl | rfl | rfl | rfl | rfl | rfl | rfl <;> decide

/-- digit counts longer than the element number are skipped when the separator is no digit -/
theorem slx_ctTail_skip (d sub : Name) (sep k : Nat) (hd : d.length < k + 1) (hsep : isDigitC sep = false) :
    ctTail (d ++ sep :: sub) (k + 1) = ctTail (d ++ sep :: sub) k := by
  have hnd : ¬ (((d ++ sep :: sub).take (k + 1)).length = k + 1 ∧ ((d ++ sep :: sub).take (k + 1)).all isDigitC = true) := by
    intro ⟨_, h2⟩
    have hmem : sep ∈ (d ++ sep :: sub).take (k + 1) := by
      rw [List.take_append]
      apply List.mem_append_right
      have : k + 1 - d.length = (k - d.length) + 1 := by omega
      rw [this, List.take_succ_cons]
      exact List.mem_cons_self
    have := List.all_eq_true.mp h2 sep hmem
    rw [hsep] at this
    cases this
  rw [ctTail]
  simp only [hnd, if_false]

/-- the digit count of the element number matches -/
theorem slx_ctTail_hit (d sub : Name) (sep k v : Nat) (hd : d.length = k + 1) (hdig : ∀ c ∈ d, isDigitC c = true)
    (hn : ctNames.contains (sub.map upperC) = true) (hv : lookup (sub.map upperC) Gen.pcccCT = some v) :
    ctTail (d ++ sep :: sub) (k + 1) = some (decVal d, v) := by
  have ht : (d ++ sep :: sub).take (k + 1) = d := by rw [← hd]; exact List.take_left
  have hdr : (d ++ sep :: sub).drop (k + 1) = sep :: sub := by rw [← hd]; exact List.drop_left
  have hall : d.all isDigitC = true := List.all_eq_true.mpr hdig
  rw [ctTail]
  simp only [ht, hdr, hd, hall, and_self, if_true, hn, hv]

theorem slx_ctTail_dig (d sub : Name) (sep v : Nat) (hd : Dig 3 d) (hsep : isDigitC sep = false)
    (hn : ctNames.contains (sub.map upperC) = true) (hv : lookup (sub.map upperC) Gen.pcccCT = some v) :
    ctTail (d ++ sep :: sub) 3 = some (decVal d, v) := by
  have hl := hd.len
  have hne : d.length ≠ 0 := by
    intro h; exact hd.ne (List.length_eq_zero_iff.mp h)
  have h123 : d.length = 1 ∨ d.length = 2 ∨ d.length = 3 := by omega
  rcases h123 with h | h | h
  · rw [slx_ctTail_skip d sub sep 2 (by omega) hsep, slx_ctTail_skip d sub sep 1 (by omega) hsep,
      slx_ctTail_hit d sub sep 0 v h hd.dig hn hv]
  · rw [slx_ctTail_skip d sub sep 2 (by omega) hsep, slx_ctTail_hit d sub sep 1 v h hd.dig hn hv]
  · rw [slx_ctTail_hit d sub sep 2 v h hd.dig hn hv]

/-- no digit count leads to a sub-element name -/
theorem slx_ctTail_none (r1 : Name) : ∀ k,
    (∀ j, 1 ≤ j → j ≤ k → (r1.take j).length = j → (r1.take j).all isDigitC = true →
      ∀ sep sub, r1.drop j = sep :: sub → ctNames.contains (sub.map upperC) = false) →
    ctTail r1 k = none := by
  intro k
  induction k with
  | zero => intro _; rfl
  | succ k ih =>
    intro h
    have ih' := ih (fun j h1 h2 => h j h1 (by omega))
    rw [ctTail]
    split
    · rename_i hg
      split
      · rename_i sep sub heq
        have := h (k + 1) (by omega) (by omega) hg.1 hg.2 sep sub heq
        simp only [this, ih']
        rfl
      · exact ih'
    · exact ih'

theorem slx_upperC_digit {x : Nat} (h : isDigitC x = true) : upperC x = x := by
  simp [isDigitC] at h
  simp [upperC]; omega

/-- `digits . sub` with an unknown sub-element name: no digit count matches -/
theorem slx_ctTail_dot_none (d sub : Name)
    (hsub : ctNames.contains (sub.map upperC) = false) (k : Nat) : ctTail (d ++ 46 :: sub) k = none := by
  apply slx_ctTail_none
  intro j _ _ _ hall sep' sub' hdrop
  rcases Nat.lt_trichotomy j d.length with h | h | h
  · rw [List.drop_append_of_le_length (Nat.le_of_lt h)] at hdrop
    cases hdj : d.drop j with
    | nil =>
      have := congrArg List.length hdj
      simp only [List.length_drop, List.length_nil] at this
      omega
    | cons y t =>
      rw [hdj, List.cons_append] at hdrop
      injection hdrop with _ h2
      subst h2
      cases hcon : ctNames.contains ((t ++ 46 :: sub).map upperC) with
      | false => rfl
      | true =>
        have := (slx_ctNames_letters hcon).2 46 (by simp [upperC])
        omega
  · subst h
    rw [List.drop_left] at hdrop
    injection hdrop with _ h2
    subst h2
    exact hsub
  · have hmem : 46 ∈ (d ++ 46 :: sub).take j := by
      rw [List.take_append]
      apply List.mem_append_right
      have : j - d.length = (j - d.length - 1) + 1 := by omega
      rw [this, List.take_succ_cons]
      exact List.mem_cons_self
    have := List.all_eq_true.mp hall 46 hmem
    simp [isDigitC] at this

/-- digits alone (no separator, no sub-element name): no digit count matches -/
theorem slx_ctTail_digits_none (d : Name) (hd : ∀ c ∈ d, isDigitC c = true) (k : Nat) : ctTail d k = none := by
  apply slx_ctTail_none
  intro j _ _ _ _ sep' sub' hdrop
  cases hcon : ctNames.contains (sub'.map upperC) with
  | false => rfl
  | true =>
    have hl := slx_ctNames_letters hcon
    cases sub' with
    | nil => exact absurd rfl hl.1
    | cons y t =>
      have hy : y ∈ d := by
        have : y ∈ d.drop j := by rw [hdrop]; simp
        exact List.mem_of_mem_drop this
      have hdy := hd y hy
      have := hl.2 (upperC y) (by simp)
      rw [slx_upperC_digit hdy] at this
      simp [isDigitC] at hdy
      omega

theorem slx_parseCT_some (c : Nat) (hc : IsCT c) (df r1 : Name) (el v : Nat) (hdf : Dig 3 df)
    (ht : ctTail r1 3 = some (el, v)) :
    parseCT (c :: (df ++ 58 :: r1)) =
      if 1 ≤ decVal df ∧ decVal df ≤ 255 ∧ el ≤ 255 then
        some { fileType := [upperC c], fileNumber := decVal df, element := el, subElement := v,
               addressField := 3, count := 1, tag := c :: (df ++ 58 :: r1) }
      else none := by
  have h1 : digits 3 (df ++ 58 :: r1) = some (df, 58 :: r1) := digits_dig hdf (by simp [isDigitC])
  unfold IsCT at hc
  simp only [parseCT, hc, if_true, h1, ht]

theorem slx_parseCT_fail (c : Nat) (df r1 : Name) (hdf : Dig 3 df) (ht : ctTail r1 3 = none) :
    parseCT (c :: (df ++ 58 :: r1)) = none := by
  have h1 : digits 3 (df ++ 58 :: r1) = some (df, 58 :: r1) := digits_dig hdf (by simp [isDigitC])
  simp only [parseCT, h1, ht]
  split <;> rfl

/-! ### every accepted address is in range -/

/-- what every accepted address satisfies -/
structure InRange (a : Addr) : Prop where
  file : a.fileNumber ≤ 255
  elem : a.element ≤ 255
  sub : a.subElement ≤ 15
  field : a.addressField = 2 ∨ a.addressField = 3
  ftype : a.fileType ∈ [[78], [66], [70], [76], [83], [73], [79], [84], [67]]
  pos : a.fileType ≠ [73] → a.fileType ≠ [79] → a.posNumber = 0
  ct : a.fileType = [84] ∨ a.fileType = [67] → a.addressField = 3 ∧ a.count = 1 ∧
    a.subElement ∈ [1, 2, 10, 11, 12, 13, 14, 15]

theorem slx_lookup_mem {k : Name} {v : Nat} : ∀ {T : List (Name × Nat)}, lookup k T = some v → (k, v) ∈ T
  | [], h => by cases h
  | (k', v') :: T, h => by
      unfold lookup at h
      split at h
      · rename_i hk; injection h with h; subst hk; subst h; exact List.mem_cons_self
      · exact List.mem_cons_of_mem _ (slx_lookup_mem h)

theorem slx_ct_vals {k : Name} {v : Nat} (h : lookup k Gen.pcccCT = some v) : v ∈ [1, 2, 10, 11, 12, 13, 14, 15] := by
  have hall : ∀ p ∈ Gen.pcccCT, p.2 ∈ [1, 2, 10, 11, 12, 13, 14, 15] := by decide
  exact hall _ (slx_lookup_mem h)

theorem slx_ctTail_vals (r1 : Name) : ∀ k el v, ctTail r1 k = some (el, v) → v ∈ [1, 2, 10, 11, 12, 13, 14, 15] := by
  intro k
  induction k with
  | zero => intro el v h; cases h
  | succ k ih =>
    intro el v h
    rw [ctTail] at h
    split at h
    · split at h
      · split at h
        · split at h
          · rename_i hl; injection h with h; injection h with _ h; subst h; exact slx_ct_vals hl
          · exact ih _ _ h
        · exact ih _ _ h
      · exact ih _ _ h
    · exact ih _ _ h

theorem slx_parseCT_range (t : Name) (a : Addr) (h : parseCT t = some a) : InRange a := by
  unfold parseCT at h
  split at h
  · split at h
    · rename_i hc
      split at h
      · split at h
        · rename_i hct
          split at h
          · rename_i hr
            injection h with h; subst h
            have hv := slx_ctTail_vals _ _ _ _ hct
            refine ⟨hr.2.1, hr.2.2, ?_, Or.inr rfl, ?_, fun _ _ => rfl, fun _ => ⟨rfl, rfl, hv⟩⟩
            · simp only [List.mem_cons, List.not_mem_nil, or_false] at hv; simp only; omega
            · simp only; rcases hc with h | h <;> simp [h]
          · cases h
        · cases h
      · cases h
    · cases h
  · cases h

theorem slx_parseLFBN_range (t : Name) (a : Addr) (h : parseLFBN t = some (some a)) : InRange a := by
  unfold parseLFBN at h
  split at h
  · split at h
    · rename_i hc
      split at h
      · split at h
        · split at h
          · split at h
            · simp only at h
              injection h with h
              split at h
              · rename_i hr
                injection h with h; subst h
                refine ⟨hr.2.1, hr.2.2.1, hr.2.2.2, ?_, ?_, fun _ _ => rfl, ?_⟩
                · simp only; split <;> simp
                · simp only; rcases hc with h | h | h | h <;> simp [h]
                · simp only; intro h'; rcases hc with h | h | h | h <;> simp [h] at h'
              · cases h
            · cases h
          · cases h
        · cases h
      · cases h
    · cases h
  · cases h

theorem slx_parseIO_range (t : Name) (a : Addr) (h : parseIO t = some (some a)) : InRange a := by
  unfold parseIO at h
  split at h
  · split at h
    · rename_i hc
      simp only at h
      split at h
      · split at h
        · split at h
          · split at h
            · split at h
              · injection h with h
                split at h
                · rename_i hr
                  injection h with h; subst h
                  refine ⟨?_, hr.1, hr.2, ?_, ?_, ?_, ?_⟩
                  · simp only; split <;> omega
                  · simp only; split <;> simp
                  · simp only; rcases hc with h | h <;> simp [h]
                  · simp only; intro h1 h2; rcases hc with h | h <;> simp [h] at h1 h2
                  · simp only; intro h'; rcases hc with h | h <;> simp [h] at h'
                · cases h
              · cases h
            · cases h
          · cases h
        · cases h
      · cases h
    · cases h
  · cases h

theorem slx_parseS_range (t : Name) (a : Addr) (h : parseS t = some (some a)) : InRange a := by
  unfold parseS at h
  split at h
  · split at h
    · split at h
      · split at h
        · split at h
          · simp only at h
            injection h with h
            split at h
            · rename_i hr
              injection h with h; subst h
              refine ⟨by simp, hr.1, hr.2, ?_, by simp, fun _ _ => rfl, ?_⟩
              · simp only; split <;> simp
              · simp
            · cases h
          · cases h
        · cases h
      · cases h
    · cases h
  · cases h

theorem slx_parseB_range (t : Name) (a : Addr) (h : parseB t = some a) : InRange a := by
  unfold parseB at h
  split at h
  · split at h
    · split at h
      · split at h
        · split at h
          · split at h
            · rename_i hr
              injection h with h; subst h
              refine ⟨hr.2.1, ?_, ?_, Or.inr rfl, by simp, fun _ _ => rfl, by simp⟩
              · simp only; omega
              · simp only; omega
            · cases h
          · cases h
        · cases h
      · cases h
    · cases h
  · cases h

theorem slx_parseTag_range (t : Name) (a : Addr) (h : parseTag t = some a) : InRange a := by
  unfold parseTag at h
  split at h
  · rename_i a' h1; injection h with h; subst h; exact slx_parseCT_range t _ h1
  · split at h
    · rename_i r h2; subst h; exact slx_parseLFBN_range t a h2
    · split at h
      · rename_i r h3; subst h; exact slx_parseIO_range t a h3
      · split at h
        · rename_i r h4; subst h; exact slx_parseS_range t a h4
        · exact slx_parseB_range t a h

/-! ### address fields -/

theorem slx_packUsint (n : Nat) (h : n ≤ 255) : packInt .usint (.int n) = .ok [UInt8.ofNat n] := by
  have := WF.packInt_len .usint n rfl (by simp [IntK.hi, IntK.signed, IntK.size]; omega)
  rw [this]
  simp [IntK.size, leBytes, Nat.mod_eq_of_lt (show n < 256 by omega)]

theorem slx_packUsint_err (n : Nat) (h : 256 ≤ n) : packInt .usint (.int n) = .error .data := by
  simp [packInt, PyVal.asIndex, IntK.lo, IntK.hi, IntK.signed, IntK.size]
  omega

theorem slx_typeCode_le (ft : Name) : typeCode ft ≤ 255 := by
  unfold typeCode
  cases h : lookup ft Gen.pcccDataType with
  | none => simp
  | some v =>
    have hall : ∀ p ∈ Gen.pcccDataType, p.2 ≤ 255 := by decide
    exact hall _ (slx_lookup_mem h)

/-- one address field on the wire: a single byte below 255, else 0xFF and the 16-bit value, low byte first -/
def fieldBytes (n : Nat) : Bytes :=
  if n < 255 then [UInt8.ofNat n] else [0xFF, UInt8.ofNat (n % 256), UInt8.ofNat (n / 256)]

theorem slx_packUint (n : Nat) (h : n < 65536) :
    packInt .uint (.int n) = .ok [UInt8.ofNat (n % 256), UInt8.ofNat (n / 256)] := by
  have h65 : IntK.hi .uint = 65535 := by decide
  have := WF.packInt_len .uint n rfl (by rw [h65]; omega)
  rw [this]
  have : n / 256 % 256 = n / 256 := Nat.mod_eq_of_lt (by omega)
  simp [IntK.size, leBytes, this]

theorem slx_packUint_err (n : Nat) (h : 65536 ≤ n) : packInt .uint (.int n) = .error .data := by
  simp [packInt, PyVal.asIndex, IntK.lo, IntK.hi, IntK.signed, IntK.size]
  omega

theorem slx_packField (n : Nat) (h : n < 65536) : packField n = .ok (fieldBytes n) := by
  unfold packField fieldBytes
  split
  · exact slx_packUsint n (by omega)
  · rw [slx_packUint n h]; rfl

theorem slx_packField_err (n : Nat) (h : 65536 ≤ n) : packField n = .error .data := by
  unfold packField
  rw [if_neg (by omega), slx_packUint_err n h]; rfl

theorem slx_readField (n : Nat) (h : n < 65536) (rest : Bytes) : readField (fieldBytes n ++ rest) = some (n, rest) := by
  unfold fieldBytes
  split
  · rename_i hn
    have : (UInt8.ofNat n).toNat = n := by rw [UInt8.toNat_ofNat']; omega
    simp only [List.cons_append, List.nil_append, readField, this]
    rw [if_neg (by omega)]
  · have h1 : (UInt8.ofNat (n % 256)).toNat = n % 256 := by rw [UInt8.toNat_ofNat']; omega
    have h2 : (UInt8.ofNat (n / 256)).toNat = n / 256 := by rw [UInt8.toNat_ofNat']; omega
    have h3 : (0xFF : UInt8).toNat = 255 := by decide
    simp only [List.cons_append, List.nil_append, readField, h3, if_true, h1, h2]
    congr 2; omega

theorem slx_decodeAddress (size fn tc el p : Nat) (rest : Bytes) (hs : size ≤ 255) (ht : tc ≤ 255)
    (hf : fn < 65536) (he : el < 65536) (hp : p < 65536) :
    decodeAddress ([UInt8.ofNat size] ++ fieldBytes fn ++ [UInt8.ofNat tc] ++ fieldBytes el ++ fieldBytes p ++ rest)
      = some (size, fn, tc, el, p, rest) := by
  have e : [UInt8.ofNat size] ++ fieldBytes fn ++ [UInt8.ofNat tc] ++ fieldBytes el ++ fieldBytes p ++ rest
      = UInt8.ofNat size :: (fieldBytes fn ++ (UInt8.ofNat tc :: (fieldBytes el ++ (fieldBytes p ++ rest)))) := by simp
  have h1 : (UInt8.ofNat size).toNat = size := by rw [UInt8.toNat_ofNat']; omega
  have h2 : (UInt8.ofNat tc).toNat = tc := by rw [UInt8.toNat_ofNat']; omega
  rw [e]
  simp only [decodeAddress, slx_readField fn hf, slx_readField el he, slx_readField p hp, h1, h2]

theorem slx_addressFields (a : Addr) (size : Nat) (hs : size ≤ 255) (hf : a.fileNumber < 65536)
    (he : a.element < 65536) (hp : a.posNumber < 65536) :
    addressFields a size = .ok ([UInt8.ofNat size] ++ fieldBytes a.fileNumber ++ [UInt8.ofNat (typeCode a.fileType)] ++
      fieldBytes a.element ++ fieldBytes a.posNumber) := by
  simp only [addressFields, slx_packUsint _ hs, slx_packField _ hf, slx_packField _ he, slx_packField _ hp, bind,
    Except.bind]

/-- the sub-element byte of a write request: PRE / ACC of a timer or counter, else the I/O position -/
theorem slx_writeSub (a : Addr) :
    writeSub a = if (a.fileType = [84] ∨ a.fileType = [67]) ∧ (a.subElement = 1 ∨ a.subElement = 2)
      then a.subElement else a.posNumber := by
  have h1 : (lookup (nm "PRE") Gen.pcccCT).getD 1 = 1 := by decide
  have h2 : (lookup (nm "ACC") Gen.pcccCT).getD 2 = 2 := by decide
  have h3 : nm "T" = [84] := by decide
  have h4 : nm "C" = [67] := by decide
  simp only [writeSub, h1, h2, h3, h4]

theorem slx_writeSub_sub (a : Addr) (hft : a.fileType = [84] ∨ a.fileType = [67])
    (hsub : a.subElement = 1 ∨ a.subElement = 2) : writeSub a = a.subElement := by
  rw [slx_writeSub, if_pos ⟨hft, hsub⟩]

theorem slx_writeSub_pos (a : Addr)
    (h : ¬ ((a.fileType = [84] ∨ a.fileType = [67]) ∧ (a.subElement = 1 ∨ a.subElement = 2))) :
    writeSub a = a.posNumber := by
  rw [slx_writeSub, if_neg h]

theorem slx_writeAddressFields (a : Addr) (size : Nat) (hs : size ≤ 255) (hf : a.fileNumber < 65536)
    (he : a.element < 65536) (hw : writeSub a < 65536) :
    writeAddressFields a size = .ok ([UInt8.ofNat size] ++ fieldBytes a.fileNumber ++
      [UInt8.ofNat (typeCode a.fileType)] ++ fieldBytes a.element ++ fieldBytes (writeSub a)) :=
  slx_addressFields { a with posNumber := writeSub a } size hs hf he hw

/-! ### the reference target serving the requests of an address -/

/-- the target serves a typed-read request (the bytes after the function code): it resolves the address fields with
    the model's `decodeAddress` - literally what `pcccService` of the reference target does for function 0xA2 -/
def targetRead (tbl : Table) (req : Bytes) : Except Nat Bytes :=
  match decodeAddress req with
  | none => .error 0x10
  | some (size, fnum, ftype, elem, sub, rest) =>
      if rest ≠ [] then .error 0x10 else typedRead tbl size fnum ftype elem sub

/-- the data the reference target returns for the read request of address `a`
    (size byte = element size × count, as the driver builds it; error 0 = no request could be built) -/
def readAddr (tbl : Table) (a : Addr) : Except Nat Bytes :=
  match addressFields a (dataSize a.fileType * a.count) with
  | .ok fields => targetRead tbl fields
  | .error _ => .error 0

/-- the target applies a masked-write request (the bytes after the function code: address fields, mask (2 bytes),
    data) - literally what `pcccService` of the reference target does for function 0xAB -/
def targetWrite (tbl : Table) (req : Bytes) : Except Nat Table :=
  match decodeAddress req with
  | none => .error 0x10
  | some (size, fnum, ftype, elem, sub, rest) =>
      if rest.length < 2 then .error 0x10
      else maskedWrite tbl size fnum ftype elem sub (leVal (rest.take 2)) (rest.drop 2)

/-- the data table after the write request of value `v` to address `a`
    (`writeAddressFields` with size byte = announced data size × count, then `writeableValue`'s mask ++ data, as the
    driver builds it) -/
def writeAddr (tbl : Table) (a : Addr) (v : PyVal) : Except Nat Table :=
  match writeableValue a v with
  | .ok (val, sz) =>
      match writeAddressFields a (sz * a.count) with
      | .ok fields => targetWrite tbl (fields ++ val)
      | .error _ => .error 0
  | .error _ => .error 0

theorem slx_targetRead (tbl : Table) (size fn tc el p : Nat) (hs : size ≤ 255) (ht : tc ≤ 255)
    (hf : fn < 65536) (he : el < 65536) (hp : p < 65536) :
    targetRead tbl ([UInt8.ofNat size] ++ fieldBytes fn ++ [UInt8.ofNat tc] ++ fieldBytes el ++ fieldBytes p)
      = typedRead tbl size fn tc el p := by
  have := slx_decodeAddress size fn tc el p [] hs ht hf he hp
  rw [List.append_nil] at this
  simp only [targetRead, this, ne_eq, not_true_eq_false, if_false]

theorem slx_targetWrite (tbl : Table) (size fn tc el p : Nat) (val : Bytes) (hs : size ≤ 255) (ht : tc ≤ 255)
    (hf : fn < 65536) (he : el < 65536) (hp : p < 65536) (hv : 2 ≤ val.length) :
    targetWrite tbl ([UInt8.ofNat size] ++ fieldBytes fn ++ [UInt8.ofNat tc] ++ fieldBytes el ++ fieldBytes p ++ val)
      = maskedWrite tbl size fn tc el p (leVal (val.take 2)) (val.drop 2) := by
  simp only [targetWrite, slx_decodeAddress size fn tc el p val hs ht hf he hp]
  rw [if_neg (by omega)]

/-- two's complement reading of a 16-bit word -/
def int16 (w : Nat) : Int := if w < 32768 then (w : Int) else (w : Int) - 65536

/-- the little-endian 16-bit words of a byte string -/
def words : Bytes → List Nat
  | b0 :: b1 :: rest => (b0.toNat + 256 * b1.toNat) :: words rest
  | _ => []

/-- the files whose elements are single 16-bit integers: N, B, S, O, I -/
def wordFiles : List Name := [[78], [66], [83], [79], [73]]

theorem slx_toNat_ofNat {n : Nat} (h : n ≤ 255) : (UInt8.ofNat n).toNat = n := by
  rw [UInt8.toNat_ofNat']; omega

theorem slx_readAddr_eq (tbl : Table) (a : Addr) (hs : dataSize a.fileType * a.count ≤ 255) (hf : a.fileNumber ≤ 255)
    (he : a.element ≤ 255) (hp : a.posNumber < 65536) :
    readAddr tbl a = typedRead tbl (dataSize a.fileType * a.count) a.fileNumber (typeCode a.fileType) a.element
      a.posNumber := by
  simp only [readAddr, slx_addressFields a _ hs (by omega) (by omega) hp]
  exact slx_targetRead tbl _ _ _ _ _ hs (slx_typeCode_le a.fileType) (by omega) (by omega) hp

theorem slx_typedRead_ok (tbl : Table) (f : SlcFile) (size fnum ftype elem sub : Nat)
    (hfind : tbl.find? (fun g => g.num == fnum) = some f) (hty : f.ftype = ftype) (hsz : 0 < size)
    (hin : byteOffset ftype elem sub + size ≤ f.data.length) :
    typedRead tbl size fnum ftype elem sub = .ok ((f.data.drop (byteOffset ftype elem sub)).take size) := by
  unfold typedRead
  simp only [hfind, hty, ne_eq, not_true_eq_false, if_false]
  rw [if_neg (by omega), if_neg (by omega)]

/-! ### decoding the reply -/

theorem slx_dec16 (b0 b1 : UInt8) (rest : Bytes) :
    decode (.int .int) (b0 :: b1 :: rest) = .ok (.int (int16 (b0.toNat + 256 * b1.toNat)), rest) := by
  have h := decode_int_wire .int [b0, b1] rest rfl
  have hl : leVal [b0, b1] = b0.toNat + 256 * b1.toNat := by simp [leVal]
  simp only [List.cons_append, List.nil_append, hl, IntK.signed, IntK.size, true_and] at h
  rw [h]
  have h0 := b0.toNat_lt
  have h1 := b1.toNat_lt
  unfold int16
  congr 2
  split <;> split <;> first | rfl | omega

theorem slx_words_length : ∀ (n : Nat) (bs : Bytes), bs.length = 2 * n → (words bs).length = n
  | 0, bs, h => by
      have : bs = [] := List.length_eq_zero_iff.mp (by omega)
      subst this; rfl
  | n + 1, b0 :: b1 :: rest, h => by
      simp only [List.length_cons] at h
      simp only [words, List.length_cons, slx_words_length n rest (by omega)]
  | n + 1, [], h => by simp at h
  | n + 1, [_], h => by simp at h; omega

/-- the element loop of `_parse_read_reply` over a string of 16-bit integers -/
theorem slx_go_words (dec : Bytes → Except Exn PyVal)
    (hdec : ∀ b0 b1, dec [b0, b1] = .ok (.int (int16 (b0.toNat + 256 * b1.toNat)))) :
    ∀ (n : Nat) (bs : Bytes) (fuel : Nat), bs.length = 2 * n → n < fuel →
      parseReadReply.go 2 dec fuel bs = .ok ((words bs).map (fun w => PyVal.int (int16 w)))
  | 0, bs, fuel, h, hf => by
      have : bs = [] := List.length_eq_zero_iff.mp (by omega)
      subst this
      cases fuel with
      | zero => omega
      | succ fuel => simp [parseReadReply.go, words]
  | n + 1, b0 :: b1 :: rest, fuel, h, hf => by
      simp only [List.length_cons] at h
      cases fuel with
      | zero => omega
      | succ fuel =>
        have ih := slx_go_words dec hdec n rest fuel (by omega) (by omega)
        simp [parseReadReply.go, hdec, ih, words, Except.map]
  | n + 1, [], _, h, _ => by simp at h
  | n + 1, [_], _, h, _ => by simp at h; omega



theorem slx_intBit16 (w b : Nat) (hw : w < 65536) (hb : b ≤ 15) : intBit (int16 w) b = w.testBit b := by
  unfold intBit int16
  rw [Nat.testBit_eq_decide_div_mod_eq]
  have hcases : b = 0 ∨ b = 1 ∨ b = 2 ∨ b = 3 ∨ b = 4 ∨ b = 5 ∨ b = 6 ∨ b = 7 ∨ b = 8 ∨ b = 9 ∨ b = 10 ∨ b = 11 ∨
      b = 12 ∨ b = 13 ∨ b = 14 ∨ b = 15 := by omega
  split
  · have : ((w : Int) % ((2 ^ 64 : Nat) : Int)).toNat = w := by omega
    rw [this]
  · have : (((w : Int) - 65536) % ((2 ^ 64 : Nat) : Int)).toNat = 2 ^ 64 - 65536 + w := by omega
    rw [this]
    rcases hcases with rfl | rfl | rfl | rfl | rfl | rfl | rfl | rfl | rfl | rfl | rfl | rfl | rfl | rfl | rfl | rfl <;>
      (congr 1; apply propext; omega)

theorem slx_reply_word (a : Addr) (hty : elemTy a.fileType = some (.int .int)) (hsz : dataSize a.fileType = 2)
    (haf : a.addressField = 2) (b0 b1 : UInt8) :
    parseReadReply a [b0, b1] = .ok (.int (int16 (b0.toNat + 256 * b1.toNat))) := by
  have hdec : ∀ c0 c1 : UInt8, (match decode (.int .int) [c0, c1] with
      | .ok (v, _) => (Except.ok v : Except Exn PyVal) | .error _ => .error .response)
      = .ok (.int (int16 (c0.toNat + 256 * c1.toNat))) := by
    intro c0 c1; rw [slx_dec16]
  unfold parseReadReply
  simp only [hty, hsz, haf]
  rw [if_neg (by decide), if_neg (by decide)]
  rw [slx_go_words _ hdec 1 [b0, b1] _ rfl (by simp)]
  rfl


theorem slx_hdec16 : ∀ c0 c1 : UInt8, (match decode (.int .int) [c0, c1] with
      | .ok (v, _) => (Except.ok v : Except Exn PyVal) | .error _ => .error .response)
      = .ok (.int (int16 (c0.toNat + 256 * c1.toNat))) := by
  intro c0 c1; rw [slx_dec16]

theorem slx_reply_words (a : Addr) (hty : elemTy a.fileType = some (.int .int)) (hsz : dataSize a.fileType = 2)
    (haf : a.addressField = 2) (n : Nat) (data : Bytes) (hlen : data.length = 2 * n) (hn : 2 ≤ n) :
    parseReadReply a data = .ok (.list ((words data).map (fun w => PyVal.int (int16 w)))) := by
  unfold parseReadReply
  simp only [hty, hsz, haf]
  rw [if_neg (by decide), if_neg (by decide)]
  rw [slx_go_words _ slx_hdec16 n data _ hlen (by omega)]
  have hl := slx_words_length n data hlen
  match hw : words data, hl with
  | w0 :: w1 :: ws, _ => rfl
  | [], hl => simp at hl; omega
  | [_], hl => simp at hl; omega

theorem slx_reply_bit (a : Addr) (hty : elemTy a.fileType = some (.int .int))
    (haf : a.addressField = 3) (hct : a.fileType ≠ [84] ∧ a.fileType ≠ [67]) (hsz : dataSize a.fileType = 2)
    (b0 b1 : UInt8) (rest : Bytes) :
    parseReadReply a (b0 :: b1 :: rest) = .ok (.bool (intBit (int16 (b0.toNat + 256 * b1.toNat)) a.subElement)) := by
  have h70 : a.fileType ≠ [70] := by
    intro h
    have hr : elemTy [70] = some .real := rfl
    rw [h, hr] at hty
    cases hty
  unfold parseReadReply
  simp only [hty, hsz, haf, hct.1, hct.2, h70, or_self, false_and, if_false, if_true, List.take_succ_cons, List.take_zero,
    slx_dec16]

theorem slx_reply_ct (a : Addr) (hft : a.fileType = [84] ∨ a.fileType = [67]) (haf : a.addressField = 3)
    (b0 b1 b2 b3 b4 b5 : UInt8) :
    parseReadReply a [b0, b1, b2, b3, b4, b5] =
      .ok (if a.subElement = 1 then .int (int16 (b2.toNat + 256 * b3.toNat))
           else if a.subElement = 2 then .int (int16 (b4.toNat + 256 * b5.toNat))
           else .bool (intBit (int16 (b0.toNat + 256 * b1.toNat)) a.subElement)) := by
  have hty : elemTy a.fileType = some (.int .int) := by rcases hft with h | h <;> rw [h] <;> rfl
  have hsz : dataSize a.fileType = 6 := by rcases hft with h | h <;> rw [h] <;> decide
  have h70 : a.fileType ≠ [70] := by rcases hft with h | h <;> rw [h] <;> decide
  unfold parseReadReply
  simp only [hty, hsz, haf, hft, true_and, if_true]
  by_cases h1 : a.subElement = 1
  · simp [h1, slx_dec16]
  · by_cases h2 : a.subElement = 2
    · simp [h2, slx_dec16]
    · simp [h1, h2, h70, slx_dec16]


theorem slx_take_drop_cons (d : Bytes) (off k : Nat) (h : off < d.length) :
    (d.drop off).take (k + 1) = d.getD off 0 :: (d.drop (off + 1)).take k := by
  rw [List.drop_eq_getElem_cons h, List.take_succ_cons]
  congr 1
  simp [List.getD, List.getElem?_eq_getElem h]

theorem slx_take2_drop (d : Bytes) (off : Nat) (h : off + 2 ≤ d.length) :
    (d.drop off).take 2 = [d.getD off 0, d.getD (off + 1) 0] := by
  rw [slx_take_drop_cons d off 1 (by omega), slx_take_drop_cons d (off + 1) 0 (by omega)]
  simp

theorem slx_wordAt_lt (d : Bytes) (off : Nat) : wordAt d off < 65536 := by
  unfold wordAt
  have h0 := (d.getD off 0).toNat_lt
  have h1 := (d.getD (off + 1) 0).toNat_lt
  omega

/-- the words of a slice of the file are the words at the successive offsets -/
theorem slx_words_slice (d : Bytes) : ∀ (n off : Nat), off + 2 * n ≤ d.length →
    words ((d.drop off).take (2 * n)) = (List.range n).map (fun i => wordAt d (off + 2 * i))
  | 0, off, _ => by simp [words]
  | n + 1, off, h => by
      have e : 2 * (n + 1) = (2 * n + 1) + 1 := by omega
      rw [e, slx_take_drop_cons d off _ (by omega), slx_take_drop_cons d (off + 1) _ (by omega)]
      have ih := slx_words_slice d n (off + 2) (by omega)
      rw [show off + 1 + 1 = off + 2 by omega]
      simp only [words, ih, List.range_succ_eq_map, List.map_cons, List.map_map]
      congr 1
      apply List.map_congr_left
      intro i _
      simp only [Function.comp]
      congr 1; omega



/-- the new value of a masked word -/
def maskedWord (old dat mask : Nat) : Nat := (old &&& (65535 - mask)) ||| (dat &&& mask)

theorem slx_maskedWord_lt (old dat mask : Nat) (ho : old < 65536) (hd : dat < 65536) : maskedWord old dat mask < 65536 := by
  unfold maskedWord
  have e : (65536 : Nat) = 2 ^ 16 := by decide
  rw [e] at ho hd ⊢
  apply Nat.or_lt_two_pow
  · exact Nat.lt_of_le_of_lt Nat.and_le_left ho
  · exact Nat.lt_of_le_of_lt Nat.and_le_left hd

theorem slx_getD_splice0 (pre suf : Bytes) (n0 n1 : UInt8) :
    (pre ++ [n0, n1] ++ suf).getD pre.length 0 = n0 ∧ (pre ++ [n0, n1] ++ suf).getD (pre.length + 1) 0 = n1 := by
  simp [List.getD]

/-- a masked write of one word to an existing location: the new table, explicitly -/
theorem slx_maskedWrite_word (tbl : Table) (f : SlcFile) (fnum ftype elem sub mask : Nat) (d0 d1 : UInt8)
    (hfind : tbl.find? (fun g => g.num == fnum) = some f) (hty : f.ftype = ftype)
    (hin : byteOffset ftype elem sub + 2 ≤ f.data.length) :
    ∃ tbl' f', maskedWrite tbl 2 fnum ftype elem sub mask [d0, d1] = .ok tbl' ∧
      tbl'.find? (fun g => g.num == fnum) = some f' ∧ f'.ftype = ftype ∧ f'.data.length = f.data.length ∧
      wordAt f'.data (byteOffset ftype elem sub) =
        maskedWord (wordAt f.data (byteOffset ftype elem sub)) (d0.toNat + 256 * d1.toNat) mask ∧
      (∀ (i : Nat) (g0 : SlcFile), tbl[i]? = some g0 → g0.num = fnum → ∃ g, tbl'[i]? = some g ∧ g.data = f'.data) ∧
      ∀ j, (j < byteOffset ftype elem sub ∨ byteOffset ftype elem sub + 2 ≤ j) → f'.data[j]? = f.data[j]? := by
  generalize hoff : byteOffset ftype elem sub = off at hin ⊢
  have hfn : f.num = fnum := by
    have := List.find?_some hfind
    simpa using this
  have hn := slx_maskedWord_lt (wordAt f.data off) (d0.toNat + 256 * d1.toNat) mask (slx_wordAt_lt _ _)
    (by have := d0.toNat_lt; have := d1.toNat_lt; omega)
  generalize hnv : maskedWord (wordAt f.data off) (d0.toNat + 256 * d1.toNat) mask = n at hn ⊢
  have hlt : (List.take off f.data).length = off := by simp only [List.length_take]; omega
  refine ⟨tbl.map (fun g => if g.num == fnum then { g with data := f.data.take off ++ [UInt8.ofNat (n % 256), UInt8.ofNat (n / 256)] ++ f.data.drop (off + 2) } else g),
    { f with data := f.data.take off ++ [UInt8.ofNat (n % 256), UInt8.ofNat (n / 256)] ++ f.data.drop (off + 2) }, ?_, ?_, hty, ?_, ?_, ?_, ?_⟩
  · unfold maskedWrite
    simp only [hfind, hty, ne_eq, not_true_eq_false, if_false, hoff]
    rw [if_neg (by simp), if_neg (by omega)]
    simp only [slx_take2_drop f.data off hin, maskWords]
    have : (wordAt f.data off) = (f.data.getD off 0).toNat + 256 * (f.data.getD (off + 1) 0).toNat := rfl
    rw [← this]
    have hm : (wordAt f.data off &&& (65535 - mask) ||| (d0.toNat + 256 * d1.toNat) &&& mask) = n := by
      rw [← hnv]; rfl
    rw [hm]
  · rw [find_map_num tbl fnum _ (by intro g; split <;> rfl), hfind]
    simp [hfn]
  · simp only [List.length_append, hlt, List.length_drop, List.length_cons, List.length_nil]; omega
  · have := slx_getD_splice0 (f.data.take off) (f.data.drop (off + 2)) (UInt8.ofNat (n % 256)) (UInt8.ofNat (n / 256))
    rw [hlt] at this
    simp only [wordAt, this.1, this.2, UInt8.toNat_ofNat']
    omega
  · intro i g0 hi hg
    refine ⟨_, by simp only [List.getElem?_map, hi, Option.map_some]; rfl, ?_⟩
    simp [hg]
  · intro j hj
    simp only
    rcases hj with hj | hj
    · rw [List.append_assoc, List.getElem?_append_left (by omega), List.getElem?_take_of_lt hj]
    · rw [List.getElem?_append_right (by simp only [List.length_append, hlt, List.length_cons, List.length_nil]; omega)]
      simp only [List.length_append, hlt, List.length_cons, List.length_nil, List.getElem?_drop]
      congr 1; omega

/-- with unique file numbers, the file found by number is the only one with that number -/
theorem slx_unique (tbl : Table) (fnum : Nat) (f g0 : SlcFile) (i : Nat)
    (hu : (tbl.filter (fun g => g.num == fnum)).length ≤ 1)
    (hfind : tbl.find? (fun g => g.num == fnum) = some f) (hi : tbl[i]? = some g0) (hg : g0.num = fnum) : g0 = f := by
  have hf : f ∈ tbl.filter (fun g => g.num == fnum) := by
    have h1 := List.mem_of_find?_eq_some hfind
    have h2 := List.find?_some hfind
    exact List.mem_filter.mpr ⟨h1, h2⟩
  have hg0 : g0 ∈ tbl.filter (fun g => g.num == fnum) :=
    List.mem_filter.mpr ⟨List.mem_of_getElem? hi, by simp [hg]⟩
  match hL : tbl.filter (fun g => g.num == fnum), hu with
  | [], _ => rw [hL] at hf; cases hf
  | [x], _ =>
    rw [hL] at hf hg0
    simp only [List.mem_cons, List.not_mem_nil, or_false] at hf hg0
    rw [hf, hg0]
  | _ :: _ :: _, hu => rw [hL] at hu; simp only [List.length_cons] at hu; omega

theorem slx_le2 (m : Nat) : leBytes 2 m = [UInt8.ofNat (m % 256), UInt8.ofNat (m / 256 % 256)] := rfl

theorem slx_le2_val (m : Nat) (h : m < 65536) :
    (UInt8.ofNat (m % 256)).toNat + 256 * (UInt8.ofNat (m / 256 % 256)).toNat = m := by
  simp only [UInt8.toNat_ofNat']; omega

/-- `bit_write_value` for every single-bit write, timer / counter status bits included -/
theorem slx_bit_write_value (a : Addr) (v : PyVal) (hb : a.addressField = 3) (hc : a.count = 1)
    (hs : a.subElement ≤ 15)
    (hnw : ¬ ((a.fileType = [84] ∨ a.fileType = [67]) ∧ (a.subElement = 1 ∨ a.subElement = 2)))
    (ht : (elemTy a.fileType).isSome) :
    writeableValue a v =
      .ok (leBytes 2 (2 ^ a.subElement) ++ (if v.truthy then leBytes 2 (2 ^ a.subElement) else [0, 0]), 2) := by
  obtain ⟨ty, hty⟩ := Option.isSome_iff_exists.mp ht
  have hp : (2:Nat) ^ a.subElement ≤ 2 ^ 15 := Nat.pow_le_pow_right (by decide) hs
  have hpk : packInt .uint (.int ((2:Nat) ^ a.subElement : Nat)) = .ok (leBytes 2 (2 ^ a.subElement)) := by
    have h65 : IntK.hi .uint = 65535 := by decide
    have := WF.packInt_len .uint (2 ^ a.subElement) rfl (by rw [h65]; omega)
    rw [this]; rfl
  unfold writeableValue
  simp only [hty, hc, hb, hnw]
  simp
  have := hpk
  simp at this
  rw [this]

/-- the bit write request of an address, as served by the target -/
theorem slx_writeAddr_bit (tbl : Table) (a : Addr) (v : PyVal) (haf : a.addressField = 3) (hc : a.count = 1)
    (hs : a.subElement ≤ 15)
    (hnw : ¬ ((a.fileType = [84] ∨ a.fileType = [67]) ∧ (a.subElement = 1 ∨ a.subElement = 2)))
    (ht : (elemTy a.fileType).isSome)
    (hf : a.fileNumber ≤ 255) (he : a.element ≤ 255) (hp : a.posNumber < 65536) :
    writeAddr tbl a v = maskedWrite tbl 2 a.fileNumber (typeCode a.fileType) a.element a.posNumber (2 ^ a.subElement)
      (leBytes 2 (if v.truthy then 2 ^ a.subElement else 0)) := by
  have hpw : (2 : Nat) ^ a.subElement < 65536 :=
    Nat.lt_of_le_of_lt (Nat.pow_le_pow_right (by decide) hs) (by decide)
  have hws := slx_writeSub_pos a hnw
  unfold writeAddr
  rw [slx_bit_write_value a v haf hc hs hnw ht]
  simp only [hc, Nat.mul_one]
  rw [slx_writeAddressFields a 2 (by decide) (by omega) (by omega) (by rw [hws]; omega), hws]
  simp only []
  rw [slx_targetWrite tbl 2 _ _ _ _ _ (by decide) (slx_typeCode_le a.fileType) (by omega) (by omega) (by omega)
    (by simp [leBytes_length])]
  have h2 : (leBytes 2 (2 ^ a.subElement)).length = 2 := rfl
  rw [List.take_left' h2, List.drop_left' h2]
  have hv : leVal (leBytes 2 (2 ^ a.subElement)) = 2 ^ a.subElement := by
    rw [slx_le2]
    simp only [leVal, Nat.mul_zero, Nat.add_zero]
    exact slx_le2_val _ hpw
  rw [hv]
  congr 1
  split <;> rfl


/-- the 16-bit two's complement representative of an integer -/
def word16 (i : Int) : Nat := (i % 65536).toNat

theorem slx_word16_lt (i : Int) : word16 i < 65536 := by unfold word16; omega

theorem slx_int16_word16 (i : Int) (h : -32768 ≤ i ∧ i ≤ 32767) : int16 (word16 i) = i := by
  unfold int16 word16; split <;> omega

/-- the word write request of an address, as served by the target -/
theorem slx_writeAddr_word (tbl : Table) (a : Addr) (i : Int) (hi : -32768 ≤ i ∧ i ≤ 32767)
    (haf : a.addressField = 2) (hc : a.count = 1)
    (hty : elemTy a.fileType = some (.int .int)) (hsz : dataSize a.fileType = 2)
    (hct : a.fileType ≠ [84] ∧ a.fileType ≠ [67])
    (hf : a.fileNumber ≤ 255) (he : a.element ≤ 255) (hp : a.posNumber < 65536) :
    writeAddr tbl a (.int i) = maskedWrite tbl 2 a.fileNumber (typeCode a.fileType) a.element a.posNumber 65535
      (leBytes 2 (word16 i)) := by
  have hws := slx_writeSub_pos a (fun h => by rcases h.1 with h' | h' <;> simp [h'] at hct)
  have henc : encode (.int .int) (.int i) = .ok (leBytes 2 (word16 i)) := by
    have := encode_int_wire .int i (by simp [IntK.lo, IntK.signed, IntK.size]; omega)
      (by simp [IntK.hi, IntK.signed, IntK.size]; omega)
    rw [this]
    simp only [IntK.size, word16]
    rfl
  unfold writeAddr writeableValue
  simp only [hty, hsz, hc, haf, henc]
  rw [if_neg (by decide), if_neg (by decide)]
  simp only [Nat.mul_one]
  rw [slx_writeAddressFields a 2 (by decide) (by omega) (by omega) (by rw [hws]; omega), hws]
  simp only []
  rw [slx_targetWrite tbl 2 _ _ _ _ _ (by decide) (slx_typeCode_le a.fileType) (by omega) (by omega) (by omega)
    (by simp [leBytes_length])]
  have h2 : ([0xFF, 0xFF] : Bytes).length = 2 := rfl
  rw [List.take_left' h2, List.drop_left' h2]
  have : leVal ([0xFF, 0xFF] : Bytes) = 65535 := by decide
  rw [this]

/-- the file the address names exists in the data table (first file with that number) and has the address's type -/
structure Located (tbl : Table) (a : Addr) (f : SlcFile) : Prop where
  find : tbl.find? (fun g => g.num == a.fileNumber) = some f
  ftype : f.ftype = typeCode a.fileType

theorem slx_wordFiles {ft : Name} (h : ft ∈ wordFiles) :
    elemTy ft = some (.int .int) ∧ dataSize ft = 2 ∧ elemBytes (typeCode ft) = 2 ∧ ft ≠ [84] ∧ ft ≠ [67] := by
  simp only [wordFiles, List.mem_cons, List.not_mem_nil, or_false] at h
  rcases h with rfl | rfl | rfl | rfl | rfl <;> exact ⟨rfl, by decide, by decide, by decide, by decide⟩

theorem slx_ctFiles {ft : Name} (h : ft = [84] ∨ ft = [67]) :
    elemTy ft = some (.int .int) ∧ dataSize ft = 6 ∧ elemBytes (typeCode ft) = 6 := by
  rcases h with rfl | rfl <;> exact ⟨rfl, by decide, by decide⟩

/-- the PRE / ACC write request of a timer / counter address, as served by the target: sub-element byte 1 / 2 -/
theorem slx_writeAddr_ct (tbl : Table) (a : Addr) (i : Int) (hi : -32768 ≤ i ∧ i ≤ 32767)
    (hft : a.fileType = [84] ∨ a.fileType = [67]) (haf : a.addressField = 3) (hc : a.count = 1)
    (hsub : a.subElement = 1 ∨ a.subElement = 2)
    (hf : a.fileNumber ≤ 255) (he : a.element ≤ 255) :
    writeAddr tbl a (.int i) = maskedWrite tbl 2 a.fileNumber (typeCode a.fileType) a.element a.subElement 65535
      (leBytes 2 (word16 i)) := by
  have hws := slx_writeSub_sub a hft hsub
  have hp : a.subElement ≤ 255 := by omega
  have hty := (slx_ctFiles hft).1
  have henc : encode (.int .int) (.int i) = .ok (leBytes 2 (word16 i)) := by
    have := encode_int_wire .int i (by simp [IntK.lo, IntK.signed, IntK.size]; omega)
      (by simp [IntK.hi, IntK.signed, IntK.size]; omega)
    rw [this]
    simp only [IntK.size, word16]
    rfl
  unfold writeAddr writeableValue
  simp only [hty, hc, haf, henc, hft, hsub, and_self, if_true]
  rw [if_neg (by decide)]
  simp only [Nat.mul_one]
  rw [slx_writeAddressFields a 2 (by decide) (by omega) (by omega) (by rw [hws]; omega), hws]
  simp only []
  rw [slx_targetWrite tbl 2 _ _ _ _ _ (by decide) (slx_typeCode_le a.fileType) (by omega) (by omega) (by omega)
    (by simp [leBytes_length])]
  have h2 : ([0xFF, 0xFF] : Bytes).length = 2 := rfl
  rw [List.take_left' h2, List.drop_left' h2]
  have : leVal ([0xFF, 0xFF] : Bytes) = 65535 := by decide
  rw [this]

theorem slx_wordAt_congr (d1 d2 : Bytes) (off : Nat) (h0 : d1[off]? = d2[off]?) (h1 : d1[off + 1]? = d2[off + 1]?) :
    wordAt d1 off = wordAt d2 off := by
  simp only [wordAt, List.getD, h0, h1]

theorem slx_maskedWord_full (old dat : Nat) (hd : dat < 65536) : maskedWord old dat 65535 = dat := by
  rw [maskedWord, Nat.sub_self, Nat.and_zero, Nat.zero_or]
  have e : (65535 : Nat) = 2 ^ 16 - 1 := by decide
  rw [e, Nat.and_two_pow_sub_one_eq_mod]
  exact Nat.mod_eq_of_lt hd


/-- a one-bit masked write to an existing word of the table (`mask_word_bit`, `write_frame`): the new table, the
    bits of the new word, and the frame -/
theorem slx_bit_write_core (tbl : Table) (f : SlcFile) (fnum ftype elem sub b : Nat) (t : Bool)
    (hfind : tbl.find? (fun g => g.num == fnum) = some f) (hty : f.ftype = ftype)
    (hu : (tbl.filter (fun g => g.num == fnum)).length ≤ 1) (hb : b < 16)
    (hin : byteOffset ftype elem sub + 2 ≤ f.data.length) :
    ∃ tbl' f', maskedWrite tbl 2 fnum ftype elem sub (2 ^ b) (leBytes 2 (if t = true then 2 ^ b else 0)) = .ok tbl' ∧
      tbl'.find? (fun g => g.num == fnum) = some f' ∧ f'.ftype = ftype ∧ f'.data.length = f.data.length ∧
      (∀ k, k < 16 → wordBit (wordAt f'.data (byteOffset ftype elem sub)) k =
        if k = b then t else wordBit (wordAt f.data (byteOffset ftype elem sub)) k) ∧
      (∀ j, (j < byteOffset ftype elem sub ∨ byteOffset ftype elem sub + 2 ≤ j) → f'.data[j]? = f.data[j]?) ∧
      tbl'.length = tbl.length ∧
      ∀ (i : Nat) (g0 : SlcFile), tbl[i]? = some g0 → ∃ g, tbl'[i]? = some g ∧ g.num = g0.num ∧ g.ftype = g0.ftype ∧
        (g0.num ≠ fnum → g = g0) ∧
        (g0.num = fnum → g.data.length = g0.data.length ∧
          (∀ j, (j < byteOffset ftype elem sub ∨ byteOffset ftype elem sub + 2 ≤ j) → g.data[j]? = g0.data[j]?) ∧
          ∀ k, k < 16 → wordBit (wordAt g.data (byteOffset ftype elem sub)) k =
            if k = b then t else wordBit (wordAt g0.data (byteOffset ftype elem sub)) k) := by
  have hD : (if t = true then 2 ^ b else 0) < 65536 := by
    split
    · exact Nat.lt_of_le_of_lt (Nat.pow_le_pow_right (by decide) (show b ≤ 15 by omega)) (by decide)
    · decide
  rw [slx_le2]
  obtain ⟨tbl', f', hmw, hfind', hty', hlen', hword', hdata', hout⟩ :=
    slx_maskedWrite_word tbl f fnum ftype elem sub (2 ^ b) _ _ hfind hty hin
  rw [slx_le2_val _ hD] at hword'
  have hbits : ∀ k, k < 16 → wordBit (wordAt f'.data (byteOffset ftype elem sub)) k =
      if k = b then t else wordBit (wordAt f.data (byteOffset ftype elem sub)) k := by
    intro k hk
    rw [hword', wordBit, wordBit, maskedWord, mask_word_bit _ _ b k (slx_wordAt_lt _ _) hD hb hk]
    by_cases hka : k = b
    · simp only [hka, if_true]
      cases t <;> simp [Nat.testBit_two_pow_self]
    · simp only [hka, if_false]
  obtain ⟨hlenT, hfr⟩ := write_frame tbl 2 fnum ftype elem sub _ _ tbl' hmw
  refine ⟨tbl', f', hmw, hfind', hty', hlen', hbits, hout, hlenT, ?_⟩
  intro i g0 hi
  obtain ⟨g, hg, hnum, hft', hne, hsame⟩ := hfr i g0 hi
  refine ⟨g, hg, hnum, hft', hne, ?_⟩
  intro hn
  have hg0 : g0 = f := slx_unique tbl fnum f g0 i hu hfind hi hn
  subst hg0
  obtain ⟨hl1, hl2⟩ := hsame hfind
  refine ⟨hl1, hl2, ?_⟩
  obtain ⟨g', hg', hd'⟩ := hdata' i g0 hi hn
  rw [hg] at hg'
  injection hg' with hg'
  subst hg'
  rw [hd']
  exact hbits

/-- a full-mask write of one 16-bit integer to an existing word of the table: the new table, the new word, the frame -/
theorem slx_word_write_core (tbl : Table) (f : SlcFile) (fnum ftype elem sub : Nat) (x : Int)
    (hfind : tbl.find? (fun g => g.num == fnum) = some f) (hty : f.ftype = ftype)
    (hu : (tbl.filter (fun g => g.num == fnum)).length ≤ 1)
    (hin : byteOffset ftype elem sub + 2 ≤ f.data.length) :
    ∃ tbl' f', maskedWrite tbl 2 fnum ftype elem sub 65535 (leBytes 2 (word16 x)) = .ok tbl' ∧
      tbl'.find? (fun g => g.num == fnum) = some f' ∧ f'.ftype = ftype ∧ f'.data.length = f.data.length ∧
      wordAt f'.data (byteOffset ftype elem sub) = word16 x ∧
      (∀ j, (j < byteOffset ftype elem sub ∨ byteOffset ftype elem sub + 2 ≤ j) → f'.data[j]? = f.data[j]?) ∧
      tbl'.length = tbl.length ∧
      ∀ (i : Nat) (g0 : SlcFile), tbl[i]? = some g0 → ∃ g, tbl'[i]? = some g ∧ g.num = g0.num ∧ g.ftype = g0.ftype ∧
        (g0.num ≠ fnum → g = g0) ∧
        (g0.num = fnum → g.data.length = g0.data.length ∧
          ∀ j, (j < byteOffset ftype elem sub ∨ byteOffset ftype elem sub + 2 ≤ j) → g.data[j]? = g0.data[j]?) := by
  rw [slx_le2]
  obtain ⟨tbl', f', hmw, hfind', hty', hlen', hword', _, hout⟩ :=
    slx_maskedWrite_word tbl f fnum ftype elem sub 65535 _ _ hfind hty hin
  rw [slx_le2_val _ (slx_word16_lt x), slx_maskedWord_full _ _ (slx_word16_lt x)] at hword'
  obtain ⟨hlenT, hfr⟩ := write_frame tbl 2 fnum ftype elem sub _ _ tbl' hmw
  refine ⟨tbl', f', hmw, hfind', hty', hlen', hword', hout, hlenT, ?_⟩
  intro i g0 hi
  obtain ⟨g, hg, hnum, hft', hne, hsame⟩ := hfr i g0 hi
  refine ⟨g, hg, hnum, hft', hne, ?_⟩
  intro hn
  have hg0 : g0 = f := slx_unique tbl fnum f g0 i hu hfind hi hn
  subst hg0
  exact hsame hfind

theorem slx_decRevS_len4 (n : Nat) (h : 1000 ≤ n) : 4 ≤ (decRevS n).length := by
  have l1 : ∀ m, 1 ≤ (decRevS m).length := by
    intro m
    have := decRevS_ne m
    cases h : decRevS m with
    | nil => exact absurd h this
    | cons _ _ => simp
  rw [decRevS, dif_neg (by omega), decRevS, dif_neg (by omega), decRevS, dif_neg (by omega)]
  have := l1 (n / 10 / 10 / 10)
  simp only [List.length_cons]
  omega

theorem slx_dec_len4 (n : Nat) (h : 1000 ≤ n) : 4 ≤ (dec n).length := by
  simpa [dec] using slx_decRevS_len4 n h

/-- more than three digits: the pattern takes three and a digit is left over -/
theorem slx_digits_long (d rest : Name) (hd : ∀ c ∈ d, isDigitC c = true) (hl : 4 ≤ d.length) :
    ∃ x t, isDigitC x = true ∧ digits 3 (d ++ rest) = some (d.take 3, x :: (t ++ rest)) := by
  have hdrop : ∃ x t, d.drop 3 = x :: t := by
    cases h : d.drop 3 with
    | nil =>
      have := congrArg List.length h
      simp only [List.length_drop, List.length_nil] at this
      omega
    | cons x t => exact ⟨x, t, rfl⟩
  obtain ⟨x, t, hxt⟩ := hdrop
  have hx : isDigitC x = true := hd x (List.mem_of_mem_drop (by rw [hxt]; exact List.mem_cons_self))
  refine ⟨x, t, hx, ?_⟩
  unfold digits
  have htw : (d ++ rest).takeWhile isDigitC = d ++ rest.takeWhile isDigitC := List.takeWhile_append_of_pos hd
  have htk : (d ++ rest.takeWhile isDigitC).take 3 = d.take 3 := by
    rw [List.take_append_of_le_length (by omega)]
  have hne : (d.take 3).isEmpty = false := by
    cases h : d.take 3 with
    | nil =>
      have := congrArg List.length h
      simp only [List.length_take, List.length_nil] at this
      omega
    | cons _ _ => rfl
  have hlen : (d.take 3).length = 3 := by simp only [List.length_take]; omega
  simp only [htw, htk, hne, hlen]
  rw [List.drop_append_of_le_length (by omega), hxt]
  simp

theorem slx_countToken_digit (x : Nat) (r : Name) (hx : isDigitC x = true) : countToken (x :: r) = none := by
  have h123 : x ≠ 123 := by intro h; subst h; simp [isDigitC] at hx
  unfold countToken
  split
  · rename_i h; cases h
  · rename_i h; injection h with h _; exact absurd h h123
  · rfl

theorem slx_optBit_digit (x : Nat) (r : Name) (hx : isDigitC x = true) : optBit (x :: r) = some (none, x :: r) := by
  have h47 : x ≠ 47 := by intro h; subst h; simp [isDigitC] at hx
  unfold optBit
  split
  · rename_i h; injection h with h _; exact absurd h h47
  · rfl

theorem slx_parseS_long (c : Nat) (d rest : Name) (hd : ∀ c ∈ d, isDigitC c = true) (hl : 4 ≤ d.length) :
    parseS (c :: 58 :: (d ++ rest)) = none := by
  obtain ⟨x, t, hx, hdg⟩ := slx_digits_long d rest hd hl
  simp only [parseS, hdg, slx_optBit_digit x _ hx, slx_countToken_digit x _ hx]
  split <;> rfl

theorem slx_parseIO_long (c : Nat) (df d rest : Name) (hdf : OptDig3 df) (hd : ∀ c ∈ d, isDigitC c = true)
    (hl : 4 ≤ d.length) : parseIO (c :: (df ++ 58 :: (d ++ rest))) = none := by
  obtain ⟨x, t, hx, hdg⟩ := slx_digits_long d rest hd hl
  have h46 : ∀ r, x :: (t ++ rest) ≠ 46 :: r := by
    intro r h; injection h with h _; subst h; simp [isDigitC] at hx
  by_cases hc : upperC c = 73 ∨ upperC c = 79
  · rcases hdf with rfl | hdf
    · have h0 : digits 3 (58 :: (d ++ rest)) = none := by simp [digits, isDigitC]
      simp only [parseIO, hc, if_true, List.nil_append, h0, hdg, slx_optBit_digit x _ hx, slx_countToken_digit x _ hx]
    · have h0 : digits 3 (df ++ 58 :: (d ++ rest)) = some (df, 58 :: (d ++ rest)) :=
        digits_dig hdf (by simp [isDigitC])
      simp only [parseIO, hc, if_true, h0, hdg, slx_optBit_digit x _ hx, slx_countToken_digit x _ hx]
  · simp only [parseIO, hc, if_false]

/-- more than three element digits before the `.`: no digit count of the timer/counter pattern matches -/
theorem slx_ctTail_long (d sub : Name) (hl : 4 ≤ d.length) : ctTail (d ++ 46 :: sub) 3 = none := by
  apply slx_ctTail_none
  intro j _ hj3 _ _ sep' sub' hdrop
  rw [List.drop_append_of_le_length (by omega)] at hdrop
  cases hdj : d.drop j with
  | nil =>
    have := congrArg List.length hdj
    simp only [List.length_drop, List.length_nil] at this
    omega
  | cons y t =>
    rw [hdj, List.cons_append] at hdrop
    injection hdrop with _ h2
    subst h2
    cases hcon : ctNames.contains ((t ++ 46 :: sub).map upperC) with
    | false => rfl
    | true =>
      have := (slx_ctNames_letters hcon).2 46 (by simp [upperC])
      omega

theorem slx_parseTag_S_none (c : Nat) (hc : upperC c = 83) (r : Name) (h : parseS (c :: r) = none) :
    parseTag (c :: r) = none := by
  simp only [parseTag, parseCT_none c r (by omega) (by omega), parseLFBN_none c r (slx_isS_notLFBN hc),
    parseIO_none c r (by omega) (by omega), h, parseB_none c r (by omega)]

theorem slx_parseTag_IO_none (c : Nat) (hc : IsIO c) (r : Name) (h : parseIO (c :: r) = none) :
    parseTag (c :: r) = none := by
  have := slx_isIO_notCT hc
  unfold IsIO at hc
  simp only [parseTag, parseCT_none c r this.1 this.2, parseLFBN_none c r (slx_isIO_notLFBN (by unfold IsIO; exact hc)), h,
    parseS_none c r (by omega), parseB_none c r (by omega)]


/-- the little-endian 32-bit value of the four bytes at an offset -/
def dwordAt (d : Bytes) (off : Nat) : Nat :=
  leVal [d.getD off 0, d.getD (off + 1) 0, d.getD (off + 2) 0, d.getD (off + 3) 0]

/-- two's complement reading of a 32-bit value -/
def int32 (w : Nat) : Int := if w < 2147483648 then (w : Int) else (w : Int) - 4294967296

theorem slx_reply_real (a : Addr) (hty : elemTy a.fileType = some .real) (hsz : dataSize a.fileType = 4)
    (haf : a.addressField = 2) (b0 b1 b2 b3 : UInt8) :
    parseReadReply a [b0, b1, b2, b3] = .ok (.float (Flt.widen (leVal [b0, b1, b2, b3]))) := by
  have hd := decode_real_wire [b0, b1, b2, b3] [] rfl
  simp only [List.append_nil] at hd
  unfold parseReadReply
  simp only [hty, hsz, haf]
  rw [if_neg (by decide), if_neg (by decide)]
  simp [parseReadReply.go, hd, Except.map]

theorem slx_reply_dint (a : Addr) (hty : elemTy a.fileType = some (.int .dint)) (hsz : dataSize a.fileType = 4)
    (haf : a.addressField = 2) (b0 b1 b2 b3 : UInt8) :
    parseReadReply a [b0, b1, b2, b3] = .ok (.int (int32 (leVal [b0, b1, b2, b3]))) := by
  have hd := decode_int_wire .dint [b0, b1, b2, b3] [] rfl
  simp only [List.append_nil, IntK.signed, IntK.size, true_and] at hd
  have hv : (if 2 ^ (8 * 4 - 1) ≤ leVal [b0, b1, b2, b3]
      then (leVal [b0, b1, b2, b3] : Int) - ((2 ^ (8 * 4) : Nat) : Int) else (leVal [b0, b1, b2, b3] : Int))
      = int32 (leVal [b0, b1, b2, b3]) := by
    unfold int32
    split <;> split <;> first | rfl | omega
  rw [hv] at hd
  unfold parseReadReply
  simp only [hty, hsz, haf]
  rw [if_neg (by decide), if_neg (by decide)]
  simp [parseReadReply.go, hd, Except.map]

/-! ### a concrete data table for the examples -/

/-- a small data table: N7 (3 words), T4 (2 timers), S2 (2 words), I1 (4 words), F8 (1.5), L9 (-2) -/
def exTable : Table :=
  [{ num := 7, ftype := 0x89, data := [0x34, 0x12, 0xFF, 0xFF, 0x08, 0x00] },
   { num := 4, ftype := 0x86, data := [0x00, 0xA0, 100, 0, 42, 0,  0x00, 0x20, 0xE8, 0x03, 0x2C, 0x01] },
   { num := 2, ftype := 0x84, data := [0x08, 0x00, 0x01, 0x80] },
   { num := 1, ftype := 0x83, data := [0, 0, 0, 0, 0, 0, 0x80, 0] },
   { num := 8, ftype := 0x8A, data := [0, 0, 0xC0, 0x3F] },
   { num := 9, ftype := 0x91, data := [0xFE, 0xFF, 0xFF, 0xFF] }]

/-- read of an address text: parse, request, target, decode -/
def exRead (t : String) : Option (Except Exn PyVal) :=
  (parseTag (nm t)).map fun a => match readAddr exTable a with
    | .ok data => parseReadReply a data
    | .error _ => .error .response

/-- write of a value to an address text on the example table, then the table -/
def exWrite (t : String) (v : PyVal) : Option (Except Nat Table) :=
  (parseTag (nm t)).map fun a => writeAddr exTable a v

/-- write, then read the same address text -/
def exWriteRead (t : String) (v : PyVal) : Option (Except Exn PyVal) :=
  (parseTag (nm t)).map fun a => match writeAddr exTable a v with
    | .ok tbl' => (match readAddr tbl' a with
        | .ok data => parseReadReply a data
        | .error _ => .error .response)
    | .error _ => .error .request

/-- a data table with file number 255, elements 254 / 255 and an I/O position 255 (extended address fields):
    N255 (256 words, the last two 7 and 12345), I1 (257 words: word 255 = 0x2211, word 256 = 1),
    T4 (256 timers, the last one DN, PRE 1000, ACC 300) -/
def exTable255 : Table :=
  [{ num := 255, ftype := 0x89, data := List.replicate 508 0 ++ [7, 0, 0x39, 0x30] },
   { num := 1, ftype := 0x83, data := List.replicate 510 0 ++ [0x11, 0x22, 0x01, 0x00] },
   { num := 4, ftype := 0x86, data := List.replicate 1530 0 ++ [0x00, 0x20, 0xE8, 0x03, 0x2C, 0x01] }]

def exRead255 (t : String) : Option (Except Exn PyVal) :=
  (parseTag (nm t)).map fun a => match readAddr exTable255 a with
    | .ok data => parseReadReply a data
    | .error _ => .error .response

def exWriteRead255 (t : String) (v : PyVal) : Option (Except Exn PyVal) :=
  (parseTag (nm t)).map fun a => match writeAddr exTable255 a v with
    | .ok tbl' => (match readAddr tbl' a with
        | .ok data => parseReadReply a data
        | .error _ => .error .response)
    | .error _ => .error .request

end Pycomm.Slc
