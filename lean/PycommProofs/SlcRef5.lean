/-
  SLC refinement (C18 over histories), helper layer 5 (driver level): the healthy connected world with the
  connection's bookkeeping hidden (`slrf_Healthy`: session, connection id, sequence counts are existential), and one
  `SLCDriver.read(*addresses)` / `SLCDriver.write(*address_values)` call on it in terms of the table-level functions
  `readAddr` / `writeAddr` - for any number of addresses per call; every call leaves a healthy world again.
-/
import PycommProofs.SlcRef4
namespace Pycomm.Slc.Drv
open Pycomm Pycomm.Tgt Pycomm.Path Pycomm.Encap Pycomm.Slc Pycomm.Lgx.Drv

/-- a healthy connected world (`ldr_Healthy`: driver connected, session registered, the Forward Open's connection
    held by the target, nothing pending, no faults scheduled) in front of a target whose SLC data table is `tbl`;
    the session handle, the connection id and the connection's counters are hidden; the connection carries at least
    500 bytes (the default is 4000), vendor id and serial number of the driver have their 2 and 4 bytes -/
def slrf_Healthy (w : Cli.World Ext) (tbl : Table) : Prop :=
  ∃ sess cidb conn, ldr_Healthy w sess cidb conn ∧ 500 ≤ conn.size ∧ w.net.target.ext.slc = some tbl ∧
    w.drv.vid.length = 2 ∧ w.drv.vsn.length = 4

/-- the Tag one `_read_tag` returns on table `tbl` -/
def slrf_readOut (tbl : Table) (t : Name) : STag :=
  match parseTag t with
  | some a => sdr_readTagOf a (readAddr tbl a)
  | none => { tag := t, value := .none, type := [], error := none }

/-- the Tags and the final table of `[self._write_tag(t, v) for t, v in …]` on table `tbl` -/
def slrf_writeRun (tbl : Table) : List (Name × PyVal) → List STag × Table
  | [] => ([], tbl)
  | (t, v) :: rest =>
      match parseTag t with
      | some a =>
          let r := writeAddr tbl a v
          let out := slrf_writeRun (sdr_tbl tbl r) rest
          (sdr_writeTagOf a v r :: out.1, out.2)
      | none => ([], tbl)

/-- what makes a read request buildable: the address is accepted, the size byte and the position encode -/
def slrf_ReadReq (t : Name) : Prop :=
  ∃ a, parseTag t = some a ∧ dataSize a.fileType * a.count ≤ 255 ∧ a.posNumber < 65536

/-- what makes a write request buildable: the address is accepted, the value is neither `bytes` nor a `dict`,
    `writeable_value` accepts it, the size byte and the position encode -/
def slrf_WriteReq (t : Name) (v : PyVal) : Prop :=
  ∃ a, parseTag t = some a ∧ (∀ b, v ≠ .bytes b) ∧ (∀ kvs, v ≠ .dict kvs) ∧ a.posNumber < 65536 ∧
    ∃ val sz, writeableValue a v = .ok (val, sz) ∧ sz * a.count ≤ 255

theorem slrf_readTags_run (tbl : Table) : ∀ (ts : List Name) (w : Cli.World Ext), slrf_Healthy w tbl →
    (∀ t ∈ ts, slrf_ReadReq t) →
    ∃ w', readTags hookAll w ts = (w', .ok (ts.map (slrf_readOut tbl))) ∧ slrf_Healthy w' tbl
  | [], w, hH, _ => ⟨w, rfl, hH⟩
  | t :: rest, w, hH, hall => by
      obtain ⟨sess, cidb, conn, hH0, hC, htbl, hvid, hvsn⟩ := hH
      obtain ⟨a, hp1, hp2, hp3⟩ := hall t List.mem_cons_self
      obtain ⟨w1, frm, h1, hd1, _, he1, hH1⟩ := sdr_readTag_addr w sess cidb conn tbl t a hH0 htbl hvid hvsn (by omega)
        hp1 hp2 hp3
      have hH1' : slrf_Healthy w1 tbl :=
        ⟨sess, cidb, _, hH1, by show 500 ≤ conn.size; exact hC, by rw [he1]; exact htbl, by rw [hd1]; exact hvid,
          by rw [hd1]; exact hvsn⟩
      obtain ⟨w2, h2, hH2⟩ := slrf_readTags_run tbl rest w1 hH1' (fun q hq => hall q (List.mem_cons_of_mem _ hq))
      refine ⟨w2, ?_, hH2⟩
      simp only [List.map_cons, readTags, h1, h2, slrf_readOut, hp1]

theorem slrf_writeTags_run : ∀ (avs : List (Name × PyVal)) (tbl : Table) (w : Cli.World Ext), slrf_Healthy w tbl →
    (∀ p ∈ avs, slrf_WriteReq p.1 p.2) →
    ∃ w', writeTags hookAll w avs = (w', .ok (slrf_writeRun tbl avs).1) ∧ slrf_Healthy w' (slrf_writeRun tbl avs).2
  | [], tbl, w, hH, _ => ⟨w, rfl, hH⟩
  | (t, v) :: rest, tbl, w, hH, hall => by
      obtain ⟨sess, cidb, conn, hH0, hC, htbl, hvid, hvsn⟩ := hH
      obtain ⟨a, hp1, hp2, hp3, hp4, val, sz, hp5, hp6⟩ := hall (t, v) List.mem_cons_self
      obtain ⟨w1, frm, h1, hd1, _, he1, hH1⟩ := sd2_writeTag_addr w sess cidb conn tbl t a v val sz hH0 htbl hvid hvsn hC
        hp1 hp2 hp3 hp4 hp5 hp6
      have hH1' : slrf_Healthy w1 (sdr_tbl tbl (writeAddr tbl a v)) :=
        ⟨sess, cidb, _, hH1, by show 500 ≤ conn.size; exact hC, by rw [he1], by rw [hd1]; exact hvid,
          by rw [hd1]; exact hvsn⟩
      obtain ⟨w2, h2, hH2⟩ := slrf_writeTags_run rest _ w1 hH1' (fun q hq => hall q (List.mem_cons_of_mem _ hq))
      refine ⟨w2, ?_, ?_⟩
      · simp only [writeTags, h1, h2, slrf_writeRun, hp1]
      · simp only [slrf_writeRun, hp1]
        exact hH2

/-- `SLCDriver.read(*addresses)` on a healthy world: one Tag per address, in order; healthy again, same table -/
theorem slrf_slcRead_run (tbl : Table) (ts : List Name) (w : Cli.World Ext) (hH : slrf_Healthy w tbl)
    (hall : ∀ t ∈ ts, slrf_ReadReq t) :
    ∃ w', slcRead hookAll w ts = (w', .ok (ts.map (slrf_readOut tbl))) ∧ slrf_Healthy w' tbl := by
  obtain ⟨w', h, hH'⟩ := slrf_readTags_run tbl ts w hH hall
  obtain ⟨sess, cidb, conn, hH0, _⟩ := hH
  refine ⟨w', ?_, hH'⟩
  unfold slcRead
  rw [sdr_FUEL, sdr_ensureFO_connected hookAll 7 w hH0.connected]
  exact h

/-- `SLCDriver.write(*address_values)` on a healthy world: one Tag per pair, in order, each request served on the
    table its predecessors left; healthy again, on the final table -/
theorem slrf_slcWrite_run (tbl : Table) (avs : List (Name × PyVal)) (w : Cli.World Ext) (hH : slrf_Healthy w tbl)
    (hall : ∀ p ∈ avs, slrf_WriteReq p.1 p.2) :
    ∃ w', slcWrite hookAll w avs = (w', .ok (slrf_writeRun tbl avs).1) ∧ slrf_Healthy w' (slrf_writeRun tbl avs).2 := by
  obtain ⟨w', h, hH'⟩ := slrf_writeTags_run avs tbl w hH hall
  obtain ⟨sess, cidb, conn, hH0, _⟩ := hH
  refine ⟨w', ?_, hH'⟩
  unfold slcWrite
  rw [sdr_FUEL, sdr_ensureFO_connected hookAll 7 w hH0.connected]
  exact h

end Pycomm.Slc.Drv
