/-
  LogixDriver.read of mixed shapes: whole structure tags and program-scoped tags as entries —
    `ldmx_StructTag`   a controller-scope structure tag by its plain name, for whatever `parse_read_reply` makes of
                       marker + memory (after `ldr3_read_structTag`);
    `ldmx_Str`         … whose `type_class` is a string type (`read_string_e2e`);
    `ldmx_Struct`      … whose `type_class` is a flat `StructTag` (`read_struct_e2e_flat`);
    `ldmx_Prog`        `Program:P.t`, an elementary scalar tag of a program (`read_program_scalar_e2e`).
-/
import PycommProofs.LDMix5
import PycommProofs.LogixDriverProgram
namespace Pycomm.Lgx.Drv
open Pycomm Pycomm.Tgt Pycomm.Path Pycomm.Reply Pycomm.Encap Pycomm.Lgx Pycomm.Lgx.E2E

/-! ### a whole structure tag -/

/-- a structure tag read by its plain name: symbol, structure definition, tag-database entry with its `data_type`
    dict and `type_class`, the value and the type string -/
structure ldmx_StructTag where
  s : Symbol
  tid : Nat
  tm : Template
  info : TagInfo
  si : StructInfo
  ty : Ty
  v : PyVal
  dt : Name

/-- the data of the controller's answer: the structure marker `A0 02`, the handle, the tag's memory -/
def ldmx_StructTag.data (x : ldmx_StructTag) : Bytes := ([0xA0, 0x02] ++ le 2 x.tm.handle) ++ x.s.mem

/-- the hypotheses of `ldr3_read_structTag` on one request, and `sizeLe`: the driver's `structure_size` (which its
    estimate of the reply is made of) covers the size of the controller's definition — the two are equal when the tag
    database comes from the upload -/
structure ldmx_StructTagOk (cfg : Cfg) (st : LState) (x : ldmx_StructTag) : Prop where
  mem : x.s ∈ st.proj.controller
  uniqN : ∀ s' ∈ st.proj.controller, s'.name = x.s.name → s' = x.s
  uniqI : ∀ s' ∈ st.proj.controller, s'.inst = x.s.inst → s' = x.s
  ident : PlainIdent x.s.name
  inst32 : x.s.inst < 2 ^ 32
  ty : elTyOfWord x.s.symbolType = .struct x.tid
  tmpl : st.proj.template? x.tid = some x.tm
  memLen : x.s.mem.length = x.tm.size
  pos : 0 < x.tm.size
  get : cfg.tags.get? x.s.name = some x.info
  structOf : ldr3_StructOf x.info x.si x.ty x.s.inst
  notDword : x.si.name ≠ nm "DWORD"
  sizeLe : x.tm.size ≤ x.si.size
  reply : parseReadReply x.data x.info 1 = .ok (x.v, x.dt)
  notNone : x.v ≠ .none

def ldmx_StructTag.out (x : ldmx_StructTag) : LTag := { tag := x.s.name, value := x.v, type := some x.dt, error := none }

def ldmx_entStructTag (cfg : Cfg) (x : ldmx_StructTag) : ldmx_Ent :=
  { tag := x.s.name, user := x.s.name, plc := x.s.name, bit := none, els := 1, boolEls := none, info := x.info,
    path := ldrn_pathOf cfg x.s.name x.info, segs := ldr_segs x.s.name x.s.inst cfg.useInstanceIds,
    reply := { status := 0, data := x.data }, adv := 1, rcd := x.out, res := x.out }

theorem ldmx_segs_ne (n : Name) (inst : Nat) (useIds : Bool) : ldr_segs n inst useIds ≠ [] := by
  unfold ldr_segs; split <;> simp

theorem ldmx_structTag_est (cfg : Cfg) (st : LState) (x : ldmx_StructTag) (h : ldmx_StructTagOk cfg st x) :
    ldmx_estE (ldmx_entStructTag cfg x) = x.si.size + (ldrn_pathOf cfg x.s.name x.info).length + 7 ∧
    3 ≤ (ldrn_pathOf cfg x.s.name x.info).length ∧
    (ldrn_pathOf cfg x.s.name x.info).length ≤ x.s.name.length + 13 := by
  obtain ⟨pa, hpa, hpl, hden⟩ := ldr_requestPath cfg x.s.name x.info x.s.inst h.ident h.structOf.instanceId h.inst32
  have hpo : ldrn_pathOf cfg x.s.name x.info = pa := by unfold ldrn_pathOf; rw [hpa]
  have hrs : tagReturnSize x.info 1 = x.si.size := by simp [tagReturnSize, h.structOf.struct]
  have h3 := ldmx_den_len pa _ hden (ldmx_segs_ne _ _ _)
  rw [ldmx_estE_eq]
  show tagReturnSize x.info 1 + (ldrn_pathOf cfg x.s.name x.info).length + 7 = _ ∧ _
  rw [hpo, hrs]
  exact ⟨rfl, h3, hpl⟩

theorem ldmx_structTag_ok (cfg : Cfg) (st : LState) (cap : Nat) (x : ldmx_StructTag)
    (hbytes : ∀ s' ∈ st.proj.controller, ∀ ch ∈ s'.name, ch < 256)
    (h : ldmx_StructTagOk cfg st x) (hc : ldmx_estE (ldmx_entStructTag cfg x) + 10 ≤ cap + 2) :
    ldmx_EntOk cfg st cap (ldmx_entStructTag cfg x) := by
  have hnd : isDword x.info = false := by simp [isDword, h.structOf.kind]
  have hlen := h.memLen
  have hpos := h.pos
  have hmem : x.s.mem ≠ [] := by
    intro hm; rw [hm, List.length_nil] at hlen; omega
  obtain ⟨pa, hpa, hpl, hden⟩ := ldr_requestPath cfg x.s.name x.info x.s.inst h.ident h.structOf.instanceId h.inst32
  have hpo : ldrn_pathOf cfg x.s.name x.info = pa := by unfold ldrn_pathOf; rw [hpa]
  have hest := ldmx_structTag_est cfg st x h
  have hr := ldr3_resolve_struct st.proj x.s x.tid x.tm cfg.useInstanceIds h.ident h.mem hbytes h.uniqN h.uniqI h.ty h.tmpl hmem
  have hbts := ldr3_readBytes_struct st.proj x.s x.tid x.tm h.mem h.uniqI h.tmpl hlen
  have hav := ldr_dimsProduct_pos x.s.dims
  have htb : typeBytes st.proj (ldr3_locStruct x.s x.tid).ty = [0xA0, 0x02] ++ le 2 x.tm.handle := by
    simp [ldr3_locStruct, typeBytes, h.tmpl]
  have htbl : (typeBytes st.proj (ldr3_locStruct x.s x.tid).ty).length = 4 := by
    rw [htb]; simp [le, RT.leBytes_length]
  have hparse : ∀ rid, parseTagRequest cfg.tags false rid x.s.name = ldmx_parsedAt rid (ldmx_entStructTag cfg x) := by
    intro rid
    exact ldr_parse_plain cfg.tags false rid x.s.name x.info h.ident h.get hnd
  refine ldmx_served_ok cfg st cap (ldmx_entStructTag cfg x) (ldr3_locStruct x.s x.tid) x.s.mem x.v x.dt hparse ?_ ?_ hr
    ⟨Nat.le_refl 1, hav, by show (1 : Nat) < 65536; decide⟩ hbts ?_ rfl ?_ rfl ?_ ?_ hc
  · show requestPathOf cfg x.s.name x.info = .ok (ldrn_pathOf cfg x.s.name x.info)
    rw [hpo]; exact hpa
  · show Denotes (ldrn_pathOf cfg x.s.name x.info) _
    rw [hpo]; exact hden
  · rw [htb]; rfl
  · rw [htb]; exact h.reply
  · intro rid rs hget
    exact ldr2_readResult_get (ldmx_parsedAt rid (ldmx_entStructTag cfg x)) x.info x.out rs rfl rfl rfl
      (by rw [h.structOf.typeName]; exact h.notDword) h.notNone rfl hget
  · rw [hest.1, htbl, hlen]
    have := hest.2.1
    have := h.sizeLe
    omega

/-! ### a string tag -/

/-- a string tag: symbol, structure definition, tag-database entry, its `data_type` dict, the capacity -/
structure ldmx_Str where
  s : Symbol
  tid : Nat
  tm : Template
  info : TagInfo
  si : StructInfo
  cap : Nat

/-- the hypotheses of `read_string_e2e` on one request (and `sizeLe`, see `ldmx_StructTagOk`) -/
structure ldmx_StrOk (cfg : Cfg) (st : LState) (x : ldmx_Str) : Prop where
  mem : x.s ∈ st.proj.controller
  uniqN : ∀ s' ∈ st.proj.controller, s'.name = x.s.name → s' = x.s
  uniqI : ∀ s' ∈ st.proj.controller, s'.inst = x.s.inst → s' = x.s
  ident : PlainIdent x.s.name
  inst32 : x.s.inst < 2 ^ 32
  ty : elTyOfWord x.s.symbolType = .struct x.tid
  tmpl : st.proj.template? x.tid = some x.tm
  memLen : x.s.mem.length = x.tm.size
  /-- the definition is LEN (4 bytes) + `cap ≥ 1` characters -/
  tmSize : x.tm.size = 4 + x.cap
  cap1 : 1 ≤ x.cap
  get : cfg.tags.get? x.s.name = some x.info
  structOf : ldr3_StructOf x.info x.si (.fixedStr x.cap .udint) x.s.inst
  notDword : x.si.name ≠ nm "DWORD"
  sizeLe : x.tm.size ≤ x.si.size

/-- the string the controller holds: the first LEN characters of the data bytes -/
def ldmx_Str.value (x : ldmx_Str) : PyVal := .str (((x.s.mem.drop 4).take (leVal (x.s.mem.take 4))).map (·.toNat))

def ldmx_Str.toTag (x : ldmx_Str) : ldmx_StructTag :=
  { s := x.s, tid := x.tid, tm := x.tm, info := x.info, si := x.si, ty := .fixedStr x.cap .udint, v := x.value,
    dt := x.si.name }

theorem ldmx_str_tagOk (cfg : Cfg) (st : LState) (x : ldmx_Str) (h : ldmx_StrOk cfg st x) :
    ldmx_StructTagOk cfg st x.toTag := by
  have htb : typeBytes st.proj (.struct x.tid) = [0xA0, 0x02] ++ le 2 x.tm.handle := by simp [typeBytes, h.tmpl]
  have hreply := ldr3_parseReadReply_string st.proj x.tid x.info x.cap x.si.name x.s.mem h.structOf.ty h.structOf.typeName
    h.notDword h.cap1 (by rw [h.memLen, h.tmSize])
  rw [htb] at hreply
  have hts := h.tmSize
  exact ⟨h.mem, h.uniqN, h.uniqI, h.ident, h.inst32, h.ty, h.tmpl, h.memLen, (by show 0 < x.tm.size; omega), h.get,
    h.structOf, h.notDword, h.sizeLe, hreply, by simp [ldmx_Str.toTag, ldmx_Str.value]⟩

/-! ### a flat structure tag -/

/-- a structure tag whose `type_class` is a `StructTag`: … the members, the decoded dict -/
structure ldmx_Struct where
  s : Symbol
  tid : Nat
  tm : Template
  info : TagInfo
  si : StructInfo
  ms : TMembers
  bits : List (Name × Nat × Nat)
  priv : List Name
  size : Nat
  kvs : List (Name × PyVal)
  rest : Bytes

/-- the hypotheses of `read_struct_e2e_flat` on one request (and `sizeLe`, see `ldmx_StructTagOk`) -/
structure ldmx_StructOk (cfg : Cfg) (st : LState) (x : ldmx_Struct) : Prop where
  mem : x.s ∈ st.proj.controller
  uniqN : ∀ s' ∈ st.proj.controller, s'.name = x.s.name → s' = x.s
  uniqI : ∀ s' ∈ st.proj.controller, s'.inst = x.s.inst → s' = x.s
  ident : PlainIdent x.s.name
  inst32 : x.s.inst < 2 ^ 32
  ty : elTyOfWord x.s.symbolType = .struct x.tid
  tmpl : st.proj.template? x.tid = some x.tm
  memLen : x.s.mem.length = x.tm.size
  pos : 0 < x.tm.size
  get : cfg.tags.get? x.s.name = some x.info
  structOf : ldr3_StructOf x.info x.si (.structTag x.ms x.bits x.priv x.size) x.s.inst
  notDword : x.si.name ≠ nm "DWORD"
  sizeLe : x.tm.size ≤ x.si.size
  /-- the codec decodes the memory to the dict `kvs` whose keys are exactly the visible attributes, in order -/
  dec : decode (.structTag x.ms x.bits x.priv x.size) x.s.mem = .ok (.dict x.kvs, x.rest)
  keys : x.kvs.map (·.1) = x.si.attributes
  nodup : x.si.attributes.Nodup

def ldmx_Struct.toTag (x : ldmx_Struct) : ldmx_StructTag :=
  { s := x.s, tid := x.tid, tm := x.tm, info := x.info, si := x.si, ty := .structTag x.ms x.bits x.priv x.size,
    v := .dict x.kvs, dt := x.si.name }

theorem ldmx_struct_tagOk (cfg : Cfg) (st : LState) (x : ldmx_Struct) (h : ldmx_StructOk cfg st x) :
    ldmx_StructTagOk cfg st x.toTag := by
  have htb : typeBytes st.proj (.struct x.tid) = [0xA0, 0x02] ++ le 2 x.tm.handle := by simp [typeBytes, h.tmpl]
  have hattr := ldr3_rekey_id x.kvs (by rw [h.keys]; exact h.nodup)
  rw [h.keys] at hattr
  have hreply := ldr3_parseReadReply_struct st.proj x.tid x.info x.si x.ms x.bits x.priv x.size x.s.mem x.rest x.kvs x.kvs
    h.structOf.ty h.structOf.typeName h.structOf.struct h.notDword h.dec hattr
  rw [htb] at hreply
  exact ⟨h.mem, h.uniqN, h.uniqI, h.ident, h.inst32, h.ty, h.tmpl, h.memLen, h.pos, h.get, h.structOf, h.notDword,
    h.sizeLe, hreply, by simp [ldmx_Struct.toTag]⟩

/-! ### an elementary scalar tag of a program -/

/-- `Program:P.t`: program name, its symbol table, the symbol, the tag-database entry under the key `Program:P.t`,
    type code / size / name / codec type, the decoded value -/
structure ldmx_Prog where
  P : Name
  syms : List Symbol
  s : Symbol
  info : TagInfo
  c : Nat
  sz : Nat
  name : Name
  t : Ty
  v : PyVal
  rest : Bytes

/-- the hypotheses of `read_program_scalar_e2e` on one request -/
structure ldmx_ProgOk (cfg : Cfg) (st : LState) (x : ldmx_Prog) : Prop where
  progIdent : PlainIdent x.P
  progLen : x.P.length ≤ 240
  prog : (ldp_prog x.P, x.syms) ∈ st.proj.programs
  progU : ∀ pr ∈ st.proj.programs, pr.1 = ldp_prog x.P → pr = (ldp_prog x.P, x.syms)
  mem : x.s ∈ x.syms
  bytes : ∀ s' ∈ x.syms, ∀ ch ∈ s'.name, ch < 256
  uniqN : ∀ s' ∈ x.syms, s'.name = x.s.name → s' = x.s
  uniqI : ∀ s' ∈ x.syms, s'.inst = x.s.inst → s' = x.s
  ident : PlainIdent x.s.name
  ty : elTyOfWord x.s.symbolType = .atomic x.c
  atomic : atomicOfCode x.c = some (x.name, x.t)
  notBits : x.t.isBits = none
  size : atomicSize x.c = some x.sz
  memLen : x.s.mem.length = x.sz
  get : cfg.tags.get? (ldp_tagStr x.P x.s.name) = some x.info
  infoOf : ldp_InfoOf x.info x.name x.t
  dec : decode x.t x.s.mem = .ok (x.v, x.rest)

def ldmx_Prog.request (x : ldmx_Prog) : Name := ldp_tagStr x.P x.s.name

def ldmx_Prog.out (x : ldmx_Prog) : LTag := { tag := x.request, value := x.v, type := some x.name, error := none }

def ldmx_entProg (cfg : Cfg) (x : ldmx_Prog) : ldmx_Ent :=
  { tag := x.request, user := x.request, plc := x.request, bit := none, els := 1, boolEls := none, info := x.info,
    path := ldrn_pathOf cfg x.request x.info, segs := ldp_segs x.P x.s.name,
    reply := { status := 0, data := le 2 x.c ++ x.s.mem }, adv := 1, rcd := x.out, res := x.out }

theorem ldmx_prog_est (cfg : Cfg) (st : LState) (x : ldmx_Prog) (h : ldmx_ProgOk cfg st x) :
    ldmx_estE (ldmx_entProg cfg x) = x.sz + (ldrn_pathOf cfg x.request x.info).length + 7 ∧
    3 ≤ (ldrn_pathOf cfg x.request x.info).length ∧
    (ldrn_pathOf cfg x.request x.info).length ≤ x.P.length + x.s.name.length + 15 := by
  obtain ⟨_, hentry, _, _, _⟩ := ldr_atomic_table x.c x.sz x.name x.t h.atomic h.notBits h.size
  have hPl := h.progLen
  have hnl := h.ident.2.1
  obtain ⟨path, hpath, hpl, hden⟩ := ldp_requestPath cfg x.P x.s.name x.info h.progIdent (by omega) h.ident (by omega)
  have hpo : ldrn_pathOf cfg x.request x.info = path := by unfold ldrn_pathOf ldmx_Prog.request; rw [hpath]
  have hrs : tagReturnSize x.info 1 = x.sz := by simp [tagReturnSize, h.infoOf.struct, h.infoOf.typeName, hentry]
  have h3 := ldmx_den_len path _ hden (by simp [ldp_segs])
  rw [ldmx_estE_eq]
  show tagReturnSize x.info 1 + (ldrn_pathOf cfg x.request x.info).length + 7 = _ ∧ _
  rw [hpo, hrs]
  exact ⟨rfl, h3, hpl⟩

theorem ldmx_prog_ok (cfg : Cfg) (st : LState) (cap : Nat) (x : ldmx_Prog)
    (h : ldmx_ProgOk cfg st x) (hc : ldmx_estE (ldmx_entProg cfg x) + 10 ≤ cap + 2) :
    ldmx_EntOk cfg st cap (ldmx_entProg cfg x) := by
  obtain ⟨haty, hentry, hndw, hpos, hle8⟩ := ldr_atomic_table x.c x.sz x.name x.t h.atomic h.notBits h.size
  have hPl := h.progLen
  have hnl := h.ident.2.1
  have hlen := h.memLen
  have hnd : isDword x.info = false := by
    have : (x.name == nm "DWORD") = false := by simpa using hndw
    simp [isDword, h.infoOf.typeName, this]
  obtain ⟨path, hpath, hpl, hden⟩ := ldp_requestPath cfg x.P x.s.name x.info h.progIdent (by omega) h.ident (by omega)
  have hpo : ldrn_pathOf cfg x.request x.info = path := by unfold ldrn_pathOf ldmx_Prog.request; rw [hpath]
  have hest := ldmx_prog_est cfg st x h
  have hmem : x.s.mem ≠ [] := by
    intro hm; rw [hm, List.length_nil] at hlen; omega
  have hr := ldp_resolve st.proj x.P x.syms x.s x.c x.sz h.progIdent h.prog h.progU h.mem h.bytes h.uniqN h.ty h.size hmem
  have hrb := ldp_readBytes st.proj (ldp_prog x.P) x.syms x.s x.c x.sz h.prog h.progU h.mem h.uniqI h.size hlen
  have hreply := ldr_parseReadReply x.info x.c x.t x.name x.s.mem x.rest x.v h.infoOf.ty h.infoOf.typeName hndw haty
    h.notBits h.dec
  have hparse : ∀ rid, parseTagRequest cfg.tags false rid x.request = ldmx_parsedAt rid (ldmx_entProg cfg x) := by
    intro rid
    exact ldp_parse_scalar cfg.tags false rid x.P x.s.name x.info h.progIdent h.ident h.get hnd
  refine ldmx_served_ok cfg st cap (ldmx_entProg cfg x) (ldp_loc (ldp_prog x.P) x.s x.c) x.s.mem x.v x.name hparse ?_ ?_ hr
    ⟨Nat.le_refl 1, ldr_dimsProduct_pos x.s.dims, by show (1 : Nat) < 65536; decide⟩ hrb rfl rfl hreply rfl ?_ ?_ hc
  · show requestPathOf cfg x.request x.info = .ok (ldrn_pathOf cfg x.request x.info)
    rw [hpo]; exact hpath
  · show Denotes (ldrn_pathOf cfg x.request x.info) _
    rw [hpo]; exact hden
  · intro rid rs hget
    exact ldr2_readResult_get (ldmx_parsedAt rid (ldmx_entProg cfg x)) x.info x.out rs rfl rfl rfl
      (by rw [h.infoOf.typeName]; exact hndw) (ldr_decode_not_none x.c x.t haty h.notBits x.s.mem x.rest x.v h.dec) rfl hget
  · rw [hest.1]
    have : (typeBytes st.proj (ldp_loc (ldp_prog x.P) x.s x.c).ty).length = 2 := by
      simp [ldp_loc, typeBytes, le, RT.leBytes_length]
    rw [this, hlen]
    have := hest.2.1
    omega

end Pycomm.Lgx.Drv
