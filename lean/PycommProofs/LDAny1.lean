/-
  C13 at the driver level for ARBITRARY reply bytes, part 1: the transport and the response classes.

    * `lda_sendReq_head`, `lda_sendUnit_head`: when a reply `raw` is already waiting in the transport's queue, the next
      `CIPDriver.send` hands back exactly `raw` (or fails with CommError / DataError before it gets that far);
      `lda_sendReq_exact`: with a socket, no scheduled faults and a frame that builds it IS `raw`;
    * `lda_ErrText`: "`Tag.error` is a non-empty text";
    * `lda_errorCip_invalid`: `response.error` of a reply that is not valid is a non-empty text, or raises
      BufferEmptyError / DataError (a reply cut inside its extended status);
    * `lda_tagResp_cases`: the response object over arbitrary bytes — valid with OK status words, or invalid with a
      non-empty error text / a library exception;
    * `lda_readOutcome_cases`, `lda_writeOutcome_cases`: the Tag `_send_requests` records for a plain read / write-type
      request answered by arbitrary bytes.
-/
import PycommProofs.LDShape
import PycommProofs.ReplyProofs
import PycommProofs.ENBuild
namespace Pycomm.Lgx.Drv
open Pycomm Pycomm.Tgt Pycomm.Path Pycomm.Reply Pycomm.Encap Pycomm.RP

/-! ### the transport: a reply that is already waiting is what `send` returns -/

theorem lda_sockSend_pending {σ} (hook : ObjHook σ) (n : Cli.Net σ) (msg raw : Bytes) (rest : List (Option Bytes))
    (hp : n.pending = some raw :: rest) : ∃ rest', (n.sockSend hook msg).1.pending = some raw :: rest' := by
  unfold Cli.Net.sockSend
  dsimp only
  split
  · exact ⟨rest, hp⟩
  · split
    · exact ⟨rest ++ [none], by simp [hp]⟩
    · exact ⟨rest ++ [(handle hook n.target msg).2], by simp [hp]⟩

theorem lda_sockReceive_pending {σ} (n : Cli.Net σ) (raw : Bytes) (rest : List (Option Bytes))
    (hp : n.pending = some raw :: rest) : n.sockReceive.2 = .ok raw ∨ n.sockReceive.2 = .error .comm := by
  unfold Cli.Net.sockReceive
  dsimp only
  split
  · exact .inr rfl
  · rw [hp]
    exact .inl rfl

/-- `CIPDriver.send` with a reply `raw` waiting in the queue: the reply returned is `raw`, unless building / sending /
    receiving fails (CommError, DataError) -/
theorem lda_sendReq_head {σ} (hook : ObjHook σ) (w : Cli.World σ) (r : Req) (raw : Bytes) (rest : List (Option Bytes))
    (hp : w.net.pending = some raw :: rest) :
    (Cli.sendReq hook w r false).2 = .ok (some raw) ∨ (Cli.sendReq hook w r false).2 = .error .comm ∨
    (Cli.sendReq hook w r false).2 = .error .data := by
  unfold Cli.sendReq
  split
  · next e hb =>
    rcases EN.buildRequest_err _ _ _ hb with rfl | rfl
    · exact .inr (.inl rfl)
    · exact .inr (.inr rfl)
  · next frame hb =>
    split
    · exact .inr (.inl rfl)
    · obtain ⟨rest', hp'⟩ := lda_sockSend_pending hook w.net frame raw rest hp
      rcases hs : w.net.sockSend hook frame with ⟨n1, s⟩
      rw [hs] at hp'
      dsimp only at hp' ⊢
      cases s with
      | error e => exact .inr (.inl rfl)
      | ok u =>
        dsimp only
        simp only [Bool.false_eq_true, if_false]
        rcases lda_sockReceive_pending n1 raw rest' hp' with h | h
        · rcases hr : n1.sockReceive with ⟨n2, rcv⟩
          rw [hr] at h
          dsimp only at h ⊢
          rw [h]
          exact .inl rfl
        · rcases hr : n1.sockReceive with ⟨n2, rcv⟩
          rw [hr] at h
          dsimp only at h ⊢
          rw [h]
          exact .inr (.inl rfl)

/-- … and with a socket, no scheduled transport faults and a frame that builds, it IS `raw` -/
theorem lda_sendReq_exact {σ} (hook : ObjHook σ) (w : Cli.World σ) (r : Req) (raw frm : Bytes) (rest : List (Option Bytes))
    (hp : w.net.pending = some raw :: rest) (hsock : w.drv.hasSock = true) (hf : w.net.faults = [])
    (hb : buildRequest r w.drv.ctx = .ok frm) :
    (Cli.sendReq hook w r false).2 = .ok (some raw) := by
  unfold Cli.sendReq
  rw [hb]
  simp only [hsock, Bool.not_true, Bool.false_eq_true, if_false]
  unfold Cli.Net.sockSend
  simp only [hf, List.contains_nil, Bool.false_eq_true, if_false]
  unfold Cli.Net.sockReceive
  simp only [List.contains_nil, Bool.false_eq_true, if_false, hp, List.cons_append, Cli.dropNones]

theorem lda_sendUnit_head {σ} (hook : ObjHook σ) (w : Cli.World σ) (seq : Nat) (msg raw : Bytes)
    (rest : List (Option Bytes)) (hp : w.net.pending = some raw :: rest) :
    (sendUnit hook w seq msg).2 = .ok (some raw) ∨ (sendUnit hook w seq msg).2 = .error .comm ∨
    (sendUnit hook w seq msg).2 = .error .data :=
  lda_sendReq_head hook w _ raw rest hp

/-! ### non-empty error texts -/

/-- `response.error` is a non-empty text: the fixed texts "No response data received", "Failed to parse reply - …",
    "Unknown Error", or a status text that is not empty -/
def lda_ErrNonEmpty : Err → Prop
  | .text s => s ≠ []
  | _ => True

/-- `Tag.error` is a non-empty text: a message of the driver, a `response.error`, or "Invalid tag request - …" -/
def lda_ErrText : TagErr → Prop
  | .text s => s ≠ []
  | .reply e => lda_ErrNonEmpty e
  | .invalid _ => True

theorem lda_ErrText_of_lds (e : TagErr) (h : lds_TextErr e) : lda_ErrText e := by
  obtain ⟨s, rfl, hs⟩ := h
  exact hs

theorem lda_extendedText_nonempty (raw : Bytes) (tr : Transport) (s : Int) :
    (∃ t, (extendedText raw tr s).map (fun t => some (Err.text t)) = .ok (some (.text t)) ∧ t ≠ []) ∨
    (extendedText raw tr s).map (fun t => some (Err.text t)) = .error .bufferEmpty ∨
    (extendedText raw tr s).map (fun t => some (Err.text t)) = .error .data := by
  rcases extendedText_cases raw tr s with ⟨t, ht, hpre⟩ | ⟨e, he, hc⟩
  · rw [ht]
    refine .inl ⟨t, rfl, ?_⟩
    intro h0
    rw [h0] at hpre
    exact status_text_nonempty s (List.prefix_nil.1 hpre)
  · rw [he]; rcases hc with rfl | rfl
    · exact .inr (.inl rfl)
    · exact .inr (.inr rfl)

/-- `response.error` of a reply that is not valid: a non-empty text, or BufferEmptyError / DataError escaping from the
    rendering of the extended status of a reply cut inside it -/
theorem lda_errorCip_invalid (tr : Transport) (raw : Option Bytes) :
    (∃ e, errorCip raw tr (parseCip raw tr) false = .ok (some e) ∧ lda_ErrNonEmpty e) ∨
    errorCip raw tr (parseCip raw tr) false = .error .bufferEmpty ∨
    errorCip raw tr (parseCip raw tr) false = .error .data := by
  cases raw with
  | none => exact .inl ⟨.noResponse, rfl, trivial⟩
  | some raw =>
    by_cases hg : tr.off + 3 ≤ raw.length ∧ 128 ≤ (raw.getD tr.off 0).toNat
    · obtain ⟨svc, _, hp⟩ := parseCip_good tr raw hg.1 hg.2
      rw [hp, errorCip_record]
      have key : ∀ s : Int,
          (∃ e, (extendedText raw tr s).map (fun t => some (Err.text t)) = .ok (some e) ∧ lda_ErrNonEmpty e) ∨
          (extendedText raw tr s).map (fun t => some (Err.text t)) = .error .bufferEmpty ∨
          (extendedText raw tr s).map (fun t => some (Err.text t)) = .error .data := by
        intro s
        rcases lda_extendedText_nonempty raw tr s with ⟨t, ht, hne⟩ | h | h
        · exact .inl ⟨_, ht, hne⟩
        · exact .inr (.inl h)
        · exact .inr (.inr h)
      split
      · exact key _
      · split
        · exact key _
        · exact .inl ⟨_, rfl, trivial⟩
    · have he := parseCip_bad tr raw hg
      left
      exact ⟨.parseFailed, by simp [errorCip, he], trivial⟩

/-- `response.error` of a valid reply is `None`, of an invalid one never -/
theorem lda_errorCip_valid (tr : Transport) (raw : Option Bytes) (p : Reply.Parsed) :
    errorCip raw tr p true = .ok none := by
  simp [errorCip]

/-! ### the response object of the tag services over arbitrary bytes -/

/-- the three things `tagResp (some raw)` can be: valid (then the status words are OK and there is no error), or not
    valid with a non-empty error text, or not valid with `response.error` raising a library exception -/
theorem lda_tagResp_cases (raw : Bytes) :
    ((tagResp (some raw)).valid = true ∧ StatusWordsOk .connected raw ∧ (tagResp (some raw)).error = .ok none) ∨
    ((tagResp (some raw)).valid = false ∧ ¬ StatusWordsOk .connected raw ∧
      ((∃ e, (tagResp (some raw)).error = .ok (some (.reply e)) ∧ lda_ErrNonEmpty e) ∨
       (tagResp (some raw)).error = .error .bufferEmpty ∨ (tagResp (some raw)).error = .error .data)) := by
  cases hv : (tagResp (some raw)).valid with
  | true =>
    left
    refine ⟨rfl, (valid_iff .connected raw).1 hv, ?_⟩
    unfold Resp.error
    rw [hv, lda_errorCip_valid]
    rfl
  | false =>
    right
    refine ⟨rfl, fun h => ?_, ?_⟩
    · have := (valid_iff .connected raw).2 h
      have hv' : validCip .connected (parseCip (some raw) .connected) = false := hv
      rw [hv'] at this
      cases this
    · have herr : (tagResp (some raw)).error =
          (errorCip (some raw) .connected (parseCip (some raw) .connected) false).map (fun e => e.map TagErr.reply) := by
        unfold Resp.error
        rw [hv]
        rfl
      rw [herr]
      rcases lda_errorCip_invalid .connected (some raw) with ⟨e, he, hne⟩ | he | he
      · rw [he]; exact .inl ⟨e, rfl, hne⟩
      · rw [he]; exact .inr (.inl rfl)
      · rw [he]; exact .inr (.inr rfl)

/-- the same for a reply object over anything `send` may hand back (`None` included) -/
theorem lda_tagResp_cases_opt (raw : Option Bytes) :
    ((tagResp raw).valid = true ∧ (∃ b, raw = some b ∧ StatusWordsOk .connected b) ∧ (tagResp raw).error = .ok none) ∨
    ((tagResp raw).valid = false ∧
      ((∃ e, (tagResp raw).error = .ok (some (.reply e)) ∧ lda_ErrNonEmpty e) ∨
       (tagResp raw).error = .error .bufferEmpty ∨ (tagResp raw).error = .error .data)) := by
  cases raw with
  | none => exact .inr ⟨rfl, .inl ⟨.noResponse, rfl, trivial⟩⟩
  | some b =>
    rcases lda_tagResp_cases b with ⟨h1, h2, h3⟩ | ⟨h1, _, h3⟩
    · exact .inl ⟨h1, ⟨b, rfl, h2⟩, h3⟩
    · exact .inr ⟨h1, h3⟩

/-! ### the Tag `_send_requests` records for one plain request answered by arbitrary bytes -/

/-- the Tag of a plain Read Tag request `req` answered by `raw` (`readResp`, then `readTag`) -/
def lda_readOutcome (req : ReadReq) (raw : Option Bytes) : Except Exn LTag :=
  readTag req (readResp req raw).1 (readResp req raw).2.1 (readResp req raw).2.2

/-- the Tag of a write-type request (Write Tag: `value` = the bytes written; Read-Modify-Write: `value` = None) -/
def lda_writeOutcome (tag : Name) (value : PyVal) (dtn : Name) (raw : Option Bytes) : Except Exn LTag :=
  writeTag tag value dtn (tagResp raw)

/-- a read answered by arbitrary bytes: the Tag has no error exactly when the status words are OK and the data
    parsed (then it carries the parsed value); otherwise the Tag has no value and a non-empty error text — or
    `response.error` raises BufferEmptyError / DataError -/
theorem lda_readOutcome_cases (req : ReadReq) (raw : Option Bytes) :
    (∃ t, lda_readOutcome req raw = .ok t ∧ t.tag = req.tag ∧
      ((t.error = none ∧ (∃ b, raw = some b ∧ StatusWordsOk .connected b) ∧
          ∃ dt, parseReadReply ((tagResp raw).p.data.getD []) req.info req.elements = .ok (t.value, dt)) ∨
       (∃ e, t.error = some e ∧ lda_ErrText e ∧ t.value = .none ∧ t.type = none))) ∨
    lda_readOutcome req raw = .error .bufferEmpty ∨ lda_readOutcome req raw = .error .data := by
  rcases lda_tagResp_cases_opt raw with ⟨hv, hw, he⟩ | ⟨hv, he⟩
  · cases hp : parseReadReply ((tagResp raw).p.data.getD []) req.info req.elements with
    | ok x =>
      obtain ⟨v, dt⟩ := x
      have hr : readResp req raw = (tagResp raw, v, some dt) := by
        unfold readResp
        simp only [hv, if_true, hp]
      unfold lda_readOutcome
      rw [hr]
      unfold readTag
      rw [he]
      dsimp only
      rw [hv]
      exact .inl ⟨_, rfl, rfl, .inl ⟨rfl, hw, dt, rfl⟩⟩
    | error e =>
      have hr : readResp req raw =
          ({ tagResp raw with p := { (tagResp raw).p with err := some .parseFailed }, valid := false }, .none, none) := by
        unfold readResp
        simp only [hv, if_true, hp]
      unfold lda_readOutcome
      rw [hr]
      unfold readTag
      left
      refine ⟨{ tag := req.tag, value := .none, type := none, error := some (.reply .parseFailed) }, ?_, rfl,
        .inr ⟨_, rfl, trivial, rfl, rfl⟩⟩
      simp [Resp.error, errorCip, Except.map]
  · have hr : readResp req raw = (tagResp raw, .none, none) := by
      unfold readResp
      simp only [hv, Bool.false_eq_true, if_false]
    unfold lda_readOutcome
    rw [hr]
    unfold readTag
    rcases he with ⟨e, he, hne⟩ | he | he
    · rw [he]
      dsimp only
      rw [hv]
      exact .inl ⟨_, rfl, rfl, .inr ⟨_, rfl, hne, rfl, rfl⟩⟩
    · rw [he]; exact .inr (.inl rfl)
    · rw [he]; exact .inr (.inr rfl)

/-- a write-type request answered by arbitrary bytes: the Tag has no error exactly when the status words are OK (then
    it carries `value`); otherwise no value and a non-empty error text — or `response.error` raises -/
theorem lda_writeOutcome_cases (tag : Name) (value : PyVal) (dtn : Name) (raw : Option Bytes) :
    (∃ t, lda_writeOutcome tag value dtn raw = .ok t ∧ t.tag = tag ∧
      ((t.error = none ∧ (∃ b, raw = some b ∧ StatusWordsOk .connected b) ∧ t.value = value) ∨
       (∃ e, t.error = some e ∧ lda_ErrText e ∧ t.value = .none ∧ t.type = none))) ∨
    lda_writeOutcome tag value dtn raw = .error .bufferEmpty ∨ lda_writeOutcome tag value dtn raw = .error .data := by
  unfold lda_writeOutcome writeTag
  rcases lda_tagResp_cases_opt raw with ⟨hv, hw, he⟩ | ⟨hv, he⟩
  · rw [he]
    dsimp only
    rw [hv]
    exact .inl ⟨_, rfl, rfl, .inl ⟨rfl, hw, rfl⟩⟩
  · rcases he with ⟨e, he, hne⟩ | he | he
    · rw [he]
      dsimp only
      rw [hv]
      exact .inl ⟨_, rfl, rfl, .inr ⟨_, rfl, hne, rfl, rfl⟩⟩
    · rw [he]; exact .inr (.inl rfl)
    · rw [he]; exact .inr (.inr rfl)

end Pycomm.Lgx.Drv
