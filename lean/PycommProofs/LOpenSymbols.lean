/-
  LogixDriver.open(), symbol upload, driver level: one page of `_get_instance_attribute_list_service` through the
  whole stack (request building, `CIPDriver.send`, the controller's symbol-list service, reply framing, the response
  class, `_parse_instance_attribute_list`), and the induction over the pages.
-/
import PycommProofs.LOpenReply
namespace Pycomm.Lgx.Opn
open Pycomm Pycomm.Tgt Pycomm.Path Pycomm.Reply Pycomm.Encap Pycomm.Lgx Pycomm.EP Pycomm.Lgx.E2E Pycomm.Lgx.Drv

/-- two driver states that differ at most in the sequence counter -/
def lo_SameDrv (d d' : Cli.Drv) : Prop := d' = { d with seqVal := d'.seqVal }

theorem lo_SameDrv.refl (d : Cli.Drv) : lo_SameDrv d d := rfl

theorem lo_SameDrv.trans {a b c : Cli.Drv} (h1 : lo_SameDrv a b) (h2 : lo_SameDrv b c) : lo_SameDrv a c := by
  unfold lo_SameDrv at *
  rw [h2, h1]

theorem lo_SameDrv.nextSeq (d : Cli.Drv) : lo_SameDrv d d.nextSeq.2 := by
  unfold lo_SameDrv
  rw [(Cli.lcs_nextSeq d).2]

/-- every record takes at least one byte -/
theorem lo_encRecs_length (wa : Bool) (ss : List Symbol) : ss.length ≤ (lo_encRecs wa ss).length := by
  induction ss with
  | nil => simp [lo_encRecs]
  | cons s ss ih =>
    have h1 : 1 ≤ (encSymbolRecord s (Up.wantedAttrs wa)).length :=
      List.length_pos_iff.2 (Up.up_record_ne_nil s (Up.wantedAttrs wa))
    unfold lo_encRecs at ih ⊢
    simp only [List.map_cons, List.flatten_cons, List.length_append, List.length_cons]
    omega

/-- one round of the page loop on a healthy connection: the controller answers with a page `pre` of the symbols still
    to deliver (`pre ++ left`), the client parses exactly their records and continues as the status tells -/
theorem lo_step (w : Cli.World Ext) (sess : Nat) (cidb : Bytes) (conn : Conn) (st : LState) (wa : Bool)
    (fuel start : Nat) (acc : List Up.Rec)
    (hw : ldr_Healthy w sess cidb conn) (hlogix : w.net.target.ext.logix = some st)
    (hrev : wa = true → 18 ≤ st.rev) (hwf : ∀ s ∈ st.proj.controller, Up.WfSymbol s)
    (hstart : start < 2 ^ 32) (hsize : 32 ≤ conn.size) :
    ∃ pre left w', lo_from st.proj.controller start = pre ++ left ∧
      (lo_from st.proj.controller start ≠ [] → pre ≠ []) ∧
      ldr_Healthy w' sess cidb { conn with lastSeq := some w.drv.nextSeq.1 } ∧ w'.drv = w.drv.nextSeq.2 ∧
      (∃ frm, w'.net.sent = w.net.sent ++ [frm]) ∧
      w'.net.target.ext = { w.net.target.ext with logix := some { st with ctr := st.ctr + 1 } } ∧
      getInstanceAttributeList hookAll none wa (fuel + 1) w start acc =
        match Up.nextInstance (if left.isEmpty then 0 else 6) (pre.map (Up.recOfSymbol wa)) with
        | none => (w', .ok (acc ++ pre.map (Up.recOfSymbol wa)))
        | some next => getInstanceAttributeList hookAll none wa fuel w' next (acc ++ pre.map (Up.recOfSymbol wa)) := by
  obtain ⟨path, hpath, hpl, hden⟩ := lo_symbolListPath start hstart
  obtain ⟨pre, left, e, hne, hsl⟩ := lo_symbolList st wa start (conn.size - 2 - 4) hrev
  have hw1 : ldr_Healthy ({ w with drv := w.drv.nextSeq.2 } : Cli.World Ext) sess cidb conn :=
    ldr_Healthy_seq hw _ (by rw [(Cli.lcs_nextSeq w.drv).2])
  have hml := lo_symbolListMsg_length path wa
  have hpm := lo_parseMR_symbolList path wa _ hden
  have hls : logixService st (lo_symbolListReq [PSeg.logical 0 0x6B, PSeg.logical 4 start] wa) (some (conn.size - 2)) =
      some ({ st with ctr := st.ctr + 1 }, { status := if left.isEmpty then 0 else 6, data := lo_encRecs wa pre }) := by
    unfold lo_symbolListReq
    rw [lo_logixService_symbolList, hsl]
  have hlp : ldr2_LogixPath (lo_symbolListReq [PSeg.logical 0 0x6B, PSeg.logical 4 start] wa).path :=
    Or.inr ⟨0x6B, start, [], rfl, by decide, by decide, by decide, by decide, by decide⟩
  obtain ⟨w', frm, hsend, hd, hsent, hext, hh⟩ := ldr2_sendUnit_logix ({ w with drv := w.drv.nextSeq.2 } : Cli.World Ext)
    sess cidb conn st w.drv.nextSeq.1 (symbolListMsg path wa) _ _ hw1 hlogix hpm hlp hls (ldr_nextSeq_lt w.drv)
    (by omega) (by omega)
  have hst : (if left.isEmpty then 0 else 6) = 0 ∨ (if left.isEmpty then 0 else 6) = 6 := by
    split
    · exact Or.inl rfl
    · exact Or.inr rfl
  obtain ⟨hv, hdata, hstatus⟩ := lo_page_reply (if left.isEmpty then 0 else 6) sess conn.toId w.drv.nextSeq.1
    w.drv.nextSeq.2.context (lo_encRecs wa pre) hw1.ctx8 hst
  have hrec : Up.parseRecords wa ((lo_encRecs wa pre).length + 1) (lo_encRecs wa pre) = .ok (pre.map (Up.recOfSymbol wa)) := by
    apply Up.records_roundtrip
    · intro s hs
      apply hwf
      have : s ∈ lo_from st.proj.controller start := by rw [e]; simp [hs]
      exact (List.mem_filter.1 this).1
    · have := lo_encRecs_length wa pre
      omega
  refine ⟨pre, left, w', e, hne, hh, hd, ⟨frm, hsent⟩, hext, ?_⟩
  unfold Drv.sendUnit at hsend
  dsimp only at hsend
  rw [getInstanceAttributeList, hpath]
  dsimp only
  rw [hsend]
  dsimp only [lo_symbolListReq]
  simp only [hv, hdata, hstatus, Bool.not_true, Bool.false_eq_true, if_false, Option.getD_some, hrec]
  rfl

/-- the page loop from instance `start` on: for every page schedule it returns exactly the records of the symbols
    with instance id ≥ `start`, each once, in order; the world stays healthy, only the schedule counter of the
    controller and the sequence counter of the driver advance -/
theorem lo_upload_from (sess : Nat) (cidb : Bytes) (wa : Bool) :
    ∀ (fuel : Nat) (w : Cli.World Ext) (conn : Conn) (st : LState) (start : Nat) (acc : List Up.Rec),
    ldr_Healthy w sess cidb conn → w.net.target.ext.logix = some st →
    (wa = true → 18 ≤ st.rev) → (∀ s ∈ st.proj.controller, Up.WfSymbol s) → lo_Sorted st.proj.controller →
    start < 2 ^ 32 → 32 ≤ conn.size → (lo_from st.proj.controller start).length < fuel →
    ∃ w' conn' k, getInstanceAttributeList hookAll none wa fuel w start acc =
        (w', .ok (acc ++ (lo_from st.proj.controller start).map (Up.recOfSymbol wa))) ∧
      ldr_Healthy w' sess cidb conn' ∧ conn'.size = conn.size ∧ lo_SameDrv w.drv w'.drv ∧
      (∃ frms, w'.net.sent = w.net.sent ++ frms) ∧
      w'.net.target.ext = { w.net.target.ext with logix := some { st with ctr := st.ctr + k } } := by
  intro fuel
  induction fuel with
  | zero => intro w conn st start acc _ _ _ _ _ _ _ hf; omega
  | succ fuel ih =>
    intro w conn st start acc hw hlogix hrev hwf hsorted hstart hsize hf
    obtain ⟨pre, left, w1, e, hne, hh1, hd1, ⟨frm, hsent1⟩, hext1, hstep⟩ :=
      lo_step w sess cidb conn st wa fuel start acc hw hlogix hrev hwf hstart hsize
    rw [hstep]
    by_cases hl : left = []
    · subst hl
      have hni : Up.nextInstance 0 (pre.map (Up.recOfSymbol wa)) = none := by simp [Up.nextInstance]
      simp only [List.isEmpty_nil, if_true, hni]
      refine ⟨w1, _, 1, ?_, hh1, rfl, ?_, ⟨[frm], hsent1⟩, hext1⟩
      · rw [e, List.append_nil]
      · rw [hd1]; exact lo_SameDrv.nextSeq w.drv
    · have hne' : lo_from st.proj.controller start ≠ [] := by
        rw [e]; intro h; exact hl (List.append_eq_nil_iff.1 h).2
      have hpre := hne hne'
      obtain ⟨pre', s, rfl⟩ : ∃ pre' s, pre = pre' ++ [s] :=
        ⟨pre.dropLast, pre.getLast hpre, (List.dropLast_concat_getLast hpre).symm⟩
      have hle : left.isEmpty = false := by cases left <;> simp_all
      have hni : Up.nextInstance 6 ((pre' ++ [s]).map (Up.recOfSymbol wa)) = some (s.inst + 1) :=
        (Up.next_instance_after_page pre' s wa).1
      simp only [hle, Bool.false_eq_true, if_false, hni]
      have hnext : lo_from st.proj.controller (s.inst + 1) = left := lo_from_next _ hsorted start pre' left s e
      -- the continuation instance still fits 32 bits: a symbol with a larger instance id remains
      have hstart' : s.inst + 1 < 2 ^ 32 := by
        obtain ⟨x, hx⟩ := List.exists_mem_of_ne_nil left hl
        have hxm : x ∈ lo_from st.proj.controller (s.inst + 1) := by rw [hnext]; exact hx
        have hxc := List.mem_filter.1 hxm
        have h1 := (hwf x hxc.1).1
        have h2 : x.inst ≥ s.inst + 1 := by simpa using hxc.2
        omega
      have hlen : (lo_from st.proj.controller (s.inst + 1)).length < fuel := by
        rw [hnext]
        rw [e] at hf
        simp only [List.length_append, List.length_cons, List.length_nil] at hf
        omega
      have hlogix1 : w1.net.target.ext.logix = some { st with ctr := st.ctr + 1 } := by rw [hext1]
      obtain ⟨w', conn', k, hres, hh', hcs, hsd, ⟨frms, hsent'⟩, hext'⟩ :=
        ih w1 { conn with lastSeq := some w.drv.nextSeq.1 } { st with ctr := st.ctr + 1 } (s.inst + 1)
          (acc ++ (pre' ++ [s]).map (Up.recOfSymbol wa)) hh1 hlogix1 hrev hwf hsorted hstart' hsize hlen
      refine ⟨w', conn', 1 + k, ?_, hh', hcs, ?_, ⟨frm :: frms, ?_⟩, ?_⟩
      · rw [hres]
        show (w', Except.ok (_ ++ (lo_from st.proj.controller (s.inst + 1)).map (Up.recOfSymbol wa))) = _
        rw [hnext, e]
        simp only [List.map_append, List.append_assoc]
      · exact lo_SameDrv.trans (by rw [hd1]; exact lo_SameDrv.nextSeq w.drv) hsd
      · rw [hsent', hsent1, List.append_assoc]; rfl
      · rw [hext', hext1]
        simp only [Nat.add_assoc]

end Pycomm.Lgx.Opn
