/-
  C04 at the level of the Logix driver model (PycommModel/Logix/Driver.lean; helper lemmas: PycommProofs/LDFitBasic.lean,
  LDFitBuild.lean, LDFitSend.lean; kernel theorems: LogixPlanProofs.lean).

  "No request sent over a CIP connection is larger than the connection size negotiated at Forward Open, and no
  multi-service read solicits a reply larger than that size. Data that does not fit one packet is moved with the
  fragmented read/write services whose byte offsets start at 0 and are contiguous and non-overlapping, covering the
  value exactly; each follow-up read fragment asks for the offset equal to the number of bytes already received."

  The connection size `C` (`Cli.Drv.connectionSize`) counts the connected data item: the 2-byte sequence count and the
  message-router message. Throughout, "the message `m` fits" is `2 + m.length ≤ C`.

    * `built_requests_fit_write`, `built_requests_fit_read`: what `_write_build_requests` / `_read_build_requests` build —
      every Write Tag, Read Tag and Multiple Service Packet request fits, and so does the reply a read solicits;
      no lower bound on `C` is needed, the builders fall back to the fragmented services;
    * `built_rmw_size`, `built_requests_fit_write_all` (STATEMENT CHANGED, twice): Read-Modify-Write requests and the
      requests of a fragmented read are never compared with the connection size by the driver; they fit when the
      request path leaves 21 (9) bytes of it — always when `C ≥ 533` (`C ≥ 521`), not always on a 500-byte connection;
    * `write_fragments_fit_and_tile`, `write_fragments_sent`: the segments of `_send_write_fragmented`;
    * `read_fragments_offsets`: the requests of `_send_read_fragmented`;
    * `read_call_frames_fit`, `write_call_frames_fit` (any outcome of the call, any world), `read_call_frames_parsed`,
      `write_call_frames_parsed` (connected world, in the words of the strict frame parsers): every frame a `read` /
      `write` call writes to the socket after the Forward Open is a SendUnitData frame whose connected data item is
      within the connection size.
-/
import PycommProofs.LDFitSend
import PycommProofs.LogixDriverShape
import PycommProofs.LogixDriverRead
namespace Pycomm.Lgx.Drv
open Pycomm.Tgt Pycomm.Path Pycomm.Reply

/-- the message-router message a request that is not fragmented puts on the wire (`sendRequest_wire`);
    `none`: the two fragmented kinds (their messages are produced by the loops, see `write_fragments_sent`,
    `read_fragments_offsets`) and a Read-Modify-Write request whose masks cannot be encoded (nothing is sent) -/
def Request.wireMessage : Request → Option Bytes
  | .read r => some (Cl.readMsg r.path r.elements)
  | .write r => some (Cl.writeMsg r.path r.typeBytes r.elements r.value)
  | .rmw r => (rmwMessage r).toOption
  | .multiRead _ rs => some (Cl.multiMsg (rs.map fun q => Cl.readMsg q.path q.elements))
  | .multiWrite _ rs => some (Cl.multiMsg (rs.map fun q => Cl.writeMsg q.path q.typeBytes q.elements q.value))
  | .readFrag _ => none
  | .writeFrag _ => none

/-- size of the message-router reply to a Read Tag request: reply header (service, reserved, status, extended status
    size) + type marker + data -/
def readReplySize (ty data : Nat) : Nat := 4 + ty + data

/-- size of the message-router reply to a Multiple Service Packet of reads: reply header 4 + count 2 + per member:
    offset 2 + the member's reply; `members` = (length of the type marker, number of data bytes) per member -/
def multiReplySize (members : List (Nat × Nat)) : Nat := 4 + 2 + (members.map fun m => 2 + readReplySize m.1 m.2).sum

/-- `members` are replies the requests `rs` may get: one per request, the type marker 2 or 4 bytes (at most 4), the
    data at most what `_tag_return_size` expects -/
def RepliesOf (rs : List ReadReq) (members : List (Nat × Nat)) : Prop :=
  members.length = rs.length ∧
  ∀ i (h1 : i < members.length) (h2 : i < rs.length),
    members[i].1 ≤ 4 ∧ members[i].2 ≤ tagReturnSize rs[i].info rs[i].elements

theorem ldf_replies_sum (rs : List ReadReq) (hp : ∀ r ∈ rs, 3 ≤ r.path.length) :
    ∀ (members : List (Nat × Nat)), RepliesOf rs members →
      (members.map fun m => 2 + readReplySize m.1 m.2).sum + 2 ≤ (rs.map (·.returnSize)).sum + 2 := by
  induction rs with
  | nil =>
    intro members h
    have : members = [] := List.eq_nil_of_length_eq_zero h.1
    subst this; simp
  | cons r rest ih =>
    intro members h
    cases members with
    | nil => have := h.1; simp at this
    | cons m ms =>
      have h0 := h.2 0 (by simp) (by simp)
      simp only [List.getElem_cons_zero] at h0
      have hrest : RepliesOf rest ms := by
        refine ⟨by have := h.1; simpa using this, ?_⟩
        intro i h1 h2
        have := h.2 (i + 1) (by simpa using h1) (by simpa using h2)
        simpa using this
      have := ih (fun r hr => hp r (List.mem_cons_of_mem _ hr)) ms hrest
      have hp0 := hp r List.mem_cons_self
      simp only [List.map_cons, List.sum_cons, readReplySize, ReadReq.returnSize, ldf_ReadReq_messageLen] at this ⊢
      omega

theorem ldf_read_msgs_sum (rs : List ReadReq) :
    ((rs.map fun q => Cl.readMsg q.path q.elements).map fun m => 2 + m.length).sum ≤ (rs.map (·.returnSize)).sum := by
  rw [List.map_map]
  apply ldf_sum_map_le
  intro r _
  simp only [Function.comp, ldf_readMsg_length, ReadReq.returnSize, ldf_ReadReq_messageLen]
  omega

theorem ldf_write_msgs_sum (rs : List WriteReq) :
    ((rs.map fun q => Cl.writeMsg q.path q.typeBytes q.elements q.value).map fun m => 2 + m.length).sum =
      (rs.map (·.messageLen)).sum := by
  rw [List.map_map]
  apply ldf_sum_map_eq
  intro r _
  simp only [Function.comp, WriteReq.messageLen]

theorem ldf_overhead : K.OVERHEAD = 10 := rfl

/-- what the read builder guarantees is what `_send_requests` needs (the fragmented reads aside) -/
theorem ldf_sendFit_of_readFit (cfg : Cfg) (ps : List Drv.Parsed) (C : Nat) (q : Request) (h : ldf_ReadFit cfg ps C q)
    (hfrag : ∀ r, q = .readFrag r → r.path.length + 9 ≤ C) : ldf_SendFit C q := by
  cases q with
  | read r =>
    show 2 + (Cl.readMsg r.path r.elements).length ≤ C
    have := h.2
    simp only [ReadReq.returnSize, ldf_ReadReq_messageLen] at this
    rw [ldf_readMsg_length]; omega
  | readFrag r => exact hfrag r rfl
  | multiRead seq rs =>
    show 2 + (Cl.multiMsg (rs.map fun q => Cl.readMsg q.path q.elements)).length ≤ C
    have h2 := h.2
    have := ldf_read_msgs_sum rs
    rw [ldf_multiMsg_length]
    rw [ldf_overhead] at h2
    omega
  | write r => exact h.elim
  | writeFrag r => exact h.elim
  | rmw r => exact h.elim
  | multiWrite seq rs => exact h.elim

theorem ldf_sendFit_of_writeFit (cfg : Cfg) (ps : List Drv.Parsed) (C : Nat) (q : Request) (h : ldf_WriteFit cfg ps C q)
    (hrmw : ∀ r, q = .rmw r → r.path.length + 5 + 2 * min r.maskSize 8 ≤ C) : ldf_SendFit C q := by
  cases q with
  | write r =>
    show 2 + (Cl.writeMsg r.path r.typeBytes r.elements r.value).length ≤ C
    exact h.2
  | writeFrag r => trivial
  | rmw r => exact hrmw r rfl
  | multiWrite seq rs =>
    show 2 + (Cl.multiMsg (rs.map fun q => Cl.writeMsg q.path q.typeBytes q.elements q.value)).length ≤ C
    have h2 := h.2
    rw [ldf_multiMsg_length, ldf_write_msgs_sum]
    rw [ldf_overhead] at h2
    omega
  | read r => exact h.elim
  | readFrag r => exact h.elim
  | multiRead seq rs => exact h.elim

/-- a driver state that differs by drawn sequence numbers only: nothing was written -/
theorem ldf_Ext_of_same (C : Nat) {σ} (w : Cli.World σ) (d : Cli.Drv) (h : ldf_Same w.drv d) : ldf_Ext C w { w with drv := d } :=
  ⟨h.1, h.2, [], by simp, fun f hf => by cases hf⟩

/-- `ldf_UnitFits` read through the independent strict parsers of PycommModel/Encap.lean: the frame is one
    encapsulation frame with command SendUnitData whose body holds the connection address item of the connection id and
    a connected data item made of the sequence count and a message of at most `C - 2` bytes -/
theorem ldf_unitFits_parsed (ctx : Encap.Ctx) (C : Nat) (f cid : Bytes) (hc : ctx.context.length = 8)
    (hcid : ctx.targetCid = some cid) (hl : cid.length = 4) (h : ldf_UnitFits ctx C f) :
    ∃ fr seq m, Encap.parseFrame f = some fr ∧ fr.command = Encap.CMD_SEND_UNIT ∧
      Encap.parseCpf fr.body = some (.connected (leVal cid) seq m) ∧ 2 + m.length ≤ C := by
  obtain ⟨m, ⟨seq, hb⟩, hfit⟩ := h
  obtain ⟨fr, hp, hcpf⟩ := Encap.cpf_unit_wf seq m ctx cid f hc hcid hl hb
  obtain ⟨fr', hp', hcmd, _⟩ := Encap.frame_wf _ ctx f hc hb
  rw [hp] at hp'
  cases hp'
  exact ⟨fr, seq, m, hp, hcmd, hcpf, hfit⟩

/-! ### concrete values for the examples -/

/-- the driver of `exWorld` on a 500-byte connection (what the standard Forward Open negotiates) -/
def exDrv500 : Cli.Drv := { exWorld.drv with connectionSize := 500 }

/-- 31 writes of the DINT `x` -/
def exWrites31 : List (Name × PyVal) := (List.range 31).map fun i => (Drv.nm "x", .int (i : Nat))

/-- 31 reads of the DINT `x` -/
def exReads31 : List Name := (List.range 31).map fun _ => Drv.nm "x"

/-- a name of 246 characters `c` -/
def exLongName (c : Nat) : Name := List.replicate 246 c

def exLongStruct : StructInfo := { name := Drv.nm "T", attributes := [exLongName 66], size := 800, handle := 1, string := none }

/-- a tag database with one structure tag whose name is 246 × `A` (no instance id: it is addressed symbolically) with
    one member, a DINT array of 200 elements whose name is 246 × `B` -/
def exLongDb : TagDb :=
  [(exLongName 65, .mk { tagType := .struct, dataTypeName := Drv.nm "T", ty := (.structTag .nil [] [] 800), struct := some exLongStruct }
      (.cons (exLongName 66)
        (.mk { tagType := .atomic, dataTypeName := Drv.nm "DINT", ty := .arr (.fixed 200) (.int .dint), offset := some 0,
               array := some 200 } .nil) .nil))]

def exLongCfg : Cfg := { tags := exLongDb }

/-- `<246 × A>.<246 × B>` followed by `suffix` -/
def exLongTag (suffix : String) : Name := exLongName 65 ++ [46] ++ exLongName 66 ++ nm suffix

-- PROPERTY THEOREMS

/-! ## 0. The message of a request -/

/-- `wireMessage` is the message `_send_requests` hands to `CIPDriver.send` for the request: the world after the
    request is the world after that one connected send -/
theorem sendRequest_wire {σ} (hook : ObjHook σ) (w : Cli.World σ) (rs : Results) (q : Request) (m : Bytes)
    (h : q.wireMessage = some m) : ∃ seq, (sendRequest hook w rs q).1 = (sendUnit hook w seq m).1 := by
  cases q with
  | read r =>
    cases h
    refine ⟨r.seq, ?_⟩
    rw [sendRequest]
    generalize sendUnit hook w r.seq (Cl.readMsg r.path r.elements) = res
    obtain ⟨w1, x⟩ := res
    cases x <;> rfl
  | write r =>
    cases h
    refine ⟨r.seq, ?_⟩
    rw [sendRequest]
    generalize sendUnit hook w r.seq (Cl.writeMsg r.path r.typeBytes r.elements r.value) = res
    obtain ⟨w1, x⟩ := res
    cases x <;> rfl
  | rmw r =>
    refine ⟨r.seq, ?_⟩
    rw [sendRequest]
    have hm : rmwMessage r = .ok m := by
      simp only [Request.wireMessage] at h
      cases hr : rmwMessage r with
      | error e => rw [hr] at h; cases h
      | ok m' => rw [hr] at h; cases h; rfl
    rw [hm]
    dsimp only
    generalize sendUnit hook w r.seq m = res
    obtain ⟨w1, x⟩ := res
    cases x <;> rfl
  | multiRead seq reqs =>
    cases h
    refine ⟨seq, ?_⟩
    rw [sendRequest]
    generalize sendUnit hook w seq (Cl.multiMsg (reqs.map fun q => Cl.readMsg q.path q.elements)) = res
    obtain ⟨w1, x⟩ := res
    cases x with
    | error e => rfl
    | ok raw =>
      dsimp only
      cases multiPacketError (tagResp raw) with
      | error e => rfl
      | ok o => cases o <;> rfl
  | multiWrite seq reqs =>
    cases h
    refine ⟨seq, ?_⟩
    rw [sendRequest]
    generalize sendUnit hook w seq (Cl.multiMsg (reqs.map fun q => Cl.writeMsg q.path q.typeBytes q.elements q.value)) = res
    obtain ⟨w1, x⟩ := res
    cases x with
    | error e => rfl
    | ok raw =>
      dsimp only
      cases multiPacketError (tagResp raw) with
      | error e => rfl
      | ok o => cases o <;> rfl
  | readFrag r => cases h
  | writeFrag r => cases h

/-! ## 1. What `_write_build_requests` builds -/

/-- every Write Tag request and every Multiple Service Packet of writes that `_write_build_requests` builds fits the
    connection size the builder saw (`d.connectionSize`): sequence count 2 + message ≤ C.
    Hypotheses: the request ids are distinct (`hu`; `parseRequestedTags` numbers the requests by position,
    `parse_ids_distinct`) — the groups are formed by id. No lower bound on `C`: a request that is too large for a
    packet of its own becomes a fragmented write. Read-Modify-Write requests are not covered: see `built_rmw_size`. -/
theorem built_requests_fit_write (cfg : Cfg) (d d' : Cli.Drv) (ps ps' : List Drv.Parsed) (reqs : List Request)
    (hu : (ps.map (·.requestId)).Nodup)
    (hb : writeBuildRequests cfg d ps = (d', .ok (ps', reqs))) :
    ∀ q ∈ reqs, q.lds_isRmw = false → ∀ m, q.wireMessage = some m → 2 + m.length ≤ d.connectionSize := by
  intro q hq hnr m hm
  have hfit := ldf_writeBuild_fit cfg d d' ps ps' reqs hu hb q hq
  have hs := ldf_sendFit_of_writeFit cfg ps d.connectionSize q hfit (by
    intro r hr; subst hr; simp [Request.lds_isRmw] at hnr)
  cases q with
  | write r => cases hm; exact hs
  | multiWrite seq rs => cases hm; exact hs
  | rmw r => simp [Request.lds_isRmw] at hnr
  | writeFrag r => cases hm
  | read r => exact hfit.elim
  | readFrag r => exact hfit.elim
  | multiRead seq rs => exact hfit.elim

-- STATEMENT CHANGED: "every request `_write_build_requests` builds (write, rmw, multiWrite) fits the connection size"
-- is false of the model for Read-Modify-Write requests: `_write_build_requests` never compares a
-- ReadModifyWriteRequestPacket with the connection size (logix_driver.py `_write_build_multi_requests` /
-- `_write_build_single_request`: the `bit_writes` packets are appended to the request list as they are), and
-- `_send_requests` sends it as one packet. The message is service 1 + request path + mask size 2 + two masks of
-- `min size 8` bytes; with the 2-byte sequence count that is `path + 5 + 2 * min size 8 ≤ path + 21` bytes, and a
-- request path can be up to 512 bytes long (`ldf_requestPathOf_len`). Counterexample on a 500-byte connection (the size
-- of the standard Forward Open): a bit of an element of a DINT array member addressed symbolically by two 246-character names
--   (writeBuildRequests exLongCfg exDrv500 (lds_wparse exLongDb [(exLongTag "[0].3", .bool true)]))
--     = one `Request.rmw` whose request path is 499 bytes and whose message is 510 bytes: 2 + 510 = 512 > 500
-- (see the `example` below). With Logix names (at most 40 characters) this needs a member nested 11 levels deep, or a
-- connection size configured below about 70 bytes. Corrected statement: `built_rmw_size` (the exact size of the
-- request, fitting under `path + 21 ≤ C`, in particular for every `C ≥ 533`).
/-- a Read-Modify-Write request `_write_build_requests` builds: sequence count 2 + its message is exactly
    path + 5 + 2 * min maskSize 8 bytes, where the path is the request path of one of the accepted requests (3 to
    512 bytes); hence it fits when that path leaves 21 bytes of the connection size — always when `C ≥ 533` -/
theorem built_rmw_size (cfg : Cfg) (d d' : Cli.Drv) (ps ps' : List Drv.Parsed) (reqs : List Request)
    (hu : (ps.map (·.requestId)).Nodup)
    (hb : writeBuildRequests cfg d ps = (d', .ok (ps', reqs))) :
    ∀ r, Request.rmw r ∈ reqs → ∀ m, (Request.rmw r).wireMessage = some m →
      2 + m.length = r.path.length + 5 + 2 * min r.maskSize 8 ∧
      (∃ p ∈ ps, ∃ info, p.error = none ∧ p.info = some info ∧ requestPathOf cfg p.plcTag info = .ok r.path) ∧
      3 ≤ r.path.length ∧ r.path.length ≤ 512 ∧
      (r.path.length + 21 ≤ d.connectionSize → 2 + m.length ≤ d.connectionSize) ∧
      (533 ≤ d.connectionSize → 2 + m.length ≤ d.connectionSize) := by
  intro r hr m hm
  have hfit : ldf_PathOf cfg ps r.path := ldf_writeBuild_fit cfg d d' ps ps' reqs hu hb _ hr
  have hlen := ldf_PathOf_len hfit
  have hmsg : rmwMessage r = .ok m := by
    simp only [Request.wireMessage] at hm
    cases hx : rmwMessage r with
    | error e => rw [hx] at hm; cases hm
    | ok m' => rw [hx] at hm; cases hm; rfl
  have e : 2 + m.length = r.path.length + 5 + 2 * min r.maskSize 8 := by
    rw [ldf_rmwMessage_ok r m hmsg, ldf_rmwMsg_length]; omega
  refine ⟨e, hfit, hlen.1, hlen.2, ?_, ?_⟩ <;> intro h <;> omega

/-- all requests of `_write_build_requests` at once, under the condition the Read-Modify-Write requests need -/
theorem built_requests_fit_write_all (cfg : Cfg) (d d' : Cli.Drv) (ps ps' : List Drv.Parsed) (reqs : List Request)
    (hu : (ps.map (·.requestId)).Nodup)
    (hb : writeBuildRequests cfg d ps = (d', .ok (ps', reqs)))
    (hpath : ∀ p ∈ ps, ∀ info path, p.error = none → p.info = some info →
      requestPathOf cfg p.plcTag info = .ok path → path.length + 21 ≤ d.connectionSize) :
    ∀ q ∈ reqs, ∀ m, q.wireMessage = some m → 2 + m.length ≤ d.connectionSize := by
  intro q hq m hm
  cases hrm : q.lds_isRmw with
  | false => exact built_requests_fit_write cfg d d' ps ps' reqs hu hb q hq hrm m hm
  | true =>
    cases q with
    | rmw r =>
      obtain ⟨_, ⟨p, hp, info, he, hi, hpa⟩, _, _, h5, _⟩ := built_rmw_size cfg d d' ps ps' reqs hu hb r hq m hm
      exact h5 (hpath p hp info _ he hi hpa)
    | _ => simp [Request.lds_isRmw] at hrm

set_option maxRecDepth 20000 in
example : ((writeBuildRequests exCfg exDrv500 (lds_wparse exDb exWrites31)).2.map fun x =>
    x.2.map fun q => (q.wireMessage.map (·.length), q.lds_carried.length)) =
    .ok [(some 488, 30), (some 24, 1)] := by rfl

set_option maxRecDepth 100000 in
/-- (the counterexample of the STATEMENT CHANGED note: the request is accepted, one Read-Modify-Write packet is built,
    its message is 510 bytes long on a 500-byte connection) -/
example : (parseTagRequest exLongDb true 0 (exLongTag "[0].3")).error = none ∧
    ((writeBuildRequests exLongCfg exDrv500 (lds_wparse exLongDb [(exLongTag "[0].3", .bool true)])).2.map fun x =>
      x.2.map fun q => (q.wireMessage.map (·.length), q.lds_isRmw)) = .ok [(some 510, true)] := by
  constructor <;> rfl

/-- 31 DINT writes on a 500-byte connection: two Multiple Service Packets (30 + 1 writes), both within 500 bytes -/
example : ∀ d' ps' reqs, writeBuildRequests exCfg exDrv500 (lds_wparse exDb exWrites31) = (d', .ok (ps', reqs)) →
    ∀ q ∈ reqs, q.lds_isRmw = false → ∀ m, q.wireMessage = some m → 2 + m.length ≤ 500 :=
  fun d' ps' reqs hb =>
    built_requests_fit_write exCfg exDrv500 d' _ ps' reqs (ldf_idsPos_nodup _ (lds_wparse_idsPos exDb exWrites31)) hb

/-- one bit of the DINT `x`: the Read-Modify-Write request is 2 + 18 = 5 (path) + 5 + 2 * 4 bytes -/
example : ((writeBuildRequests exCfg exDrv500 (lds_wparse exDb [(Drv.nm "x.3", .bool true)])).2.map fun x =>
    x.2.map fun q => q.wireMessage.map (·.length)) = .ok [some 16] := by rfl

/-! ## 2. What `_read_build_requests` builds -/

/-- every Read Tag request and every Multiple Service Packet of reads that `_read_build_requests` builds fits the
    connection size the builder saw, and so does the reply it solicits:
      * a Read Tag request whose reply carries a type marker of at most 4 bytes and at most `_tag_return_size` data
        bytes: sequence count 2 + reply header 4 + type + data ≤ C;
      * a Multiple Service Packet whose members are answered like that (`RepliesOf`): sequence count 2 + reply header 4 +
        count 2 + per member (offset 2 + reply header 4 + type + data) ≤ C.
    Hypotheses: distinct request ids (`hu`, as for writes). What `tagReturnSize` must dominate — the number of data
    bytes the controller returns for the request — is the hypothesis inside `RepliesOf` / `hdata`; it is the driver's own
    estimate (structure size, or element size from the type table, times the element count). The requests of a
    fragmented read are not covered: see `read_fragments_offsets`. -/
theorem built_requests_fit_read (cfg : Cfg) (d d' : Cli.Drv) (ps : List Drv.Parsed) (reqs : List Request)
    (hu : (ps.map (·.requestId)).Nodup)
    (hb : readBuildRequests cfg d ps = (d', .ok reqs)) :
    ∀ q ∈ reqs,
      (∀ m, q.wireMessage = some m → 2 + m.length ≤ d.connectionSize) ∧
      (∀ r, q = .read r → ∀ ty data, ty ≤ 4 → data ≤ tagReturnSize r.info r.elements →
        2 + readReplySize ty data ≤ d.connectionSize) ∧
      (∀ seq rs, q = .multiRead seq rs → ∀ members, RepliesOf rs members →
        2 + multiReplySize members ≤ d.connectionSize) := by
  intro q hq
  have hfit := ldf_readBuild_fit cfg d d' ps reqs hu hb q hq
  refine ⟨?_, ?_, ?_⟩
  · intro m hm
    cases q with
    | read r =>
      cases hm
      exact ldf_sendFit_of_readFit cfg ps _ _ hfit (fun _ h => by cases h)
    | multiRead seq rs =>
      cases hm
      exact ldf_sendFit_of_readFit cfg ps _ _ hfit (fun _ h => by cases h)
    | readFrag r => cases hm
    | write r => exact hfit.elim
    | writeFrag r => exact hfit.elim
    | rmw r => exact hfit.elim
    | multiWrite seq rs => exact hfit.elim
  · intro r hr ty data hty hdata
    subst hr
    obtain ⟨hp, hsz⟩ := hfit
    have := (ldf_PathOf_len hp).1
    simp only [ReadReq.returnSize, ldf_ReadReq_messageLen] at hsz
    unfold readReplySize
    omega
  · intro seq rs hr members hmem
    subst hr
    obtain ⟨hp, hsz⟩ := hfit
    have := ldf_replies_sum rs (fun r hr => (ldf_PathOf_len (hp r hr)).1) members hmem
    rw [ldf_overhead] at hsz
    unfold multiReplySize
    omega

set_option maxRecDepth 20000 in
/-- 31 DINT reads on a 500-byte connection: two Multiple Service Packets (30 + 1 reads); 30 is the most the reply
    allows (2 + 6 + 30 * 12 = 368 by the real sizes, 10 + 30 * 16 = 490 by the driver's accounting) -/
example : ((readBuildRequests exCfg exDrv500 (parseRequestedTags exDb false exReads31)).2.map fun x =>
    x.map fun q => (q.wireMessage.map (·.length), q.lds_carried.length)) = .ok [(some 308, 30), (some 18, 1)] := by rfl

example : ∀ d' reqs, readBuildRequests exCfg exDrv500 (parseRequestedTags exDb false exReads31) = (d', .ok reqs) →
    ∀ q ∈ reqs, (∀ m, q.wireMessage = some m → 2 + m.length ≤ 500) ∧
      (∀ seq rs, q = .multiRead seq rs → ∀ members, RepliesOf rs members → 2 + multiReplySize members ≤ 500) :=
  fun d' reqs hb q hq =>
    have := built_requests_fit_read exCfg exDrv500 d' _ reqs (parse_ids_distinct exDb false exReads31) hb q hq
    ⟨this.1, this.2.2⟩

/-- the reply sizes are those of the reference controller: two reads of the DINT `x` in one packet are answered with
    a message-router reply of `multiReplySize [(2, 4), (2, 4)]` = 30 bytes -/
example : multiReplySize [(2, 4), (2, 4)] = 30 ∧
    (Cl.exchange exLiveWorld.net.target.ext 4002
      (Cl.multiMsg [Cl.readMsg [2, 0x20, 0x6B, 0x24, 0x01] 1, Cl.readMsg [2, 0x20, 0x6B, 0x24, 0x01] 1])).2.data.length + 4 = 30 := by
  constructor <;> rfl

-- STATEMENT CHANGED (continued): the requests of a fragmented read are not compared with the connection size either.
-- `_read_build_requests` turns a request into a ReadTagFragmentedRequestPacket when the expected reply does not fit;
-- the request message itself (service 1 + path + element count 2 + offset 4, with the sequence count `path + 9` bytes)
-- is never checked. Counterexample on a 500-byte connection: 200 elements of the DINT array member above,
--   readBuildRequests exLongCfg exDrv500 (parseRequestedTags exLongDb false [exLongTag "{200}"])
--     = one `Request.readFrag` with a 497-byte path; every request of its loop is a 504-byte message: 2 + 504 = 506 > 500.
-- Corrected statement: `read_fragments_offsets` (each request is `path + 9` bytes, within C when the path leaves 9 bytes —
-- always when C ≥ 521).
set_option maxRecDepth 100000 in
example : ((readBuildRequests exLongCfg exDrv500 (parseRequestedTags exLongDb false [exLongTag "{200}"])).2.map fun x =>
    x.map fun q => match q with
      | .readFrag r => some (r.path.length, (Cl.readFragMsg r.path r.elements 0).length)
      | _ => none) = .ok [some (497, 504)] := by rfl

/-! ## 3. Fragmented writes -/

/-- the segments `_send_write_fragmented` cuts the value into (`K.writeFragments` with the segment size
    `Cl.writeSegSize` = C − (sequence count 2 + service 1 + path + type + element count 2 + offset 4)), provided the
    segment size is at least 1:
      (a) every request (`ldf_segMsg`: the Write Tag Fragmented message of the segment) fits: 2 + length ≤ C;
      (b) the segments, concatenated, are exactly the value; every segment is non-empty; the byte offset of every
          segment is the total length of the segments before it (the first offset is 0, the offsets are contiguous
          and the segments do not overlap). -/
theorem write_fragments_fit_and_tile (req : WriteReq) (C : Nat)
    (hseg : 1 ≤ Cl.writeSegSize C req.path req.typeBytes) :
    (∀ s ∈ K.writeFragments (Cl.writeSegSize C req.path req.typeBytes) req.value, 2 + (ldf_segMsg req s).length ≤ C) ∧
    ((K.writeFragments (Cl.writeSegSize C req.path req.typeBytes) req.value).map (·.2)).flatten = req.value ∧
    (∀ s ∈ K.writeFragments (Cl.writeSegSize C req.path req.typeBytes) req.value,
      s.2 ≠ [] ∧ s.2.length ≤ Cl.writeSegSize C req.path req.typeBytes) ∧
    (∀ i (hi : i < (K.writeFragments (Cl.writeSegSize C req.path req.typeBytes) req.value).length),
      ((K.writeFragments (Cl.writeSegSize C req.path req.typeBytes) req.value)[i]).1 =
        (((K.writeFragments (Cl.writeSegSize C req.path req.typeBytes) req.value).take i).map (·.2.length)).sum) := by
  have hroom : 2 + 1 + req.path.length + req.typeBytes.length + 2 + 4 < C := by
    unfold Cl.writeSegSize at hseg; omega
  obtain ⟨h1, h2, h3⟩ := K.write_fragments_tile _ hseg req.value
  refine ⟨ldf_segMsg_fits req C hroom, h1, h2, ?_⟩
  intro i hi
  rw [h3 i hi, K.fsum_eq]

/-- what `_send_write_fragmented` writes to the socket: the encapsulation context and the connection size are
    unchanged; the frames written are, in order, the SendUnitData frames of the fragmented-write requests of the first
    `k` segments (`ldf_FramesOf`, `ldf_segMsg`); if anything is written the segment size is at least 1, so
    `write_fragments_fit_and_tile` applies; if the call returns a response then all segments were sent (`k` covers the
    list), the value is not empty and the segment size is at least 1. Every frame written is a SendUnitData frame
    whose connected data item is within the connection size (`ldf_UnitFits`). -/
theorem write_fragments_sent {σ} (hook : ObjHook σ) (w : Cli.World σ) (req : WriteReq) :
    (sendWriteFragmented hook w req).1.drv.ctx = w.drv.ctx ∧
    (sendWriteFragmented hook w req).1.drv.connectionSize = w.drv.connectionSize ∧
    ∃ fs k, (sendWriteFragmented hook w req).1.net.sent = w.net.sent ++ fs ∧
      ldf_FramesOf w.drv.ctx fs
        (((K.writeFragments (Cl.writeSegSize w.drv.connectionSize req.path req.typeBytes) req.value).take k).map (ldf_segMsg req)) ∧
      (fs ≠ [] → 1 ≤ Cl.writeSegSize w.drv.connectionSize req.path req.typeBytes) ∧
      (∀ x, (sendWriteFragmented hook w req).2 = .ok x →
        1 ≤ Cl.writeSegSize w.drv.connectionSize req.path req.typeBytes ∧ req.value ≠ [] ∧
        (K.writeFragments (Cl.writeSegSize w.drv.connectionSize req.path req.typeBytes) req.value).length ≤ k) ∧
      (∀ f ∈ fs, ldf_UnitFits w.drv.ctx w.drv.connectionSize f) := by
  obtain ⟨c, sz, fs, k, e, f, hr, hok⟩ := ldf_sendWriteFragmented_frames hook w req
  refine ⟨c, sz, fs, k, e, f, ?_, ?_, ?_⟩
  · intro h; have := hr h; unfold Cl.writeSegSize; omega
  · intro x hx
    obtain ⟨h1, h2, h3⟩ := hok x hx
    exact ⟨by unfold Cl.writeSegSize; omega, h2, h3⟩
  · have := (ldf_sendWriteFragmented_ext hook w req).sent
    obtain ⟨fs', e', hf'⟩ := this
    have : fs' = fs := by
      rw [e] at e'
      exact (List.append_cancel_left e').symm
    subst this
    exact hf'

set_option maxRecDepth 100000 in
/-- 4000 BOOLs (500 bytes) written to the BOOL array `d` on a 500-byte connection: one fragmented write; the segment
    size is 500 − 16 = 484, the two segments are at offsets 0 and 484 and are 484 and 16 bytes long; the first request
    is exactly 500 bytes with its sequence count -/
example : ((writeBuildRequests exCfg exDrv500 (lds_wparse exDb [(Drv.nm "d{4000}", .list (List.replicate 4000 (.bool true)))])).2.map
    fun x => x.2.map fun q => match q with
      | .writeFrag r => some (Cl.writeSegSize 500 r.path r.typeBytes,
          (K.writeFragments (Cl.writeSegSize 500 r.path r.typeBytes) r.value).map fun s => (s.1, s.2.length, 2 + (ldf_segMsg r s).length))
      | _ => none) = .ok [some (484, [(0, 484, 500), (484, 16, 32)])] := by rfl

/-! ## 4. Fragmented reads -/

/-- the loop of `_send_read_fragmented` for a fragmented read request, as `_send_requests` runs it (`sendRequest` of
    `.readFrag req`: first sequence number `req.seq`, offset 0, no bytes yet). `ldf_readFragLog` is the loop with a log —
    per iteration the byte offset asked for and the value bytes the reply delivered; the log does not change the loop
    (first conjunct). Then:
      (a) the i-th request asks for the offset equal to the number of value bytes received in the replies before it;
          in particular the first asks for offset 0;
      (b) the frames written are, in order, the SendUnitData frames of the Read Tag Fragmented requests
          (`Cl.readFragMsg` with the request's path and element count) for the logged offsets — all of them when the
          loop returns a result (only a last request refused by the transport leaves no frame);
      (c) every such request is exactly path + 9 bytes with its sequence count: it fits iff the path leaves 9 bytes
          of the connection size (it is never compared with it by the driver; see the STATEMENT CHANGED note above);
      (d) a value that is delivered was parsed from the type bytes of the last reply followed by all the value bytes
          received, in the order received. -/
theorem read_fragments_offsets {σ} (hook : ObjHook σ) (req : ReadReq) (w : Cli.World σ) :
    (ldf_readFragLog hook req FRAG_FUEL w req.seq 0 [] true).1 = readFragLoop hook req FRAG_FUEL w req.seq 0 [] true ∧
    (∀ i (hi : i < (ldf_readFragLog hook req FRAG_FUEL w req.seq 0 [] true).2.length),
      ((ldf_readFragLog hook req FRAG_FUEL w req.seq 0 [] true).2[i]).1 =
        (((ldf_readFragLog hook req FRAG_FUEL w req.seq 0 [] true).2.take i).map (·.2.length)).sum) ∧
    (∃ fs k, (readFragLoop hook req FRAG_FUEL w req.seq 0 [] true).1.net.sent = w.net.sent ++ fs ∧
      ldf_FramesOf w.drv.ctx fs (((ldf_readFragLog hook req FRAG_FUEL w req.seq 0 [] true).2.take k).map fun e =>
        Cl.readFragMsg req.path req.elements e.1) ∧
      (∀ x, (readFragLoop hook req FRAG_FUEL w req.seq 0 [] true).2 = .ok x →
        (ldf_readFragLog hook req FRAG_FUEL w req.seq 0 [] true).2.length ≤ k)) ∧
    (∀ off, 2 + (Cl.readFragMsg req.path req.elements off).length = req.path.length + 9) ∧
    (∀ resp v dt, (readFragLoop hook req FRAG_FUEL w req.seq 0 [] true).2 = .ok (resp, v, some dt) →
      ∃ ty, parseReadReply (ty ++ ((ldf_readFragLog hook req FRAG_FUEL w req.seq 0 [] true).2.map (·.2)).flatten)
        req.info req.elements = .ok (v, dt)) := by
  have h0 := ldf_readFragLog_fst hook req FRAG_FUEL w req.seq 0 [] true
  refine ⟨h0, ?_, ?_, ?_, ?_⟩
  · intro i hi
    have := ldf_readFragLog_offsets hook req FRAG_FUEL w req.seq 0 [] true i hi
    rw [this, Nat.zero_add]
  · obtain ⟨_, _, fs, k, h3, h4, h5⟩ := ldf_readFragLog_frames hook req FRAG_FUEL w req.seq 0 [] true
    rw [h0] at h3 h5
    exact ⟨fs, k, h3, h4, h5⟩
  · intro off
    rw [ldf_readFragMsg_length]; omega
  · intro resp v dt h
    rw [← h0] at h
    obtain ⟨ty, hty⟩ := ldf_readFragLog_value hook req FRAG_FUEL w req.seq 0 [] true resp v dt h
    exact ⟨ty, by simpa using hty⟩

/-- 4000 BOOLs (125 DWORDs, 500 bytes) of the BOOL array `d` on a 500-byte connection: one fragmented read whose
    requests are 5 + 9 = 14 bytes -/
example : ((readBuildRequests exCfg exDrv500 (parseRequestedTags exDb false [Drv.nm "d{4000}"])).2.map fun x =>
    x.map fun q => match q with
      | .readFrag r => some (r.elements, 2 + (Cl.readFragMsg r.path r.elements 0).length)
      | _ => none) = .ok [some (125, 14)] := by rfl

/-! ## 5. The frames of a `read` / `write` call -/

/-- `read`, whatever its outcome (`r` may be the Tags or an exception): after the `with_forward_open` decorator
    (`ensureForwardOpen`, which leaves the world `w0` with the negotiated connection size `w0.drv.connectionSize`) the
    call writes only SendUnitData frames to the socket, built with the encapsulation context of `w0`, and the connected
    data item (sequence count + message) of every one of them is within the connection size (`ldf_Ext`, `ldf_UnitFits`);
    the context and the connection size are unchanged by the call. If the decorator fails the call ends there.
    Hypothesis `hpath`: the request path of every accepted request of the call leaves 9 bytes of the connection size —
    needed only for the requests of fragmented reads, which the driver never compares with the connection size. -/
theorem read_call_frames_fit {σ} (hook : ObjHook σ) (cfg : Cfg) (w w' : Cli.World σ) (tags : List Name)
    (r : Except Exn (List LTag)) (h : read hook cfg w tags = (w', r)) :
    ∃ w0 pre, Cli.ensureForwardOpen hook Cli.FUEL w = (w0, pre) ∧
      ((∃ e, pre = .error e) → w' = w0) ∧
      ((∀ p ∈ parseRequestedTags cfg.tags false tags, ∀ info path, p.error = none → p.info = some info →
          requestPathOf cfg p.plcTag info = .ok path → path.length + 9 ≤ w0.drv.connectionSize) →
        ldf_Ext w0.drv.connectionSize w0 w') := by
  unfold read at h
  generalize Cli.ensureForwardOpen hook Cli.FUEL w = r0 at h ⊢
  obtain ⟨w0, pre⟩ := r0
  refine ⟨w0, pre, rfl, ?_⟩
  dsimp only at h
  cases pre with
  | error e =>
    simp only [Prod.mk.injEq] at h
    exact ⟨fun _ => h.1.symm, fun _ => by rw [← h.1]; exact ldf_Ext_refl _ w0⟩
  | ok u =>
    refine ⟨fun ⟨e, he⟩ => (by cases he), ?_⟩
    intro hpath
    dsimp only at h
    have hsame := ldf_readBuild_same cfg w0.drv (parseRequestedTags cfg.tags false tags)
    rcases hb : readBuildRequests cfg w0.drv (parseRequestedTags cfg.tags false tags) with ⟨d1, reqs⟩
    rw [hb] at h hsame
    dsimp only at h hsame
    have h01 := ldf_Ext_of_same w0.drv.connectionSize w0 d1 hsame
    cases reqs with
    | error e =>
      simp only [Prod.mk.injEq] at h
      rw [← h.1]; exact h01
    | ok reqs =>
      dsimp only at h
      have hfit : ∀ q ∈ reqs, ldf_SendFit w0.drv.connectionSize q := by
        intro q hq
        have hrf := ldf_readBuild_fit cfg w0.drv d1 _ reqs (parse_ids_distinct cfg.tags false tags) hb q hq
        refine ldf_sendFit_of_readFit cfg _ _ q hrf ?_
        intro rq hrq
        subst hrq
        obtain ⟨p, hp, info, he, hi, hpa⟩ := hrf
        exact hpath p hp info _ he hi hpa
      have hext := ldf_sendRequests_ext hook w0.drv.connectionSize reqs { w0 with drv := d1 } [] hsame.2 hfit
      have h02 := ldf_Ext_trans h01 hext
      generalize sendRequests hook { w0 with drv := d1 } [] reqs = sr at h h02
      obtain ⟨w2, rs⟩ := sr
      dsimp only at h h02
      cases rs with
      | error e =>
        simp only [Prod.mk.injEq] at h
        rw [← h.1]; exact h02
      | ok rs =>
        dsimp only at h
        split at h <;> (simp only [Prod.mk.injEq] at h; rw [← h.1]; exact h02)

/-- `write`, whatever its outcome: the same. Hypothesis `hpath`: the request path of every accepted request of the
    call leaves 21 bytes of the connection size — needed only for Read-Modify-Write requests (bit writes), which the
    driver never compares with the connection size (`built_rmw_size`). -/
theorem write_call_frames_fit {σ} (hook : ObjHook σ) (cfg : Cfg) (w w' : Cli.World σ) (tvs : List (Name × PyVal))
    (r : Except Exn (List LTag)) (h : write hook cfg w tvs = (w', r)) :
    ∃ w0 pre, Cli.ensureForwardOpen hook Cli.FUEL w = (w0, pre) ∧
      ((∃ e, pre = .error e) → w' = w0) ∧
      ((∀ p ∈ lds_wparse cfg.tags tvs, ∀ info path, p.error = none → p.info = some info →
          requestPathOf cfg p.plcTag info = .ok path → path.length + 21 ≤ w0.drv.connectionSize) →
        ldf_Ext w0.drv.connectionSize w0 w') := by
  unfold write at h
  generalize Cli.ensureForwardOpen hook Cli.FUEL w = r0 at h ⊢
  obtain ⟨w0, pre⟩ := r0
  refine ⟨w0, pre, rfl, ?_⟩
  dsimp only at h
  cases pre with
  | error e =>
    simp only [Prod.mk.injEq] at h
    exact ⟨fun _ => h.1.symm, fun _ => by rw [← h.1]; exact ldf_Ext_refl _ w0⟩
  | ok u =>
    refine ⟨fun ⟨e, he⟩ => (by cases he), ?_⟩
    intro hpath
    dsimp only at h
    have hsame := ldf_writeBuild_same cfg w0.drv (lds_wparse cfg.tags tvs)
    rcases hb : writeBuildRequests cfg w0.drv (lds_wparse cfg.tags tvs) with ⟨d1, built⟩
    have hb' := hb
    unfold lds_wparse at hb
    rw [hb] at h
    rw [hb'] at hsame
    dsimp only at h hsame
    have h01 := ldf_Ext_of_same w0.drv.connectionSize w0 d1 hsame
    cases built with
    | error e =>
      simp only [Prod.mk.injEq] at h
      rw [← h.1]; exact h01
    | ok x =>
      obtain ⟨ps', reqs⟩ := x
      dsimp only at h
      have hfit : ∀ q ∈ reqs, ldf_SendFit w0.drv.connectionSize q := by
        intro q hq
        have hwf := ldf_writeBuild_fit cfg w0.drv d1 _ ps' reqs
          (ldf_idsPos_nodup _ (lds_wparse_idsPos cfg.tags tvs)) hb' q hq
        refine ldf_sendFit_of_writeFit cfg _ _ q hwf ?_
        intro rq hrq
        subst hrq
        obtain ⟨p, hp, info, he, hi, hpa⟩ := hwf
        have := hpath p hp info _ he hi hpa
        omega
      have hext := ldf_sendRequests_ext hook w0.drv.connectionSize reqs { w0 with drv := d1 } [] hsame.2 hfit
      have h02 := ldf_Ext_trans h01 hext
      generalize sendRequests hook { w0 with drv := d1 } [] reqs = sr at h h02
      obtain ⟨w2, rs⟩ := sr
      dsimp only at h h02
      cases rs with
      | error e =>
        simp only [Prod.mk.injEq] at h
        rw [← h.1]; exact h02
      | ok rs =>
        dsimp only at h
        split at h
        · simp only [Prod.mk.injEq] at h; rw [← h.1]; exact h02
        · split at h <;> (simp only [Prod.mk.injEq] at h; rw [← h.1]; exact h02)

/-- on a world that is connected already (the decorator does nothing) with a well-formed encapsulation context (8-byte
    sender context, 4-byte connection id), in the words of the independent frame parsers: every frame a `read` call
    appends to the client's output is one SendUnitData encapsulation frame whose common packet format holds the
    connection address item of the connection id and a connected data item — sequence count + message — of at most
    `connectionSize` bytes. The path condition holds for every request when the connection size is at least 521
    (a request path is at most 512 bytes). -/
theorem read_call_frames_parsed {σ} (hook : ObjHook σ) (cfg : Cfg) (w w' : Cli.World σ) (tags : List Name)
    (r : Except Exn (List LTag)) (cid : Bytes)
    (hconn : w.drv.targetIsConnected = true) (hctx : w.drv.context.length = 8)
    (hcid : w.drv.targetCid = some cid) (hl : cid.length = 4)
    (hpath : 521 ≤ w.drv.connectionSize ∨
      ∀ p ∈ parseRequestedTags cfg.tags false tags, ∀ info path, p.error = none → p.info = some info →
        requestPathOf cfg p.plcTag info = .ok path → path.length + 9 ≤ w.drv.connectionSize)
    (h : read hook cfg w tags = (w', r)) :
    ∃ fs, w'.net.sent = w.net.sent ++ fs ∧
      ∀ f ∈ fs, ∃ fr seq m, Encap.parseFrame f = some fr ∧ fr.command = Encap.CMD_SEND_UNIT ∧
        Encap.parseCpf fr.body = some (.connected (leVal cid) seq m) ∧ 2 + m.length ≤ w.drv.connectionSize := by
  obtain ⟨w0, pre, h0, _, hext⟩ := read_call_frames_fit hook cfg w w' tags r h
  rw [show Cli.FUEL = 7 + 1 from rfl, ldr_ensureFO_connected hook 7 w hconn] at h0
  simp only [Prod.mk.injEq] at h0
  obtain ⟨rfl, _⟩ := h0
  obtain ⟨_, _, fs, hs, hf⟩ := hext (by
    rcases hpath with hC | hp
    · intro p _ info path _ _ hpa
      have := (ldf_requestPathOf_len cfg _ info path hpa).2
      omega
    · exact hp)
  exact ⟨fs, hs, fun f hfm => ldf_unitFits_parsed w.drv.ctx _ f cid hctx hcid hl (hf f hfm)⟩

/-- the same for `write`; the path condition (needed for bit writes only) holds for every request when the connection
    size is at least 533 -/
theorem write_call_frames_parsed {σ} (hook : ObjHook σ) (cfg : Cfg) (w w' : Cli.World σ) (tvs : List (Name × PyVal))
    (r : Except Exn (List LTag)) (cid : Bytes)
    (hconn : w.drv.targetIsConnected = true) (hctx : w.drv.context.length = 8)
    (hcid : w.drv.targetCid = some cid) (hl : cid.length = 4)
    (hpath : 533 ≤ w.drv.connectionSize ∨
      ∀ p ∈ lds_wparse cfg.tags tvs, ∀ info path, p.error = none → p.info = some info →
        requestPathOf cfg p.plcTag info = .ok path → path.length + 21 ≤ w.drv.connectionSize)
    (h : write hook cfg w tvs = (w', r)) :
    ∃ fs, w'.net.sent = w.net.sent ++ fs ∧
      ∀ f ∈ fs, ∃ fr seq m, Encap.parseFrame f = some fr ∧ fr.command = Encap.CMD_SEND_UNIT ∧
        Encap.parseCpf fr.body = some (.connected (leVal cid) seq m) ∧ 2 + m.length ≤ w.drv.connectionSize := by
  obtain ⟨w0, pre, h0, _, hext⟩ := write_call_frames_fit hook cfg w w' tvs r h
  rw [show Cli.FUEL = 7 + 1 from rfl, ldr_ensureFO_connected hook 7 w hconn] at h0
  simp only [Prod.mk.injEq] at h0
  obtain ⟨rfl, _⟩ := h0
  obtain ⟨_, _, fs, hs, hf⟩ := hext (by
    rcases hpath with hC | hp
    · intro p _ info path _ _ hpa
      have := (ldf_requestPathOf_len cfg _ info path hpa).2
      omega
    · exact hp)
  exact ⟨fs, hs, fun f hfm => ldf_unitFits_parsed w.drv.ctx _ f cid hctx hcid hl (hf f hfm)⟩

/-- the connected example world (connection size 4000, connection id 01 02 03 04): every frame of any `read` call -/
example : ∀ tags w' r, read exLogixHook exCfg exLiveWorld tags = (w', r) →
    ∃ fs, w'.net.sent = exLiveWorld.net.sent ++ fs ∧
      ∀ f ∈ fs, ∃ fr seq m, Encap.parseFrame f = some fr ∧ fr.command = Encap.CMD_SEND_UNIT ∧
        Encap.parseCpf fr.body = some (.connected 0x04030201 seq m) ∧ 2 + m.length ≤ 4000 :=
  fun tags w' r h =>
    read_call_frames_parsed exLogixHook exCfg exLiveWorld w' tags r [1, 2, 3, 4] rfl rfl rfl rfl (.inl (by decide)) h

/-- (what such a call writes: two reads of `x` go out as one Multiple Service Packet, sequence count 3, 28 bytes) -/
example : ((read exLogixHook exCfg exLiveWorld [Drv.nm "x", Drv.nm "x"]).1.net.sent.map fun f =>
    (Encap.parseFrame f).map fun fr => (fr.command, (Encap.parseCpf fr.body).map fun c =>
      match c with | .connected cid seq m => (cid, seq, m.length) | _ => (0, 0, 0))) =
    [some (0x70, some (0x04030201, 3, 28))] := by rfl

example : ∀ tvs w' r, write exLogixHook exCfg exLiveWorld tvs = (w', r) →
    ∃ fs, w'.net.sent = exLiveWorld.net.sent ++ fs ∧
      ∀ f ∈ fs, ∃ fr seq m, Encap.parseFrame f = some fr ∧ fr.command = Encap.CMD_SEND_UNIT ∧
        Encap.parseCpf fr.body = some (.connected 0x04030201 seq m) ∧ 2 + m.length ≤ 4000 :=
  fun tvs w' r h =>
    write_call_frames_parsed exLogixHook exCfg exLiveWorld w' tvs r [1, 2, 3, 4] rfl rfl rfl rfl (.inl (by decide)) h

/-- (a DINT write and a bit write: one Multiple Service Packet of 24 bytes, one Read-Modify-Write request of 18) -/
example : ((write exLogixHook exCfg exLiveWorld [(Drv.nm "x", .int 9), (Drv.nm "d[5]", .bool true)]).1.net.sent.map fun f =>
    (Encap.parseFrame f).map fun fr => (fr.command, (Encap.parseCpf fr.body).map fun c =>
      match c with | .connected cid seq m => (cid, seq, m.length) | _ => (0, 0, 0))) =
    [some (0x70, some (0x04030201, 3, 24)), some (0x70, some (0x04030201, 2, 18))] := by rfl

end Pycomm.Lgx.Drv
