/-
  C13 at the driver level for ARBITRARY reply bytes, part 4 of the second round: SEVERAL packets, each answered by its
  own arbitrary reply.

    * `ldaf_sendRequest_queue`: the iteration of `_send_requests` for a non-fragmented packet consumes the reply at the
      head of the queue and leaves the others waiting;
    * `ldaf_applyAll`, `ldaf_sendRequests_queue`: `_send_requests` over k non-fragmented packets and a queue of k
      arbitrary replies: packet j is judged by reply j;
    * `ldaf_applyAll_multiRead_table`, `ldaf_applyAll_multiWrite_table`: the entries of the results table after k
      Multiple Service Packets — each is a good entry for "SOME packet paired this request with an embedded reply with
      OK status words, and that packet's own reply has encapsulation status 0" (`ldaf_PacketsOk`);
    * `ldaf_read_packets`, `ldaf_write_packets`: `read` / `write` in terms of `_send_requests` over the built packets.
-/
import PycommProofs.LDAnyF3
namespace Pycomm.Lgx.Drv
open Pycomm Pycomm.Tgt Pycomm.Path Pycomm.Reply Pycomm.Encap Pycomm.RP

/-! ### one non-fragmented packet, several replies waiting -/

theorem ldaf_sendRequest_queue {σ} (hook : ObjHook σ) (w : Cli.World σ) (rs : Results) (q : Request) (raw : Bytes)
    (rest : List (Option Bytes)) (hq : q.lda_plain = true) (hp : w.net.pending = some raw :: rest) :
    ((sendRequest hook w rs q).2 = lda_apply rs (some raw) q ∧
      (∃ x, (sendRequest hook w rs q).1.net.pending = rest ++ [x]) ∧
      (sendRequest hook w rs q).1.net.sent.length = w.net.sent.length + 1) ∨
    (sendRequest hook w rs q).2 = .error .comm ∨ (sendRequest hook w rs q).2 = .error .data := by
  have fin : ∀ (seq : Nat) (msg : Bytes) (k : Option Bytes → Except Exn Results) (X : Cli.World σ × Except Exn Results),
      X = (match sendUnit hook w seq msg with
            | (w1, r) => match r with
              | .error e => (w1, .error e)
              | .ok raw' => (w1, k raw')) →
      (X.2 = k (some raw) ∧ (∃ x, X.1.net.pending = rest ++ [x]) ∧ X.1.net.sent.length = w.net.sent.length + 1) ∨
      X.2 = .error .comm ∨ X.2 = .error .data := by
    intro seq msg k X hX
    have hu := ldaf_sendUnit_queue hook w seq msg raw rest hp
    rcases hs : sendUnit hook w seq msg with ⟨w1, r⟩
    rw [hs] at hu hX
    dsimp only at hu hX
    rcases hu with h | h | ⟨h1, _, h3, h4⟩
    · subst h; rw [hX]; exact .inr (.inl rfl)
    · subst h; rw [hX]; exact .inr (.inr rfl)
    · subst h1; rw [hX]; exact .inl ⟨rfl, h3, h4⟩
  cases q with
  | read req =>
    exact fin req.seq _ (fun r => lda_apply rs r (.read req)) _ (by unfold sendRequest; rfl)
  | readFrag req => cases hq
  | write req =>
    exact fin req.seq _ (fun r => lda_apply rs r (.write req)) _ (by unfold sendRequest; rfl)
  | writeFrag req => cases hq
  | rmw req =>
    cases hm : rmwMessage req with
    | error e =>
      right; right
      unfold sendRequest
      dsimp only
      rw [hm]
      dsimp only
      rw [lda_rmwMessage_err req e hm]
    | ok m =>
      refine fin req.seq m (fun r => lda_apply rs r (.rmw req)) _ ?_
      unfold sendRequest
      dsimp only
      rw [hm]
      rfl
  | multiRead s reqs =>
    refine fin s (Cl.multiMsg (reqs.map fun q => Cl.readMsg q.path q.elements)) (fun r => lda_apply rs r (.multiRead s reqs)) _ ?_
    unfold sendRequest lda_apply
    dsimp only
    rcases sendUnit hook w s _ with ⟨w1, r⟩
    cases r with
    | error e => rfl
    | ok raw' =>
      dsimp only
      cases multiPacketError (tagResp raw') with
      | error e => rfl
      | ok o => cases o <;> rfl
  | multiWrite s reqs =>
    refine fin s (Cl.multiMsg (reqs.map fun q => Cl.writeMsg q.path q.typeBytes q.elements q.value)) (fun r => lda_apply rs r (.multiWrite s reqs)) _ ?_
    unfold sendRequest lda_apply
    dsimp only
    rcases sendUnit hook w s _ with ⟨w1, r⟩
    cases r with
    | error e => rfl
    | ok raw' =>
      dsimp only
      cases multiPacketError (tagResp raw') with
      | error e => rfl
      | ok o => cases o <;> rfl

/-! ### k non-fragmented packets, k replies -/

/-- what `_send_requests` makes of non-fragmented packets, each paired with the reply it is answered by -/
def ldaf_applyAll : Results → List (Request × Bytes) → Except Exn Results
  | rs, [] => .ok rs
  | rs, (q, raw) :: more =>
      match lda_apply rs (some raw) q with
      | .error e => .error e
      | .ok rs1 => ldaf_applyAll rs1 more

/-- `_send_requests` over the non-fragmented packets `qs` with the arbitrary replies `raws` waiting, at least one per
    packet: packet j is answered by reply j; the outcome is `ldaf_applyAll` (a function of the replies alone) and, when no
    exception is raised, one frame per packet was written; or the transport fails with CommError / DataError -/
theorem ldaf_sendRequests_queue {σ} (hook : ObjHook σ) : ∀ (qs : List Request) (raws : List Bytes) (w : Cli.World σ)
    (rs : Results) (rest : List (Option Bytes)),
    (∀ q ∈ qs, q.lda_plain = true) → w.net.pending = raws.map some ++ rest → qs.length ≤ raws.length →
    ((sendRequests hook w rs qs).2 = ldaf_applyAll rs (qs.zip raws) ∧
      (∀ rs', (sendRequests hook w rs qs).2 = .ok rs' →
        (sendRequests hook w rs qs).1.net.sent.length = w.net.sent.length + qs.length)) ∨
    (sendRequests hook w rs qs).2 = .error .comm ∨ (sendRequests hook w rs qs).2 = .error .data := by
  intro qs
  induction qs with
  | nil =>
    intro raws w rs rest _ _ _
    left
    rw [sendRequests]
    exact ⟨rfl, fun _ _ => rfl⟩
  | cons q more_qs ih =>
    intro raws w rs rest hplain hp hlen
    cases raws with
    | nil => simp at hlen
    | cons raw more =>
      rw [ldaf_queue_cons] at hp
      have hq := ldaf_sendRequest_queue hook w rs q raw _ (hplain q List.mem_cons_self) hp
      rw [sendRequests]
      rcases hs : sendRequest hook w rs q with ⟨w1, r⟩
      rw [hs] at hq
      dsimp only at hq ⊢
      rcases hq with ⟨h1, ⟨x, hx⟩, hsent⟩ | h1 | h1
      · rw [List.zip_cons_cons, ldaf_applyAll, ← h1]
        cases r with
        | error e => left; exact ⟨rfl, fun rs' h => by cases h⟩
        | ok rs1 =>
          dsimp only
          have hp2 : w1.net.pending = more.map some ++ (rest ++ [x]) := by rw [hx, List.append_assoc]
          rcases ih more w1 rs1 (rest ++ [x]) (fun q' hq' => hplain q' (List.mem_cons_of_mem _ hq')) hp2
            (by simpa using hlen) with ⟨h2, h3⟩ | h2 | h2
          · left
            refine ⟨h2, fun rs' h => ?_⟩
            rw [h3 rs' h, hsent, List.length_cons]
            omega
          · exact .inr (.inl h2)
          · exact .inr (.inr h2)
      · subst h1; exact .inr (.inl rfl)
      · subst h1; exact .inr (.inr rfl)

/-! ### the entries of the results table after k Multiple Service Packets -/

theorem ldaf_GoodEntry_mono (P Q : Prop) (t : LTag) (hpq : P → Q) (h : lda_GoodEntry P t) : lda_GoodEntry Q t := by
  rcases h with ⟨h1, h2, h3⟩ | h
  · exact .inl ⟨h1, hpq h2, h3⟩
  · exact .inr h

theorem ldaf_GoodEntryW_mono (P Q : Prop) (t : LTag) (hpq : P → Q) (h : lda_GoodEntryW P t) : lda_GoodEntryW Q t := by
  rcases h with ⟨h1, h2⟩ | h
  · exact .inl ⟨h1, hpq h2⟩
  · exact .inr h

/-- the non-fragmented packets of a `read`: Read Tag, or a Multiple Service Packet of Read Tag requests -/
def Request.ldaf_readKind : Request → Bool
  | .read _ | .multiRead _ _ => true
  | _ => false

/-- the non-fragmented packets of a `write` without bit writes: Write Tag, or a Multiple Service Packet of them -/
def Request.ldaf_writeKind : Request → Bool
  | .write _ | .multiWrite _ _ => true
  | _ => false

theorem ldaf_readKind_plain (q : Request) (h : q.ldaf_readKind = true) : q.lda_plain = true := by
  cases q <;> first | rfl | cases h

theorem ldaf_writeKind_plain (q : Request) (h : q.ldaf_writeKind = true) : q.lda_plain = true := by
  cases q <;> first | rfl | cases h

/-- the claim about ONE packet `q` answered by `raw`, for the request with id `k`: `q` carries the request and `raw`
    says it succeeded — a plain Read / Write Tag packet of that request whose reply has OK status words, or a Multiple
    Service Packet whose reply has encapsulation status 0 and pairs the request with an embedded reply whose own status
    words are OK (`lda_PairOk`) -/
def ldaf_PacketOk (q : Request) (raw : Bytes) (k : Int) : Prop :=
  match q with
  | .read req => (req.rid : Int) = k ∧ StatusWordsOk .connected raw
  | .write req => (req.rid : Int) = k ∧ StatusWordsOk .connected raw
  | .multiRead _ reqs => lda_PairOk (fun r : ReadReq => r.rid) raw reqs k
  | .multiWrite _ reqs => lda_PairOk (fun r : WriteReq => r.rid) raw reqs k
  | _ => False

/-- the claim about the packets `qs` answered one by one by `raws`, for the request with id `k`: SOME packet j — the one
    that carries the request — is answered by ITS reply j with success for that request (`ldaf_PacketOk`) -/
def ldaf_PacketsOk (qs : List Request) (raws : List Bytes) (k : Int) : Prop :=
  ∃ p ∈ qs.zip raws, ldaf_PacketOk p.1 p.2 k

theorem ldaf_apply_read_table (rs rs' : Results) (raw : Bytes) (q : Request) (hk : q.ldaf_readKind = true)
    (h : lda_apply rs (some raw) q = .ok rs') :
    ∀ x ∈ rs', x ∈ rs ∨ lda_GoodEntry (ldaf_PacketOk q raw x.1) x.2 := by
  cases q with
  | read req =>
    intro x hx
    rw [lda_apply_read] at h
    rcases lda_readOutcome_cases req (some raw) with ⟨t, ht, _, hcase⟩ | he | he
    · rw [ht] at h
      cases h
      rcases lds_set_mem _ _ _ _ hx with h1 | h1
      · exact .inl h1
      · right
        rw [h1]
        rcases hcase with ⟨e1, ⟨b, hb, hok⟩, dt, e3⟩ | ⟨e, e1, e2, e3, _⟩
        · cases hb
          exact .inl ⟨e1, ⟨rfl, hok⟩, lda_parseReadReply_solid _ _ _ _ _ e3⟩
        · exact .inr ⟨e, e1, e2, e3⟩
    · rw [he] at h; cases h
    · rw [he] at h; cases h
  | multiRead seq reqs => exact lda_apply_multiRead_table rs rs' raw seq reqs h
  | readFrag _ => cases hk
  | write _ => cases hk
  | writeFrag _ => cases hk
  | rmw _ => cases hk
  | multiWrite _ _ => cases hk

theorem ldaf_apply_write_table (rs rs' : Results) (raw : Bytes) (q : Request) (hk : q.ldaf_writeKind = true)
    (h : lda_apply rs (some raw) q = .ok rs') :
    ∀ x ∈ rs', x ∈ rs ∨ lda_GoodEntryW (ldaf_PacketOk q raw x.1) x.2 := by
  cases q with
  | write req =>
    intro x hx
    rw [lda_apply_write] at h
    rcases lda_writeOutcome_cases req.tag (.bytes req.value) req.info.core.dataTypeName (some raw) with
      ⟨t, ht, _, hcase⟩ | he | he
    · rw [ht] at h
      cases h
      rcases lds_set_mem _ _ _ _ hx with h1 | h1
      · exact .inl h1
      · right
        rw [h1]
        rcases hcase with ⟨e1, ⟨b, hb, hok⟩, _⟩ | ⟨e, e1, e2, _, _⟩
        · cases hb
          exact .inl ⟨e1, rfl, hok⟩
        · exact .inr ⟨e, e1, e2⟩
    · rw [he] at h; cases h
    · rw [he] at h; cases h
  | multiWrite seq reqs => exact lda_apply_multiWrite_table rs rs' raw seq reqs h
  | readFrag _ => cases hk
  | read _ => cases hk
  | writeFrag _ => cases hk
  | rmw _ => cases hk
  | multiRead _ _ => cases hk

/-- the results table after the non-fragmented packets of a `read`, each answered by its own arbitrary reply: every new
    entry is a good entry for `ldaf_PacketsOk` -/
theorem ldaf_applyAll_read_table : ∀ (l : List (Request × Bytes)) (rs rs' : Results),
    (∀ p ∈ l, p.1.ldaf_readKind = true) → ldaf_applyAll rs l = .ok rs' →
    ∀ x ∈ rs', x ∈ rs ∨ lda_GoodEntry (∃ p ∈ l, ldaf_PacketOk p.1 p.2 x.1) x.2 := by
  intro l
  induction l with
  | nil =>
    intro rs rs' _ h x hx
    rw [ldaf_applyAll] at h
    cases h
    exact .inl hx
  | cons p more ih =>
    intro rs rs' hk h x hx
    obtain ⟨q, raw⟩ := p
    rw [ldaf_applyAll] at h
    cases ha : lda_apply rs (some raw) q with
    | error e => rw [ha] at h; cases h
    | ok rs1 =>
      rw [ha] at h
      dsimp only at h
      rcases ih rs1 rs' (fun p' hp' => hk p' (List.mem_cons_of_mem _ hp')) h x hx with h1 | h1
      · rcases ldaf_apply_read_table rs rs1 raw q (hk (q, raw) List.mem_cons_self) ha x h1 with h2 | h2
        · exact .inl h2
        · exact .inr (ldaf_GoodEntry_mono _ _ _ (fun hpo => ⟨(q, raw), List.mem_cons_self, hpo⟩) h2)
      · right
        refine ldaf_GoodEntry_mono _ _ _ (fun hpo => ?_) h1
        obtain ⟨pr, hpr, hok⟩ := hpo
        exact ⟨pr, List.mem_cons_of_mem _ hpr, hok⟩

theorem ldaf_applyAll_write_table : ∀ (l : List (Request × Bytes)) (rs rs' : Results),
    (∀ p ∈ l, p.1.ldaf_writeKind = true) → ldaf_applyAll rs l = .ok rs' →
    ∀ x ∈ rs', x ∈ rs ∨ lda_GoodEntryW (∃ p ∈ l, ldaf_PacketOk p.1 p.2 x.1) x.2 := by
  intro l
  induction l with
  | nil =>
    intro rs rs' _ h x hx
    rw [ldaf_applyAll] at h
    cases h
    exact .inl hx
  | cons p more ih =>
    intro rs rs' hk h x hx
    obtain ⟨q, raw⟩ := p
    rw [ldaf_applyAll] at h
    cases ha : lda_apply rs (some raw) q with
    | error e => rw [ha] at h; cases h
    | ok rs1 =>
      rw [ha] at h
      dsimp only at h
      rcases ih rs1 rs' (fun p' hp' => hk p' (List.mem_cons_of_mem _ hp')) h x hx with h1 | h1
      · rcases ldaf_apply_write_table rs rs1 raw q (hk (q, raw) List.mem_cons_self) ha x h1 with h2 | h2
        · exact .inl h2
        · exact .inr (ldaf_GoodEntryW_mono _ _ _ (fun hpo => ⟨(q, raw), List.mem_cons_self, hpo⟩) h2)
      · right
        refine ldaf_GoodEntryW_mono _ _ _ (fun hpo => ?_) h1
        obtain ⟨pr, hpr, hok⟩ := hpo
        exact ⟨pr, List.mem_cons_of_mem _ hpr, hok⟩

/-- one non-fragmented read / write packet over an arbitrary reply raises BufferEmptyError / DataError at most -/
theorem ldaf_apply_err (rs : Results) (raw : Bytes) (q : Request) (e : Exn)
    (hk : q.ldaf_readKind = true ∨ q.ldaf_writeKind = true) (h : lda_apply rs (some raw) q = .error e) :
    e = .bufferEmpty ∨ e = .data := by
  cases q with
  | read req =>
    rw [lda_apply_read] at h
    rcases lda_readOutcome_cases req (some raw) with ⟨t, ht, _⟩ | he | he
    · rw [ht] at h; cases h
    · rw [he] at h; cases h; exact .inl rfl
    · rw [he] at h; cases h; exact .inr rfl
  | write req =>
    rw [lda_apply_write] at h
    rcases lda_writeOutcome_cases req.tag (.bytes req.value) req.info.core.dataTypeName (some raw) with ⟨t, ht, _⟩ | he | he
    · rw [ht] at h; cases h
    · rw [he] at h; cases h; exact .inl rfl
    · rw [he] at h; cases h; exact .inr rfl
  | multiRead seq reqs => exact lda_apply_multi_err rs (some raw) _ e (.inl ⟨seq, reqs, rfl⟩) h
  | multiWrite seq reqs => exact lda_apply_multi_err rs (some raw) _ e (.inr ⟨seq, reqs, rfl⟩) h
  | readFrag _ => rcases hk with hk | hk <;> cases hk
  | writeFrag _ => rcases hk with hk | hk <;> cases hk
  | rmw _ => rcases hk with hk | hk <;> cases hk

/-- k non-fragmented read / write packets over arbitrary replies raise BufferEmptyError / DataError at most -/
theorem ldaf_applyAll_err : ∀ (l : List (Request × Bytes)) (rs : Results) (e : Exn),
    (∀ p ∈ l, p.1.ldaf_readKind = true ∨ p.1.ldaf_writeKind = true) →
    ldaf_applyAll rs l = .error e → e = .bufferEmpty ∨ e = .data := by
  intro l
  induction l with
  | nil => intro rs e _ h; rw [ldaf_applyAll] at h; cases h
  | cons p more ih =>
    intro rs e hall h
    obtain ⟨q, raw⟩ := p
    rw [ldaf_applyAll] at h
    cases ha : lda_apply rs (some raw) q with
    | error e' =>
      rw [ha] at h
      cases h
      exact ldaf_apply_err rs raw q e (hall (q, raw) List.mem_cons_self) ha
    | ok rs1 =>
      rw [ha] at h
      exact ih rs1 e (fun p' hp' => hall p' (List.mem_cons_of_mem _ hp')) h

/-! ### `read` / `write` in terms of `_send_requests` over the built packets -/

theorem ldaf_read_packets {σ} (hook : ObjHook σ) (cfg : Cfg) (w : Cli.World σ) (tags : List Name) (d1 : Cli.Drv)
    (qs : List Request) (hconn : w.drv.targetIsConnected = true) (hne : tags ≠ [])
    (hbuild : readBuildRequests cfg w.drv (parseRequestedTags cfg.tags false tags) = (d1, .ok qs)) :
    (read hook cfg w tags).2 =
      (match (sendRequests hook { w with drv := d1 } [] qs).2 with
       | .error e => .error e
       | .ok rs => .ok ((parseRequestedTags cfg.tags false tags).map fun p => readResult p rs)) ∧
    (read hook cfg w tags).1.net.sent.length = (sendRequests hook { w with drv := d1 } [] qs).1.net.sent.length := by
  have hfo : Cli.ensureForwardOpen hook Cli.FUEL w = (w, .ok ()) := ldr_ensureFO_connected hook 7 w hconn
  have hemp : tags.isEmpty = false := by cases tags with | nil => exact absurd rfl hne | cons _ _ => rfl
  unfold read
  rw [hfo]
  dsimp only
  rw [hbuild]
  dsimp only
  rcases sendRequests hook { w with drv := d1 } [] qs with ⟨w2, rs⟩
  cases rs with
  | error e => exact ⟨rfl, rfl⟩
  | ok rs =>
    dsimp only
    simp only [hemp, Bool.false_eq_true, if_false]
    exact ⟨trivial, trivial⟩

theorem ldaf_write_packets {σ} (hook : ObjHook σ) (cfg : Cfg) (w : Cli.World σ) (tvs : List (Name × PyVal)) (d1 : Cli.Drv)
    (ps' : List Drv.Parsed) (qs : List Request) (hconn : w.drv.targetIsConnected = true) (hne : tvs ≠ [])
    (hbuild : writeBuildRequests cfg w.drv (lds_wparse cfg.tags tvs) = (d1, .ok (ps', qs))) :
    (write hook cfg w tvs).2 =
      (match (sendRequests hook { w with drv := d1 } [] qs).2 with
       | .error e => .error e
       | .ok rs =>
           match fanOutRmw rs qs with
           | none => .error (.foreign "KeyError")
           | some rs' => .ok (ps'.map fun p => writeResult p rs')) ∧
    (write hook cfg w tvs).1.net.sent.length = (sendRequests hook { w with drv := d1 } [] qs).1.net.sent.length := by
  have hfo : Cli.ensureForwardOpen hook Cli.FUEL w = (w, .ok ()) := ldr_ensureFO_connected hook 7 w hconn
  have hemp : tvs.isEmpty = false := by cases tvs with | nil => exact absurd rfl hne | cons _ _ => rfl
  unfold lds_wparse at hbuild
  unfold write
  rw [hfo]
  dsimp only
  rw [hbuild]
  dsimp only
  rcases sendRequests hook { w with drv := d1 } [] qs with ⟨w2, rs⟩
  cases rs with
  | error e => exact ⟨rfl, rfl⟩
  | ok rs =>
    dsimp only
    cases fanOutRmw rs qs with
    | none => exact ⟨rfl, rfl⟩
    | some rs' =>
      dsimp only
      simp only [hemp, Bool.false_eq_true, if_false]
      exact ⟨trivial, trivial⟩

/-- packets without Read-Modify-Write requests: the fan-out is the identity -/
theorem ldaf_fanOut_none : ∀ (qs : List Request) (rs : Results), (∀ q ∈ qs, ∀ r, q ≠ .rmw r) → fanOutRmw rs qs = some rs := by
  intro qs
  induction qs with
  | nil => intro rs _; rfl
  | cons q more ih =>
    intro rs h
    have hm := ih rs (fun q' hq' => h q' (List.mem_cons_of_mem _ hq'))
    cases q with
    | rmw r => exact absurd rfl (h _ List.mem_cons_self r)
    | read _ => rw [fanOutRmw]; exact hm; intro r hr; cases hr
    | readFrag _ => rw [fanOutRmw]; exact hm; intro r hr; cases hr
    | write _ => rw [fanOutRmw]; exact hm; intro r hr; cases hr
    | writeFrag _ => rw [fanOutRmw]; exact hm; intro r hr; cases hr
    | multiRead _ _ => rw [fanOutRmw]; exact hm; intro r hr; cases hr
    | multiWrite _ _ => rw [fanOutRmw]; exact hm; intro r hr; cases hr

end Pycomm.Lgx.Drv
