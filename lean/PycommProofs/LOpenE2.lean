/-
  LogixDriver.open(), end to end, part 2: the Forward Open of `with_forward_open` on a registered session that is not
  connected yet — large first, and, when the target refuses it, standard with connection size 500 — for an arbitrary fuel.
-/
import PycommProofs.LOpenE1
import PycommProofs.LCInv
import PycommProofs.GMe2eTime
namespace Pycomm.Cli
open Pycomm.Tgt Pycomm.Encap Pycomm.Path Pycomm.Reply Pycomm.EN Pycomm.EP

/-- what a Forward Open leaves alone in the target -/
structure loe_TSame {σ} (t t' : Target σ) : Prop where
  ext : t'.ext = t.ext
  identity : t'.base.identity = t.base.identity
  plcName : t'.base.plcName = t.base.plcName
  policy : t'.base.policy = t.base.policy
  sessions : t'.base.sessions = t.base.sessions

theorem loe_TSame.refl {σ} (t : Target σ) : loe_TSame t t := ⟨rfl, rfl, rfl, rfl, rfl⟩

theorem loe_TSame.trans {σ} {a b c : Target σ} (h1 : loe_TSame a b) (h2 : loe_TSame b c) : loe_TSame a c :=
  ⟨h2.ext.trans h1.ext, h2.identity.trans h1.identity, h2.plcName.trans h1.plcName, h2.policy.trans h1.policy,
   h2.sessions.trans h1.sessions⟩

/-- the connection the target books for an accepted Forward Open -/
def loe_foConn (b : Base) (sess : Nat) (large : Bool) (r : FoReq) : Conn :=
  { cid := b.nextCid, toId := r.toId, session := sess, size := r.size, large := large, serial := r.serial,
    vendor := r.vendor, origSerial := r.origSerial, lastSeq := none, route := r.path }

/-- the connection manager on a well-formed Forward Open with an acceptable connection path, no connection booked yet -/
theorem loe_tgt_fo (b : Base) (sess : Nat) (large : Bool) (d : Bytes) (r : FoReq)
    (hr : parseFo large d = some r) (hpath : foPathOk r.path = true) (hconns : b.conns = []) :
    Tgt.forwardOpen b sess large d =
      if (if large then b.policy.largeFoOk else b.policy.stdFoOk) = true then
        (({ b with conns := [loe_foConn b sess large r], nextCid := (b.nextCid + 0x10001) % 2 ^ 32 } : Base).event
            (.fo large r.size true),
         { data := le 4 b.nextCid ++ le 4 r.toId ++ le 2 r.serial ++ le 2 r.vendor ++ le 4 r.origSerial ++
                   le 4 0x00204001 ++ le 4 0x00204001 ++ [0, 0] })
      else (b.event (.fo large r.size false), if large then { status := 0x08 } else { status := 0x01, ext := [0x0113] }) := by
  unfold Tgt.forwardOpen
  rw [hr]
  dsimp only
  by_cases hal : (if large then b.policy.largeFoOk else b.policy.stdFoOk) = true
  · rw [if_pos hal]
    simp only [hal, Bool.not_true, Bool.false_eq_true, if_false, hpath, hconns, List.any_nil, List.nil_append]
    rfl
  · rw [if_neg hal]
    have hal' : (if large then b.policy.largeFoOk else b.policy.stdFoOk) = false := by
      cases h : (if large then b.policy.largeFoOk else b.policy.stdFoOk) with
      | true => exact absurd h hal
      | false => rfl
    simp only [hal', Bool.not_false, if_true]

/-- the Forward-Open related configuration of the driver -/
structure loe_FoCfg (d : Drv) (n : UInt8) (path : Bytes) : Prop where
  cid4 : d.cid.length = 4
  csn2 : d.csn.length = 2
  vid2 : d.vid.length = 2
  vsn4 : d.vsn.length = 4
  /-- the configured route followed by the message router encodes to a connection path the target accepts -/
  route : encEpath true (d.cipPath ++ msgRouterPath) true false = .ok (n :: path)
  pathLen : path.length = 2 * n.toNat
  pathOk : foPathOk path = true

theorem loe_cm_path : classInst (gme_wantPath 6 1 none) = some (0x06, 1, []) := by decide

/-- the outcome of one `_forward_open()` attempt, for both answers of the target -/
structure loe_FoOutcome {σ} (w w' : World σ) (sess : Nat) (large : Bool) (size : Nat) (r : Except Exn Bool) : Prop where
  same : loe_TSame w.net.target w'.net.target
  sent : ∃ frm, w'.net.sent = w.net.sent ++ [frm]
  accepted : (if large then w.net.target.base.policy.largeFoOk else w.net.target.base.policy.stdFoOk) = true →
    r = .ok true ∧
    w'.drv = { w.drv with targetCid := some (le 4 w.net.target.base.nextCid), targetIsConnected := true } ∧
    ∃ conn, gme_Healthy w' sess (le 4 w.net.target.base.nextCid) conn ∧ conn.size = size ∧ conn.large = large ∧
      conn.lastSeq = none
  refused : (if large then w.net.target.base.policy.largeFoOk else w.net.target.base.policy.stdFoOk) = false →
    r = .ok false ∧ w'.drv = w.drv ∧ gme_Session w' sess ∧ w'.net.target.base.conns = w.net.target.base.conns ∧
    w'.net.target.base.nextCid = w.net.target.base.nextCid

/-- the common part: after the request was delivered to the connection manager -/
theorem loe_fo_finish {σ} (hook : ObjHook σ) (w : World σ) (sess : Nat) (large : Bool) (svc size : Nat) (frm d : Bytes)
    (r : FoReq) (value : PyVal) (err : Option Err)
    (hw : gme_Session w sess) (hconns : w.net.target.base.conns = []) (hcid : w.net.target.base.nextCid < 2 ^ 32)
    (hsvc : (decide (svc = 0x5B)) = large) (hsvc2 : svc = 0x54 ∨ svc = 0x5B)
    (hr : parseFo large d = some r) (hpath : foPathOk r.path = true) (hsize : r.size = size)
    (htag : gme_TagOf .unconnected svc
        (gme_dispatch hook (gme_rrIn w.net.target sess false { service := svc, path := gme_wantPath 6 1 none, data := d } [])
          sess none false { service := svc, path := gme_wantPath 6 1 none, data := d }).2 none value err) :
    let w1 := gme_after w w.drv frm
      (gme_dispatch hook (gme_rrIn w.net.target sess false { service := svc, path := gme_wantPath 6 1 none, data := d } [])
        sess none false { service := svc, path := gme_wantPath 6 1 none, data := d }).1
    let tag : Tag := { name := nm "forward_open", value := value, error := err }
    ∃ w' res,
      (if tag.truthy then
          (({ w1 with drv := { w1.drv with
                                targetCid := some (match tag.value with | .bytes b => b.take 4 | _ => []),
                                targetIsConnected := true } } : World σ), (.ok true : Except Exn Bool))
        else (w1, .ok false)) = (w', res) ∧
      loe_FoOutcome w w' sess large size res := by
  intro w1 tag
  have hdisp := gme_dispatch_cm hook
    (gme_rrIn w.net.target sess false { service := svc, path := gme_wantPath 6 1 none, data := d } []) sess none false
    { service := svc, path := gme_wantPath 6 1 none, data := d } loe_cm_path
  simp only [Bool.false_eq_true, if_false] at hdisp
  rw [if_pos hsvc2, hsvc] at hdisp
  have hfo := loe_tgt_fo
    (gme_rrIn w.net.target sess false { service := svc, path := gme_wantPath 6 1 none, data := d } []).base sess large d r hr hpath
    hconns
  have hpolL : (gme_rrIn w.net.target sess false { service := svc, path := gme_wantPath 6 1 none, data := d } []).base.policy =
      w.net.target.base.policy := rfl
  have hcidE : (gme_rrIn w.net.target sess false { service := svc, path := gme_wantPath 6 1 none, data := d } []).base.nextCid =
      w.net.target.base.nextCid := rfl
  rw [hpolL, hcidE] at hfo
  obtain ⟨hv, hok, hbad⟩ := gme_tag_untyped _ _ _ (nm "forward_open") _ _ htag
  rw [gme_accepted_unconnected] at hok hbad
  cases hal : (if large then w.net.target.base.policy.largeFoOk else w.net.target.base.policy.stdFoOk) with
  | true =>
    rw [hal, if_pos rfl] at hfo
    have hD1 := congrArg Prod.fst hdisp
    have hD2 := congrArg Prod.snd hdisp
    dsimp only at hD1 hD2
    rw [hfo] at hD1 hD2
    dsimp only at hD1 hD2
    rw [hD2] at hok hv
    obtain ⟨herr, htruthy⟩ := hok rfl
    have htr : tag.truthy = true := htruthy
    have hval : tag.value = .bytes (le 4 w.net.target.base.nextCid ++ le 4 r.toId ++ le 2 r.serial ++ le 2 r.vendor ++
        le 4 r.origSerial ++ le 4 0x00204001 ++ le 4 0x00204001 ++ [0, 0]) := by
      show value = _
      rw [hv]
      rfl
    have htake : (match tag.value with | .bytes b => b.take 4 | _ => []) = le 4 w.net.target.base.nextCid := by
      rw [hval]
      dsimp only
      simp only [List.append_assoc]
      rw [List.take_left' (by simp [le, leBytes_length])]
    rw [if_pos htr, htake]
    refine ⟨_, _, rfl, ?_⟩
    have hT : w1.net.target = _ := hD1
    refine ⟨?_, ⟨frm, rfl⟩, fun _ => ⟨rfl, rfl, loe_foConn w.net.target.base sess large r, ?_, hsize, rfl, rfl⟩,
      (fun h => by rw [hal] at h; cases h)⟩
    · show loe_TSame w.net.target w1.net.target
      rw [hT]
      exact ⟨rfl, rfl, rfl, rfl, rfl⟩
    · exact
        { sock := hw.sock, ctx8 := hw.ctx8, opt0 := hw.opt0, session := hw.session, session32 := hw.session32,
          sessionReg := by
            show sess ∈ w1.net.target.base.sessions
            rw [hT]
            exact hw.sessionReg,
          pend := rfl, faults := hw.faults, connected := rfl, cid := rfl,
          cid4 := by simp [le, leBytes_length],
          conn := by
            show w1.net.target.base.conns.find? _ = _
            rw [hT]
            show [loe_foConn _ sess large r].find? _ = _
            have hl : leVal (le 4 w.net.target.base.nextCid) = w.net.target.base.nextCid :=
              leVal_leBytes 4 _ (by simpa using hcid)
            rw [hl]
            simp [loe_foConn, hcidE] }
  | false =>
    rw [hal, if_neg (by simp)] at hfo
    have hD1 := congrArg Prod.fst hdisp
    have hD2 := congrArg Prod.snd hdisp
    dsimp only at hD1 hD2
    rw [hfo] at hD1 hD2
    dsimp only at hD1 hD2
    have hst : (gme_dispatch hook
        (gme_rrIn w.net.target sess false { service := svc, path := gme_wantPath 6 1 none, data := d } []) sess none false
        { service := svc, path := gme_wantPath 6 1 none, data := d }).2.status % 256 ≠ 0 := by
      rw [hD2]
      cases large <;> decide
    obtain ⟨_, hfalsy⟩ := hbad (by simpa using hst)
    have htr : tag.truthy = false := hfalsy
    rw [htr]
    simp only [Bool.false_eq_true, if_false]
    refine ⟨_, _, rfl, ?_⟩
    have hT : w1.net.target = _ := hD1
    refine ⟨?_, ⟨frm, rfl⟩, (fun h => by rw [hal] at h; cases h), fun _ => ⟨rfl, rfl, ?_, ?_, ?_⟩⟩
    · show loe_TSame w.net.target w1.net.target
      rw [hT]
      exact ⟨rfl, rfl, rfl, rfl, rfl⟩
    · exact gme_Session_after hw w.drv frm _ rfl (by rw [hD1]; exact hw.sessionReg)
    · show w1.net.target.base.conns = _
      rw [hT]; rfl
    · show w1.net.target.base.nextCid = _
      rw [hT]; rfl

end Pycomm.Cli
