/-
  Normal forms of the request builders (C11): what `buildHeader`, `buildCpf`, `buildRequest` return when
  they succeed, and which exception they raise when they fail.
-/
import PycommProofs.ENBasic
namespace Pycomm.EN
open Pycomm Pycomm.Encap

theorem buildHeader_ok (cmd len : Nat) (ctx : Ctx) (h : Bytes) (hb : buildHeader cmd len ctx = .ok h) :
    ∃ s, ctx.session = some s ∧ s < 4294967296 ∧ ctx.option < 4294967296 ∧ len < 65536 ∧
      h = leBytes 2 cmd ++ (leBytes 2 len ++ (leBytes 4 s ++ ([0, 0, 0, 0] ++ (ctx.context ++ leBytes 4 ctx.option)))) := by
  unfold buildHeader at hb
  cases hs : ctx.session with
  | none => rw [hs] at hb; cases hb
  | some s =>
    simp only [hs] at hb
    cases h1 : u16 len with
    | error e => rw [h1] at hb; cases hb
    | ok l =>
      cases h2 : u32 s with
      | error e => rw [h1, h2] at hb; cases hb
      | ok se =>
        cases h3 : u32 ctx.option with
        | error e => rw [h1, h2, h3] at hb; cases hb
        | ok o =>
          rw [h1, h2, h3] at hb
          obtain ⟨rfl, hl⟩ := u16_ok _ _ h1
          obtain ⟨rfl, hse⟩ := u32_ok _ _ h2
          obtain ⟨rfl, ho⟩ := u32_ok _ _ h3
          cases hb
          exact ⟨s, rfl, hse, ho, hl, by simp⟩

theorem buildHeader_err (cmd len : Nat) (ctx : Ctx) (e : Exn) (hb : buildHeader cmd len ctx = .error e) :
    e = .comm := by
  unfold buildHeader at hb
  split at hb
  · cases hb; rfl
  · split at hb
    · cases hb
    · cases hb; rfl

/-- the address item's length+data part as `buildCpf` emits it -/
def addrPart : Option Bytes → Bytes
  | none => [0, 0]
  | some d => leBytes 2 d.length ++ d

theorem buildCpf_ok (aT : Nat) (ad : Option Bytes) (mT : Nat) (msg c : Bytes)
    (hb : buildCpf aT ad mT msg = .ok c) :
    msg.length < 65536 ∧ (∀ d, ad = some d → d.length < 65536) ∧
      c = [0, 0, 0, 0, 0x0a, 0, 2, 0] ++ (leBytes 2 aT ++ (addrPart ad ++ (leBytes 2 mT ++ (leBytes 2 msg.length ++ msg)))) := by
  unfold buildCpf at hb
  cases ad with
  | none =>
    simp only [bind, Except.bind, pure, Except.pure] at hb
    cases h1 : u16 msg.length with
    | error e => rw [h1] at hb; cases hb
    | ok ml =>
      rw [h1] at hb
      obtain ⟨rfl, hl⟩ := u16_ok _ _ h1
      cases hb
      exact ⟨hl, (by intro d hd; cases hd), by simp [addrPart]⟩
  | some d =>
    simp only [bind, Except.bind, pure, Except.pure] at hb
    cases h0 : u16 d.length with
    | error e => rw [h0] at hb; cases hb
    | ok dl =>
      rw [h0] at hb
      cases h1 : u16 msg.length with
      | error e => rw [h1] at hb; cases hb
      | ok ml =>
        rw [h1] at hb
        obtain ⟨rfl, hl⟩ := u16_ok _ _ h1
        obtain ⟨rfl, hd⟩ := u16_ok _ _ h0
        cases hb
        exact ⟨hl, (by intro d' hd'; cases hd'; exact hd), by simp [addrPart]⟩

theorem buildCpf_err (aT : Nat) (ad : Option Bytes) (mT : Nat) (msg : Bytes) (e : Exn)
    (hb : buildCpf aT ad mT msg = .error e) : e = .data := by
  unfold buildCpf at hb
  cases ad with
  | none =>
    simp only [bind, Except.bind, pure, Except.pure] at hb
    cases h1 : u16 msg.length with
    | error e' => rw [h1] at hb; cases hb; exact u16_err _ _ h1
    | ok ml => rw [h1] at hb; cases hb
  | some d =>
    simp only [bind, Except.bind, pure, Except.pure] at hb
    cases h0 : u16 d.length with
    | error e' => rw [h0] at hb; cases hb; exact u16_err _ _ h0
    | ok dl =>
      rw [h0] at hb
      cases h1 : u16 msg.length with
      | error e' => rw [h1] at hb; cases hb; exact u16_err _ _ h1
      | ok ml => rw [h1] at hb; cases hb

/-- the command-specific data of each request kind -/
def commonOf (r : Req) (ctx : Ctx) (common : Bytes) : Prop :=
  match r with
  | .registerSession pv fl => common = pv ++ fl
  | .unregisterSession => common = []
  | .listIdentity => common = []
  | .sendRR m => m.length < 65536 ∧
      common = [0, 0, 0, 0, 0x0a, 0, 2, 0] ++ (leBytes 2 ITEM_NULL ++ ([0, 0] ++
        (leBytes 2 ITEM_UNCONNECTED_DATA ++ (leBytes 2 m.length ++ m))))
  | .sendUnit seq m => seq < 65536 ∧ m.length + 2 < 65536 ∧ (∀ d, ctx.targetCid = some d → d.length < 65536) ∧
      common = [0, 0, 0, 0, 0x0a, 0, 2, 0] ++ (leBytes 2 ITEM_CONNECTION ++ (addrPart ctx.targetCid ++
        (leBytes 2 ITEM_CONNECTED_DATA ++ (leBytes 2 (m.length + 2) ++ (leBytes 2 seq ++ m)))))

theorem finish_ok (cmd : Nat) (common : Bytes) (ctx : Ctx) (f : Bytes)
    (h : (buildHeader cmd common.length ctx >>= fun h => (pure (h ++ common) : R Bytes)) = .ok f) :
    ∃ s, ctx.session = some s ∧ s < 4294967296 ∧ ctx.option < 4294967296 ∧ common.length < 65536 ∧
      f = leBytes 2 cmd ++ (leBytes 2 common.length ++ (leBytes 4 s ++ ([0, 0, 0, 0] ++
        (ctx.context ++ (leBytes 4 ctx.option ++ common))))) := by
  simp only [bind, Except.bind, pure, Except.pure] at h
  cases hh : buildHeader cmd common.length ctx with
  | error e => rw [hh] at h; cases h
  | ok hd =>
    rw [hh] at h
    obtain ⟨s, hs, h1, h2, h3, rfl⟩ := buildHeader_ok _ _ _ _ hh
    cases h
    exact ⟨s, hs, h1, h2, h3, by simp⟩

theorem finish_err (cmd : Nat) (common : Bytes) (ctx : Ctx) (e : Exn)
    (h : (buildHeader cmd common.length ctx >>= fun h => (pure (h ++ common) : R Bytes)) = .error e) :
    e = .comm := by
  simp only [bind, Except.bind, pure, Except.pure] at h
  cases hh : buildHeader cmd common.length ctx with
  | error e' => rw [hh] at h; cases h; exact buildHeader_err _ _ _ _ hh
  | ok hd => rw [hh] at h; cases h

/-- normal form of a successfully built request -/
theorem buildRequest_nf (r : Req) (ctx : Ctx) (f : Bytes) (h : buildRequest r ctx = .ok f) :
    ∃ s common, ctx.session = some s ∧ s < 4294967296 ∧ ctx.option < 4294967296 ∧ common.length < 65536 ∧
      commonOf r ctx common ∧
      f = leBytes 2 r.command ++ (leBytes 2 common.length ++ (leBytes 4 s ++ ([0, 0, 0, 0] ++
        (ctx.context ++ (leBytes 4 ctx.option ++ common))))) := by
  unfold buildRequest at h
  cases r with
  | registerSession pv fl =>
    obtain ⟨s, hs, h1, h2, h3, hf⟩ := finish_ok _ _ _ _ h
    exact ⟨s, _, hs, h1, h2, h3, rfl, hf⟩
  | unregisterSession =>
    obtain ⟨s, hs, h1, h2, h3, hf⟩ := finish_ok _ _ _ _ h
    exact ⟨s, _, hs, h1, h2, h3, rfl, hf⟩
  | listIdentity =>
    obtain ⟨s, hs, h1, h2, h3, hf⟩ := finish_ok _ _ _ _ h
    exact ⟨s, _, hs, h1, h2, h3, rfl, hf⟩
  | sendRR m =>
    cases hc : buildCpf ITEM_NULL none ITEM_UNCONNECTED_DATA m with
    | error e => simp only [hc, bind, Except.bind] at h; cases h
    | ok c =>
      simp only [hc] at h
      obtain ⟨s, hs, h1, h2, h3, hf⟩ := finish_ok _ _ _ _ h
      obtain ⟨hm, _, hcc⟩ := buildCpf_ok _ _ _ _ _ hc
      exact ⟨s, _, hs, h1, h2, h3, ⟨hm, hcc⟩, hf⟩
  | sendUnit seq m =>
    cases hq : u16 seq with
    | error e => simp only [hq, bind, Except.bind] at h; cases h
    | ok sq =>
      obtain ⟨rfl, hseq⟩ := u16_ok _ _ hq
      cases hc : buildCpf ITEM_CONNECTION ctx.targetCid ITEM_CONNECTED_DATA (leBytes 2 seq ++ m) with
      | error e => simp only [hq, hc, bind, Except.bind] at h; cases h
      | ok c =>
        simp only [hq, bind, Except.bind, hc] at h
        obtain ⟨s, hs, h1, h2, h3, hf⟩ := finish_ok _ _ _ _ h
        obtain ⟨hm, hd, hcc⟩ := buildCpf_ok _ _ _ _ _ hc
        simp only [List.length_append, leBytes_length] at hm hcc
        refine ⟨s, _, hs, h1, h2, h3, ⟨hseq, by omega, hd, ?_⟩, hf⟩
        rw [hcc, Nat.add_comm 2 m.length]

theorem buildRequest_err (r : Req) (ctx : Ctx) (e : Exn) (h : buildRequest r ctx = .error e) :
    e = .comm ∨ e = .data := by
  unfold buildRequest at h
  cases r with
  | registerSession pv fl => exact Or.inl (finish_err _ _ _ _ h)
  | unregisterSession => exact Or.inl (finish_err _ _ _ _ h)
  | listIdentity => exact Or.inl (finish_err _ _ _ _ h)
  | sendRR m =>
    cases hc : buildCpf ITEM_NULL none ITEM_UNCONNECTED_DATA m with
    | error e' =>
      simp only [hc, bind, Except.bind] at h; cases h
      exact Or.inr (buildCpf_err _ _ _ _ _ hc)
    | ok c =>
      simp only [hc] at h
      exact Or.inl (finish_err _ _ _ _ h)
  | sendUnit seq m =>
    cases hq : u16 seq with
    | error e' =>
      simp only [hq, bind, Except.bind] at h; cases h
      exact Or.inr (u16_err _ _ hq)
    | ok sq =>
      cases hc : buildCpf ITEM_CONNECTION ctx.targetCid ITEM_CONNECTED_DATA (sq ++ m) with
      | error e' =>
        simp only [hq, hc, bind, Except.bind] at h; cases h
        exact Or.inr (buildCpf_err _ _ _ _ _ hc)
      | ok c =>
        simp only [hq, bind, Except.bind, hc] at h
        exact Or.inl (finish_err _ _ _ _ h)

end Pycomm.EN
