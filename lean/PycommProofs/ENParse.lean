/-
  The strict parsers on segmented inputs (C11).
-/
import PycommProofs.ENBuild
namespace Pycomm.EN
open Pycomm Pycomm.Encap

/-- `parseFrame` on a byte string that is visibly six header fields followed by a body -/
theorem parseFrame_segments (a b c z x o body : Bytes) (ha : a.length = 2) (hb : b.length = 2)
    (hc : c.length = 4) (hz : z.length = 4) (hx : x.length = 8) (ho : o.length = 4)
    (hlen : leVal b = body.length) :
    parseFrame (a ++ (b ++ (c ++ (z ++ (x ++ (o ++ body)))))) =
      some { command := leVal a, session := leVal c, status := leVal z, context := x, options := leVal o,
             body := body } := by
  obtain ⟨a0, a1, rfl⟩ := len2 a ha
  obtain ⟨b0, b1, rfl⟩ := len2 b hb
  obtain ⟨c0, c1, c2, c3, rfl⟩ := len4 c hc
  obtain ⟨z0, z1, z2, z3, rfl⟩ := len4 z hz
  obtain ⟨x0, x1, x2, x3, x4, x5, x6, x7, rfl⟩ := len8 x hx
  obtain ⟨o0, o1, o2, o3, rfl⟩ := len4 o ho
  unfold parseFrame
  simp only [List.cons_append, List.nil_append, List.length_cons, List.drop_succ_cons, List.drop_zero,
    List.take_succ_cons, List.take_zero]
  rw [if_neg (by omega), hlen, if_neg (by omega)]

theorem parseCpf_unconnected (m : Bytes) (hm : m.length < 65536) :
    parseCpf ([0, 0, 0, 0, 0x0a, 0, 2, 0] ++ (leBytes 2 ITEM_NULL ++ ([0, 0] ++
        (leBytes 2 ITEM_UNCONNECTED_DATA ++ (leBytes 2 m.length ++ m))))) = some (.unconnected m) := by
  have hv := leVal_leBytes 2 m.length (by simpa using hm)
  obtain ⟨l0, l1, hl⟩ := len2 _ (leBytes_length 2 m.length)
  rw [hl] at hv ⊢
  have e1 : leBytes 2 ITEM_NULL = [0,0] := by decide
  have e2 : leBytes 2 ITEM_UNCONNECTED_DATA = [0xB2,0] := by decide
  have v1 : leVal [0,0,0,0] = 0 := by decide
  have v2 : leVal [2,0] = 2 := by decide
  have v3 : leVal [0,0] = 0 := by decide
  have v4 : leVal [0xB2,0] = ITEM_UNCONNECTED_DATA := by decide
  rw [e1, e2]
  unfold parseCpf
  simp only [List.cons_append, List.nil_append, List.length_cons, List.drop_succ_cons, List.drop_zero,
    List.take_succ_cons, List.take_zero, v1, v2, v3, v4, hv]
  rw [if_neg (by omega), if_neg (by simp), if_neg (by simp), if_neg (by omega), if_neg (by omega),
    if_neg (by simp), if_pos (by simp [ITEM_NULL])]

theorem parseCpf_connected (cid m : Bytes) (seq : Nat) (hcid : cid.length = 4) (hseq : seq < 65536)
    (hm : m.length + 2 < 65536) :
    parseCpf ([0, 0, 0, 0, 0x0a, 0, 2, 0] ++ (leBytes 2 ITEM_CONNECTION ++ ((leBytes 2 cid.length ++ cid) ++
        (leBytes 2 ITEM_CONNECTED_DATA ++ (leBytes 2 (m.length + 2) ++ (leBytes 2 seq ++ m)))))) =
      some (.connected (leVal cid) seq m) := by
  have hv := leVal_leBytes 2 (m.length + 2) (by simpa using hm)
  obtain ⟨l0, l1, hl⟩ := len2 _ (leBytes_length 2 (m.length + 2))
  have hsv := leVal_leBytes 2 seq (by simpa using hseq)
  obtain ⟨s0, s1, hs⟩ := len2 _ (leBytes_length 2 seq)
  obtain ⟨c0, c1, c2, c3, rfl⟩ := len4 _ hcid
  rw [hl] at hv ⊢
  rw [hs] at hsv ⊢
  have e1 : leBytes 2 ITEM_CONNECTION = [0xA1,0] := by decide
  have e2 : leBytes 2 ITEM_CONNECTED_DATA = [0xB1,0] := by decide
  have e3 : leBytes 2 [c0, c1, c2, c3].length = [4,0] := by
    show leBytes 2 4 = [4, 0]
    decide
  have v1 : leVal [0,0,0,0] = 0 := by decide
  have v2 : leVal [2,0] = 2 := by decide
  have v3 : leVal [4,0] = 4 := by decide
  have v4 : leVal [0xB1,0] = ITEM_CONNECTED_DATA := by decide
  have v5 : leVal [0xA1,0] = ITEM_CONNECTION := by decide
  rw [e1, e2, e3]
  unfold parseCpf
  simp only [List.cons_append, List.nil_append, List.length_cons, List.drop_succ_cons, List.drop_zero,
    List.take_succ_cons, List.take_zero, v1, v2, v3, v4, v5, hv, hsv]
  rw [if_neg (by omega), if_neg (by simp), if_neg (by simp), if_neg (by omega), if_neg (by omega),
    if_neg (by omega), if_neg (by simp [ITEM_NULL]), if_pos (by simp)]
theorem items_decomp (items : Bytes) (aLen : Nat) :
    items = items.take 2 ++ ((items.drop 2).take 2 ++ ((items.drop 4).take aLen ++
      ((items.drop (4 + aLen)).take 2 ++ (((items.drop (4 + aLen)).drop 2).take 2 ++
        (items.drop (4 + aLen)).drop 4)))) := by
  have h := List.take_append_drop 2 items
  have h2 := List.take_append_drop 2 (items.drop 2)
  have h3 := List.take_append_drop aLen ((items.drop 2).drop 2)
  have h4 := List.take_append_drop 2 (((items.drop 2).drop 2).drop aLen)
  have h5 := List.take_append_drop 2 ((((items.drop 2).drop 2).drop aLen).drop 2)
  simp only [List.drop_drop, Nat.reduceAdd] at h2 h3 h4 h5
  have e : 4 + aLen + 2 + 2 = 4 + aLen + 4 := by omega
  rw [e] at h5
  simp only [List.drop_drop]
  rw [h5, h4, h3, h2, h]


theorem parseCpf_some (body : Bytes) (c : Cpf) (h : parseCpf body = some c) :
    ∃ aT dT aD dD, leVal (body.take 4) = 0 ∧ leVal ((body.drop 6).take 2) = 2 ∧ dD.length < 65536 ∧
      body.drop 8 = leBytes 2 aT ++ (leBytes 2 aD.length ++ (aD ++ (leBytes 2 dT ++ (leBytes 2 dD.length ++ dD)))) ∧
      ((aT = ITEM_NULL ∧ aD.length = 0 ∧ dT = ITEM_UNCONNECTED_DATA ∧ c = .unconnected dD) ∨
       (aT = ITEM_CONNECTION ∧ aD.length = 4 ∧ dT = ITEM_CONNECTED_DATA ∧ 2 ≤ dD.length ∧
         c = .connected (leVal aD) (leVal (dD.take 2)) (dD.drop 2))) := by
  unfold parseCpf at h
  split at h
  · cases h
  split at h
  · cases h
  split at h
  · cases h
  dsimp only at h
  split at h
  · cases h
  split at h
  · cases h
  split at h
  · cases h
  rename_i h1 h2 h3 h4 h5 h6
  generalize body.drop 8 = items at *
  generalize haLen : leVal ((items.drop 2).take 2) = aLen at *
  have hA : ((items.drop 4).take aLen).length = aLen := by
    simp only [List.length_take, List.length_drop]; omega
  have hdl := leVal_lt (((items.drop (4 + aLen)).drop 2).take 2)
  have hd2 : (((items.drop (4 + aLen)).drop 2).take 2).length = 2 := by
    simp only [List.length_take, List.length_drop]; omega
  rw [hd2] at hdl
  have hdec := items_decomp items aLen
  refine ⟨leVal (items.take 2), leVal ((items.drop (4 + aLen)).take 2), (items.drop 4).take aLen,
    (items.drop (4 + aLen)).drop 4, Decidable.not_not.mp h2, Decidable.not_not.mp h3, ?_, ?_, ?_⟩
  · have := Decidable.not_not.mp h6
    omega
  · have ha2 : leBytes 2 aLen = (items.drop 2).take 2 := by
      rw [← haLen]
      exact leBytes_leVal 2 _ (by simp only [List.length_take, List.length_drop]; omega)
    rw [hA, Decidable.not_not.mp h6, leBytes_leVal 2 _ hd2, ha2, leBytes_leVal 2, leBytes_leVal 2]
    · exact hdec
    all_goals (simp only [List.length_take, List.length_drop]; omega)
  · rw [hA]
    split at h
    · rename_i h7
      left
      cases h
      exact ⟨h7.1, h7.2.1, h7.2.2, rfl⟩
    · split at h
      · rename_i h7 h8
        right
        cases h
        exact ⟨h8.1, h8.2.1, h8.2.2.1, by have := Decidable.not_not.mp h6; omega, rfl⟩
      · cases h

end Pycomm.EN
