/-
  C14 end to end, bridges: `ldr_Healthy` of the Logix proofs is `gme_Healthy` at the harness's extension state; the route
  argument of an Unconnected Send given as segments or as the configured path; the OpsClient helpers
  `setPlcTimeOp` / `plcTimeOp` on top of the generic-message equations.
-/
import PycommProofs.GMe2eTime
import PycommProofs.LDReadSend
import PycommModel.OpsClient
namespace Pycomm.Cli
open Pycomm.Tgt Pycomm.Encap Pycomm.Path Pycomm.Reply Pycomm.EN Pycomm.EP

/-- the healthy connected world of the Logix driver proofs is a healthy world here -/
theorem gme_of_ldr_Healthy {w : World Ext} {sess : Nat} {cidb : Bytes} {conn : Conn}
    (h : Lgx.Drv.ldr_Healthy w sess cidb conn) : gme_Healthy w sess cidb conn :=
  { sock := h.sock, ctx8 := h.ctx8, opt0 := h.opt0, session := h.session, session32 := h.session32,
    sessionReg := h.sessionReg, pend := h.pend, faults := h.faults, connected := h.connected, cid := h.cid, cid4 := h.cid4,
    conn := h.conn }

theorem gme_to_ldr_Healthy {w : World Ext} {sess : Nat} {cidb : Bytes} {conn : Conn}
    (h : gme_Healthy w sess cidb conn) : Lgx.Drv.ldr_Healthy w sess cidb conn :=
  ⟨h.connected, h.sock, h.ctx8, h.opt0, h.session, h.session32, h.sessionReg, h.cid, h.cid4, h.conn, h.pend, h.faults⟩

/-- the route of an Unconnected Send given as a non-empty list of segments, or taken from the configured path -/
theorem gme_route_of {σ} (w : World σ) (a : GenArgs) (hops : List Seg) (ps : List PSeg) (n : Nat)
    (hroute : (a.route = .segs hops ∧ hops ≠ []) ∨ (a.route = .useCfg ∧ w.drv.cipPath = hops))
    (henc : EncAll hops ps n) (hn : n ≤ 510) :
    ∃ route, encSegs true hops = .ok route ∧
      gme_route w.drv a.route = .ok ([UInt8.ofNat (route.length / 2), 0] ++ route) ∧
      route.length % 2 = 0 ∧ route.length ≤ n ∧ parsePadded (route.length + 1) route = some ps := by
  obtain ⟨route, h1, h2, h3, h4, h5⟩ := gme_route_enc henc hn
  refine ⟨route, h1, ?_, h3, h4, h5⟩
  rcases hroute with ⟨hr, hne⟩ | ⟨hr, hc⟩
  · rw [hr]
    have : hops.isEmpty = false := by cases hops <;> simp_all
    simp only [gme_route, this, Bool.false_eq_true, if_false]
    exact h2
  · rw [hr]
    simp only [gme_route, hc]
    exact h2

end Pycomm.Cli

namespace Pycomm
open Pycomm.Tgt Pycomm.Encap Pycomm.Path Pycomm.Reply Pycomm.Cli

/-- `set_plc_time(us)` as the harness runs it, given the generic-message equation -/
theorem gme_setPlcTimeOp (w w1 : W) (us : Nat) (tag : Tag) (hus : us < 2 ^ 64)
    (h : genericMessage hookAll FUEL w
        { service := 0x04, cls := .bytes [0x8b], inst := .bytes [0x01],
          data := leBytes 2 1 ++ leBytes 2 6 ++ leBytes 8 us, name := nm "set_plc_time" } = (w1, .ok tag)) :
    setPlcTimeOp w us = (w1, renderTag tag) := by
  unfold setPlcTimeOp
  rw [set_time_request us hus]
  dsimp only
  rw [h]

/-- `get_plc_time()` as the harness runs it, given the generic-message equation with the decoded microseconds -/
theorem gme_plcTimeOp (w w1 : W) (us : Nat) (hus : us < 253402300800000000)
    (h : genericMessage hookAll FUEL w
        { service := 0x03, cls := .bytes [0x8b], inst := .bytes [0x01], data := [1, 0, 0x0B, 0],
          dataType := some gme_timeTy } =
        (w1, .ok { name := [], value := .dict [([0xB5, 115], .int us)], error := none })) :
    plcTimeOp w = (w1, "(time (i " ++ toString (us : Int) ++ ") none)") := by
  unfold plcTimeOp
  dsimp only
  have h' : genericMessage hookAll FUEL w
      { service := 0x03, cls := .bytes [0x8b], inst := .bytes [0x01], data := [1, 0, 0x0B, 0],
        dataType := some (.struct (.cons (some []) (.nbytes 6) (.cons (some usName) (.int .ulint) .nil))) } = _ := h
  rw [h']
  have hg : dictGet [(([0xB5, 115] : Name), PyVal.int (us : Int))] usName = some (.int us) := by
    simp [dictGet, usName]
  have hlt : ¬ ((us : Int) ≥ 253402300800000000) := by omega
  simp only [Tag.truthy, Option.isNone_none, Bool.and_self, if_true, hg, hlt, if_false]
  have hn : renderErr (.ok none) = "none" := rfl
  rw [hn]
  simp [String.append_assoc]

end Pycomm
