/-
  LogixDriver.write followed by LogixDriver.read of the same elements: what the controller's memory holds after the
  write, in the words the read theorems ask for (`decode` of the memory at the element).
-/
import PycommProofs.LDWrite2Array
namespace Pycomm.Lgx.Drv
open Pycomm Pycomm.Tgt Pycomm.Path Pycomm.Reply Pycomm.Encap Pycomm.Lgx Pycomm.Lgx.E2E

/-- the spliced memory from a byte inside the spliced range on: the rest of the spliced bytes, then the old tail -/
theorem ldw2_splice_drop (m b : Bytes) (o j : Nat) (ho : o + b.length ≤ m.length) (hj : j ≤ b.length) :
    (splice m o b).drop (o + j) = b.drop j ++ m.drop (o + b.length) := by
  have hX : (m.take o).length = o := by rw [List.length_take]; omega
  unfold splice
  rw [List.append_assoc, List.drop_append, List.drop_of_length_le (by omega), List.nil_append, hX, Nat.add_sub_cancel_left,
    List.drop_append, Nat.sub_eq_zero_of_le hj, List.drop_zero]

/-- after `n` canonical values of an elementary type were written from element `i` on (their encoding `bytes` spliced
    in at byte `i * sz`), the codec decodes value `k` from the memory at element `i + k` -/
theorem ldw2_decode_written (c sz : Nat) (t : Ty) (mem bytes : Bytes) (i : Nat) (vs : List PyVal)
    (haty : Cl.atomicTy c = some t) (hb : t.isBits = none) (hsz : atomicSize c = some sz)
    (hcanon : ∀ x ∈ vs, Canon t x) (hbl : bytes.length = vs.length * sz) (hfit : i * sz + bytes.length ≤ mem.length)
    (hchunks : ∀ k (h : k < vs.length), encode t vs[k] = .ok ((bytes.drop (k * sz)).take sz)) :
    ∀ k (h : k < vs.length), ∃ rest, decode t ((splice mem (i * sz) bytes).drop ((i + k) * sz)) = .ok (vs[k], rest) := by
  intro k hk
  have hks : k * sz + sz ≤ bytes.length := by
    rw [hbl, ← Nat.succ_mul]; exact Nat.mul_le_mul_right sz hk
  obtain ⟨enc, he, _, hd⟩ := canon_fixed_roundtrip t vs[k] sz (hcanon _ (List.getElem_mem _)) (ldw_atomic_width c sz t haty hb hsz).1
  rw [hchunks k hk] at he
  cases he
  rw [Nat.add_mul, ldw2_splice_drop mem bytes (i * sz) (k * sz) hfit (by omega)]
  refine ⟨(bytes.drop (k * sz)).drop sz ++ mem.drop (i * sz + bytes.length), ?_⟩
  have e : bytes.drop (k * sz) = (bytes.drop (k * sz)).take sz ++ (bytes.drop (k * sz)).drop sz :=
    (List.take_append_drop _ _).symm
  rw [e, List.append_assoc]
  rw [← e]
  exact hd _

end Pycomm.Lgx.Drv
