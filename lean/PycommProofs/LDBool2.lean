/-
  LogixDriver.write of ranges of BOOL arrays (DWORD array tags):
    `ldb_splice_word`, `ldb_bit_written`   the BOOLs of the memory after whole DWORDs were replaced
    `ldb_parse_write`                      the parsed request of `name[i]{n}` (write side)
    `ldb_encodeValue_unaligned`, `ldb_write_unaligned`   an index that is no multiple of 32 is refused before anything is sent
    `ldb_chunks_length`, `ldb_encode_bits_length`, `ldb_encodeValue_partial`   a count that is no multiple of 32
-/
import PycommProofs.LDBool1
import PycommProofs.LogixDriverWrite2
namespace Pycomm.Lgx.Drv
open Pycomm Pycomm.Tgt Pycomm.Path Pycomm.Reply Pycomm.Encap Pycomm.Lgx Pycomm.Lgx.E2E

/-! ### the memory after whole DWORDs were replaced -/

/-- DWORD `q` of a memory into which `m` DWORDs were spliced at DWORD `k`: the spliced DWORD `q - k` inside the range,
    the old DWORD outside -/
theorem ldb_splice_eq (mem bytes : Bytes) (off : Nat) : Lgx.splice mem off bytes = Pycomm.splice mem off bytes := rfl

theorem ldb_splice_word (mem bytes : Bytes) (k m q : Nat) (hbl : bytes.length = m * 4)
    (hfit : k * 4 + m * 4 ≤ mem.length) :
    ((Lgx.splice mem (k * 4) bytes).drop (4 * q)).take 4 =
      if k ≤ q ∧ q < k + m then (bytes.drop (4 * (q - k))).take 4 else (mem.drop (4 * q)).take 4 := by
  have hfit' : k * 4 + bytes.length ≤ mem.length := by omega
  rw [ldb_splice_eq]
  apply List.ext_getElem?
  intro j
  by_cases hj : j < 4
  · rw [List.getElem?_take_of_lt hj, List.getElem?_drop, rtx_splice_get mem bytes (k * 4) hfit']
    by_cases hq : k ≤ q ∧ q < k + m
    · rw [if_pos hq, if_pos (by omega), List.getElem?_take_of_lt hj, List.getElem?_drop]
      congr 1; omega
    · rw [if_neg hq, if_neg (by omega), List.getElem?_take_of_lt hj, List.getElem?_drop]
  · have h1 : (((Pycomm.splice mem (k * 4) bytes).drop (4 * q)).take 4)[j]? = none :=
      List.getElem?_eq_none (by rw [List.length_take]; omega)
    rw [h1]
    split <;> exact (List.getElem?_eq_none (by rw [List.length_take]; omega)).symm

/-- BOOL `b` of a BOOL array after the `m` DWORDs `bytes` (holding the bools `bools`, 32 per DWORD, least significant
    bit first) were written at DWORD `k`: the written bool inside `[32k, 32(k+m))`, the old BOOL outside -/
theorem ldb_bit_written (mem bytes : Bytes) (k m : Nat) (bools : List Bool) (hbl : bytes.length = m * 4)
    (hfit : k * 4 + m * 4 ≤ mem.length)
    (hbits : ∀ j b, j < m → b < 32 → (leVal ((bytes.drop (4 * j)).take 4)).testBit b = bools.getD (32 * j + b) false)
    (b : Nat) :
    ldb_bit (Lgx.splice mem (k * 4) bytes) b =
      if 32 * k ≤ b ∧ b < 32 * k + 32 * m then bools.getD (b - 32 * k) false else ldb_bit mem b := by
  unfold ldb_bit
  rw [ldb_splice_word mem bytes k m (b / 32) hbl hfit]
  by_cases hq : 32 * k ≤ b ∧ b < 32 * k + 32 * m
  · rw [if_pos (by omega), if_pos hq, hbits (b / 32 - k) (b % 32) (by omega) (by omega)]
    congr 1; omega
  · rw [if_neg (by omega), if_neg hq]

/-! ### (a) parsing, write side -/

/-- the parsed WRITE request for `n ≥ 2` BOOLs from element `i` of a BOOL array, written `name[i]{n}` -/
def ldb_parsedWrite (name : Name) (i n : Nat) (info : TagInfo) (v : PyVal) : Parsed :=
  { requestId := 0, requestTag := ldr2_tagStr ⟨name, [i]⟩ none (some n), userTag := renderLevel ⟨name, [i]⟩,
    plcTag := renderLevel ⟨name, [i / 32]⟩, bit := some (i : Int), elements := ((ldb_words i n : Nat) : Int),
    info := some info, boolElements := some (n : Int), value := v }

theorem ldb_parse_write (db : TagDb) (name : Name) (i n : Nat) (info : TagInfo)
    (hid : PlainIdent name) (hget : db.get? name = some info) (hd : isDword info = true)
    (hn : 2 ≤ n) (hn16 : n ≤ 65535) (hw16 : ldb_words i n ≤ 65535) :
    parseTagRequest db true 0 (ldr2_tagStr ⟨name, [i]⟩ none (some n)) = ldb_parsedWrite name i n info .none := by
  have hi32 : i < 2 ^ 32 := by unfold ldb_words at hw16; omega
  have hl : ldr2_Level ⟨name, [i]⟩ := ⟨hid, by simp, by simp [hi32]⟩
  have hparse := ldr2_parse_unfold db true 0 ⟨name, [i]⟩ none (some n) hl (by intro n' hc; cases hc; exact hn16)
  have htail := ldw2_tail_dword db 0 (ldr2_tagStr ⟨name, [i]⟩ none (some n)) (ldr2_tagStr ⟨name, [i]⟩ none none)
    ((n : Nat) : Int) false name i info hl hget hd (by rw [ldb_words_int]; omega)
  rw [ldb_words_int] at htail
  have hne1 : (((n : Nat) : Int) == 1) = false := by
    have : ¬ (((n : Nat) : Int) = 1) := by omega
    simpa using this
  simp only [Bool.false_or, hne1, Bool.false_eq_true, if_false] at htail
  rw [Option.map_none, Option.getD_some, Option.isNone_some, htail] at hparse
  rw [hparse, ldr2_tagStr_plain]
  rfl

/-! ### an index that is no multiple of 32 -/

/-- `encode_value` refuses a BOOL-array range that does not start on a DWORD boundary (the RequestError "BOOL arrays
    only support writing full DWORDs, indexes must be multiples of 32" is wrapped into "Unable to create a writable
    value"), whatever the value — unless the value is `bytes`, which is passed through unchecked -/
theorem ldb_encodeValue_unaligned (p : Parsed) (info : TagInfo) (i : Nat) (hv : ∀ b, p.value ≠ .bytes b)
    (hdn : info.core.dataTypeName = nm "DWORD") (hbit : p.bit = some (i : Int)) (hi : i % 32 ≠ 0) :
    encodeValue p info = (p, none) := by
  have hdw : (info.core.dataTypeName == nm "DWORD") = true := by rw [hdn]; simp
  have h2 : ((i : Int) % 32 ≠ 0) := by omega
  unfold encodeValue
  split
  · rename_i b hb
    exact absurd hb (hv b)
  · simp only [hdw, hbit, Option.getD_some, ne_eq, h2, not_false_eq_true, and_self, if_true]

/-- `write` of `n ≥ 2` BOOLs from an element `i` that is no multiple of 32, `name[i]{n}`, on a connected driver: nothing
    is built or sent, the world is unchanged, the result is one falsy Tag named like the REQUEST (with the `{n}`
    suffix) carrying the single-request message of the driver -/
theorem ldb_write_unaligned (cfg : Cfg) (w : Cli.World Ext) (name : Name) (info : TagInfo) (i n : Nat) (v : PyVal)
    (hconn : w.drv.targetIsConnected = true) (hid : PlainIdent name)
    (hget : cfg.tags.get? name = some info) (hd : isDword info = true)
    (hi : i % 32 ≠ 0) (hn : 2 ≤ n) (hn16 : n ≤ 65535) (hw16 : ldb_words i n ≤ 65535) (hv : ∀ b, v ≠ .bytes b) :
    write hookAll cfg w [(ldr2_tagStr ⟨name, [i]⟩ none (some n), v)] =
      (w, .ok [{ tag := ldr2_tagStr ⟨name, [i]⟩ none (some n), value := .none, type := none,
                 error := some (.text (nm "Invalid Tag Request - " ++ unableToWrite)) }]) := by
  have hparse := ldb_parse_write cfg.tags name i n info hid hget hd hn hn16 hw16
  have hparsed : ((parseRequestedTags cfg.tags true ([(ldr2_tagStr ⟨name, [i]⟩ none (some n), v)].map (·.1))).zip
      ([(ldr2_tagStr ⟨name, [i]⟩ none (some n), v)].map (·.2))).map
      (fun x => ({ x.1 with value := x.2 } : Drv.Parsed)) = [ldb_parsedWrite name i n info v] := by
    show ([parseTagRequest cfg.tags true 0 _].zip [v]).map _ = _
    rw [hparse]; rfl
  have henc := ldb_encodeValue_unaligned (ldb_parsedWrite name i n info v) info i hv (lds_isDword_name info hd) rfl hi
  have hfo : Cli.ensureForwardOpen hookAll Cli.FUEL w = (w, .ok ()) := ldr_ensureFO_connected hookAll 7 w hconn
  have hbuild : writeBuildRequests cfg w.drv [ldb_parsedWrite name i n info v] =
      (w.drv, .ok ([{ ldb_parsedWrite name i n info v with
                      error := some (.text (nm "Invalid Tag Request - " ++ unableToWrite)) }], [])) := by
    unfold writeBuildRequests
    simp only [List.length_cons, List.length_nil, Nat.zero_add, ne_eq, not_true_eq_false, false_and, if_false]
    unfold writeBuildSingles
    have hbw : (ldb_parsedWrite name i n info v).isBitWrite = false := rfl
    have he : (ldb_parsedWrite name i n info v).error = none := rfl
    have hin : (ldb_parsedWrite name i n info v).info = some info := rfl
    simp only [he, hin, hbw, Bool.false_eq_true, if_false, henc, writeBuildSingles, replaceParsed, List.map_cons,
      List.map_nil, beq_self_eq_true, if_true]
  unfold write
  rw [hfo]
  dsimp only
  rw [hparsed, hbuild]
  dsimp only
  unfold sendRequests
  dsimp only [fanOutRmw, List.isEmpty_cons, Bool.false_eq_true, if_false, List.map_cons, List.map_nil]
  rfl

/-! ### a count that is no multiple of 32: the bytes `Array(n, DWORD).encode` produces -/

/-- the number of chunks of `w` elements a list is cut into (the last one may be shorter) -/
theorem ldb_chunks_length (w : Nat) (hw : 0 < w) : ∀ (fuel : Nat) (xs : List PyVal), xs.length < fuel →
    (chunks w xs fuel).length = (xs.length + w - 1) / w ∧
    ∀ c ∈ (chunks w xs fuel).take (xs.length / w), c.length = w
  | 0, xs, h => by omega
  | fuel + 1, xs, h => by
    unfold chunks
    cases xs with
    | nil =>
      simp only [List.isEmpty_nil, if_true, List.length_nil, Nat.zero_add, Nat.zero_div, List.take_zero,
        List.not_mem_nil, false_imp_iff, implies_true, and_true]
      exact (Nat.div_eq_of_lt (by omega)).symm
    | cons x rest =>
      simp only [List.isEmpty_cons, Bool.false_eq_true, if_false, List.length_cons]
      have ih := ldb_chunks_length w hw fuel ((x :: rest).drop w)
        (by rw [List.length_drop]; simp only [List.length_cons] at h ⊢; omega)
      rw [List.length_drop, List.length_cons] at ih
      by_cases hlt : rest.length + 1 < w
      · -- one short chunk
        have h0 : rest.length + 1 - w = 0 := by omega
        rw [h0] at ih
        refine ⟨?_, ?_⟩
        · rw [ih.1]
          have e1 : (0 + w - 1) / w = 0 := Nat.div_eq_of_lt (by omega)
          have e2 : (rest.length + 1 + w - 1) / w = 1 := by
            apply Nat.div_eq_of_lt_le <;> omega
          rw [e1, e2]
        · have e3 : (rest.length + 1) / w = 0 := Nat.div_eq_of_lt hlt
          rw [e3]; simp
      · have hge : w ≤ rest.length + 1 := by omega
        refine ⟨?_, ?_⟩
        · rw [ih.1]
          have e : rest.length + 1 + w - 1 = (rest.length + 1 - w + w - 1) + w := by omega
          rw [e, Nat.add_div_right _ hw]
        · have e : (rest.length + 1) / w = (rest.length + 1 - w) / w + 1 := by
            have : rest.length + 1 = (rest.length + 1 - w) + w := by omega
            conv => lhs; rw [this]
            exact Nat.add_div_right _ hw
          rw [e, List.take_succ_cons]
          intro c hc
          simp only [List.mem_cons] at hc
          rcases hc with hc | hc
          · rw [hc, List.length_take, List.length_cons]; omega
          · exact ih.2 c hc

/-- `Array(n, DWORD).encode(values, n)` of exactly `n` bools (the call `encode_value` makes for a BOOL-array range of
    `n` BOOLs): it SUCCEEDS for every `n` and yields `n / 32` DWORDs — the trailing `n % 32` bools are dropped silently,
    for `n < 32` the result is the empty byte string -/
theorem ldb_encode_bits_length (n : Nat) (bools : List Bool) (hl : bools.length = n) :
    ∃ bytes, encode (.arr (.fixed n) (.bits .udint)) (.list (bools.map PyVal.bool)) = .ok bytes ∧
      bytes.length = n / 32 * 4 := by
  have hlen : (PyVal.list (bools.map PyVal.bool)).len? = some n := by
    show some (bools.map PyVal.bool).length = _
    rw [List.length_map, hl]
  have hs : (PyVal.list (bools.map PyVal.bool)).seq? = some (bools.map PyVal.bool) := rfl
  have hsz : IntK.udint.size = 4 := rfl
  have hib : (Ty.bits IntK.udint).isBits = some .udint := rfl
  have hml : (bools.map PyVal.bool).length = n := by rw [List.length_map, hl]
  obtain ⟨hcl, hcw⟩ := ldb_chunks_length 32 (by omega) ((bools.map PyVal.bool).length + 1) (bools.map PyVal.bool) (by omega)
  rw [hml] at hcl hcw
  have hone : ∀ c ∈ (chunks 32 (bools.map PyVal.bool) (n + 1)).take (n / 32), ∃ e, encode (.bits .udint) (.list c) = .ok e ∧ e.length = 4 := by
    intro c hc
    refine ⟨leBytes 4 (bitsToNat c), ?_, leBytes_length _ _⟩
    simp [encode, encodeBits, PyVal.iter?, PyVal.seq?, hcw c hc, hsz]
  have hall : ∀ (cs : List (List PyVal)), (∀ c ∈ cs, ∃ e, encode (.bits .udint) (.list c) = .ok e ∧ e.length = 4) →
      ∃ bs, encodeList (encode (.bits .udint)) (cs.map PyVal.list) = .ok bs ∧ bs.length = cs.length * 4 := by
    intro cs
    induction cs with
    | nil => intro _; exact ⟨[], rfl, rfl⟩
    | cons c rest ih =>
      intro h
      obtain ⟨e, he, hel⟩ := h c (by simp)
      obtain ⟨bs, hbs, hbl⟩ := ih (fun c' hc' => h c' (List.mem_cons_of_mem _ hc'))
      refine ⟨e ++ bs, ?_, ?_⟩
      · simp only [List.map_cons, encodeList, he, hbs, bind, Except.bind]
      · rw [List.length_append, hel, hbl, List.length_cons]; omega
  obtain ⟨bs, hbs, hbl⟩ := hall _ hone
  have htl : ((chunks 32 (bools.map PyVal.bool) (n + 1)).take (n / 32)).length = n / 32 := by
    rw [List.length_take, hcl]
    apply Nat.min_eq_left
    omega
  refine ⟨bs, ?_, by rw [hbl, htl]⟩
  unfold encode
  simp only [hlen, hs, hib, Nat.lt_irrefl, decide_false, Bool.false_eq_true, if_false, hsz, hml]
  rw [hbs]

/-- `encode_value` of an ALIGNED BOOL-array range `name[i]{n}` (`i % 32 = 0`, `n ≥ 2`) with exactly `n` bools, for ANY
    `n`: it succeeds; the request's element count becomes `⌈n / 32⌉` DWORDs but the value holds only `⌊n / 32⌋` DWORDs.
    For `n % 32 ≠ 0` the Write Tag request therefore declares one DWORD more than it carries. -/
theorem ldb_encodeValue_partial (name : Name) (i n : Nat) (info : TagInfo) (dim : Nat) (bools : List Bool)
    (hi : i % 32 = 0) (hn : 2 ≤ n) (hdn : info.core.dataTypeName = nm "DWORD")
    (hty : info.core.ty = .arr (.fixed dim) (.bits .udint)) (hl : bools.length = n) :
    ∃ bytes, encodeValue (ldb_parsedWrite name i n info (.list (bools.map PyVal.bool))) info =
        ({ ldb_parsedWrite name i n info (.list (bools.map PyVal.bool)) with
           elements := (((n + 31) / 32 : Nat) : Int) }, some bytes) ∧
      bytes.length = n / 32 * 4 := by
  obtain ⟨bytes, henc, hbl⟩ := ldb_encode_bits_length n bools hl
  refine ⟨bytes, ?_, hbl⟩
  have hdw : (info.core.dataTypeName == nm "DWORD") = true := by rw [hdn]; simp
  have hlen : (PyVal.list (bools.map PyVal.bool)).len? = some n := by
    show some (bools.map PyVal.bool).length = _
    rw [List.length_map, hl]
  have h0 : ¬ (((n : Nat) : Int) = 0) := by omega
  have h1 : (1 : Int) < ((n : Nat) : Int) := by omega
  have h2 : ¬ (((i : Nat) : Int) % 32 ≠ 0) := by omega
  have h3 : ((ldb_words i n : Nat) : Int) - ((i : Nat) : Int) / 32 = (((n + 31) / 32 : Nat) : Int) := by
    unfold ldb_words; omega
  have h4 : (((n : Nat) : Int)).toNat = n := Int.toNat_natCast _
  unfold encodeValue
  simp only [ldb_parsedWrite, hdw, hty, Option.getD_some, ne_eq, h0, not_false_eq_true, if_true, h2, and_false, if_false,
    h3, gt_iff_lt, h1, hlen, Int.lt_irrefl, encodeArrayLen, h4, henc]

end Pycomm.Lgx.Drv
