/-
  Refinement of histories of `LogixDriver.read` / `LogixDriver.write`: calls with ONE request (the single-request path of
  the driver), for the kinds scalar tag / array element / slice / member path, re-packaged from the single-request
  theorems in the words of `ldmx_Item` / `ldwx_Item` (`lgrf_read_single`, `lgrf_write_single`).
-/
import PycommProofs.LgxRef1
namespace Pycomm.Lgx.Drv
open Pycomm Pycomm.Tgt Pycomm.Path Pycomm.Reply Pycomm.Encap Pycomm.Lgx Pycomm.Lgx.E2E

/-- `read(t)` with one request of the kinds scalar / element / slice / member path -/
theorem lgrf_read_single (cfg : Cfg) (w : Cli.World Ext) (sess : Nat) (cidb : Bytes) (conn : Conn) (st : LState)
    (it : ldmx_Item)
    (hw : ldr_Healthy w sess cidb conn) (hlogix : w.net.target.ext.logix = some st)
    (hbytes : ∀ s' ∈ st.proj.controller, ∀ ch ∈ s'.name, ch < 256)
    (hok : it.Ok cfg st) (h1 : lgrf_single1R w.drv.connectionSize it) (hCT : w.drv.connectionSize ≤ conn.size) :
    ∃ w', read hookAll cfg w [it.request] = (w', .ok [it.out]) ∧ w'.drv = w.drv.nextSeq.2 ∧
      w'.net.target.ext = { w.net.target.ext with logix := some { st with ctr := st.ctr + 1 } } ∧
      ldr_Healthy w' sess cidb { conn with lastSeq := some w.drv.nextSeq.1 } := by
  cases it with
  | scalar x =>
    have h : ldrn_ScalarOk cfg st x := hok
    have h1' : x.s.name.length + 28 ≤ w.drv.connectionSize := h1
    obtain ⟨w', _, a, b, _, c, d⟩ := read_atomic_scalar_e2e cfg w sess cidb conn st x.s x.info x.c x.sz x.name x.t x.v x.rest hw
      hlogix h.mem hbytes h.uniqN h.uniqI h.ident h.inst32 h.ty h.atomic h.notBits h.size h.memLen h.get h.infoOf h.dec h1'
      (by omega)
    exact ⟨w', a, b, c, d⟩
  | elem x =>
    have h := ldmx_el_winOk cfg st x hok
    have h1' : 1 * x.sz + x.s.name.length + 26 ≤ w.drv.connectionSize := h1
    obtain ⟨w', _, a, b, _, c, d⟩ := ldr2_read_array cfg w sess cidb conn st x.toWin.s x.toWin.info x.toWin.c x.toWin.sz
      x.toWin.dim x.toWin.name x.toWin.t x.toWin.idx x.toWin.i x.toWin.cnt x.toWin.vs h.idxOk hw hlogix h.mem hbytes h.uniqN
      h.uniqI h.ident h.inst32 h.ty h.atomic h.notBits h.size h.dims h.memLen h.get h.infoOf h.i32 h.n1 h.n16 h.inside h.vsLen
      h.dec h1' (by have : 1 * x.sz + x.s.name.length + 26 ≤ conn.size := by omega
                    exact this)
    exact ⟨w', a, b, c, d⟩
  | slice x =>
    have h := ldmx_slice_winOk cfg st x hok
    have h1' : x.n * x.sz + x.s.name.length + 26 ≤ w.drv.connectionSize := h1
    obtain ⟨w', _, a, b, _, c, d⟩ := ldr2_read_array cfg w sess cidb conn st x.toWin.s x.toWin.info x.toWin.c x.toWin.sz
      x.toWin.dim x.toWin.name x.toWin.t x.toWin.idx x.toWin.i x.toWin.cnt x.toWin.vs h.idxOk hw hlogix h.mem hbytes h.uniqN
      h.uniqI h.ident h.inst32 h.ty h.atomic h.notBits h.size h.dims h.memLen h.get h.infoOf h.i32 h.n1 h.n16 h.inside h.vsLen
      h.dec h1' (by have : x.n * x.sz + x.s.name.length + 26 ≤ conn.size := by omega
                    exact this)
    exact ⟨w', a, b, c, d⟩
  | member x =>
    have h : ldmx_MemberOk cfg st x := hok
    have h1' : ldr4_pathSize (ldr4_levels x.s.name x.idx0 x.hops) + 18 ≤ w.drv.connectionSize := h1
    obtain ⟨w', _, a, b, _, c, d⟩ := read_member_path_e2e cfg w sess cidb conn st x.s x.tid0 x.tm0 x.idx0 x.li x.hops x.info
      x.leaf x.c x.sz x.name x.t x.v x.rest hw hlogix h.mem hbytes h.uniqN h.uniqI h.level0 h.ty h.tmpl h.idxOk h.ne h.chain
      h.levels h.notNum h.pathSize h.atomic h.notBits h.size h.inside h.get h.kind h.infoPath h.leafOf h.dec (by omega) (by omega)
    exact ⟨w', a, b, c, d⟩
  | bit x => exact absurd h1 id
  | boolElem x => exact absurd h1 id
  | boolMember x => exact absurd h1 id
  | string x => exact absurd h1 id
  | struct x => exact absurd h1 id
  | prog x => exact absurd h1 id
  | oob y => exact absurd h1 id

/-- `write((t, v))` with one request of the kinds scalar / element / slice / member path -/
theorem lgrf_write_single (cfg : Cfg) (w : Cli.World Ext) (sess : Nat) (cidb : Bytes) (conn : Conn) (st : LState)
    (x : ldwx_Item)
    (hw : ldr_Healthy w sess cidb conn) (hlogix : w.net.target.ext.logix = some st)
    (hbytes : ∀ s' ∈ st.proj.controller, ∀ ch ∈ s'.name, ch < 256)
    (hok : ldwx_ItemOk cfg st.proj x) (h1 : lgrf_single1W w.drv.connectionSize x) (hCT : w.drv.connectionSize ≤ conn.size) :
    ∃ w', write hookAll cfg w [x.request cfg] = (w', .ok [x.out]) ∧ w'.drv = w.drv.nextSeq.2 ∧
      w'.net.target.ext = { w.net.target.ext with logix := some { st with proj := ldwx_applyAll st.proj (ldwx_targets [x]) } } ∧
      ldr_Healthy w' sess cidb { conn with lastSeq := some w.drv.nextSeq.1 } := by
  cases x with
  | scalar x =>
    have h : ldwn_ScalarOk cfg st.proj x := hok
    have h1' : x.s.name.length + 2 * x.sz + 20 ≤ w.drv.connectionSize := h1
    obtain ⟨w', _, a, b, _, c, d⟩ := write_atomic_scalar_e2e cfg w sess cidb conn st x.s x.info x.c x.sz x.tname x.t x.v x.bytes
      hw hlogix h.mem hbytes h.uniqN h.uniqI h.ident h.inst32 h.ty h.atom h.notBits h.size h.len h.get h.infoOf h.canon h.enc h1'
      (by omega)
    rw [ldwx_written_eq _ _ _ _ rfl] at c
    exact ⟨w', a, b, c, d⟩
  | elem x =>
    have h : ldwx_ElemOk cfg st.proj x := hok
    have h1' : x.s.name.length + 2 * x.sz + 26 ≤ w.drv.connectionSize := h1
    obtain ⟨w', _, a, b, _, c, _, d⟩ := write_atomic_element_e2e cfg w sess cidb conn st x.s x.info x.c x.sz x.dim x.i x.tname
      x.t x.v x.bytes hw hlogix h.mem hbytes h.uniqN h.uniqI h.ident h.inst32 h.ty h.atom h.notBits h.size h.dims h.len h.get
      h.infoOf h.inside h.i32 h.canon h.enc h1' (by omega)
    rw [ldwx_written_eq _ _ _ _ rfl] at c
    exact ⟨w', a, b, c, d⟩
  | slice x =>
    have h : ldwx_SliceOk cfg st.proj x := hok
    have h1' : 2 * (x.n * x.sz) + x.s.name.length + 26 ≤ w.drv.connectionSize ∧ x.n * x.sz ≤ 64000 := h1
    obtain ⟨w', _, a, b, _, c, _, _, d⟩ := write_atomic_slice_e2e cfg w sess cidb conn st x.s x.info x.c x.sz x.dim x.i x.n
      x.tname x.t x.vs x.bytes hw hlogix h.mem hbytes h.uniqN h.uniqI h.ident h.inst32 h.ty h.atom h.notBits h.size h.dims h.len
      h.get h.infoOf h.i32 h.count h.count16 h.inside h.vlen h.canon h.enc h1'.2 h1'.1 (by omega)
    rw [ldwx_written_eq _ _ _ _ rfl] at c
    exact ⟨w', a, b, c, d⟩
  | member x =>
    have h : ldwx_MemberOk cfg st.proj x := hok
    have h1' : ldr4_pathSize (ldr4_levels x.s.name x.idx0 x.hops) + 2 * x.sz + 8 ≤ w.drv.connectionSize := h1
    obtain ⟨w', _, a, _, b, _, c, _, d⟩ := write_member_path_e2e cfg w sess cidb conn st x.s x.tid0 x.tm0 x.idx0 x.li x.hops
      x.info x.leaf x.c x.sz x.tname x.t x.v x.bytes hw hlogix h.mem hbytes h.uniqN h.uniqI h.level0 h.ty h.tmpl h.index
      h.nonempty h.chain h.levels h.notNumber h.pathSize h.atom h.notBits h.size h.inside h.get h.kind h.infoPath h.leafOf h.canon
      h.enc h1' (by omega)
    rw [ldwx_written_eq _ _ _ _ rfl] at c
    exact ⟨w', a, b, c, d⟩
  | str x => exact absurd h1 id
  | struct x => exact absurd h1 id
  | oob x => exact absurd h1 id

end Pycomm.Lgx.Drv
