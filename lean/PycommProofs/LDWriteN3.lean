/-
  LogixDriver.write of ANY number of plain one-element requests, layers (e)+(f) and the composition: the table of
  responses `_send_requests` builds from the embedded replies of any list of multi-service packets, the result loop
  of `write`, and `write` itself for ANY answers the controller gives to the embedded requests (`ldwn_write_general`).
-/
import PycommProofs.LDWriteN2
namespace Pycomm.Lgx.Drv
open Pycomm Pycomm.Tgt Pycomm.Path Pycomm.Reply Pycomm.Encap Pycomm.Lgx Pycomm.Lgx.E2E

/-- the error the response class derives from an embedded answer -/
def ldwn_errOf (r : MRReply) : Option TagErr := if r.status = 0 then none else some (.reply (.text (ldx_errText r)))

/-- the Tag `_send_requests` records for an embedded Write Tag request answered with `r` -/
def ldwn_tagOf (q : WriteReq) (r : MRReply) : LTag :=
  if r.status = 0 then { tag := q.tag, value := .bytes q.value, type := some q.info.core.dataTypeName, error := none }
  else { tag := q.tag, value := .none, type := none, error := some (.reply (.text (ldx_errText r))) }

theorem ldwn_tagOf_error (q : WriteReq) (r : MRReply) : (ldwn_tagOf q r).error = ldwn_errOf r := by
  unfold ldwn_tagOf ldwn_errOf; split <;> rfl

/-- the table of responses after the (request, answer) pairs, in order -/
def ldwn_table (rs : Results) : List (WriteReq × MRReply) → Results
  | [] => rs
  | x :: rest => ldwn_table (rs.set x.1.rid (ldwn_tagOf x.1 x.2)) rest

theorem ldwn_table_append (a b : List (WriteReq × MRReply)) : ∀ rs, ldwn_table rs (a ++ b) = ldwn_table (ldwn_table rs a) b := by
  induction a with
  | nil => intro rs; rfl
  | cons x rest ih => intro rs; simp only [List.cons_append, ldwn_table, ih]

/-- (e) `MultiServiceResponsePacket` / `_send_requests` over embedded answers that are successes or refusals -/
theorem ldwn_multiWriteResults (pairs : List (WriteReq × MRReply)) : ∀ rs, (∀ x ∈ pairs, ldwn_Ans x.2) →
    multiWriteResults rs (pairs.map fun x => (x.1, ldwn_pad x.2)) = .ok (ldwn_table rs pairs) := by
  induction pairs with
  | nil => intro rs _; rfl
  | cons x rest ih =>
    intro rs h
    obtain ⟨q, r⟩ := x
    have hr := h (q, r) List.mem_cons_self
    simp only at hr
    rw [List.map_cons, multiWriteResults]
    rcases hr with rfl | ⟨h1, h2, h3, h4⟩
    · have hv : (tagResp (ldwn_pad {})).valid = true := (ldr2_tagResp_padded 0x4D []).1
      simp only [hv, if_true]
      rw [ih _ (fun y hy => h y (List.mem_cons_of_mem _ hy))]
      rfl
    · have hx := ldx_tagResp_refused_padded 0x4D r h1 h2 (by omega) (Or.inr (Or.inr (Or.inl rfl)))
      have hv : (tagResp (ldwn_pad r)).valid = false := hx.1
      have he : (tagResp (ldwn_pad r)).error = .ok (some (.reply (.text (ldx_errText r)))) := hx.2
      simp only [hv, Bool.false_eq_true, if_false, he]
      rw [ih _ (fun y hy => h y (List.mem_cons_of_mem _ hy))]
      simp only [ldwn_table, ldwn_tagOf, h1, if_false]

/-! ### the table of responses, looked up -/

theorem ldwn_find_map_other (rest : Results) (k k' : Int) (t : LTag) (hk : k' ≠ k) :
    ((rest.map (fun x => if x.1 == k then (k, t) else x)).find? (·.1 == k')).map (·.2) =
      (rest.find? (·.1 == k')).map (·.2) := by
  induction rest with
  | nil => rfl
  | cons a r ih =>
    have hkk : (k == k') = false := by simpa using (fun e : k = k' => hk e.symm)
    by_cases ha : a.1 = k
    · have h1 : (a.1 == k) = true := by simpa using ha
      have h2 : (a.1 == k') = false := by rw [ha]; exact hkk
      simp only [List.map_cons, h1, if_true, List.find?_cons, hkk, h2]
      exact ih
    · have h1 : (a.1 == k) = false := by simpa using ha
      simp only [List.map_cons, h1, Bool.false_eq_true, if_false, List.find?_cons]
      cases (a.1 == k') with
      | true => rfl
      | false => exact ih

theorem ldwn_find_map_self (rest : Results) (k : Int) (t : LTag) (hany : rest.any (·.1 == k) = true) :
    ((rest.map (fun x => if x.1 == k then (k, t) else x)).find? (·.1 == k)).map (·.2) = some t := by
  induction rest with
  | nil => simp at hany
  | cons a r ih =>
    by_cases ha : a.1 = k
    · have h1 : (a.1 == k) = true := by simpa using ha
      simp only [List.map_cons, h1, if_true, List.find?_cons, beq_self_eq_true]
      rfl
    · have h1 : (a.1 == k) = false := by simpa using ha
      simp only [List.any_cons, h1, Bool.false_or] at hany
      simp only [List.map_cons, h1, Bool.false_eq_true, if_false, List.find?_cons]
      exact ih hany

theorem ldwn_get_set (rs : Results) (k k' : Int) (t : LTag) :
    (rs.set k t).get? k' = if k' = k then some t else rs.get? k' := by
  unfold Results.set Results.get?
  by_cases hany : rs.any (·.1 == k) = true
  · rw [if_pos hany]
    by_cases hk : k' = k
    · subst hk; rw [if_pos rfl]; exact ldwn_find_map_self rs k' t hany
    · rw [if_neg hk]; exact ldwn_find_map_other rs k k' t hk
  · rw [if_neg hany]
    have hnone : ∀ x ∈ rs, (x.1 == k) = false := by
      intro x hx
      cases hxk : (x.1 == k) with
      | false => rfl
      | true => exact absurd (List.any_eq_true.2 ⟨x, hx, hxk⟩) hany
    rw [List.find?_append]
    by_cases hk : k' = k
    · subst hk
      have : rs.find? (fun x => x.1 == k') = none := by
        rw [List.find?_eq_none]; intro x hx; simp [hnone x hx]
      rw [this, if_pos rfl]
      simp
    · have hkk : (k == k') = false := by simpa using (fun e : k = k' => hk e.symm)
      rw [if_neg hk]
      have : List.find? (fun x : Int × LTag => x.1 == k') [(k, t)] = none := by
        simp only [List.find?_cons, hkk, List.find?_nil]
      rw [this, Option.or_none]

theorem ldwn_table_get_other (pairs : List (WriteReq × MRReply)) (k : Int) :
    ∀ rs, (∀ x ∈ pairs, (x.1.rid : Int) ≠ k) → (ldwn_table rs pairs).get? k = rs.get? k := by
  induction pairs with
  | nil => intro rs _; rfl
  | cons x rest ih =>
    intro rs h
    rw [ldwn_table, ih _ (fun y hy => h y (List.mem_cons_of_mem _ hy)), ldwn_get_set,
      if_neg (fun e => h x List.mem_cons_self e.symm)]

theorem ldwn_table_get (pairs : List (WriteReq × MRReply)) (hnd : (pairs.map (·.1.rid)).Nodup) :
    ∀ rs, ∀ x ∈ pairs, (ldwn_table rs pairs).get? (x.1.rid : Int) = some (ldwn_tagOf x.1 x.2) := by
  induction pairs with
  | nil => intro rs x hx; cases hx
  | cons a rest ih =>
    intro rs x hx
    simp only [List.map_cons, List.nodup_cons] at hnd
    rw [ldwn_table]
    rcases List.mem_cons.1 hx with rfl | hx
    · rw [ldwn_table_get_other rest _ _ (by
        intro y hy e
        apply hnd.1
        have : y.1.rid = x.1.rid := by omega
        rw [← this]
        exact List.mem_map_of_mem (f := fun z : WriteReq × MRReply => z.1.rid) hy), ldwn_get_set, if_pos rfl]
    · exact ih hnd.2 _ x hx

/-! ### the built requests of the items -/

/-- the Write Tag message of an item -/
def ldwn_itemMsg (it : ldwn_Item) : Bytes := Cl.writeMsg it.path (packedTypeOf it.info) 1 it.value

theorem ldwn_reqs_msgs (its : List ldwn_Item) : ∀ d k, (ldwn_reqs d k its).map ldwn_msgOf = its.map ldwn_itemMsg := by
  induction its with
  | nil => intro d k; rfl
  | cons it rest ih => intro d k; simp only [ldwn_reqs, List.map_cons, ih]; rfl

theorem ldwn_reqs_rids (its : List ldwn_Item) : ∀ d k, (ldwn_reqs d k its).map (·.rid) = List.range' k its.length := by
  induction its with
  | nil => intro d k; rfl
  | cons it rest ih => intro d k; simp only [ldwn_reqs, List.map_cons, ih, List.length_cons, List.range'_succ]; rfl

theorem ldwn_reqs_nodup (its : List ldwn_Item) (d : Cli.Drv) (k : Nat) : ((ldwn_reqs d k its).map (·.rid)).Nodup := by
  rw [ldwn_reqs_rids]; exact List.nodup_range'

theorem ldwn_reqs_mem (its : List ldwn_Item) : ∀ d k, ∀ q ∈ ldwn_reqs d k its,
    ∃ it ∈ its, q.path = it.path ∧ q.typeBytes = packedTypeOf it.info ∧ q.messageLen = ldx_wlen it.info it.path it.value := by
  induction its with
  | nil => intro d k q hq; cases hq
  | cons it rest ih =>
    intro d k q hq
    rcases List.mem_cons.1 hq with rfl | hq
    · exact ⟨it, List.mem_cons_self, rfl, rfl, rfl⟩
    · obtain ⟨it', h1, h2⟩ := ih _ _ q hq
      exact ⟨it', List.mem_cons_of_mem _ h1, h2⟩

theorem ldwn_packedType_len (info : TagInfo) : 2 ≤ (packedTypeOf info).length := by
  unfold packedTypeOf
  cases info.core.struct <;> simp [Cl.packedType, le_length]

/-! ### (f) the result loop -/

/-- the Tag of the result loop of `write` for an item answered with `r` -/
def ldwn_outTag (it : ldwn_Item) (r : MRReply) : LTag :=
  { tag := it.tag, value := it.v, type := some it.info.core.dataTypeName, error := ldwn_errOf r }

theorem ldwn_results (rs : Results) (its : List ldwn_Item) : ∀ (d : Cli.Drv) (k : Nat) (ans : List MRReply),
    ans.length = its.length →
    (∀ x ∈ (ldwn_reqs d k its).zip ans, rs.get? (x.1.rid : Int) = some (ldwn_tagOf x.1 x.2)) →
    (ldwn_parsed k its).map (fun p => writeResult p rs) = (its.zip ans).map fun x => ldwn_outTag x.1 x.2 := by
  induction its with
  | nil => intro d k ans _ _; rfl
  | cons it rest ih =>
    intro d k ans hl hget
    cases ans with
    | nil => simp at hl
    | cons r ra =>
      simp only [List.length_cons, Nat.add_right_cancel_iff] at hl
      simp only [ldwn_parsed, ldwn_reqs, List.map_cons, List.zip_cons_cons] at hget ⊢
      have h0 := hget (ldx_wreq d.nextSeq.1 k it.tag it.info it.path it.value, r) List.mem_cons_self
      have hres := ldx_writeResult_get (ldx_wparsed k it.tag it.info it.v) it.info _ rs rfl rfl rfl rfl rfl h0
      rw [hres, ldwn_tagOf_error, ih d.nextSeq.2 (k + 1) ra hl (fun x hx => hget x (List.mem_cons_of_mem _ hx))]
      rfl

/-! ### `_send_requests` over the multi-service packets -/

/-- the sequence count of the last packet sent -/
def ldwn_last (o : Option Nat) : List (Nat × List WriteReq) → Option Nat
  | [] => o
  | m :: rest => ldwn_last (some m.1) rest

theorem ldwn_sendRequests (sess : Nat) (cidb : Bytes) (ms : List (Nat × List WriteReq)) :
    ∀ (w : Cli.World Ext) (conn : Conn) (st : LState) (rs : Results),
      ldr_Healthy w sess cidb conn → w.net.target.ext.logix = some st →
      (∀ m ∈ ms, m.1 < 65536 ∧ m.2 ≠ [] ∧ K.OVERHEAD + ldwn_groupSize m.2 ≤ conn.size ∧
        K.OVERHEAD + ldwn_groupSize m.2 ≤ 65400) →
      (∀ q ∈ ms.flatMap (·.2), (∃ segs, Denotes q.path segs) ∧ 2 ≤ q.typeBytes.length) →
      (∀ r ∈ (ldwn_exch (conn.size - 2) st ((ms.flatMap (·.2)).map ldwn_msgOf)).2, ldwn_Ans r) →
      ∃ w' frms, sendRequests hookAll w rs (ms.map fun m => Request.multiWrite m.1 m.2) =
          (w', .ok (ldwn_table rs ((ms.flatMap (·.2)).zip
            (ldwn_exch (conn.size - 2) st ((ms.flatMap (·.2)).map ldwn_msgOf)).2))) ∧
        w'.drv = w.drv ∧ w'.net.sent = w.net.sent ++ frms ∧ frms.length = ms.length ∧
        w'.net.target.ext =
          { w.net.target.ext with
            logix := some (ldwn_exch (conn.size - 2) st ((ms.flatMap (·.2)).map ldwn_msgOf)).1 } ∧
        ldr_Healthy w' sess cidb { conn with lastSeq := ldwn_last conn.lastSeq ms } := by
  induction ms with
  | nil =>
    intro w conn st rs hw hlogix _ _ _
    refine ⟨w, [], rfl, rfl, by simp, rfl, ?_, hw⟩
    simp only [List.flatMap_nil, List.map_nil, ldwn_exch]
    cases hx : w.net.target.ext with
    | mk lg sl => rw [hx] at hlogix; simp only at hlogix; subst hlogix; rfl
  | cons m rest ih =>
    intro w conn st rs hw hlogix hms hq hans
    obtain ⟨hseq, hne, hfit, hmax⟩ := hms m List.mem_cons_self
    simp only [List.flatMap_cons, List.map_append] at hq hans ⊢
    rw [ldwn_exch_append] at hans ⊢
    simp only at hans ⊢
    have hans1 : ∀ r ∈ (ldwn_exch (conn.size - 2) st (m.2.map ldwn_msgOf)).2, ldwn_Ans r :=
      fun r hr => hans r (List.mem_append_left _ hr)
    obtain ⟨w1, frm, hsend, hd1, hsent1, hext1, hh1⟩ := ldwn_sendRequest_multi w sess cidb conn st rs m.1 m.2 hw hlogix hne
      (fun q hq' => (hq q (List.mem_append_left _ hq')).1) (fun q hq' => (hq q (List.mem_append_left _ hq')).2)
      hans1 hseq hfit hmax
    have hzip : m.2.zip ((ldwn_exch (conn.size - 2) st (m.2.map ldwn_msgOf)).2.map ldwn_pad) =
        (m.2.zip (ldwn_exch (conn.size - 2) st (m.2.map ldwn_msgOf)).2).map fun x => (x.1, ldwn_pad x.2) := by
      rw [List.zip_map_right]
      rfl
    rw [hzip, ldwn_multiWriteResults _ rs (by
      intro x hx
      exact hans1 x.2 (List.of_mem_zip hx).2)] at hsend
    have hlogix1 : w1.net.target.ext.logix = some (ldwn_exch (conn.size - 2) st (m.2.map ldwn_msgOf)).1 := by
      rw [hext1]
    obtain ⟨w2, frms, hsend2, hd2, hsent2, hlen2, hext2, hh2⟩ := ih w1 { conn with lastSeq := some m.1 }
      (ldwn_exch (conn.size - 2) st (m.2.map ldwn_msgOf)).1
      (ldwn_table rs (m.2.zip (ldwn_exch (conn.size - 2) st (m.2.map ldwn_msgOf)).2)) hh1 hlogix1
      (fun m' hm' => hms m' (List.mem_cons_of_mem _ hm'))
      (fun q hq' => hq q (List.mem_append_right _ hq'))
      (fun r hr => hans r (List.mem_append_right _ hr))
    refine ⟨w2, frm :: frms, ?_, by rw [hd2, hd1], by rw [hsent2, hsent1]; simp, by simp [hlen2], ?_, hh2⟩
    · rw [List.map_cons, sendRequests, hsend]
      simp only
      rw [hsend2, List.zip_append (by rw [ldwn_exch_length, List.length_map]), ldwn_table_append]
    · rw [hext2, hext1]

/-! ### the composition -/

theorem ldwn_parsed_getElem (its : List ldwn_Item) : ∀ (k j : Nat) (h : j < its.length),
    (ldwn_parsed k its)[j]'(by rw [ldwn_parsed_length]; exact h) = ldx_wparsed (k + j) its[j].tag its[j].info its[j].v := by
  induction its with
  | nil => intro k j h; cases h
  | cons it rest ih =>
    intro k j h
    cases j with
    | zero => rfl
    | succ j =>
      simp only [ldwn_parsed, List.getElem_cons_succ]
      rw [ih (k + 1) j (by simpa using h)]
      congr 1
      omega

/-- (a) the parsed requests of `write` for items with plain parses -/
theorem ldwn_wparse (cfg : Cfg) (its : List ldwn_Item)
    (hparse : ∀ it ∈ its, ∀ rid, parseTagRequest cfg.tags true rid it.tag = ldr2_parsedAt rid it.tag it.info) :
    lds_wparse cfg.tags (its.map fun it => (it.tag, it.v)) = ldwn_parsed 0 its := by
  apply List.ext_getElem
  · rw [lds_wparse_length, ldwn_parsed_length, List.length_map]
  · intro j h1 h2
    have hj : j < its.length := by rw [ldwn_parsed_length] at h2; exact h2
    rw [lds_wparse_getElem cfg.tags _ j (by rw [List.length_map]; exact hj), ldwn_parsed_getElem its 0 j hj]
    simp only [List.getElem_map, Nat.zero_add]
    rw [hparse its[j] (List.getElem_mem hj) j]
    rfl

theorem ldwn_drawSeqs_lt {α} (xs : List α) : ∀ d : Cli.Drv, ∀ m ∈ (drawSeqs d xs).2, m.1 < 65536 := by
  induction xs with
  | nil => intro d m hm; cases hm
  | cons x rest ih =>
    intro d m hm
    simp only [drawSeqs, List.mem_cons] at hm
    rcases hm with rfl | hm
    · exact ldr_nextSeq_lt d
    · exact ih _ m hm

theorem ldwn_fanOut_multi (rs : Results) (ms : List (Nat × List WriteReq)) :
    fanOutRmw rs (ms.map fun m => Request.multiWrite m.1 m.2) = some rs := by
  induction ms with
  | nil => rfl
  | cons m rest ih => simp only [List.map_cons, fanOutRmw, ih]

/-- `write` of `n ≥ 2` plain one-element requests on a healthy connected driver that is not a Micro800, each message
    below the fragmentation threshold, for ANY answers of the controller to the embedded Write Tag requests that are
    successes or refusals (executed in request order): the driver draws `n` sequence numbers for the Write Tag
    packets and one per multi-service packet, writes one frame per packet, and returns one Tag per request, in
    request order, carrying the caller's value, the type name and the error of the request's own answer -/
theorem ldwn_write_general (cfg : Cfg) (w : Cli.World Ext) (sess : Nat) (cidb : Bytes) (conn : Conn) (st : LState)
    (its : List ldwn_Item)
    (hw : ldr_Healthy w sess cidb conn) (hlogix : w.net.target.ext.logix = some st) (hmicro : cfg.micro800 = false)
    (hlen : 2 ≤ its.length)
    (hparse : ∀ it ∈ its, ∀ rid, parseTagRequest cfg.tags true rid it.tag = ldr2_parsedAt rid it.tag it.info)
    (hok : ∀ it ∈ its, ldwn_ItemOk cfg w.drv.connectionSize it)
    (hden : ∀ it ∈ its, ∃ segs, Denotes it.path segs)
    (hCT : w.drv.connectionSize ≤ conn.size) (hCmax : w.drv.connectionSize ≤ 65400)
    (hans : ∀ r ∈ (ldwn_exch (conn.size - 2) st (its.map ldwn_itemMsg)).2, ldwn_Ans r) :
    ∃ w' frms, write hookAll cfg w (its.map fun it => (it.tag, it.v)) =
        (w', .ok ((its.zip (ldwn_exch (conn.size - 2) st (its.map ldwn_itemMsg)).2).map fun x => ldwn_outTag x.1 x.2)) ∧
      w'.drv = ldwn_seqN (its.length + (ldwn_groups w.drv.connectionSize (ldwn_reqs w.drv 0 its)).length) w.drv ∧
      w'.net.sent = w.net.sent ++ frms ∧
      frms.length = (ldwn_groups w.drv.connectionSize (ldwn_reqs w.drv 0 its)).length ∧
      w'.net.target.ext =
        { w.net.target.ext with logix := some (ldwn_exch (conn.size - 2) st (its.map ldwn_itemMsg)).1 } ∧
      ldr_Healthy w' sess cidb { conn with lastSeq := (ldwn_last conn.lastSeq
        (drawSeqs (ldwn_seqN its.length w.drv) (ldwn_groups w.drv.connectionSize (ldwn_reqs w.drv 0 its))).2) } := by
  generalize hC : w.drv.connectionSize = C at *
  generalize hreqs : ldwn_reqs w.drv 0 its = reqs
  have hnd : (reqs.map (·.rid)).Nodup := by rw [← hreqs]; exact ldwn_reqs_nodup its w.drv 0
  have hmsgs : reqs.map ldwn_msgOf = its.map ldwn_itemMsg := by rw [← hreqs]; exact ldwn_reqs_msgs its w.drv 0
  have hrl : reqs.length = its.length := by rw [← hreqs]; exact ldwn_reqs_length its w.drv 0
  have hmem : ∀ q ∈ reqs, ∃ it ∈ its, q.path = it.path ∧ q.typeBytes = packedTypeOf it.info ∧
      q.messageLen = ldx_wlen it.info it.path it.value := by
    rw [← hreqs]; exact ldwn_reqs_mem its w.drv 0
  have hfit1 : ∀ r ∈ reqs, r.messageLen + K.OVERHEAD ≤ C := by
    intro q hq
    obtain ⟨it, hit, _, _, h3⟩ := hmem q hq
    rw [h3]; exact (hok it hit).fit
  generalize hgs : ldwn_groups C reqs = gs
  have hG1 : gs.flatten = reqs := by rw [← hgs]; exact ldwn_groups_flatten C reqs hnd hfit1
  have hG2 : ∀ g ∈ gs, g ≠ [] := by rw [← hgs]; exact ldwn_groups_ne_nil C reqs hnd hfit1
  have hG3 : ∀ g ∈ gs, K.OVERHEAD + ldwn_groupSize g ≤ C := by rw [← hgs]; exact ldwn_groups_fit C reqs hnd
  -- (a), (b)
  have hbuild := ldwn_build cfg w.drv its hmicro (by omega) (by rw [hC]; exact hok)
  rw [hC, hreqs, hgs] at hbuild
  generalize hms : (drawSeqs (ldwn_seqN its.length w.drv) gs) = dm at hbuild ⊢
  have hd2 : dm.1 = ldwn_seqN (its.length + gs.length) w.drv := by
    rw [← hms, ldwn_drawSeqs_fst, ldwn_seqN_add]
  have hm2 : dm.2.map (·.2) = gs := by rw [← hms]; exact lds_drawSeqs_snd gs _
  have hmlt : ∀ m ∈ dm.2, m.1 < 65536 := by rw [← hms]; exact ldwn_drawSeqs_lt gs _
  have hflat : dm.2.flatMap (·.2) = reqs := by
    rw [List.flatMap_def, hm2, hG1]
  -- (c)+(d)+(e)
  have hw1 : ldr_Healthy ({ w with drv := dm.1 } : Cli.World Ext) sess cidb conn :=
    ldr_Healthy_seq hw _ (by rw [hd2]; exact ldwn_seqN_eq _ _)
  obtain ⟨w2, frms, hsend, hdrv, hsent, hflen, hext, hh2⟩ := ldwn_sendRequests sess cidb dm.2
    ({ w with drv := dm.1 } : Cli.World Ext) conn st [] hw1 hlogix
    (by
      intro m hm
      have hg : m.2 ∈ gs := by rw [← hm2]; exact List.mem_map_of_mem hm
      have := hG3 m.2 hg
      exact ⟨hmlt m hm, hG2 m.2 hg, by omega, by omega⟩)
    (by
      rw [hflat]
      intro q hq
      obtain ⟨it, hit, h1, h2, _⟩ := hmem q hq
      rw [h1, h2]
      exact ⟨hden it hit, ldwn_packedType_len it.info⟩)
    (by rw [hflat, hmsgs]; exact hans)
  rw [hflat, hmsgs] at hsend hext
  have hfo : Cli.ensureForwardOpen hookAll Cli.FUEL w = (w, .ok ()) := ldr_ensureFO_connected hookAll 7 w hw.connected
  have hflen' : frms.length = gs.length := by rw [hflen, ← hm2, List.length_map]
  refine ⟨w2, frms, ?_, by rw [hdrv, hd2], hsent, hflen', hext, hh2⟩
  unfold write
  rw [hfo]
  dsimp only
  have hwp := ldwn_wparse cfg its hparse
  unfold lds_wparse at hwp
  rw [hwp, hbuild]
  dsimp only
  rw [hsend]
  dsimp only
  rw [ldwn_fanOut_multi]
  dsimp only
  have hne : (its.map fun it => (it.tag, it.v)).isEmpty = false := by
    cases its with
    | nil => simp at hlen
    | cons a t => rfl
  rw [hne]
  simp only [Bool.false_eq_true, if_false]
  have hres := ldwn_results (ldwn_table [] (reqs.zip (ldwn_exch (conn.size - 2) st (its.map ldwn_itemMsg)).2)) its w.drv 0
    (ldwn_exch (conn.size - 2) st (its.map ldwn_itemMsg)).2 (by rw [ldwn_exch_length, List.length_map])
    (by
      rw [hreqs]
      intro x hx
      refine ldwn_table_get _ ?_ [] x hx
      have : (reqs.zip (ldwn_exch (conn.size - 2) st (its.map ldwn_itemMsg)).2).map (fun x => x.1.rid) =
          reqs.map (·.rid) := by
        have e : (fun x : WriteReq × MRReply => x.1.rid) = (fun q : WriteReq => q.rid) ∘ Prod.fst := rfl
        rw [e, ← List.map_map, List.map_fst_zip (by rw [ldwn_exch_length, List.length_map, hrl]; exact Nat.le_refl _)]
      rw [this]; exact hnd)
  rw [hres]

end Pycomm.Lgx.Drv
