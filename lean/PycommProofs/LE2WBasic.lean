/-
  Shared lemmas for the end-to-end write laws (LogixE2EWrite): message-router dispatch to the tag services,
  effect of `updateSymbol` on symbol lookup, stability of `resolve` under writes.
-/
import PycommProofs.LE2EDefs
import PycommProofs.GenericProofs
namespace Pycomm.Lgx.E2E
open Pycomm Pycomm.Tgt Pycomm.Path Pycomm.Lgx Pycomm.Lgx.Cl

/-! ### dispatch -/

/-- a path that resolves is a tag path -/
theorem shape_of_resolve (p : Project) (segs : List PSeg) (loc : Loc) (hr : resolve p segs = .ok loc) :
    (∃ nm rest, segs = .symbol nm :: rest) ∨ (∃ i rest, segs = .logical 0 0x6B :: .logical 4 i :: rest) := by
  unfold resolve at hr
  split at hr
  rename_i heq
  split at heq
  · exact .inl ⟨_, _, rfl⟩
  · simp only [Prod.mk.injEq] at heq
    obtain ⟨rfl, rfl⟩ := heq
    simp only at hr
    split at hr
    · cases hr
    · rename_i hb
      split at hb
      · exact .inl ⟨_, _, rfl⟩
      · exact .inr ⟨_, _, rfl⟩
      · cases hb

theorem w_tagService_of_resolve (st : LState) (req : MRReq) (cap : Nat) (loc : Loc)
    (hr : resolve st.proj req.path = .ok loc)
    (hs : req.service = 0x4D ∨ req.service = 0x53 ∨ req.service = 0x4E) :
    tagService st req cap =
      some (if req.service = 0x4D then writeTag st loc req.data false
            else if req.service = 0x53 then writeTag st loc req.data true
            else rmwTag st loc req.data) := by
  obtain ⟨svc, path, data⟩ := req
  simp only at hr hs ⊢
  unfold tagService
  simp only [hr]
  rcases shape_of_resolve _ _ _ hr with ⟨nm, rest, rfl⟩ | ⟨i, rest, rfl⟩ <;>
    rcases hs with h | h | h <;> simp [h]

theorem w_single_of_resolve (st : LState) (req : MRReq) (cap : Nat) (loc : Loc)
    (hr : resolve st.proj req.path = .ok loc)
    (hs : req.service = 0x4D ∨ req.service = 0x53 ∨ req.service = 0x4E) :
    single st req cap = tagService st req cap := by
  unfold single
  split
  · rw [if_neg (by omega)]
  · rw [if_neg (by omega)]
  · rename_i tid heq
    rw [heq] at hr
    simp [resolve] at hr
  · rfl

theorem w_exchange_tag (st : LState) (cap : Nat) (svc : UInt8) (path data : Bytes) (segs : List PSeg) (loc : Loc)
    (hp : Denotes path segs) (hr : resolve st.proj segs = .ok loc)
    (hs : svc.toNat = 0x4D ∨ svc.toNat = 0x53 ∨ svc.toNat = 0x4E) :
    exchange st cap ([svc] ++ path ++ data) =
      (if svc.toNat = 0x4D then writeTag st loc data false
       else if svc.toNat = 0x53 then writeTag st loc data true
       else rmwTag st loc data) := by
  have h3 := Pycomm.Cli.parseRequestPath_append path data _ hp
  unfold exchange
  simp only [List.cons_append, List.nil_append, parseMR, h3]
  unfold logixService
  rw [if_neg (by simp only []; omega)]
  rw [w_single_of_resolve st _ _ loc hr hs, w_tagService_of_resolve st _ _ loc hr hs]

theorem exchange_4D (st : LState) (cap : Nat) (path data : Bytes) (segs : List PSeg) (loc : Loc)
    (hp : Denotes path segs) (hr : resolve st.proj segs = .ok loc) :
    exchange st cap ([0x4D] ++ path ++ data) = writeTag st loc data false := by
  rw [w_exchange_tag st cap 0x4D path data segs loc hp hr (.inl rfl)]
  rfl

theorem exchange_53 (st : LState) (cap : Nat) (path data : Bytes) (segs : List PSeg) (loc : Loc)
    (hp : Denotes path segs) (hr : resolve st.proj segs = .ok loc) :
    exchange st cap ([0x53] ++ path ++ data) = writeTag st loc data true := by
  rw [w_exchange_tag st cap 0x53 path data segs loc hp hr (.inr (.inl rfl))]
  rfl

theorem exchange_4E (st : LState) (cap : Nat) (path data : Bytes) (segs : List PSeg) (loc : Loc)
    (hp : Denotes path segs) (hr : resolve st.proj segs = .ok loc) :
    exchange st cap ([0x4E] ++ path ++ data) = rmwTag st loc data := by
  rw [w_exchange_tag st cap 0x4E path data segs loc hp hr (.inr (.inr rfl))]
  rfl

/-! ### symbol lookup after an update -/

/-- the per-symbol effect of a write -/
def wr (off : Nat) (d : Bytes) (s : Symbol) : Symbol := { s with mem := splice s.mem off d }

theorem written_eq (p : Project) (loc : Loc) (off : Nat) (d : Bytes) :
    written p loc off d = logWrite (p.updateSymbol loc (wr off d)) loc off d.length := rfl

theorem find?_map_inv {α} (l : List α) (g : α → α) (pred : α → Bool) (h : ∀ s, pred (g s) = pred s) :
    (l.map g).find? pred = (l.find? pred).map g := by
  rw [List.find?_map]
  congr 2
  funext s
  exact h s

/-- which symbols an update touches when looked up in scope `sc` -/
def upd (loc : Loc) (f : Symbol → Symbol) (sc : Option Name) (s : Symbol) : Symbol :=
  if sc = loc.scope ∧ s.inst = loc.symInst then f s else s

theorem findSymbol_update (p : Project) (loc : Loc) (f : Symbol → Symbol) (sc : Option Name) (pred : Symbol → Bool)
    (h : ∀ s, pred (f s) = pred s) :
    (p.updateSymbol loc f).findSymbol sc pred = (p.findSymbol sc pred).map (upd loc f sc) := by
  have hg : ∀ s, pred ((fun s => if s.inst == loc.symInst then f s else s) s) = pred s := by
    intro s; simp only; split <;> simp [h]
  cases hl : loc.scope with
  | none =>
    cases sc with
    | none =>
      simp only [Project.updateSymbol, hl, Project.findSymbol]
      rw [find?_map_inv _ _ _ hg]
      congr 1; funext s; simp [upd, hl]
    | some a =>
      simp only [Project.updateSymbol, hl, Project.findSymbol]
      have : upd loc f (some a) = id := by funext s; simp [upd, hl]
      rw [this]; simp
  | some b =>
    cases sc with
    | none =>
      simp only [Project.updateSymbol, hl, Project.findSymbol]
      have : upd loc f none = id := by funext s; simp [upd, hl]
      rw [this]; simp
    | some a =>
      simp only [Project.updateSymbol, hl, Project.findSymbol]
      rw [find?_map_inv (pred := fun (x : Name × List Symbol) => x.1 == a)]
      · cases hf : p.programs.find? (fun x => x.1 == a) with
        | none => simp
        | some pr =>
          have ha : pr.1 = a := by simpa using List.find?_some hf
          simp only [Option.map_some, Option.bind_some]
          by_cases hab : a = b
          · subst hab
            simp only [ha, beq_self_eq_true, if_true]
            rw [find?_map_inv _ _ _ hg]
            congr 1; funext s; simp [upd, hl]
          · have : (pr.1 == b) = false := by simp [ha, hab]
            simp only [this]
            have : upd loc f (some a) = id := by funext s; simp [upd, hl, hab]
            rw [this]; simp
      · intro pr; split <;> rfl

theorem findSymbol_some (p : Project) (sc : Option Name) (pred : Symbol → Bool) (s : Symbol)
    (h : p.findSymbol sc pred = some s) : pred s = true := by
  cases sc with
  | none => exact List.find?_some h
  | some a =>
    simp only [Project.findSymbol] at h
    cases hf : p.programs.find? (fun x => x.1 == a) with
    | none => simp [hf] at h
    | some pr => simp only [hf, Option.map_some, Option.bind_some] at h; exact List.find?_some h

theorem findSymbol_logWrite (q : Project) (loc : Loc) (off len : Nat) (sc : Option Name) (pred : Symbol → Bool) :
    (logWrite q loc off len).findSymbol sc pred = q.findSymbol sc pred := rfl

theorem templates_written (p : Project) (loc : Loc) (off : Nat) (d : Bytes) :
    (written p loc off d).templates = p.templates := by
  unfold written logWrite Project.updateSymbol
  cases loc.scope <;> rfl

theorem elSize_congr (p p' : Project) (h : p'.templates = p.templates) (ty : ElTy) : p'.elSize ty = p.elSize ty := by
  cases ty <;> simp [Project.elSize, Project.template?, h]

theorem template?_congr (p p' : Project) (h : p'.templates = p.templates) (tid : Nat) :
    p'.template? tid = p.template? tid := by
  simp [Project.template?, h]

theorem typeBytes_congr (p p' : Project) (h : p'.templates = p.templates) (ty : ElTy) :
    typeBytes p' ty = typeBytes p ty := by
  cases ty <;> simp [typeBytes, Project.template?, h]

theorem symbolOf_written (p : Project) (loc : Loc) (off : Nat) (d : Bytes) (s : Symbol)
    (hs : p.symbolOf loc = some s) : (written p loc off d).symbolOf loc = some (wr off d s) := by
  have hi := findSymbol_some _ _ _ _ hs
  simp only [beq_iff_eq] at hi
  unfold Project.symbolOf at hs ⊢
  rw [written_eq, findSymbol_logWrite, findSymbol_update p loc (wr off d) loc.scope _ (fun _ => rfl), hs]
  simp [upd, hi]

theorem resolveMembers_congr (p p' : Project) (h : p'.templates = p.templates) :
    ∀ fuel loc segs, resolveMembers p' fuel loc segs = resolveMembers p fuel loc segs := by
  intro fuel
  induction fuel with
  | zero => intro loc segs; rfl
  | succ k ih =>
    intro loc segs
    cases segs with
    | nil => rfl
    | cons a rest =>
      cases a with
      | symbol nm => simp only [resolveMembers, template?_congr p p' h, elSize_congr p p' h, ih]
      | logical t v => rfl
      | port a b => rfl

/-! ### `resolve` is stable under writes -/

def scopeSplit (path : List PSeg) : Option Name × List PSeg :=
  match path with
  | .symbol nm :: rest => if isProgramName nm then (some (nm.map (·.toNat)), rest) else (none, .symbol nm :: rest)
  | other => (none, other)

def baseOf (p : Project) (scope : Option Name) (path : List PSeg) : Option (Symbol × List PSeg) :=
  match path with
  | .symbol nm :: rest => (p.findSymbol scope (fun s => s.name.map (fun c => UInt8.ofNat c) == nm)).map (·, rest)
  | .logical 0 0x6B :: .logical 4 i :: rest => (p.findSymbol scope (fun s => s.inst == i)).map (·, rest)
  | _ => none

def resolveTail (p : Project) (scope : Option Name) (s : Symbol) (rest : List PSeg) : Except Nat Loc :=
  if s.mem.isEmpty then .error 0x05 else
  let ty := elTyOfWord s.symbolType
  match p.elSize ty with
  | none => .error 0x05
  | some sz =>
      let (idx, rest') := takeIndices rest
      let total := dimsProduct s.dims
      let start? : Except Nat (Nat × Nat) :=
        if idx = [] then .ok (0, total)
        else match linearIndex s.dims idx with
          | some li => .ok (li, total - li)
          | none => .error 0xFF
      match start? with
      | .error e => .error e
      | .ok (li, avail) =>
          resolveMembers p (rest'.length + 1) { symInst := s.inst, scope := scope, offset := li * sz, ty := ty, avail := avail } rest'

theorem resolve_eq (p : Project) (path : List PSeg) :
    resolve p path =
      match baseOf p (scopeSplit path).1 (scopeSplit path).2 with
      | none => .error 0x05
      | some (s, rest) => resolveTail p (scopeSplit path).1 s rest := rfl

theorem splice_length (mem d : Bytes) (off : Nat) :
    (splice mem off d).length = min off mem.length + d.length + (mem.length - (off + d.length)) := by
  simp only [splice, List.length_append, List.length_take, List.length_drop]

theorem splice_isEmpty (mem d : Bytes) (off : Nat) (h : mem.isEmpty = false) : (splice mem off d).isEmpty = false := by
  have h1 : mem.length ≠ 0 := by intro h0; rw [List.length_eq_zero_iff.1 h0] at h; simp at h
  have h2 := splice_length mem d off
  cases hs : splice mem off d with
  | nil => rw [hs] at h2; simp at h2; omega
  | cons a b => rfl

theorem resolveTail_wr (p p' : Project) (ht : p'.templates = p.templates) (sc : Option Name) (s : Symbol)
    (rest : List PSeg) (off : Nat) (d : Bytes) (loc' : Loc) (h : resolveTail p sc s rest = .ok loc') :
    resolveTail p' sc (wr off d s) rest = .ok loc' := by
  unfold resolveTail at h ⊢
  split at h
  · cases h
  · rename_i hne
    have hne' : (wr off d s).mem.isEmpty = false := splice_isEmpty _ _ _ (by simpa using hne)
    rw [if_neg (by simp [hne'])]
    simp only [elSize_congr p p' ht, resolveMembers_congr p p' ht]
    exact h

theorem resolveTail_congr (p p' : Project) (ht : p'.templates = p.templates) (sc : Option Name) (s : Symbol)
    (rest : List PSeg) : resolveTail p' sc s rest = resolveTail p sc s rest := by
  unfold resolveTail
  simp only [elSize_congr p p' ht, resolveMembers_congr p p' ht]

theorem baseOf_written (p : Project) (loc : Loc) (off : Nat) (d : Bytes) (sc : Option Name) (path : List PSeg) :
    baseOf (written p loc off d) sc path =
      (baseOf p sc path).map fun x => (upd loc (wr off d) sc x.1, x.2) := by
  unfold baseOf
  split
  · rw [written_eq, findSymbol_logWrite, findSymbol_update p loc (wr off d) sc _ (fun _ => rfl)]
    simp [Option.map_map, Function.comp_def]
  · rw [written_eq, findSymbol_logWrite, findSymbol_update p loc (wr off d) sc _ (fun _ => rfl)]
    simp [Option.map_map, Function.comp_def]
  · rfl

theorem resolve_written (p : Project) (loc : Loc) (off : Nat) (d : Bytes) (segs : List PSeg) (loc' : Loc)
    (hr : resolve p segs = .ok loc') : resolve (written p loc off d) segs = .ok loc' := by
  rw [resolve_eq] at hr ⊢
  rw [baseOf_written]
  cases hb : baseOf p (scopeSplit segs).1 (scopeSplit segs).2 with
  | none => rw [hb] at hr; cases hr
  | some x =>
    obtain ⟨s, rest⟩ := x
    rw [hb] at hr
    simp only [Option.map_some] at hr ⊢
    unfold upd
    split
    · exact resolveTail_wr _ _ (templates_written p loc off d) _ _ _ _ _ _ hr
    · rw [resolveTail_congr _ _ (templates_written p loc off d)]; exact hr

end Pycomm.Lgx.E2E
