/-
  LogixDriver.open(), end to end, part 3: the client's `_forward_open()` and the `with_forward_open` decorator on a
  registered session that is not connected yet, for an arbitrary fuel: the large Forward Open and, when the target
  refuses it, the standard one with connection size 500.
-/
import PycommProofs.LOpenE2
namespace Pycomm.Cli
open Pycomm.Tgt Pycomm.Encap Pycomm.Path Pycomm.Reply Pycomm.EN Pycomm.EP

/-- the arguments `_forward_open` hands to `generic_message` -/
def loe_foArgs (d : Drv) (np route : Bytes) : GenArgs :=
  { service := if d.extendedFo then 0x5B else 0x54, cls := .bytes [0x06], inst := .bytes [0x01],
    data := [0x0a, 0x05] ++ [0, 0, 0, 0] ++ d.cid ++ d.csn ++ d.vid ++ d.vsn ++ [0x07] ++ [0, 0, 0] ++
            [0x01, 0x40, 0x20, 0x00] ++ np ++ [0x01, 0x40, 0x20, 0x00] ++ np ++ [0xa3],
    route := .bytes route, connected := false, name := nm "forward_open" }

/-- what `_forward_open` makes of the Tag -/
def loe_foTail {σ} (x : World σ × Except Exn Tag) : World σ × Except Exn Bool :=
  match x with
  | (w1, .error e) => (w1, .error e)
  | (w1, .ok tag) =>
      if tag.truthy then
        ({ w1 with drv := { w1.drv with
                              targetCid := some (match tag.value with | .bytes b => b.take 4 | _ => []),
                              targetIsConnected := true } }, .ok true)
      else (w1, .ok false)

/-- `_forward_open()` on a driver with a session that is not connected, unfolded (any fuel) -/
theorem loe_forwardOpen_eq {σ} (hook : ObjHook σ) (fuel : Nat) (w : World σ) (np route : Bytes)
    (hnc : w.drv.targetIsConnected = false) (hs0 : (w.drv.session == some 0) = false)
    (hnp : (if w.drv.extendedFo then u32 ((w.drv.connectionSize % 65536) + 0x4200 * 65536)
            else u16 ((w.drv.connectionSize % 512) ||| 0x4200)) = .ok np)
    (hroute : encEpath true (w.drv.cipPath ++ msgRouterPath) true false = .ok route) :
    forwardOpen hook (fuel + 1) w = loe_foTail (genericMessage hook fuel w (loe_foArgs w.drv np route)) := by
  unfold forwardOpen
  simp only [hnc, hs0, Bool.false_eq_true, if_false]
  rw [hnp, hroute]
  dsimp only
  unfold loe_foTail loe_foArgs
  generalize genericMessage hook fuel w _ = x
  obtain ⟨w1, r⟩ := x
  cases r <;> rfl

theorem loe_np_large : u32 ((4000 % 65536) + 0x4200 * 65536) = .ok [0xA0, 0x0F, 0x00, 0x42] := by
  rw [lcs_u32_val _ (by decide)]
  rfl

theorem loe_np_std : u16 ((500 % 512) ||| 0x4200) = .ok [0xF4, 0x43] := by
  rw [lcs_u16_val _ (by decide)]
  rfl

/-- one `_forward_open()` attempt (large when `extended_forward_open` is set with size 4000, else standard with size
    500) on a registered session without a connection, in front of a target that holds no connection: exactly one
    frame; when the target's policy accepts the service the driver is connected afterwards and the target holds the
    connection with the requested size; otherwise nothing changed but the target's log and `False` is returned -/
theorem loe_forwardOpen {σ} (hook : ObjHook σ) (fuel : Nat) (w : World σ) (sess : Nat) (n : UInt8) (path : Bytes)
    (hw : gme_Session w sess) (hs0 : sess ≠ 0) (hnc : w.drv.targetIsConnected = false)
    (hcfg : loe_FoCfg w.drv n path)
    (hmode : (w.drv.extendedFo = true ∧ w.drv.connectionSize = 4000) ∨
             (w.drv.extendedFo = false ∧ w.drv.connectionSize = 500))
    (hconns : w.net.target.base.conns = []) (hcid : w.net.target.base.nextCid < 2 ^ 32) :
    ∃ w' res, forwardOpen hook (fuel + 2) w = (w', res) ∧
      loe_FoOutcome w w' sess w.drv.extendedFo (if w.drv.extendedFo then 4000 else 500) res := by
  have hs0' : (w.drv.session == some 0) = false := by
    rw [hw.session]
    simp [hs0]
  have hpl : path.length ≤ 510 := by
    have := hcfg.pathLen
    have : n.toNat < 256 := n.toNat_lt
    omega
  rcases hmode with ⟨he, hsz⟩ | ⟨he, hsz⟩
  · -- the large Forward Open
    have hnp : (if w.drv.extendedFo then u32 ((w.drv.connectionSize % 65536) + 0x4200 * 65536)
        else u16 ((w.drv.connectionSize % 512) ||| 0x4200)) = .ok [0xA0, 0x0F, 0x00, 0x42] := by
      rw [he, hsz]; exact loe_np_large
    rw [loe_forwardOpen_eq hook (fuel + 1) w _ _ hnc hs0' hnp hcfg.route]
    obtain ⟨r, hr, hrs, hrp⟩ := lci_parseFo_large w.drv.cid w.drv.csn w.drv.vid w.drv.vsn hcfg.cid4 hcfg.csn2 hcfg.vid2
      hcfg.vsn4 n path hcfg.pathLen
    have hsvc : (loe_foArgs w.drv [0xA0, 0x0F, 0x00, 0x42] (n :: path)).service = 0x5B := by
      show (if w.drv.extendedFo then 0x5B else 0x54) = 0x5B
      rw [he]; rfl
    have hdl : (loe_foArgs w.drv [0xA0, 0x0F, 0x00, 0x42] (n :: path)).data.length = 39 := by
      simp [loe_foArgs, hcfg.cid4, hcfg.csn2, hcfg.vid2, hcfg.vsn4]
    obtain ⟨frm, value, err, hgm, htag⟩ := loe_direct_bytes hook fuel w sess
      (loe_foArgs w.drv [0xA0, 0x0F, 0x00, 0x42] (n :: path)) 6 1 none (n :: path) hw rfl rfl rfl
      (by rw [hsvc]; decide) (gme_Id.bytes [6] (.inl rfl)) (gme_Id.bytes [1] (.inl rfl)) .absent
      (by rw [hsvc]; decide) (by rw [hdl, List.length_cons]; omega)
    rw [hgm]
    rw [hsvc] at htag
    have hfin := loe_fo_finish hook w sess true 0x5B 4000 frm _ r value err hw hconns hcid (by decide) (.inr rfl) hr
      (by rw [hrp]; exact hcfg.pathOk) hrs htag
    rw [hsvc]
    rw [he]
    exact hfin
  · -- the standard Forward Open
    have hnp : (if w.drv.extendedFo then u32 ((w.drv.connectionSize % 65536) + 0x4200 * 65536)
        else u16 ((w.drv.connectionSize % 512) ||| 0x4200)) = .ok [0xF4, 0x43] := by
      rw [he, hsz]; exact loe_np_std
    rw [loe_forwardOpen_eq hook (fuel + 1) w _ _ hnc hs0' hnp hcfg.route]
    obtain ⟨r, hr, hrs, hrp⟩ := lci_parseFo_std w.drv.cid w.drv.csn w.drv.vid w.drv.vsn hcfg.cid4 hcfg.csn2 hcfg.vid2
      hcfg.vsn4 n path hcfg.pathLen
    have hsvc : (loe_foArgs w.drv [0xF4, 0x43] (n :: path)).service = 0x54 := by
      show (if w.drv.extendedFo then 0x5B else 0x54) = 0x54
      rw [he]; rfl
    have hdl : (loe_foArgs w.drv [0xF4, 0x43] (n :: path)).data.length = 35 := by
      simp [loe_foArgs, hcfg.cid4, hcfg.csn2, hcfg.vid2, hcfg.vsn4]
    obtain ⟨frm, value, err, hgm, htag⟩ := loe_direct_bytes hook fuel w sess
      (loe_foArgs w.drv [0xF4, 0x43] (n :: path)) 6 1 none (n :: path) hw rfl rfl rfl
      (by rw [hsvc]; decide) (gme_Id.bytes [6] (.inl rfl)) (gme_Id.bytes [1] (.inl rfl)) .absent
      (by rw [hsvc]; decide) (by rw [hdl, List.length_cons]; omega)
    rw [hgm]
    rw [hsvc] at htag
    have hfin := loe_fo_finish hook w sess false 0x54 500 frm _ r value err hw hconns hcid (by decide) (.inl rfl) hr
      (by rw [hrp]; exact hcfg.pathOk) hrs htag
    rw [hsvc]
    rw [he]
    exact hfin

/-- what the `with_forward_open` decorator does with the result of the first `_forward_open()` -/
def loe_foDecor {σ} (hook : ObjHook σ) (fuel : Nat) (x : World σ × Except Exn Bool) : World σ × Except Exn Unit :=
  match x with
  | (w1, .error e) => (w1, .error e)
  | (w1, .ok true) => (w1, .ok ())
  | (w1, .ok false) =>
      if w1.drv.extendedFo then
        match forwardOpen hook fuel { w1 with drv := { w1.drv with extendedFo := false, connectionSize := 500 } } with
        | (w3, .error e) => (w3, .error e)
        | (w3, .ok true) => (w3, .ok ())
        | (w3, .ok false) => (w3, .error .response)
      else (w1, .error .response)

/-- the decorator on a driver that is not connected, unfolded (any fuel) -/
theorem loe_ensureFO_eq {σ} (hook : ObjHook σ) (fuel : Nat) (w : World σ) (hnc : w.drv.targetIsConnected = false) :
    ensureForwardOpen hook (fuel + 1) w = loe_foDecor hook fuel (forwardOpen hook fuel w) := by
  unfold ensureForwardOpen
  simp only [hnc, Bool.false_eq_true, if_false]
  unfold loe_foDecor
  generalize forwardOpen hook fuel w = x
  obtain ⟨w1, r⟩ := x
  cases r with
  | error e => rfl
  | ok b =>
    cases b with
    | true => rfl
    | false =>
      dsimp only
      split
      · generalize forwardOpen hook fuel _ = y
        obtain ⟨w3, r3⟩ := y
        cases r3 with
        | error e => rfl
        | ok b3 => cases b3 <;> rfl
      · rfl

/-- what the decorator does with the result of the second `_forward_open()` -/
def loe_foDecor2 {σ} (y : World σ × Except Exn Bool) : World σ × Except Exn Unit :=
  match y with
  | (w3, .error e) => (w3, .error e)
  | (w3, .ok true) => (w3, .ok ())
  | (w3, .ok false) => (w3, .error .response)

theorem loe_foDecor_true {σ} (hook : ObjHook σ) (fuel : Nat) (w1 : World σ) :
    loe_foDecor hook fuel (w1, .ok true) = (w1, .ok ()) := rfl

theorem loe_foDecor_false {σ} (hook : ObjHook σ) (fuel : Nat) (w1 : World σ) (h : w1.drv.extendedFo = true) :
    loe_foDecor hook fuel (w1, .ok false) =
      loe_foDecor2 (forwardOpen hook fuel { w1 with drv := { w1.drv with extendedFo := false, connectionSize := 500 } }) := by
  show (if w1.drv.extendedFo then _ else _) = _
  rw [if_pos h]
  rfl

/-- the `with_forward_open` decorator on a registered session that is not connected, with the default configuration
    (`extended_forward_open`, connection size 4000), in front of a target that holds no connection and accepts at least
    one of the two services (any fuel ≥ 3): the large Forward Open succeeds, or — refused — the driver switches to the
    standard Forward Open with connection size 500, which succeeds.  The driver is connected afterwards, the target
    holds the connection (id = the target's `nextCid`) with size 4000 / 500; identity, program name, policy, sessions and
    the object extension state of the target are untouched. -/
theorem loe_ensureFO {σ} (hook : ObjHook σ) (fuel : Nat) (w : World σ) (sess : Nat) (n : UInt8) (path : Bytes)
    (hw : gme_Session w sess) (hs0 : sess ≠ 0) (hnc : w.drv.targetIsConnected = false)
    (hcfg : loe_FoCfg w.drv n path) (hext : w.drv.extendedFo = true) (hsz : w.drv.connectionSize = 4000)
    (hconns : w.net.target.base.conns = []) (hcid : w.net.target.base.nextCid < 2 ^ 32)
    (hpol : w.net.target.base.policy.largeFoOk = true ∨ w.net.target.base.policy.stdFoOk = true) :
    ∃ w' conn, ensureForwardOpen hook (fuel + 2 + 1) w = (w', .ok ()) ∧
      gme_Healthy w' sess (le 4 w.net.target.base.nextCid) conn ∧ conn.lastSeq = none ∧
      loe_TSame w.net.target w'.net.target ∧ (∃ frms, w'.net.sent = w.net.sent ++ frms) ∧
      (w.net.target.base.policy.largeFoOk = true → conn.size = 4000 ∧ conn.large = true ∧
        w'.drv = { w.drv with targetCid := some (le 4 w.net.target.base.nextCid), targetIsConnected := true }) ∧
      (w.net.target.base.policy.largeFoOk = false → conn.size = 500 ∧ conn.large = false ∧
        w'.drv = { w.drv with targetCid := some (le 4 w.net.target.base.nextCid), targetIsConnected := true,
                              extendedFo := false, connectionSize := 500 }) := by
  obtain ⟨w1, res, hfo, ho⟩ := loe_forwardOpen hook fuel w sess n path hw hs0 hnc hcfg (.inl ⟨hext, hsz⟩) hconns hcid
  rw [hext] at ho
  rw [loe_ensureFO_eq hook (fuel + 2) w hnc, hfo]
  cases hl : w.net.target.base.policy.largeFoOk with
  | true =>
    obtain ⟨hres, hdrv, conn, hh, hcs, hcl, hls⟩ := ho.accepted (by simpa using hl)
    rw [hres, loe_foDecor_true]
    exact ⟨w1, conn, rfl, hh, hls, ho.same, (let ⟨f, hf⟩ := ho.sent; ⟨[f], hf⟩), fun _ => ⟨hcs, hcl, hdrv⟩,
      (fun h => by cases h)⟩
  | false =>
    obtain ⟨hres, hdrv, hsess1, hc1, hn1⟩ := ho.refused (by simpa using hl)
    have hext1 : w1.drv.extendedFo = true := by rw [hdrv]; exact hext
    rw [hres, loe_foDecor_false hook (fuel + 2) w1 hext1]
    have hstd : w.net.target.base.policy.stdFoOk = true := by
      rcases hpol with h | h
      · rw [hl] at h; cases h
      · exact h
    obtain ⟨w2, hw2⟩ : ∃ w2 : World σ, w2 = { w1 with drv := { w1.drv with extendedFo := false, connectionSize := 500 } } :=
      ⟨_, rfl⟩
    rw [← hw2]
    have hsess2 : gme_Session w2 sess := by
      rw [hw2]
      exact { sock := hsess1.sock, ctx8 := hsess1.ctx8, opt0 := hsess1.opt0, session := hsess1.session,
              session32 := hsess1.session32, sessionReg := hsess1.sessionReg, pend := hsess1.pend, faults := hsess1.faults }
    have hcfg2 : loe_FoCfg w2.drv n path := by
      rw [hw2]
      show loe_FoCfg { w1.drv with extendedFo := false, connectionSize := 500 } n path
      rw [hdrv]
      exact ⟨hcfg.cid4, hcfg.csn2, hcfg.vid2, hcfg.vsn4, hcfg.route, hcfg.pathLen, hcfg.pathOk⟩
    have hnc2 : w2.drv.targetIsConnected = false := by
      rw [hw2]
      show w1.drv.targetIsConnected = false
      rw [hdrv]; exact hnc
    have hconns2 : w2.net.target.base.conns = [] := by
      rw [hw2]
      show w1.net.target.base.conns = []
      rw [hc1]; exact hconns
    have hn2 : w2.net.target.base.nextCid = w.net.target.base.nextCid := by rw [hw2]; exact hn1
    have hpol2 : w2.net.target.base.policy = w.net.target.base.policy := by rw [hw2]; exact ho.same.policy
    obtain ⟨w3, res3, hfo3, ho3⟩ := loe_forwardOpen hook fuel w2 sess n path hsess2 hs0 hnc2 hcfg2
      (.inr ⟨by rw [hw2], by rw [hw2]⟩) hconns2 (by rw [hn2]; exact hcid)
    have he2 : w2.drv.extendedFo = false := by rw [hw2]
    rw [he2] at ho3
    rw [hfo3]
    obtain ⟨hres3, hdrv3, conn, hh, hcs, hcl, hls⟩ := ho3.accepted (by rw [hpol2]; simpa using hstd)
    rw [hres3]
    rw [hn2] at hh hdrv3
    have hsame2 : loe_TSame w.net.target w2.net.target := by rw [hw2]; exact ho.same
    refine ⟨w3, conn, rfl, hh, hls, hsame2.trans ho3.same, ?_, (fun h => by cases h), fun _ => ⟨hcs, hcl, ?_⟩⟩
    · obtain ⟨f1, hf1⟩ := ho.sent
      obtain ⟨f3, hf3⟩ := ho3.sent
      refine ⟨[f1, f3], ?_⟩
      rw [hf3, hw2]
      show w1.net.sent ++ [f3] = _
      rw [hf1]
      simp
    · rw [hdrv3, hw2]
      show ({ ({ w1.drv with extendedFo := false, connectionSize := 500 } : Drv) with
              targetCid := some (le 4 w.net.target.base.nextCid), targetIsConnected := true } : Drv) = _
      rw [hdrv]

end Pycomm.Cli
