/-
  C06, composition of all round-trip results (CodecRoundTripAll.lean): the definitions.
  `SelfDelim` (types whose decoder stops by itself), `decodedAs` (the shape `decode` returns for an encoded
  value: the identity except for STRINGI), `CanonAll` (the value domain).  No proofs here.
-/
import PycommProofs.CodecSpec
import PycommProofs.RTExt
namespace Pycomm

/- `SelfDelim t`: the decoder of `t` finds the end of the value by itself, so the value may be followed by
   anything.  Not self-delimiting: an unbounded array `T[...]` and `n_bytes(n)` with negative `n` (both read
   the whole rest of the buffer), and whatever contains one of them in a position that is decoded — except
   inside a StructTag, which first cuts its own `size` bytes off the stream and decodes the members from that
   private copy.  Nothing below a zero-length array is decoded.
   (`TailSafe` of CodecErrors.lean is the same predicate but looks inside StructTags; `TailSafe t → SelfDelim t`.) -/
mutual
def SelfDelim : Ty → Prop
  | .nbytes n => 0 ≤ n
  | .arr .all _ => False
  | .arr (.fixed 0) _ => True
  | .arr (.fixed (_ + 1)) t => SelfDelim t
  | .arr (.pref _) t => SelfDelim t
  | .struct ms => SelfDelimMembers ms
  | _ => True
def SelfDelimMembers : Members → Prop
  | .nil => True
  | .cons _ t rest => SelfDelim t ∧ SelfDelimMembers rest
end

/-- field `i` of one STRINGI item `(string, type code, language, char set)` -/
def stringIField (i : Nat) (item : PyVal) : PyVal :=
  match item.seq? with
  | some xs => xs.getD i .none
  | none => .none

/-- what `STRINGI.decode` returns for the items `STRINGI.encode` was given: the triple of lists
    `(strings, languages, char sets)`; the type codes are not returned -/
def stringIOut : PyVal → PyVal
  | .list items => .tuple [.list (items.map (stringIField 0)), .list (items.map (stringIField 2)),
      .list (items.map (stringIField 3))]
  | .tuple items => .tuple [.list (items.map (stringIField 0)), .list (items.map (stringIField 2)),
      .list (items.map (stringIField 3))]
  | v => v

/- `decodedAs t v`: the value `decode t` returns for the encoding of `v`.  It is `v` itself except that every
   STRINGI value inside `v` is replaced by its triple of lists (`stringIOut`); the function follows plain
   structures (member by member, in order) and arrays (element by element).  A member or element `x` of type
   `t` is handed to the codec of `t` as `argOf t x` (`x` itself, except for STRINGI, where `x` is ONE item and
   the codec receives the one-item tuple `(x,)`), so that is what `decodedAs` descends into.  StructTag members
   have a fixed width, so no STRINGI can sit inside one. -/
mutual
def decodedAs : Ty → PyVal → PyVal
  | .stringI, v => stringIOut v
  | .arr _ t, v =>
      match v with
      | .list vs => .list (vs.map fun x => decodedAs t (argOf t x))
      | v => v
  | .struct ms, v =>
      match v with
      | .dict kvs => .dict (decodedAsMembers ms kvs)
      | v => v
  | _, v => v
def decodedAsMembers : Members → List (Name × PyVal) → List (Name × PyVal)
  | .nil, kvs => kvs
  | .cons _ t rest, kvs =>
      match kvs with
      | [] => []
      | kv :: kvs => (kv.1, decodedAs t (argOf t kv.2)) :: decodedAsMembers rest kvs
end

/- no STRINGI inside a type, outside StructTags (then `decodedAs` is the identity: `rta_noStringI_id`) -/
mutual
def NoStringI : Ty → Prop
  | .stringI => False
  | .arr _ t => NoStringI t
  | .struct ms => NoStringIMembers ms
  | _ => True
def NoStringIMembers : Members → Prop
  | .nil => True
  | .cons _ t rest => NoStringI t ∧ NoStringIMembers rest
end

mutual
/-- `CanonAll t v`: `v` is an in-domain value of `t` in the canonical form `decode` returns (up to the STRINGI
    shape, see `decodedAs`), for EVERY type constructor of the model and any nesting:
    * BOOL, integers, REAL, LREAL, DATE_AND_TIME, the counted strings, STRINGN, FixedSizeString, IPAddress:
      exactly as in `Canon`;
    * bit strings (BYTE…LWORD): a list of exactly `8·size` `bool`s, for any host type;
    * `n_bytes(n)`: `bytes` of exactly `n > 0` bytes; `n_bytes(-1)`: any NON-EMPTY `bytes` (tail position only);
    * STRINGI at top level (`STRINGI.encode(*items)`): the list — or tuple, which is what `*items` is — of at
      most 255 items `(string, type code, language, char set)`, each `SIItem.Ok` (string in the domain of its
      string class, language exactly 3 ASCII characters, char set < 65536);
    * STRINGI as a member of a structure or an element of an array: ONE such item.  The structure / array calls
      `STRINGI.encode(value)`, so the member value is the single star-argument: the codec sees the one-item
      tuple `argOf .stringI value = (value,)` and writes the count 1.  In general a member / element `x` of
      type `t` is canonical when `argOf t x` is (`CanonArg t x`; `argOf t x = x` for every `t` but STRINGI);
    * `T[n]`: for a bit-string `T` the FLAT list of exactly `n·8·size` `bool`s; otherwise a list of exactly `n`
      canonical values of `T`, where `T` is self-delimiting or `n ≤ 1`;
    * `T[...]` (unbounded, tail position only): for a bit-string `T` a flat list of `m·8·size` `bool`s;
      otherwise any list of canonical values of a self-delimiting `T` that consumes bytes (`PosWidth`);
    * plain `Struct`: the dict with exactly the members' names in member order (all named, non-empty, distinct);
      every member value canonical; every member but the LAST of a self-delimiting type;
    * StructTag: a well-formed layout (`TagLayout`) and the dict with exactly the visible members' names in
      member order followed by the alias names; visible member values canonical (their types have a fixed
      width by the layout), alias values `bool`s;
    * length-prefixed arrays `T[K]`: NO value (see below).

    Excluded real values, and why.  (1) Values that encode but come back in another form: tuples for lists,
    a sequence or a dict in another key order / with extra keys for a structure, `bool`s for integers, integers
    or other truthy values for bits, `int`/`bytes` for an IP address, REAL values that are not binary32 numbers
    (rounded), hidden-member entries of a StructTag dict (ignored by `encode`).  (2) Values whose encoding is
    not canonical: a FixedSizeString longer than its capacity (truncated), more than `n` elements for `T[n]`
    (truncated), characters that take more than one code unit (the count field counts characters).
    (3) The recorded findings on arrays of bit strings: `T[n].encode` compares the number of BITS with `n` and
    never truncates, so a list of `bool`s whose length is not exactly `n·8·size` encodes to another number of
    elements (or to nothing) instead of being rejected — the hypothesis demands the exact length.
    (4) Length-prefixed arrays: `encode` does not write the count that `decode` reads, so such an array never
    round-trips by itself and cannot be a member or an element; the statement with the count written by the
    caller is `decode_encode_all_prefixed`.  (5) `n_bytes(-1)` of `b""` (encodes to nothing; decoding nothing
    raises BufferEmptyError); an unbounded array or `n_bytes(-1)` anywhere but at the very end (it would
    swallow what follows): the last member of a structure, the only element of a `T[1]`, nested that way.
    (6) STRINGI languages that are not 3 ASCII characters (the decoder always reads 3 bytes); more than 255
    items; a LIST of items as the value of a STRINGI member / element (rejected: DataError).  (7) Structures with unnamed or empty-named members (`decode` drops them), duplicate names. -/
def CanonAll : Ty → PyVal → Prop
  | .bool, v => Canon .bool v
  | .int k, v => Canon (.int k) v
  | .real, v => Canon .real v
  | .lreal, v => Canon .lreal v
  | .dateAndTime, v => Canon .dateAndTime v
  | .str lenK enc, v => Canon (.str lenK enc) v
  | .stringN c, v => Canon (.stringN c) v
  | .fixedStr size lenK, v => Canon (.fixedStr size lenK) v
  | .ipAddr, v => Canon .ipAddr v
  | .stringI, v => ∃ items : List SIItem,
      (v = .list (items.map SIItem.val) ∨ v = .tuple (items.map SIItem.val)) ∧ (∀ i ∈ items, i.Ok) ∧
      items.length ≤ 255
  | .bits k, v => ∃ bs : List Bool, v = .list (bs.map PyVal.bool) ∧ bs.length = 8 * k.size
  | .nbytes n, v => ∃ bs, v = .bytes bs ∧ ((0 < n ∧ (bs.length : Int) = n) ∨ (n = -1 ∧ bs ≠ []))
  | .arr (.fixed n) t, v =>
      (∃ k bools, t = .bits k ∧ v = .list (List.map PyVal.bool bools) ∧ bools.length = n * (8 * k.size)) ∨
      (t.isBits = none ∧ (n ≤ 1 ∨ SelfDelim t) ∧
        ∃ vs, v = .list vs ∧ vs.length = n ∧ ∀ x ∈ vs, CanonAll t (argOf t x))
  | .arr (.pref _) _, _ => False
  | .arr .all t, v =>
      (∃ k m bools, t = .bits k ∧ v = .list (List.map PyVal.bool bools) ∧ bools.length = m * (8 * k.size)) ∨
      (t.isBits = none ∧ PosWidth t ∧ SelfDelim t ∧ ∃ vs, v = .list vs ∧ ∀ x ∈ vs, CanonAll t (argOf t x))
  | .struct ms, v => ∃ kvs, v = .dict kvs ∧ CanonAllMembers ms kvs
  | .structTag ms bits priv size, v => ∃ kvs, v = .dict kvs ∧ TagLayout ms bits priv size ∧
      kvs.map (·.1) = (ms.visible priv).map (·.1) ++ bits.map (·.1) ∧
      CanonAllTMembers ms priv kvs ∧ ∀ b ∈ bits, ∃ x, dictGet kvs b.1 = some (.bool x)
/-- canonical dict of an all-named struct: exactly the members, in member order, distinct non-empty names;
    only the last member may be of a type that reads to the end of the buffer -/
def CanonAllMembers : Members → List (Name × PyVal) → Prop
  | .nil, kvs => kvs = []
  | .cons (some nm) t rest, (k, v) :: kvs =>
      k = nm ∧ nm ≠ [] ∧ some nm ∉ rest.names ∧ CanonAll t (argOf t v) ∧ (rest = .nil ∨ SelfDelim t) ∧
        CanonAllMembers rest kvs
  | _, _ => False
/-- every visible member of a StructTag has a canonical value in the dict -/
def CanonAllTMembers : TMembers → List Name → List (Name × PyVal) → Prop
  | .nil, _, _ => True
  | .cons name t _ rest, priv, kvs =>
      (name ∉ priv → ∃ v, dictGet kvs name = some v ∧ CanonAll t v) ∧ CanonAllTMembers rest priv kvs
end

/-- `v` is a canonical value of a member / element of type `t`: what the codec of `t` is handed, `argOf t v`
    (`v` itself, for STRINGI the one-item tuple `(v,)`), is canonical -/
@[reducible] def CanonArg (t : Ty) (v : PyVal) : Prop := CanonAll t (argOf t v)

/-- what `decode` returns for a member / element of type `t` that was encoded from `v` -/
@[reducible] def decodedArg (t : Ty) (v : PyVal) : PyVal := decodedAs t (argOf t v)

end Pycomm
