/-
  SLC refinement (C18 over histories), helper layer 4 (writes): what `writeable_value` builds for the values of the
  element types (one value, a sequence for `{n}` elements), and the write request of an accepted address as a masked
  write of words (full mask: word / long / float / `{n}` forms and PRE / ACC; one-bit mask: bit forms).
-/
import PycommProofs.SlcRef3
namespace Pycomm.Slc.Drv
open Pycomm Pycomm.Tgt Pycomm.Slc

/-! ### element codecs on words -/

theorem slrf_enc_word (x : Int) (hx : -32768 ≤ x ∧ x ≤ 32767) :
    encode (.int .int) (.int x) = .ok (slrf_bytes [word16 x]) := by
  have := encode_int_wire .int x (by simp [IntK.lo, IntK.signed, IntK.size]; omega)
    (by simp [IntK.hi, IntK.signed, IntK.size]; omega)
  rw [this, slrf_bytes_one]
  simp only [IntK.size, word16]
  rfl

theorem slrf_enc_long (x : Int) (hx : -2147483648 ≤ x ∧ x ≤ 2147483647) :
    encode (.int .dint) (.int x) = .ok (slrf_bytes [sd2_dword32 x % 65536, sd2_dword32 x / 65536]) := by
  have := encode_int_wire .dint x (by simp [IntK.lo, IntK.signed, IntK.size]; omega)
    (by simp [IntK.hi, IntK.signed, IntK.size]; omega)
  rw [this, ← slrf_le4]
  simp only [IntK.size, sd2_dword32]
  rfl

theorem slrf_enc_float (b r : Nat) (h : Flt.narrow b = some r) :
    encode .real (.float b) = .ok (slrf_bytes [r % 65536, r / 65536]) := by
  rw [encode_real_wire b r h, slrf_le4]

/-- a sequence of values, each encoded to its words (`ps` pairs every value with its words) -/
theorem slrf_encodeList_flat (enc : PyVal → R Bytes) (W : PyVal → Option (List Nat))
    (hW : ∀ v ws, W v = some ws → enc v = .ok (slrf_bytes ws)) :
    ∀ (ps : List (PyVal × List Nat)), (∀ p ∈ ps, W p.1 = some p.2) →
      encodeList enc (ps.map (·.1)) = .ok (slrf_bytes (ps.flatMap (·.2)))
  | [], _ => rfl
  | p :: ps, h => by
      have h1 := hW _ _ (h p List.mem_cons_self)
      have h2 := slrf_encodeList_flat enc W hW ps (fun q hq => h q (List.mem_cons_of_mem _ hq))
      simp only [List.map_cons, encodeList, bind, Except.bind, h1, h2, List.flatMap_cons, slrf_bytes_append]

/-! ### `writeable_value` -/

/-- one value for one element (word form, no `{n}`) -/
theorem slrf_writeable_single (a : Addr) (v : PyVal) (ty : Ty) (bs : Bytes) (hty : elemTy a.fileType = some ty)
    (haf : a.addressField = 2) (hc : a.count = 1) (henc : encode ty v = .ok bs) :
    writeableValue a v = .ok ([0xFF, 0xFF] ++ bs, dataSize a.fileType) := by
  unfold writeableValue
  simp only [hty, hc, haf, henc]
  rw [if_neg (by decide), if_neg (by decide)]

/-- a list or tuple for `{n}` elements (n ≥ 2): the first n values are encoded, the rest is not looked at -/
theorem slrf_writeable_seq (a : Addr) (v : PyVal) (vs : List PyVal) (ty : Ty) (bs : Bytes)
    (hv : v = .list vs ∨ v = .tuple vs) (hty : elemTy a.fileType = some ty) (haf : a.addressField = 2)
    (hc : 2 ≤ a.count) (hlen : a.count ≤ vs.length) (henc : encodeList (encode ty) (vs.take a.count) = .ok bs) :
    writeableValue a v = .ok ([0xFF, 0xFF] ++ bs, dataSize a.fileType) := by
  unfold writeableValue
  simp only [hty, haf]
  rw [if_pos (by omega), if_neg (by decide)]
  rcases hv with rfl | rfl <;>
    simp only [PyVal.len?, PyVal.seq?, henc] <;> rw [if_neg (by omega)]

/-! ### the write request as a masked write of words -/

/-- word / long / float / `{n}` forms: a full-mask write of `wpe × count` words from word `wpe × element + position` on -/
theorem slrf_writeAddr_full (tbl : Table) (a : Addr) (v : PyVal) (ws : List Nat) (hr : InRange a)
    (haf : a.addressField = 2) (hp : a.posNumber < 65536) (hs : dataSize a.fileType * a.count ≤ 255)
    (hwv : writeableValue a v = .ok ([0xFF, 0xFF] ++ slrf_bytes ws, dataSize a.fileType)) :
    writeAddr tbl a v = maskedWrite tbl (2 * (slrf_wpe a.fileType * a.count)) a.fileNumber (typeCode a.fileType)
      a.element a.posNumber 65535 (slrf_bytes ws) := by
  obtain ⟨h1, _, _, _⟩ := slrf_ft_facts hr.ftype
  have hnw : ¬ ((a.fileType = [84] ∨ a.fileType = [67]) ∧ (a.subElement = 1 ∨ a.subElement = 2)) := by
    intro h
    have := (hr.ct h.1).1
    omega
  rw [sd2_writeAddr_full tbl a v _ _ hwv hnw hs hr.file hr.elem hp, h1, Nat.mul_assoc]

/-- bit forms (status bits of timers / counters included): a one-bit masked write of the word `wpe × element +
    position` -/
theorem slrf_writeAddr_bit (tbl : Table) (a : Addr) (v : PyVal) (hr : InRange a) (haf : a.addressField = 3)
    (hc : a.count = 1) (hp : a.posNumber < 65536)
    (hnw : ¬ ((a.fileType = [84] ∨ a.fileType = [67]) ∧ (a.subElement = 1 ∨ a.subElement = 2))) :
    writeAddr tbl a v = maskedWrite tbl (2 * 1) a.fileNumber (typeCode a.fileType) a.element a.posNumber
      (2 ^ a.subElement) (leBytes 2 (if v.truthy then 2 ^ a.subElement else 0)) := by
  have ht : (elemTy a.fileType).isSome := by
    have := hr.ftype
    simp only [List.mem_cons, List.not_mem_nil, or_false] at this
    rcases this with h | h | h | h | h | h | h | h | h <;> rw [h] <;> rfl
  exact slx_writeAddr_bit tbl a v haf hc hr.sub hnw ht hr.file hr.elem hp

/-- PRE / ACC of a timer / counter: a full-mask write of word 1 / 2 of the element -/
theorem slrf_writeAddr_ct (tbl : Table) (a : Addr) (x : Int) (hx : -32768 ≤ x ∧ x ≤ 32767) (hr : InRange a)
    (hft : a.fileType = [84] ∨ a.fileType = [67]) (hsub : a.subElement = 1 ∨ a.subElement = 2) :
    writeAddr tbl a (.int x) = maskedWrite tbl (2 * 1) a.fileNumber (typeCode a.fileType) a.element a.subElement 65535
      (slrf_bytes [word16 x]) := by
  obtain ⟨haf, hc, _⟩ := hr.ct hft
  rw [slrf_bytes_one]
  exact slx_writeAddr_ct tbl a x hx hft haf hc hsub hr.file hr.elem

/-- what `writeable_value` builds for PRE / ACC of a timer / counter -/
theorem slrf_writeable_ct (a : Addr) (x : Int) (hx : -32768 ≤ x ∧ x ≤ 32767)
    (hft : a.fileType = [84] ∨ a.fileType = [67]) (haf : a.addressField = 3) (hc : a.count = 1)
    (hsub : a.subElement = 1 ∨ a.subElement = 2) :
    writeableValue a (.int x) = .ok ([0xFF, 0xFF] ++ slrf_bytes [word16 x], 2) := by
  have hty := (slx_ctFiles hft).1
  unfold writeableValue
  simp only [hty, hc, haf, slrf_enc_word x hx, hft, hsub, and_self, if_true]
  rw [if_neg (by decide)]

/-- what `writeable_value` builds for a bit address: the mask and the masked data, whatever the value -/
theorem slrf_writeable_bit (a : Addr) (v : PyVal) (hr : InRange a) (haf : a.addressField = 3) (hc : a.count = 1)
    (hnw : ¬ ((a.fileType = [84] ∨ a.fileType = [67]) ∧ (a.subElement = 1 ∨ a.subElement = 2))) :
    ∃ val, writeableValue a v = .ok (val, 2) := by
  have ht : (elemTy a.fileType).isSome := by
    have := hr.ftype
    simp only [List.mem_cons, List.not_mem_nil, or_false] at this
    rcases this with h | h | h | h | h | h | h | h | h <;> rw [h] <;> rfl
  exact ⟨_, slx_bit_write_value a v haf hc hr.sub hnw ht⟩

/-! ### the word a one-bit masked write leaves -/

theorem slrf_maskedWord_bit (w b : Nat) (t : Bool) (hw : w < 65536) (hb : b < 16) :
    maskedWord w (if t = true then 2 ^ b else 0) (2 ^ b) = if t = true then w ||| 2 ^ b else w &&& (65535 - 2 ^ b) := by
  have hD : (if t = true then 2 ^ b else 0) < 65536 := by
    split
    · exact Nat.lt_of_le_of_lt (Nat.pow_le_pow_right (by decide) (show b ≤ 15 by omega)) (by decide)
    · decide
  have hp : (2 : Nat) ^ b < 65536 :=
    Nat.lt_of_le_of_lt (Nat.pow_le_pow_right (by decide) (show b ≤ 15 by omega)) (by decide)
  have h65 : (65535 : Nat) = 2 ^ 16 - 1 := by decide
  apply Nat.eq_of_testBit_eq
  intro i
  by_cases hi : i < 16
  · rw [maskedWord, mask_word_bit _ _ b i hw hD hb hi]
    cases t
    · simp only [Bool.false_eq_true, if_false, Nat.zero_testBit]
      rw [sub_pow_eq_xor b hb, Nat.testBit_and, Nat.testBit_xor, h65, Nat.testBit_two_pow_sub_one, Nat.testBit_two_pow]
      by_cases h : i = b
      · subst h; simp [hi]
      · have h' : ¬ b = i := fun e => h e.symm
        simp [h, h', hi]
    · simp only [if_true, Nat.testBit_two_pow_self]
      rw [Nat.testBit_or, Nat.testBit_two_pow]
      by_cases h : i = b
      · subst h; simp
      · have h' : ¬ b = i := fun e => h e.symm
        simp [h, h']
  · have hge : (65536 : Nat) ≤ 2 ^ i := by
      have : (2 : Nat) ^ 16 ≤ 2 ^ i := Nat.pow_le_pow_right (by decide) (by omega)
      simpa using this
    have hl := slx_maskedWord_lt w (if t = true then 2 ^ b else 0) (2 ^ b) hw hD
    rw [Nat.testBit_lt_two_pow (Nat.lt_of_lt_of_le hl hge)]
    cases t
    · simp only [Bool.false_eq_true, if_false]
      rw [Nat.testBit_lt_two_pow (Nat.lt_of_le_of_lt Nat.and_le_left (Nat.lt_of_lt_of_le hw hge))]
    · simp only [if_true]
      have : w ||| 2 ^ b < 2 ^ 16 := Nat.or_lt_two_pow (by simpa using hw) (by simpa using hp)
      rw [Nat.testBit_lt_two_pow (Nat.lt_of_lt_of_le (by simpa using this) hge)]

/-- bit k of the word a bit write leaves: bit b is the value written, every other bit keeps its value -/
theorem slrf_setBit_testBit (w b k : Nat) (t : Bool) (hb : b < 16) (hk : k < 16) :
    (if t = true then w ||| 2 ^ b else w &&& (65535 - 2 ^ b)).testBit k = if k = b then t else w.testBit k := by
  have h65 : (65535 : Nat) = 2 ^ 16 - 1 := by decide
  cases t
  · simp only [Bool.false_eq_true, if_false]
    rw [sub_pow_eq_xor b hb, Nat.testBit_and, Nat.testBit_xor, h65, Nat.testBit_two_pow_sub_one, Nat.testBit_two_pow]
    by_cases h : k = b
    · subst h; simp [hk]
    · have h' : ¬ b = k := fun e => h e.symm
      simp [h, h', hk]
  · simp only [if_true]
    rw [Nat.testBit_or, Nat.testBit_two_pow]
    by_cases h : k = b
    · subst h; simp
    · have h' : ¬ b = k := fun e => h e.symm
      simp [h, h']

theorem slrf_setBit_lt (w b : Nat) (t : Bool) (hw : w < 65536) (hb : b < 16) :
    (if t = true then w ||| 2 ^ b else w &&& (65535 - 2 ^ b)) < 65536 := by
  rw [← slrf_maskedWord_bit w b t hw hb]
  apply slx_maskedWord_lt _ _ _ hw
  split
  · exact Nat.lt_of_le_of_lt (Nat.pow_le_pow_right (by decide) (show b ≤ 15 by omega)) (by decide)
  · decide

end Pycomm.Slc.Drv
