/-
  LogixDriver.read of any number of requests, composed: what the layers need to know about one request
  (`ldrn_EntOk`), the results table `_send_requests` builds, the result loop, and `read` of n ≥ 2 such requests on a
  healthy connected driver (`ldrn_read_general`), for ANY answers of the controller to the embedded requests that
  do not depend on the schedule counter.
-/
import PycommProofs.LDReadN3
namespace Pycomm.Lgx.Drv
open Pycomm Pycomm.Tgt Pycomm.Path Pycomm.Reply Pycomm.Encap Pycomm.Lgx Pycomm.Lgx.E2E

/-- what the layers need to know about one request of the call (`st`: the controller's state when the call starts,
    `cap`: the size of the connection as the controller knows it, minus the sequence count) -/
structure ldrn_EntOk (cfg : Cfg) (st : LState) (cap : Nat) (e : ldrn_Ent) : Prop where
  /-- (a) the request string parses, at any position, to the plain one-element request on the entry -/
  parse : ∀ rid, parseTagRequest cfg.tags false rid e.tag = ldr2_parsedAt rid e.tag e.info
  /-- (b) its request path -/
  path : requestPathOf cfg e.tag e.info = .ok e.path
  /-- (d) which the controller's strict parser reads as `segs` -/
  den : Denotes e.path e.segs
  /-- (d) the controller's answer, whatever the schedule counter -/
  ex : ∀ k, Cl.exchange { st with ctr := st.ctr + k } cap (Cl.readMsg e.path 1) =
    ({ st with ctr := st.ctr + k + e.adv }, e.reply)
  /-- the answer (with its slot in the offset table) is within the driver's estimate -/
  rlen : (encMRReply 0x4C e.reply).length + 2 ≤ ldr2_estimate e.info e.path
  /-- (e) what `_send_requests` records for the embedded reply -/
  mr : ∀ (rs : Results) (q : ReadReq) (rest : List (ReadReq × Option Bytes)),
    q.tag = e.tag → q.info = e.info → q.elements = 1 →
    multiReadResults rs ((q, some (List.replicate 46 0 ++ encMRReply 0x4C e.reply)) :: rest) =
      multiReadResults (rs.set q.rid e.res) rest
  /-- (f) what the result loop of `read` makes of the recorded Tag -/
  res : ∀ (rid : Nat) (rs : Results), rs.get? rid = some e.res → readResult (ldr2_parsedAt rid e.tag e.info) rs = e.res

/-- the built request of an entry: its answer, its step, stability -/
theorem ldrn_ent_facts (cfg : Cfg) (st : LState) (cap : Nat) (e : ldrn_Ent) (hok : ldrn_EntOk cfg st cap e)
    (q : ReadReq) (hp : q.path = e.path) (hel : q.elements = 1) :
    ldrn_rep st cap q = e.reply ∧ ldrn_step st cap q = e.adv ∧ ldrn_Stable st cap q := by
  have hm : ldrn_msg q = Cl.readMsg e.path 1 := by unfold ldrn_msg; rw [hp, hel]
  have h0 : Cl.exchange st cap (Cl.readMsg e.path 1) = ({ st with ctr := st.ctr + 0 + e.adv }, e.reply) := hok.ex 0
  have h1 : ldrn_rep st cap q = e.reply := by unfold ldrn_rep; rw [hm, h0]
  have h2 : ldrn_step st cap q = e.adv := by
    unfold ldrn_step; rw [hm, h0]; simp only; omega
  refine ⟨h1, h2, ?_⟩
  intro k
  rw [h1, h2, hm]
  exact hok.ex k

theorem ldrn_reqs_mem (d : Cli.Drv) (k : Nat) (es : List ldrn_Ent) (q : ReadReq) (hq : q ∈ ldrn_reqs d k es) :
    ∃ e ∈ es, q.tag = e.tag ∧ q.info = e.info ∧ q.path = e.path ∧ q.elements = 1 := by
  induction es generalizing d k with
  | nil => cases hq
  | cons e es ih =>
    rw [ldrn_reqs] at hq
    rcases List.mem_cons.1 hq with rfl | h
    · exact ⟨e, List.mem_cons_self, rfl, rfl, rfl, rfl⟩
    · obtain ⟨e', he', h'⟩ := ih _ _ h
      exact ⟨e', List.mem_cons_of_mem _ he', h'⟩

theorem ldrn_reqs_steps (cfg : Cfg) (st : LState) (cap : Nat) (d : Cli.Drv) (k : Nat) (es : List ldrn_Ent)
    (hok : ∀ e ∈ es, ldrn_EntOk cfg st cap e) :
    (ldrn_reqs d k es).map (ldrn_step st cap) = es.map (·.adv) := by
  induction es generalizing d k with
  | nil => rfl
  | cons e es ih =>
    rw [ldrn_reqs, List.map_cons, List.map_cons, ih _ _ (fun e' h' => hok e' (List.mem_cons_of_mem _ h')),
      (ldrn_ent_facts cfg st cap e (hok e List.mem_cons_self) _ rfl rfl).2.1]

/-! ### (e) the results table -/

/-- the table after the entries were recorded under request ids `k`, `k + 1`, … -/
def ldrn_table : Results → Nat → List ldrn_Ent → Results
  | rs, _, [] => rs
  | rs, k, e :: es => ldrn_table (rs.set ((k : Nat) : Int) e.res) (k + 1) es

theorem ldrn_mrr_table (cfg : Cfg) (st : LState) (cap : Nat) (es : List ldrn_Ent) (d : Cli.Drv) (k : Nat) (rs : Results)
    (hok : ∀ e ∈ es, ldrn_EntOk cfg st cap e) :
    multiReadResults rs ((ldrn_reqs d k es).map fun q =>
      (q, some (List.replicate 46 0 ++ encMRReply 0x4C (ldrn_rep st cap q)))) = .ok (ldrn_table rs k es) := by
  induction es generalizing d k rs with
  | nil => rfl
  | cons e es ih =>
    have hoe := hok e List.mem_cons_self
    rw [ldrn_reqs, List.map_cons, (ldrn_ent_facts cfg st cap e hoe _ rfl rfl).1, hoe.mr _ _ _ rfl rfl rfl,
      ih _ _ _ (fun e' h' => hok e' (List.mem_cons_of_mem _ h'))]
    rfl

theorem ldrn_table_get_lt (es : List ldrn_Ent) (k : Nat) (rs : Results) (j : Nat) (hj : j < k) :
    (ldrn_table rs k es).get? ((j : Nat) : Int) = rs.get? ((j : Nat) : Int) := by
  induction es generalizing k rs with
  | nil => rfl
  | cons e es ih =>
    rw [ldrn_table, ih (k + 1) _ (by omega), lme_get_set_ne _ _ _ _ (by omega)]

theorem ldrn_table_get (es : List ldrn_Ent) (k : Nat) (rs : Results) (i : Nat) (hi : i < es.length) :
    (ldrn_table rs k es).get? ((k + i : Nat) : Int) = some es[i].res := by
  induction es generalizing k rs i with
  | nil => simp at hi
  | cons e es ih =>
    rw [ldrn_table]
    cases i with
    | zero =>
      show (ldrn_table (rs.set ((k : Nat) : Int) e.res) (k + 1) es).get? ((k : Nat) : Int) = some e.res
      rw [ldrn_table_get_lt es (k + 1) _ k (by omega), lme_get_set_self]
    | succ i =>
      have := ih (k + 1) (rs.set ((k : Nat) : Int) e.res) i (by simpa using hi)
      rw [show k + 1 + i = k + (i + 1) by omega] at this
      rw [this]
      rfl

/-! ### (f) the result loop -/

theorem ldrn_results (cfg : Cfg) (st : LState) (cap : Nat) (es : List ldrn_Ent) (k : Nat) (rsf : Results)
    (hok : ∀ e ∈ es, ldrn_EntOk cfg st cap e)
    (hget : ∀ i (hi : i < es.length), rsf.get? ((k + i : Nat) : Int) = some es[i].res) :
    (ldrn_parsed k es).map (fun p => readResult p rsf) = es.map (·.res) := by
  induction es generalizing k with
  | nil => rfl
  | cons e es ih =>
    rw [ldrn_parsed, List.map_cons, List.map_cons]
    have h0 := hget 0 (by simp)
    rw [(hok e List.mem_cons_self).res k rsf h0]
    rw [ih (k + 1) (fun e' h' => hok e' (List.mem_cons_of_mem _ h'))]
    intro i hi
    have := hget (i + 1) (by simpa using hi)
    rw [show k + (i + 1) = k + 1 + i by omega] at this
    rw [this]
    rfl

/-! ### sums -/

theorem ldrn_sum_le {α} (a b : α → Nat) (l : List α) (c : Nat) (h : ∀ x ∈ l, a x + c ≤ b x) :
    (l.map a).sum + c * l.length ≤ (l.map b).sum := by
  induction l with
  | nil => simp
  | cons x t ih =>
    have h1 := h x List.mem_cons_self
    have h2 := ih (fun y hy => h y (List.mem_cons_of_mem _ hy))
    simp only [List.map_cons, List.sum_cons, List.length_cons, Nat.mul_succ]
    omega

theorem ldrn_est_ge (q : ReadReq) : q.path.length + 7 ≤ ldrn_est q := by
  unfold ldrn_est ldr2_estimate
  have : (Cl.readMsg q.path 1).length = q.path.length + 3 := by simp [Cl.readMsg, le, RT.leBytes_length]
  omega

theorem ldrn_mlen_le (g : List ReadReq) : ldrn_mlen g + 2 * g.length ≤ (g.map ldrn_est).sum := by
  unfold ldrn_mlen
  exact ldrn_sum_le (fun q => q.path.length + 5) ldrn_est g 2 (fun q _ => by have := ldrn_est_ge q; omega)

/-! ### `read` of n ≥ 2 requests -/

/-- `read` of n ≥ 2 requests that parse as plain one-element requests, on a healthy connected driver that is not a
    Micro800, none of which needs the fragmented service, for any answers of the controller that do not depend on
    the schedule counter: the requests travel in the multi-service packets `ldrn_groups` forms (one frame each); one
    sequence number per request and one per packet is drawn; the result holds, in request order, the Tag of each
    request -/
theorem ldrn_read_general (cfg : Cfg) (w : Cli.World Ext) (sess : Nat) (cidb : Bytes) (conn : Conn) (st : LState)
    (es : List ldrn_Ent)
    (hw : ldr_Healthy w sess cidb conn) (hlogix : w.net.target.ext.logix = some st) (hmicro : cfg.micro800 = false)
    (hlen : 2 ≤ es.length)
    (hok : ∀ e ∈ es, ldrn_EntOk cfg st (conn.size - 2) e)
    (hf : ∀ e ∈ es, ldr2_estimate e.info e.path + K.OVERHEAD ≤ w.drv.connectionSize)
    (M : Nat)
    (hgM : ∀ g ∈ ldrn_groups w.drv.connectionSize (ldrn_reqs w.drv 0 es), K.OVERHEAD + (g.map ldrn_est).sum ≤ M)
    (hMT : M ≤ conn.size) (hM64 : M ≤ 65400) :
    ∃ w' frms, read hookAll cfg w (es.map (·.tag)) = (w', .ok (es.map (·.res))) ∧
      w'.drv = ldrn_adv (es.length + (ldrn_groups w.drv.connectionSize (ldrn_reqs w.drv 0 es)).length) w.drv ∧
      w'.net.sent = w.net.sent ++ frms ∧
      frms.length = (ldrn_groups w.drv.connectionSize (ldrn_reqs w.drv 0 es)).length ∧
      ldrn_FramesOf w.drv.ctx (ldrn_adv es.length w.drv) (ldrn_groups w.drv.connectionSize (ldrn_reqs w.drv 0 es)) frms ∧
      w'.net.target.ext = { w.net.target.ext with logix := some { st with ctr := st.ctr + (es.map (·.adv)).sum } } ∧
      ldr_Healthy w' sess cidb { conn with
        lastSeq := (ldrn_lastSeq (ldrn_adv es.length w.drv) (ldrn_groups w.drv.connectionSize (ldrn_reqs w.drv 0 es))
          conn.lastSeq) } := by
  have hoh : K.OVERHEAD = 10 := rfl
  have hparsed := ldrn_parse cfg.tags es (fun e he => (hok e he).parse)
  have hbuild := ldrn_build cfg w.drv es hmicro (by omega) (fun e he => (hok e he).path) hf
  rw [← ldrn_adv_add] at hbuild
  generalize hgs : ldrn_groups w.drv.connectionSize (ldrn_reqs w.drv 0 es) = gs at hbuild hgM ⊢
  have hnd := ldrn_reqs_nodup w.drv 0 es
  have hfq : ∀ q ∈ ldrn_reqs w.drv 0 es, ldrn_est q + K.OVERHEAD ≤ w.drv.connectionSize := by
    intro q hq
    obtain ⟨e, he, _, hi, hp, _⟩ := ldrn_reqs_mem _ _ _ q hq
    have := hf e he
    unfold ldrn_est
    rw [hi, hp]
    exact this
  have hflat : gs.flatten = ldrn_reqs w.drv 0 es := by
    rw [← hgs]; exact ldrn_groups_flatten _ _ hnd hfq
  have hne : ∀ g ∈ gs, g ≠ [] := by
    rw [← hgs]; exact ldrn_groups_nonempty _ _ hfq
  have hgfit : ∀ g ∈ gs, K.OVERHEAD + (g.map ldrn_est).sum ≤ M := hgM
  have hmemq : ∀ g ∈ gs, ∀ q ∈ g, q ∈ ldrn_reqs w.drv 0 es := by
    intro g hg q hq
    rw [← hflat]
    exact List.mem_flatten.2 ⟨g, hg, hq⟩
  have hw1 : ldr_Healthy ({ w with drv := ldrn_adv (es.length + gs.length) w.drv } : Cli.World Ext) sess cidb conn :=
    ldr_Healthy_seq hw _ (ldrn_adv_eq _ _)
  have hmr : multiReadResults [] (gs.flatten.map fun q =>
      (q, some (List.replicate 46 0 ++ encMRReply 0x4C (ldrn_rep st (conn.size - 2) q)))) =
      .ok (ldrn_table [] 0 es) := by
    rw [hflat]; exact ldrn_mrr_table cfg st (conn.size - 2) es w.drv 0 [] hok
  obtain ⟨w2, frms, hsend, hd2, hsent2, hlen2, hfrms2, hext2, hh2⟩ := ldrn_send_groups sess cidb st (conn.size - 2) gs
    ({ w with drv := ldrn_adv (es.length + gs.length) w.drv } : Cli.World Ext) conn 0 [] (ldrn_table [] 0 es)
    (ldrn_adv es.length w.drv) hw1 rfl hlogix hne
    (by
      intro g hg q hq
      obtain ⟨e, he, _, _, hp, hel⟩ := ldrn_reqs_mem _ _ _ q (hmemq g hg q hq)
      refine ⟨⟨e.segs, ?_⟩, (ldrn_ent_facts cfg st _ e (hok e he) q hp hel).2.2⟩
      rw [hp]; exact (hok e he).den)
    (by
      intro g hg
      have h1 := hgfit g hg
      have h2 := ldrn_mlen_le g
      refine ⟨?_, ?_⟩ <;> omega)
    (by
      intro g hg
      have h1 := hgfit g hg
      have h2 := ldrn_sum_le (fun q => (encMRReply 0x4C (ldrn_rep st (conn.size - 2) q)).length) ldrn_est g 2 (by
        intro q hq
        obtain ⟨e, he, _, hi, hp, hel⟩ := ldrn_reqs_mem _ _ _ q (hmemq g hg q hq)
        have := (hok e he).rlen
        simp only [(ldrn_ent_facts cfg st _ e (hok e he) q hp hel).1]
        unfold ldrn_est
        rw [hi, hp]
        exact this)
      omega)
    hmr
  have hfo : Cli.ensureForwardOpen hookAll Cli.FUEL w = (w, .ok ()) := ldr_ensureFO_connected hookAll 7 w hw.connected
  have hempty : (es.map (·.tag)).isEmpty = false := by
    cases es with
    | nil => simp at hlen
    | cons _ _ => rfl
  have hctx : (ldrn_adv (es.length + gs.length) w.drv).ctx = w.drv.ctx := by rw [ldrn_adv_eq]; rfl
  rw [show ({ w with drv := ldrn_adv (es.length + gs.length) w.drv } : Cli.World Ext).drv.ctx = w.drv.ctx from hctx] at hfrms2
  refine ⟨w2, frms, ?_, hd2, hsent2, hlen2, hfrms2, ?_, hh2⟩
  · unfold read
    rw [hfo]
    dsimp only
    rw [hparsed, hbuild]
    dsimp only
    rw [hsend]
    dsimp only
    rw [hempty]
    simp only [Bool.false_eq_true, if_false]
    rw [ldrn_results cfg st (conn.size - 2) es 0 _ hok (fun i hi => ldrn_table_get es 0 [] i hi)]
  · rw [hext2, hflat, ldrn_reqs_steps cfg st (conn.size - 2) w.drv 0 es hok]
    simp only [Nat.add_zero]

end Pycomm.Lgx.Drv
