/-
  C14 end to end, reply side: the frame the reference target builds around ANY message-router reply (any general
  status, any extended status words, any data), as the generic response classes of the client read it: value,
  validity, error text.
-/
import PycommModel.Client
import PycommProofs.GenericProofs
import PycommProofs.ReplyProofs
namespace Pycomm.Cli
open Pycomm.Tgt Pycomm.Path Pycomm.Encap Pycomm.Reply

/-- what follows the four header bytes of a message-router reply: the extended status words, then the data -/
def gme_payload (r : MRReply) : Bytes := (r.ext.map (le 2)).flatten ++ r.data

/-- does the response class accept general status `st` of a reply to request service `svc`?
    status 0, or status 6 on a connected reply to one of the multi-packet services -/
def gme_accepted (tr : Transport) (svc st : Nat) : Bool :=
  st == 0 ||
  (st == 6 && tr == .connected &&
    (match serviceFromReply [UInt8.ofNat (svc % 128 + 128)] with
     | .ok s => isMultiPacket s
     | .error _ => false))

theorem gme_accepted_zero (tr : Transport) (svc : Nat) : gme_accepted tr svc 0 = true := by
  simp [gme_accepted]

theorem gme_accepted_unconnected (svc st : Nat) : gme_accepted .unconnected svc st = (st == 0) := by
  simp [gme_accepted]

theorem gme_accepted_other (tr : Transport) (svc st : Nat) (h0 : st ≠ 0) (h6 : st ≠ 6) :
    gme_accepted tr svc st = false := by
  simp [gme_accepted, h0, h6]

theorem gme_encMRReply (svc : Nat) (r : MRReply) :
    encMRReply svc r =
      [UInt8.ofNat (svc % 128 + 128), 0, UInt8.ofNat r.status, UInt8.ofNat r.ext.length] ++ gme_payload r := by
  simp [encMRReply, gme_payload]

theorem gme_flatten_le2 (l : List Nat) : ((l.map (le 2)).flatten).length = 2 * l.length := by
  induction l with
  | nil => rfl
  | cons a l ih =>
    rw [List.map_cons, List.flatten_cons, List.length_append, ih, List.length_cons]
    simp only [le, RT.leBytes_length]
    omega

theorem gme_payload_length (r : MRReply) : (gme_payload r).length = 2 * r.ext.length + r.data.length := by
  rw [gme_payload, List.length_append, gme_flatten_le2]

/-- the two reply frames of the target: `tr.off` bytes of encapsulation header and item headers with encapsulation
    status 0, then the message-router reply -/
theorem gme_frame_shape (tr : Transport) (s toId seq : Nat) (ctx mr : Bytes) (hc : ctx.length = 8) :
    ∃ H : Bytes, H.length = tr.off ∧
      (match tr with
       | .connected => frame CMD_SEND_UNIT s 0 ctx (cpfReplyConnected toId seq mr)
       | .unconnected => frame CMD_SEND_RR s 0 ctx (cpfReplyUnconnected mr)) = H ++ mr ∧
      slice (H ++ mr) 8 12 = [0, 0, 0, 0] := by
  have hz : leBytes 4 0 = [0, 0, 0, 0] := rfl
  cases tr with
  | connected =>
    refine ⟨encHeader CMD_SEND_UNIT (cpfReplyConnected toId seq mr).length s 0 ctx ++
        (le 4 0 ++ le 2 0 ++ le 2 2 ++ le 2 ITEM_CONNECTION ++ le 2 4 ++ le 4 toId ++
         le 2 ITEM_CONNECTED_DATA ++ le 2 (mr.length + 2) ++ le 2 seq), ?_, ?_, ?_⟩
    · simp [encHeader, le, RT.leBytes_length, hc, Transport.off]
    · simp only [frame, cpfReplyConnected, List.append_assoc]
    · generalize (cpfReplyConnected toId seq mr).length = n
      have e : encHeader CMD_SEND_UNIT n s 0 ctx ++
          (le 4 0 ++ le 2 0 ++ le 2 2 ++ le 2 ITEM_CONNECTION ++ le 2 4 ++ le 4 toId ++
           le 2 ITEM_CONNECTED_DATA ++ le 2 (mr.length + 2) ++ le 2 seq) ++ mr =
          (le 2 CMD_SEND_UNIT ++ le 2 n ++ le 4 s) ++ ([0, 0, 0, 0] ++ (ctx ++ le 4 0 ++
            (le 4 0 ++ le 2 0 ++ le 2 2 ++ le 2 ITEM_CONNECTION ++ le 2 4 ++ le 4 toId ++
             le 2 ITEM_CONNECTED_DATA ++ le 2 (mr.length + 2) ++ le 2 seq) ++ mr)) := by
        simp only [encHeader, le, hz, List.append_assoc]
      rw [e]
      have := slice_at (le 2 CMD_SEND_UNIT ++ le 2 n ++ le 4 s)
        ([0, 0, 0, 0] ++ (ctx ++ le 4 0 ++
            (le 4 0 ++ le 2 0 ++ le 2 2 ++ le 2 ITEM_CONNECTION ++ le 2 4 ++ le 4 toId ++
             le 2 ITEM_CONNECTED_DATA ++ le 2 (mr.length + 2) ++ le 2 seq) ++ mr)) 8 0 4
        (by simp [le, RT.leBytes_length])
      simp only [Nat.add_zero] at this
      rw [this]; simp [slice]
  | unconnected =>
    refine ⟨encHeader CMD_SEND_RR (cpfReplyUnconnected mr).length s 0 ctx ++
        (le 4 0 ++ le 2 0 ++ le 2 2 ++ le 2 0 ++ le 2 0 ++ le 2 ITEM_UNCONNECTED_DATA ++ le 2 mr.length), ?_, ?_, ?_⟩
    · simp [encHeader, le, RT.leBytes_length, hc, Transport.off]
    · simp only [frame, cpfReplyUnconnected, List.append_assoc]
    · generalize (cpfReplyUnconnected mr).length = n
      have e : encHeader CMD_SEND_RR n s 0 ctx ++
          (le 4 0 ++ le 2 0 ++ le 2 2 ++ le 2 0 ++ le 2 0 ++ le 2 ITEM_UNCONNECTED_DATA ++ le 2 mr.length) ++ mr =
          (le 2 CMD_SEND_RR ++ le 2 n ++ le 4 s) ++ ([0, 0, 0, 0] ++ (ctx ++ le 4 0 ++
            (le 4 0 ++ le 2 0 ++ le 2 2 ++ le 2 0 ++ le 2 0 ++ le 2 ITEM_UNCONNECTED_DATA ++ le 2 mr.length) ++ mr)) := by
        simp only [encHeader, le, hz, List.append_assoc]
      rw [e]
      have := slice_at (le 2 CMD_SEND_RR ++ le 2 n ++ le 4 s)
        ([0, 0, 0, 0] ++ (ctx ++ le 4 0 ++
            (le 4 0 ++ le 2 0 ++ le 2 2 ++ le 2 0 ++ le 2 0 ++ le 2 ITEM_UNCONNECTED_DATA ++ le 2 mr.length) ++ mr)) 8 0 4
        (by simp [le, RT.leBytes_length])
      simp only [Nat.add_zero] at this
      rw [this]; simp [slice]

/-- the parse of such a frame by the CIP response classes -/
theorem gme_parseCip (tr : Transport) (H : Bytes) (sb stb szb : UInt8) (pl : Bytes) (hH : H.length = tr.off)
    (hz : slice (H ++ ([sb, 0, stb, szb] ++ pl)) 8 12 = [0, 0, 0, 0]) (hsb : 128 ≤ sb.toNat) :
    ∃ cmd svc', serviceFromReply [sb] = .ok svc' ∧
      parseCip (some (H ++ ([sb, 0, stb, szb] ++ pl))) tr =
        { err := none, command := some cmd, commandStatus := some 0, service := svc', serviceStatus := some stb.toNat,
          data := some pl } := by
  generalize hraw : H ++ ([sb, 0, stb, szb] ++ pl) = raw at hz
  have hlen : tr.off + 3 ≤ raw.length := by
    rw [← hraw, List.length_append, hH]; simp
  have g0 : raw.getD tr.off 0 = sb := by
    rw [← hraw, ← hH]; simp [List.getD_eq_getElem?_getD]
  have g2 : raw.getD (tr.off + 2) 0 = stb := by
    rw [← hraw, ← hH]; simp [List.getD_eq_getElem?_getD]
  have g4 : raw.drop (tr.off + 4) = pl := by
    rw [← hraw, ← hH, List.drop_append]; simp
  obtain ⟨svc', hs', hp⟩ := RP.parseCip_good tr raw hlen (by rw [g0]; exact hsb)
  rw [g0, UInt8.ofNat_toNat] at hs'
  refine ⟨slice raw 0 2, svc', hs', ?_⟩
  rw [hp, hz, g2, g4]
  rfl

/-- `get_extended_status` never raises on a reply that carries the extended status words its size byte announces -/
theorem gme_extendedStatus_ok (raw : Bytes) (start : Nat) (stb szb : UInt8) (pl : Bytes)
    (h : raw.drop start = stb :: szb :: pl) (hsz : 2 * szb.toNat ≤ pl.length) :
    ∃ r, extendedStatus raw start = .ok r := by
  unfold extendedStatus
  rw [h]
  dsimp only
  generalize hx : (ite (szb.toNat * 2 = 0) _ _ : Except Exn (Option Nat)) = x
  have hxo : ∃ o, x = .ok o := by
    rw [← hx]
    split
    · exact ⟨_, rfl⟩
    · split
      · rw [RP.decodeIntNat_ok .uint pl (by simp [IntK.size]; omega)]; exact ⟨_, rfl⟩
      · split
        · rw [RP.decodeIntNat_ok .udint pl (by simp [IntK.size]; omega)]; exact ⟨_, rfl⟩
        · exact ⟨_, rfl⟩
  obtain ⟨o, rfl⟩ := hxo
  cases o with
  | none => exact ⟨_, rfl⟩
  | some ext =>
    dsimp only
    split
    · exact ⟨_, rfl⟩
    · split <;> exact ⟨_, rfl⟩

/-- the status text of such a reply: the text of the general status, possibly followed by more -/
theorem gme_extendedText (tr : Transport) (H : Bytes) (sb stb szb : UInt8) (pl : Bytes) (hH : H.length = tr.off)
    (hsz : 2 * szb.toNat ≤ pl.length) (status : Int) :
    ∃ suffix, extendedText (H ++ ([sb, 0, stb, szb] ++ pl)) tr status = .ok (serviceStatusTextI status ++ suffix) := by
  have hd : (H ++ ([sb, 0, stb, szb] ++ pl)).drop (tr.off + 2) = stb :: szb :: pl := by
    rw [← hH, List.drop_append]; simp
  obtain ⟨r, hr⟩ := gme_extendedStatus_ok _ _ _ _ _ hd hsz
  unfold extendedText
  rw [hr]
  cases r with
  | none => exact ⟨[], by simp⟩
  | some ext => exact ⟨[32, 45, 32] ++ ext, by simp⟩

/-- what `generic_message` makes of the reply: the value and the error of the Tag -/
structure gme_TagOf (tr : Transport) (svc : Nat) (r : MRReply) (dt : Option Ty) (value : PyVal) (error : Option Err) : Prop where
  /-- no data type: the value is the reply data, whatever the status -/
  untyped : dt = none → value = .bytes (gme_payload r)
  /-- accepted status, no data type: no error -/
  okUntyped : gme_accepted tr svc (r.status % 256) = true → dt = none → error = none
  /-- accepted status, the data decodes with the data type: the decoded value, no error -/
  okTyped : ∀ ty v rest, gme_accepted tr svc (r.status % 256) = true → dt = some ty →
      decode ty (gme_payload r) = .ok (v, rest) → value = v ∧ error = none
  /-- accepted status, the data does not decode: None and the parse-failure error -/
  badTyped : ∀ ty e, gme_accepted tr svc (r.status % 256) = true → dt = some ty →
      decode ty (gme_payload r) = .error e → value = .none ∧ error = some .parseFailed
  /-- refused: the error is the status text (possibly followed by the extended status); a typed value is None -/
  refused : gme_accepted tr svc (r.status % 256) = false →
      (∃ suffix, error = some (.text (serviceStatusTextI ((r.status % 256 : Nat) : Int) ++ suffix))) ∧
      (dt ≠ none → value = .none)

/-- the reply frame of the target around the message-router reply `r` to service `svc`, read by the generic response
    class with data type `dt`: `response.error` does not raise, and value and error are as `gme_TagOf` says -/
theorem gme_reply (tr : Transport) (svc s toId seq : Nat) (ctx : Bytes) (r : MRReply) (dt : Option Ty)
    (hc : ctx.length = 8) (raw : Bytes)
    (hraw : raw = match tr with
       | .connected => frame CMD_SEND_UNIT s 0 ctx (cpfReplyConnected toId seq (encMRReply svc r))
       | .unconnected => frame CMD_SEND_RR s 0 ctx (cpfReplyUnconnected (encMRReply svc r))) :
    ∃ err, errorCip (some raw) tr (parseGeneric (some raw) tr dt).2.1 (parseGeneric (some raw) tr dt).2.2 = .ok err ∧
      gme_TagOf tr svc r dt (parseGeneric (some raw) tr dt).1 err := by
  obtain ⟨H, hH, hfr, hz⟩ := gme_frame_shape tr s toId seq ctx (encMRReply svc r) hc
  rw [← hraw] at hfr
  rw [hfr] at *
  clear hfr hraw
  rw [gme_encMRReply] at *
  have hsb : 128 ≤ (UInt8.ofNat (svc % 128 + 128)).toNat := by rw [EP.toNat_ofNat]; omega
  have hsz : 2 * (UInt8.ofNat r.ext.length).toNat ≤ (gme_payload r).length := by
    rw [EP.toNat_ofNat, gme_payload_length]
    have := Nat.mod_le r.ext.length 256
    omega
  obtain ⟨cmd, svc', hs', hp⟩ := gme_parseCip tr H _ (UInt8.ofNat r.status) (UInt8.ofNat r.ext.length) (gme_payload r) hH hz hsb
  have hst : (UInt8.ofNat r.status).toNat = r.status % 256 := EP.toNat_ofNat _
  rw [hst] at hp
  obtain ⟨suffix, htext⟩ := gme_extendedText tr H (UInt8.ofNat (svc % 128 + 128)) (UInt8.ofNat r.status)
    (UInt8.ofNat r.ext.length) (gme_payload r) hH hsz ((r.status % 256 : Nat) : Int)
  generalize hrawd : H ++ ([UInt8.ofNat (svc % 128 + 128), 0, UInt8.ofNat r.status, UInt8.ofNat r.ext.length] ++ gme_payload r) = raw
    at hp htext
  -- validity of the parsed record
  have hvalid : validCip tr (parseCip (some raw) tr) = gme_accepted tr svc (r.status % 256) := by
    rw [hp]
    have hv := validCip_record tr cmd 0 svc' (r.status % 256) (gme_payload r)
    rw [Bool.eq_iff_iff, hv]
    unfold gme_accepted
    rw [hs']
    cases tr <;> simp
  have herr : ∀ p' : Parsed, p' = parseCip (some raw) tr → gme_accepted tr svc (r.status % 256) = false →
      errorCip (some raw) tr p' false =
        .ok (some (.text (serviceStatusTextI ((r.status % 256 : Nat) : Int) ++ suffix))) := by
    intro p' hp' hacc
    have hne : r.status % 256 ≠ 0 := by
      intro h0
      rw [h0, gme_accepted_zero] at hacc
      cases hacc
    rw [hp', hp, errorCip_record]
    simp only [ne_eq, not_true_eq_false, if_false, hne, not_false_eq_true, if_true, htext]
    rfl
  cases hacc : gme_accepted tr svc (r.status % 256) with
  | true =>
    rw [hacc] at hvalid
    cases dt with
    | none =>
      refine ⟨none, ?_, ?_⟩
      · simp only [parseGeneric, hvalid]
        simp [errorCip]
      · refine { untyped := ?_, okUntyped := ?_, okTyped := ?_, badTyped := ?_, refused := ?_ }
        · intro _
          simp only [parseGeneric]
          rw [hp]
        · intro _ _; rfl
        · intro ty v rest _ h; cases h
        · intro ty e _ h; cases h
        · intro h; rw [hacc] at h; cases h
    | some ty =>
      cases hdec : decode ty (gme_payload r) with
      | ok vr =>
        obtain ⟨v, rest⟩ := vr
        have hpg : parseGeneric (some raw) tr (some ty) = (v, parseCip (some raw) tr, true) := by
          simp only [parseGeneric, hvalid, if_true]
          rw [hp]
          simp only [Option.getD_some, hdec]
        rw [hpg]
        refine ⟨none, by simp [errorCip], ?_⟩
        refine { untyped := ?_, okUntyped := ?_, okTyped := ?_, badTyped := ?_, refused := ?_ }
        · intro h; cases h
        · intro _ h; cases h
        · intro ty' v' rest' _ hty hd
          cases hty
          rw [hdec] at hd
          cases hd
          exact ⟨rfl, rfl⟩
        · intro ty' e _ hty hd
          cases hty
          rw [hdec] at hd
          cases hd
        · intro h; rw [hacc] at h; cases h
      | error e =>
        have hpg : parseGeneric (some raw) tr (some ty) =
            (.none, { parseCip (some raw) tr with err := some .parseFailed }, false) := by
          simp only [parseGeneric, hvalid, if_true]
          rw [hp]
          simp only [Option.getD_some, hdec]
        rw [hpg]
        refine ⟨some .parseFailed, by simp [errorCip], ?_⟩
        refine { untyped := ?_, okUntyped := ?_, okTyped := ?_, badTyped := ?_, refused := ?_ }
        · intro h; cases h
        · intro _ h; cases h
        · intro ty' v' rest' _ hty hd
          cases hty
          rw [hdec] at hd
          cases hd
        · intro ty' e' _ hty hd
          exact ⟨rfl, rfl⟩
        · intro h; rw [hacc] at h; cases h
  | false =>
    rw [hacc] at hvalid
    refine ⟨some (.text (serviceStatusTextI ((r.status % 256 : Nat) : Int) ++ suffix)), ?_, ?_⟩
    · cases dt with
      | none =>
        simp only [parseGeneric, hvalid]
        exact herr _ rfl hacc
      | some ty =>
        simp only [parseGeneric, hvalid, Bool.false_eq_true, if_false]
        exact herr _ rfl hacc
    · refine { untyped := ?_, okUntyped := ?_, okTyped := ?_, badTyped := ?_, refused := ?_ }
      · intro hd
        subst hd
        simp only [parseGeneric]
        rw [hp]
      · intro h; rw [hacc] at h; cases h
      · intro _ _ _ h; rw [hacc] at h; cases h
      · intro _ _ h; rw [hacc] at h; cases h
      · intro _
        refine ⟨⟨suffix, rfl⟩, ?_⟩
        intro hd
        cases dt with
        | none => exact absurd rfl hd
        | some ty => simp only [parseGeneric, hvalid, Bool.false_eq_true, if_false]

end Pycomm.Cli
