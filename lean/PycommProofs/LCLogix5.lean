/-
  Helper lemmas for C17 over histories with LogixDriver reads and writes.  Part 5: which sequence numbers the
  request builders draw and which of them the built packets will send: the numbers of the packets are — as a
  multiset — among the numbers drawn, each draw used at most once; at most three draws per request.
-/
import PycommProofs.LCLogix1
import PycommProofs.LogixPlanProofs
namespace Pycomm.Lgx.Drv
open Pycomm.Tgt Pycomm.Path Pycomm.Reply

/-- `d'` is `d` after drawing the sequence numbers `L` (oldest first) -/
inductive lcl_Draws : Cli.Drv → List Nat → Cli.Drv → Prop
  | nil (d : Cli.Drv) : lcl_Draws d [] d
  | snoc {d : Cli.Drv} {L : List Nat} {d' : Cli.Drv} : lcl_Draws d L d' → lcl_Draws d (L ++ [d'.nextSeq.1]) d'.nextSeq.2

theorem lcl_Draws_append {a b c : Cli.Drv} {L1 L2 : List Nat} (h1 : lcl_Draws a L1 b) (h2 : lcl_Draws b L2 c) :
    lcl_Draws a (L1 ++ L2) c := by
  induction h2 with
  | nil => simpa using h1
  | snoc _ ih => rw [← List.append_assoc]; exact .snoc ih

theorem lcl_Draws_one (d : Cli.Drv) : lcl_Draws d [d.nextSeq.1] d.nextSeq.2 := by
  have := lcl_Draws.snoc (lcl_Draws.nil d)
  simpa using this

theorem lcl_Draws_cons {d d' : Cli.Drv} {L : List Nat} (h : lcl_Draws d.nextSeq.2 L d') :
    lcl_Draws d (d.nextSeq.1 :: L) d' := by
  have := lcl_Draws_append (lcl_Draws_one d) h
  simpa using this

/-- the sequence numbers a packet sends by itself (a fragmented write draws a fresh number per segment) -/
def Request.lcl_seqs : Request → List Nat
  | .read r => [r.seq]
  | .readFrag r => [r.seq]
  | .write r => [r.seq]
  | .writeFrag _ => []
  | .rmw r => [r.seq]
  | .multiRead seq _ => [seq]
  | .multiWrite seq _ => [seq]

/-- packets that are sent by a loop which draws further sequence numbers -/
def Request.lcl_isLoop : Request → Bool
  | .readFrag _ => true
  | .writeFrag _ => true
  | _ => false

/-- every packet sent by a loop is the last one of the list -/
def lcl_loopLast : List Request → Bool
  | [] => true
  | [_] => true
  | q :: rest => !q.lcl_isLoop && lcl_loopLast rest

theorem lcl_loopLast_short (reqs : List Request) (h : reqs.length ≤ 1) : lcl_loopLast reqs = true := by
  match reqs, h with
  | [], _ => rfl
  | [_], _ => rfl

theorem lcl_loopLast_cons (q : Request) (rest : List Request) (h : lcl_loopLast (q :: rest) = true) :
    lcl_loopLast rest = true ∧ (q.lcl_isLoop = true → rest = []) := by
  cases rest with
  | nil => exact ⟨rfl, fun _ => rfl⟩
  | cons r rs =>
    simp only [lcl_loopLast, Bool.and_eq_true, Bool.not_eq_true'] at h
    exact ⟨h.2, fun hl => by rw [h.1] at hl; cases hl⟩

/-! ### reads -/

theorem lcl_mkReadReq_draw (cfg : Cfg) (d : Cli.Drv) (p : Parsed) (info : TagInfo) :
    (mkReadReq cfg d p info).1 = d.nextSeq.2 ∧
    ∀ req, (mkReadReq cfg d p info).2 = .ok req → req.seq = d.nextSeq.1 := by
  unfold mkReadReq
  dsimp only
  split
  · exact ⟨rfl, fun _ h => nomatch h⟩
  · exact ⟨rfl, fun _ h => nomatch h⟩
  · refine ⟨rfl, fun req h => ?_⟩
    simp only [Except.ok.injEq] at h
    rw [← h]

theorem lcl_refresh_read_draw (b : Bool) (d : Cli.Drv) (r : ReadReq) :
    (b = false ∧ (if b = true then r.refresh d else (d, r)) = (d, r)) ∨
    (b = true ∧ (if b = true then r.refresh d else (d, r)).1 = d.nextSeq.2 ∧
      (if b = true then r.refresh d else (d, r)).2.seq = d.nextSeq.1) := by
  cases b
  · exact .inl ⟨rfl, rfl⟩
  · exact .inr ⟨rfl, rfl, rfl⟩

theorem lcl_map_ok {ε α β} (x : Except ε α) (f : α → β) (y : β) (h : x.map f = .ok y) : ∃ v, x = .ok v ∧ y = f v := by
  cases x with
  | error e => cases h
  | ok v => simp only [Except.map, Except.ok.injEq] at h; exact ⟨v, rfl, h.symm⟩

theorem lcl_readBuildLive_draws (cfg : Cfg) (C : Nat) (multi : Bool) (ps : List Parsed) :
    ∀ d : Cli.Drv, ∃ L, lcl_Draws d L (readBuildLive cfg C multi d ps).1 ∧ L.length ≤ 2 * ps.length ∧
      ∀ items, (readBuildLive cfg C multi d ps).2 = .ok items →
        (items.map (·.1.seq)).Sublist L ∧ items.length ≤ ps.length := by
  induction ps with
  | nil =>
    intro d
    refine ⟨[], by simp only [readBuildLive]; exact .nil d, by simp, ?_⟩
    intro items h
    simp only [readBuildLive, Except.ok.injEq] at h
    subst h
    exact ⟨List.Sublist.refl _, Nat.le_refl _⟩
  | cons p rest ih =>
    intro d
    rw [readBuildLive]
    split
    · next info he hi =>
      obtain ⟨hd1, hseq⟩ := lcl_mkReadReq_draw cfg d p info
      rcases hm : mkReadReq cfg d p info with ⟨d1, r⟩
      rw [hm] at hd1 hseq
      dsimp only at hd1 hseq ⊢
      subst hd1
      cases r with
      | error e =>
        exact ⟨[d.nextSeq.1], lcl_Draws_one d, by simp only [List.length_cons, List.length_nil]; omega,
          fun _ h => nomatch h⟩
      | ok req =>
        dsimp only
        have hrs := hseq req rfl
        rcases lcl_refresh_read_draw
          (if multi = true then decide (req.returnSize + K.OVERHEAD > C) else decide (req.returnSize > C)) d.nextSeq.2 req with
          ⟨_, hfr⟩ | ⟨_, hfr1, hfr2⟩
        · rw [hfr]
          dsimp only
          obtain ⟨L', hL', hlen, hit⟩ := ih d.nextSeq.2
          rcases hrec : readBuildLive cfg C multi d.nextSeq.2 rest with ⟨d3, more⟩
          rw [hrec] at hL' hit
          dsimp only at hL' hit ⊢
          refine ⟨d.nextSeq.1 :: L', lcl_Draws_cons hL', by simp only [List.length_cons]; omega, ?_⟩
          intro items h
          obtain ⟨xs, hxs, rfl⟩ := lcl_map_ok _ _ _ h
          obtain ⟨h1, h2⟩ := hit xs hxs
          refine ⟨?_, by simp only [List.length_cons]; omega⟩
          simp only [List.map_cons]
          rw [hrs]
          exact h1.cons_cons _
        · generalize (if (if multi = true then decide (req.returnSize + K.OVERHEAD > C) else decide (req.returnSize > C)) = true
            then req.refresh d.nextSeq.2 else (d.nextSeq.2, req)) = fr at hfr1 hfr2 ⊢
          obtain ⟨d2, req2⟩ := fr
          dsimp only at hfr1 hfr2 ⊢
          subst hfr1
          obtain ⟨L', hL', hlen, hit⟩ := ih d.nextSeq.2.nextSeq.2
          rcases hrec : readBuildLive cfg C multi d.nextSeq.2.nextSeq.2 rest with ⟨d3, more⟩
          rw [hrec] at hL' hit
          dsimp only at hL' hit ⊢
          refine ⟨d.nextSeq.1 :: d.nextSeq.2.nextSeq.1 :: L', lcl_Draws_cons (lcl_Draws_cons hL'),
            by simp only [List.length_cons]; omega, ?_⟩
          intro items h
          obtain ⟨xs, hxs, rfl⟩ := lcl_map_ok _ _ _ h
          obtain ⟨h1, h2⟩ := hit xs hxs
          refine ⟨?_, by simp only [List.length_cons]; omega⟩
          simp only [List.map_cons]
          rw [hfr2]
          exact (h1.cons_cons _).cons _
    · obtain ⟨L', hL', hlen, hit⟩ := ih d
      refine ⟨L', hL', by simp only [List.length_cons]; omega, ?_⟩
      intro items h
      obtain ⟨h1, h2⟩ := hit items h
      exact ⟨h1, by simp only [List.length_cons]; omega⟩

theorem lcl_drawSeqs_draws {α} (xs : List α) :
    ∀ d : Cli.Drv, lcl_Draws d ((drawSeqs d xs).2.map (·.1)) (drawSeqs d xs).1 ∧ (drawSeqs d xs).2.length = xs.length := by
  induction xs with
  | nil => intro d; exact ⟨.nil d, rfl⟩
  | cons x rest ih =>
    intro d
    obtain ⟨h1, h2⟩ := ih d.nextSeq.2
    simp only [drawSeqs, List.map_cons, List.length_cons]
    exact ⟨lcl_Draws_cons h1, by rw [h2]⟩

theorem lcl_groups_length (C : Nat) (items : List K.Item) : (K.plan C items).groups.length ≤ items.length := by
  have h1 := (K.plan_partition C items).1
  have h2 := K.plan_no_empty_group C items
  have h3 : ∀ (gs : List (List Nat)), (∀ g ∈ gs, g ≠ []) → gs.length ≤ gs.flatten.length := by
    intro gs
    induction gs with
    | nil => intro _; simp
    | cons g rest ih =>
      intro hne
      have hg : g ≠ [] := hne g List.mem_cons_self
      have := ih (fun g' hg' => hne g' (List.mem_cons_of_mem _ hg'))
      have hl : 1 ≤ g.length := by
        cases g with
        | nil => exact absurd rfl hg
        | cons a b => simp
      simp only [List.length_cons, List.flatten_cons, List.length_append]
      omega
  have h4 := h3 _ h2
  rw [h1, List.length_map] at h4
  have h5 := List.length_filter_le (fun i : K.Item => !(i.size + K.OVERHEAD > C)) (items.filter (!·.error))
  have h6 := List.length_filter_le (fun i : K.Item => !i.error) items
  omega

theorem lcl_flatMap_multiRead (l : List (Nat × List ReadReq)) :
    (l.map fun m => Request.multiRead m.1 m.2).flatMap Request.lcl_seqs = l.map (·.1) := by
  induction l with
  | nil => rfl
  | cons x rest ih => simp only [List.map_cons, List.flatMap_cons, Request.lcl_seqs, ih, List.singleton_append]

theorem lcl_flatMap_multiWrite (l : List (Nat × List WriteReq)) :
    (l.map fun m => Request.multiWrite m.1 m.2).flatMap Request.lcl_seqs = l.map (·.1) := by
  induction l with
  | nil => rfl
  | cons x rest ih => simp only [List.map_cons, List.flatMap_cons, Request.lcl_seqs, ih, List.singleton_append]

theorem lcl_flatMap_readFrag {α} (l : List α) (f : α → ReadReq) :
    (l.map fun x => Request.readFrag (f x)).flatMap Request.lcl_seqs = l.map fun x => (f x).seq := by
  induction l with
  | nil => rfl
  | cons x rest ih => simp only [List.map_cons, List.flatMap_cons, Request.lcl_seqs, ih, List.singleton_append]

theorem lcl_flatMap_readAny (l : List (ReadReq × Nat × Bool)) :
    (l.map fun x => if x.2.2 then Request.readFrag x.1 else Request.read x.1).flatMap Request.lcl_seqs =
      l.map (·.1.seq) := by
  induction l with
  | nil => rfl
  | cons x rest ih =>
    simp only [List.map_cons, List.flatMap_cons, ih]
    cases x.2.2 <;> rfl

theorem lcl_flatMap_writeFrag {α} (l : List α) (f : α → WriteReq) :
    (l.map fun x => Request.writeFrag (f x)).flatMap Request.lcl_seqs = [] := by
  induction l with
  | nil => rfl
  | cons x rest ih => simp only [List.map_cons, List.flatMap_cons, Request.lcl_seqs, ih, List.nil_append]

theorem lcl_flatMap_rmw (l : List RmwReq) : (l.map Request.rmw).flatMap Request.lcl_seqs = l.map (·.seq) := by
  induction l with
  | nil => rfl
  | cons x rest ih => simp only [List.map_cons, List.flatMap_cons, Request.lcl_seqs, ih, List.singleton_append]

/-- `_read_build_requests`: at most three draws per parsed request; the numbers of the packets are a permutation of
    a sublist of the numbers drawn -/
theorem lcl_readBuild_draws (cfg : Cfg) (d : Cli.Drv) (ps : List Parsed) :
    ∃ L, lcl_Draws d L (readBuildRequests cfg d ps).1 ∧ L.length ≤ 3 * ps.length ∧
      ∀ reqs, (readBuildRequests cfg d ps).2 = .ok reqs →
        ∃ S : List Nat, S.Sublist L ∧ S.Perm (reqs.flatMap Request.lcl_seqs) := by
  unfold readBuildRequests
  dsimp only
  split
  · obtain ⟨L1, hL1, hlen1, hit⟩ := lcl_readBuildLive_draws cfg d.connectionSize true ps d
    rcases hl : readBuildLive cfg d.connectionSize true d ps with ⟨d1, live⟩
    rw [hl] at hL1 hit
    dsimp only at hL1 hit ⊢
    cases live with
    | error e => exact ⟨L1, hL1, by omega, fun _ h => nomatch h⟩
    | ok items =>
      dsimp only
      obtain ⟨hsub, hilen⟩ := hit items rfl
      generalize hgr : ((K.plan d.connectionSize (items.map fun x => ({ id := x.1.rid, error := false, size := x.2.1 } : K.Item))).groups.map
        fun g => g.filterMap fun id => (items.find? (·.1.rid == id)).map (·.1)) = groups
      have hglen : groups.length ≤ ps.length := by
        rw [← hgr, List.length_map]
        have := lcl_groups_length d.connectionSize (items.map fun x => ({ id := x.1.rid, error := false, size := x.2.1 } : K.Item))
        rw [List.length_map] at this
        omega
      obtain ⟨hL2, hlen2⟩ := lcl_drawSeqs_draws groups d1
      refine ⟨L1 ++ (drawSeqs d1 groups).2.map (·.1), lcl_Draws_append hL1 hL2, ?_, ?_⟩
      · rw [List.length_append, List.length_map, hlen2]; omega
      · intro reqs h
        simp only [Except.ok.injEq] at h
        subst h
        refine ⟨(items.filter (·.2.2)).map (·.1.seq) ++ (drawSeqs d1 groups).2.map (·.1), ?_, ?_⟩
        · exact List.Sublist.append ((List.filter_sublist.map _).trans hsub) (List.Sublist.refl _)
        · rw [List.flatMap_append, lcl_flatMap_multiRead, lcl_flatMap_readFrag]
          exact List.perm_append_comm
  · obtain ⟨L1, hL1, hlen1, hit⟩ := lcl_readBuildLive_draws cfg d.connectionSize false ps d
    rcases hl : readBuildLive cfg d.connectionSize false d ps with ⟨d1, live⟩
    rw [hl] at hL1 hit
    dsimp only at hL1 hit ⊢
    refine ⟨L1, hL1, by omega, ?_⟩
    intro reqs h
    obtain ⟨items, hitems, rfl⟩ := lcl_map_ok _ _ _ h
    refine ⟨items.map (·.1.seq), (hit items hitems).1, ?_⟩
    rw [lcl_flatMap_readAny]

/-- a single read request yields at most one packet -/
theorem lcl_readBuild_single (cfg : Cfg) (d : Cli.Drv) (ps : List Parsed) (hps : ps.length = 1) (reqs : List Request)
    (h : (readBuildRequests cfg d ps).2 = .ok reqs) : reqs.length ≤ 1 := by
  unfold readBuildRequests at h
  dsimp only at h
  rw [if_neg (by simp [hps])] at h
  obtain ⟨L1, _, _, hit⟩ := lcl_readBuildLive_draws cfg d.connectionSize false ps d
  rcases hl : readBuildLive cfg d.connectionSize false d ps with ⟨d1, live⟩
  rw [hl] at hit h
  dsimp only at hit h
  obtain ⟨items, hitems, rfl⟩ := lcl_map_ok _ _ _ h
  have := (hit items hitems).2
  rw [List.length_map]; omega

/-! ### writes -/

theorem lcl_mkWriteReq_draw (cfg : Cfg) (d : Cli.Drv) (p : Parsed) (info : TagInfo) (v : Bytes) :
    (mkWriteReq cfg d p info v).1 = d.nextSeq.2 ∧
    ∀ req, (mkWriteReq cfg d p info v).2 = .ok req → req.seq = d.nextSeq.1 := by
  unfold mkWriteReq
  dsimp only
  split
  · exact ⟨rfl, fun _ h => nomatch h⟩
  · exact ⟨rfl, fun _ h => nomatch h⟩
  · refine ⟨rfl, fun req h => ?_⟩
    simp only [Except.ok.injEq] at h
    rw [← h]

theorem lcl_mkRmwReq_draw (cfg : Cfg) (d : Cli.Drv) (p : Parsed) (info : TagInfo) (rid : Int) :
    (mkRmwReq cfg d p info rid).1 = d.nextSeq.2 ∧
    ∀ r, (mkRmwReq cfg d p info rid).2 = .ok r → r.seq = d.nextSeq.1 ∧ r.tag = p.plcTag := by
  unfold mkRmwReq
  dsimp only
  split
  · exact ⟨rfl, fun _ h => nomatch h⟩
  · split
    · exact ⟨rfl, fun _ h => nomatch h⟩
    · refine ⟨rfl, fun r h => ?_⟩
      simp only [Except.ok.injEq] at h
      rw [← h]
      exact ⟨rfl, rfl⟩

theorem lcl_refresh_write_draw (b : Bool) (d : Cli.Drv) (r : WriteReq) :
    (b = false ∧ (if b = true then r.refresh d else (d, r)) = (d, r)) ∨
    (b = true ∧ (if b = true then r.refresh d else (d, r)).1 = d.nextSeq.2) := by
  cases b
  · exact .inl ⟨rfl, rfl⟩
  · exact .inr ⟨rfl, rfl⟩

/-- the Read-Modify-Write packets collected so far address pairwise different tags -/
def lcl_TagsDistinct (rmws : List RmwReq) : Prop := rmws.Pairwise (fun x y => x.tag ≠ y.tag)

theorem lcl_pairwise_inj {α β} (f : α → β) (l : List α) (h : l.Pairwise (fun x y => f x ≠ f y)) :
    ∀ x ∈ l, ∀ y ∈ l, f x = f y → x = y := by
  induction l with
  | nil => intro x hx; cases hx
  | cons a rest ih =>
    obtain ⟨h1, h2⟩ := List.pairwise_cons.1 h
    intro x hx y hy hxy
    rcases List.mem_cons.1 hx with hxa | hx'
    · rcases List.mem_cons.1 hy with hya | hy'
      · rw [hxa, hya]
      · rw [hxa] at hxy; exact absurd hxy (h1 y hy')
    · rcases List.mem_cons.1 hy with hya | hy'
      · rw [hya] at hxy; exact absurd hxy.symm (h1 x hx')
      · exact ih h2 x hx' y hy' hxy

theorem lcl_rmw_replace (rmws : List RmwReq) (hd : lcl_TagsDistinct rmws) (t : Name) (r r' : RmwReq)
    (hf : rmws.find? (·.tag == t) = some r) (hs : r'.seq = r.seq) (ht : r'.tag = r.tag) :
    (rmws.map fun x => if x.tag == t then r' else x).map (·.seq) = rmws.map (·.seq) ∧
    lcl_TagsDistinct (rmws.map fun x => if x.tag == t then r' else x) := by
  have hr : r ∈ rmws := List.mem_of_find?_eq_some hf
  have hrt : r.tag = t := by
    have := List.find?_some hf
    simpa using this
  have key : ∀ x ∈ rmws, (x.tag == t) = true → x = r := by
    intro x hx hxt
    have : x.tag = t := by simpa using hxt
    exact lcl_pairwise_inj (fun q : RmwReq => q.tag) rmws hd x hx r hr (this.trans hrt.symm)
  constructor
  · rw [List.map_map]
    apply List.map_congr_left
    intro x hx
    simp only [Function.comp]
    split
    · next hxt => rw [key x hx hxt, hs]
    · rfl
  · unfold lcl_TagsDistinct
    rw [List.pairwise_map]
    refine hd.imp_of_mem ?_
    intro x y hx hy hxy
    have ex : (if (x.tag == t) = true then r' else x).tag = x.tag := by
      split
      · next hxt => rw [key x hx hxt, ht]
      · rfl
    have ey : (if (y.tag == t) = true then r' else y).tag = y.tag := by
      split
      · next hyt => rw [key y hy hyt, ht]
      · rfl
    rw [ex, ey]
    exact hxy

theorem lcl_writeBuildLive_draws (cfg : Cfg) (C : Nat) (ps : List Parsed) :
    ∀ (d : Cli.Drv) (acc : WriteBuild), lcl_TagsDistinct acc.rmws →
      ∃ L, lcl_Draws d L (writeBuildLive cfg C d acc ps).1 ∧ L.length ≤ 2 * ps.length ∧
        ∀ b, (writeBuildLive cfg C d acc ps).2 = .ok b →
          ∃ S, S.Sublist L ∧ b.rmws.map (·.seq) = acc.rmws.map (·.seq) ++ S ∧
            b.writes.length ≤ acc.writes.length + ps.length := by
  induction ps with
  | nil =>
    intro d acc _
    refine ⟨[], by simp only [writeBuildLive]; exact .nil d, by simp, ?_⟩
    intro b h
    simp only [writeBuildLive, Except.ok.injEq] at h
    subst h
    exact ⟨[], List.Sublist.refl _, by simp, by simp⟩
  | cons p rest ih =>
    intro d acc hdist
    have skip : ∀ acc' : WriteBuild, lcl_TagsDistinct acc'.rmws → acc'.rmws.map (·.seq) = acc.rmws.map (·.seq) →
        acc'.writes.length = acc.writes.length →
        ∃ L, lcl_Draws d L (writeBuildLive cfg C d acc' rest).1 ∧ L.length ≤ 2 * (p :: rest).length ∧
          ∀ b, (writeBuildLive cfg C d acc' rest).2 = .ok b →
            ∃ S, S.Sublist L ∧ b.rmws.map (·.seq) = acc.rmws.map (·.seq) ++ S ∧
              b.writes.length ≤ acc.writes.length + (p :: rest).length := by
      intro acc' hd' hs' hw'
      obtain ⟨L', hL', hlen, hb⟩ := ih d acc' hd'
      refine ⟨L', hL', by simp only [List.length_cons]; omega, ?_⟩
      intro b h
      obtain ⟨S, h1, h2, h3⟩ := hb b h
      exact ⟨S, h1, by rw [h2, hs'], by simp only [List.length_cons]; omega⟩
    rw [writeBuildLive]
    split
    · next info he hi =>
      split
      · split
        · next r hf =>
          obtain ⟨e1, e2⟩ := lcl_rmw_replace acc.rmws hdist p.plcTag r (r.setBit (p.bit.getD 0) p.value p.requestId) hf rfl rfl
          exact skip _ e2 e1 rfl
        · next hf =>
          obtain ⟨hd1, hr⟩ := lcl_mkRmwReq_draw cfg d p info (-(1 + (acc.rmws.length : Int)))
          rcases hm : mkRmwReq cfg d p info (-(1 + (acc.rmws.length : Int))) with ⟨d1, r⟩
          rw [hm] at hd1 hr
          dsimp only at hd1 hr ⊢
          subst hd1
          cases r with
          | error e =>
            exact ⟨[d.nextSeq.1], lcl_Draws_one d, by simp only [List.length_cons, List.length_nil]; omega,
              fun _ h => nomatch h⟩
          | ok r =>
            dsimp only
            obtain ⟨hrs, hrt⟩ := hr r rfl
            have hd' : lcl_TagsDistinct (acc.rmws ++ [r.setBit (p.bit.getD 0) p.value p.requestId]) := by
              unfold lcl_TagsDistinct
              rw [List.pairwise_append]
              refine ⟨hdist, List.pairwise_singleton _ _, ?_⟩
              intro x hx y hy
              simp only [List.mem_singleton] at hy
              subst hy
              have := List.find?_eq_none.1 hf x hx
              show x.tag ≠ r.tag
              rw [hrt]
              simpa using this
            obtain ⟨L', hL', hlen, hb⟩ := ih d.nextSeq.2 { acc with rmws := acc.rmws ++ [r.setBit (p.bit.getD 0) p.value p.requestId] } hd'
            refine ⟨d.nextSeq.1 :: L', lcl_Draws_cons hL', by simp only [List.length_cons]; omega, ?_⟩
            intro b h
            obtain ⟨S, h1, h2, h3⟩ := hb b h
            refine ⟨r.seq :: S, ?_, ?_, by simp only [List.length_cons]; dsimp only at h3; omega⟩
            · rw [hrs]; exact h1.cons_cons _
            · rw [h2]
              simp only [List.map_append, List.map_cons, List.map_nil, List.append_assoc, List.singleton_append]
              rfl
      · rcases henc : encodeValue p info with ⟨p1, enc⟩
        dsimp only
        cases enc with
        | none => exact skip _ hdist rfl rfl
        | some value =>
          dsimp only
          obtain ⟨hd1, _⟩ := lcl_mkWriteReq_draw cfg d p1 info value
          rcases hm : mkWriteReq cfg d p1 info value with ⟨d1, r⟩
          rw [hm] at hd1
          dsimp only at hd1 ⊢
          subst hd1
          cases r with
          | error e =>
            exact ⟨[d.nextSeq.1], lcl_Draws_one d, by simp only [List.length_cons, List.length_nil]; omega,
              fun _ h => nomatch h⟩
          | ok req =>
            dsimp only
            rcases lcl_refresh_write_draw (decide (req.messageLen + K.OVERHEAD > C)) d.nextSeq.2 req with ⟨_, hfr⟩ | ⟨_, hfr1⟩
            · rw [hfr]
              dsimp only
              obtain ⟨L', hL', hlen, hb⟩ := ih d.nextSeq.2
                { acc with parsed := replaceParsed acc.parsed p1, writes := acc.writes ++ [(req, decide (req.messageLen + K.OVERHEAD > C))] } hdist
              refine ⟨d.nextSeq.1 :: L', lcl_Draws_cons hL', by simp only [List.length_cons]; omega, ?_⟩
              intro b h
              obtain ⟨S, h1, h2, h3⟩ := hb b h
              refine ⟨S, h1.cons _, h2, ?_⟩
              simp only [List.length_append, List.length_cons, List.length_nil] at h3 ⊢
              omega
            · generalize (if decide (req.messageLen + K.OVERHEAD > C) = true then req.refresh d.nextSeq.2 else (d.nextSeq.2, req)) = fr at hfr1 ⊢
              obtain ⟨d2, req2⟩ := fr
              dsimp only at hfr1 ⊢
              subst hfr1
              obtain ⟨L', hL', hlen, hb⟩ := ih d.nextSeq.2.nextSeq.2
                { acc with parsed := replaceParsed acc.parsed p1, writes := acc.writes ++ [(req2, decide (req.messageLen + K.OVERHEAD > C))] } hdist
              refine ⟨d.nextSeq.1 :: d.nextSeq.2.nextSeq.1 :: L', lcl_Draws_cons (lcl_Draws_cons hL'),
                by simp only [List.length_cons]; omega, ?_⟩
              intro b h
              obtain ⟨S, h1, h2, h3⟩ := hb b h
              refine ⟨S, (h1.cons _).cons _, h2, ?_⟩
              simp only [List.length_append, List.length_cons, List.length_nil] at h3 ⊢
              omega
    · exact skip acc hdist rfl rfl

theorem lcl_writeBuildSingles_draws (cfg : Cfg) (C : Nat) (ps : List Parsed) :
    ∀ (d : Cli.Drv) (acc : List Parsed),
      ∃ L, lcl_Draws d L (writeBuildSingles cfg C d acc ps).1 ∧ L.length ≤ 2 * ps.length ∧
        ∀ x, (writeBuildSingles cfg C d acc ps).2 = .ok x →
          (x.2.flatMap Request.lcl_seqs).Sublist L ∧ x.2.length ≤ ps.length := by
  induction ps with
  | nil =>
    intro d acc
    refine ⟨[], by simp only [writeBuildSingles]; exact .nil d, by simp, ?_⟩
    intro x h
    simp only [writeBuildSingles, Except.ok.injEq] at h
    subst h
    exact ⟨List.Sublist.refl _, Nat.le_refl _⟩
  | cons p rest ih =>
    intro d acc
    have skip : ∀ acc' : List Parsed,
        ∃ L, lcl_Draws d L (writeBuildSingles cfg C d acc' rest).1 ∧ L.length ≤ 2 * (p :: rest).length ∧
          ∀ x, (writeBuildSingles cfg C d acc' rest).2 = .ok x →
            (x.2.flatMap Request.lcl_seqs).Sublist L ∧ x.2.length ≤ (p :: rest).length := by
      intro acc'
      obtain ⟨L', hL', hlen, hb⟩ := ih d acc'
      refine ⟨L', hL', by simp only [List.length_cons]; omega, ?_⟩
      intro x h
      obtain ⟨h1, h2⟩ := hb x h
      exact ⟨h1, by simp only [List.length_cons]; omega⟩
    rw [writeBuildSingles]
    split
    · next info he hi =>
      split
      · obtain ⟨hd1, hr⟩ := lcl_mkRmwReq_draw cfg d p info (-(1 + (p.requestId : Int)))
        rcases hm : mkRmwReq cfg d p info (-(1 + (p.requestId : Int))) with ⟨d1, r⟩
        rw [hm] at hd1 hr
        dsimp only at hd1 hr ⊢
        subst hd1
        cases r with
        | error e =>
          exact ⟨[d.nextSeq.1], lcl_Draws_one d, by simp only [List.length_cons, List.length_nil]; omega,
            fun _ h => nomatch h⟩
        | ok r =>
          dsimp only
          obtain ⟨hrs, _⟩ := hr r rfl
          obtain ⟨L', hL', hlen, hb⟩ := ih d.nextSeq.2 acc
          rcases hrec : writeBuildSingles cfg C d.nextSeq.2 acc rest with ⟨d2, more⟩
          rw [hrec] at hL' hb
          dsimp only at hL' hb ⊢
          refine ⟨d.nextSeq.1 :: L', lcl_Draws_cons hL', by simp only [List.length_cons]; omega, ?_⟩
          intro x h
          obtain ⟨y, hy, rfl⟩ := lcl_map_ok _ _ _ h
          obtain ⟨h1, h2⟩ := hb y hy
          refine ⟨?_, by simp only [List.length_cons]; omega⟩
          simp only [List.flatMap_cons, Request.lcl_seqs, List.singleton_append]
          show (r.seq :: _).Sublist _
          rw [hrs]
          exact h1.cons_cons _
      · rcases henc : encodeValue p info with ⟨p1, enc⟩
        dsimp only
        cases enc with
        | none => exact skip _
        | some value =>
          dsimp only
          obtain ⟨hd1, hq⟩ := lcl_mkWriteReq_draw cfg d p1 info value
          rcases hm : mkWriteReq cfg d p1 info value with ⟨d1, r⟩
          rw [hm] at hd1 hq
          dsimp only at hd1 hq ⊢
          subst hd1
          cases r with
          | error e =>
            exact ⟨[d.nextSeq.1], lcl_Draws_one d, by simp only [List.length_cons, List.length_nil]; omega,
              fun _ h => nomatch h⟩
          | ok req =>
            dsimp only
            have hrs := hq req rfl
            cases hfrag : decide (value.length + req.messageLen > C) with
            | false =>
              simp only [Bool.false_eq_true, if_false]
              obtain ⟨L', hL', hlen, hb⟩ := ih d.nextSeq.2 (replaceParsed acc p1)
              rcases hrec : writeBuildSingles cfg C d.nextSeq.2 (replaceParsed acc p1) rest with ⟨d3, more⟩
              rw [hrec] at hL' hb
              dsimp only at hL' hb ⊢
              refine ⟨d.nextSeq.1 :: L', lcl_Draws_cons hL', by simp only [List.length_cons]; omega, ?_⟩
              intro x h
              obtain ⟨y, hy, rfl⟩ := lcl_map_ok _ _ _ h
              obtain ⟨h1, h2⟩ := hb y hy
              refine ⟨?_, by simp only [List.length_cons]; omega⟩
              simp only [List.flatMap_cons, Request.lcl_seqs, List.singleton_append]
              rw [hrs]
              exact h1.cons_cons _
            | true =>
              simp only [if_true]
              obtain ⟨L', hL', hlen, hb⟩ := ih (req.refresh d.nextSeq.2).1 (replaceParsed acc p1)
              rcases hrec : writeBuildSingles cfg C (req.refresh d.nextSeq.2).1 (replaceParsed acc p1) rest with ⟨d3, more⟩
              rw [hrec] at hL' hb
              dsimp only at hL' hb ⊢
              refine ⟨d.nextSeq.1 :: d.nextSeq.2.nextSeq.1 :: L', lcl_Draws_cons (lcl_Draws_cons hL'),
                by simp only [List.length_cons]; omega, ?_⟩
              intro x h
              obtain ⟨y, hy, rfl⟩ := lcl_map_ok _ _ _ h
              obtain ⟨h1, h2⟩ := hb y hy
              refine ⟨?_, by simp only [List.length_cons]; omega⟩
              simp only [List.flatMap_cons, Request.lcl_seqs, List.nil_append]
              exact (h1.cons _).cons _
    · exact skip acc

/-- `_write_build_requests`: at most three draws per parsed request; the numbers of the packets are a permutation
    of a sublist of the numbers drawn -/
theorem lcl_writeBuild_draws (cfg : Cfg) (d : Cli.Drv) (ps : List Parsed) :
    ∃ L, lcl_Draws d L (writeBuildRequests cfg d ps).1 ∧ L.length ≤ 3 * ps.length ∧
      ∀ x, (writeBuildRequests cfg d ps).2 = .ok x →
        ∃ S : List Nat, S.Sublist L ∧ S.Perm (x.2.flatMap Request.lcl_seqs) := by
  unfold writeBuildRequests
  dsimp only
  split
  · obtain ⟨L1, hL1, hlen1, hb⟩ := lcl_writeBuildLive_draws cfg d.connectionSize ps d { parsed := ps } List.Pairwise.nil
    rcases hl : writeBuildLive cfg d.connectionSize d { parsed := ps } ps with ⟨d1, b⟩
    rw [hl] at hL1 hb
    dsimp only at hL1 hb ⊢
    cases b with
    | error e => exact ⟨L1, hL1, by omega, fun _ h => nomatch h⟩
    | ok b =>
      dsimp only
      obtain ⟨S, hS, hrm, hwl⟩ := hb b rfl
      simp only [List.map_nil, List.nil_append, List.length_nil, Nat.zero_add] at hrm hwl
      generalize hgr : ((K.plan d.connectionSize (((b.writes.filter (!·.2)).map (·.1)).map
          fun r => ({ id := r.rid, error := false, size := r.messageLen } : K.Item))).groups.map
        fun g => g.filterMap fun id => ((b.writes.filter (!·.2)).map (·.1)).find? (·.rid == id)) = groups
      have hglen : groups.length ≤ ps.length := by
        rw [← hgr, List.length_map]
        have := lcl_groups_length d.connectionSize (((b.writes.filter (!·.2)).map (·.1)).map
          fun r => ({ id := r.rid, error := false, size := r.messageLen } : K.Item))
        rw [List.length_map, List.length_map] at this
        have h2 := List.length_filter_le (fun x : WriteReq × Bool => !x.2) b.writes
        omega
      obtain ⟨hL2, hlen2⟩ := lcl_drawSeqs_draws groups d1
      refine ⟨L1 ++ (drawSeqs d1 groups).2.map (·.1), lcl_Draws_append hL1 hL2, ?_, ?_⟩
      · rw [List.length_append, List.length_map, hlen2]; omega
      · intro x h
        simp only [Except.ok.injEq] at h
        subst h
        refine ⟨S ++ (drawSeqs d1 groups).2.map (·.1), List.Sublist.append hS (List.Sublist.refl _), ?_⟩
        dsimp only
        rw [List.flatMap_append, List.flatMap_append, lcl_flatMap_multiWrite, lcl_flatMap_writeFrag, lcl_flatMap_rmw,
          List.append_nil, hrm]
        exact List.perm_append_comm
  · obtain ⟨L1, hL1, hlen1, hb⟩ := lcl_writeBuildSingles_draws cfg d.connectionSize ps d ps
    refine ⟨L1, hL1, by omega, ?_⟩
    intro x h
    exact ⟨_, (hb x h).1, List.Perm.refl _⟩

/-- a single (tag, value) pair yields at most one packet -/
theorem lcl_writeBuild_single (cfg : Cfg) (d : Cli.Drv) (ps : List Parsed) (hps : ps.length = 1)
    (x : List Parsed × List Request) (h : (writeBuildRequests cfg d ps).2 = .ok x) : x.2.length ≤ 1 := by
  unfold writeBuildRequests at h
  dsimp only at h
  rw [if_neg (by simp [hps])] at h
  obtain ⟨L1, _, _, hb⟩ := lcl_writeBuildSingles_draws cfg d.connectionSize ps d ps
  have := (hb x h).2
  omega

end Pycomm.Lgx.Drv
