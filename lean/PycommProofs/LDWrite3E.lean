/-
  LogixDriver.write of ONE request whose encoded value is too large for the single-request path, for a location of ANY
  element type other than a packed BOOL (elementary, structure): Write Tag Fragmented. Generalises LDWrite2Frag
  (`ldw2_frag_loop`, `ldw2_sendWriteFragmented`, `ldw2_write_single_frag`: elementary locations) to any type marker
  — the request carries `typeBytes` of the location (2 bytes, or `A0 02` + handle).
    (c)+(d)  `ldw3_frag_loop`, `ldw3_sendWriteFragmented`
    composed `ldw3_write_single_frag`, `ldw3_write_structTag_frag`
-/
import PycommProofs.LDWrite3B
namespace Pycomm.Lgx.Drv
open Pycomm Pycomm.Tgt Pycomm.Path Pycomm.Reply Pycomm.Encap Pycomm.Lgx Pycomm.Lgx.E2E

/-- (c)+(d) the loop of `_send_write_fragmented` over the segments from byte `off` on, on a healthy connection, when
    the controller holds the first `off` bytes already: every segment is sent with a fresh sequence number (one
    frame each) and accepted; afterwards the controller holds the whole value, the write log has grown by one entry
    per segment, and the last response is a good one -/
theorem ldw3_frag_loop (sess : Nat) (cidb : Bytes) (conn : Conn) (st0 : LState) (req : WriteReq) (segs : List PSeg)
    (loc : Loc) (s : Symbol) (sz sg : Nat)
    (hp : Denotes req.path segs) (hty : ∀ b, loc.ty ≠ .boolBit b) (hsc : loc.scope = none) (hi : loc.symInst = s.inst)
    (htb : req.typeBytes = typeBytes st0.proj loc.ty)
    (hn : 1 ≤ req.elements ∧ req.elements ≤ loc.avail ∧ req.elements < 65536)
    (hsz : st0.proj.elSize loc.ty = some sz) (hlen : req.value.length = req.elements * sz) (hl32 : req.value.length < 2 ^ 32)
    (huniqI : ∀ s' ∈ st0.proj.controller, s'.inst = s.inst → s' = s)
    (hmem : loc.offset + req.elements * sz ≤ s.mem.length)
    (hsg : 1 ≤ sg) (hfit : req.path.length + req.typeBytes.length + 7 + sg + 2 ≤ conn.size)
    (hm : req.path.length + req.typeBytes.length + 7 + sg ≤ 65400) :
    ∀ (fuel off : Nat) (w : Cli.World Ext) (ls : Option Nat) (log : List (Nat × Nat × Nat)) (allOk : Bool)
      (last : Option Resp),
      ldr_Healthy w sess cidb { conn with lastSeq := ls } →
      w.net.target.ext.logix = some { st0 with proj := ldw2_fragProj st0.proj s loc.offset req.value off log } →
      off ≤ req.value.length → req.value.length - off < fuel →
      resolve (ldw2_fragProj st0.proj s loc.offset req.value off log) segs = .ok loc →
      (∃ s', (ldw2_fragProj st0.proj s loc.offset req.value off log).symbolOf loc = some s' ∧
        s'.mem.length = s.mem.length) →
      (∀ r, last = some r → ldw2_GoodResp r) →
      ∃ (w' : Cli.World Ext) (ls' : Option Nat) (last' : Option Resp) (fs : List Bytes),
        writeFragSend hookAll req w (K.writeSegments sg req.value fuel off) allOk last = (w', .ok (allOk, last')) ∧
        w'.drv = { w.drv with seqVal := w'.drv.seqVal } ∧
        w'.net.sent = w.net.sent ++ fs ∧ fs.length = (K.writeSegments sg req.value fuel off).length ∧
        w'.net.target.ext =
          { w.net.target.ext with
            logix := some { st0 with
              proj := ldw2_fragProj st0.proj s loc.offset req.value req.value.length
                (log ++ (K.writeSegments sg req.value fuel off).map (fun f => (s.inst, loc.offset + f.1, f.2.length))) } } ∧
        ldr_Healthy w' sess cidb { conn with lastSeq := ls' } ∧
        (∀ r, last' = some r → ldw2_GoodResp r) ∧
        (K.writeSegments sg req.value fuel off ≠ [] → last'.isSome = true) := by
  intro fuel
  induction fuel with
  | zero => intro off w ls log allOk last _ _ _ h; omega
  | succ fuel ih =>
    intro off w ls log allOk last hw hlogix hle hf hr hsym hlast
    unfold K.writeSegments
    by_cases hge : off ≥ req.value.length
    · have hoff : off = req.value.length := by omega
      subst hoff
      rw [if_pos hge]
      refine ⟨w, ls, last, [], rfl, rfl, by simp, rfl, ?_, hw, hlast, fun h => absurd rfl h⟩
      have e : w.net.target.ext = { w.net.target.ext with logix := w.net.target.ext.logix } := rfl
      rw [hlogix] at e
      rw [List.map_nil, List.append_nil]
      exact e
    · rw [if_neg hge]
      have hsl : ((req.value.drop off).take sg).length = min sg (req.value.length - off) := by
        simp [List.length_take, List.length_drop]
      have hstep := ldw2_fragProj_step st0.proj s loc req.value off sg log hi hsc huniqI hle (by rw [hlen]; exact hmem)
      generalize hseg : (req.value.drop off).take sg = seg at hsl hstep
      have hne : seg ≠ [] := by intro h; rw [h] at hsl; simp at hsl; omega
      obtain ⟨s', hs', hl'⟩ := hsym
      -- the exchange
      have hex := exchange_writeFrag { st0 with proj := ldw2_fragProj st0.proj s loc.offset req.value off log }
        (conn.size - 2) req.path segs loc req.elements sz off seg s' hp hr hty hn hs'
        hsz (by omega) hne (by omega) (by rw [hl']; exact hmem)
      have htb' : typeBytes (ldw2_fragProj st0.proj s loc.offset req.value off log) loc.ty = req.typeBytes := by
        rw [htb]; rfl
      simp only at hex
      rw [htb', hstep] at hex
      have hmsg : Cl.writeFragMsg req.path req.typeBytes req.elements off seg =
          [0x53] ++ req.path ++ (req.typeBytes ++ le 2 req.elements ++ le 4 off ++ seg) := by
        simp only [Cl.writeFragMsg, List.append_assoc]
      have hml : ([0x53] ++ req.path ++ (req.typeBytes ++ le 2 req.elements ++ le 4 off ++ seg) : Bytes).length =
          req.path.length + req.typeBytes.length + 7 + seg.length := by
        simp only [List.length_append, List.length_cons, List.length_nil, le_length]; omega
      rw [hmsg] at hex
      have hw1 : ldr_Healthy ({ w with drv := w.drv.nextSeq.2 } : Cli.World Ext) sess cidb { conn with lastSeq := ls } :=
        ldr_Healthy_seq hw _ (by rw [(Cli.lcs_nextSeq w.drv).2])
      obtain ⟨w2, frm, hsend, hd2, hsent2, hext2, hh2⟩ := ldw2_sendUnit_tag ({ w with drv := w.drv.nextSeq.2 } : Cli.World Ext)
        sess cidb { conn with lastSeq := ls } _ _ 0x53 req.path _ segs loc w.drv.nextSeq.1 hw1 hlogix hp hr
        (Or.inr (Or.inl rfl)) hex (ldr_nextSeq_lt w.drv) (by rw [hml]; omega)
        (by rw [hml]; show req.path.length + req.typeBytes.length + 7 + seg.length + 2 ≤ conn.size; omega)
      rw [← hmsg] at hsend
      obtain ⟨hv, _, herr⟩ := ldr_tagResp_ok 0x53 sess conn.toId w.drv.nextSeq.1 w.drv.nextSeq.2.context [] hw1.ctx8
      -- the rest of the loop
      have hlogix2 : w2.net.target.ext.logix = some { st0 with
          proj := ldw2_fragProj st0.proj s loc.offset req.value (off + seg.length) (log ++ [(s.inst, loc.offset + off, seg.length)]) } := by
        rw [hext2]
      have hr2 : resolve (ldw2_fragProj st0.proj s loc.offset req.value (off + seg.length)
          (log ++ [(s.inst, loc.offset + off, seg.length)])) segs = .ok loc := by
        rw [← hstep]; exact resolve_written _ _ _ _ _ _ hr
      have hsym2 : ∃ s'', (ldw2_fragProj st0.proj s loc.offset req.value (off + seg.length)
          (log ++ [(s.inst, loc.offset + off, seg.length)])).symbolOf loc = some s'' ∧ s''.mem.length = s.mem.length := by
        rw [← hstep]
        refine ⟨_, symbolOf_written _ _ _ _ _ hs', ?_⟩
        show (splice s'.mem (loc.offset + off) seg).length = _
        rw [splice_length, hl']; omega
      obtain ⟨w', ls', last', fs, k1, k2, k3, k4, k5, k6, k7, k8⟩ := ih (off + seg.length) w2 (some w.drv.nextSeq.1)
        (log ++ [(s.inst, loc.offset + off, seg.length)]) allOk
        (some (tagResp (some (frame CMD_SEND_UNIT sess 0 w.drv.nextSeq.2.context
          (cpfReplyConnected conn.toId w.drv.nextSeq.1 (encMRReply 0x53 { status := 0, ext := [], data := [] }))))))
        hh2 hlogix2 (by omega) (by omega) hr2 hsym2
        (by intro r hr'; cases hr'; exact ⟨hv, herr⟩)
      refine ⟨w', ls', last', frm :: fs, ?_, ?_, ?_, ?_, ?_, k6, k7, fun _ => ?_⟩
      · rw [writeFragSend]
        simp only [hsend]
        have e83 : UInt8.toNat 83 = 83 := rfl
        rw [e83, hv, Bool.and_true]
        exact k1
      · rw [k2, hd2]
        rfl
      · rw [k3, hsent2]; simp
      · simp [k4]
      · rw [k5, hext2]
        simp only [List.map_cons, List.append_assoc, List.cons_append, List.nil_append]
      · by_cases hfs : K.writeSegments sg req.value fuel (off + seg.length) = []
        · rw [hfs] at k1
          simp only [writeFragSend, Prod.mk.injEq, Except.ok.injEq] at k1
          rw [← k1.2.2]; rfl
        · exact k8 hfs

/-- (c)+(d) `_send_write_fragmented` of a request for `n` elements at a controller-scope location of any type (elementary, structure) inside
    the symbol `s`, on a healthy connection whose size leaves room for at least one value byte per segment: one
    frame per segment of `K.writeFragments`, all accepted; the response handed back is a good one; the controller's
    project afterwards has the value spliced in once and one write-log entry per segment -/
theorem ldw3_sendWriteFragmented (w : Cli.World Ext) (sess : Nat) (cidb : Bytes) (conn : Conn) (st : LState) (req : WriteReq)
    (segs : List PSeg) (loc : Loc) (s : Symbol) (sz : Nat)
    (hw : ldr_Healthy w sess cidb conn) (hlogix : w.net.target.ext.logix = some st)
    (hp : Denotes req.path segs) (hr : resolve st.proj segs = .ok loc)
    (hty : ∀ b, loc.ty ≠ .boolBit b) (hsc : loc.scope = none) (hi : loc.symInst = s.inst)
    (htb : req.typeBytes = typeBytes st.proj loc.ty)
    (hn : 1 ≤ req.elements ∧ req.elements ≤ loc.avail ∧ req.elements < 65536)
    (hs : s ∈ st.proj.controller) (huniqI : ∀ s' ∈ st.proj.controller, s'.inst = s.inst → s' = s)
    (hsz : st.proj.elSize loc.ty = some sz) (hlen : req.value.length = req.elements * sz) (hl32 : req.value.length < 2 ^ 32)
    (hpos : 0 < sz) (hmem : loc.offset + req.elements * sz ≤ s.mem.length)
    (hC1 : req.path.length + req.typeBytes.length + 10 ≤ w.drv.connectionSize) (hCT : w.drv.connectionSize ≤ conn.size)
    (hC16 : w.drv.connectionSize ≤ 65400) :
    ∃ (w' : Cli.World Ext) (ls' : Option Nat) (resp : Resp) (fs : List Bytes),
      sendWriteFragmented hookAll w req = (w', .ok resp) ∧ ldw2_GoodResp resp ∧
      w'.drv = { w.drv with seqVal := w'.drv.seqVal } ∧
      w'.net.sent = w.net.sent ++ fs ∧
      fs.length = (K.writeFragments (Cl.writeSegSize w.drv.connectionSize req.path req.typeBytes) req.value).length ∧
      w'.net.target.ext =
        { w.net.target.ext with
          logix := some { st with
            proj := ldw2_projFrag st.proj s loc.offset req.value
              (K.writeFragments (Cl.writeSegSize w.drv.connectionSize req.path req.typeBytes) req.value) } } ∧
      ldr_Healthy w' sess cidb { conn with lastSeq := ls' } := by
  have hsgv : Cl.writeSegSize w.drv.connectionSize req.path req.typeBytes =
      w.drv.connectionSize - (req.path.length + req.typeBytes.length + 9) := by
    unfold Cl.writeSegSize; omega
  have hsg : 1 ≤ Cl.writeSegSize w.drv.connectionSize req.path req.typeBytes := by rw [hsgv]; omega
  have hvne : req.value ≠ [] := by
    intro h
    rw [h, List.length_nil] at hlen
    have : 0 < req.elements * sz := Nat.mul_pos (by omega) hpos
    omega
  have hwf : K.writeFragments (Cl.writeSegSize w.drv.connectionSize req.path req.typeBytes) req.value =
      K.writeSegments (Cl.writeSegSize w.drv.connectionSize req.path req.typeBytes) req.value (req.value.length + 1) 0 := by
    unfold K.writeFragments; rw [if_neg (by omega)]
  have hsym : st.proj.symbolOf loc = some s := by
    unfold Project.symbolOf Project.findSymbol
    rw [hsc, hi]
    exact ldr_find_inst st.proj s hs huniqI
  have hz := ldw2_fragProj_zero st.proj s loc.offset req.value
  obtain ⟨w', ls', last', fs, k1, k2, k3, k4, k5, k6, k7, k8⟩ := ldw3_frag_loop sess cidb conn st req segs loc s sz
    (Cl.writeSegSize w.drv.connectionSize req.path req.typeBytes) hp hty hsc hi htb hn hsz hlen hl32 huniqI hmem hsg
    (by rw [hsgv]; omega) (by rw [hsgv]; omega)
    (req.value.length + 1) 0 w conn.lastSeq [] true none hw
    (by rw [hz]; exact hlogix) (Nat.zero_le _) (by omega) (by rw [hz]; exact hr) (by rw [hz]; exact ⟨s, hsym, rfl⟩)
    (by intro r h; cases h)
  have hnn : K.writeSegments (Cl.writeSegSize w.drv.connectionSize req.path req.typeBytes) req.value (req.value.length + 1) 0 ≠ [] := by
    unfold K.writeSegments
    rw [if_neg (by have := List.length_pos_iff.2 hvne; omega)]
    simp
  have hsome := k8 hnn
  cases hl : last' with
  | none => rw [hl] at hsome; cases hsome
  | some resp =>
    refine ⟨w', ls', resp, fs, ?_, k7 resp hl, k2, k3, by rw [hwf]; exact k4, ?_, k6⟩
    · unfold sendWriteFragmented
      have he : req.value.isEmpty = false := by
        cases hv : req.value with
        | nil => exact absurd hv hvne
        | cons _ _ => rfl
      simp only [he, Bool.false_eq_true, if_false]
      rw [if_neg (by omega), if_neg (by omega), hwf]
      simp only [k1, hl]
    · rw [k5, hwf, ldw2_fragProj_full]

/-- `LogixDriver.write` of one `(tag string, value)` pair on a healthy connected driver, when the encoded value is too
    large for the single-request path (`len(value) + len(request.message) > connection size`): the request is sent
    with Write Tag Fragmented, one frame per segment of `K.writeFragments`, all accepted; the result is what the
    result loop of `write` makes of the recorded Tag; `2 + number of segments` sequence numbers are drawn; the
    controller's project afterwards has the value spliced in ONCE and one write-log entry per segment
    (`ldw2_projFrag`); the resulting world is healthy again. -/
theorem ldw3_write_single_frag (cfg : Cfg) (w : Cli.World Ext) (sess : Nat) (cidb : Bytes) (conn : Conn)
    (st : LState) (tag0 : Name) (v : PyVal) (p0 p1 : Parsed) (info : TagInfo) (path : Bytes) (segs : List PSeg) (loc : Loc)
    (s : Symbol) (sz n : Nat) (bytes : Bytes)
    (hw : ldr_Healthy w sess cidb conn) (hlogix : w.net.target.ext.logix = some st)
    (hparse : parseTagRequest cfg.tags true 0 tag0 = p0)
    (hperr : p0.error = none) (hpinfo : p0.info = some info) (hbw : p0.isBitWrite = false)
    (henc : encodeValue { p0 with value := v } info = (p1, some bytes)) (hrid : p1.requestId = 0) (hrid0 : p0.requestId = 0)
    (hpel : p1.elements = (n : Int))
    (hpath : requestPathOf cfg p1.plcTag info = .ok path) (hden : Denotes path segs)
    (hr : resolve st.proj segs = .ok loc) (hty : ∀ b, loc.ty ≠ .boolBit b) (hsc : loc.scope = none)
    (hi : loc.symInst = s.inst) (hpt : packedTypeOf info = typeBytes st.proj loc.ty)
    (hn : 1 ≤ n ∧ n ≤ loc.avail ∧ n < 65536)
    (hs : s ∈ st.proj.controller) (huniqI : ∀ s' ∈ st.proj.controller, s'.inst = s.inst → s' = s)
    (hsz : st.proj.elSize loc.ty = some sz) (hpos : 0 < sz)
    (hbl : bytes.length = n * sz) (hmem : loc.offset + n * sz ≤ s.mem.length) (hl32 : bytes.length < 2 ^ 32)
    (hfrag : w.drv.connectionSize < 2 * bytes.length + path.length + (packedTypeOf info).length + 5)
    (hC1 : path.length + (packedTypeOf info).length + 10 ≤ w.drv.connectionSize) (hCT : w.drv.connectionSize ≤ conn.size)
    (hC16 : w.drv.connectionSize ≤ 65400) :
    ∃ (w' : Cli.World Ext) (fs : List Bytes) (ls : Option Nat), write hookAll cfg w [(tag0, v)] =
        (w', .ok [writeResult p1 [((0 : Nat), { tag := p1.plcTag, value := .bytes bytes, type := some info.core.dataTypeName,
                                                error := none })]]) ∧
      w'.drv = { w.drv with seqVal := w'.drv.seqVal } ∧ w'.net.sent = w.net.sent ++ fs ∧
      fs.length = (K.writeFragments (w.drv.connectionSize - (path.length + (packedTypeOf info).length + 9)) bytes).length ∧
      w'.net.target.ext =
        { w.net.target.ext with
          logix := some { st with
            proj := ldw2_projFrag st.proj s loc.offset bytes
              (K.writeFragments (w.drv.connectionSize - (path.length + (packedTypeOf info).length + 9)) bytes) } } ∧
      ldr_Healthy w' sess cidb { conn with lastSeq := ls } := by
  have hparsed : ((parseRequestedTags cfg.tags true ([(tag0, v)].map (·.1))).zip ([(tag0, v)].map (·.2))).map
      (fun x => ({ x.1 with value := x.2 } : Drv.Parsed)) = [{ p0 with value := v }] := by
    show ([parseTagRequest cfg.tags true 0 tag0].zip [v]).map _ = _
    rw [hparse]; rfl
  have hml : (Cl.writeMsg path (packedTypeOf info) n bytes).length =
      path.length + (packedTypeOf info).length + 3 + bytes.length := by
    simp only [Cl.writeMsg, List.length_append, List.length_cons, List.length_nil, le_length]; omega
  have hbuild := ldw2_build_frag cfg w.drv { p0 with value := v } p1 info path bytes n hperr hpinfo
    (by simpa [Parsed.isBitWrite] using hbw) henc (by rw [hrid]; exact hrid0.symm) hpel (by omega) hpath
    (by rw [hml]; omega)
  have hw1 : ldr_Healthy ({ w with drv := w.drv.nextSeq.2.nextSeq.2 } : Cli.World Ext) sess cidb conn :=
    ldr_Healthy_seq hw _ rfl
  have hsgv : Cl.writeSegSize w.drv.connectionSize path (packedTypeOf info) =
      w.drv.connectionSize - (path.length + (packedTypeOf info).length + 9) := by
    unfold Cl.writeSegSize; omega
  obtain ⟨w2, ls, resp, fs, hsend, hgood, hd2, hsent2, hfl, hext2, hh2⟩ := ldw3_sendWriteFragmented
    ({ w with drv := w.drv.nextSeq.2.nextSeq.2 } : Cli.World Ext) sess cidb conn st
    { seq := w.drv.nextSeq.2.nextSeq.1, tag := p1.plcTag, elements := n, info := info, rid := p1.requestId, path := path,
      typeBytes := packedTypeOf info, value := bytes }
    segs loc s sz hw1 hlogix hden hr hty hsc hi hpt hn hs huniqI hsz hbl hl32 hpos hmem hC1 hCT hC16
  have hcs : w.drv.nextSeq.2.nextSeq.2.connectionSize = w.drv.connectionSize := rfl
  dsimp only at hfl hext2
  rw [hcs, hsgv] at hfl hext2
  have hresp := ldw2_writeTag_good p1.plcTag (.bytes bytes) info.core.dataTypeName resp hgood
  have hfo : Cli.ensureForwardOpen hookAll Cli.FUEL w = (w, .ok ()) := ldr_ensureFO_connected hookAll 7 w hw.connected
  refine ⟨w2, fs, ls, ?_, ?_, hsent2, hfl, hext2, hh2⟩
  · unfold write
    rw [hfo]
    dsimp only
    rw [hparsed, hbuild]
    dsimp only
    unfold sendRequests sendRequest
    dsimp only
    rw [hsend]
    dsimp only
    rw [hresp]
    dsimp only [Except.map]
    unfold sendRequests
    dsimp only [fanOutRmw, List.isEmpty_cons, Bool.false_eq_true, if_false, List.map_cons, List.map_nil,
      Results.set, List.any_nil, List.nil_append]
    simp only [Bool.false_eq_true, if_false, List.map_cons, List.map_nil, hrid]
  · exact hd2.trans rfl

/-- the segment size of `_send_write_fragmented` for a structure: the connection size minus everything in the request
    but the value (sequence count 2, service 1, request path, structure marker + handle 4, element count 2, byte
    offset 4) -/
def ldw3_segSize (C : Nat) (path : Bytes) : Nat := C - (path.length + 13)

/-- `write` of a whole controller-scope structure tag by its plain name when the `structure_size` bytes the codec makes
    of the value are too many for the single-request path: Write Tag Fragmented, one frame per segment -/
theorem ldw3_write_structTag_frag (cfg : Cfg) (w : Cli.World Ext) (sess : Nat) (cidb : Bytes) (conn : Conn)
    (st : LState) (s : Symbol) (tid : Nat) (tm : Template) (info : TagInfo) (si : StructInfo) (ty : Ty)
    (v : PyVal) (bytes : Bytes)
    (hw : ldr_Healthy w sess cidb conn) (hlogix : w.net.target.ext.logix = some st)
    (hs : s ∈ st.proj.controller)
    (hbytes : ∀ s' ∈ st.proj.controller, ∀ ch ∈ s'.name, ch < 256)
    (huniqN : ∀ s' ∈ st.proj.controller, s'.name = s.name → s' = s)
    (huniqI : ∀ s' ∈ st.proj.controller, s'.inst = s.inst → s' = s)
    (hid : PlainIdent s.name) (hinst : s.inst < 2 ^ 32)
    (hty : elTyOfWord s.symbolType = .struct tid) (htm : st.proj.template? tid = some tm)
    (hlen : s.mem.length = tm.size) (hpos : 0 < tm.size) (h32 : tm.size < 2 ^ 32)
    (hget : cfg.tags.get? s.name = some info) (hinfo : ldr3_StructOf info si ty s.inst) (hnd : si.name ≠ nm "DWORD")
    (hh : si.handle = tm.handle)
    (hnb : ∀ b, v ≠ .bytes b) (hna : ∀ n t', ty ≠ .arr (.fixed n) t')
    (henc : encode ty v = .ok bytes) (hbl : bytes.length = tm.size)
    (hfrag : ∀ path, requestPathOf cfg s.name info = .ok path →
      path.length + 14 ≤ w.drv.connectionSize ∧ w.drv.connectionSize < 2 * tm.size + path.length + 9)
    (hCT : w.drv.connectionSize ≤ conn.size) (hC16 : w.drv.connectionSize ≤ 65400) :
    ∃ (w' : Cli.World Ext) (fs : List Bytes) (ls : Option Nat) (path : Bytes),
      requestPathOf cfg s.name info = .ok path ∧ path.length ≤ s.name.length + 13 ∧
      write hookAll cfg w [(s.name, v)] =
        (w', .ok [{ tag := s.name, value := v, type := some si.name, error := none }]) ∧
      w'.drv = { w.drv with seqVal := w'.drv.seqVal } ∧ w'.net.sent = w.net.sent ++ fs ∧
      fs.length = (K.writeFragments (ldw3_segSize w.drv.connectionSize path) bytes).length ∧
      w'.net.target.ext =
        { w.net.target.ext with
          logix := some { st with
            proj := ldw2_projFrag st.proj s 0 bytes (K.writeFragments (ldw3_segSize w.drv.connectionSize path) bytes) } } ∧
      ldr_Healthy w' sess cidb { conn with lastSeq := ls } := by
  have hnd' : isDword info = false := by simp [isDword, hinfo.kind]
  have hmem : s.mem ≠ [] := by
    intro h; rw [h, List.length_nil] at hlen; omega
  have hparse := ldr_parse_plain cfg.tags true 0 s.name info hid hget hnd'
  obtain ⟨path, hpath, hpl, hden⟩ := ldr_requestPath cfg s.name info s.inst hid hinfo.instanceId hinst
  obtain ⟨hC1, hfr⟩ := hfrag path hpath
  have hpt : packedTypeOf info = [0xA0, 0x02] ++ le 2 tm.handle := by
    rw [ldw3_packedType_struct info si hinfo.struct, hh]
  have hptl : (packedTypeOf info).length = 4 := by rw [hpt]; simp [le_length]
  have hencv := ldw3_encodeValue
    ({ requestId := 0, requestTag := s.name, userTag := s.name, plcTag := s.name, bit := none, elements := 1,
       info := some info, boolElements := none, value := v } : Drv.Parsed) info ty bytes hnb
    (by rw [hinfo.typeName]; exact hnd) hinfo.ty hna henc
  have hr := ldr3_resolve_struct st.proj s tid tm cfg.useInstanceIds hid hs hbytes huniqN huniqI hty htm hmem
  have hav := ldr_dimsProduct_pos s.dims
  have hel : st.proj.elSize (ldr3_locStruct s tid).ty = some tm.size := by simp [ldr3_locStruct, Project.elSize, htm]
  have htb : packedTypeOf info = typeBytes st.proj (ldr3_locStruct s tid).ty := by
    rw [hpt]; exact (ldw3_typeBytes_struct st.proj tid tm htm).symm
  obtain ⟨w', fs, ls, hwr, h2, h3, h4, h5, h6⟩ := ldw3_write_single_frag cfg w sess cidb conn st s.name v _ _
    info path _ (ldr3_locStruct s tid) s tm.size 1 bytes hw hlogix hparse rfl rfl rfl hencv rfl rfl rfl hpath hden hr
    (by intro b; simp [ldr3_locStruct]) rfl rfl htb ⟨Nat.le_refl 1, hav, by omega⟩ hs huniqI hel hpos (by omega)
    (by simp only [ldr3_locStruct]; omega) (by omega) (by omega) (by omega) hCT hC16
  have hsg : w.drv.connectionSize - (path.length + (packedTypeOf info).length + 9) = ldw3_segSize w.drv.connectionSize path := by
    unfold ldw3_segSize; omega
  rw [hsg] at h4 h5
  refine ⟨w', fs, ls, path, hpath, hpl, ?_, h2, h3, h4, h5, h6⟩
  rw [hwr]
  have hresult := ldw_writeResult
    ({ requestId := 0, requestTag := s.name, userTag := s.name, plcTag := s.name, bit := none, elements := 1,
       info := some info, boolElements := none, value := v } : Drv.Parsed) info
    { tag := s.name, value := .bytes bytes, type := some info.core.dataTypeName, error := none }
    rfl rfl rfl rfl rfl rfl
  dsimp only at hresult ⊢
  rw [hresult, hinfo.typeName]

end Pycomm.Lgx.Drv
