/-
  The encapsulation status of the packet that carries a Multiple Service Packet reply (logix_driver.py `_send_requests`,
  multi branch): when it is not 0 (SUCCESS), EVERY embedded reply that was paired with a request becomes a falsy Tag
  carrying the packet's error — whatever the embedded replies say (each of them is parsed on its own behind 46 zero
  bytes, so on its own it would look like a success).

    helpers (`lme_`): `Results.get?` after `Results.set`, what `multiFailAll` stores, `multiPacketError` of a response
    whose encapsulation status is not 0, the two multi branches of `sendRequest` under that hypothesis;
    property theorems: `multi_packet_error_fails_all_read`, `multi_packet_error_fails_all_write`,
    `multi_packet_error_never_success`; non-vacuity on concrete reply bytes (namespace `LmeEx`).
-/
import PycommProofs.LDShape
import PycommProofs.LogixDriverRead2
namespace Pycomm.Lgx.Drv
open Pycomm Pycomm.Tgt Pycomm.Path Pycomm.Reply Pycomm.Encap Pycomm.Lgx Pycomm.Lgx.E2E

/-! ### the results table: `get?` after `set` -/

theorem lme_find_map_self (k : Int) (t : LTag) : ∀ (rs : Results), rs.any (fun x => x.1 == k) = true →
    (rs.map (fun x => if x.1 == k then (k, t) else x)).find? (fun x => x.1 == k) = some (k, t) := by
  intro rs
  induction rs with
  | nil => intro h; cases h
  | cons x rest ih =>
    intro h
    rw [List.any_cons, Bool.or_eq_true] at h
    rw [List.map_cons, List.find?_cons]
    by_cases hx : (x.1 == k) = true
    · rw [if_pos hx]
      have : ((k, t).1 == k) = true := beq_self_eq_true k
      rw [this]
    · rw [if_neg hx]
      have hx' : (x.1 == k) = false := by simpa using hx
      rw [hx']
      rcases h with h | h
      · exact absurd h hx
      · exact ih h

theorem lme_find_map_ne (k k' : Int) (t : LTag) (hne : k' ≠ k) : ∀ (rs : Results),
    (rs.map (fun x => if x.1 == k then (k, t) else x)).find? (fun x => x.1 == k') = rs.find? (fun x => x.1 == k') := by
  intro rs
  induction rs with
  | nil => rfl
  | cons x rest ih =>
    rw [List.map_cons, List.find?_cons, List.find?_cons]
    by_cases hx : (x.1 == k) = true
    · rw [if_pos hx]
      have hxk : x.1 = k := by simpa using hx
      have h1 : ((k, t).1 == k') = false := by
        simp only [beq_eq_false_iff_ne, ne_eq]; exact fun h => hne h.symm
      have h2 : (x.1 == k') = false := by
        rw [hxk]; simp only [beq_eq_false_iff_ne, ne_eq]; exact fun h => hne h.symm
      rw [h1, h2]
      exact ih
    · rw [if_neg hx]
      cases x.1 == k' with
      | true => rfl
      | false => exact ih

/-- `results[k] = t; results[k]` -/
theorem lme_get_set_self (rs : Results) (k : Int) (t : LTag) : (rs.set k t).get? k = some t := by
  unfold Results.get? Results.set
  cases h : rs.any (fun x => x.1 == k) with
  | true =>
    rw [if_pos rfl, lme_find_map_self k t rs h]
    rfl
  | false =>
    rw [if_neg (by simp), List.find?_append]
    have hn : rs.find? (fun x => x.1 == k) = none := by
      rw [List.find?_eq_none]
      intro x hx
      have := List.any_eq_false.1 h x hx
      simpa using this
    rw [hn]
    simp

/-- `results[k] = t` leaves the other keys alone -/
theorem lme_get_set_ne (rs : Results) (k k' : Int) (t : LTag) (hne : k' ≠ k) : (rs.set k t).get? k' = rs.get? k' := by
  unfold Results.get? Results.set
  cases h : rs.any (fun x => x.1 == k) with
  | true => rw [if_pos rfl, lme_find_map_ne k k' t hne rs]
  | false =>
    rw [if_neg (by simp), List.find?_append]
    have h1 : ([(k, t)] : Results).find? (fun x => x.1 == k') = none := by
      rw [List.find?_eq_none]
      intro x hx
      simp only [List.mem_singleton] at hx
      subst hx
      simp only [beq_iff_eq]
      exact fun h => hne h.symm
    rw [h1]
    simp

/-! ### what `multiFailAll` stores -/

/-- a key that is not among the failed ones keeps its entry (or stays absent) -/
theorem lme_multiFailAll_get_notin (err : TagErr) (k : Int) : ∀ (l : List (Int × Name)) (rs : Results),
    k ∉ l.map (·.1) → (multiFailAll rs err l).get? k = rs.get? k := by
  intro l
  induction l with
  | nil => intro rs _; rfl
  | cons x rest ih =>
    intro rs hk
    obtain ⟨rid, tag⟩ := x
    rw [List.map_cons, List.mem_cons, not_or] at hk
    rw [multiFailAll, ih _ hk.2, lme_get_set_ne _ _ _ _ hk.1]

/-- a failed key holds a Tag without value and type that carries the error, named by one of the pairs with that key -/
theorem lme_multiFailAll_get_in (err : TagErr) (k : Int) : ∀ (l : List (Int × Name)) (rs : Results),
    k ∈ l.map (·.1) →
    ∃ t, (multiFailAll rs err l).get? k = some t ∧ t.value = .none ∧ t.type = none ∧ t.error = some err ∧
      (k, t.tag) ∈ l := by
  intro l
  induction l with
  | nil => intro rs hk; cases hk
  | cons x rest ih =>
    intro rs hk
    obtain ⟨rid, tag⟩ := x
    rw [multiFailAll]
    by_cases hin : k ∈ rest.map (·.1)
    · obtain ⟨t, h1, h2, h3, h4, h5⟩ := ih _ hin
      exact ⟨t, h1, h2, h3, h4, List.mem_cons_of_mem _ h5⟩
    · rw [List.map_cons, List.mem_cons] at hk
      have hk' : k = rid := hk.resolve_right hin
      subst hk'
      rw [lme_multiFailAll_get_notin err k rest _ hin, lme_get_set_self]
      exact ⟨_, rfl, rfl, rfl, rfl, List.mem_cons_self⟩

/-- every entry of the table afterwards is an old one or a failed one -/
theorem lme_multiFailAll_mem (err : TagErr) : ∀ (l : List (Int × Name)) (rs : Results),
    ∀ kt ∈ multiFailAll rs err l,
      kt ∈ rs ∨ (kt.2.value = .none ∧ kt.2.type = none ∧ kt.2.error = some err ∧ (kt.1, kt.2.tag) ∈ l) := by
  intro l
  induction l with
  | nil => intro rs kt hkt; exact .inl hkt
  | cons x rest ih =>
    intro rs kt hkt
    obtain ⟨rid, tag⟩ := x
    rw [multiFailAll] at hkt
    rcases ih _ kt hkt with h1 | ⟨h2, h3, h4, h5⟩
    · rcases lds_set_mem _ _ _ _ h1 with h1 | rfl
      · exact .inl h1
      · exact .inr ⟨rfl, rfl, rfl, List.mem_cons_self⟩
    · exact .inr ⟨h2, h3, h4, List.mem_cons_of_mem _ h5⟩

theorem lme_nodup_inj {α β} (f : α → β) : ∀ (l : List α), (l.map f).Nodup →
    ∀ a ∈ l, ∀ b ∈ l, f a = f b → a = b := by
  intro l
  induction l with
  | nil => intro _ a ha; cases ha
  | cons x rest ih =>
    intro hnd a ha b hb hab
    rw [List.map_cons, List.nodup_cons] at hnd
    rcases List.mem_cons.1 ha with ha1 | ha1
    · rcases List.mem_cons.1 hb with hb1 | hb1
      · rw [ha1, hb1]
      · rw [ha1] at hab
        exact absurd (List.mem_map.2 ⟨b, hb1, hab.symm⟩) hnd.1
    · rcases List.mem_cons.1 hb with hb1 | hb1
      · rw [hb1] at hab
        exact absurd (List.mem_map.2 ⟨a, ha1, hab⟩) hnd.1
      · exact ih hnd.2 a ha1 b hb1 hab

/-- a falsy Tag: no value, or an error -/
theorem lme_falsy (t : LTag) (h : t.value = .none) : t.truthy = false := by
  unfold LTag.truthy
  rw [h]
  rfl

/-! ### `multiPacketError` of a response whose encapsulation status is not 0 -/

/-- a response whose encapsulation status is not 0 is not valid -/
theorem lme_invalid (raw : Option Bytes) (hcs : (tagResp raw).p.commandStatus ≠ some 0) : (tagResp raw).valid = false := by
  have hb : ((tagResp raw).p.commandStatus == some 0) = false := by
    simp only [beq_eq_false_iff_ne, ne_eq]; exact hcs
  show validCip .connected (tagResp raw).p = false
  unfold validCip validBase
  rw [hb]
  simp only [Bool.and_false, Bool.false_and]

/-- `response.error` of an invalid response is never `None` -/
theorem lme_error_ne_none (raw : Option Bytes) (hv : (tagResp raw).valid = false) : (tagResp raw).error ≠ .ok none := by
  unfold Resp.error errorCip
  rw [hv]
  simp only [Bool.false_eq_true, if_false]
  split
  · intro h; cases h
  · split
    · intro h; cases h
    · split
      · cases extendedText _ _ _ <;> intro h <;> cases h
      · split
        · cases extendedText _ _ _ <;> intro h <;> cases h
        · intro h; cases h

/-- with an encapsulation status other than 0 the multi branch has an error for the embedded replies, or
    `response.error` raises: the packet's own `response.error` when there are embedded replies -/
theorem lme_multiPacketError_cases (raw : Option Bytes) (hcs : (tagResp raw).p.commandStatus ≠ some 0) :
    (∃ e, multiPacketError (tagResp raw) = .error e ∧ (tagResp raw).error = .error e) ∨
    (∃ err, multiPacketError (tagResp raw) = .ok (some err) ∧
      (embeddedReplies (tagResp raw).p.data ≠ [] → (tagResp raw).error = .ok (some err))) := by
  unfold multiPacketError
  rw [if_neg hcs]
  by_cases hemp : (embeddedReplies (tagResp raw).p.data).isEmpty = true
  · rw [if_pos hemp]
    refine .inr ⟨_, rfl, ?_⟩
    intro hne
    exact absurd (List.isEmpty_iff.1 hemp) hne
  · rw [if_neg hemp]
    cases he : (tagResp raw).error with
    | error e => exact .inl ⟨e, rfl, rfl⟩
    | ok o =>
      cases o with
      | none => exact absurd he (lme_error_ne_none raw (lme_invalid raw hcs))
      | some err => exact .inr ⟨err, rfl, fun _ => rfl⟩

/-! ### the multi branches of `sendRequest` under that hypothesis -/

theorem lme_sendRequest_multiRead {σ} (hook : ObjHook σ) (w w1 w' : Cli.World σ) (rs rs' : Results) (seq : Nat)
    (reqs : List ReadReq) (raw : Option Bytes)
    (hsend : sendUnit hook w seq (Cl.multiMsg (reqs.map fun q => Cl.readMsg q.path q.elements)) = (w1, .ok raw))
    (hcs : (tagResp raw).p.commandStatus ≠ some 0)
    (h : sendRequest hook w rs (.multiRead seq reqs) = (w', .ok rs')) :
    w' = w1 ∧ ∃ err, multiPacketError (tagResp raw) = .ok (some err) ∧
      (embeddedReplies (tagResp raw).p.data ≠ [] → (tagResp raw).error = .ok (some err)) ∧
      rs' = multiFailAll rs err
        ((reqs.zip (embeddedReplies (tagResp raw).p.data)).map fun q => ((q.1.rid : Int), q.1.tag)) := by
  unfold sendRequest at h
  simp only [hsend] at h
  rcases lme_multiPacketError_cases raw hcs with ⟨e, he, _⟩ | ⟨err, he, herr⟩
  · rw [he] at h
    simp only [Prod.mk.injEq, reduceCtorEq, and_false] at h
  · rw [he] at h
    simp only [Prod.mk.injEq, Except.ok.injEq] at h
    exact ⟨h.1.symm, err, he, herr, h.2.symm⟩

theorem lme_sendRequest_multiWrite {σ} (hook : ObjHook σ) (w w1 w' : Cli.World σ) (rs rs' : Results) (seq : Nat)
    (reqs : List WriteReq) (raw : Option Bytes)
    (hsend : sendUnit hook w seq (Cl.multiMsg (reqs.map fun q => Cl.writeMsg q.path q.typeBytes q.elements q.value)) =
      (w1, .ok raw))
    (hcs : (tagResp raw).p.commandStatus ≠ some 0)
    (h : sendRequest hook w rs (.multiWrite seq reqs) = (w', .ok rs')) :
    w' = w1 ∧ ∃ err, multiPacketError (tagResp raw) = .ok (some err) ∧
      (embeddedReplies (tagResp raw).p.data ≠ [] → (tagResp raw).error = .ok (some err)) ∧
      rs' = multiFailAll rs err
        ((reqs.zip (embeddedReplies (tagResp raw).p.data)).map fun q => ((q.1.rid : Int), q.1.tag)) := by
  unfold sendRequest at h
  simp only [hsend] at h
  rcases lme_multiPacketError_cases raw hcs with ⟨e, he, _⟩ | ⟨err, he, herr⟩
  · rw [he] at h
    simp only [Prod.mk.injEq, reduceCtorEq, and_false] at h
  · rw [he] at h
    simp only [Prod.mk.injEq, Except.ok.injEq] at h
    exact ⟨h.1.symm, err, he, herr, h.2.symm⟩

/-- the table `multiFailAll` leaves, read at the key of a paired request (`rid`/`tag` = the request's id and name) -/
theorem lme_failAll_paired {ρ} (rid : ρ → Nat) (tag : ρ → Name) (rs : Results) (err : TagErr) (reqs : List ρ)
    (emb : List (Option Bytes)) (q : ρ) (hq : q ∈ (reqs.zip emb).map (·.1)) :
    ∃ t, (multiFailAll rs err ((reqs.zip emb).map fun x => ((rid x.1 : Int), tag x.1))).get? (rid q) = some t ∧
      t.truthy = false ∧ t.value = .none ∧ t.type = none ∧ t.error = some err ∧
      ((reqs.map rid).Nodup → t.tag = tag q) := by
  obtain ⟨x, hx, rfl⟩ := List.mem_map.1 hq
  have hin : ((rid x.1 : Nat) : Int) ∈ ((reqs.zip emb).map fun x => ((rid x.1 : Int), tag x.1)).map (·.1) :=
    List.mem_map.2 ⟨((rid x.1 : Int), tag x.1), List.mem_map.2 ⟨x, hx, rfl⟩, rfl⟩
  obtain ⟨t, h1, h2, h3, h4, h5⟩ := lme_multiFailAll_get_in err _ _ rs hin
  refine ⟨t, h1, lme_falsy t h2, h2, h3, h4, ?_⟩
  intro hnd
  obtain ⟨y, hy, hyx⟩ := List.mem_map.1 h5
  simp only [Prod.mk.injEq] at hyx
  have hrid : rid y.1 = rid x.1 := by have := hyx.1; omega
  have : y.1 = x.1 := lme_nodup_inj rid reqs hnd y.1 (List.of_mem_zip hy).1 x.1 (List.of_mem_zip hx).1 hrid
  rw [← hyx.2, this]

/-- … and at every other key -/
theorem lme_failAll_other {ρ} (rid : ρ → Nat) (tag : ρ → Name) (rs : Results) (err : TagErr) (reqs : List ρ)
    (emb : List (Option Bytes)) (k : Int) (hk : ∀ q ∈ (reqs.zip emb).map (·.1), (rid q : Int) ≠ k) :
    (multiFailAll rs err ((reqs.zip emb).map fun x => ((rid x.1 : Int), tag x.1))).get? k = rs.get? k := by
  apply lme_multiFailAll_get_notin
  intro hin
  obtain ⟨y, hy, hyk⟩ := List.mem_map.1 hin
  obtain ⟨x, hx, rfl⟩ := List.mem_map.1 hy
  exact hk x.1 (List.mem_map.2 ⟨x, hx, rfl⟩) hyk

-- PROPERTY THEOREMS

/-- C03/C13, driver level: a Multiple Service Packet of READS whose reply arrives with an encapsulation status other
    than 0 (`hcs`; `raw` is what `send` hands back for the packet, `hsend`), when the iteration of `_send_requests`
    returns (`h`; it raises only when `response.error` itself raises): nothing else is sent (`w' = w1`), there is ONE
    error `err` — `multiPacketError`, which is the packet's own `response.error` as soon as there is an embedded reply —
    and EVERY request that was paired with an embedded reply holds, under its request id, a FALSY Tag without value and
    type that carries `err`, whatever the embedded reply says. Distinct request ids (`parse_ids_distinct`) are needed
    only for the Tag's name (with equal ids the last of them names the Tag). Every other key of the table keeps what
    it held. -/
theorem multi_packet_error_fails_all_read {σ} (hook : ObjHook σ) (w w1 w' : Cli.World σ) (rs rs' : Results) (seq : Nat)
    (reqs : List ReadReq) (raw : Option Bytes)
    (hsend : sendUnit hook w seq (Cl.multiMsg (reqs.map fun q => Cl.readMsg q.path q.elements)) = (w1, .ok raw))
    (hcs : (tagResp raw).p.commandStatus ≠ some 0)
    (h : sendRequest hook w rs (.multiRead seq reqs) = (w', .ok rs')) :
    w' = w1 ∧ ∃ err, multiPacketError (tagResp raw) = .ok (some err) ∧
      (embeddedReplies (tagResp raw).p.data ≠ [] → (tagResp raw).error = .ok (some err)) ∧
      (∀ q ∈ (reqs.zip (embeddedReplies (tagResp raw).p.data)).map (·.1),
        ∃ t, rs'.get? q.rid = some t ∧ t.truthy = false ∧ t.value = .none ∧ t.type = none ∧ t.error = some err ∧
          t.error.isSome = true ∧ ((reqs.map (·.rid)).Nodup → t.tag = q.tag)) ∧
      (∀ k : Int, (∀ q ∈ (reqs.zip (embeddedReplies (tagResp raw).p.data)).map (·.1), (q.rid : Int) ≠ k) →
        rs'.get? k = rs.get? k) := by
  obtain ⟨hw, err, he, herr, hrs⟩ := lme_sendRequest_multiRead hook w w1 w' rs rs' seq reqs raw hsend hcs h
  subst hrs
  refine ⟨hw, err, he, herr, ?_, ?_⟩
  · intro q hq
    obtain ⟨t, h1, h2, h3, h4, h5, h6⟩ := lme_failAll_paired (·.rid) (·.tag) rs err reqs _ q hq
    exact ⟨t, h1, h2, h3, h4, h5, by rw [h5]; rfl, h6⟩
  · intro k hk
    exact lme_failAll_other (·.rid) (·.tag) rs err reqs _ k hk

/-- C03/C13, driver level: the same for a Multiple Service Packet of WRITES — with an encapsulation status other than
    0 every paired write request holds a falsy Tag WITHOUT the caller's value and type, carrying the packet's error. -/
theorem multi_packet_error_fails_all_write {σ} (hook : ObjHook σ) (w w1 w' : Cli.World σ) (rs rs' : Results) (seq : Nat)
    (reqs : List WriteReq) (raw : Option Bytes)
    (hsend : sendUnit hook w seq (Cl.multiMsg (reqs.map fun q => Cl.writeMsg q.path q.typeBytes q.elements q.value)) =
      (w1, .ok raw))
    (hcs : (tagResp raw).p.commandStatus ≠ some 0)
    (h : sendRequest hook w rs (.multiWrite seq reqs) = (w', .ok rs')) :
    w' = w1 ∧ ∃ err, multiPacketError (tagResp raw) = .ok (some err) ∧
      (embeddedReplies (tagResp raw).p.data ≠ [] → (tagResp raw).error = .ok (some err)) ∧
      (∀ q ∈ (reqs.zip (embeddedReplies (tagResp raw).p.data)).map (·.1),
        ∃ t, rs'.get? q.rid = some t ∧ t.truthy = false ∧ t.value = .none ∧ t.type = none ∧ t.error = some err ∧
          t.error.isSome = true ∧ ((reqs.map (·.rid)).Nodup → t.tag = q.tag)) ∧
      (∀ k : Int, (∀ q ∈ (reqs.zip (embeddedReplies (tagResp raw).p.data)).map (·.1), (q.rid : Int) ≠ k) →
        rs'.get? k = rs.get? k) := by
  obtain ⟨hw, err, he, herr, hrs⟩ := lme_sendRequest_multiWrite hook w w1 w' rs rs' seq reqs raw hsend hcs h
  subst hrs
  refine ⟨hw, err, he, herr, ?_, ?_⟩
  · intro q hq
    obtain ⟨t, h1, h2, h3, h4, h5, h6⟩ := lme_failAll_paired (·.rid) (·.tag) rs err reqs _ q hq
    exact ⟨t, h1, h2, h3, h4, h5, by rw [h5]; rfl, h6⟩
  · intro k hk
    exact lme_failAll_other (·.rid) (·.tag) rs err reqs _ k hk

/-- C03/C13, driver level, the corollary: a multi-service request `q` (of reads or of writes; `msg` its message) whose
    reply arrives with an encapsulation status other than 0 NEVER produces a success — every entry of the results
    table after the iteration that was not there before is a falsy Tag without value and type carrying an error. -/
theorem multi_packet_error_never_success {σ} (hook : ObjHook σ) (w w1 w' : Cli.World σ) (rs rs' : Results) (seq : Nat)
    (q : Request) (msg : Bytes) (raw : Option Bytes)
    (hq : (∃ reqs : List ReadReq, q = .multiRead seq reqs ∧
             msg = Cl.multiMsg (reqs.map fun r => Cl.readMsg r.path r.elements)) ∨
          (∃ reqs : List WriteReq, q = .multiWrite seq reqs ∧
             msg = Cl.multiMsg (reqs.map fun r => Cl.writeMsg r.path r.typeBytes r.elements r.value)))
    (hsend : sendUnit hook w seq msg = (w1, .ok raw))
    (hcs : (tagResp raw).p.commandStatus ≠ some 0)
    (h : sendRequest hook w rs q = (w', .ok rs')) :
    ∀ kt ∈ rs', kt ∉ rs →
      kt.2.truthy = false ∧ kt.2.value = .none ∧ kt.2.type = none ∧ kt.2.error.isSome = true ∧
      multiPacketError (tagResp raw) = .ok kt.2.error := by
  intro kt hkt hnew
  have key : ∀ (err : TagErr) (l : List (Int × Name)), multiPacketError (tagResp raw) = .ok (some err) →
      rs' = multiFailAll rs err l →
      kt.2.truthy = false ∧ kt.2.value = .none ∧ kt.2.type = none ∧ kt.2.error.isSome = true ∧
      multiPacketError (tagResp raw) = .ok kt.2.error := by
    intro err l he hrs
    rw [hrs] at hkt
    rcases lme_multiFailAll_mem err l rs kt hkt with h1 | ⟨h2, h3, h4, _⟩
    · exact absurd h1 hnew
    · exact ⟨lme_falsy _ h2, h2, h3, by rw [h4]; rfl, by rw [h4]; exact he⟩
  rcases hq with ⟨reqs, rfl, rfl⟩ | ⟨reqs, rfl, rfl⟩
  · obtain ⟨_, err, he, _, hrs⟩ := lme_sendRequest_multiRead hook w w1 w' rs rs' seq reqs raw hsend hcs h
    exact key err _ he hrs
  · obtain ⟨_, err, he, _, hrs⟩ := lme_sendRequest_multiWrite hook w w1 w' rs rs' seq reqs raw hsend hcs h
    exact key err _ he hrs

/-! ### non-vacuity: a concrete reply frame with encapsulation status 0x65 around a well-formed Multiple Service Packet
    reply with two SUCCESSFUL embedded Read Tag replies (DINT 42, DINT 7) — and the same body with status 0 -/

namespace LmeEx

def infoDint : TagInfo :=
  .mk { tagType := .atomic, dataTypeName := Drv.nm "DINT", ty := .int .dint, dim := 0, dimensions := [0, 0, 0],
        instanceId := some 7 } .nil
def qa : ReadReq := { seq := 1, tag := Drv.nm "abc", elements := 1, info := infoDint, rid := 0, path := [0x91, 3, 97, 98, 99, 0] }
def qb : ReadReq := { seq := 2, tag := Drv.nm "xyz", elements := 1, info := infoDint, rid := 1, path := [0x91, 3, 120, 121, 122, 0] }

/-- the message-router reply: service 0x8A, status 0, two embedded replies `CC 00 00 00 C4 00 <value>` -/
def body : Bytes :=
  encMRReply 0x0A { status := 0, data := K.packMulti [encMRReply 0x4C { status := 0, data := le 2 0xC4 ++ le 4 42 },
                                                     encMRReply 0x4C { status := 0, data := le 2 0xC4 ++ le 4 7 }] }

/-- the SendUnitData reply frame around it, with the given encapsulation status -/
def rawWith (status : Nat) : Option Bytes :=
  some (frame CMD_SEND_UNIT 4097 status [95, 112, 121, 99, 111, 109, 109, 95] (cpfReplyConnected 1 5 body))

def paired (raw : Option Bytes) : List (ReadReq × Option Bytes) := [qa, qb].zip (embeddedReplies (tagResp raw).p.data)

def isFailed (t : Option LTag) (tag : String) : Bool :=
  match t with
  | some t => t.tag == Drv.nm tag && !t.truthy && t.error.isSome && t.type.isNone &&
      (match t.value with | .none => true | _ => false)
  | none => false

def isDint (t : Option LTag) (tag : String) (v : Int) : Bool :=
  match t with
  | some t => t.tag == Drv.nm tag && t.truthy && t.error.isNone && t.type == some (Drv.nm "DINT") &&
      (match t.value with | .int x => x == v | _ => false)
  | none => false

-- status 0x65: the response object sees the status, both embedded replies are there (and each is valid on its own)
#guard (tagResp (rawWith 0x65)).p.commandStatus == some 0x65
#guard (paired (rawWith 0x65)).length == 2
#guard (paired (rawWith 0x65)).all fun x => (readResp x.1 x.2).1.valid
-- … `multiPacketError` is an error, the Tags `multiFailAll` records are falsy
#guard (match multiPacketError (tagResp (rawWith 0x65)) with
        | .ok (some err) =>
            let rs' := multiFailAll [] err ((paired (rawWith 0x65)).map fun q => ((q.1.rid : Int), q.1.tag))
            rs'.length == 2 && isFailed (rs'.get? 0) "abc" && isFailed (rs'.get? 1) "xyz" &&
              rs'.all (fun kt => !kt.2.truthy)
        | _ => false)
-- the same body with status 0: no packet error, `multiReadResults` records the two values
#guard (tagResp (rawWith 0)).p.commandStatus == some 0
#guard (match multiPacketError (tagResp (rawWith 0)) with | .ok none => true | _ => false)
#guard (match multiReadResults [] (paired (rawWith 0)) with
        | .ok rs' => rs'.length == 2 && isDint (rs'.get? 0) "abc" 42 && isDint (rs'.get? 1) "xyz" 7
        | .error _ => false)
-- were the status not looked at, the 0x65 reply would have produced the two truthy Tags as well
#guard (match multiReadResults [] (paired (rawWith 0x65)) with
        | .ok rs' => isDint (rs'.get? 0) "abc" 42 && isDint (rs'.get? 1) "xyz" 7
        | .error _ => false)

/-- the hypotheses of `multi_packet_error_fails_all_read` together, through `send` itself: the connected world of
    `LogixDriverRead2` with the 0x65 frame waiting in the socket (a stale reply is what `_receive` returns first) -/
def world65 : Cli.World Ext := { Ex.world2 with net := { Ex.world2.net with pending := [rawWith 0x65] } }

#guard (match sendUnit hookAll world65 5 (Cl.multiMsg ([qa, qb].map fun q => Cl.readMsg q.path q.elements)) with
        | (_, .ok raw) => raw == rawWith 0x65
        | _ => false)
#guard (match sendRequest hookAll world65 [] (.multiRead 5 [qa, qb]) with
        | (_, .ok rs') => rs'.length == 2 && isFailed (rs'.get? 0) "abc" && isFailed (rs'.get? 1) "xyz"
        | _ => false)
#guard (match sendRequest hookAll world65 [] (.multiWrite 5
          [{ seq := 1, tag := Drv.nm "abc", elements := 1, info := infoDint, rid := 0, path := qa.path,
             typeBytes := le 2 0xC4, value := le 4 5 },
           { seq := 2, tag := Drv.nm "xyz", elements := 1, info := infoDint, rid := 1, path := qb.path,
             typeBytes := le 2 0xC4, value := le 4 6 }]) with
        | (_, .ok rs') => rs'.length == 2 && isFailed (rs'.get? 0) "abc" && isFailed (rs'.get? 1) "xyz"
        | _ => false)

/-- the kernel-checked form of the first facts (small concrete data) -/
example : (tagResp (rawWith 0x65)).p.commandStatus ≠ some 0 := by decide
example : (tagResp (rawWith 0)).p.commandStatus = some 0 := ldr_tagResp_commandStatus _ _ _ _

end LmeEx

end Pycomm.Lgx.Drv
