/-
  Helper lemmas for C13 (ReplyProofs): slices, the DINT/UDINT decoders, the service byte, the shape of
  `parseCip` in the two cases "status words present and well-formed" / "anything else".
-/
import PycommModel.Reply
namespace Pycomm.RP
open Pycomm Pycomm.Reply Pycomm.Status

/-! ### slices -/

theorem slice_length (raw : Bytes) (a b : Nat) : (slice raw a b).length = min b raw.length - a := by
  simp [slice]

theorem slice_one (raw : Bytes) (a : Nat) :
    slice raw a (a + 1) = if h : a < raw.length then [raw[a]] else [] := by
  unfold slice
  rw [List.drop_take]
  split
  next h =>
    rw [List.drop_eq_getElem_cons h]
    have : a + 1 - a = 1 := by omega
    rw [this]; rfl
  next h =>
    rw [List.drop_of_length_le (by omega)]
    simp

theorem getD_toNat (raw : Bytes) (i : Nat) (h : i < raw.length) : (raw.getD i 0).toNat = raw[i].toNat := by
  simp [List.getD_eq_getElem?_getD, List.getElem?_eq_getElem h]

/-! ### integers -/

theorem leVal_lt (bs : Bytes) : leVal bs < 256 ^ bs.length := by
  induction bs with
  | nil => simp [leVal]
  | cons b bs ih =>
    simp only [leVal, List.length_cons, Nat.pow_succ]
    have := b.toNat_lt
    omega

theorem toSigned4_eq_zero (n : Nat) (h : n < 2 ^ 32) : toSigned 4 n = 0 ↔ n = 0 := by
  unfold toSigned
  split <;> omega

theorem intK_size_pos (k : IntK) : 0 < k.size := by cases k <;> simp [IntK.size]

theorem decodeIntNat_ok (k : IntK) (bs : Bytes) (h : k.size ≤ bs.length) :
    decodeIntNat k bs = .ok (leVal (bs.take k.size), bs.drop k.size) := by
  have hp := intK_size_pos k
  unfold decodeIntNat streamRead
  have h1 : ¬ ((k.size : Int) < 0) := by omega
  have h2 : (bs.take k.size).isEmpty = false := by
    cases bs with
    | nil => simp at h; omega
    | cons b bs => cases hk : k.size with
      | zero => omega
      | succ n => simp
  simp [h1, h2, bind, Except.bind]
  omega

theorem decodeIntNat_err (k : IntK) (bs : Bytes) (h : bs.length < k.size) :
    decodeIntNat k bs = .error .bufferEmpty ∨ decodeIntNat k bs = .error .data := by
  unfold decodeIntNat streamRead
  have h1 : ¬ ((k.size : Int) < 0) := by omega
  cases bs with
  | nil => simp [h1, bind, Except.bind]
  | cons b bs =>
    right
    cases hk : k.size with
    | zero => omega
    | succ n =>
      have h3 : ¬ ((n : Int) + 1 < 0) := by omega
      simp [hk] at h
      simp [bind, Except.bind, h3]
      omega

/-- every failure of an integer decoder is BufferEmptyError or DataError -/
theorem decodeIntNat_error_class (k : IntK) (bs : Bytes) (e : Exn) (h : decodeIntNat k bs = .error e) :
    e = .bufferEmpty ∨ e = .data := by
  by_cases hl : k.size ≤ bs.length
  · rw [decodeIntNat_ok k bs hl] at h; cases h
  · rcases decodeIntNat_err k bs (by omega) with h' | h' <;> rw [h'] at h <;> cases h <;> simp

theorem decodeIntVal_dint_ok (bs : Bytes) (h : 4 ≤ bs.length) :
    decodeIntVal .dint bs = .ok (toSigned 4 (leVal (bs.take 4)), bs.drop 4) := by
  unfold decodeIntVal
  rw [decodeIntNat_ok _ _ (by simpa [IntK.size] using h)]
  rfl

theorem decodeIntVal_err (k : IntK) (bs : Bytes) (h : bs.length < k.size) :
    decodeIntVal k bs = .error .bufferEmpty ∨ decodeIntVal k bs = .error .data := by
  unfold decodeIntVal
  rcases decodeIntNat_err k bs h with h | h <;> rw [h] <;> simp [bind, Except.bind]

/-- the encapsulation status of a frame with its 12 first bytes present -/
theorem dint_slice_ok (raw : Bytes) (h : 12 ≤ raw.length) :
    decodeIntVal .dint (slice raw 8 12) = .ok (toSigned 4 (leVal (slice raw 8 12)), []) := by
  have hl : (slice raw 8 12).length = 4 := by rw [slice_length]; omega
  rw [decodeIntVal_dint_ok _ (by omega), List.take_of_length_le (by omega), List.drop_of_length_le (by omega)]

theorem dint_slice_err (raw : Bytes) (h : raw.length < 12) :
    ∃ e, decodeIntVal .dint (slice raw 8 12) = .error e := by
  have hl : (slice raw 8 12).length < IntK.dint.size := by rw [slice_length]; simp [IntK.size]; omega
  rcases decodeIntVal_err _ _ hl with h | h <;> exact ⟨_, h⟩

theorem encStatus_zero_iff (raw : Bytes) (h : 12 ≤ raw.length) :
    toSigned 4 (leVal (slice raw 8 12)) = 0 ↔ leVal (slice raw 8 12) = 0 := by
  apply toSigned4_eq_zero
  have hl : (slice raw 8 12).length = 4 := by rw [slice_length]; omega
  have := leVal_lt (slice raw 8 12)
  rw [hl] at this
  exact this

/-! ### the service byte -/

theorem sfr_cons (x : UInt8) (l : Bytes) : serviceFromReply (x :: l) = serviceFromReply [x] := rfl

theorem sfr_lt (x : UInt8) (h : x.toNat < 128) : serviceFromReply [x] = .error () := by
  simp [serviceFromReply, h]

theorem sfr_ge (x : UInt8) (h : 128 ≤ x.toNat) : ∃ svc, serviceFromReply [x] = .ok svc := by
  unfold serviceFromReply
  have : ¬ x.toNat < 128 := by omega
  simp only [this, if_false]
  split
  · split <;> exact ⟨_, rfl⟩
  · exact ⟨_, rfl⟩

/-! ### the two shapes of `parseCip` -/

theorem off_ge (tr : Transport) : 40 ≤ tr.off := by cases tr <;> simp [Transport.off]

theorem parseCip_good (tr : Transport) (raw : Bytes) (h1 : tr.off + 3 ≤ raw.length)
    (h2 : 128 ≤ (raw.getD tr.off 0).toNat) :
    ∃ svc, serviceFromReply [UInt8.ofNat (raw.getD tr.off 0).toNat] = .ok svc ∧
      parseCip (some raw) tr =
        { err := none, command := some (slice raw 0 2),
          commandStatus := some (toSigned 4 (leVal (slice raw 8 12))),
          service := svc, serviceStatus := some (raw.getD (tr.off + 2) 0).toNat,
          data := some (raw.drop (tr.off + 4)) } := by
  have ho := off_ge tr
  have hA : tr.off < raw.length := by omega
  have hB : tr.off + 2 < raw.length := by omega
  rw [getD_toNat raw _ hA] at h2
  rw [getD_toNat raw _ hA, getD_toNat raw _ hB, UInt8.ofNat_toNat]
  obtain ⟨svc, hs⟩ := sfr_ge _ h2
  refine ⟨svc, hs, ?_⟩
  simp only [parseCip, parseBase, parseService, dint_slice_ok raw (by omega), slice_one,
    hA, hB, dite_true, hs]

theorem parseCip_bad (tr : Transport) (raw : Bytes)
    (h : ¬ (tr.off + 3 ≤ raw.length ∧ 128 ≤ (raw.getD tr.off 0).toNat)) :
    (parseCip (some raw) tr).err = some .parseFailed := by
  simp only [parseCip, parseService, slice_one]
  by_cases hA : tr.off < raw.length
  · rw [getD_toNat raw _ hA] at h
    simp only [hA, dite_true]
    by_cases h2 : 128 ≤ raw[tr.off].toNat
    · obtain ⟨svc, hs⟩ := sfr_ge _ h2
      have hB : ¬ tr.off + 2 < raw.length := by omega
      simp only [hs, hB, dite_false]
    · rw [sfr_lt _ (by omega)]
  · simp only [hA, dite_false, serviceFromReply]

/-! ### status texts, extended status -/

theorem lookupNat_mem {α} (k : Nat) (l : List (Nat × α)) (v : α) (h : lookupNat k l = some v) : (k, v) ∈ l := by
  induction l with
  | nil => simp [lookupNat] at h
  | cons a l ih =>
    obtain ⟨k', v'⟩ := a
    unfold lookupNat at h
    split at h
    · next w hw => cases h; exact List.mem_cons_of_mem _ (ih hw)
    · split at h
      · next hk => cases h; subst hk; exact List.mem_cons_self
      · cases h

theorem serviceStatus_texts_nonempty : ∀ e ∈ Gen.serviceStatus, e.2 ≠ [] := by decide +kernel

theorem unknown_nonempty (a b : Name) : unknownPrefix ++ a ++ b ≠ [] := by
  simp [unknownPrefix]

theorem extendedStatus_error_class (raw : Bytes) (start : Nat) (e : Exn)
    (h : extendedStatus raw start = .error e) : e = .bufferEmpty ∨ e = .data := by
  unfold extendedStatus at h
  dsimp only at h
  split at h
  · cases h; simp
  · split at h
    · cases h; simp
    · split at h
      · next e' he =>
        cases h
        split at he
        · cases he
        · split at he
          · split at he
            · cases he
            · next e2 h2 => cases he; exact decodeIntNat_error_class _ _ _ h2
          · split at he
            · split at he
              · cases he
              · next e2 h2 => cases he; exact decodeIntNat_error_class _ _ _ h2
            · cases he
      · cases h
      · split at h
        · cases h
        · split at h <;> cases h

theorem extendedText_cases (raw : Bytes) (tr : Transport) (status : Int) :
    (∃ t, extendedText raw tr status = .ok t ∧ serviceStatusTextI status <+: t) ∨
    (∃ e, extendedText raw tr status = .error e ∧ (e = .bufferEmpty ∨ e = .data)) := by
  unfold extendedText
  cases h : extendedStatus raw (tr.off + 2) with
  | error e => exact .inr ⟨e, rfl, extendedStatus_error_class _ _ _ h⟩
  | ok o =>
    cases o with
    | none => exact .inl ⟨_, rfl, List.prefix_refl _⟩
    | some ext => exact .inl ⟨_, rfl, ⟨[32, 45, 32] ++ ext, by simp⟩⟩

end Pycomm.RP
