/-
  Refinement of histories of `LogixDriver.read` / `LogixDriver.write`: STABILITY of the per-request hypotheses.
  The hypotheses on a request depend on the controller's project only through the structure definitions, the program
  scopes, the SHAPES of the controller-scope symbols (instance id, name, type word, dimensions, length of the memory)
  and — for the value a read returns — the memory. Writes keep all but the memory (`lgrf_same_applyAll`), so a request
  that satisfies its hypotheses on one project satisfies them, re-based, on every project of the same shape
  (`lgrf_atR_stable`, `lgrf_atW_stable`).
-/
import PycommProofs.LgxRef2
namespace Pycomm.Lgx.Drv
open Pycomm Pycomm.Tgt Pycomm.Path Pycomm.Reply Pycomm.Encap Pycomm.Lgx Pycomm.Lgx.E2E

/-! ### projects of the same shape -/

/-- `p'` has the shape of `p`: the same structure definitions and program scopes, and the controller-scope symbols of
    `p` position by position with possibly other bytes in memories of the same length -/
structure lgrf_Same (p p' : Project) : Prop where
  templates : p'.templates = p.templates
  programs : p'.programs = p.programs
  ctl : ∃ g : Symbol → Symbol, p'.controller = p.controller.map g ∧
    ∀ y ∈ p.controller, g y = { y with mem := (g y).mem } ∧ (g y).mem.length = y.mem.length

theorem lgrf_same_refl (p : Project) : lgrf_Same p p :=
  ⟨rfl, rfl, id, (List.map_id _).symm, fun _ _ => ⟨rfl, rfl⟩⟩

theorem lgrf_same_trans (p1 p2 p3 : Project) (h12 : lgrf_Same p1 p2) (h23 : lgrf_Same p2 p3) : lgrf_Same p1 p3 := by
  obtain ⟨t12, q12, g, hg, hgs⟩ := h12
  obtain ⟨t23, q23, f, hf, hfs⟩ := h23
  refine ⟨t23.trans t12, q23.trans q12, f ∘ g, by rw [hf, hg, List.map_map], ?_⟩
  intro y hy
  have hgy : g y ∈ p2.controller := by rw [hg]; exact List.mem_map_of_mem hy
  obtain ⟨a1, a2⟩ := hgs y hy
  obtain ⟨b1, b2⟩ := hfs (g y) hgy
  refine ⟨?_, b2.trans a2⟩
  show f (g y) = { y with mem := (f (g y)).mem }
  rw [b1, a1]

theorem lgrf_same_template (p p' : Project) (h : lgrf_Same p p') (tid : Nat) : p'.template? tid = p.template? tid := by
  unfold Project.template?; rw [h.templates]

theorem lgrf_same_names (p p' : Project) (h : lgrf_Same p p')
    (hn : ∀ s' ∈ p.controller, ∀ ch ∈ s'.name, ch < 256) : ∀ s' ∈ p'.controller, ∀ ch ∈ s'.name, ch < 256 := by
  obtain ⟨_, _, g, hg, hgs⟩ := h
  intro s' hs'
  rw [hg] at hs'
  obtain ⟨y, hy, rfl⟩ := List.mem_map.1 hs'
  rw [(hgs y hy).1]
  exact hn y hy

/-! ### the addressed symbol in a project of the same shape -/

theorem lgrf_find_uniq (l : List Symbol) (s : Symbol) (hs : s ∈ l) (hu : ∀ y ∈ l, y.inst = s.inst → y = s) :
    l.find? (fun y => y.inst == s.inst) = some s := by
  induction l with
  | nil => cases hs
  | cons a l ih =>
    rw [List.find?_cons]
    by_cases ha : a.inst = s.inst
    · have : a = s := hu a List.mem_cons_self ha
      subst this
      simp
    · have hne : (a.inst == s.inst) = false := by simpa using ha
      rw [hne]
      rcases List.mem_cons.1 hs with e | hs'
      · exact absurd (by rw [e]) ha
      · exact ih hs' (fun y hy => hu y (List.mem_cons_of_mem _ hy))

theorem lgrf_find_map (l : List Symbol) (g : Symbol → Symbol) (i : Nat) (hg : ∀ y ∈ l, (g y).inst = y.inst) :
    (l.map g).find? (fun y => y.inst == i) = (l.find? (fun y => y.inst == i)).map g := by
  induction l with
  | nil => rfl
  | cons a l ih =>
    rw [List.map_cons, List.find?_cons, List.find?_cons, hg a List.mem_cons_self]
    cases a.inst == i with
    | true => rfl
    | false => exact ih (fun y hy => hg y (List.mem_cons_of_mem _ hy))

/-- a symbol of `p` that is the only one with its name and with its instance id -/
structure lgrf_SymOk (p : Project) (s : Symbol) : Prop where
  mem : s ∈ p.controller
  uniqN : ∀ s' ∈ p.controller, s'.name = s.name → s' = s
  uniqI : ∀ s' ∈ p.controller, s'.inst = s.inst → s' = s

/-- … re-based on itself is itself -/
theorem lgrf_symAt_self (p : Project) (s : Symbol) (h : lgrf_SymOk p s) : lgrf_symAt p s = s := by
  unfold lgrf_symAt lgrf_memAt
  rw [lgrf_find_uniq p.controller s h.mem h.uniqI]

/-- … re-based on a project of the same shape is again such a symbol, with a memory of the same length -/
theorem lgrf_symAt_same (p p' : Project) (s : Symbol) (h : lgrf_SymOk p s) (hs : lgrf_Same p p') :
    lgrf_SymOk p' (lgrf_symAt p' s) ∧ (lgrf_memAt p' s).length = s.mem.length := by
  obtain ⟨_, _, g, hg, hgs⟩ := hs
  have hinst : ∀ y ∈ p.controller, (g y).inst = y.inst := by
    intro y hy; rw [(hgs y hy).1]
  have hname : ∀ y ∈ p.controller, (g y).name = y.name := by
    intro y hy; rw [(hgs y hy).1]
  have hmem : lgrf_memAt p' s = (g s).mem := by
    unfold lgrf_memAt
    rw [hg, lgrf_find_map p.controller g s.inst hinst, lgrf_find_uniq p.controller s h.mem h.uniqI]
    rfl
  have hsym : lgrf_symAt p' s = g s := by
    unfold lgrf_symAt
    rw [hmem]
    exact (hgs s h.mem).1.symm
  refine ⟨⟨?_, ?_, ?_⟩, by rw [hmem]; exact (hgs s h.mem).2⟩
  · rw [hsym, hg]; exact List.mem_map_of_mem h.mem
  · intro s' hs' e
    rw [hg] at hs'
    obtain ⟨y, hy, rfl⟩ := List.mem_map.1 hs'
    rw [hname y hy] at e
    have e' : y.name = s.name := e
    rw [hsym, h.uniqN y hy e']
  · intro s' hs' e
    rw [hg] at hs'
    obtain ⟨y, hy, rfl⟩ := List.mem_map.1 hs'
    rw [hinst y hy] at e
    have e' : y.inst = s.inst := e
    rw [hsym, h.uniqI y hy e']

/-! ### the codec reads every memory of an elementary type -/

theorem lgrf_streamRead_take (n : Nat) (bs : Bytes) (hn : 0 < n) (hl : n ≤ bs.length) :
    streamRead (n : Int) bs = .ok (bs.take n, bs.drop n) := by
  have hlen : (bs.take n).length = n := by rw [List.length_take]; exact Nat.min_eq_left hl
  have h := RT.streamRead_append (bs.take n) (bs.drop n) n hlen
    (by intro e; rw [e] at hlen; simp at hlen; omega)
  rwa [List.take_append_drop] at h

theorem lgrf_decodeIntNat_total (k : IntK) (bs : Bytes) (hl : k.size ≤ bs.length) :
    decodeIntNat k bs = .ok (leVal (bs.take k.size), bs.drop k.size) := by
  unfold decodeIntNat
  rw [lgrf_streamRead_take k.size bs (RT.IntK.size_pos k) hl]
  have hlen : (bs.take k.size).length = k.size := by rw [List.length_take]; exact Nat.min_eq_left hl
  have : ¬ (bs.take k.size).length < k.size := by omega
  simp only [bind, Except.bind, this, if_false]

/-- the codec decodes SOME value of an elementary type (other than a bit string) from any bytes that are long enough -/
theorem lgrf_decode_total (c sz : Nat) (t : Ty) (haty : Cl.atomicTy c = some t) (hb : t.isBits = none)
    (hsz : atomicSize c = some sz) (bs : Bytes) (hl : sz ≤ bs.length) : ∃ v r, decode t bs = .ok (v, r) := by
  have hw := (ldw_atomic_width c sz t haty hb hsz).1
  rcases ldr_atomicTy_shape c t haty hb with rfl | ⟨k, rfl⟩ | rfl | rfl
  · have e : sz = 1 := by have : some 1 = some sz := hw; cases this; rfl
    subst e
    have : decode .bool bs = .ok (.bool (bs.take 1 != [0]), bs.drop 1) := by
      unfold decode
      rw [show ((1 : Int)) = ((1 : Nat) : Int) from rfl, lgrf_streamRead_take 1 bs (by omega) hl]
      rfl
    exact ⟨_, _, this⟩
  · have e : sz = k.size := by have : some k.size = some sz := hw; cases this; rfl
    subst e
    have : decode (.int k) bs = .ok (.int (if k.signed then toSigned k.size (leVal (bs.take k.size)) else (leVal (bs.take k.size) : Int)), bs.drop k.size) := by
      unfold decode decodeIntVal
      rw [lgrf_decodeIntNat_total k bs hl]
      rfl
    exact ⟨_, _, this⟩
  · have e : sz = 4 := by have : some 4 = some sz := hw; cases this; rfl
    subst e
    have : decode .real bs = .ok (.float (Flt.widen (leVal (bs.take 4))), bs.drop 4) := by
      unfold decode
      rw [lgrf_decodeIntNat_total .udint bs hl]
      rfl
    exact ⟨_, _, this⟩
  · have e : sz = 8 := by have : some 8 = some sz := hw; cases this; rfl
    subst e
    have : decode .lreal bs = .ok (.float (leVal (bs.take 8)), bs.drop 8) := by
      unfold decode
      rw [lgrf_decodeIntNat_total .ulint bs hl]
      rfl
    exact ⟨_, _, this⟩

end Pycomm.Lgx.Drv
