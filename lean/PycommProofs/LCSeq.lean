/-
  Helper lemmas for C17 at the client level: the sequence count of every connected request the driver sends on
  its connection differs from the one the target saw last on that connection.
-/
import PycommProofs.LCIdle
import PycommProofs.SeqProofs
namespace Pycomm.Cli
open Pycomm.Tgt Pycomm.Encap Pycomm.Path Pycomm.Reply Pycomm.EN

/-! ### events -/

/-- not the duplicate-sequence-count violation -/
def lcs_NotSeq (e : Event) : Prop :=
  ∀ n : Nat, e ≠ .violation s!"sequence count {n} repeated on consecutive connected messages"

theorem lcs_notSeq_encap (c s : Nat) (ok : Bool) : lcs_NotSeq (.encap c s ok) := fun _ h => nomatch h
theorem lcs_notSeq_mr (c u : Bool) (r : MRReq) (rt : Bytes) : lcs_NotSeq (.mr c u r rt) := fun _ h => nomatch h
theorem lcs_notSeq_fc (ok : Bool) : lcs_NotSeq (.fc ok) := fun _ h => nomatch h
theorem lcs_notSeq_fo (l : Bool) (s : Nat) (ok : Bool) : lcs_NotSeq (.fo l s ok) := fun _ h => nomatch h

/-- a violation text whose first character is not `s` -/
theorem lcs_notSeq_head (t : String) (x : Char) (ht : t.toList.head? = some x) (hx : x ≠ 's') :
    lcs_NotSeq (.violation t) := by
  intro n h
  injection h with h
  simp only [String.append_assoc] at h
  exact lci_str_head _ _ t 's' x (by decide) ht (fun e => hx e.symm) h.symm

theorem lcs_notSeq_head2 (a b : String) (x : Char) (ha : a.toList.head? = some x) (hx : x ≠ 's') :
    lcs_NotSeq (.violation (a ++ b)) := by
  apply lcs_notSeq_head _ x _ hx
  rw [String.toList_append]
  cases hl : a.toList with
  | nil => simp [hl] at ha
  | cons p q => rw [hl] at ha; simpa using ha

/-- the log `l'` extends `l` by events that are not the duplicate-sequence-count violation -/
abbrev lcs_Ext (l l' : List Event) : Prop := lci_Ext lcs_NotSeq l l'

/-! ### steps of the target that are not an accepted connected request -/

/-- connections are kept, removed, or new with no sequence count yet; no duplicate-sequence event is logged -/
structure lcs_TStep (b b' : Base) : Prop where
  conns : ∀ c' ∈ b'.conns, c' ∈ b.conns ∨ c'.lastSeq = none
  log : lcs_Ext b.log b'.log

theorem lcs_TStep_refl (b : Base) : lcs_TStep b b := ⟨fun _ h => .inl h, lci_Ext_refl _ _⟩

theorem lcs_TStep_trans {a b c : Base} (h1 : lcs_TStep a b) (h2 : lcs_TStep b c) : lcs_TStep a c := by
  refine ⟨fun x hx => ?_, lci_Ext_trans h1.log h2.log⟩
  rcases h2.conns x hx with h | h
  · exact h1.conns x h
  · exact .inr h

theorem lcs_TStep_event (b : Base) (e : Event) (he : lcs_NotSeq e) : lcs_TStep b (b.event e) :=
  ⟨fun _ h => .inl h, lci_Ext_one _ _ he⟩

/-- the hook logs no duplicate-sequence-count violation of its own -/
def lcs_HookNoSeq {σ} (hook : ObjHook σ) : Prop :=
  ∀ t cs req t' r, hook t cs req = some (t', r) →
    ∀ extra, t'.base.log = extra ++ t.base.log → ∀ e ∈ extra, lcs_NotSeq e

theorem lcs_forwardOpen (b : Base) (s : Nat) (l : Bool) (d : Bytes) : lcs_TStep b (Tgt.forwardOpen b s l d).1 := by
  generalize hbr : Tgt.forwardOpen b s l d = br
  unfold Tgt.forwardOpen at hbr
  split at hbr
  · subst hbr; exact lcs_TStep_event _ _ (lcs_notSeq_head _ 'm' (by decide) (by decide))
  · dsimp only at hbr
    generalize (if l = true then b.policy.largeFoOk else b.policy.stdFoOk) = allowed at hbr
    split at hbr
    · subst hbr; exact lcs_TStep_event _ _ (lcs_notSeq_fo _ _ _)
    · split at hbr
      · subst hbr; exact lcs_TStep_event _ _ (lcs_notSeq_head _ 'f' (by decide) (by decide))
      · split at hbr
        · subst hbr; exact lcs_TStep_event _ _ (lcs_notSeq_fo _ _ _)
        · subst hbr
          refine ⟨?_, lci_Ext_one _ _ (lcs_notSeq_fo _ _ _)⟩
          intro c' hc'
          rcases List.mem_append.1 hc' with h | h
          · exact .inl h
          · simp only [List.mem_singleton] at h
            subst h
            exact .inr rfl

theorem lcs_forwardClose (b : Base) (d : Bytes) : lcs_TStep b (Tgt.forwardClose b d).1 := by
  unfold Tgt.forwardClose
  split
  · exact lcs_TStep_event _ _ (lcs_notSeq_head _ 'm' (by decide) (by decide))
  · dsimp only
    split
    · exact lcs_TStep_event _ _ (lcs_notSeq_head _ 'f' (by decide) (by decide))
    · split
      · exact ⟨fun c hc => .inl (List.mem_filter.1 hc).1, lci_Ext_one _ _ (lcs_notSeq_fc _)⟩
      · exact lcs_TStep_event _ _ (lcs_notSeq_fc _)

theorem lcs_execMR {σ} (hook : ObjHook σ) (hh : lci_HookOk hook) (hn : lcs_HookNoSeq hook) (t : Target σ) (s : Nat)
    (cs : Option Nat) (conn ucs : Bool) (route msg : Bytes) :
    lcs_TStep t.base (execMR hook t s cs conn ucs route msg).1.base := by
  unfold execMR
  split
  · exact lcs_TStep_event _ _ (lcs_notSeq_head _ 'm' (by decide) (by decide))
  · rename_i req hreq
    have h0 : lcs_TStep t.base (t.base.event (.mr conn ucs req route)) := lcs_TStep_event _ _ (lcs_notSeq_mr _ _ _ _)
    dsimp only
    split
    · split
      · exact h0
      · split
        · exact lcs_TStep_trans h0 (lcs_forwardOpen _ _ _ _)
        · split
          · exact lcs_TStep_trans h0 (lcs_forwardClose _ _)
          · exact h0
    · split
      · rename_i b r hb
        obtain ⟨_, e2, e3, _, _⟩ := lci_baseObject _ _ _ _ hb
        refine lcs_TStep_trans h0 ⟨fun c hc => .inl (e2 ▸ hc), ?_⟩
        show lci_Ext lcs_NotSeq _ b.log
        rw [e3]; exact lci_Ext_refl _ _
      · split
        · rename_i t' r ht
          obtain ⟨_, e2, _, _, _, x, hx, _⟩ := hh _ _ _ _ _ ht
          exact lcs_TStep_trans h0 ⟨fun c hc => .inl (e2 ▸ hc), ⟨x, hx, hn _ _ _ _ _ ht x hx⟩⟩
        · exact h0

/-- an accepted connected request with connection id `cid` and sequence count `seq`, found connection `c` -/
structure lcs_UStep (b b' : Base) (cid seq : Nat) (c : Conn) : Prop where
  conns : ∀ c' ∈ b'.conns, c'.lastSeq = none ∨ ∃ c0 ∈ b.conns, c'.cid = c0.cid ∧
    ((c0.cid = cid ∧ c'.lastSeq = some seq) ∨ (c0.cid ≠ cid ∧ c' = c0))
  log : ∃ extra, b'.log = extra ++ b.log ∧ (c.lastSeq ≠ some seq → ∀ e ∈ extra, lcs_NotSeq e)

theorem lcs_UStep_then {b b1 b2 : Base} {cid seq : Nat} {c : Conn} (h1 : lcs_UStep b b1 cid seq c)
    (h2 : lcs_TStep b1 b2) : lcs_UStep b b2 cid seq c := by
  refine ⟨fun x hx => ?_, ?_⟩
  · rcases h2.conns x hx with h | h
    · exact h1.conns x h
    · exact .inl h
  · obtain ⟨e1, l1, q1⟩ := h1.log
    obtain ⟨e2, l2, q2⟩ := h2.log
    refine ⟨e2 ++ e1, by rw [l2, l1]; simp, fun hne e he => ?_⟩
    rcases List.mem_append.1 he with h | h
    · exact q2 e h
    · exact q1 hne e h

theorem lcs_UStep_map (b b2 : Base) (cid seq : Nat) (c : Conn) (hc : b2.conns = b.conns) (extra : List Event)
    (hl : b2.log = extra ++ b.log) (hx : c.lastSeq ≠ some seq → ∀ e ∈ extra, lcs_NotSeq e) :
    lcs_UStep b { b2 with conns := b2.conns.map fun c' => if c'.cid == cid then { c' with lastSeq := some seq } else c' }
      cid seq c := by
  refine ⟨fun x hx' => ?_, ⟨extra, hl, hx⟩⟩
  right
  simp only [List.mem_map] at hx'
  obtain ⟨c0, hc0, rfl⟩ := hx'
  refine ⟨c0, hc ▸ hc0, ?_, ?_⟩
  · split <;> rfl
  · by_cases h : c0.cid = cid
    · exact .inl ⟨h, by simp [h]⟩
    · exact .inr ⟨h, by simp [h]⟩

/-- an accepted connected request -/
theorem lcs_handle_unit {σ} (hook : ObjHook σ) (hh : lci_HookOk hook) (hn : lcs_HookNoSeq hook) (t : Target σ)
    (raw : Bytes) (f : Frame) (cid seq : Nat) (msg : Bytes) (c : Conn)
    (hp : parseFrame raw = some f) (hst : f.status = 0) (hopt : f.options = 0) (hc6 : f.command = CMD_SEND_UNIT)
    (hs : f.session ∈ t.base.sessions) (hcpf : parseCpf f.body = some (.connected cid seq msg))
    (hfind : t.base.conns.find? (fun c => c.cid == cid && c.session == f.session) = some c) :
    lcs_UStep t.base (handle hook t raw).1.base cid seq c := by
  have c1 : ¬ (CMD_SEND_UNIT = CMD_REGISTER) := by decide
  have c2 : ¬ (CMD_SEND_UNIT = CMD_LIST_IDENTITY) := by decide
  have c3 : ¬ (CMD_SEND_UNIT = CMD_UNREGISTER) := by decide
  have c4 : ¬ (CMD_SEND_UNIT = CMD_SEND_RR) := by decide
  have hcon : t.base.sessions.contains f.session = true := by simpa using hs
  unfold handle
  simp only [hp]
  rw [if_neg (by simp [hst, hopt])]
  simp only [hc6, c1, c2, c3, c4, if_false, if_true, hcon, Bool.not_true, Bool.false_eq_true, hcpf, hfind]
  have nsz : ∀ n m : Nat, lcs_NotSeq (.violation s!"connected request of {n} bytes on a {m}-byte connection") := by
    intro n m
    simp only [String.append_assoc]
    exact lcs_notSeq_head2 _ _ 'c' (by decide) (by decide)
  have q7 : ∀ (t1 : Target σ) (n : Nat), lcs_TStep t1.base
      (if n + 2 > c.size then
        { t1 with base := t1.base.event (.violation s!"connected reply of {n + 2} bytes on a {c.size}-byte connection") }
       else t1).base := by
    intro t1 n
    split
    · refine lcs_TStep_event _ _ ?_
      simp only [String.append_assoc]
      exact lcs_notSeq_head2 _ _ 'c' (by decide) (by decide)
    · exact lcs_TStep_refl _
  by_cases hlen : msg.length + 2 > c.size
  · by_cases hseq : (c.lastSeq == some seq) = true
    · simp only [hlen, hseq, if_true]
      exact lcs_UStep_map t.base _ cid seq c rfl [_, _, _] rfl (fun h => absurd (by simpa using hseq) h)
    · simp only [hlen, hseq, if_true]
      refine lcs_UStep_map t.base _ cid seq c rfl [_, _] rfl (fun _ e he => ?_)
      simp only [List.mem_cons, List.not_mem_nil, or_false] at he
      rcases he with rfl | rfl
      · exact nsz _ _
      · exact lcs_notSeq_encap _ _ _
  · by_cases hseq : (c.lastSeq == some seq) = true
    · simp only [hlen, hseq, if_true, if_false]
      refine lcs_UStep_then (lcs_UStep_then (b1 := Target.base ⟨_, t.ext⟩) ?_
        (lcs_execMR hook hh hn ⟨_, t.ext⟩ f.session (some (c.size - 2)) true false [] msg)) (q7 _ _)
      exact lcs_UStep_map t.base _ cid seq c rfl [_, _] rfl (fun h => absurd (by simpa using hseq) h)
    · simp only [hlen, hseq, if_false]
      refine lcs_UStep_then (lcs_UStep_then (b1 := Target.base ⟨_, t.ext⟩) ?_
        (lcs_execMR hook hh hn ⟨_, t.ext⟩ f.session (some (c.size - 2)) true false [] msg)) (q7 _ _)
      refine lcs_UStep_map t.base _ cid seq c rfl [_] rfl (fun _ e he => ?_)
      simp only [List.mem_cons, List.not_mem_nil, or_false] at he
      subst he
      exact lcs_notSeq_encap _ _ _

/-- whatever the target is sent: either a step that touches no sequence count, or an accepted connected request -/
theorem lcs_handle {σ} (hook : ObjHook σ) (hh : lci_HookOk hook) (hn : lcs_HookNoSeq hook) (t : Target σ) (raw : Bytes) :
    lcs_TStep t.base (handle hook t raw).1.base ∨
    ∃ f cid seq msg c, parseFrame raw = some f ∧ f.command = CMD_SEND_UNIT ∧
      parseCpf f.body = some (.connected cid seq msg) ∧
      t.base.conns.find? (fun c => c.cid == cid && c.session == f.session) = some c ∧
      lcs_UStep t.base (handle hook t raw).1.base cid seq c := by
  by_cases hU : ∃ f cid seq msg c, parseFrame raw = some f ∧ f.status = 0 ∧ f.options = 0 ∧
      f.command = CMD_SEND_UNIT ∧ f.session ∈ t.base.sessions ∧ parseCpf f.body = some (.connected cid seq msg) ∧
      t.base.conns.find? (fun c => c.cid == cid && c.session == f.session) = some c
  · obtain ⟨f, cid, seq, msg, c, g1, g2, g3, g4, g5, g6, g7⟩ := hU
    exact .inr ⟨f, cid, seq, msg, c, g1, g4, g6, g7, lcs_handle_unit hook hh hn t raw f cid seq msg c g1 g2 g3 g4 g5 g6 g7⟩
  left
  have ev : ∀ (b : Base) (s : String) (x : Char), s.toList.head? = some x → x ≠ 's' →
      lcs_TStep b (b.event (.violation s)) := fun b s x h1 h2 => lcs_TStep_event _ _ (lcs_notSeq_head s x h1 h2)
  unfold handle
  cases hp : parseFrame raw with
  | none => exact (ev _ _ 'm' (by decide) (by decide))
  | some f =>
    simp only []
    by_cases h1 : f.status ≠ 0 ∨ f.options ≠ 0
    · rw [if_pos h1]; exact (ev _ _ 'n' (by decide) (by decide))
    rw [if_neg h1]
    by_cases h2 : f.command = CMD_REGISTER
    · rw [if_pos h2]
      split
      · exact ev _ _ 'r' (by decide) (by decide)
      · split
        · exact ev _ _ 'r' (by decide) (by decide)
        · split
          · exact lcs_TStep_event _ _ (lcs_notSeq_encap _ _ _)
          · exact ⟨fun _ h => .inl h, lci_Ext_one _ _ (lcs_notSeq_encap _ _ _)⟩
    rw [if_neg h2]
    by_cases h3 : f.command = CMD_LIST_IDENTITY
    · rw [if_pos h3]
      split
      · exact ev _ _ 'l' (by decide) (by decide)
      · exact lcs_TStep_event _ _ (lcs_notSeq_encap _ _ _)
    rw [if_neg h3]
    by_cases h4 : f.command = CMD_UNREGISTER
    · rw [if_pos h4]
      split
      · exact ev _ _ 'u' (by decide) (by decide)
      · split
        · exact ev _ _ 'u' (by decide) (by decide)
        · exact ⟨fun c hc => .inl (List.mem_filter.1 hc).1, lci_Ext_one _ _ (lcs_notSeq_encap _ _ _)⟩
    rw [if_neg h4]
    by_cases h5 : f.command = CMD_SEND_RR
    · rw [if_pos h5]
      split
      · exact ev _ _ 'S' (by decide) (by decide)
      · split
        · split
          · split
            · exact lcs_TStep_trans (lcs_TStep_event _ _ (lcs_notSeq_encap _ _ _)) (ev _ _ 'm' (by decide) (by decide))
            · exact lcs_TStep_trans (lcs_TStep_event _ _ (lcs_notSeq_encap _ _ _))
                (lcs_execMR hook hh hn ⟨_, t.ext⟩ _ _ _ _ _ _)
          · exact lcs_TStep_trans (lcs_TStep_event _ _ (lcs_notSeq_encap _ _ _))
              (lcs_execMR hook hh hn ⟨_, t.ext⟩ _ _ _ _ _ _)
        · exact ev _ _ 'S' (by decide) (by decide)
    rw [if_neg h5]
    by_cases h6 : f.command = CMD_SEND_UNIT
    · rw [if_pos h6]
      split
      · exact (ev _ _ 'S' (by decide) (by decide))
      · split
        · rename_i cid seq msg hcpf
          split
          · exact (ev _ _ 'S' (by decide) (by decide))
          · rename_i c hc
            rename_i hcs _ _
            exact absurd ⟨f, cid, seq, msg, c, hp, (by simpa using h1 : f.status = 0 ∧ f.options = 0).1,
              (by simpa using h1 : f.status = 0 ∧ f.options = 0).2, h6, (by simpa using hcs), hcpf, hc⟩ hU
        · exact (ev _ _ 'S' (by decide) (by decide))
    · rw [if_neg h6]
      exact lcs_TStep_event _ _ (lcs_notSeq_head2 _ _ 'u' (by decide) (by decide))

/-! ### the fault budget -/

/-- send faults that can still strike: index at or after the next send -/
def lcs_live (n : Nat) (f : Fault) : Bool :=
  match f with
  | .sendRaise k => decide (n ≤ k)
  | .sendDrop k => decide (n ≤ k)
  | .recvRaise _ => false

def lcs_rem (F : List Fault) (n : Nat) : Nat := (F.filter (lcs_live n)).length

theorem lcs_rem_le (F : List Fault) (n : Nat) : lcs_rem F n ≤ F.length := List.length_filter_le _ _

theorem lcs_filter_mono {α} (p q : α → Bool) (l : List α) (h : ∀ x, p x = true → q x = true) :
    (l.filter p).length ≤ (l.filter q).length := by
  induction l with
  | nil => simp
  | cons a l ih =>
    simp only [List.filter_cons]
    by_cases hp : p a = true
    · simp only [hp, h a hp, if_true, List.length_cons]; omega
    · by_cases hq : q a = true
      · simp only [hp, hq, if_true, List.length_cons, Bool.false_eq_true, if_false]; omega
      · simp only [hp, hq, Bool.false_eq_true, if_false]; exact ih

theorem lcs_filter_strict {α} (p q : α → Bool) (l : List α) (h : ∀ x, p x = true → q x = true) (x : α) (hx : x ∈ l)
    (hq : q x = true) (hp : p x = false) : (l.filter p).length + 1 ≤ (l.filter q).length := by
  induction l with
  | nil => cases hx
  | cons a l ih =>
    simp only [List.filter_cons]
    rcases List.mem_cons.1 hx with rfl | hx'
    · simp only [hp, hq, if_true, List.length_cons, Bool.false_eq_true, if_false]
      have := lcs_filter_mono p q l h
      omega
    · have := ih hx'
      by_cases hpa : p a = true
      · simp only [hpa, h a hpa, if_true, List.length_cons]; omega
      · by_cases hqa : q a = true
        · simp only [hpa, hqa, if_true, List.length_cons, Bool.false_eq_true, if_false]; omega
        · simp only [hpa, hqa, Bool.false_eq_true, if_false]; exact this

theorem lcs_live_mono (n n' : Nat) (h : n ≤ n') (f : Fault) (hf : lcs_live n' f = true) : lcs_live n f = true := by
  cases f <;> simp only [lcs_live, decide_eq_true_eq] at hf ⊢ <;> first | omega | cases hf

theorem lcs_rem_mono (F : List Fault) (n n' : Nat) (h : n ≤ n') : lcs_rem F n' ≤ lcs_rem F n :=
  lcs_filter_mono _ _ F (lcs_live_mono n n' h)

theorem lcs_rem_consume (F : List Fault) (n : Nat)
    (h : F.contains (.sendRaise n) = true ∨ F.contains (.sendDrop n) = true) :
    lcs_rem F (n + 1) + 1 ≤ lcs_rem F n := by
  rcases h with h | h
  · exact lcs_filter_strict _ _ F (lcs_live_mono n (n + 1) (by omega)) (.sendRaise n) (by simpa using h)
      (by simp [lcs_live]) (by simp [lcs_live])
  · exact lcs_filter_strict _ _ F (lcs_live_mono n (n + 1) (by omega)) (.sendDrop n) (by simpa using h)
      (by simp [lcs_live]) (by simp [lcs_live])

/-- one `send`, with the bookkeeping of the transport -/
theorem lcs_sendReq {σ} (hook : ObjHook σ) (w : World σ) (r : Req) (nr : Bool)
    (res : World σ × Except Exn (Option Bytes)) (hres : sendReq hook w r nr = res) :
    res.1.drv = w.drv ∧ res.1.net.faults = w.net.faults ∧ w.net.nSend ≤ res.1.net.nSend ∧
    ((res.1.net.target = w.net.target ∧
        ((∃ e, buildRequest r w.drv.ctx = .error e) ∨ w.drv.hasSock = false ∨
          lcs_rem w.net.faults res.1.net.nSend + 1 ≤ lcs_rem w.net.faults w.net.nSend)) ∨
     ∃ frame, buildRequest r w.drv.ctx = .ok frame ∧ w.drv.hasSock = true ∧
       res.1.net.target = (handle hook w.net.target frame).1) := by
  unfold sendReq at hres
  cases hb : buildRequest r w.drv.ctx with
  | error e =>
    simp only [hb] at hres
    subst hres
    exact ⟨rfl, rfl, Nat.le_refl _, .inl ⟨rfl, .inl ⟨e, rfl⟩⟩⟩
  | ok frame =>
    simp only [hb] at hres
    by_cases hsock : w.drv.hasSock = false
    · simp only [hsock, Bool.not_false, if_true] at hres
      subst hres
      exact ⟨rfl, rfl, Nat.le_refl _, .inl ⟨rfl, .inr (.inl hsock)⟩⟩
    have hsock : w.drv.hasSock = true := by simpa using hsock
    simp only [hsock, Bool.not_true, Bool.false_eq_true, if_false] at hres
    unfold Net.sockSend at hres
    simp only [] at hres
    by_cases h1 : w.net.faults.contains (.sendRaise w.net.nSend) = true
    · simp only [h1, if_true] at hres
      subst hres
      exact ⟨rfl, rfl, Nat.le_succ _, .inl ⟨rfl, .inr (.inr (lcs_rem_consume _ _ (.inl h1)))⟩⟩
    simp only [h1, if_false, Bool.false_eq_true] at hres
    by_cases h2 : w.net.faults.contains (.sendDrop w.net.nSend) = true
    · simp only [h2, if_true] at hres
      cases nr
      · simp only [Bool.false_eq_true, if_false] at hres
        unfold Net.sockReceive at hres
        simp only [] at hres
        by_cases h3 : w.net.faults.contains (.recvRaise w.net.nRecv) = true
        · simp only [h3, if_true] at hres
          subst hres
          exact ⟨rfl, rfl, Nat.le_succ _, .inl ⟨rfl, .inr (.inr (lcs_rem_consume _ _ (.inr h2)))⟩⟩
        · simp only [h3, if_false, Bool.false_eq_true] at hres
          cases hd : dropNones (w.net.pending ++ [none]) with
          | none =>
            simp only [hd] at hres
            subst hres
            exact ⟨rfl, rfl, Nat.le_succ _, .inl ⟨rfl, .inr (.inr (lcs_rem_consume _ _ (.inr h2)))⟩⟩
          | some pr =>
            obtain ⟨r', rest⟩ := pr
            simp only [hd] at hres
            subst hres
            exact ⟨rfl, rfl, Nat.le_succ _, .inl ⟨rfl, .inr (.inr (lcs_rem_consume _ _ (.inr h2)))⟩⟩
      · simp only [if_true] at hres
        subst hres
        exact ⟨rfl, rfl, Nat.le_succ _, .inl ⟨rfl, .inr (.inr (lcs_rem_consume _ _ (.inr h2)))⟩⟩
    · simp only [h2, if_false, Bool.false_eq_true] at hres
      cases nr
      · simp only [Bool.false_eq_true, if_false] at hres
        unfold Net.sockReceive at hres
        simp only [] at hres
        by_cases h3 : w.net.faults.contains (.recvRaise w.net.nRecv) = true
        · simp only [h3, if_true] at hres
          subst hres
          exact ⟨rfl, rfl, Nat.le_succ _, .inr ⟨frame, rfl, hsock, rfl⟩⟩
        · simp only [h3, if_false, Bool.false_eq_true] at hres
          cases hd : dropNones (w.net.pending ++ [(handle hook w.net.target frame).2]) with
          | none =>
            simp only [hd] at hres
            subst hres
            exact ⟨rfl, rfl, Nat.le_succ _, .inr ⟨frame, rfl, hsock, rfl⟩⟩
          | some pr =>
            obtain ⟨r', rest⟩ := pr
            simp only [hd] at hres
            subst hres
            exact ⟨rfl, rfl, Nat.le_succ _, .inr ⟨frame, rfl, hsock, rfl⟩⟩
      · simp only [if_true] at hres
        subst hres
        exact ⟨rfl, rfl, Nat.le_succ _, .inr ⟨frame, rfl, hsock, rfl⟩⟩

/-! ### the invariant -/

/-- `s` was drawn `d` draws ago, `1 ≤ d ≤ D`, when the counter state is `val` -/
def lcs_recent (s val D : Nat) : Prop := ∃ d, 1 ≤ d ∧ d ≤ D ∧ s = 1 + ((val - 1) + 65535 - d) % 65535

/-- how far back the last delivered sequence count can lie: one plus the send faults already consumed -/
def lcs_D {σ} (w : World σ) : Nat := w.net.faults.length + 1 - lcs_rem w.net.faults w.net.nSend

structure lcs_Seq {σ} (w : World σ) : Prop where
  fl : w.net.faults.length < 65534
  val : 1 ≤ w.drv.seqVal ∧ w.drv.seqVal ≤ 65536
  ctx8 : w.drv.context.length = 8
  sess32 : ∀ s, w.drv.session = some s → s < 2 ^ 32
  sockc : w.drv.targetIsConnected = true → w.drv.hasSock = true
  conns : ∀ c ∈ w.net.target.base.conns, ∀ s, c.lastSeq = some s →
    w.drv.targetIsConnected = true ∧ (∃ cidb, w.drv.targetCid = some cidb ∧ c.cid = leVal cidb) ∧
    lcs_recent s w.drv.seqVal (lcs_D w)
  log : ∀ e ∈ w.net.target.base.log, lcs_NotSeq e

theorem lcs_recent_mono {s val D D' : Nat} (h : lcs_recent s val D) (hd : D ≤ D') : lcs_recent s val D' := by
  obtain ⟨d, h1, h2, h3⟩ := h
  exact ⟨d, h1, by omega, h3⟩

/-- a step that sends no connected request -/
structure lcs_Keep {σ} (w w' : World σ) : Prop where
  seq : w'.drv.seqVal = w.drv.seqVal
  ctx : w'.drv.context = w.drv.context
  sock : w'.drv.hasSock = w.drv.hasSock
  faults : w'.net.faults = w.net.faults
  nsend : w.net.nSend ≤ w'.net.nSend
  tgt : lcs_TStep w.net.target.base w'.net.target.base

theorem lcs_Keep_refl {σ} (w : World σ) : lcs_Keep w w := ⟨rfl, rfl, rfl, rfl, Nat.le_refl _, lcs_TStep_refl _⟩

theorem lcs_Keep_trans {σ} {a b c : World σ} (h1 : lcs_Keep a b) (h2 : lcs_Keep b c) : lcs_Keep a c :=
  ⟨h2.seq.trans h1.seq, h2.ctx.trans h1.ctx, h2.sock.trans h1.sock, h2.faults.trans h1.faults,
   Nat.le_trans h1.nsend h2.nsend, lcs_TStep_trans h1.tgt h2.tgt⟩

theorem lcs_D_mono {σ} {w w' : World σ} (k : lcs_Keep w w') : lcs_D w ≤ lcs_D w' := by
  unfold lcs_D
  rw [k.faults]
  have := lcs_rem_mono w.net.faults _ _ k.nsend
  omega

theorem lcs_log_ext {l l' : List Event} (h : lcs_Ext l l') (hl : ∀ e ∈ l, lcs_NotSeq e) : ∀ e ∈ l', lcs_NotSeq e := by
  obtain ⟨x, rfl, hx⟩ := h
  intro e he
  rcases List.mem_append.1 he with h | h
  · exact hx e h
  · exact hl e h

/-- the invariant along a step that keeps the connection flags -/
theorem lcs_Seq_keep {σ} {w w' : World σ} (h : lcs_Seq w) (k : lcs_Keep w w')
    (hc : w'.drv.targetIsConnected = w.drv.targetIsConnected) (hcid : w'.drv.targetCid = w.drv.targetCid)
    (hs : ∀ s, w'.drv.session = some s → s < 2 ^ 32) : lcs_Seq w' := by
  refine ⟨k.faults ▸ h.fl, k.seq ▸ h.val, k.ctx ▸ h.ctx8, hs, ?_, ?_, lcs_log_ext k.tgt.log h.log⟩
  · rw [hc, k.sock]; exact h.sockc
  · intro c hcm s hsq
    rcases k.tgt.conns c hcm with hin | hnone
    · obtain ⟨a1, a2, a3⟩ := h.conns c hin s hsq
      exact ⟨hc ▸ a1, hcid ▸ a2, k.seq ▸ lcs_recent_mono a3 (lcs_D_mono k)⟩
    · rw [hnone] at hsq; cases hsq

/-- the invariant along a step after which the driver may consider itself (dis)connected: no connection at the
    target has a sequence count yet -/
theorem lcs_Seq_fresh {σ} {w w' : World σ} (h : lcs_Seq w) (k : lcs_Keep w w')
    (hnc : w.drv.targetIsConnected = false) (hsk : w'.drv.targetIsConnected = true → w'.drv.hasSock = true)
    (hs : ∀ s, w'.drv.session = some s → s < 2 ^ 32) : lcs_Seq w' := by
  refine ⟨k.faults ▸ h.fl, k.seq ▸ h.val, k.ctx ▸ h.ctx8, hs, hsk, ?_, lcs_log_ext k.tgt.log h.log⟩
  intro c hcm s hsq
  rcases k.tgt.conns c hcm with hin | hnone
  · have := (h.conns c hin s hsq).1
    rw [hnc] at this; cases this
  · rw [hnone] at hsq; cases hsq

theorem lcs_sendReq_ok_sock {σ} (hook : ObjHook σ) (w : World σ) (r : Req) (nr : Bool) (x : Option Bytes)
    (h : (sendReq hook w r nr).2 = .ok x) : w.drv.hasSock = true := by
  unfold sendReq at h
  split at h
  · cases h
  · split at h
    · cases h
    · rename_i hs; simpa using hs

/-- every `send` other than a connected request -/
theorem lcs_Keep_sendReq {σ} (hook : ObjHook σ) (hh : lci_HookOk hook) (hn : lcs_HookNoSeq hook) (w : World σ)
    (hctx : w.drv.context.length = 8) (r : Req) (hr : r.command ≠ CMD_SEND_UNIT) (nr : Bool) :
    lcs_Keep w (sendReq hook w r nr).1 := by
  obtain ⟨hd, hf, hns, hcase⟩ := lcs_sendReq hook w r nr _ rfl
  refine ⟨by rw [hd], by rw [hd], by rw [hd], hf, hns, ?_⟩
  rcases hcase with ⟨ht, _⟩ | ⟨frame, hb, _, ht⟩
  · rw [ht]; exact lcs_TStep_refl _
  · rw [ht]
    rcases lcs_handle hook hh hn w.net.target frame with h | ⟨f, _, _, _, _, hp, hc, _⟩
    · exact h
    · obtain ⟨s, common, _, _, _, h4⟩ := parse_built r w.drv.ctx frame hctx hb
      rw [h4] at hp
      cases hp
      exact absurd hc hr

/-! ### calls that send no connected request -/

theorem lcs_parseRegister_lt (raw : Bytes) (s : Nat) (hv : (parseRegister (some raw)).valid = true)
    (hs : (parseRegister (some raw)).session = some s) : s < 2 ^ 32 := by
  obtain ⟨_, h1⟩ := lci_parseRegister_valid raw hv
  rw [h1] at hs
  cases hs
  have := leVal_lt (slice raw 4 8)
  have hl : (slice raw 4 8).length ≤ 4 := by rw [RP.slice_length]; omega
  calc leVal (slice raw 4 8) < 256 ^ (slice raw 4 8).length := this
    _ ≤ 256 ^ 4 := Nat.pow_le_pow_right (by decide) hl
    _ = 2 ^ 32 := by decide

theorem lcs_registerSession {σ} (hook : ObjHook σ) (hh : lci_HookOk hook) (hn : lcs_HookNoSeq hook) (w : World σ)
    (h : lcs_Seq w) : lcs_Seq (registerSession hook w).1 := by
  have hk := lcs_Keep_sendReq hook hh hn w h.ctx8 (.registerSession [1, 0] [0, 0]) (by decide) false
  have hd := (lcs_sendReq hook w (.registerSession [1, 0] [0, 0]) false _ rfl).1
  have h1 : lcs_Seq (sendReq hook w (.registerSession [1, 0] [0, 0]) false).1 :=
    lcs_Seq_keep h hk (by rw [hd]) (by rw [hd]) (by rw [hd]; exact h.sess32)
  have h2 : ∀ reply, (parseRegister reply).valid = true →
      lcs_Seq ({ (sendReq hook w (.registerSession [1, 0] [0, 0]) false).1 with
        drv := { (sendReq hook w (.registerSession [1, 0] [0, 0]) false).1.drv with session := (parseRegister reply).session } } : World σ) := by
    intro reply hv
    refine ⟨h1.fl, h1.val, h1.ctx8, ?_, h1.sockc, h1.conns, h1.log⟩
    intro s hs
    cases reply with
    | none => simp [parseRegister, RegReply.valid] at hv
    | some raw => exact lcs_parseRegister_lt raw s hv hs
  unfold registerSession
  split
  · split
    · exact h
    · simp only []
      split
      · exact h1
      · split
        · rename_i hv; exact h2 _ hv
        · exact h1
  · simp only []
    split
    · exact h1
    · split
      · rename_i hv; exact h2 _ hv
      · exact h1

theorem lcs_openDrv {σ} (hook : ObjHook σ) (hh : lci_HookOk hook) (hn : lcs_HookNoSeq hook) (w : World σ) (rnd : Bytes)
    (h : lcs_Seq w) : lcs_Seq (openDrv hook w rnd).1 := by
  unfold openDrv
  split
  · exact h
  · simp only []
    have h1 : lcs_Seq ({ drv := { w.drv with hasSock := true, connectionOpened := true, cid := rnd.take 4, vsn := (rnd.drop 4).take 4 }, net := { w.net with tcpOpen := true, pending := if w.drv.hasSock then w.net.pending else [] } } : World σ) :=
      ⟨h.fl, h.val, h.ctx8, h.sess32, fun _ => rfl, h.conns, h.log⟩
    have h2 := lcs_registerSession hook hh hn _ h1
    generalize registerSession hook _ = res at h2 ⊢
    obtain ⟨w2, r⟩ := res
    cases r with
    | error e => exact h2
    | ok o => cases o <;> exact h2

/-- an unconnected generic_message sends no connected request -/
theorem lcs_gm_unconn {σ} (hook : ObjHook σ) (hh : lci_HookOk hook) (hn : lcs_HookNoSeq hook) (fuel : Nat) (w : World σ)
    (a : GenArgs) (hc : a.connected = false) (hctx : w.drv.context.length = 8) :
    lcs_Keep w (genericMessage hook fuel w a).1 ∧ (genericMessage hook fuel w a).1.drv = w.drv ∧
    (∀ tag, (genericMessage hook fuel w a).2 = .ok tag → w.drv.hasSock = true) := by
  cases fuel with
  | zero => unfold genericMessage; exact ⟨lcs_Keep_refl _, rfl, fun _ h => nomatch h⟩
  | succ fuel =>
    rcases lci_gm_unconn hook fuel w a hc _ rfl with ⟨g1, e, g2⟩ | ⟨reqPath, rp, m, _, _, _, g1, g2⟩
    · rw [g1]; exact ⟨lcs_Keep_refl _, rfl, fun tag h => by rw [g2] at h; cases h⟩
    · rw [g1]
      refine ⟨lcs_Keep_sendReq hook hh hn w hctx (.sendRR m) (by show CMD_SEND_RR ≠ CMD_SEND_UNIT; decide) false,
        (lcs_sendReq hook w (.sendRR m) false _ rfl).1, ?_⟩
      intro tag ht
      obtain ⟨reply, hr, _⟩ := g2 tag ht
      exact lcs_sendReq_ok_sock hook w _ _ _ hr

theorem lcs_forwardOpen_cli {σ} (hook : ObjHook σ) (hh : lci_HookOk hook) (hn : lcs_HookNoSeq hook) (fuel : Nat)
    (w : World σ) (h : lcs_Seq w) : lcs_Seq (forwardOpen hook fuel w).1 := by
  cases fuel with
  | zero => unfold forwardOpen; exact h
  | succ fuel =>
    generalize hr : forwardOpen hook (fuel + 1) w = r
    unfold forwardOpen at hr
    split at hr
    · subst hr; exact h
    rename_i hcon
    have hcon : w.drv.targetIsConnected = false := by simpa using hcon
    split at hr
    · subst hr; exact h
    simp only [] at hr
    split at hr
    · generalize hgg : genericMessage hook fuel w _ = g at hr
      have K : lcs_Keep w g.1 ∧ g.1.drv = w.drv ∧ (∀ tag, g.2 = .ok tag → w.drv.hasSock = true) :=
        hgg ▸ lcs_gm_unconn hook hh hn fuel w _ (by rfl) h.ctx8
      obtain ⟨k1, k2, k3⟩ := K
      have hg : lcs_Seq g.1 := lcs_Seq_keep h k1 (by rw [k2]) (by rw [k2]) (by rw [k2]; exact h.sess32)
      clear hgg
      obtain ⟨w1, r1⟩ := g
      cases r1 with
      | error e => simp only [] at hr; subst hr; exact hg
      | ok tag =>
        simp only [] at hr k1 k2 k3 hg
        split at hr
        · subst hr
          have hsk : w1.drv.hasSock = true := by rw [k2]; exact k3 tag rfl
          exact lcs_Seq_fresh h ⟨k1.seq, k1.ctx, k1.sock, k1.faults, k1.nsend, k1.tgt⟩ hcon (fun _ => hsk) (by show ∀ s, w1.drv.session = some s → _; rw [k2]; exact h.sess32)
        · subst hr; exact hg
    · subst hr; exact h

theorem lcs_ensureFO {σ} (hook : ObjHook σ) (hh : lci_HookOk hook) (hn : lcs_HookNoSeq hook) (fuel : Nat)
    (w : World σ) (h : lcs_Seq w) : lcs_Seq (ensureForwardOpen hook fuel w).1 := by
  cases fuel with
  | zero => unfold ensureForwardOpen; exact h
  | succ fuel =>
    generalize hr : ensureForwardOpen hook (fuel + 1) w = r
    unfold ensureForwardOpen at hr
    split at hr
    · subst hr; exact h
    have h1 := lcs_forwardOpen_cli hook hh hn fuel w h
    generalize forwardOpen hook fuel w = r1 at hr h1
    obtain ⟨w1, o1⟩ := r1
    cases o1 with
    | error e => simp only [] at hr; subst hr; exact h1
    | ok b =>
      cases b with
      | true => simp only [] at hr; subst hr; exact h1
      | false =>
        simp only [] at hr
        split at hr
        · have h1' : lcs_Seq ({ w1 with drv := { w1.drv with extendedFo := false, connectionSize := 500 } } : World σ) :=
            ⟨h1.fl, h1.val, h1.ctx8, h1.sess32, h1.sockc, h1.conns, h1.log⟩
          have h2 := lcs_forwardOpen_cli hook hh hn fuel _ h1'
          generalize forwardOpen hook fuel _ = r2 at hr h2
          obtain ⟨w3, o3⟩ := r2
          cases o3 with
          | error e => simp only [] at hr; subst hr; exact h2
          | ok b => cases b <;> (simp only [] at hr; subst hr; exact h2)
        · subst hr; exact h1

/-! ### a connected request can be built -/

theorem lcs_u16_val (n : Nat) (h : n < 65536) : u16 n = .ok (leBytes 2 n) := by
  simp only [u16, packInt, PyVal.asIndex, IntK.lo, IntK.hi, IntK.size, IntK.signed, ofSigned,
    Bool.false_eq_true, ↓reduceIte, Int.natCast_nonneg, Int.toNat_natCast, true_and]
  rw [if_pos (by omega)]

theorem lcs_u32_val (n : Nat) (h : n < 4294967296) : u32 n = .ok (leBytes 4 n) := by
  simp only [u32, packInt, PyVal.asIndex, IntK.lo, IntK.hi, IntK.size, IntK.signed, ofSigned,
    Bool.false_eq_true, ↓reduceIte, Int.natCast_nonneg, Int.toNat_natCast, true_and]
  rw [if_pos (by omega)]

theorem lcs_buildCpf_some (aT mT : Nat) (d msg : Bytes) (hd : d.length < 65536) (hm : msg.length < 65536) :
    buildCpf aT (some d) mT msg = .ok ([0, 0, 0, 0] ++ [0x0a, 0x00] ++ [0x02, 0x00] ++ leBytes 2 aT ++
      (leBytes 2 d.length ++ d) ++ leBytes 2 mT ++ leBytes 2 msg.length ++ msg) := by
  unfold buildCpf
  dsimp only
  rw [lcs_u16_val _ hd]
  dsimp only [bind, Except.bind, pure, Except.pure]
  rw [lcs_u16_val _ hm]

theorem lcs_buildHeader_ok (cmd len : Nat) (ctx : Ctx) (s : Nat) (hs : ctx.session = some s) (hs32 : s < 2 ^ 32)
    (ho : ctx.option = 0) (hl : len < 65536) :
    buildHeader cmd len ctx = .ok (leBytes 2 cmd ++ leBytes 2 len ++ leBytes 4 s ++ [0, 0, 0, 0] ++ ctx.context ++ leBytes 4 0) := by
  unfold buildHeader
  rw [hs, ho]
  simp only []
  rw [lcs_u16_val _ hl, lcs_u32_val s (by omega), lcs_u32_val 0 (by omega)]

/-- a connected request of reasonable size on an open connection can be built -/
theorem lcs_build_unit (ctx : Ctx) (s : Nat) (hs : ctx.session = some s) (hs32 : s < 2 ^ 32) (ho : ctx.option = 0)
    (cidb : Bytes) (hc : ctx.targetCid = some cidb) (hl : cidb.length = 4) (seq : Nat) (hseq : seq < 65536)
    (m : Bytes) (hm : m.length ≤ 65400) : ∃ frame, buildRequest (.sendUnit seq m) ctx = .ok frame := by
  have e1 := lcs_u16_val seq hseq
  have e3 := lcs_buildCpf_some ITEM_CONNECTION ITEM_CONNECTED_DATA cidb (leBytes 2 seq ++ m) (by omega)
    (by simp [leBytes_length]; omega)
  generalize hcm : ([0, 0, 0, 0] ++ [0x0a, 0x00] ++ [0x02, 0x00] ++ leBytes 2 ITEM_CONNECTION ++ (leBytes 2 cidb.length ++ cidb) ++
      leBytes 2 ITEM_CONNECTED_DATA ++ leBytes 2 (leBytes 2 seq ++ m).length ++ (leBytes 2 seq ++ m) : Bytes) = common at e3
  have hcl : common.length < 65536 := by
    rw [← hcm]; simp [leBytes_length, hl]; omega
  have e4 := lcs_buildHeader_ok (Req.sendUnit seq m).command common.length ctx s hs hs32 ho hcl
  unfold buildRequest
  dsimp only
  rw [hc, e1]
  dsimp only [bind, Except.bind, pure, Except.pure]
  rw [e3]
  dsimp only
  rw [e4]
  exact ⟨_, rfl⟩

/-! ### the connected request -/

theorem lcs_nextSeq (d : Drv) :
    d.nextSeq.1 = (if d.seqVal > 65535 then 1 else d.seqVal) ∧
    d.nextSeq.2 = { d with seqVal := (if d.seqVal > 65535 then 1 else d.seqVal) + 1 } := ⟨rfl, rfl⟩

/-- the core step: a connected request on the open connection -/
theorem lcs_unit_step {σ} (hook : ObjHook σ) (hh : lci_HookOk hook) (hn : lcs_HookNoSeq hook) (S : Prop)
    (w0 : World σ) (hi : lci_Inv S w0) (hc : lci_Conn w0) (hq : lcs_Seq w0)
    (hcon : w0.drv.targetIsConnected = true) (m : Bytes) (hm : m.length ≤ 65400) :
    lcs_Seq (sendReq hook ({ w0 with drv := w0.drv.nextSeq.2 } : World σ) (.sendUnit w0.drv.nextSeq.1 m) false).1 := by
  obtain ⟨e1, e2⟩ := lcs_nextSeq w0.drv
  rw [e1, e2]
  generalize hv : (if w0.drv.seqVal > 65535 then 1 else w0.drv.seqVal) = v
  have hvr : 1 ≤ v ∧ v ≤ 65535 ∧ v = 1 + (w0.drv.seqVal - 1) % 65535 := by
    have := hq.val
    rw [← hv]; split <;> omega
  obtain ⟨s, cidb, c0, k1, k2, k3, k4, k5, k6, k7⟩ := hc hcon
  obtain ⟨s', hs', hmem⟩ := hi.sess
  rw [k1] at hs'; cases hs'
  have hsm := hmem k2
  have hsock := hq.sockc hcon
  have hL := hq.fl
  -- the world that sends
  generalize hw1 : ({ w0 with drv := { w0.drv with seqVal := v + 1 } } : World σ) = w1
  have d1 : w1.drv = { w0.drv with seqVal := v + 1 } := by rw [← hw1]
  have n1 : w1.net = w0.net := by rw [← hw1]
  obtain ⟨frame, hb⟩ := lcs_build_unit w1.drv.ctx s (by rw [d1]; exact k1) (hq.sess32 s k1)
    (by rw [d1]; exact hi.opt0) cidb (by rw [d1]; exact k3) k4 v (by omega) m hm
  obtain ⟨hd, hf, hns, hcase⟩ := lcs_sendReq hook w1 (.sendUnit v m) false _ rfl
  generalize sendReq hook w1 (.sendUnit v m) false = res at hd hf hns hcase
  have hD0 : lcs_D w0 ≤ 65534 := by unfold lcs_D; omega
  have hrem := lcs_rem_le w0.net.faults res.1.net.nSend
  rcases hcase with ⟨ht, hwhy⟩ | ⟨frame', hb', _, ht⟩
  · -- not delivered: a send fault was consumed
    have hcons : lcs_rem w0.net.faults res.1.net.nSend + 1 ≤ lcs_rem w0.net.faults w0.net.nSend := by
      rcases hwhy with ⟨e, he⟩ | h | h
      · rw [hb] at he; cases he
      · rw [d1] at h; rw [hsock] at h; cases h
      · rw [n1] at h; exact h
    have hDD : lcs_D w0 + 1 ≤ lcs_D res.1 := by
      unfold lcs_D; rw [hf, n1]
      have := lcs_rem_le w0.net.faults w0.net.nSend
      omega
    refine ⟨by rw [hf, n1]; exact hL, by rw [hd, d1]; show 1 ≤ v + 1 ∧ v + 1 ≤ 65536; omega,
      by rw [hd, d1]; exact hq.ctx8, by rw [hd, d1]; exact hq.sess32, by rw [hd, d1]; exact hq.sockc, ?_,
      by rw [ht, n1]; exact hq.log⟩
    intro c hcm s' hs'
    rw [ht, n1] at hcm
    obtain ⟨a1, a2, d, b1, b2, b3⟩ := hq.conns c hcm s' hs'
    refine ⟨by rw [hd, d1]; exact a1, by rw [hd, d1]; exact a2, d + 1, by omega, by omega, ?_⟩
    rw [hd, d1]
    show s' = 1 + ((v + 1 - 1) + 65535 - (d + 1)) % 65535
    have := hq.val
    omega
  · -- delivered: the target takes the sequence count
    rw [hb] at hb'; cases hb'
    obtain ⟨s2, common, g1, g2, _, g4⟩ := parse_built _ w1.drv.ctx frame (by rw [d1]; exact hq.ctx8) hb
    have g1' : w1.drv.ctx.session = some s := by rw [d1]; exact k1
    rw [g1'] at g1; cases g1
    obtain ⟨hseq, hml, _, g2⟩ := g2
    have hcid : w1.drv.ctx.targetCid = some cidb := by rw [d1]; exact k3
    have hcpf : parseCpf common = some (.connected (leVal cidb) v m) := by
      rw [g2, hcid]; exact parseCpf_connected cidb m v k4 hseq hml
    have hopt : w1.drv.ctx.option = 0 := by rw [d1]; exact hi.opt0
    cases hfind : w1.net.target.base.conns.find? (fun c => c.cid == leVal cidb && c.session == s) with
    | none =>
      exfalso
      have := List.find?_eq_none.1 hfind c0 (by rw [n1]; exact k5)
      simp [k6, k7] at this
    | some c =>
      have hu := lcs_handle_unit hook hh hn w1.net.target frame _ (leVal cidb) v m c g4 rfl hopt rfl
        (by rw [n1]; exact hsm) hcpf hfind
      rw [← ht] at hu
      have hcm : c ∈ w0.net.target.base.conns := by rw [← n1]; exact List.mem_of_find?_eq_some hfind
      have hne : c.lastSeq ≠ some v := by
        intro hl
        obtain ⟨_, _, d, b1, b2, b3⟩ := hq.conns c hcm v hl
        have := hq.val
        omega
      refine ⟨by rw [hf, n1]; exact hL, by rw [hd, d1]; show 1 ≤ v + 1 ∧ v + 1 ≤ 65536; omega,
        by rw [hd, d1]; exact hq.ctx8, by rw [hd, d1]; exact hq.sess32, by rw [hd, d1]; exact hq.sockc, ?_, ?_⟩
      · intro c' hcm' s' hs'
        rcases hu.conns c' hcm' with hnone | ⟨c1, hc1, hcid1, hor⟩
        · rw [hnone] at hs'; cases hs'
        · rw [n1] at hc1
          rcases hor with ⟨hx, hy⟩ | ⟨hx, hy⟩
          · rw [hy] at hs'; cases hs'
            refine ⟨by rw [hd, d1]; exact hcon, ⟨cidb, by rw [hd, d1]; exact k3, by rw [hcid1, hx]⟩, 1, by omega, ?_, ?_⟩
            · unfold lcs_D; rw [hf, n1]; omega
            · rw [hd, d1]
              show v = 1 + ((v + 1 - 1) + 65535 - 1) % 65535
              omega
          · subst hy
            obtain ⟨_, ⟨cidb', q1, q2⟩, _⟩ := hq.conns c' hc1 s' hs'
            rw [k3] at q1; cases q1
            exact absurd q2 hx
      · obtain ⟨extra, hl, hx⟩ := hu.log
        rw [hl]
        intro e he
        rcases List.mem_append.1 he with h | h
        · exact hx hne e h
        · rw [n1] at h; exact hq.log e h

/-! ### generic_message as a whole -/

/-- the request of a generic_message call is small enough to be built -/
def lcs_SizeOk (a : GenArgs) : Prop :=
  ∀ rp, requestPath a.cls a.inst a.attr = .ok rp → rp.length + a.data.length ≤ 65000

/-- evaluable form -/
def lcs_sizeOk (a : GenArgs) : Bool :=
  match requestPath a.cls a.inst a.attr with
  | .error _ => true
  | .ok rp => decide (rp.length + a.data.length ≤ 65000)

theorem lcs_size_of_check (a : GenArgs) (h : lcs_sizeOk a = true) : lcs_SizeOk a := by
  intro rp hr
  unfold lcs_sizeOk at h
  rw [hr] at h
  simpa using h

theorem lcs_generic {σ} (hook : ObjHook σ) (hh : lci_HookOk hook) (hn : lcs_HookNoSeq hook) (S : Prop) (fuel : Nat)
    (w : World σ) (a : GenArgs) (hsz : a.connected = true → lcs_SizeOk a) (hi : lci_Inv S w) (hc : lci_Conn w)
    (hq : lcs_Seq w) : lcs_Seq (genericMessage hook fuel w a).1 := by
  cases fuel with
  | zero => unfold genericMessage; exact hq
  | succ fuel =>
    by_cases hcn : a.connected = true
    · generalize hg : genericMessage hook (fuel + 1) w a = g
      unfold genericMessage at hg
      simp only [hcn, if_true] at hg
      obtain ⟨b1, b2, b3⟩ := lci_cli_ensureFO hook S fuel w hi hc _ rfl
      have b4 := lcs_ensureFO hook hh hn fuel w hq
      generalize ensureForwardOpen hook fuel w = r0 at hg b1 b2 b3 b4
      obtain ⟨w0, o0⟩ := r0
      simp only [] at hg b1 b2 b3 b4
      cases o0 with
      | error e => simp only [] at hg; subst hg; exact b4
      | ok u =>
        simp only [] at hg
        split at hg
        · subst hg; exact b4
        · rename_i reqPath hrp
          have hm : ([UInt8.ofNat a.service] ++ reqPath ++ a.data).length ≤ 65400 := by
            have := hsz hcn reqPath hrp
            simp; omega
          have := lcs_unit_step hook hh hn S w0 b1 b2 b4 (b3 rfl) _ hm
          split at hg
          · subst hg; exact this
          · split at hg
            · subst hg; exact this
            · subst hg; exact this
    · have hcn : a.connected = false := by simpa using hcn
      obtain ⟨k1, k2, _⟩ := lcs_gm_unconn hook hh hn (fuel + 1) w a hcn hq.ctx8
      exact lcs_Seq_keep hq k1 (by rw [k2]) (by rw [k2]) (by rw [k2]; exact hq.sess32)

/-! ### close -/

theorem lcs_forwardCloseF_eq {σ} (hook : ObjHook σ) (w : World σ) :
    forwardClose hook w = lci_forwardCloseF hook FUEL w := by
  have key : ∀ fuel, FUEL = fuel → forwardClose hook w = lci_forwardCloseF hook fuel w := by
    intro fuel hfu
    unfold forwardClose lci_forwardCloseF
    rw [hfu]
    rfl
  exact key FUEL rfl

theorem lcs_Keep_forwardCloseF {σ} (hook : ObjHook σ) (hh : lci_HookOk hook) (hn : lcs_HookNoSeq hook) (fuel : Nat)
    (w : World σ) (hctx : w.drv.context.length = 8) : lcs_Keep w (lci_forwardCloseF hook fuel w).1 := by
  generalize hr : lci_forwardCloseF hook fuel w = r
  unfold lci_forwardCloseF at hr
  split at hr
  · subst hr; exact lcs_Keep_refl _
  simp only [] at hr
  split at hr
  · subst hr; exact lcs_Keep_refl _
  generalize hgg : genericMessage hook fuel w _ = g at hr
  have K : lcs_Keep w g.1 ∧ g.1.drv = w.drv ∧ (∀ tag, g.2 = .ok tag → w.drv.hasSock = true) :=
    hgg ▸ lcs_gm_unconn hook hh hn fuel w _ (by rfl) hctx
  obtain ⟨k1, _, _⟩ := K
  clear hgg
  obtain ⟨w1, r1⟩ := g
  cases r1 with
  | error e => simp only [] at hr; subst hr; exact k1
  | ok tag =>
    simp only [] at hr
    split at hr
    · subst hr; exact ⟨k1.seq, k1.ctx, k1.sock, k1.faults, k1.nsend, k1.tgt⟩
    · subst hr; exact k1

theorem lcs_Keep_forwardClose {σ} (hook : ObjHook σ) (hh : lci_HookOk hook) (hn : lcs_HookNoSeq hook) (w : World σ)
    (hctx : w.drv.context.length = 8) : lcs_Keep w (forwardClose hook w).1 := by
  rw [lcs_forwardCloseF_eq]
  exact lcs_Keep_forwardCloseF hook hh hn FUEL w hctx

theorem lcs_Keep_closeTry {σ} (hook : ObjHook σ) (hh : lci_HookOk hook) (hn : lcs_HookNoSeq hook) (w : World σ)
    (hctx : w.drv.context.length = 8) : lcs_Keep w (lcCloseTry hook w).1 := by
  have h1 : lcs_Keep w (lcCloseFc hook w).1 := by
    unfold lcCloseFc
    split
    · have := lcs_Keep_forwardClose hook hh hn w hctx
      generalize forwardClose hook w = fc at this ⊢
      obtain ⟨wf, rf⟩ := fc
      cases rf <;> exact this
    · exact lcs_Keep_refl _
  unfold lcCloseTry
  generalize lcCloseFc hook w = p at h1
  obtain ⟨wa, ra⟩ := p
  unfold lcCloseUnreg
  cases ra with
  | error e => exact h1
  | ok u =>
    simp only []
    split
    · have h2 := lcs_Keep_trans h1 (lcs_Keep_sendReq hook hh hn wa (by rw [h1.ctx]; exact hctx) .unregisterSession
        (by decide) true)
      generalize sendReq hook wa .unregisterSession true = sr at h2 ⊢
      obtain ⟨wb, rb⟩ := sr
      cases rb with
      | error e => exact h2
      | ok x => exact ⟨h2.seq, h2.ctx, h2.sock, h2.faults, h2.nsend, h2.tgt⟩
    · exact h1

theorem lcs_closeDrv {σ} (hook : ObjHook σ) (hh : lci_HookOk hook) (hn : lcs_HookNoSeq hook) (F : List Fault) (P : Policy)
    (w : World σ) (hnet : lci_Net F P w) (hq : lcs_Seq w) : lcs_Seq (closeDrv hook w).1 := by
  have k := lcs_Keep_closeTry hook hh hn w hq.ctx8
  obtain ⟨a1, _, _, _, a5, a6, _⟩ := lc_closeTry_keep hook w
  rw [lc_closeDrv_eq]
  simp only []
  generalize lcCloseTry hook w = p at k a1 a5 a6
  obtain ⟨w1, e1⟩ := p
  simp only [] at k a1 a5 a6 ⊢
  by_cases hs : w.drv.hasSock = true
  · have hto : w1.net.tcpOpen = true := by rw [a5, ← hnet.sock]; exact hs
    simp only [a1, hs, if_true]
    unfold Net.sockClose
    simp only [hto, if_true]
    refine ⟨k.faults ▸ hq.fl, k.seq ▸ hq.val, k.ctx ▸ hq.ctx8, ?_, (fun h => nomatch h), ?_, lcs_log_ext k.tgt.log hq.log⟩
    · intro s hs'; cases hs'; decide
    · intro c hc; cases hc
  · have hs : w.drv.hasSock = false := by simpa using hs
    have hnc : w.drv.targetIsConnected = false := by
      cases h : w.drv.targetIsConnected
      · rfl
      · rw [hq.sockc h] at hs; cases hs
    simp only [a1, hs, Bool.false_eq_true, if_false]
    refine ⟨k.faults ▸ hq.fl, k.seq ▸ hq.val, k.ctx ▸ hq.ctx8, ?_, (fun h => nomatch h), ?_, lcs_log_ext k.tgt.log hq.log⟩
    · intro s hs'; cases hs'; decide
    · intro c hc s hsq
      rw [a6 hs] at hc
      have := (hq.conns c hc s hsq).1
      rw [hnc] at this; cases this

end Pycomm.Cli
