/-
  C16 end to end, part 2: Get_Attributes_All on the Identity object (class 1, instance 1) through `genericMessage`,
  wrapped in an Unconnected Send (get_module_info, get_plc_info) or sent directly with the route bytes behind the
  request (get_plc_info of a Micro800), for any identity.
-/
import PycommProofs.IdE2E1
namespace Pycomm.Cli
open Pycomm.Tgt Pycomm.Encap Pycomm.Path Pycomm.Reply Pycomm.EN Pycomm.EP Pycomm.Ident

/-- the Identity object answers Get_Attributes_All (service 1 to class 1, instance 1, whatever the request data) with
    the identity's wire form; the target does not change -/
theorem ide_dispatch_identity {σ} (hook : ObjHook σ) (t : Target σ) (session : Nat) (connSize : Option Nat)
    (connected : Bool) (data : Bytes) :
    gme_dispatch hook t session connSize connected { service := 1, path := gme_wantPath 1 1 none, data := data } =
      (t, { data := encIdentity t.base.identity }) := by
  have hb : baseObject t.base { service := 1, path := gme_wantPath 1 1 none, data := data } =
      some (t.base, { data := encIdentity t.base.identity }) := rfl
  rw [gme_dispatch_base hook t session connSize connected _ _ _ (by simp [gme_wantPath, classInst]) hb]

theorem ide_payload_identity (id : Identity) : gme_payload { data := encIdentity id } = encIdentity id := rfl

/-- the Tag `generic_message` makes of an accepted, untyped reply: the data, no error -/
theorem ide_tag_ok (tr : Transport) (svc : Nat) (data : Bytes) (value : PyVal) (err : Option Err)
    (h : gme_TagOf tr svc { data := data } none value err) : value = .bytes data ∧ err = none :=
  ⟨h.untyped rfl, h.okUntyped (gme_accepted_zero tr svc) rfl⟩

/-- Get_Attributes_All on the Identity object in an Unconnected Send whose route encodes as (words, 0, `route`) -/
theorem ide_ucs_identity {σ} (hook : ObjHook σ) (w : World σ) (sess : Nat) (a : GenArgs) (route : Bytes) (segs : List PSeg)
    (hw : gme_Session w sess) (hconn : a.connected = false) (hu : a.unconnectedSend = true)
    (hroute : gme_route w.drv a.route = .ok ([UInt8.ofNat (route.length / 2), 0] ++ route))
    (hr2 : route.length % 2 = 0) (hrl : route.length ≤ 300) (hparse : parsePadded (route.length + 1) route = some segs)
    (hsvc : a.service = 1) (hcls : gme_Id a.cls 1) (hinst : gme_Id a.inst 1) (hattr : gme_AttrId a.attr none)
    (hdt : a.dataType = none) (hbig : a.data.length ≤ 65000) :
    ∃ frm,
      genericMessage hook FUEL w a =
        (gme_after w w.drv frm (gme_rrIn w.net.target sess true
            { service := 1, path := gme_wantPath 1 1 none, data := a.data } route),
         .ok { name := a.name, value := .bytes (encIdentity w.net.target.base.identity), error := none }) := by
  obtain ⟨frm, f, rp, d, value, err, _, _, _, _, _, _, _, _, hgm, htag⟩ :=
    gme_ucs_core hook w sess a 1 1 none route segs hw hconn hu hroute hr2 hrl hparse (by omega) hcls hinst hattr hbig
  have hreq : gme_reqOf a 1 1 none = { service := 1, path := gme_wantPath 1 1 none, data := a.data } := by
    rw [gme_reqOf, hsvc]
  rw [hreq, ide_dispatch_identity] at hgm htag
  rw [hdt] at htag
  obtain ⟨hv, he⟩ := ide_tag_ok _ _ _ _ _ htag
  subst hv he
  exact ⟨frm, hgm⟩

theorem ide_finish_congr {σ} (a a' : GenArgs) (tr : Transport) (x : World σ × Except Exn (Option Bytes))
    (h1 : a'.dataType = a.dataType) (h2 : a'.name = a.name) : gme_finish a' tr x = gme_finish a tr x := by
  unfold gme_finish
  rw [h1, h2]

/-- an unconnected, unwrapped request with route bytes `rp` is the same request with `rp` appended to the data and no
    route -/
theorem ide_direct_route {σ} (hook : ObjHook σ) (w : World σ) (a : GenArgs) (path rp : Bytes)
    (hc : a.connected = false) (hu : a.unconnectedSend = false)
    (hpath : requestPath a.cls a.inst a.attr = .ok path) (hroute : gme_route w.drv a.route = .ok rp) :
    genericMessage hook FUEL w a = genericMessage hook FUEL w { a with data := a.data ++ rp, route := .off } := by
  have h1 := gme_gm_direct hook 7 w a hc hu path rp hpath hroute
  have h2 := gme_gm_direct hook 7 w { a with data := a.data ++ rp, route := .off } hc hu path [] hpath rfl
  have e1 : genericMessage hook FUEL w a = _ := h1
  have e2 : genericMessage hook FUEL w { a with data := a.data ++ rp, route := .off } = _ := h2
  rw [e1, e2, ide_finish_congr a { a with data := a.data ++ rp, route := .off } _ _ rfl rfl]
  have hm : ([UInt8.ofNat a.service] ++ path ++ (a.data ++ rp) ++ [] : Bytes) = [UInt8.ofNat a.service] ++ path ++ a.data ++ rp := by
    simp only [List.append_assoc, List.append_nil]
  show gme_finish a .unconnected (sendReq hook w (.sendRR ([UInt8.ofNat a.service] ++ path ++ a.data ++ rp)) false) =
    gme_finish a .unconnected (sendReq hook w (.sendRR ([UInt8.ofNat a.service] ++ path ++ (a.data ++ rp) ++ [])) false)
  rw [hm]

/-- Get_Attributes_All on the Identity object sent directly (no Unconnected Send) with route bytes `rp` behind it: the
    message router sees them as request data; the Identity object answers all the same -/
theorem ide_direct_identity {σ} (hook : ObjHook σ) (w : World σ) (sess : Nat) (a : GenArgs) (rp : Bytes)
    (hw : gme_Session w sess) (hconn : a.connected = false) (hu : a.unconnectedSend = false)
    (hroute : gme_route w.drv a.route = .ok rp) (hrl : rp.length ≤ 400)
    (hsvc : a.service = 1) (hcls : gme_Id a.cls 1) (hinst : gme_Id a.inst 1) (hattr : gme_AttrId a.attr none)
    (hdt : a.dataType = none) (hbig : a.data.length ≤ 64000) :
    ∃ frm,
      genericMessage hook FUEL w a =
        (gme_after w w.drv frm (gme_rrIn w.net.target sess false
            { service := 1, path := gme_wantPath 1 1 none, data := a.data ++ rp } []),
         .ok { name := a.name, value := .bytes (encIdentity w.net.target.base.identity), error := none }) := by
  obtain ⟨path, hpath, _, _⟩ := gme_requestPath a.cls a.inst a.attr 1 1 none hcls hinst hattr
  rw [ide_direct_route hook w a path rp hconn hu hpath hroute]
  obtain ⟨frm, f, rp', value, err, _, _, _, _, _, _, hgm, htag⟩ :=
    gme_direct_core hook w sess { a with data := a.data ++ rp, route := .off } 1 1 none hw hconn hu rfl
      (by show a.service < 256; omega) hcls hinst hattr (by intro h; have : a.service = 0x52 := h.1; omega)
      (by show (a.data ++ rp).length ≤ 65000; rw [List.length_append]; omega)
  have hreq : gme_reqOf { a with data := a.data ++ rp, route := .off } 1 1 none =
      { service := 1, path := gme_wantPath 1 1 none, data := a.data ++ rp } := by
    rw [gme_reqOf]; show MRReq.mk a.service _ _ = _; rw [hsvc]
  rw [hreq, ide_dispatch_identity] at hgm htag
  have hdt' : ({ a with data := a.data ++ rp, route := .off } : GenArgs).dataType = none := hdt
  rw [hdt'] at htag
  obtain ⟨hv, he⟩ := ide_tag_ok _ _ _ _ _ htag
  subst hv he
  exact ⟨frm, hgm⟩

/-- the session stays healthy after an exchange that only adds log entries -/
theorem ide_Session_after {σ} {w : World σ} {sess : Nat} (h : gme_Session w sess) (frm : Bytes) (viaUcs : Bool)
    (req : MRReq) (route : Bytes) :
    gme_Session (gme_after w w.drv frm (gme_rrIn w.net.target sess viaUcs req route)) sess :=
  gme_Session_after h w.drv frm _ rfl h.sessionReg

/-! ### the backplane hop `PortSegment("bp", slot)` -/

theorem ide_enc1_bp (slot : Nat) (hs : slot < 256) :
    Enc1 (Seg.port (.name (nm "bp")) (.int slot)) (PSeg.port 1 [UInt8.ofNat slot]) 2 := by
  have hl : lookupName (nm "bp") Gen.portSegments = some 1 := by decide
  have u1 := usint_nat slot (by omega)
  have u2 : usint (1 : Int) = .ok [UInt8.ofNat 1] := usint_nat 1 (by omega)
  have he : encSeg true (Seg.port (.name (nm "bp")) (.int slot)) = .ok [UInt8.ofNat 1, UInt8.ofNat slot] := by
    simp [encSeg, encPort, hl, u1, u2]
  exact ⟨_, he, by simp, segok_port 1 ⟨by omega, by omega⟩ (UInt8.ofNat slot)⟩

theorem ide_encSegs_bp (slot : Nat) (hs : slot < 256) :
    encSegs true [Seg.port (.name (nm "bp")) (.int slot)] = .ok [1, UInt8.ofNat slot] := by
  have hl : lookupName (nm "bp") Gen.portSegments = some 1 := by decide
  have u1 := usint_nat slot (by omega)
  have u2 : usint (1 : Int) = .ok [UInt8.ofNat 1] := usint_nat 1 (by omega)
  have he : encSeg true (Seg.port (.name (nm "bp")) (.int slot)) = .ok [UInt8.ofNat 1, UInt8.ofNat slot] := by
    simp [encSeg, encPort, hl, u1, u2]
  simp only [encSegs, he, bind, Except.bind]
  rfl

/-- the route of `get_module_info(slot)`: the hops before the last one, then backplane/slot -/
theorem ide_route_bp (hops : List Seg) (ps : List PSeg) (slot : Nat) (henc : EncAll hops ps 298) (hs : slot < 256) :
    ∃ pre, encSegs true hops = .ok pre ∧
      encEpath true (hops ++ [Seg.port (.name (nm "bp")) (.int slot)]) true true =
        .ok ([UInt8.ofNat ((pre ++ [1, UInt8.ofNat slot]).length / 2), 0] ++ (pre ++ [1, UInt8.ofNat slot])) ∧
      (pre ++ [1, UInt8.ofNat slot]).length % 2 = 0 ∧ (pre ++ [1, UInt8.ofNat slot]).length ≤ 300 ∧
      parsePadded ((pre ++ [1, UInt8.ofNat slot]).length + 1) (pre ++ [1, UInt8.ofNat slot]) =
        some (ps ++ [PSeg.port 1 [UInt8.ofNat slot]]) := by
  have hall : EncAll (hops ++ [Seg.port (.name (nm "bp")) (.int slot)]) (ps ++ [PSeg.port 1 [UInt8.ofNat slot]]) (298 + (2 + 0)) :=
    EncAll.append henc (EncAll.cons (ide_enc1_bp slot hs) EncAll.nil)
  obtain ⟨route, h1, h2, h3, h4, h5⟩ := gme_route_enc hall (by omega)
  obtain ⟨pre, hpre, _⟩ := henc
  have happ := encSegs_append hops [Seg.port (.name (nm "bp")) (.int slot)] pre _ hpre (ide_encSegs_bp slot hs)
  rw [happ] at h1
  cases h1
  exact ⟨pre, hpre, h2, h3, by omega, h5⟩

end Pycomm.Cli
