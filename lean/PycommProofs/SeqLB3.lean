/-
  C17 over histories with LogixDriver reads and writes, WITHOUT the structural hypothesis `LoopsLast`.
  Part 3: when the rounds of the fragment loops are bounded.
    * a fragmented write: the driver decides — one round per segment, ⌈value bytes / segment size⌉ (`slb_writeFragSegs_lt`);
    * a fragmented read: the controller decides — the driver asks again as long as the answer is "more data follows"
      (status 6).  `slb_Progress` says what "the controller makes progress" must mean; then the loop draws fewer
      than S / m sequence numbers (`slb_readFragDraws_lt`); the reference controller (`hookAll`) makes progress on a
      healthy connection (`slb_progress_hookAll`);
    * `_send_requests`: the counted rounds are at most the sum of the bounds of the loops that have a packet waiting
      behind them (`slb_loopDraws_le`).
-/
import PycommProofs.SeqLB2
import PycommProofs.LDRead3Frag
namespace Pycomm.Lgx.Drv
open Pycomm Pycomm.Tgt Pycomm.Path Pycomm.Reply Pycomm.Encap Pycomm.Lgx Pycomm.Lgx.E2E

/-! ### fragmented writes: the number of segments -/

theorem slb_writeSegments_count (segSize : Nat) (hs : 0 < segSize) (value : Bytes) :
    ∀ fuel off, (K.writeSegments segSize value fuel off).length * segSize < (value.length - off) + segSize := by
  intro fuel
  induction fuel with
  | zero => intro off; simp only [K.writeSegments, List.length_nil, Nat.zero_mul]; omega
  | succ fuel ih =>
    intro off
    unfold K.writeSegments
    by_cases hge : off ≥ value.length
    · simp only [hge, if_true, List.length_nil, Nat.zero_mul]; omega
    · simp only [hge, if_false, List.length_cons]
      have hlen : ((value.drop off).take segSize).length = min segSize (value.length - off) := by
        simp [List.length_take, List.length_drop]
      have := ih (off + ((value.drop off).take segSize).length)
      rw [hlen] at this ⊢
      rw [Nat.add_mul, Nat.one_mul]
      by_cases hfull : segSize ≤ value.length - off
      · rw [Nat.min_eq_left hfull] at this ⊢
        omega
      · have hmin : min segSize (value.length - off) = value.length - off := Nat.min_eq_right (by omega)
        rw [hmin] at this ⊢
        have h0 : value.length - (off + (value.length - off)) = 0 := by omega
        rw [h0] at this
        have hz : (K.writeSegments segSize value fuel (off + (value.length - off))).length = 0 := by
          cases hc : (K.writeSegments segSize value fuel (off + (value.length - off))).length with
          | zero => rfl
          | succ c =>
            rw [hc, Nat.add_mul, Nat.one_mul] at this
            omega
        rw [hz]
        omega

/-- a fragmented write on a connection of size `C` draws fewer than (value bytes / segment size) + 1 sequence numbers:
    the value is cut into segments of `C - (request overhead)` bytes, the last one may be shorter -/
theorem slb_writeFragSegs_lt (C : Nat) (req : WriteReq) (hs : 0 < Cl.writeSegSize C req.path req.typeBytes) :
    slb_writeFragSegs C req * Cl.writeSegSize C req.path req.typeBytes <
      req.value.length + Cl.writeSegSize C req.path req.typeBytes := by
  unfold slb_writeFragSegs K.writeFragments
  rw [if_neg (by omega)]
  have := slb_writeSegments_count _ hs req.value (req.value.length + 1) 0
  simpa using this

theorem slb_writeFragSegs_zero (C : Nat) (req : WriteReq) (hs : Cl.writeSegSize C req.path req.typeBytes = 0) :
    slb_writeFragSegs C req = 0 := by
  unfold slb_writeFragSegs K.writeFragments
  rw [if_pos hs]
  rfl

/-- a value of at most `N` segments: at most `N` rounds -/
theorem slb_writeFragSegs_le (C N : Nat) (req : WriteReq)
    (h : req.value.length ≤ N * Cl.writeSegSize C req.path req.typeBytes) : slb_writeFragSegs C req ≤ N := by
  by_cases hs : Cl.writeSegSize C req.path req.typeBytes = 0
  · rw [slb_writeFragSegs_zero C req hs]; omega
  · have h1 := slb_writeFragSegs_lt C req (by omega)
    generalize Cl.writeSegSize C req.path req.typeBytes = s at h h1 hs
    generalize slb_writeFragSegs C req = c at h1 ⊢
    have h2 : c * s < (N + 1) * s := by rw [Nat.add_mul, Nat.one_mul]; omega
    have := Nat.lt_of_mul_lt_mul_right h2
    omega

/-! ### fragmented reads: a controller that makes progress -/

/-- "The controller makes progress on the fragmented reads of `req`", in the worlds satisfying `I`:
    whenever a Read Tag Fragmented request of `req` from a byte offset `off < S` is answered "more data follows"
    (general status 6 with service data `d`), the answer carries at least `m` value bytes (`d` without its type
    bytes), it stays below `S` (`off` + value bytes `< S`: `S` is the size of the value the controller holds), and the
    world in which the driver asks again (its next sequence number drawn) satisfies `I` again.
    A controller that answers status 6 without value bytes (`m = 0`), or that keeps answering status 6 beyond the end
    of the value (no `S`), does not make progress: the driver's loop has no other exit (CE7). -/
def slb_Progress {σ} (hook : ObjHook σ) (I : Cli.World σ → Prop) (req : ReadReq) (m S : Nat) : Prop :=
  ∀ (w : Cli.World σ) (seq off : Nat), I w → seq < 65536 → off < S →
    ∀ w1 raw, sendUnit hook w seq (Cl.readFragMsg req.path req.elements off) = (w1, .ok raw) →
      (tagResp raw).p.serviceStatus = some Gen.INSUFFICIENT_PACKETS → ∀ d, (tagResp raw).p.data = some d →
        m ≤ (Cl.splitTyped d).2.length ∧ off + (Cl.splitTyped d).2.length < S ∧
        I ({ w1 with drv := w1.drv.nextSeq.2 } : Cli.World σ)

/-- with a controller that makes progress, the loop of `_send_read_fragmented` from offset `off` draws at most
    (S - off - 1) / m sequence numbers -/
theorem slb_readFragDraws_le {σ} (hook : ObjHook σ) (I : Cli.World σ → Prop) (req : ReadReq) (m S : Nat)
    (hp : slb_Progress hook I req m S) (fuel : Nat) :
    ∀ (w : Cli.World σ) (seq off : Nat), I w → seq < 65536 → off < S →
      slb_readFragDraws hook req fuel w seq off * m ≤ S - off - 1 := by
  induction fuel with
  | zero => intro w seq off _ _ _; simp only [slb_readFragDraws, Nat.zero_mul]; omega
  | succ n ih =>
    intro w seq off hI hseq hoff
    rw [slb_readFragDraws]
    have hpw := hp w seq off hI hseq hoff
    rcases hs : sendUnit hook w seq (Cl.readFragMsg req.path req.elements off) with ⟨w1, r⟩
    rw [hs] at hpw
    dsimp only
    cases r with
    | error e => simp only [Nat.zero_mul]; omega
    | ok raw =>
      dsimp only
      split
      · simp only [Nat.zero_mul]; omega
      · next d hdat =>
        split
        · next hst =>
          obtain ⟨p1, p2, p3⟩ := hpw w1 raw rfl (by simpa using hst) d hdat
          have := ih _ w1.drv.nextSeq.1 (off + (Cl.splitTyped d).2.length) p3 (ldr_nextSeq_lt w1.drv) p2
          rw [Nat.add_mul, Nat.one_mul]
          generalize slb_readFragDraws hook req n _ _ _ * m = x at this ⊢
          omega
        · simp only [Nat.zero_mul]; omega

/-- … from offset 0: fewer than S / m -/
theorem slb_readFragDraws_lt {σ} (hook : ObjHook σ) (I : Cli.World σ → Prop) (req : ReadReq) (m S : Nat)
    (hp : slb_Progress hook I req m S) (fuel : Nat) (w : Cli.World σ) (seq : Nat) (hI : I w) (hseq : seq < 65536)
    (hS : 0 < S) : slb_readFragDraws hook req fuel w seq 0 * m < S := by
  have := slb_readFragDraws_le hook I req m S hp fuel w seq 0 hI hseq hS
  omega

/-- the worlds in which the driver is connected to the reference controller holding project `p`, nothing in flight -/
def slb_HealthyOn (sess : Nat) (cidb : Bytes) (conn : Conn) (p : Project) (w : Cli.World Ext) : Prop :=
  ∃ ls st, ldr_Healthy w sess cidb { conn with lastSeq := ls } ∧ w.net.target.ext.logix = some st ∧ st.proj = p

/-- the reference controller makes progress: on a healthy connection, a Read Tag Fragmented request of `req` (whose
    path resolves to `bs.length` bytes) from an offset inside the value is answered status 6 only with at least one
    value byte and only when more bytes remain -/
theorem slb_progress_hookAll (sess : Nat) (cidb : Bytes) (conn : Conn) (p : Project) (req : ReadReq) (segs : List PSeg)
    (loc : Loc) (bs : Bytes)
    (hp : Denotes req.path segs) (hr : resolve p segs = .ok loc) (hty : TyOk loc.ty)
    (hn : 1 ≤ req.elements ∧ req.elements ≤ loc.avail ∧ req.elements < 65536)
    (hb : readBytes p loc req.elements = some bs) (hlen : bs.length < 2 ^ 32)
    (hroom : 4 + (typeBytes p loc.ty).length + 1 ≤ conn.size - 2)
    (hpl : req.path.length ≤ 600) (hfit : req.path.length + 9 ≤ conn.size) :
    slb_Progress hookAll (slb_HealthyOn sess cidb conn p) req 1 bs.length := by
  intro w seq off hI hseq hoff w1 raw hsend hstat d hdat
  obtain ⟨ls, st, hw, hlogix, hst⟩ := hI
  subst hst
  obtain ⟨w', frm, hsend', hd1, _, hext1, hh1⟩ := ldr3_sendUnit_readFrag w sess cidb { conn with lastSeq := ls } st
    req.path segs loc req.elements off bs seq hw hlogix hp hr hn hb hoff hlen hseq hpl hfit
  rw [hsend] at hsend'
  simp only [Prod.mk.injEq, Except.ok.injEq] at hsend'
  obtain ⟨hw1, hraw⟩ := hsend'
  subst hw1
  have hk1 : 1 ≤ fragK st loc (conn.size - 2) bs.length off := by
    have := cyc_pos st.proj.readSchedule st.ctr
    unfold fragK; omega
  have hk2 : fragK st loc (conn.size - 2) bs.length off ≤ bs.length - off := by unfold fragK; omega
  generalize fragK st loc (conn.size - 2) bs.length off = k at hraw hk1 hk2
  have hvl : ((bs.drop off).take k).length = k := by
    rw [List.length_take, List.length_drop]; omega
  have hsplit := splitTyped_typeBytes st.proj loc.ty hty ((bs.drop off).take k)
  have hnext : slb_HealthyOn sess cidb conn st.proj ({ w1 with drv := w1.drv.nextSeq.2 } : Cli.World Ext) := by
    refine ⟨some seq, { st with ctr := st.ctr + 1 }, ?_, ?_, rfl⟩
    · exact ldr_Healthy_seq hh1 _ (by rw [(Cli.lcs_nextSeq w1.drv).2])
    · show w1.net.target.ext.logix = _
      rw [hext1]
  by_cases hlt : k < bs.length - off
  · rw [if_pos hlt] at hraw
    obtain ⟨_, r2, _, _⟩ := ldr3_tagResp_frag 6 sess conn.toId seq w.drv.context
      (typeBytes st.proj loc.ty ++ (bs.drop off).take k) hw.ctx8 (Or.inr rfl)
    rw [hraw, r2] at hdat
    cases hdat
    rw [hsplit]
    exact ⟨by rw [hvl]; exact hk1, by rw [hvl]; omega, hnext⟩
  · rw [if_neg hlt] at hraw
    obtain ⟨_, _, r3, _⟩ := ldr3_tagResp_frag 0 sess conn.toId seq w.drv.context
      (typeBytes st.proj loc.ty ++ (bs.drop off).take k) hw.ctx8 (Or.inl rfl)
    rw [hraw, r3] at hstat
    cases hstat

/-! ### `_send_requests`: the counted rounds against per-packet bounds -/

/-- the bound of every loop that has a packet waiting behind it -/
def slb_staticRounds (NB : Request → Nat) : List Request → Nat
  | [] => 0
  | q :: rest => (if slb_pending rest then NB q else 0) + slb_staticRounds NB rest

theorem slb_loopDraws_le {σ} (hook : ObjHook σ) (NB : Request → Nat) (reqs : List Request) :
    ∀ (w : Cli.World σ) (rs : Results),
      (∀ w', lcl_Reach hook w w' → ∀ q ∈ reqs, slb_reqDraws hook w' q ≤ NB q) →
      slb_loopDraws hook w rs reqs ≤ slb_staticRounds NB reqs := by
  induction reqs with
  | nil => intro w rs _; exact Nat.le_refl _
  | cons q rest ih =>
    intro w rs hb
    rw [slb_loopDraws, slb_staticRounds]
    have h0 : (if slb_pending rest = true then slb_reqDraws hook w q else 0) ≤ (if slb_pending rest = true then NB q else 0) := by
      split
      · exact hb w (.refl w) q List.mem_cons_self
      · exact Nat.le_refl _
    have hreach := lcl_sendRequest_reach hook w rs q
    generalize sendRequest hook w rs q = res at hreach ⊢
    obtain ⟨w1, x⟩ := res
    cases x with
    | error e => dsimp only; omega
    | ok rs1 =>
      dsimp only
      have := ih w1 rs1 (fun w' hw' q' hq' => hb w' (lcl_Reach_trans hreach hw') q' (List.mem_cons_of_mem _ hq'))
      omega

end Pycomm.Lgx.Drv
