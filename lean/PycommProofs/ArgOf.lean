/-
  `argOf t v`: the argument a Struct / Array / StructTag passes to the codec of a member or element of
  type `t` — `v` itself except for STRINGI (`STRINGI.encode(*strings)` receives the member value as ONE item).
-/
import PycommProofs.CodecSpec
namespace Pycomm

theorem argOf_stringI (v : PyVal) : argOf .stringI v = .tuple [v] := rfl

theorem argOf_of_ne_stringI (t : Ty) (v : PyVal) (h : t ≠ .stringI) : argOf t v = v := by
  cases t <;> first | rfl | exact absurd rfl h

/-- a fixed-width type is not STRINGI -/
theorem argOf_of_fixedWidth (t : Ty) (w : Nat) (v : PyVal) (h : fixedWidth t = some w) : argOf t v = v := by
  apply argOf_of_ne_stringI
  intro e; subst e; simp [fixedWidth] at h

theorem argOf_of_isBits (t : Ty) (k : IntK) (v : PyVal) (h : t.isBits = some k) : argOf t v = v := by
  apply argOf_of_ne_stringI
  intro e; subst e; simp [Ty.isBits] at h

end Pycomm
