/-
  LogixDriver.write of MIXED shapes in one call: what the project after the sequence of accepted writes is.
    `ldwx_Wr`, `ldwx_applyAll`, `ldwx_targets`   the accepted writes `(instance, byte offset, bytes)` of a call, in order
    `ldwx_applyAll_eq`                            symbol by symbol: `ldwx_symAfter`
    `ldwx_symAfter_shape` / `_len` / `_untouched` / `_outside` / `_holds`   what `ldwx_symAfter` is
    `ldwx_Disj`, `ldwx_symAfter_perm`             pairwise disjoint writes commute: the order is irrelevant
-/
import PycommProofs.LDWMix5
namespace Pycomm.Lgx.Drv
open Pycomm Pycomm.Tgt Pycomm.Path Pycomm.Reply Pycomm.Encap Pycomm.Lgx Pycomm.Lgx.E2E

/-- one accepted write: instance id of the symbol, byte offset inside its memory, the bytes -/
abbrev ldwx_Wr := Nat × Nat × Bytes

def ldwx_Beh.target : ldwx_Beh → Option ldwx_Wr
  | .good inst off bytes => some (inst, off, bytes)
  | .refused _ => none

/-- the write the controller performs for the request, `none` for a refused one -/
def ldwx_Item.target (x : ldwx_Item) : Option ldwx_Wr := x.beh.target

/-- is the request accepted by the controller? -/
def ldwx_Item.accepted (x : ldwx_Item) : Bool := x.target.isSome

/-- the accepted writes of a call, in request order -/
def ldwx_targets (its : List ldwx_Item) : List ldwx_Wr := its.filterMap (·.target)

/-- the project after the writes, applied in order -/
def ldwx_applyAll (p : Project) : List ldwx_Wr → Project
  | [] => p
  | w :: rest => ldwx_applyAll (ldwx_wr p w.1 w.2.1 w.2.2) rest

theorem ldwx_apply_targets (its : List ldwx_Item) : ∀ p, ldwx_apply p (its.map (·.beh)) = ldwx_applyAll p (ldwx_targets its) := by
  induction its with
  | nil => intro p; rfl
  | cons x rest ih =>
    intro p
    unfold ldwx_targets
    rw [List.map_cons, List.filterMap_cons]
    cases hb : x.beh with
    | good inst off bytes =>
      have : x.target = some (inst, off, bytes) := by unfold ldwx_Item.target; rw [hb]; rfl
      rw [this]
      exact ih _
    | refused e =>
      have : x.target = none := by unfold ldwx_Item.target; rw [hb]; rfl
      rw [this]
      exact ih _

/-- the refused requests leave no trace: the accepted writes of a call are those of the call without the refused
    requests -/
theorem ldwx_targets_accepted (its : List ldwx_Item) : ldwx_targets (its.filter (·.accepted)) = ldwx_targets its := by
  induction its with
  | nil => rfl
  | cons x rest ih =>
    unfold ldwx_targets at ih ⊢
    cases ht : x.target with
    | none =>
      have ha : x.accepted = false := by unfold ldwx_Item.accepted; rw [ht]; rfl
      rw [List.filter_cons, ha]
      simp only [Bool.false_eq_true, if_false, List.filterMap_cons, ht]
      exact ih
    | some w =>
      have ha : x.accepted = true := by unfold ldwx_Item.accepted; rw [ht]; rfl
      rw [List.filter_cons, ha]
      simp only [if_true, List.filterMap_cons, ht, ih]

/-! ### symbol by symbol -/

/-- one write step on one symbol -/
def ldwx_stepSym (y : Symbol) (w : ldwx_Wr) : Symbol := if y.inst == w.1 then ldw2_sym y w.2.1 w.2.2 else y

/-- what the writes make of a symbol: the bytes of every write that addresses it spliced in, in order -/
def ldwx_symAfter (ws : List ldwx_Wr) (y : Symbol) : Symbol := ws.foldl ldwx_stepSym y

theorem ldwx_wr_step (p : Project) (w : ldwx_Wr) :
    ldwx_wr p w.1 w.2.1 w.2.2 =
      { p with controller := p.controller.map fun y => ldwx_stepSym y w,
               writeLog := p.writeLog ++ [(w.1, w.2.1, w.2.2.length)] } := rfl

/-- the project after the writes, symbol by symbol -/
theorem ldwx_applyAll_eq (ws : List ldwx_Wr) : ∀ p : Project,
    ldwx_applyAll p ws =
      { p with controller := p.controller.map (ldwx_symAfter ws),
               writeLog := p.writeLog ++ ws.map fun w => (w.1, w.2.1, w.2.2.length) } := by
  induction ws with
  | nil =>
    intro p
    have hid : p.controller.map (ldwx_symAfter []) = p.controller := by
      rw [show (ldwx_symAfter [] : Symbol → Symbol) = id from rfl, List.map_id]
    rw [hid]
    simp [ldwx_applyAll]
  | cons w rest ih =>
    intro p
    rw [ldwx_applyAll, ih, ldwx_wr_step]
    simp [List.map_map, Function.comp_def, List.append_assoc, ldwx_symAfter]

theorem ldwx_stepSym_shape (y : Symbol) (w : ldwx_Wr) :
    (ldwx_stepSym y w).inst = y.inst ∧ (ldwx_stepSym y w).name = y.name ∧
    (ldwx_stepSym y w).symbolType = y.symbolType ∧ (ldwx_stepSym y w).dims = y.dims := by
  unfold ldwx_stepSym
  split <;> exact ⟨rfl, rfl, rfl, rfl⟩

/-- a symbol keeps instance id, name, type word and dimensions -/
theorem ldwx_symAfter_shape (ws : List ldwx_Wr) : ∀ y : Symbol,
    (ldwx_symAfter ws y).inst = y.inst ∧ (ldwx_symAfter ws y).name = y.name ∧
    (ldwx_symAfter ws y).symbolType = y.symbolType ∧ (ldwx_symAfter ws y).dims = y.dims := by
  induction ws with
  | nil => intro y; exact ⟨rfl, rfl, rfl, rfl⟩
  | cons w rest ih =>
    intro y
    obtain ⟨a1, a2, a3, a4⟩ := ih (ldwx_stepSym y w)
    obtain ⟨b1, b2, b3, b4⟩ := ldwx_stepSym_shape y w
    exact ⟨a1.trans b1, a2.trans b2, a3.trans b3, a4.trans b4⟩

/-- a symbol no write addresses is unchanged -/
theorem ldwx_symAfter_untouched (ws : List ldwx_Wr) (y : Symbol) (h : ∀ w ∈ ws, w.1 ≠ y.inst) : ldwx_symAfter ws y = y := by
  induction ws with
  | nil => rfl
  | cons w rest ih =>
    have hw := h w List.mem_cons_self
    have hs : ldwx_stepSym y w = y := by
      unfold ldwx_stepSym
      have : (y.inst == w.1) = false := by simpa using fun e : y.inst = w.1 => hw e.symm
      rw [this]; rfl
    show ldwx_symAfter rest (ldwx_stepSym y w) = y
    rw [hs]
    exact ih (fun w' hw' => h w' (List.mem_cons_of_mem _ hw'))

/-- every write that addresses the symbol stays inside its memory -/
def ldwx_FitsSym (ws : List ldwx_Wr) (y : Symbol) : Prop := ∀ w ∈ ws, w.1 = y.inst → w.2.1 + w.2.2.length ≤ y.mem.length

theorem ldwx_stepSym_len (y : Symbol) (w : ldwx_Wr) (h : w.1 = y.inst → w.2.1 + w.2.2.length ≤ y.mem.length) :
    (ldwx_stepSym y w).mem.length = y.mem.length := by
  unfold ldwx_stepSym
  by_cases hi : (y.inst == w.1) = true
  · rw [if_pos hi]
    exact (splice_frame y.mem w.2.2 w.2.1 (h (by simpa using (beq_iff_eq.1 hi).symm))).1
  · rw [if_neg hi]

theorem ldwx_fits_step (ws : List ldwx_Wr) (w : ldwx_Wr) (y : Symbol) (h : ldwx_FitsSym (w :: ws) y) :
    ldwx_FitsSym ws (ldwx_stepSym y w) := by
  intro w' hw' hi
  rw [(ldwx_stepSym_shape y w).1] at hi
  rw [ldwx_stepSym_len y w (h w List.mem_cons_self)]
  exact h w' (List.mem_cons_of_mem _ hw') hi

/-- the memory keeps its length -/
theorem ldwx_symAfter_len (ws : List ldwx_Wr) : ∀ y : Symbol, ldwx_FitsSym ws y →
    (ldwx_symAfter ws y).mem.length = y.mem.length := by
  induction ws with
  | nil => intro y _; rfl
  | cons w rest ih =>
    intro y h
    show (ldwx_symAfter rest (ldwx_stepSym y w)).mem.length = _
    rw [ih _ (ldwx_fits_step rest w y h), ldwx_stepSym_len y w (h w List.mem_cons_self)]

/-- every byte outside all written ranges is unchanged -/
theorem ldwx_symAfter_outside (ws : List ldwx_Wr) : ∀ (y : Symbol) (j : Nat), ldwx_FitsSym ws y →
    (∀ w ∈ ws, w.1 = y.inst → j < w.2.1 ∨ w.2.1 + w.2.2.length ≤ j) → (ldwx_symAfter ws y).mem[j]? = y.mem[j]? := by
  induction ws with
  | nil => intro y j _ _; rfl
  | cons w rest ih =>
    intro y j hfit hout
    show (ldwx_symAfter rest (ldwx_stepSym y w)).mem[j]? = _
    rw [ih _ j (ldwx_fits_step rest w y hfit) (by
      intro w' hw' hi
      rw [(ldwx_stepSym_shape y w).1] at hi
      exact hout w' (List.mem_cons_of_mem _ hw') hi)]
    unfold ldwx_stepSym
    by_cases hi : (y.inst == w.1) = true
    · rw [if_pos hi]
      have he : w.1 = y.inst := by simpa using (beq_iff_eq.1 hi).symm
      exact (splice_frame y.mem w.2.2 w.2.1 (hfit w List.mem_cons_self he)).2.2 j (hout w List.mem_cons_self he)
    · rw [if_neg hi]

/-- two writes do not overlap: different symbols, or byte ranges that do not meet -/
def ldwx_Disj (a b : ldwx_Wr) : Prop := a.1 ≠ b.1 ∨ a.2.1 + a.2.2.length ≤ b.2.1 ∨ b.2.1 + b.2.2.length ≤ a.2.1

theorem ldwx_Disj_symm (a b : ldwx_Wr) (h : ldwx_Disj a b) : ldwx_Disj b a := by
  rcases h with h | h | h
  · exact Or.inl (fun e => h e.symm)
  · exact Or.inr (Or.inr h)
  · exact Or.inr (Or.inl h)

theorem ldwx_take_drop_congr (l1 l2 : Bytes) (off len : Nat)
    (h : ∀ j, off ≤ j → j < off + len → l1[j]? = l2[j]?) : (l1.drop off).take len = (l2.drop off).take len := by
  apply List.ext_getElem?
  intro k
  rw [List.getElem?_take, List.getElem?_take]
  by_cases hk : k < len
  · rw [if_pos hk, if_pos hk, List.getElem?_drop, List.getElem?_drop]
    exact h (off + k) (by omega) (by omega)
  · rw [if_neg hk, if_neg hk]

/-- with pairwise disjoint writes, the bytes of EVERY write are in the memory afterwards -/
theorem ldwx_symAfter_holds (ws : List ldwx_Wr) : ∀ y : Symbol, ldwx_FitsSym ws y → ws.Pairwise ldwx_Disj →
    ∀ w ∈ ws, w.1 = y.inst → ((ldwx_symAfter ws y).mem.drop w.2.1).take w.2.2.length = w.2.2 := by
  induction ws with
  | nil => intro y _ _ w hw; cases hw
  | cons a rest ih =>
    intro y hfit hpw w hw hi
    rw [List.pairwise_cons] at hpw
    have hfit' := ldwx_fits_step rest a y hfit
    rcases List.mem_cons.1 hw with rfl | hw'
    · -- the first write: nothing later touches its range
      have hstep : ldwx_stepSym y w = ldw2_sym y w.2.1 w.2.2 := by
        unfold ldwx_stepSym
        have : (y.inst == w.1) = true := by simpa using hi.symm
        rw [if_pos this]
      have hin := hfit w List.mem_cons_self hi
      have h0 : ((ldwx_stepSym y w).mem.drop w.2.1).take w.2.2.length = w.2.2 := by
        rw [hstep]; exact (splice_frame y.mem w.2.2 w.2.1 hin).2.1
      refine Eq.trans ?_ h0
      show ((ldwx_symAfter rest (ldwx_stepSym y w)).mem.drop w.2.1).take w.2.2.length = _
      apply ldwx_take_drop_congr
      intro j hj1 hj2
      apply ldwx_symAfter_outside rest _ j hfit'
      intro w' hw' hi'
      rw [(ldwx_stepSym_shape y w).1] at hi'
      rcases hpw.1 w' hw' with hd | hd | hd
      · exact absurd (hi.trans hi'.symm) hd
      · omega
      · omega
    · show ((ldwx_symAfter rest (ldwx_stepSym y a)).mem.drop w.2.1).take w.2.2.length = _
      exact ih _ hfit' hpw.2 w hw' (by rw [(ldwx_stepSym_shape y a).1]; exact hi)

/-! ### disjoint writes commute -/

/-- the bytes of a memory after a write inside it -/
theorem ldwx_splice_get (m b : Bytes) (o j : Nat) (h : o + b.length ≤ m.length) :
    (splice m o b)[j]? = if o ≤ j ∧ j < o + b.length then b[j - o]? else m[j]? := by
  obtain ⟨_, h2, h3⟩ := splice_frame m b o h
  by_cases hj : o ≤ j ∧ j < o + b.length
  · rw [if_pos hj]
    have : ((splice m o b).drop o).take b.length = b := h2
    have e : (((splice m o b).drop o).take b.length)[j - o]? = b[j - o]? := by rw [this]
    rw [List.getElem?_take, if_pos (by omega), List.getElem?_drop] at e
    rw [← e]
    congr 1
    omega
  · rw [if_neg hj]
    exact h3 j (by omega)

theorem ldwx_splice_comm (m b1 b2 : Bytes) (o1 o2 : Nat) (h1 : o1 + b1.length ≤ m.length) (h2 : o2 + b2.length ≤ m.length)
    (hd : o1 + b1.length ≤ o2 ∨ o2 + b2.length ≤ o1) :
    splice (splice m o1 b1) o2 b2 = splice (splice m o2 b2) o1 b1 := by
  have l1 := (splice_frame m b1 o1 h1).1
  have l2 := (splice_frame m b2 o2 h2).1
  apply List.ext_getElem?
  intro j
  rw [ldwx_splice_get (splice m o1 b1) b2 o2 j (by rw [l1]; exact h2),
    ldwx_splice_get (splice m o2 b2) b1 o1 j (by rw [l2]; exact h1),
    ldwx_splice_get m b1 o1 j h1, ldwx_splice_get m b2 o2 j h2]
  by_cases c1 : o1 ≤ j ∧ j < o1 + b1.length <;> by_cases c2 : o2 ≤ j ∧ j < o2 + b2.length
  · exfalso; omega
  · simp only [c1, c2, and_self, if_true, if_false]
  · simp only [c1, c2, and_self, if_true, if_false]
  · simp only [c1, c2, if_false]

theorem ldwx_stepSym_pos (y : Symbol) (w : ldwx_Wr) (h : y.inst = w.1) : ldwx_stepSym y w = ldw2_sym y w.2.1 w.2.2 := by
  unfold ldwx_stepSym
  rw [if_pos (by simpa using h)]

theorem ldwx_stepSym_neg (y : Symbol) (w : ldwx_Wr) (h : y.inst ≠ w.1) : ldwx_stepSym y w = y := by
  unfold ldwx_stepSym
  rw [if_neg (by simpa using h)]

theorem ldwx_stepSym_comm (y : Symbol) (a b : ldwx_Wr) (hd : ldwx_Disj a b)
    (ha : a.1 = y.inst → a.2.1 + a.2.2.length ≤ y.mem.length) (hb : b.1 = y.inst → b.2.1 + b.2.2.length ≤ y.mem.length) :
    ldwx_stepSym (ldwx_stepSym y a) b = ldwx_stepSym (ldwx_stepSym y b) a := by
  by_cases hia : y.inst = a.1 <;> by_cases hib : y.inst = b.1
  · have hdd : a.2.1 + a.2.2.length ≤ b.2.1 ∨ b.2.1 + b.2.2.length ≤ a.2.1 := by
      rcases hd with h | h | h
      · exact absurd (hia.symm.trans hib) h
      · exact Or.inl h
      · exact Or.inr h
    rw [ldwx_stepSym_pos y a hia, ldwx_stepSym_pos y b hib, ldwx_stepSym_pos _ b (by exact hib),
      ldwx_stepSym_pos _ a (by exact hia)]
    show ({ y with mem := splice (splice y.mem a.2.1 a.2.2) b.2.1 b.2.2 } : Symbol) =
      { y with mem := splice (splice y.mem b.2.1 b.2.2) a.2.1 a.2.2 }
    rw [ldwx_splice_comm y.mem a.2.2 b.2.2 a.2.1 b.2.1 (ha hia.symm) (hb hib.symm) hdd]
  · rw [ldwx_stepSym_pos y a hia, ldwx_stepSym_neg y b hib, ldwx_stepSym_neg _ b (by exact hib), ldwx_stepSym_pos y a hia]
  · rw [ldwx_stepSym_neg y a hia, ldwx_stepSym_pos y b hib, ldwx_stepSym_neg _ a (by exact hia)]
  · rw [ldwx_stepSym_neg y a hia, ldwx_stepSym_neg y b hib, ldwx_stepSym_neg y a hia]

theorem ldwx_fits_perm (l1 l2 : List ldwx_Wr) (h : l1.Perm l2) (y : Symbol) (hf : ldwx_FitsSym l1 y) : ldwx_FitsSym l2 y :=
  fun w hw => hf w (h.mem_iff.2 hw)

theorem ldwx_fits_shape (ws : List ldwx_Wr) (y y' : Symbol) (hi : y'.inst = y.inst) (hl : y'.mem.length = y.mem.length)
    (hf : ldwx_FitsSym ws y) : ldwx_FitsSym ws y' := by
  intro w hw e
  rw [hl]
  exact hf w hw (by rw [e, hi])

/-- the ORDER of pairwise disjoint writes is irrelevant for the memory: any permutation of them leaves every symbol
    with the same bytes -/
theorem ldwx_symAfter_perm (l1 l2 : List ldwx_Wr) (h : l1.Perm l2) :
    ∀ y : Symbol, ldwx_FitsSym l1 y → l1.Pairwise ldwx_Disj → ldwx_symAfter l1 y = ldwx_symAfter l2 y := by
  induction h with
  | nil => intro y _ _; rfl
  | cons x _ ih =>
    intro y hf hp
    rw [List.pairwise_cons] at hp
    exact ih (ldwx_stepSym y x) (ldwx_fits_step _ x y hf) hp.2
  | swap a b l =>
    intro y hf hp
    show ldwx_symAfter l (ldwx_stepSym (ldwx_stepSym y b) a) = ldwx_symAfter l (ldwx_stepSym (ldwx_stepSym y a) b)
    rw [List.pairwise_cons] at hp
    have hab : ldwx_Disj b a := hp.1 a List.mem_cons_self
    rw [ldwx_stepSym_comm y b a hab (hf b List.mem_cons_self) (hf a (List.mem_cons_of_mem _ List.mem_cons_self))]
  | trans h12 _ ih1 ih2 =>
    intro y hf hp
    rw [ih1 y hf hp]
    exact ih2 y (ldwx_fits_perm _ _ h12 y hf)
      ((h12.pairwise_iff (fun {a b} hab => ldwx_Disj_symm a b hab)).1 hp)

/-! ### the writes of accepted requests stay inside their symbols -/

/-- from the facts about the requests: every accepted write addresses a symbol of the project that is the only one
    with its instance id, and stays inside its memory -/
theorem ldwx_target_fits (cfg : Cfg) (p : Project) (x : ldwx_Item) (h : ldwx_Facts cfg p (x.it cfg) x.beh x.out)
    (w : ldwx_Wr) (hw : x.target = some w) :
    ∃ s ∈ p.controller, s.inst = w.1 ∧ (∀ y ∈ p.controller, y.inst = w.1 → y = s) ∧ w.2.1 + w.2.2.length ≤ s.mem.length := by
  unfold ldwx_Item.target at hw
  have hb := h.beh
  cases hbeh : x.beh with
  | refused e => rw [hbeh] at hw; cases hw
  | good inst off bytes =>
    rw [hbeh] at hw hb
    cases hw
    obtain ⟨_, _, _, s, n, sz, _, _, _, _, _, _, _, _, _, _, hs, hsi, huniq, _, hbl, hfit⟩ := hb
    exact ⟨s, hs, hsi, huniq, by show off + bytes.length ≤ _; rw [hbl]; exact hfit⟩

end Pycomm.Lgx.Drv
