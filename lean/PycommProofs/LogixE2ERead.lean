/-
  End-to-end laws of the Logix tag services at the message-router level (reads and multi-service): the request messages the
  client builds (PycommModel/Logix/Client.lean), handed to the reference controller
  (PycommModel/Logix/Services.lean), produce exactly the reply / effect that C01–C04 speak about — for every
  project, location, element count, value, connection size and fragment schedule.
-/
import PycommProofs.LE2EDefs
import PycommProofs.GenericProofs
import PycommProofs.LogixBitsProofs
import PycommProofs.LogixPlanProofs
import PycommProofs.CodecRoundTrip
import PycommProofs.LE2RBasic
import PycommProofs.LE2RMulti
import PycommProofs.LE2RRead
import PycommProofs.LE2RFrag
namespace Pycomm.Lgx.E2E
open Pycomm Pycomm.Tgt Pycomm.Path Pycomm.Lgx Pycomm.Lgx.Cl

-- PROPERTY THEOREMS

/-- C01: a Read Tag request for `n` elements at a resolvable address returns status 0 and exactly the type
    marker followed by the bytes the controller holds there, whenever they fit the connection; the project
    is unchanged -/
theorem read_e2e (st : LState) (cap : Nat) (path : Bytes) (segs : List PSeg) (loc : Loc) (n : Nat) (bs : Bytes)
    (hp : Denotes path segs) (hr : resolve st.proj segs = .ok loc)
    (hn : 1 ≤ n ∧ n ≤ loc.avail ∧ n < 65536)
    (hb : readBytes st.proj loc n = some bs)
    (hfit : bs.length + 4 + (typeBytes st.proj loc.ty).length ≤ cap) :
    exchange st cap (readMsg path n) =
      ({ st with ctr := st.ctr + 1 }, { status := 0, data := typeBytes st.proj loc.ty ++ bs }) := by
  rw [readMsg, exchange_tag st cap 0x4C path (le 2 n) segs loc hp hr (by decide)]
  exact readTag_plain st loc n cap bs hn hb hfit

/-- C01: the client decodes such a reply to the values whose encoding the controller holds (arrays of any
    elementary non-bit-string type; `{1}` requests yield the element itself) -/
theorem read_reply_decodes (c n : Nat) (t : Ty) (vs : List PyVal) (bs : Bytes)
    (ht : atomicTy c = some t) (hb : t.isBits = none) (hn : vs.length = n)
    (hv : ∀ x ∈ vs, Canon t x) (he : encode (.arr (.fixed n) t) (.list vs) = .ok bs) :
    parseReadReply (le 2 c ++ bs) t true n =
      .ok (if n = 1 then vs.headD .none else .list vs) := by
  have hc : Canon (.arr (.fixed n) t) (.list vs) := by
    rw [Canon]; exact ⟨vs, rfl, hn, hb, hv⟩
  obtain ⟨bs', h1, h2⟩ := decode_encode _ _ hc
  rw [he] at h1; cases h1
  have := h2 []
  rw [List.append_nil] at this
  simp only [parseReadReply, splitTyped_atomic c t ht, if_true, this, hb, and_true]
  by_cases h1 : n = 1
  · subst h1
    match vs, hn with
    | [x], _ => simp
  · simp [h1]

/-- C01: scalar tags -/
theorem read_reply_decodes_scalar (c : Nat) (t : Ty) (v : PyVal) (bs : Bytes)
    (ht : atomicTy c = some t) (hv : Canon t v) (he : encode t v = .ok bs) :
    parseReadReply (le 2 c ++ bs) t false 1 = .ok v := by
  obtain ⟨bs', h1, h2⟩ := decode_encode t v hv
  rw [he] at h1; cases h1
  have := h2 []
  rw [List.append_nil] at this
  simp only [parseReadReply, splitTyped_atomic c t ht, Bool.false_eq_true, if_false, this]

/-- C01/C04: the fragmented read loop reassembles exactly the bytes the controller holds, whatever sizes the
    controller chooses for the fragments (every cyclic schedule) and for every connection size that leaves
    room for one value byte; the project is unchanged -/
theorem read_frag_e2e (st : LState) (cap : Nat) (path : Bytes) (segs : List PSeg) (loc : Loc) (n : Nat) (bs : Bytes)
    (fuel : Nat)
    (hp : Denotes path segs) (hr : resolve st.proj segs = .ok loc) (hty : TyOk loc.ty)
    (hn : 1 ≤ n ∧ n ≤ loc.avail ∧ n < 65536)
    (hb : readBytes st.proj loc n = some bs) (hne : bs ≠ []) (hlen : bs.length < 2 ^ 32)
    (hroom : 4 + (typeBytes st.proj loc.ty).length + 1 ≤ cap) (hfuel : bs.length ≤ fuel) :
    ∃ st', readFragLoop path n cap fuel st 0 [] = (st', .ok (typeBytes st.proj loc.ty, bs)) ∧ st'.proj = st.proj := by
  have := frag_inv st.proj cap path segs loc n bs hp hr hty hn hb hlen hroom fuel st 0 rfl
    (List.length_pos_iff.mpr hne) (by omega)
  simpa using this

/-- C03: a multi-service request is executed as its embedded requests one after the other, each on the state
    the previous one left, and the reply packs their replies in order; the outer status is 0x1E exactly when
    an embedded one failed -/
theorem multi_e2e (st : LState) (cap : Nat) (msgs : List Bytes) (hne : msgs ≠ [])
    (hsz : 2 + 2 * msgs.length + (msgs.map (·.length)).sum < 65536) (hpos : ∀ m ∈ msgs, m ≠ []) :
    exchange st cap (multiMsg msgs) =
      ((execEmbedded cap st msgs).1,
       { status := if (execEmbedded cap st msgs).2.any (fun r => r.getD 2 0 != 0) then 0x1E else 0,
         data := K.packMulti (execEmbedded cap st msgs).2 }) := by
  have hpm := K.target_unpacks_packed msgs hne hpos (by rw [← List.sum_eq_foldl]; exact hsz)
  unfold exchange multiMsg
  rw [parseMR_multi]
  simp only [logixService, Option.getD_some, and_self, if_true, multiService, hpm]
  rw [multi_reply_data]

/-- C03: position-faithful: one reply per embedded request -/
theorem multi_reply_count (st : LState) (cap : Nat) (msgs : List Bytes) :
    (execEmbedded cap st msgs).2.length = msgs.length := by
  induction msgs generalizing st with
  | nil => simp [execEmbedded]
  | cons m rest ih => rw [execEmbedded_cons]; simp [ih]

/-- C03 (isolation): the reply to an embedded request that is not a nested multi-service request is the reply
    the same request gets on its own, from the state its predecessors left -/
theorem multi_isolation (st : LState) (cap : Nat) (pre : List Bytes) (m : Bytes) (post : List Bytes) (req : MRReq)
    (hm : parseMR m = some req) (hnm : req.service ≠ 0x0A) :
    let st1 := (execEmbedded cap st pre).1
    (execEmbedded cap st (pre ++ m :: post)).2[pre.length]? =
      some (encMRReply req.service (exchange st1 cap m).2) ∧
    (execEmbedded cap st (pre ++ m :: post)).1 = (execEmbedded cap (exchange st1 cap m).1 post).1 := by
  induction pre generalizing st with
  | nil =>
    simp only [List.nil_append, List.length_nil]
    rw [execEmbedded_cons, embStep_exchange cap st m req hm hnm]
    simp [execEmbedded]
  | cons p pre ih =>
    simp only [List.cons_append, List.length_cons]
    rw [execEmbedded_cons, execEmbedded_cons]
    simp only [List.getElem?_cons_succ]
    exact ih _

end Pycomm.Lgx.E2E
