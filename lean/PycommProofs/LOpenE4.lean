/-
  LogixDriver.open(), end to end, part 4: `get_plc_name()` on a connected driver (the program-name object of the
  reference target), the firmware revision `get_plc_info` left in `_info`, and the fresh world.
-/
import PycommProofs.LOpenE3
import PycommProofs.IdentityE2E
import PycommProofs.GenericE2E
namespace Pycomm.Lgx.Opn
open Pycomm Pycomm.Tgt Pycomm.Path Pycomm.Reply Pycomm.Encap Pycomm.Cli Pycomm.Ident

/-- STRING (`.str .uint .latin1`): a 16-bit length and that many Latin-1 bytes (also the empty string) -/
theorem loe_decode_string (name r : Bytes) (h : name.length < 65536) :
    decode (.str .uint .latin1) (leBytes 2 name.length ++ name ++ r) = .ok (.str (name.map (·.toNat)), r) := by
  have hd := RT.decodeIntNat_append .uint name.length (name ++ r) (by simpa [IntK.size] using h)
  simp only [IntK.size] at hd
  rw [List.append_assoc]
  simp only [decode, decodeStr, hd, bind, Except.bind]
  cases name with
  | nil => simp
  | cons x xs =>
    have : streamRead ((xs.length : Int) + 1) (x :: (xs ++ r)) = .ok (x :: xs, r) := by
      simpa using RT.streamRead_append (x :: xs) r (x :: xs).length rfl (by simp)
    simp [charWidth, this, Text.decode, Text.decLatin1]

theorem loe_unitBase_plcName (b : Base) (session cid seq : Nat) (c : Conn) :
    (ldr_unitBase b session cid seq c).plcName = b.plcName := by
  unfold ldr_unitBase; dsimp only; split <;> rfl

/-- `get_plc_name()` on a healthy connected driver, any object hook: one connected request (Get_Attributes_All of the
    program-name object, class 0x64 instance 1), the answer is the controller's program name (Latin-1); one sequence
    number is drawn; the world is healthy again; the target's extension state is untouched -/
theorem loe_getPlcName {σ} (hook : ObjHook σ) (w : World σ) (sess : Nat) (cidb : Bytes) (conn : Conn)
    (hw : gme_Healthy w sess cidb conn) (hsize : 22 ≤ conn.size) (hlen : w.net.target.base.plcName.length < 65536) :
    ∃ w' frm, getPlcName hook w = (w', .ok (w.net.target.base.plcName.map (·.toNat))) ∧
      gme_Healthy w' sess cidb { conn with lastSeq := some w.drv.nextSeq.1 } ∧
      w'.drv = w.drv.nextSeq.2 ∧ w'.net.sent = w.net.sent ++ [frm] ∧ w'.net.target.ext = w.net.target.ext := by
  obtain ⟨frm, f, rp, value, err, _, _, _, _, _, _, hgm, htag⟩ := gme_connected_core hook w sess cidb conn
    { service := 0x01, cls := .bytes [0x64], inst := .int 1, dataType := some (.str .uint .latin1), name := nm "get_plc_name" }
    0x64 1 none hw rfl (by decide) (gme_Id.bytes [0x64] (.inl rfl)) (gme_Id.int 1 (by decide)) .absent
    (by show 0 + 22 ≤ conn.size; omega) (by decide)
  -- the program-name object answers
  have hd := gme_dispatch_base hook
    (gme_connIn w.net.target sess (leVal cidb) w.drv.nextSeq.1 conn
      { service := 0x01, path := gme_wantPath 0x64 1 none, data := [] })
    sess (some (conn.size - 2)) true { service := 0x01, path := gme_wantPath 0x64 1 none, data := [] }
    (gme_connIn w.net.target sess (leVal cidb) w.drv.nextSeq.1 conn
      { service := 0x01, path := gme_wantPath 0x64 1 none, data := [] }).base
    { data := le 2 w.net.target.base.plcName.length ++ w.net.target.base.plcName } (by decide)
    (by
      have hp : (gme_connIn w.net.target sess (leVal cidb) w.drv.nextSeq.1 conn
          { service := 0x01, path := gme_wantPath 0x64 1 none, data := [] }).base.plcName = w.net.target.base.plcName :=
        loe_unitBase_plcName w.net.target.base sess (leVal cidb) w.drv.nextSeq.1 conn
      rw [← hp]
      rfl)
  have hreq : gme_reqOf
      { service := 0x01, cls := .bytes [0x64], inst := .int 1, dataType := some (.str .uint .latin1), name := nm "get_plc_name" }
      0x64 1 none = { service := 0x01, path := gme_wantPath 0x64 1 none, data := [] } := rfl
  rw [hreq] at hgm htag
  rw [hd] at hgm htag
  dsimp only at hgm htag
  have hdec := loe_decode_string w.net.target.base.plcName [] hlen
  rw [List.append_nil] at hdec
  obtain ⟨hv, he⟩ := htag.okTyped (.str .uint .latin1) _ [] (gme_accepted_zero _ _) rfl (by
    show decode _ (gme_payload { data := le 2 w.net.target.base.plcName.length ++ w.net.target.base.plcName }) = _
    exact hdec)
  rw [hv, he] at hgm
  have hfo : ensureForwardOpen hook FUEL w = (w, .ok ()) := gme_ensureFO_connected hook 7 w hw.connected
  generalize hWd : gme_after w w.drv.nextSeq.snd frm (ldr_unitAfter _ conn _) = W at hgm
  refine ⟨W, frm, ?_, ?_, ?_, ?_, ?_⟩
  · unfold getPlcName
    rw [hfo]
    dsimp only
    rw [hgm]
    rfl
  · rw [← hWd]
    exact gme_Healthy_after hw frm w.drv.nextSeq.1 _ _ _ rfl rfl
  · rw [← hWd]; rfl
  · rw [← hWd]; rfl
  · rw [← hWd]
    show (ldr_unitAfter _ conn _).ext = _
    rw [ldr_unitAfter_ext]
    rfl

/-- the firmware revision `_initialize_driver` reads back from what `get_plc_info` stored -/
theorem loe_revisionMajor (idn : Identity) : revisionMajor { plc := ide_presentInfo idn } = idn.major := rfl

end Pycomm.Lgx.Opn
