/-
  LogixDriver.read of mixed shapes: the two generic ways an entry satisfies `ldmx_EntOk` —
    `ldmx_served_ok`   the `plc_tag` resolves to a location of the controller, the Read Tag service is answered with the
                       type bytes and the bytes held there, `parse_read_reply` decodes them;
    `ldmx_refused_ok`  the controller's resolver rejects the address with a status;
  and the result-loop lemmas over an arbitrary results table (`rs.get? rid = some t`) for an integer bit and a
  BOOL-array element.
-/
import PycommProofs.LDMix2
import PycommProofs.LogixDriverRead2
namespace Pycomm.Lgx.Drv
open Pycomm Pycomm.Tgt Pycomm.Path Pycomm.Reply Pycomm.Encap Pycomm.Lgx Pycomm.Lgx.E2E

/-- a request path that denotes at least one segment has at least three bytes (word count + one word) -/
theorem ldmx_den_len (p : Bytes) (segs : List PSeg) (h : Denotes p segs) (hne : segs ≠ []) : 3 ≤ p.length := by
  cases p with
  | nil => simp [Denotes, parseRequestPath] at h
  | cons n rest =>
    unfold Denotes parseRequestPath at h
    simp only at h
    split at h
    · cases h
    · rename_i hlen
      by_cases hn : n.toNat = 0
      · rw [hn] at h
        simp only [Nat.mul_zero, List.take_zero, Nat.zero_add, parsePadded, Option.map_some, Option.some.injEq,
          Prod.mk.injEq] at h
        exact absurd h.1.symm hne
      · simp only [List.length_cons]
        omega

/-- the estimate of an entry in terms of its path length -/
theorem ldmx_estE_eq (e : ldmx_Ent) : ldmx_estE e = tagReturnSize e.info e.els + e.path.length + 7 := by
  unfold ldmx_estE
  have : (Cl.readMsg e.path e.els).length = e.path.length + 3 := by simp [Cl.readMsg, le, RT.leBytes_length]
  omega

/-- an entry whose `plc_tag` resolves to a location `loc` of the controller, read with `e.els` elements: the answer
    is status 0 with the type bytes and the bytes `bs` held there; `(v, dt)` is what `parse_read_reply` makes of it -/
theorem ldmx_served_ok (cfg : Cfg) (st : LState) (cap : Nat) (e : ldmx_Ent) (loc : Loc) (bs : Bytes) (v : PyVal) (dt : Name)
    (hparse : ∀ rid, parseTagRequest cfg.tags false rid e.tag = ldmx_parsedAt rid e)
    (hpath : requestPathOf cfg e.plc e.info = .ok e.path) (hden : Denotes e.path e.segs)
    (hr : resolve st.proj e.segs = .ok loc)
    (hn : 1 ≤ e.els ∧ e.els ≤ loc.avail ∧ e.els < 65536) (hb : readBytes st.proj loc e.els = some bs)
    (hreply : e.reply = { status := 0, data := typeBytes st.proj loc.ty ++ bs }) (hadv : e.adv = 1)
    (hprr : parseReadReply (typeBytes st.proj loc.ty ++ bs) e.info e.els = .ok (v, dt))
    (hrcd : e.rcd = { tag := e.plc, value := v, type := some dt, error := none })
    (hres : ∀ (rid : Nat) (rs : Results), rs.get? rid = some e.rcd → readResult (ldmx_parsedAt rid e) rs = e.res)
    (hrlen : bs.length + (typeBytes st.proj loc.ty).length + 6 ≤ ldmx_estE e)
    (hc : ldmx_estE e + 10 ≤ cap + 2) : ldmx_EntOk cfg st cap e := by
  have hcap : bs.length + 4 + (typeBytes st.proj loc.ty).length ≤ cap := by omega
  refine ⟨hparse, by omega, hpath, hden, ?_, ?_, ?_, hres⟩
  · intro k
    rw [hreply, hadv]
    exact read_e2e { st with ctr := st.ctr + k } cap e.path e.segs loc e.els bs hden hr hn hb hcap
  · rw [hreply, ldx_encMRReply_length]
    simp only [List.length_nil, List.length_append]
    omega
  · intro rs q rest htag hinfo hel
    have hrp := ldr2_readResp_padded q (typeBytes st.proj loc.ty ++ bs) v dt (by rw [hinfo, hel]; exact hprr)
    rw [hreply, hrcd, multiReadResults]
    simp only [hrp.1, hrp.2, if_true]
    rw [htag]

/-- an entry whose address the controller's resolver rejects with status `err`: the answer is the refusal, nothing is
    served, the recorded Tag is falsy and carries the status text -/
theorem ldmx_refused_ok (cfg : Cfg) (st : LState) (cap : Nat) (e : ldmx_Ent) (err : Nat)
    (hparse : ∀ rid, parseTagRequest cfg.tags false rid e.tag = ldmx_parsedAt rid e) (hel : e.els ≤ 65535)
    (hpath : requestPathOf cfg e.plc e.info = .ok e.path) (hden : Denotes e.path e.segs)
    (hr : resolve st.proj e.segs = .error err) (htp : ldx_TagPath e.segs) (he : err ≠ 0) (he8 : err < 256)
    (hreply : e.reply = ldx_refusal err) (hadv : e.adv = 0)
    (hrcd : e.rcd = { tag := e.plc, value := .none, type := none,
                      error := some (.reply (.text (ldx_errText (ldx_refusal err)))) })
    (hres : e.res = { tag := e.user, value := .none, type := none,
                      error := some (.reply (.text (ldx_errText (ldx_refusal err)))) })
    (hrlen : (encMRReply 0x4C (ldx_refusal err)).length + 2 ≤ ldmx_estE e) : ldmx_EntOk cfg st cap e := by
  obtain ⟨f1, f2, f3⟩ := ldx_refusal_facts err he he8
  refine ⟨hparse, hel, hpath, hden, ?_, ?_, ?_, ?_⟩
  · intro k
    rw [hreply, hadv]
    exact ldx_exchange_refused { st with ctr := st.ctr + k } cap 0x4C e.path (le 2 e.els) e.segs err hden hr (Or.inl rfl) htp
  · rw [hreply]; exact hrlen
  · intro rs q rest htag _ _
    have hrp := ldx_readResp_refused_padded q (ldx_refusal err) f1 f2 f3
    rw [hreply, hrcd, multiReadResults]
    simp only [hrp.1, hrp.2, Bool.false_eq_true, if_false]
    rw [htag]
  · intro rid rs hget
    rw [hres]
    have := ldx_readResult_falsy (ldmx_parsedAt rid e) e.info e.rcd rs rfl rfl hget
      (ldx_falsy_of_error _ _ (by rw [hrcd]))
    rw [this, hrcd]
    rfl

/-! ### (f) the result loop over any results table -/

/-- (f) an error-free request with a bit number on an integer tag whose response was recorded as a Tag with an integer
    value: a BOOL Tag named as the caller wrote it -/
theorem ldmx_readResult_bit (p : Parsed) (info : TagInfo) (t : LTag) (rs : Results) (b : Nat) (bv : Bool)
    (herr : p.error = none) (hinfo : p.info = some info) (hbit : p.bit = some (b : Int))
    (hnd : info.core.dataTypeName ≠ nm "DWORD") (hv : bitOfValue t.value (b : Int) = some bv) (hte : t.error = none)
    (hget : rs.get? p.requestId = some t) :
    readResult p rs = { tag := p.userTag, value := .bool bv, type := some (nm "BOOL"), error := none } := by
  have htr : t.truthy = true := by
    unfold LTag.truthy
    rw [hte]
    cases hval : t.value <;> simp_all [bitOfValue, PyVal.asIndex]
  have hdw : (info.core.dataTypeName != nm "DWORD") = true := by simpa using hnd
  unfold readResult
  simp only [herr, hinfo, hget, htr, if_true, hdw, hbit, hv, hte]

/-- (f) an error-free one-element request on a BOOL-array tag whose response was recorded as a Tag with a list value:
    the element at the bit index, as a BOOL Tag named as the caller wrote it -/
theorem ldmx_readResult_dword (p : Parsed) (info : TagInfo) (t : LTag) (rs : Results) (xs : List PyVal) (i : Nat) (v : PyVal)
    (herr : p.error = none) (hinfo : p.info = some info) (hbit : p.bit = some (i : Int)) (hbe : p.boolElements = none)
    (hd : info.core.dataTypeName = nm "DWORD") (hv : t.value = .list xs) (hte : t.error = none)
    (hx : xs[i]? = some v) (hget : rs.get? p.requestId = some t) :
    readResult p rs = { tag := p.userTag, value := v, type := some (nm "BOOL"), error := none } := by
  have htr : t.truthy = true := by
    unfold LTag.truthy
    rw [hte, hv]; rfl
  have hdw : (info.core.dataTypeName != nm "DWORD") = false := by rw [hd]; simp
  have hlt : i < xs.length := by
    by_cases h : i < xs.length
    · exact h
    · rw [List.getElem?_eq_none (by omega)] at hx; cases hx
  have hpi : pyIndex xs (i : Int) = some v := by
    unfold pyIndex
    have h1 : ¬ ((i : Int) < 0) := by omega
    simp only [h1, if_false, Int.toNat_natCast]
    rw [if_pos (by omega), hx]
  unfold readResult
  simp only [herr, hinfo, hget, htr, if_true, hdw, Bool.false_eq_true, if_false, hbit, Option.getD_some, hv, PyVal.seq?,
    hbe, hpi, hte]

end Pycomm.Lgx.Drv
