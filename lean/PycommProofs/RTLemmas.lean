/-
  Helper lemmas for the round-trip proofs (C06): bytes, integers, stream reads.
-/
import PycommProofs.CodecSpec
import PycommProofs.ArgOf
namespace Pycomm.RT
open Pycomm

/-! ### little-endian bytes -/

theorem leBytes_length (w n : Nat) : (leBytes w n).length = w := by
  induction w generalizing n with
  | zero => simp [leBytes]
  | succ w ih => simp [leBytes, ih]

theorem toNat_ofNat (n : Nat) : (UInt8.ofNat n).toNat = n % 256 := by
  simp [UInt8.toNat_ofNat']

theorem leVal_leBytes (w n : Nat) (h : n < 256 ^ w) : leVal (leBytes w n) = n := by
  induction w generalizing n with
  | zero => simp [leBytes, leVal] at *; omega
  | succ w ih =>
    have h' : n / 256 < 256 ^ w := by
      rw [Nat.pow_succ] at h
      exact Nat.div_lt_of_lt_mul (by omega)
    simp only [leBytes, leVal, toNat_ofNat, ih _ h']
    omega

theorem leBytes_ne_nil (w n : Nat) (h : 0 < w) : leBytes w n ≠ [] := by
  intro e
  have := leBytes_length w n
  rw [e] at this
  simp at this
  omega

theorem take_append_len {α} (a b : List α) (n : Nat) (h : a.length = n) : (a ++ b).take n = a := by
  subst h; simp

theorem drop_append_len {α} (a b : List α) (n : Nat) (h : a.length = n) : (a ++ b).drop n = b := by
  subst h; simp

/-! ### stream reads -/

theorem streamRead_append (a rest : Bytes) (n : Nat) (h : a.length = n) (hne : a ≠ []) :
    streamRead (n : Int) (a ++ rest) = .ok (a, rest) := by
  unfold streamRead
  have h1 : ¬ ((n : Int) < 0) := by omega
  simp only [h1, if_false, Int.toNat_natCast, take_append_len a rest n h, drop_append_len a rest n h]
  cases a with
  | nil => exact absurd rfl hne
  | cons x xs => simp

theorem streamRead_nil (n : Int) : streamRead n [] = .error .bufferEmpty := by
  unfold streamRead
  split <;> simp

theorem IntK.size_pos (k : IntK) : 0 < k.size := by cases k <;> simp [IntK.size]

theorem decodeIntNat_append (k : IntK) (n : Nat) (rest : Bytes) (h : n < 256 ^ k.size) :
    decodeIntNat k (leBytes k.size n ++ rest) = .ok (n, rest) := by
  unfold decodeIntNat
  rw [streamRead_append _ _ _ (leBytes_length _ _) (leBytes_ne_nil _ _ (IntK.size_pos k))]
  simp [leBytes_length, leVal_leBytes _ _ h, bind, Except.bind]

theorem decodeIntNat_nil (k : IntK) : decodeIntNat k [] = .error .bufferEmpty := by
  unfold decodeIntNat
  rw [streamRead_nil]; rfl

theorem ofSigned_lt (k : IntK) (i : Int) (h1 : k.lo ≤ i) (h2 : i ≤ k.hi) :
    ofSigned k.size i < 256 ^ k.size := by
  cases k <;> simp [IntK.lo, IntK.hi, IntK.size, IntK.signed, ofSigned] at * <;> split <;> omega

theorem toSigned_ofSigned (k : IntK) (i : Int) (h1 : k.lo ≤ i) (h2 : i ≤ k.hi) :
    (if k.signed then toSigned k.size (ofSigned k.size i) else ((ofSigned k.size i : Nat) : Int)) = i := by
  cases k <;> simp [IntK.lo, IntK.hi, IntK.size, IntK.signed, ofSigned, toSigned] at * <;> split <;> omega

theorem packInt_int (k : IntK) (i : Int) (h1 : k.lo ≤ i) (h2 : i ≤ k.hi) :
    packInt k (.int i) = .ok (leBytes k.size (ofSigned k.size i)) := by
  simp [packInt, PyVal.asIndex, h1, h2]

theorem decodeIntVal_pack (k : IntK) (i : Int) (rest : Bytes) (h1 : k.lo ≤ i) (h2 : i ≤ k.hi) :
    decodeIntVal k (leBytes k.size (ofSigned k.size i) ++ rest) = .ok (i, rest) := by
  unfold decodeIntVal
  rw [decodeIntNat_append _ _ _ (ofSigned_lt k i h1 h2)]
  simp only [bind, Except.bind, toSigned_ofSigned k i h1 h2]

theorem decodeIntVal_nil (k : IntK) : decodeIntVal k [] = .error .bufferEmpty := by
  unfold decodeIntVal
  rw [decodeIntNat_nil]; rfl

/-- unsigned, natural-number view -/
theorem packInt_nat (k : IntK) (n : Nat) (hk : k.signed = false) (h : (n : Int) ≤ k.hi) :
    packInt k (.int n) = .ok (leBytes k.size n) ∧ n < 256 ^ k.size := by
  have hlo : k.lo ≤ (n : Int) := by simp [IntK.lo, hk]
  rw [packInt_int k n hlo h]
  have := ofSigned_lt k n hlo h
  simp [ofSigned] at *
  exact this

/-! ### text codecs -/

theorem text_roundtrip (enc : Enc) (cs : Name) (h : TextOk enc cs) :
    ∃ d, Text.encode enc cs = some d ∧ d.length = cs.length * charWidth enc ∧
      Text.decode enc d = some cs := by
  induction cs with
  | nil => cases enc <;> simp [Text.encode, Text.decode, Text.decLatin1, Text.decUtf8, Text.decUtf16, Text.decUtf32]
  | cons c cs ih =>
    have hcs : TextOk enc cs := by
      cases enc <;> simp only [TextOk] at * <;> intro x hx <;> exact h x (List.mem_cons_of_mem _ hx)
    obtain ⟨d, hd, hl, hdec⟩ := ih hcs
    cases enc with
    | latin1 =>
      have hc : c < 256 := by simp only [TextOk] at h; exact h c (List.mem_cons_self)
      refine ⟨Text.b c :: d, ?_, ?_, ?_⟩
      · simp [Text.encode, Text.encChar, hc, hd]
      · simp [hl, charWidth]
      · simp only [Text.decode, Text.decLatin1] at *
        simp only [List.map_cons, Text.b, toNat_ofNat]
        injection hdec with hdec
        rw [hdec]
        congr 2
        omega
    | utf8 =>
      have hc : c < 128 := by simp only [TextOk] at h; exact h c (List.mem_cons_self)
      have hs : Text.isSurrogate c = false := by simp [Text.isSurrogate]; omega
      refine ⟨Text.b c :: d, ?_, ?_, ?_⟩
      · have : ¬ c > 1114111 := by omega
        simp [Text.encode, Text.encChar, hc, hd, hs, this]
      · simp [hl, charWidth]
      · simp only [Text.decode] at *
        have hx : (Text.b c).toNat = c := by simp only [Text.b, toNat_ofNat]; omega
        rw [Text.decUtf8.eq_def]
        simp only [hx, hc, if_true, hdec, Option.map_some]
    | utf16 =>
      have hc : c < 0x10000 ∧ ¬ (0xD800 ≤ c ∧ c ≤ 0xDFFF) := by
        simp only [TextOk] at h; exact h c (List.mem_cons_self)
      have hs : Text.isSurrogate c = false := by simp [Text.isSurrogate]; omega
      refine ⟨Text.b (c % 256) :: Text.b (c / 256) :: d, ?_, ?_, ?_⟩
      · have : ¬ c > 1114111 := by omega
        simp [Text.encode, Text.encChar, hc.1, hd, hs, this]
      · simp [hl, charWidth]; omega
      · simp only [Text.decode] at *
        have hu : (Text.b (c % 256)).toNat + 256 * (Text.b (c / 256)).toNat = c := by
          simp only [Text.b, toNat_ofNat]; omega
        have h1 : ¬ (0xD800 ≤ c ∧ c ≤ 0xDBFF) := by omega
        have h2 : ¬ (0xDC00 ≤ c ∧ c ≤ 0xDFFF) := by omega
        rw [Text.decUtf16.eq_def]
        simp only [hu, hdec, Option.map_some, h1, h2, if_false]
    | utf32 =>
      have hc : c ≤ 0x10FFFF ∧ ¬ (0xD800 ≤ c ∧ c ≤ 0xDFFF) := by
        simp only [TextOk] at h; exact h c (List.mem_cons_self)
      have hs : Text.isSurrogate c = false := by simp [Text.isSurrogate]; omega
      refine ⟨Text.b (c % 256) :: Text.b (c / 256 % 256) :: Text.b (c / 65536 % 256) :: Text.b (c / 16777216) :: d, ?_, ?_, ?_⟩
      · have : ¬ c > 1114111 := by omega
        simp [Text.encode, Text.encChar, hd, hs, this]
      · simp [hl, charWidth]; omega
      · simp only [Text.decode] at *
        have hu : (Text.b (c % 256)).toNat + 256 * (Text.b (c / 256 % 256)).toNat
            + 65536 * (Text.b (c / 65536 % 256)).toNat + 16777216 * (Text.b (c / 16777216)).toNat = c := by
          simp only [Text.b, toNat_ofNat]; omega
        rw [Text.decUtf32]
        have : ¬ c > 1114111 := by omega
        simp only [hu, hdec, Option.map_some, hs, this, Bool.false_or, decide_false]
        simp

/-! ### bit strings -/

theorem bitsToNat_lt (bs : List Bool) : bitsToNat (bs.map PyVal.bool) < 2 ^ bs.length := by
  induction bs with
  | nil => simp [bitsToNat]
  | cons b bs ih =>
    simp only [List.map_cons, bitsToNat, List.length_cons, Nat.pow_succ, PyVal.truthy]
    cases b <;> simp <;> omega

theorem natToBits_bitsToNat (bs : List Bool) :
    natToBits bs.length (bitsToNat (bs.map PyVal.bool)) = bs.map PyVal.bool := by
  induction bs with
  | nil => simp [natToBits]
  | cons b bs ih =>
    simp only [List.map_cons, bitsToNat, List.length_cons, natToBits, PyVal.truthy]
    cases b
    · simp [ih]
    · have h1 : (1 + 2 * bitsToNat (bs.map PyVal.bool)) % 2 = 1 := by omega
      have h2 : (1 + 2 * bitsToNat (bs.map PyVal.bool)) / 2 = bitsToNat (bs.map PyVal.bool) := by omega
      simp [h1, h2, ih]

theorem pow_256 (w : Nat) : 256 ^ w = 2 ^ (8 * w) := by
  rw [Nat.pow_mul]

/-! ### dicts -/

theorem dictSet_fresh (acc : List (Name × PyVal)) (nm : Name) (v : PyVal)
    (h : ∀ a ∈ acc, a.1 ≠ nm) : dictSet acc nm v = acc ++ [(nm, v)] := by
  unfold dictSet
  have : acc.any (fun kv => kv.1 == nm) = false := by
    simp only [List.any_eq_false, beq_iff_eq]
    intro x hx; exact h x hx
  simp [this]

theorem dictGet_fresh (pre kvs : List (Name × PyVal)) (nm : Name) (v : PyVal)
    (h : ∀ a ∈ pre, a.1 ≠ nm) : dictGet (pre ++ (nm, v) :: kvs) nm = some v := by
  unfold dictGet
  induction pre with
  | nil => simp
  | cons p pre ih =>
    have hp : (p.1 == nm) = false := by simpa using h p (List.mem_cons_self)
    simp only [List.cons_append, List.find?_cons, hp]
    exact ih (fun a ha => h a (List.mem_cons_of_mem _ ha))

/-! ### element lists -/

theorem encodeList_congr (f g : PyVal → R Bytes) (vs : List PyVal) (h : ∀ x ∈ vs, f x = g x) :
    encodeList f vs = encodeList g vs := by
  induction vs with
  | nil => rfl
  | cons x xs ih =>
    simp only [encodeList, h x List.mem_cons_self, ih (fun y hy => h y (List.mem_cons_of_mem _ hy))]

/-- no STRINGI value is canonical, so a canonical member / element is handed to its codec as it is -/
theorem argOf_of_canon (t : Ty) (v : PyVal) (h : Canon t v) : argOf t v = v := by
  apply argOf_of_ne_stringI
  intro e; subst e; simp [Canon] at h

theorem encodeList_argOf_canon (t : Ty) (vs : List PyVal) (h : ∀ x ∈ vs, Canon t x) :
    encodeList (fun x => encode t (argOf t x)) vs = encodeList (encode t) vs :=
  encodeList_congr _ _ vs (fun x hx => by rw [argOf_of_canon t x (h x hx)])

theorem list_roundtrip (f : PyVal → R Bytes) (g : Bytes → R (PyVal × Bytes)) (vs : List PyVal)
    (h : ∀ x ∈ vs, ∃ bs, f x = .ok bs ∧ ∀ rest, g (bs ++ rest) = .ok (x, rest)) :
    ∃ bs, encodeList f vs = .ok bs ∧ ∀ rest, decodeN g vs.length (bs ++ rest) = .ok (vs, rest) := by
  induction vs with
  | nil => exact ⟨[], rfl, fun rest => rfl⟩
  | cons x xs ih =>
    obtain ⟨a, ha, hda⟩ := h x (List.mem_cons_self)
    obtain ⟨r, hr, hdr⟩ := ih (fun y hy => h y (List.mem_cons_of_mem _ hy))
    refine ⟨a ++ r, ?_, ?_⟩
    · simp [encodeList, ha, hr, bind, Except.bind]
    · intro rest
      simp [decodeN, List.append_assoc, hda, hdr, bind, Except.bind]

/-- the same with a lower bound on the size and the behaviour of the unbounded loop -/
theorem list_roundtrip_all (f : PyVal → R Bytes) (g : Bytes → R (PyVal × Bytes)) (vs : List PyVal)
    (h : ∀ x ∈ vs, ∃ bs, f x = .ok bs ∧ bs ≠ [] ∧ ∀ rest, g (bs ++ rest) = .ok (x, rest))
    (h0 : g [] = .error .bufferEmpty) :
    ∃ bs, encodeList f vs = .ok bs ∧ vs.length ≤ bs.length ∧
      ∀ fuel, bs.length < fuel → decodeAll g fuel bs = .ok (vs, []) := by
  induction vs with
  | nil =>
    refine ⟨[], rfl, Nat.le_refl _, ?_⟩
    intro fuel hf
    cases fuel with
    | zero => simp at hf
    | succ fuel => simp [decodeAll, h0]
  | cons x xs ih =>
    obtain ⟨a, ha, hne, hda⟩ := h x (List.mem_cons_self)
    obtain ⟨r, hr, hlen, hdr⟩ := ih (fun y hy => h y (List.mem_cons_of_mem _ hy))
    have hal : 1 ≤ a.length := by
      cases a with
      | nil => exact absurd rfl hne
      | cons _ _ => simp
    refine ⟨a ++ r, ?_, ?_, ?_⟩
    · simp [encodeList, ha, hr, bind, Except.bind]
    · simp; omega
    · intro fuel hf
      cases fuel with
      | zero => simp at hf
      | succ fuel =>
        have hf' : r.length < fuel := by simp at hf; omega
        have := hda r
        simp [decodeAll, this, hdr fuel hf', hne, bind, Except.bind]

/-! ### leaf cases: round trip, non-empty encoding, BufferEmptyError on an empty buffer -/

def Leaf (t : Ty) (v : PyVal) : Prop :=
  ∃ bs, encode t v = .ok bs ∧ (∀ rest, decode t (bs ++ rest) = .ok (v, rest)) ∧ bs ≠ [] ∧
    decode t [] = .error .bufferEmpty

theorem leaf_bool (v : PyVal) (h : Canon .bool v) : Leaf .bool v := by
  obtain ⟨b, rfl⟩ := h
  have h0 : decode .bool [] = .error .bufferEmpty := by
    simp only [decode, streamRead_nil]; rfl
  cases b
  · refine ⟨[0x00], by simp [encode, PyVal.truthy], ?_, by simp, h0⟩
    intro rest
    have : streamRead 1 ([(0x00 : UInt8)] ++ rest) = .ok ([0x00], rest) :=
      streamRead_append [(0x00 : UInt8)] rest 1 rfl (by simp)
    simp only [decode]
    rw [this]; rfl
  · refine ⟨[0xFF], by simp [encode, PyVal.truthy], ?_, by simp, h0⟩
    intro rest
    have : streamRead 1 ([(0xFF : UInt8)] ++ rest) = .ok ([0xFF], rest) :=
      streamRead_append [(0xFF : UInt8)] rest 1 rfl (by simp)
    simp only [decode]
    rw [this]; rfl

theorem leaf_int (k : IntK) (v : PyVal) (h : Canon (.int k) v) : Leaf (.int k) v := by
  obtain ⟨i, rfl, h1, h2⟩ := h
  refine ⟨_, by simp only [encode]; exact packInt_int k i h1 h2, ?_, leBytes_ne_nil _ _ (IntK.size_pos k), ?_⟩
  · intro rest
    simp only [decode, decodeIntVal_pack k i rest h1 h2, bind, Except.bind]
  · simp only [decode, decodeIntVal_nil]; rfl

theorem leaf_real (v : PyVal) (h : Canon .real v) : Leaf .real v := by
  obtain ⟨b, b32, rfl, hlt, hn, hw⟩ := h
  refine ⟨leBytes 4 b32, by simp [encode, packReal, hn], ?_, leBytes_ne_nil _ _ (by omega), ?_⟩
  · intro rest
    have := decodeIntNat_append .udint b32 rest (by simpa [IntK.size] using hlt)
    simp only [IntK.size] at this
    simp only [decode, this, bind, Except.bind, hw]
  · simp only [decode, decodeIntNat_nil]; rfl

theorem leaf_lreal (v : PyVal) (h : Canon .lreal v) : Leaf .lreal v := by
  obtain ⟨b, rfl, hlt⟩ := h
  refine ⟨leBytes 8 b, by simp [encode, packLReal], ?_, leBytes_ne_nil _ _ (by omega), ?_⟩
  · intro rest
    have := decodeIntNat_append .ulint b rest (by simpa [IntK.size] using hlt)
    simp only [IntK.size] at this
    simp only [decode, this, bind, Except.bind]
  · simp only [decode, decodeIntNat_nil]; rfl

theorem leaf_dt (v : PyVal) (h : Canon .dateAndTime v) : Leaf .dateAndTime v := by
  obtain ⟨t, d, rfl, ht0, ht1, hd0, hd1⟩ := h
  have hkt : (t.toNat : Int) = t := by omega
  have hkd : (d.toNat : Int) = d := by omega
  have e1 := packInt_nat .udint t.toNat rfl (by simp [IntK.hi, IntK.signed, IntK.size]; omega)
  have e2 := packInt_nat .uint d.toNat rfl (by simp [IntK.hi, IntK.signed, IntK.size]; omega)
  rw [hkt] at e1; rw [hkd] at e2
  refine ⟨leBytes 4 t.toNat ++ leBytes 2 d.toNat, ?_, ?_, ?_, ?_⟩
  · simp [encode, e1.1, e2.1, bind, Except.bind, IntK.size]
  · intro rest
    have d1 := decodeIntNat_append .udint t.toNat (leBytes 2 d.toNat ++ rest) e1.2
    have d2 := decodeIntNat_append .uint d.toNat rest e2.2
    simp only [IntK.size] at d1 d2
    simp only [decode, List.append_assoc, d1, d2, bind, Except.bind, hkt, hkd]
  · have := leBytes_ne_nil 4 t.toNat (by omega)
    simp [this]
  · simp only [decode, decodeIntNat_nil]; rfl

theorem charWidth_pos (e : Enc) : 0 < charWidth e := by cases e <;> simp [charWidth]

theorem leaf_str (lenK : IntK) (enc : Enc) (v : PyVal) (h : Canon (.str lenK enc) v) :
    Leaf (.str lenK enc) v := by
  obtain ⟨cs, rfl, hk, htxt, hlen⟩ := h
  obtain ⟨hp, hlt⟩ := packInt_nat lenK cs.length hk hlen
  obtain ⟨d, hd, hdl, hdec⟩ := text_roundtrip enc cs htxt
  refine ⟨leBytes lenK.size cs.length ++ d, ?_, ?_, ?_, ?_⟩
  · simp [encode, encodeStr, hp, hd, bind, Except.bind]
  · intro rest
    simp only [decode, decodeStr, List.append_assoc, decodeIntNat_append lenK cs.length (d ++ rest) hlt,
      bind, Except.bind]
    by_cases h0 : cs.length = 0
    · have : cs = [] := List.eq_nil_of_length_eq_zero h0
      subst this
      have : d = [] := by simpa [Text.encode] using hd.symm
      subst this
      simp
    · have hdne : d ≠ [] := by
        intro e; rw [e] at hdl
        have := charWidth_pos enc
        have h2 : cs.length * charWidth enc = 0 := by simpa using hdl.symm
        rcases Nat.mul_eq_zero.mp h2 with h | h <;> omega
      have hs := streamRead_append d rest (cs.length * charWidth enc) hdl hdne
      simp only [h0, if_false]
      simp only [hs, hdl, Nat.lt_irrefl, if_false, hdec]
  · have := leBytes_ne_nil lenK.size cs.length (IntK.size_pos lenK)
    simp [this]
  · simp only [decode, decodeStr, decodeIntNat_nil]; rfl

theorem leaf_bits (k : IntK) (v : PyVal) (h : Canon (.bits k) v) : Leaf (.bits k) v := by
  obtain ⟨bs, rfl, hlen, _⟩ := h
  refine ⟨leBytes k.size (bitsToNat (bs.map PyVal.bool)), ?_, ?_, leBytes_ne_nil _ _ (IntK.size_pos k), ?_⟩
  · simp [encode, encodeBits, PyVal.iter?, PyVal.seq?, hlen]
  · intro rest
    have hlt : bitsToNat (bs.map PyVal.bool) < 256 ^ k.size := by
      rw [pow_256, ← hlen]; exact bitsToNat_lt bs
    simp only [decode, decodeBits, decodeIntNat_append k _ rest hlt, bind, Except.bind]
    rw [← hlen, natToBits_bitsToNat]
  · simp only [decode, decodeBits, decodeIntNat_nil]; rfl

theorem leaf_nbytes (n : Int) (v : PyVal) (h : Canon (.nbytes n) v) : Leaf (.nbytes n) v := by
  obtain ⟨bs, rfl, hn, hlen⟩ := h
  have hne : bs ≠ [] := by
    intro e; subst e; simp at hlen; omega
  have hl : bs.length = n.toNat := by omega
  refine ⟨bs, ?_, ?_, hne, ?_⟩
  · have h1 : ¬ n = -1 := by omega
    have h2 : ¬ n < 0 := by omega
    simp [encode, encodeNBytes, sliceN, h1, h2, ← hl]
  · intro rest
    have hs := streamRead_append bs rest n.toNat hl hne
    have : ((n.toNat : Nat) : Int) = n := by omega
    rw [this] at hs
    have h3 : ¬ (0 ≤ n ∧ bs.length < n.toNat) := by omega
    simp only [decode, decodeNBytes, hs, bind, Except.bind, h3, if_false]
  · simp only [decode, decodeNBytes, streamRead_nil]; rfl

theorem decLatin1_encode (cs : Name) (d : Bytes) (h : Text.decode .latin1 d = some cs) :
    Text.decLatin1 d = cs := by
  simpa [Text.decode] using h

theorem leaf_fixedStr (size : Nat) (lenK : IntK) (v : PyVal) (h : Canon (.fixedStr size lenK) v) :
    Leaf (.fixedStr size lenK) v := by
  obtain ⟨cs, rfl, hk, htxt, hsz, hpos, hlen⟩ := h
  obtain ⟨hp, hlt⟩ := packInt_nat lenK cs.length hk hlen
  obtain ⟨d, hd, hdl, hdec⟩ := text_roundtrip .latin1 cs htxt
  simp only [charWidth, Nat.mul_one] at hdl
  refine ⟨leBytes lenK.size cs.length ++ d ++ zeros (size - cs.length), ?_, ?_, ?_, ?_⟩
  · have ht : cs.take size = cs := List.take_of_length_le hsz
    simp only [encode, encodeFixedStr, ht]
    simp [hp, hd, bind, Except.bind]
  · intro rest
    have hlo : lenK.lo ≤ (cs.length : Int) := by simp [IntK.lo, hk]
    have hiv := decodeIntVal_pack lenK cs.length (d ++ zeros (size - cs.length) ++ rest) hlo hlen
    have hof : ofSigned lenK.size (cs.length : Int) = cs.length := by simp [ofSigned]
    rw [hof] at hiv
    have hzl : (d ++ zeros (size - cs.length)).length = size := by simp [zeros, hdl]; omega
    have hzne : d ++ zeros (size - cs.length) ≠ [] := by
      intro e; rw [e] at hzl; simp at hzl; omega
    have hs := streamRead_append (d ++ zeros (size - cs.length)) rest size hzl hzne
    have hsl : pySliceTo (d ++ zeros (size - cs.length)) (cs.length : Int) = d := by
      have : (0 : Int) ≤ (cs.length : Int) := by omega
      simp only [pySliceTo, this, if_true, Int.toNat_natCast]
      exact take_append_len _ _ _ hdl
    simp only [decode, decodeFixedStr, List.append_assoc] at hiv hs ⊢
    simp only [hiv, hs, bind, Except.bind]
    rw [← List.append_assoc] at *
    simp only [hzl, Nat.lt_irrefl, if_false]
    rw [hsl, decLatin1_encode cs d hdec]
  · have := leBytes_ne_nil lenK.size cs.length (IntK.size_pos lenK)
    simp [this]
  · simp only [decode, decodeFixedStr, decodeIntVal_nil]; rfl

end Pycomm.RT
