/-
  Proofs for C17 (connected messages carry fresh sequence counts).
-/
import PycommModel.Seq
namespace Pycomm.Seq

theorem draws_length (stop start n val : Nat) : (draws stop start n val).length = n := by
  induction n generalizing val with
  | zero => rfl
  | succ n ih => simp [draws, step, ih]

/-- state after k draws from a state in [1, 65536] stays in [2, 65536], value = closed form -/
theorem draws_getElem (n val k : Nat) (hk : k < n) (hv : 1 ≤ val ∧ val ≤ 65536) :
    (draws STOP START n val)[k]? = some (1 + (val - 1 + k) % 65535) := by
  induction n generalizing val k with
  | zero => omega
  | succ n ih =>
    simp only [draws, step, STOP, START]
    cases k with
    | zero =>
      simp only [List.getElem?_cons_zero, Nat.add_zero]
      by_cases h : val > 65535
      · simp only [h, if_true]; congr 1; omega
      · simp only [h, if_false]; congr 1; omega
    | succ k =>
      simp only [List.getElem?_cons_succ]
      have hk' : k < n := by omega
      by_cases h : val > 65535
      · simp only [h, if_true]
        have := ih (val := 2) (k := k) hk' (by omega)
        simp only [STOP, START] at this
        rw [this]; congr 1; omega
      · simp only [h, if_false]
        have := ih (val := val + 1) (k := k) hk' (by omega)
        simp only [STOP, START] at this
        rw [this]; congr 1; omega

theorem nth_eq_closed (k : Nat) : nth k = nthClosed k := by
  unfold nth nthClosed
  have hlen := draws_length STOP START (k + 1) START
  have h := draws_getElem (k + 1) START k (by omega) (by simp [START])
  rw [List.getLast?_eq_getElem?, hlen]
  simp only [Nat.add_sub_cancel]
  rw [h]
  simp [START]

theorem nth_range (k : Nat) : 1 ≤ nth k ∧ nth k ≤ 65535 := by
  rw [nth_eq_closed]; unfold nthClosed; omega

theorem nth_consecutive_ne (k : Nat) : nth k ≠ nth (k + 1) := by
  rw [nth_eq_closed, nth_eq_closed]; unfold nthClosed; omega

/-- two draws carry the same count exactly when their distance is a multiple of 65535 -/
theorem nth_eq_iff (a b : Nat) : nth a = nth b ↔ a % 65535 = b % 65535 := by
  rw [nth_eq_closed, nth_eq_closed]; unfold nthClosed; omega

/-- draws less than a full period apart differ -/
theorem nth_ne_of_close (a b : Nat) (hab : a < b) (hd : b - a < 65535) : nth a ≠ nth b := by
  intro h; rw [nth_eq_iff] at h; omega

/-- Any history in which consecutively sent packets were constructed less than 65535 draws apart
    (in either order) has adjacent sends with different counts — for histories of any length,
    across every wrap-around. -/
theorem sends_adjacent_differ (sent : List Nat)
    (h : ∀ i, (hi : i + 1 < sent.length) →
      sent[i] ≠ sent[i + 1] ∧ sent[i] - sent[i + 1] < 65535 ∧ sent[i + 1] - sent[i] < 65535) :
    AdjacentDiffer (seqOfSends sent) := by
  induction sent with
  | nil => simp [seqOfSends, AdjacentDiffer]
  | cons a rest ih =>
    cases rest with
    | nil => simp [seqOfSends, AdjacentDiffer]
    | cons b rest' =>
      have h0 := h 0 (by simp)
      simp only [List.getElem_cons_zero, Nat.zero_add, List.getElem_cons_succ] at h0
      simp only [seqOfSends, List.map_cons, AdjacentDiffer]
      refine ⟨?_, ?_⟩
      · unfold nthClosed; omega
      · have := ih (fun i hi => by
          have := h (i + 1) (by simp at hi ⊢; omega)
          simpa using this)
        simpa [seqOfSends] using this

end Pycomm.Seq
