/-
  C05 at the driver level, continued: `LogixDriver.open()` / `get_tag_list()` for structure types that contain
  structures (any nesting depth the client follows) and for program scopes.

  Layers (lemmas usable on their own):
    LOpenN1  `lon_dataTypeOf_le` / `lon_dataTypeOf_unique` (the reference data type does not depend on the fuel),
             `lon_members_of_dataType`, `lon_parseTemplateData` (`_parse_template_data` with nested definitions),
             `lon_readTemplate_from` (`_read_template` with its request count)
    LOpenN2  `lon_Inv` / `lon_Good` (cache invariants), `lon_Frame` / `lon_Count` / `lon_Step` (what an upload changes),
             `lon_resolve` (`member_data`), `lon_getDataType` (`_get_data_type`, induction over the nesting depth)
    LOpenN3  `lon_createTag_struct`, `lon_isolate` (`_create_tag`, `_isolate_user_tags` for any scope)
    LOpenN4  `lon_pyRemove_program`, `lon_keys_fold_controller`, `lon_ins_foldl_nil` (the keys of `_info["programs"]`),
             `lon_scope_controller`, `lon_scope_program` (`_get_tag_list`), `lon_programScopes` (the loop over programs)
-/
import PycommProofs.LOpenN4
import PycommProofs.LogixOpenProofs
namespace Pycomm.Lgx.Opn
open Pycomm Pycomm.Tgt Pycomm.Path Pycomm.Reply Pycomm.Encap Pycomm.Lgx Pycomm.Lgx.E2E Pycomm.Lgx.Drv

-- PROPERTY THEOREMS

/-- C05, driver level, `_get_data_type` for a structure whose members are themselves structures, to ANY nesting depth
    `depth` (the client's recursion fuel `fuel` must cover it; `open()` uses `DT_FUEL` = 64): on a healthy connected
    driver whose caches agree with the project, the upload returns exactly the data type the reference interpretation
    `Drv.dataTypeOf` assigns to template `tid` (name, visible members, size, handle, string flag, codec class and the
    internal tags with THEIR nested data types), for EVERY fragment schedule of the controller
    (`st.proj.tmplSchedule`, `st.ctr` arbitrary).

    Each distinct template is uploaded from the controller exactly once:
    * every entry of the two caches is either untouched or a data type that was absent before, and then it is the
      project's data type of that template (third conjunct) — a cached template is never requested again;
    * `n` data types were added to `_cache["id:udt"]`, the controller's schedule counter advanced by `j` (one per
      template-read fragment, as the schedule dictates) and exactly `n + j` frames were sent: ONE attribute request per
      new data type plus the fragment reads, however often a template occurs in the nest;
    * the data type asked for is cached afterwards, no attribute entry is left without its data type, and asking
      again returns it from the cache without any traffic (last conjunct).

    Hypotheses:
    * `hw`, `hlogix`, `hsize`  the connection facts, the Logix state, 26 bytes of connection size for the requests;
    * `htid`, `hsym`  the id fits the instance field, the symbol type carries it in its low 12 bits;
    * `hcU`, `hcS`  the caches agree with the project (true of the empty caches `get_tag_list` starts with, and kept);
    * `hdt`   the reference interpretation defines the data type within `depth` levels — this excludes templates that
              contain themselves (the real code recurses until RecursionError), unknown template ids, unnamed
              templates and elementary codes outside the model's tables;
    * `hwf`   the template and all templates below it are well-formed, their attributes fit the reply fields, their
              definitions are below 64 KiB (`lon_WfNested`);
    * `hfuel` the client follows at least `depth` levels. -/
theorem get_data_type_nested (s0 : St Ext) (sess : Nat) (cidb : Bytes) (conn : Conn) (st : LState)
    (tid symbolType depth fuel : Nat) (dt : DT)
    (hw : ldr_Healthy s0.w sess cidb conn) (hlogix : s0.w.net.target.ext.logix = some st)
    (hsize : 26 ≤ conn.size) (htid : tid < 2 ^ 32) (hsym : symbolType % 4096 = tid % 4096)
    (hcU : ∀ t d, natGet s0.cache.idUdt t = some d → ∃ k, dataTypeOf st.proj k t = some d)
    (hcS : ∀ t, natGet s0.cache.idUdt t = none → natGet s0.cache.idStruct t = none)
    (hdt : dataTypeOf st.proj depth tid = some dt) (hwf : lon_WfNested st.proj depth tid) (hfuel : depth ≤ fuel) :
    ∃ s1 conn' n j frms,
      getDataType hookAll fuel s0 tid symbolType = (s1, .ok dt) ∧
      natGet s1.cache.idUdt tid = some dt ∧
      (∀ t, (natGet s1.cache.idUdt t = natGet s0.cache.idUdt t ∧ natGet s1.cache.idStruct t = natGet s0.cache.idStruct t) ∨
        (natGet s0.cache.idUdt t = none ∧ ∃ d, natGet s1.cache.idUdt t = some d ∧ dataTypeOf st.proj depth t = some d)) ∧
      (∀ t, natGet s1.cache.idUdt t = none → natGet s1.cache.idStruct t = none) ∧
      s1.cache.idUdt.length = s0.cache.idUdt.length + n ∧
      s1.w.net.sent = s0.w.net.sent ++ frms ∧ frms.length = n + j ∧
      s1.w.net.target.ext.logix = some { st with ctr := st.ctr + j } ∧
      ldr_Healthy s1.w sess cidb conn' ∧ conn'.size = conn.size ∧ lo_SameDrv s0.w.drv s1.w.drv ∧
      s1.l.info = s0.l.info ∧ s1.l.tags = s0.l.tags ∧ s1.l.micro800 = s0.l.micro800 ∧
      s1.l.useInstanceIds = s0.l.useInstanceIds ∧
      getDataType hookAll fuel s1 tid symbolType = (s1, .ok dt) := by
  have hg : lon_Good st sess cidb conn.size s0 := ⟨⟨conn, hw, rfl⟩, ⟨st.ctr, hlogix⟩, hcU, hcS⟩
  obtain ⟨s1, hgd, hc1, hinv1, hstep, hinfo⟩ := lon_getDataType st sess cidb conn.size hsize depth fuel hfuel s0 tid
    symbolType dt (hg.inv _) hdt hwf htid hsym
  have hg1 := hg.of_step hstep hinv1.healthy
  obtain ⟨conn', hh', hcs'⟩ := hinv1.healthy
  obtain ⟨n, j, c, frms, hca, hcb, hsent, hlen, hul⟩ := hstep.count
  have hc : c = st.ctr := by
    rw [hlogix] at hca
    exact (lon_ctr_inj st st.ctr c hca).symm
  subst hc
  refine ⟨s1, conn', n, j, frms, hgd, hc1, hstep.frame, hg1.cacheS, hul, hsent, hlen, hcb, hh', hcs', hstep.step.drv, hinfo,
    hstep.step.tags, hstep.step.micro, hstep.step.ids, ?_⟩
  -- the repeat is served from the cache
  obtain ⟨f', hf'⟩ : ∃ f', fuel = f' + 1 := by
    cases fuel with
    | zero =>
      have : depth = 0 := by omega
      subst this
      simp [dataTypeOf] at hdt
    | succ f' => exact ⟨f', rfl⟩
  subst hf'
  rw [getDataType, hc1]

/-- the uploaded data type does not depend on how the controller fragments the template reads, nor on what was cached
    before: two healthy drivers in front of controllers holding the same templates — whatever their fragment schedules,
    counters, connections and (consistent) cache contents — obtain the same data type -/
theorem get_data_type_nested_schedule_independent (sA sB : St Ext) (sessA sessB : Nat) (cidbA cidbB : Bytes)
    (connA connB : Conn) (stA stB : LState) (tid symbolType depth fuelA fuelB : Nat) (dt : DT)
    (hwA : ldr_Healthy sA.w sessA cidbA connA) (hlogixA : sA.w.net.target.ext.logix = some stA)
    (hwB : ldr_Healthy sB.w sessB cidbB connB) (hlogixB : sB.w.net.target.ext.logix = some stB)
    (hsame : stB.proj.templates = stA.proj.templates)
    (hsizeA : 26 ≤ connA.size) (hsizeB : 26 ≤ connB.size) (htid : tid < 2 ^ 32) (hsym : symbolType % 4096 = tid % 4096)
    (hcUA : ∀ t d, natGet sA.cache.idUdt t = some d → ∃ k, dataTypeOf stA.proj k t = some d)
    (hcSA : ∀ t, natGet sA.cache.idUdt t = none → natGet sA.cache.idStruct t = none)
    (hcUB : ∀ t d, natGet sB.cache.idUdt t = some d → ∃ k, dataTypeOf stB.proj k t = some d)
    (hcSB : ∀ t, natGet sB.cache.idUdt t = none → natGet sB.cache.idStruct t = none)
    (hdt : dataTypeOf stA.proj depth tid = some dt) (hwf : lon_WfNested stA.proj depth tid)
    (hfuelA : depth ≤ fuelA) (hfuelB : depth ≤ fuelB) :
    (getDataType hookAll fuelA sA tid symbolType).2 = .ok dt ∧
    (getDataType hookAll fuelB sB tid symbolType).2 = (getDataType hookAll fuelA sA tid symbolType).2 := by
  -- the reference interpretation looks at the templates only
  have htq : ∀ t, stB.proj.template? t = stA.proj.template? t := by
    intro t; unfold Project.template?; rw [hsame]
  have hdq : ∀ k t, dataTypeOf stB.proj k t = dataTypeOf stA.proj k t := by
    intro k
    induction k with
    | zero => intro t; rfl
    | succ k ih =>
      intro t
      rw [dataTypeOf, dataTypeOf, htq]
      have : dataTypeOf stB.proj k = dataTypeOf stA.proj k := funext ih
      rw [this]
  have hwq : ∀ k t, lon_WfNested stA.proj k t → lon_WfNested stB.proj k t := by
    intro k
    induction k with
    | zero => intro _ _; trivial
    | succ k ih =>
      intro t h tm htm
      rw [htq] at htm
      obtain ⟨h1, h2⟩ := h tm htm
      exact ⟨h1, fun m hm ha => ih _ (h2 m hm ha)⟩
  obtain ⟨_, _, _, _, _, hA, _⟩ := get_data_type_nested sA sessA cidbA connA stA tid symbolType depth fuelA dt hwA hlogixA
    hsizeA htid hsym hcUA hcSA hdt hwf hfuelA
  obtain ⟨_, _, _, _, _, hB, _⟩ := get_data_type_nested sB sessB cidbB connB stB tid symbolType depth fuelB dt hwB hlogixB
    hsizeB htid hsym hcUB hcSB (by rw [hdq]; exact hdt) (hwq _ _ hwf) hfuelB
  rw [hA, hB]
  exact ⟨rfl, rfl⟩

/-- C05, driver level, `_isolate_user_tags(all_tags, program)` on the uploaded records of a scope (`program = None`:
    the controller scope; `some p`: the program as `get_tag_list` names it) whose user tags are of elementary types or
    of structure types of any nesting: the tag definitions are exactly those of `Drv.userTags` — the symbols
    `K.keepSymbol` keeps (no `Program:` / `Routine:` / `Task:` / `Map:` / `Cxn:` / `__…` symbols, no names with a colon
    except module I/O tags, no system symbols), in order, named `Program:<p>.<tag>` in a program scope, each with its
    `lo_metaAll` — for EVERY template fragment schedule.

    Across ALL tags of the scope each distinct template is uploaded once: `n` data types were added to the cache, the
    controller's schedule counter advanced by `j` (one per template-read fragment) and exactly `n + j` frames were sent
    — one attribute request per new data type, none for a tag whose type (or a type containing it) was met before.
    Cache entries are untouched or new (third conjunct from the end of the cache part), so what an earlier scope
    uploaded serves this one.

    Hypotheses: the connection facts, caches that agree with the project, `hnest` every kept structure symbol refers to
    a nested template the client can follow (`lon_NestedTemplate`), `hy` the reference interpretation defines the
    scope's tags. -/
theorem isolate_user_tags_nested (s0 : St Ext) (sess : Nat) (cidb : Bytes) (conn : Conn) (st : LState)
    (program : Option Name) (syms : List Symbol) (wa : Bool) (ys : List (Name × TagInfo))
    (hw : ldr_Healthy s0.w sess cidb conn) (hlogix : s0.w.net.target.ext.logix = some st) (hsize : 26 ≤ conn.size)
    (hcU : ∀ t d, natGet s0.cache.idUdt t = some d → ∃ k, dataTypeOf st.proj k t = some d)
    (hcS : ∀ t, natGet s0.cache.idUdt t = none → natGet s0.cache.idStruct t = none)
    (hnest : ∀ s ∈ syms, K.keepSymbol s.name s.symbolType = true → s.symbolType / 32768 % 2 = 1 →
      lon_NestedTemplate st.proj (s.symbolType % 4096))
    (hy : Drv.userTags st.proj (lon_scopePfx program) syms = some ys) :
    ∃ s1 xs conn' n j frms,
      isolateUserTags hookAll program s0 (syms.map (Up.recOfSymbol wa)) = (s1, .ok xs) ∧
      xs.map (fun x => (x.1, x.2.1)) = ys ∧
      xs.map (fun x => (x.1, x.2.2)) = lon_metasOfScope wa program syms ∧
      (∀ t, (natGet s1.cache.idUdt t = natGet s0.cache.idUdt t ∧ natGet s1.cache.idStruct t = natGet s0.cache.idStruct t) ∨
        (natGet s0.cache.idUdt t = none ∧ ∃ d, natGet s1.cache.idUdt t = some d ∧ dataTypeOf st.proj DT_FUEL t = some d)) ∧
      (∀ t d, natGet s1.cache.idUdt t = some d → ∃ k, dataTypeOf st.proj k t = some d) ∧
      (∀ t, natGet s1.cache.idUdt t = none → natGet s1.cache.idStruct t = none) ∧
      s1.cache.idUdt.length = s0.cache.idUdt.length + n ∧
      s1.w.net.sent = s0.w.net.sent ++ frms ∧ frms.length = n + j ∧
      s1.w.net.target.ext.logix = some { st with ctr := st.ctr + j } ∧
      ldr_Healthy s1.w sess cidb conn' ∧ conn'.size = conn.size ∧ lo_SameDrv s0.w.drv s1.w.drv ∧
      s1.l.info = syms.foldl (fun info s => noteSymbol program info (Up.recOfSymbol wa s)) s0.l.info ∧
      s1.l.tags = s0.l.tags ∧ s1.l.micro800 = s0.l.micro800 ∧ s1.l.useInstanceIds = s0.l.useInstanceIds := by
  have hg : lon_Good st sess cidb conn.size s0 := ⟨⟨conn, hw, rfl⟩, ⟨st.ctr, hlogix⟩, hcU, hcS⟩
  obtain ⟨s1, xs, hiso, hx1, hx2, hg1, hstep, hinfo⟩ := lon_isolate st sess cidb conn.size hsize wa program syms s0 ys hg hnest hy
  obtain ⟨conn', hh', hcs'⟩ := hg1.healthy
  obtain ⟨n, j, c, frms, hca, hcb, hsent, hlen, hul⟩ := hstep.count
  have hc : c = st.ctr := by
    rw [hlogix] at hca
    exact (lon_ctr_inj st st.ctr c hca).symm
  subst hc
  exact ⟨s1, xs, conn', n, j, frms, hiso, hx1, hx2, hstep.frame, hg1.cacheU, hg1.cacheS, hul, hsent, hlen, hcb, hh', hcs',
    hstep.step.drv, hinfo, hstep.step.tags, hstep.step.micro, hstep.step.ids⟩

/-- C05, driver level, `get_tag_list(program=None)` for a controller whose user tags are of elementary types or of
    structure types of ANY nesting (structures containing structures, arrays of structures, …): the tag list the
    driver ends up with is exactly `Drv.tagDbOf` of the controller's project — none missing, duplicated or invented,
    each with the controller's data type including all nested definitions — for EVERY page schedule AND EVERY template
    fragment schedule (`st.proj.pageSchedule`, `st.proj.tmplSchedule`, `st.ctr` arbitrary).  Every structure
    definition is uploaded once, whether it is met as the type of a tag or inside another definition
    (`get_data_type_nested`).

    Hypotheses: those of `open_tags_flat_project`, with `hflat` replaced by
    * `hnest`  every kept structure symbol refers to a template whose data type the reference interpretation defines
               within the 64 levels the client follows, all templates involved being well-formed
               (`lon_NestedTemplate`). -/
theorem open_tags_nested_project (w : Cli.World Ext) (l : LDrv) (sess : Nat) (cidb : Bytes) (conn : Conn) (st : LState)
    (db : TagDb)
    (hw : ldr_Healthy w sess cidb conn) (hlogix : w.net.target.ext.logix = some st)
    (hrev : revisionMajor l.info ≥ Gen.MIN_VER_EXTERNAL_ACCESS → 18 ≤ st.rev)
    (hwf : ∀ s ∈ st.proj.controller, Up.WfSymbol s)
    (hsorted : st.proj.controller.Pairwise (fun a b => a.inst < b.inst))
    (hsize : 32 ≤ conn.size) (hfuel : st.proj.controller.length < PAGE_FUEL)
    (hnest : ∀ s ∈ st.proj.controller, K.keepSymbol s.name s.symbolType = true → s.symbolType / 32768 % 2 = 1 →
      lon_NestedTemplate st.proj (s.symbolType % 4096))
    (hdb : tagDbOf st.proj false = some db) :
    ∃ w' l' conn' c, getTagList hookAll w l false = (w', l', .ok ()) ∧
      l'.tags = db ∧
      l'.metas = metasOfList (lon_metasOfScope (decide (revisionMajor l.info ≥ Gen.MIN_VER_EXTERNAL_ACCESS)) none
        st.proj.controller) ∧
      l'.micro800 = l.micro800 ∧ l'.useInstanceIds = l.useInstanceIds ∧ l'.cacheLeft = false ∧
      ldr_Healthy w' sess cidb conn' ∧ conn'.size = conn.size ∧ lo_SameDrv w.drv w'.drv ∧
      (∃ frms, w'.net.sent = w.net.sent ++ frms) ∧
      w'.net.target.ext.logix = some { st with ctr := c } := by
  obtain ⟨ctl, hctl, hdbe⟩ : ∃ ctl, Drv.userTags st.proj [] st.proj.controller = some ctl ∧ db = TagDb.ofList ctl := by
    unfold tagDbOf at hdb
    cases hctl : Drv.userTags st.proj [] st.proj.controller with
    | none => rw [hctl] at hdb; cases hdb
    | some ctl =>
      rw [hctl] at hdb
      simp only [Bool.not_false, if_true, Option.some.injEq] at hdb
      exact ⟨ctl, rfl, hdb.symm⟩
  have hfo : Cli.ensureForwardOpen hookAll Cli.FUEL w = (w, .ok ()) := ldr_ensureFO_connected hookAll 7 w hw.connected
  have hg0 : lon_Good st sess cidb conn.size ({ w := w, l := { l with cacheLeft := true, info := { l.info with programs := some [], tasks := some [], modules := some [] } } } : St Ext) :=
    ⟨⟨conn, hw, rfl⟩, ⟨st.ctr, hlogix⟩, (fun _ _ h => by cases h), fun _ _ => rfl⟩
  obtain ⟨S', xs, hsc, hx1, hx2, hg', hs', _⟩ := lon_scope_controller st sess cidb conn.size hsize _ ctl hg0 hrev hwf hsorted
    hfuel hnest hctl
  obtain ⟨conn', hh', hcs'⟩ := hg'.healthy
  obtain ⟨c, hlogix'⟩ := hg'.logix
  refine ⟨S'.w, { S'.l with tags := TagDb.ofList ((xs ++ []).map fun (x : Name × TagInfo × TagMeta) => (x.1, x.2.1)), metas := metasOfList ((xs ++ []).map fun (x : Name × TagInfo × TagMeta) => (x.1, x.2.2)), cacheLeft := false },
    conn', c, ?_, ?_, ?_, hs'.micro, hs'.ids, rfl, hh', hcs', hs'.drv, hs'.sent, hlogix'⟩
  · unfold getTagList
    rw [hfo]
    dsimp only
    rw [hsc]
    simp only [Bool.false_eq_true, if_false]
  · show TagDb.ofList ((xs ++ []).map fun (x : Name × TagInfo × TagMeta) => (x.1, x.2.1)) = db
    rw [List.append_nil, hx1, hdbe]
  · show metasOfList ((xs ++ []).map fun (x : Name × TagInfo × TagMeta) => (x.1, x.2.2)) = _
    rw [List.append_nil, hx2]
    rfl

-- STATEMENT CHANGED: "get_tag_list('*') yields `tagDbOf proj true` for every project with program scopes" is false of the
-- model (and of the real driver) for three kinds of controller data, each shown by a `#guard` in `ExN` below:
--   (1) a `Program:<new name>` symbol inside a program scope: RuntimeError (dict changed size during iteration)   [`projBad1`]
--   (2) a program symbol named just `Program:`: the controller scope is uploaded again as `Program:.<tag>`        [`projBad2`]
--   (3) a program name that contains `Program:` again: `replace` strips every occurrence, another scope is asked  [`projBad3`]
-- The theorem excludes them with `hprogs` (`lon_ProgSyms.noprog`) and `hpsym` (`lon_ProgName.ne`, `.colon`); program names
-- of a real controller are identifiers (no colon, not empty), so (2) and (3) concern malformed symbol tables only.
/-- C05, driver level, `get_tag_list(program='*')` — what `open()` runs with `init_program_tags=True` — for a project
    with program-scoped tags: the controller scope lists one `Program:<name>` symbol per program and the controller holds
    a symbol table per program.  The tag list the driver ends up with is exactly `Drv.tagDbOf project true`: the
    controller-scoped user tags followed by the user tags of every program as `Program:<name>.<tag>`, programs in the
    order of their symbols, each with the controller's data type (elementary or structure of any nesting) — for EVERY
    page schedule and EVERY template fragment schedule.  Each program scope is uploaded once: the keys of
    `_info["programs"]` the loop runs over are `Drv.programNames` (a repeated `Program:` symbol gives one key), and
    template definitions uploaded for one scope serve the following scopes from the cache.

    Hypotheses beyond those of `open_tags_nested_project`:
    * `hpsym`  a program name (the part after `Program:`) is not empty, has no colon, is ASCII, and `Program:<name>`
               fits a symbolic segment (255 bytes) and the connection (`lon_ProgName`).  Each part is needed: the driver
               strips EVERY occurrence of `Program:` from the symbol name (`name.replace`), and asks for the controller
               scope when the name is empty (`if program:`), see the `#guard`s in `ExN`;
    * `hprogs` every symbol table of a program is well-formed, sorted by instance id, uploadable within `PAGE_FUEL`
               pages, its kept structure symbols refer to nested templates as above, and it contains no `Program:`
               symbol (`lon_ProgSyms`) — a `Program:` symbol with a new name inside a program scope adds a key to
               `_info["programs"]` while `get_tag_list` iterates over that dict, and the real call ends with
               RuntimeError("dictionary changed size during iteration") (second `#guard`);
    * `hdb`    `Drv.tagDbOf project true` is defined: in particular every `Program:` symbol has its symbol table. -/
theorem open_tags_program_scopes (w : Cli.World Ext) (l : LDrv) (sess : Nat) (cidb : Bytes) (conn : Conn) (st : LState)
    (db : TagDb)
    (hw : ldr_Healthy w sess cidb conn) (hlogix : w.net.target.ext.logix = some st)
    (hrev : revisionMajor l.info ≥ Gen.MIN_VER_EXTERNAL_ACCESS → 18 ≤ st.rev)
    (hwf : ∀ s ∈ st.proj.controller, Up.WfSymbol s)
    (hsorted : st.proj.controller.Pairwise (fun a b => a.inst < b.inst))
    (hsize : 32 ≤ conn.size) (hfuel : st.proj.controller.length < PAGE_FUEL)
    (hnest : ∀ s ∈ st.proj.controller, K.keepSymbol s.name s.symbolType = true → s.symbolType / 32768 % 2 = 1 →
      lon_NestedTemplate st.proj (s.symbolType % 4096))
    (hpsym : ∀ s ∈ st.proj.controller, PyStr.startsWith (Opn.nm "Program:") s.name = true →
      lon_ProgName conn.size (s.name.drop 8))
    (hprogs : ∀ pr ∈ st.proj.programs, lon_ProgSyms st.proj pr.2)
    (hdb : tagDbOf st.proj true = some db) :
    ∃ w' l' conn' c, getTagList hookAll w l true = (w', l', .ok ()) ∧
      l'.tags = db ∧
      l'.metas = metasOfList
        (lon_metasOfScope (decide (revisionMajor l.info ≥ Gen.MIN_VER_EXTERNAL_ACCESS)) none st.proj.controller ++
         ((programNames st.proj).map fun pn =>
            lon_metasOfScope (decide (revisionMajor l.info ≥ Gen.MIN_VER_EXTERNAL_ACCESS)) (some pn)
              (lon_progSyms st.proj pn)).flatten) ∧
      (l'.info.programs.getD []).map (·.1) = programNames st.proj ∧
      l'.micro800 = l.micro800 ∧ l'.useInstanceIds = l.useInstanceIds ∧ l'.cacheLeft = false ∧
      ldr_Healthy w' sess cidb conn' ∧ conn'.size = conn.size ∧ lo_SameDrv w.drv w'.drv ∧
      (∃ frms, w'.net.sent = w.net.sent ++ frms) ∧
      w'.net.target.ext.logix = some { st with ctr := c } := by
  -- the reference side
  obtain ⟨ctl, progs, hctl, hpm, hdbe⟩ : ∃ ctl progs, Drv.userTags st.proj [] st.proj.controller = some ctl ∧
      (programNames st.proj).mapM (fun pn =>
        match st.proj.programs.find? (·.1 == Drv.nm "Program:" ++ pn) with
        | none => none
        | some pr => Drv.userTags st.proj (Drv.nm "Program:" ++ pn ++ [46]) pr.2) = some progs ∧
      db = TagDb.ofList (ctl ++ progs.flatten) := by
    unfold tagDbOf at hdb
    cases hctl : Drv.userTags st.proj [] st.proj.controller with
    | none => rw [hctl] at hdb; cases hdb
    | some ctl =>
      rw [hctl] at hdb
      simp only [Bool.not_true, Bool.false_eq_true, if_false] at hdb
      split at hdb
      · cases hdb
      · rename_i progs hpm
        simp only [Option.some.injEq] at hdb
        exact ⟨ctl, progs, rfl, hpm, hdb.symm⟩
  have hfo : Cli.ensureForwardOpen hookAll Cli.FUEL w = (w, .ok ()) := ldr_ensureFO_connected hookAll 7 w hw.connected
  generalize hwa : decide (revisionMajor l.info ≥ Gen.MIN_VER_EXTERNAL_ACCESS) = wa
  have hrev' : wa = true → 18 ≤ st.rev := by
    intro h; rw [← hwa] at h; exact hrev (of_decide_eq_true h)
  have hg0 : lon_Good st sess cidb conn.size ({ w := w, l := { l with cacheLeft := true, info := { l.info with programs := some [], tasks := some [], modules := some [] } } } : St Ext) :=
    ⟨⟨conn, hw, rfl⟩, ⟨st.ctr, hlogix⟩, (fun _ _ h => by cases h), fun _ _ => rfl⟩
  -- the controller scope
  obtain ⟨S1, xs1, hsc, hx1, hx2, hg1, hs1, hi1⟩ := lon_scope_controller st sess cidb conn.size hsize _ ctl hg0 hrev hwf hsorted
    hfuel hnest hctl
  have hwa0 : decide (revisionMajor ({ l.info with programs := some [], tasks := some [], modules := some [] } : Info) ≥
      Gen.MIN_VER_EXTERNAL_ACCESS) = wa := hwa
  rw [hwa0] at hx2 hi1
  -- the keys of `_info["programs"]`
  have hkeys : lon_keys S1.l.info = programNames st.proj := by
    rw [hi1, lon_keys_fold_controller]
    show List.foldl lon_ins [] _ = _
    rw [lon_ins_foldl_nil]
    unfold programNames
    congr 1
    apply List.map_congr_left
    intro s hs
    obtain ⟨hsm, hsp⟩ := List.mem_filter.1 hs
    exact lon_pyRemove_program s.name hsp (hpsym s hsm hsp).colon
  have hr1 : revisionMajor S1.l.info = revisionMajor l.info := by
    rw [hi1]; exact lon_revision_fold none wa st.proj.controller _
  have hpn : ∀ pn ∈ programNames st.proj, lon_ProgName conn.size pn := by
    intro pn hp
    unfold programNames at hp
    rw [List.mem_eraseDups] at hp
    obtain ⟨s, hs, rfl⟩ := List.mem_map.1 hp
    obtain ⟨hsm, hsp⟩ := List.mem_filter.1 hs
    exact hpsym s hsm hsp
  -- the program scopes
  obtain ⟨S2, xs2, hps, hy1, hy2, hg2, hs2, hk2⟩ := lon_programScopes st sess cidb conn.size wa (programNames st.proj).length
    (programNames st.proj) S1 progs hg1 (by rw [hkeys]) (by rw [hr1]; exact hwa) hrev' hpn hprogs hpm
  obtain ⟨conn', hh', hcs'⟩ := hg2.healthy
  obtain ⟨c, hlogix'⟩ := hg2.logix
  have hs12 := lo_Step.trans hs1 hs2
  refine ⟨S2.w, { S2.l with tags := TagDb.ofList ((xs1 ++ xs2).map fun (x : Name × TagInfo × TagMeta) => (x.1, x.2.1)), metas := metasOfList ((xs1 ++ xs2).map fun (x : Name × TagInfo × TagMeta) => (x.1, x.2.2)), cacheLeft := false },
    conn', c, ?_, ?_, ?_, ?_, hs12.micro, hs12.ids, rfl, hh', hcs', hs12.drv, hs12.sent, hlogix'⟩
  · unfold getTagList
    rw [hfo]
    dsimp only
    rw [hsc]
    dsimp only
    have hprogsEq : (S1.l.info.programs.getD []).map (·.1) = programNames st.proj := hkeys
    rw [hprogsEq]
    simp only [if_true]
    rw [hps]
  · show TagDb.ofList ((xs1 ++ xs2).map fun (x : Name × TagInfo × TagMeta) => (x.1, x.2.1)) = db
    rw [List.map_append, hx1, hy1, hdbe]
  · show metasOfList ((xs1 ++ xs2).map fun (x : Name × TagInfo × TagMeta) => (x.1, x.2.2)) = _
    rw [List.map_append, hx2, hy2]
  · show (S2.l.info.programs.getD []).map (·.1) = _
    exact hk2.trans hkeys

/-! ### non-vacuity: a project with structures nested three levels deep, behind worlds obtained by running the model -/

namespace ExN

/-- `Deep { f : REAL; flag : BOOL }` -/
def tDeep : Template :=
  { id := 0x300, handle := 0xD00D, size := 8, nameField := [68, 101, 101, 112, 59, 110],
    members := [⟨[102], 0, 0xCA, 0⟩, ⟨[102, 108, 97, 103], 0, 0xC1, 4⟩] }
/-- `Inner { x : INT; deep : Deep }` -/
def tInner : Template :=
  { id := 0x200, handle := 0x1111, size := 12, nameField := [73, 110, 110, 101, 114, 59, 110],
    members := [⟨[120], 0, 0xC3, 0⟩, ⟨[100, 101, 101, 112], 0, 0x8300, 4⟩] }
/-- `Outer { a : DINT; inner : Inner; pair : Inner[2]; d : Deep }`: `Inner` occurs twice, `Deep` directly and inside `Inner` -/
def tOuter : Template :=
  { id := 0x100, handle := 0x2222, size := 48, nameField := [79, 117, 116, 101, 114, 59, 110],
    members := [⟨[97], 0, 0xC4, 0⟩, ⟨[105, 110, 110, 101, 114], 0, 0x8200, 4⟩, ⟨[112, 97, 105, 114], 2, 0x8200, 16⟩,
                ⟨[100], 0, 0x8300, 40⟩] }

/-- `o1 : Outer`, `i1 : Inner` (its type is already cached when the tag is reached), `o2 : Outer[3]` -/
def o1 : Symbol := { Ex.s1 with inst := 30, name := Opn.nm "o1", symbolType := 0x8100, mem := List.replicate 48 0 }
def i1 : Symbol := { Ex.s1 with inst := 31, name := Opn.nm "i1", symbolType := 0x8200, mem := List.replicate 12 0 }
def o2 : Symbol := { Ex.s1 with inst := 32, name := Opn.nm "o2", symbolType := 0xA100, dims := [3, 0, 0], mem := List.replicate 144 0 }

def projN (pages frags : List Nat) : Project :=
  { templates := [tOuter, tInner, tDeep], controller := [Ex.s1, o1, i1, o2], programs := [],
    pageSchedule := pages, tmplSchedule := frags }
def stateN (pages frags : List Nat) : LState := { proj := projN pages frags }
def worldN0 (pages frags : List Nat) : Cli.World Ext :=
  { drv := {}, net := { target := { base := Drv.Ex.base, ext := { logix := some (stateN pages frags) } } } }
/-- after `CIPDriver.open()` and the Forward Open of `with_forward_open`: the model is run -/
def worldN (pages frags : List Nat) : Cli.World Ext :=
  (Cli.ensureForwardOpen hookAll Cli.FUEL (Cli.openDrv hookAll (worldN0 pages frags) [1, 2, 3, 4, 5, 6, 7, 8]).1).1

/-- the reference data type of `Outer` (defined at depth 3, not at depth 2) -/
def dtOuter : DT :=
  (dataTypeOf (projN [] []) 3 0x100).getD ({ name := [], attributes := [], size := 0, handle := 0, string := none }, .int .dint, .nil)
def dbN : TagDb := (tagDbOf (projN [] []) false).getD []

#guard (dataTypeOf (projN [] []) 3 0x100).isSome && (dataTypeOf (projN [] []) 2 0x100).isNone
#guard dtOuter.1.name == Opn.nm "Outer" && dtOuter.1.attributes == [Opn.nm "a", Opn.nm "inner", Opn.nm "pair", Opn.nm "d"]
#guard ((dtOuter.2.2.get? (Opn.nm "pair")).map fun i => (i.core.dataTypeName, i.core.array)) == some (Opn.nm "Inner", some 2)
#guard (((dtOuter.2.2.get? (Opn.nm "inner")).bind fun i => i.members.get? (Opn.nm "deep")).map fun i => i.core.dataTypeName)
          == some (Opn.nm "Deep")
#guard dbN.map (·.1) == [Opn.nm "abc", Opn.nm "o1", Opn.nm "i1", Opn.nm "o2"]
#guard dbN.map (·.2.core.dataTypeName) == [Opn.nm "DINT", Opn.nm "Outer", Opn.nm "Inner", Opn.nm "Outer"]
-- the run of `_get_data_type(0x100)`: 3-byte fragments: 3 attribute requests + 19 + 11 + 11 fragment reads; unfragmented: 3 + 3;
-- three data types cached (innermost first), the same data type
#guard (match getDataType hookAll DT_FUEL ({ w := worldN [1] [3], l := {} } : St Ext) 0x100 0x8100 with
        | (s1, .ok dt) => dt.1 == dtOuter.1 && s1.cache.idUdt.map (·.1) == [0x300, 0x200, 0x100] &&
            s1.l.dataTypes == [Opn.nm "Deep", Opn.nm "Inner", Opn.nm "Outer"] &&
            s1.w.net.sent.length == (worldN [1] [3]).net.sent.length + 44
        | _ => false)
#guard (match getDataType hookAll DT_FUEL ({ w := worldN [] [], l := {} } : St Ext) 0x100 0x8100 with
        | (s1, .ok dt) => dt.1 == dtOuter.1 && s1.cache.idUdt.map (·.1) == [0x300, 0x200, 0x100] &&
            s1.w.net.sent.length == (worldN [] []).net.sent.length + 6
        | _ => false)
-- the run of `get_tag_list`: 4 pages + 44, against 1 page + 6: the same tags
#guard (match getTagList hookAll (worldN [1] [3]) Ex.l32 false with
        | (w', l', .ok ()) => l'.tags.map (·.1) == dbN.map (·.1) &&
            l'.tags.map (·.2.core.dataTypeName) == dbN.map (·.2.core.dataTypeName) &&
            l'.dataTypes == [Opn.nm "Deep", Opn.nm "Inner", Opn.nm "Outer"] &&
            w'.net.sent.length == (worldN [1] [3]).net.sent.length + 48
        | _ => false)
#guard (match getTagList hookAll (worldN [] []) Ex.l32 false with
        | (w', l', .ok ()) => l'.tags.map (·.1) == dbN.map (·.1) && w'.net.sent.length == (worldN [] []).net.sent.length + 7
        | _ => false)
-- `hdt` is needed: a template that contains itself is not defined at any depth, and the model's `_get_data_type` runs out of
-- its 64 levels (`.hang`; the real code ends with RecursionError wrapped into ResponseError)
#guard (dataTypeOf { projN [] [] with templates := [{ tInner with members := [⟨[120], 0, 0xC3, 0⟩, ⟨[100, 101, 101, 112], 0, 0x8200, 4⟩] }] } 64 0x200).isNone

private theorem healthyN : ldr_Healthy (worldN [1] [3]) 4097 [238, 255, 192, 0] Drv.Ex.conn :=
  ⟨by decide +kernel, by decide +kernel, by decide +kernel, by decide +kernel, by decide +kernel, by decide,
   by decide +kernel, by decide +kernel, by decide, by decide +kernel, by decide +kernel, by decide +kernel⟩

private theorem healthyN0 : ldr_Healthy (worldN [] []) 4097 [238, 255, 192, 0] Drv.Ex.conn :=
  ⟨by decide +kernel, by decide +kernel, by decide +kernel, by decide +kernel, by decide +kernel, by decide,
   by decide +kernel, by decide +kernel, by decide, by decide +kernel, by decide +kernel, by decide +kernel⟩

private theorem wfTemplates (pages frags : List Nat) : ∀ t ∈ (projN pages frags).templates, lon_WfT t := by
  intro t ht
  simp only [projN, List.mem_cons, List.not_mem_nil, or_false] at ht
  rcases ht with rfl | rfl | rfl
  · exact ⟨[79, 117, 116, 101, 114], [110], by unfold Up.WfTemplate Up.WfMember Up.Ident; decide, by decide, by decide,
      by decide, by decide⟩
  · exact ⟨[73, 110, 110, 101, 114], [110], by unfold Up.WfTemplate Up.WfMember Up.Ident; decide, by decide, by decide,
      by decide, by decide⟩
  · exact ⟨[68, 101, 101, 112], [110], by unfold Up.WfTemplate Up.WfMember Up.Ident; decide, by decide, by decide,
      by decide, by decide⟩

private theorem wfNested (pages frags : List Nat) (k tid : Nat) : lon_WfNested (projN pages frags) k tid :=
  lon_WfNested_of_all _ (wfTemplates pages frags) k tid

private theorem hdtOuter (pages frags : List Nat) : dataTypeOf (stateN pages frags).proj 3 0x100 = some dtOuter := by rfl

/-- every hypothesis of `get_data_type_nested` holds for the concrete world with 3-byte fragments: `Outer` at depth 3 -/
example : ∃ s1 n j frms,
    getDataType hookAll DT_FUEL ({ w := worldN [1] [3], l := {} } : St Ext) 0x100 0x8100 = (s1, .ok dtOuter) ∧
    natGet s1.cache.idUdt 0x100 = some dtOuter ∧
    s1.cache.idUdt.length = n ∧ s1.w.net.sent = (worldN [1] [3]).net.sent ++ frms ∧ frms.length = n + j ∧
    getDataType hookAll DT_FUEL s1 0x100 0x8100 = (s1, .ok dtOuter) := by
  obtain ⟨s1, _, n, j, frms, h1, h2, _, _, h5, h6, h7, _, _, _, _, _, _, _, _, h16⟩ :=
    get_data_type_nested ({ w := worldN [1] [3], l := {} } : St Ext) 4097 [238, 255, 192, 0] Drv.Ex.conn (stateN [1] [3])
      0x100 0x8100 3 DT_FUEL dtOuter healthyN (by rfl) (by decide) (by decide) (by decide) (fun _ _ h => by cases h)
      (fun _ _ => rfl) (hdtOuter [1] [3]) (wfNested [1] [3] 3 0x100) (by decide)
  exact ⟨s1, n, j, frms, h1, h2, by rw [h5]; simp, h6, h7, h16⟩

/-- … and of `get_data_type_nested_schedule_independent`: fragments of 3 bytes and unfragmented reads -/
example : (getDataType hookAll DT_FUEL ({ w := worldN [1] [3], l := {} } : St Ext) 0x100 0x8100).2 = .ok dtOuter ∧
    (getDataType hookAll DT_FUEL ({ w := worldN [] [], l := {} } : St Ext) 0x100 0x8100).2 =
      (getDataType hookAll DT_FUEL ({ w := worldN [1] [3], l := {} } : St Ext) 0x100 0x8100).2 :=
  get_data_type_nested_schedule_independent ({ w := worldN [1] [3], l := {} } : St Ext) ({ w := worldN [] [], l := {} } : St Ext)
    4097 4097 [238, 255, 192, 0] [238, 255, 192, 0] Drv.Ex.conn Drv.Ex.conn (stateN [1] [3]) (stateN [] []) 0x100 0x8100 3
    DT_FUEL DT_FUEL dtOuter healthyN (by rfl) healthyN0 (by rfl) rfl (by decide) (by decide) (by decide) (by decide)
    (fun _ _ h => by cases h) (fun _ _ => rfl) (fun _ _ h => by cases h) (fun _ _ => rfl) (hdtOuter [1] [3])
    (wfNested [1] [3] 3 0x100) (by decide) (by decide)

private theorem memN (pages frags : List Nat) (s : Symbol) (hs : s ∈ (stateN pages frags).proj.controller) :
    s = Ex.s1 ∨ s = o1 ∨ s = i1 ∨ s = o2 := by
  simpa [stateN, projN] using hs

private theorem wfN (pages frags : List Nat) : ∀ s ∈ (stateN pages frags).proj.controller, Up.WfSymbol s := by
  intro s hs
  rcases memN pages frags s hs with rfl | rfl | rfl | rfl <;> (unfold Up.WfSymbol; decide)

private theorem nestN (pages frags : List Nat) : ∀ s ∈ (stateN pages frags).proj.controller,
    K.keepSymbol s.name s.symbolType = true → s.symbolType / 32768 % 2 = 1 →
    lon_NestedTemplate (stateN pages frags).proj (s.symbolType % 4096) := by
  intro s hs _ hst
  rcases memN pages frags s hs with rfl | rfl | rfl | rfl
  · exact absurd hst (by decide)
  · exact ⟨by rfl, wfNested pages frags _ _⟩
  · exact ⟨by rfl, wfNested pages frags _ _⟩
  · exact ⟨by rfl, wfNested pages frags _ _⟩

/-- every hypothesis of `open_tags_nested_project` holds for the concrete world: one symbol per page, 3-byte fragments … -/
example : ∃ w' l', getTagList hookAll (worldN [1] [3]) Ex.l32 false = (w', l', .ok ()) ∧ l'.tags = dbN := by
  obtain ⟨w', l', _, _, h1, h2, _⟩ :=
    open_tags_nested_project (worldN [1] [3]) Ex.l32 4097 [238, 255, 192, 0] Drv.Ex.conn (stateN [1] [3]) dbN healthyN (by rfl)
      (fun _ => by decide) (wfN [1] [3]) (by simp only [stateN, projN]; decide) (by decide) (by decide) (nestN [1] [3]) (by rfl)
  exact ⟨w', l', h1, h2⟩

/-- … and with the default schedules: the same tag database -/
example : ∃ w' l', getTagList hookAll (worldN [] []) Ex.l32 false = (w', l', .ok ()) ∧ l'.tags = dbN := by
  obtain ⟨w', l', _, _, h1, h2, _⟩ :=
    open_tags_nested_project (worldN [] []) Ex.l32 4097 [238, 255, 192, 0] Drv.Ex.conn (stateN [] []) dbN healthyN0 (by rfl)
      (fun _ => by decide) (wfN [] []) (by simp only [stateN, projN]; decide) (by decide) (by decide) (nestN [] []) (by rfl)
  exact ⟨w', l', h1, h2⟩

/-! #### `_isolate_user_tags` on the records of the controller scope and of a program scope -/

def ysN : List (Name × TagInfo) := (Drv.userTags (projN [] []) [] (projN [] []).controller).getD []
def ysMain : List (Name × TagInfo) :=
  (Drv.userTags (projN [] []) (lon_scopePfx (some (Opn.nm "Main"))) [Ex.s1, o2, i1]).getD []

-- four tags, three data types, 3 + 41 frames: `i1` and `o2` cost nothing
#guard (match isolateUserTags hookAll none ({ w := worldN [1] [3], l := {} } : St Ext) ((projN [] []).controller.map (Up.recOfSymbol true)) with
        | (s1, .ok xs) => xs.map (·.1) == ysN.map (·.1) && s1.cache.idUdt.map (·.1) == [0x300, 0x200, 0x100] &&
            s1.w.net.sent.length == (worldN [1] [3]).net.sent.length + 44
        | _ => false)
#guard ysMain.map (·.1) == [Opn.nm "Program:Main.abc", Opn.nm "Program:Main.o2", Opn.nm "Program:Main.i1"]

/-- every hypothesis of `isolate_user_tags_nested` holds: the controller scope of the nested project, 3-byte fragments … -/
example : ∃ s1 xs n j frms,
    isolateUserTags hookAll none ({ w := worldN [1] [3], l := {} } : St Ext)
      ((stateN [1] [3]).proj.controller.map (Up.recOfSymbol true)) = (s1, .ok xs) ∧
    xs.map (fun x => (x.1, x.2.1)) = ysN ∧ s1.cache.idUdt.length = n ∧
    s1.w.net.sent = (worldN [1] [3]).net.sent ++ frms ∧ frms.length = n + j := by
  obtain ⟨s1, xs, _, n, j, frms, h1, h2, _, _, _, _, h7, h8, h9, _⟩ :=
    isolate_user_tags_nested ({ w := worldN [1] [3], l := {} } : St Ext) 4097 [238, 255, 192, 0] Drv.Ex.conn (stateN [1] [3]) none
      (stateN [1] [3]).proj.controller true ysN healthyN (by rfl) (by decide) (fun _ _ h => by cases h) (fun _ _ => rfl)
      (nestN [1] [3]) (by rfl)
  exact ⟨s1, xs, n, j, frms, h1, h2, by rw [h7]; simp, h8, h9⟩

/-- … and the same records as the scope of program `Main`: the tags are named `Program:Main.<tag>` -/
example : ∃ s1 xs,
    isolateUserTags hookAll (some (Opn.nm "Main")) ({ w := worldN [1] [3], l := {} } : St Ext)
      ([Ex.s1, o2, i1].map (Up.recOfSymbol true)) = (s1, .ok xs) ∧
    xs.map (fun x => (x.1, x.2.1)) = ysMain := by
  obtain ⟨s1, xs, _, _, _, _, h1, h2, _⟩ :=
    isolate_user_tags_nested ({ w := worldN [1] [3], l := {} } : St Ext) 4097 [238, 255, 192, 0] Drv.Ex.conn (stateN [1] [3])
      (some (Opn.nm "Main")) [Ex.s1, o2, i1] true ysMain healthyN (by rfl) (by decide) (fun _ _ h => by cases h) (fun _ _ => rfl)
      (by intro s hs hk hst
          exact nestN [1] [3] s (by simp only [stateN, projN]; simp only [List.mem_cons, List.not_mem_nil, or_false] at hs ⊢
                                    rcases hs with rfl | rfl | rfl <;> simp) hk hst)
      (by rfl)
  exact ⟨s1, xs, h1, h2⟩

/-! #### program scopes: `get_tag_list('*')` on a project with two programs, nested structure tags in both scopes -/

def pm1 : Symbol := { Ex.s1 with inst := 2, name := Opn.nm "loc" }
def pm2 : Symbol := { Ex.s1 with inst := 9, name := Opn.nm "pu", symbolType := 0x8100, mem := List.replicate 48 0 }
def pm3 : Symbol := { Ex.s1 with inst := 11, name := Opn.nm "Routine:Main", symbolType := 0x106D, mem := [] }
def pa1 : Symbol := { Ex.s1 with inst := 4, name := Opn.nm "deep", symbolType := 0x8300, mem := List.replicate 8 0 }
def symMain : Symbol := { Ex.s1 with inst := 5, name := Opn.nm "Program:Main", symbolType := 0x1068, mem := [] }
def symAux : Symbol := { Ex.s1 with inst := 6, name := Opn.nm "Program:Aux", symbolType := 0x1068, mem := [] }
/-- controller scope: `abc`, the two program symbols, `i1 : Inner`; `Program:Main`: `loc`, `pu : Outer`, a routine;
    `Program:Aux`: `deep : Deep` -/
def projP (pages frags : List Nat) : Project :=
  { templates := [tOuter, tInner, tDeep], controller := [Ex.s1, symMain, symAux, i1],
    programs := [(Opn.nm "Program:Main", [pm1, pm2, pm3]), (Opn.nm "Program:Aux", [pa1])],
    pageSchedule := pages, tmplSchedule := frags }
def stateP (pages frags : List Nat) : LState := { proj := projP pages frags }
def worldQ0 (pr : Project) : Cli.World Ext :=
  { drv := {}, net := { target := { base := Drv.Ex.base, ext := { logix := some { proj := pr } } } } }
def worldQ (pr : Project) : Cli.World Ext :=
  (Cli.ensureForwardOpen hookAll Cli.FUEL (Cli.openDrv hookAll (worldQ0 pr) [1, 2, 3, 4, 5, 6, 7, 8]).1).1
def dbP : TagDb := (tagDbOf (projP [] []) true).getD []
def tagNames (pr : Project) : List Name × Bool :=
  let r := getTagList hookAll (worldQ pr) Ex.l32 true
  (r.2.1.tags.map (·.1), match r.2.2 with | .ok _ => true | .error _ => false)

#guard dbP.map (·.1) == [Opn.nm "abc", Opn.nm "i1", Opn.nm "Program:Main.loc", Opn.nm "Program:Main.pu", Opn.nm "Program:Aux.deep"]
#guard dbP.map (·.2.core.dataTypeName) == [Opn.nm "DINT", Opn.nm "Inner", Opn.nm "DINT", Opn.nm "Outer", Opn.nm "Deep"]
#guard programNames (projP [] []) == [Opn.nm "Main", Opn.nm "Aux"]
-- the run: `Inner` and `Deep` are uploaded for `i1`, `Outer` for `Program:Main.pu`, nothing for `Program:Aux.deep`
#guard (match getTagList hookAll (worldQ (projP [1] [3])) Ex.l32 true with
        | (w', l', .ok ()) => l'.tags.map (·.1) == dbP.map (·.1) &&
            l'.tags.map (·.2.core.dataTypeName) == dbP.map (·.2.core.dataTypeName) &&
            l'.dataTypes == [Opn.nm "Deep", Opn.nm "Inner", Opn.nm "Outer"] &&
            (l'.info.programs.getD []).map (·.1) == [Opn.nm "Main", Opn.nm "Aux"] &&
            w'.net.sent.length == (worldQ (projP [1] [3])).net.sent.length + 52
        | _ => false)
#guard (match getTagList hookAll (worldQ (projP [] [])) Ex.l32 true with
        | (w', l', .ok ()) => l'.tags.map (·.1) == dbP.map (·.1) &&
            w'.net.sent.length == (worldQ (projP [] [])).net.sent.length + 9
        | _ => false)
/-- a `Program:` symbol inside a program scope -/
def projBad1 : Project :=
  { projP [] [] with
    programs := [(Opn.nm "Program:Main", [pm1, { symMain with inst := 20, name := Opn.nm "Program:Sub" }]),
                 (Opn.nm "Program:Aux", [pa1])] }
/-- a program symbol named just `Program:` -/
def projBad2 : Project :=
  { projP [] [] with
    controller := [Ex.s1, { symMain with name := Opn.nm "Program:" }],
    programs := [(Opn.nm "Program:", [pm1])] }
/-- a program symbol `Program:Program:X` beside a program `X` -/
def projBad3 : Project :=
  { projP [] [] with
    controller := [Ex.s1, { symMain with name := Opn.nm "Program:Program:X" }],
    programs := [(Opn.nm "Program:Program:X", [pm1]), (Opn.nm "Program:X", [pa1])] }
-- `hprogs.noprog` is needed: a new `Program:` symbol inside a program scope ends the call with an error (the real one:
-- RuntimeError, dictionary changed size during iteration) although the reference interpretation defines the tag list
#guard tagNames projBad1 == ([], false) && (tagDbOf projBad1 true).isSome
-- `hpsym.ne` is needed: for a program symbol named just `Program:` the driver uploads the CONTROLLER scope a second time
-- (`if program:` is false for the empty name) and files it under `Program:.` — the reference lists the program's `loc`
#guard tagNames projBad2 == ([Opn.nm "abc", Opn.nm "Program:.abc"], true)
#guard ((tagDbOf projBad2 true).map fun db => db.map (·.1)) == some [Opn.nm "abc", Opn.nm "Program:.loc"]
-- `hpsym.colon` is needed: `name.replace("Program:", "")` strips every occurrence, so the symbol `Program:Program:X` makes
-- the driver upload program `X` — the reference lists the tags of `Program:Program:X`
#guard tagNames projBad3 == ([Opn.nm "abc", Opn.nm "Program:X.deep"], true)
#guard ((tagDbOf projBad3 true).map fun db => db.map (·.1)) == some [Opn.nm "abc", Opn.nm "Program:Program:X.loc"]

private theorem healthyP : ldr_Healthy (worldQ (projP [1] [3])) 4097 [238, 255, 192, 0] Drv.Ex.conn :=
  ⟨by decide +kernel, by decide +kernel, by decide +kernel, by decide +kernel, by decide +kernel, by decide,
   by decide +kernel, by decide +kernel, by decide, by decide +kernel, by decide +kernel, by decide +kernel⟩

private theorem healthyP0 : ldr_Healthy (worldQ (projP [] [])) 4097 [238, 255, 192, 0] Drv.Ex.conn :=
  ⟨by decide +kernel, by decide +kernel, by decide +kernel, by decide +kernel, by decide +kernel, by decide,
   by decide +kernel, by decide +kernel, by decide, by decide +kernel, by decide +kernel, by decide +kernel⟩

private theorem wfNestedP (pages frags : List Nat) (k tid : Nat) : lon_WfNested (projP pages frags) k tid :=
  lon_WfNested_of_all (projP pages frags) (fun t ht => wfTemplates pages frags t ht) k tid

private theorem memP (pages frags : List Nat) (s : Symbol) (hs : s ∈ (stateP pages frags).proj.controller) :
    s = Ex.s1 ∨ s = symMain ∨ s = symAux ∨ s = i1 := by
  simpa [stateP, projP] using hs

private theorem progSymsP (pages frags : List Nat) : ∀ pr ∈ (stateP pages frags).proj.programs, lon_ProgSyms (stateP pages frags).proj pr.2 := by
  intro pr hpr
  simp only [stateP, projP, List.mem_cons, List.not_mem_nil, or_false] at hpr
  rcases hpr with rfl | rfl
  · refine ⟨?_, by decide, by decide, ?_, ?_⟩
    · intro s hs
      simp only [List.mem_cons, List.not_mem_nil, or_false] at hs
      rcases hs with rfl | rfl | rfl <;> (unfold Up.WfSymbol; decide)
    · intro s hs
      simp only [List.mem_cons, List.not_mem_nil, or_false] at hs
      rcases hs with rfl | rfl | rfl <;> decide
    · intro s hs _ hst
      simp only [List.mem_cons, List.not_mem_nil, or_false] at hs
      rcases hs with rfl | rfl | rfl
      · exact absurd hst (by decide)
      · exact ⟨by rfl, wfNestedP pages frags _ _⟩
      · exact absurd hst (by decide)
  · refine ⟨?_, by decide, by decide, ?_, ?_⟩
    · intro s hs
      simp only [List.mem_cons, List.not_mem_nil, or_false] at hs
      subst hs
      unfold Up.WfSymbol; decide
    · intro s hs
      simp only [List.mem_cons, List.not_mem_nil, or_false] at hs
      subst hs
      decide
    · intro s hs _ _
      simp only [List.mem_cons, List.not_mem_nil, or_false] at hs
      subst hs
      exact ⟨by rfl, wfNestedP pages frags _ _⟩

/-- every hypothesis of `open_tags_program_scopes` holds for the concrete world (one symbol per page, 3-byte fragments) … -/
example : ∃ w' l', getTagList hookAll (worldQ (projP [1] [3])) Ex.l32 true = (w', l', .ok ()) ∧ l'.tags = dbP ∧
      (l'.info.programs.getD []).map (·.1) = [Opn.nm "Main", Opn.nm "Aux"] := by
  obtain ⟨w', l', _, _, h1, h2, _, h4, _⟩ :=
    open_tags_program_scopes (worldQ (projP [1] [3])) Ex.l32 4097 [238, 255, 192, 0] Drv.Ex.conn (stateP [1] [3]) dbP healthyP
      (by rfl) (fun _ => by decide)
      (by intro s hs
          rcases memP [1] [3] s hs with rfl | rfl | rfl | rfl <;> (unfold Up.WfSymbol; decide))
      (by simp only [stateP, projP]; decide) (by decide) (by decide)
      (by intro s hs _ hst
          rcases memP [1] [3] s hs with rfl | rfl | rfl | rfl
          · exact absurd hst (by decide)
          · exact absurd hst (by decide)
          · exact absurd hst (by decide)
          · exact ⟨by rfl, wfNestedP [1] [3] _ _⟩)
      (by intro s hs hp
          rcases memP [1] [3] s hs with rfl | rfl | rfl | rfl
          · exact absurd hp (by decide)
          · exact ⟨by decide, by decide, by decide, by decide, by decide⟩
          · exact ⟨by decide, by decide, by decide, by decide, by decide⟩
          · exact absurd hp (by decide))
      (progSymsP [1] [3]) (by rfl)
  exact ⟨w', l', h1, h2, by rw [h4]; rfl⟩

/-- … and with the default schedules: the same tag database -/
example : ∃ w' l', getTagList hookAll (worldQ (projP [] [])) Ex.l32 true = (w', l', .ok ()) ∧ l'.tags = dbP ∧
      (l'.info.programs.getD []).map (·.1) = [Opn.nm "Main", Opn.nm "Aux"] := by
  obtain ⟨w', l', _, _, h1, h2, _, h4, _⟩ :=
    open_tags_program_scopes (worldQ (projP [] [])) Ex.l32 4097 [238, 255, 192, 0] Drv.Ex.conn (stateP [] []) dbP healthyP0
      (by rfl) (fun _ => by decide)
      (by intro s hs
          rcases memP [] [] s hs with rfl | rfl | rfl | rfl <;> (unfold Up.WfSymbol; decide))
      (by simp only [stateP, projP]; decide) (by decide) (by decide)
      (by intro s hs _ hst
          rcases memP [] [] s hs with rfl | rfl | rfl | rfl
          · exact absurd hst (by decide)
          · exact absurd hst (by decide)
          · exact absurd hst (by decide)
          · exact ⟨by rfl, wfNestedP [] [] _ _⟩)
      (by intro s hs hp
          rcases memP [] [] s hs with rfl | rfl | rfl | rfl
          · exact absurd hp (by decide)
          · exact ⟨by decide, by decide, by decide, by decide, by decide⟩
          · exact ⟨by decide, by decide, by decide, by decide, by decide⟩
          · exact absurd hp (by decide))
      (progSymsP [] []) (by rfl)
  exact ⟨w', l', h1, h2, by rw [h4]; rfl⟩

end ExN

end Pycomm.Lgx.Opn
