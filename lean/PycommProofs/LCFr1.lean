/-
  Helper lemmas for C11 at driver level (LifecycleFrames.lean).  Part 1: the vocabulary (what the target granted,
  as read from its event log; the frame predicate; the invariant of driver ‖ target that carries it), what the
  target does to its counters whatever it is sent, and one `CIPDriver.send` exchange.

  Unlike the invariant of LCInv.lean this one does not depend on what the application sends to the Connection
  Manager through generic_message: no `AvoidsCM` hypothesis is needed for C11.
-/
import PycommProofs.LCInv
import PycommProofs.LCBasic
namespace Pycomm.Cli
open Pycomm.Tgt Pycomm.Encap Pycomm.Path Pycomm.Reply Pycomm.EN

/-! ### what the target granted, read from its log -/

/-- the session handles of the successful RegisterSession records of a target log -/
def lcfr_sessions (log : List Event) : List Nat :=
  log.filterMap fun e => match e with
    | .encap c s true => if c = CMD_REGISTER then some s else none
    | _ => none

/-- a record of a successful Forward Open -/
def lcfr_isFoOk : Event → Bool
  | .fo _ _ true => true
  | _ => false

/-- the number of successful Forward Opens recorded in a log -/
def lcfr_foCount (log : List Event) : Nat := log.countP lcfr_isFoOk

/-- the connection id the target hands out with its `k`-th successful Forward Open when its counter started at `cid0` -/
def lcfr_cidAt (cid0 k : Nat) : Nat := (cid0 + k * 0x10001) % 2 ^ 32

/-- the connection ids the target granted so far: one per successful Forward Open record -/
def lcfr_cids (cid0 : Nat) (log : List Event) : List Nat := (List.range (lcfr_foCount log)).map (lcfr_cidAt cid0)

theorem lcfr_mem_sessions (log : List Event) (s : Nat) :
    s ∈ lcfr_sessions log ↔ Event.encap CMD_REGISTER s true ∈ log := by
  unfold lcfr_sessions
  rw [List.mem_filterMap]
  constructor
  · rintro ⟨e, he, h⟩
    split at h
    · split at h
      · rename_i hc
        cases h
        subst hc
        exact he
      · cases h
    · cases h
  · intro h
    exact ⟨_, h, by simp⟩

theorem lcfr_mem_cids (cid0 : Nat) (log : List Event) (c : Nat) :
    c ∈ lcfr_cids cid0 log ↔ ∃ k, k < lcfr_foCount log ∧ c = lcfr_cidAt cid0 k := by
  unfold lcfr_cids
  rw [List.mem_map]
  constructor
  · rintro ⟨k, hk, h⟩
    exact ⟨k, List.mem_range.1 hk, h.symm⟩
  · rintro ⟨k, hk, h⟩
    exact ⟨k, List.mem_range.2 hk, h.symm⟩

theorem lcfr_foCount_append (a b : List Event) : lcfr_foCount (a ++ b) = lcfr_foCount a + lcfr_foCount b := by
  unfold lcfr_foCount
  exact List.countP_append

theorem lcfr_sessions_mono (extra log : List Event) (s : Nat) (h : s ∈ lcfr_sessions log) :
    s ∈ lcfr_sessions (extra ++ log) := by
  rw [lcfr_mem_sessions] at h ⊢
  exact List.mem_append_right _ h

theorem lcfr_cids_mono (cid0 : Nat) (extra log : List Event) (c : Nat) (h : c ∈ lcfr_cids cid0 log) :
    c ∈ lcfr_cids cid0 (extra ++ log) := by
  rw [lcfr_mem_cids] at h ⊢
  obtain ⟨k, hk, e⟩ := h
  exact ⟨k, by rw [lcfr_foCount_append]; omega, e⟩

theorem lcfr_cidAt_succ (cid0 k : Nat) : lcfr_cidAt cid0 (k + 1) = (lcfr_cidAt cid0 k + 0x10001) % 2 ^ 32 := by
  unfold lcfr_cidAt
  omega

theorem lcfr_cidAt_lt (cid0 k : Nat) : lcfr_cidAt cid0 k < 2 ^ 32 := Nat.mod_lt _ (by decide)

/-- events that are no successful Forward Open records do not count -/
theorem lcfr_foCount_zero (extra : List Event) (h : ∀ e ∈ extra, lcfr_isFoOk e = false) : lcfr_foCount extra = 0 := by
  unfold lcfr_foCount
  rw [List.countP_eq_zero]
  intro e he
  rw [h e he]
  exact Bool.false_ne_true

theorem lcfr_nofo_isFoOk (e : Event) (h : ∀ l s o, e ≠ .fo l s o) : lcfr_isFoOk e = false := by
  cases e with
  | fo l s o => exact absurd rfl (h l s o)
  | encap _ _ _ | mr _ _ _ _ | fc _ | violation _ => rfl

/-! ### the frame predicate -/

/-- same text as `FrameOk` in LifecycleFrames.lean -/
def lcfr_FrameOk (sessions cids : List Nat) (f : Bytes) : Prop :=
  ∃ fr, parseFrame f = some fr ∧ fr.status = 0 ∧ fr.options = 0 ∧
    (fr.session ≠ 0 → fr.session ∈ sessions) ∧
    ((fr.command = CMD_REGISTER ∧ fr.session = 0 ∧ fr.body = [1, 0, 0, 0]) ∨
     (fr.command = CMD_LIST_IDENTITY ∧ fr.body = []) ∨
     (fr.command = CMD_UNREGISTER ∧ fr.session ≠ 0 ∧ fr.body = []) ∨
     (fr.command = CMD_SEND_RR ∧ ∃ m, parseCpf fr.body = some (.unconnected m)) ∨
     (fr.command = CMD_SEND_UNIT ∧ fr.session ≠ 0 ∧
        ∃ cid seq m, parseCpf fr.body = some (.connected cid seq m) ∧ cid ∈ cids))

theorem lcfr_FrameOk_mono {s s' c c' : List Nat} {f : Bytes} (h : lcfr_FrameOk s c f)
    (hs : ∀ x ∈ s, x ∈ s') (hc : ∀ x ∈ c, x ∈ c') : lcfr_FrameOk s' c' f := by
  obtain ⟨fr, h1, h2, h3, h4, h5⟩ := h
  refine ⟨fr, h1, h2, h3, fun h => hs _ (h4 h), ?_⟩
  rcases h5 with h | h | h | h | ⟨a, b, cid, seq, m, d, e⟩
  · exact .inl h
  · exact .inr (.inl h)
  · exact .inr (.inr (.inl h))
  · exact .inr (.inr (.inr (.inl h)))
  · exact .inr (.inr (.inr (.inr ⟨a, b, cid, seq, m, d, hc _ e⟩)))

/-- the frames written so far, in order, each acceptable with respect to the target log AS IT STOOD WHEN THE FRAME
    WAS WRITTEN (logs are newest-first, so they grow at the front): an interleaving of "a frame is appended" and
    "the log grows" -/
inductive lcfr_SentOk (cid0 : Nat) : List Bytes → List Event → Prop
  | nil (log : List Event) : lcfr_SentOk cid0 [] log
  | snoc {fs : List Bytes} {log : List Event} (f : Bytes) : lcfr_SentOk cid0 fs log →
      lcfr_FrameOk (lcfr_sessions log) (lcfr_cids cid0 log) f → lcfr_SentOk cid0 (fs ++ [f]) log
  | grow {fs : List Bytes} {log : List Event} (extra : List Event) : lcfr_SentOk cid0 fs log →
      lcfr_SentOk cid0 fs (extra ++ log)

theorem lcfr_SentOk_all {cid0 : Nat} {fs : List Bytes} {log : List Event} (h : lcfr_SentOk cid0 fs log) :
    ∀ f ∈ fs, lcfr_FrameOk (lcfr_sessions log) (lcfr_cids cid0 log) f := by
  induction h with
  | nil log => intro f hf; cases hf
  | snoc f _ hok ih =>
    intro g hg
    rcases List.mem_append.1 hg with hg | hg
    · exact ih g hg
    · simp only [List.mem_singleton] at hg
      subst hg; exact hok
  | grow extra _ ih =>
    intro g hg
    exact lcfr_FrameOk_mono (ih g hg) (fun x hx => lcfr_sessions_mono _ _ x hx) (fun x hx => lcfr_cids_mono _ _ _ x hx)

/-! ### the invariant -/

/-- what is kept about the target alone: its connection-id counter is where the recorded successful Forward Opens
    put it, its session counter fits the field -/
structure lcfr_TInv (cid0 : Nat) (b : Base) : Prop where
  nc : b.nextCid = lcfr_cidAt cid0 (lcfr_foCount b.log)
  ns : b.nextSession < 2 ^ 32

/-- driver ‖ target: the driver's session handle and connection id are ones the target granted (as recorded in its
    log), and so were the ones in every frame written so far -/
structure lcfr_Inv (cid0 : Nat) {σ} (w : World σ) : Prop where
  ctx8 : w.drv.context.length = 8
  opt0 : w.drv.option = 0
  t : lcfr_TInv cid0 w.net.target.base
  sess : ∀ s, w.drv.session = some s → s ≠ 0 → s ∈ lcfr_sessions w.net.target.base.log
  cid : ∀ cidb, w.drv.targetCid = some cidb →
      cidb.length = 4 ∧ leVal cidb ∈ lcfr_cids cid0 w.net.target.base.log
  con : w.drv.targetIsConnected = true → w.drv.targetCid ≠ none ∧ w.drv.session ≠ some 0
  sent : lcfr_SentOk cid0 w.net.sent w.net.target.base.log

/-- between two exchanges nothing is waiting to be read -/
def lcfr_Pend {σ} (w : World σ) : Prop := w.drv.hasSock = true → w.net.pending = []

/-- a step of the target: the log grows at the front, the counters stay as the log says -/
def lcfr_TP (b b' : Base) : Prop :=
  (∃ extra, b'.log = extra ++ b.log) ∧ ∀ cid0, lcfr_TInv cid0 b → lcfr_TInv cid0 b'

theorem lcfr_TP_refl (b : Base) : lcfr_TP b b := ⟨⟨[], rfl⟩, fun _ h => h⟩

theorem lcfr_TP_trans {a b c : Base} (h1 : lcfr_TP a b) (h2 : lcfr_TP b c) : lcfr_TP a c := by
  obtain ⟨⟨x, hx⟩, f⟩ := h1
  obtain ⟨⟨y, hy⟩, g⟩ := h2
  exact ⟨⟨y ++ x, by rw [hy, hx, List.append_assoc]⟩, fun c0 h => g c0 (f c0 h)⟩

/-- counters untouched, the log extended by events that are no successful Forward Open records -/
theorem lcfr_TP_quiet (b b' : Base) (extra : List Event) (hl : b'.log = extra ++ b.log)
    (hq : ∀ e ∈ extra, lcfr_isFoOk e = false) (hc : b'.nextCid = b.nextCid) (hs : b'.nextSession = b.nextSession) :
    lcfr_TP b b' := by
  refine ⟨⟨extra, hl⟩, fun c0 h => ⟨?_, hs ▸ h.ns⟩⟩
  rw [hc, hl, lcfr_foCount_append, lcfr_foCount_zero extra hq, Nat.zero_add]
  exact h.nc

theorem lcfr_TP_event (b : Base) (e : Event) (he : lcfr_isFoOk e = false) : lcfr_TP b (b.event e) :=
  lcfr_TP_quiet b (b.event e) [e] rfl (fun x hx => by simp only [List.mem_singleton] at hx; subst hx; exact he) rfl rfl

theorem lcfr_TP_ext (b b' : Base) (hl : lci_Ext lci_Quiet b.log b'.log) (hc : b'.nextCid = b.nextCid)
    (hs : b'.nextSession = b.nextSession) : lcfr_TP b b' := by
  obtain ⟨x, hx, hq⟩ := hl
  exact lcfr_TP_quiet b b' x hx (fun e he => lcfr_nofo_isFoOk e (hq e he).1) hc hs

/-! ### the target, whatever it is sent -/

theorem lcfr_tgt_forwardOpen (b : Base) (s : Nat) (l : Bool) (d : Bytes) : lcfr_TP b (Tgt.forwardOpen b s l d).1 := by
  obtain ⟨_, k2, k3⟩ := lci_forwardOpen b s l d _ rfl
  rcases k3 with ⟨_, p2, _, p4, _⟩ | ⟨r, _, ⟨p2, _, p4, _⟩ | ⟨_, p2, _, p4, _⟩ | ⟨p2, p4, _⟩⟩
  · exact lcfr_TP_quiet _ _ [_] p2 (fun e he => by simp only [List.mem_singleton] at he; subst he; rfl) p4 k2
  · exact lcfr_TP_quiet _ _ [_] p2 (fun e he => by simp only [List.mem_singleton] at he; subst he; rfl) p4 k2
  · exact lcfr_TP_quiet _ _ [_] p2 (fun e he => by simp only [List.mem_singleton] at he; subst he; rfl) p4 k2
  · refine ⟨⟨[_], p2⟩, fun c0 h => ⟨?_, k2 ▸ h.ns⟩⟩
    rw [p4, p2, h.nc]
    show _ = lcfr_cidAt c0 (lcfr_foCount (_ :: b.log))
    have : lcfr_foCount (Event.fo l r.size true :: b.log) = lcfr_foCount b.log + 1 := by
      unfold lcfr_foCount
      rw [List.countP_cons]
      rfl
    rw [this, lcfr_cidAt_succ]

theorem lcfr_execMR {σ} (hook : ObjHook σ) (hh : lci_HookOk hook) (t : Target σ) (s : Nat) (cs : Option Nat)
    (conn ucs : Bool) (route msg : Bytes) : lcfr_TP t.base (execMR hook t s cs conn ucs route msg).1.base := by
  unfold execMR
  split
  · exact lcfr_TP_event _ _ rfl
  · rename_i req hreq
    have h0 : lcfr_TP t.base (t.base.event (.mr conn ucs req route)) := lcfr_TP_event _ _ rfl
    dsimp only
    split
    · split
      · exact h0
      · split
        · exact lcfr_TP_trans h0 (lcfr_tgt_forwardOpen _ _ _ _)
        · split
          · obtain ⟨_, _, e3, e4, e5⟩ := lci_forwardClose (t.base.event (.mr conn ucs req route)) req.data
            exact lcfr_TP_trans h0 (lcfr_TP_ext _ _ e3 e5 e4)
          · exact h0
    · split
      · rename_i b r hb
        obtain ⟨_, _, e3, e4, e5⟩ := lci_baseObject _ _ _ _ hb
        exact lcfr_TP_trans h0 (lcfr_TP_quiet _ _ [] (by rw [e3]; rfl) (fun e he => nomatch he) e5 e4)
      · split
        · rename_i t' r ht
          obtain ⟨_, _, _, e4, e5, x, hx, hq⟩ := hh _ _ _ _ _ ht
          exact lcfr_TP_trans h0 (lcfr_TP_quiet _ _ x hx (fun e he => lcfr_nofo_isFoOk e (hq e he).1) e5 e4)
        · exact h0

theorem lcfr_nextHandle_lt (n : Nat) : nextHandle n < 2 ^ 32 := by
  unfold nextHandle
  split
  · decide
  · exact Nat.mod_lt _ (by decide)

/-- whatever frame (or garbage) reaches the target: the log grows, the counters stay as the log says -/
theorem lcfr_handle {σ} (hook : ObjHook σ) (hh : lci_HookOk hook) (t : Target σ) (raw : Bytes) :
    lcfr_TP t.base (handle hook t raw).1.base := by
  have ev : ∀ (b : Base) (s : String), lcfr_TP b (b.event (.violation s)) := fun b s => lcfr_TP_event _ _ rfl
  have en : ∀ (b : Base) (c s : Nat) (ok : Bool), lcfr_TP b (b.event (.encap c s ok)) := fun b c s ok => lcfr_TP_event _ _ rfl
  unfold handle
  cases hp : parseFrame raw with
  | none => exact ev _ _
  | some f =>
    simp only []
    by_cases h1 : f.status ≠ 0 ∨ f.options ≠ 0
    · rw [if_pos h1]; exact ev _ _
    rw [if_neg h1]
    by_cases h2 : f.command = CMD_REGISTER
    · rw [if_pos h2]
      split
      · exact ev _ _
      · split
        · exact ev _ _
        · split
          · exact en _ _ _ _
          · refine ⟨⟨[_], rfl⟩, fun c0 h => ⟨?_, lcfr_nextHandle_lt _⟩⟩
            show t.base.nextCid = lcfr_cidAt c0 (lcfr_foCount (_ :: t.base.log))
            rw [h.nc]
            rfl
    rw [if_neg h2]
    by_cases h3 : f.command = CMD_LIST_IDENTITY
    · rw [if_pos h3]
      split
      · exact ev _ _
      · exact en _ _ _ _
    rw [if_neg h3]
    by_cases h4 : f.command = CMD_UNREGISTER
    · rw [if_pos h4]
      split
      · exact ev _ _
      · split
        · exact ev _ _
        · exact lcfr_TP_quiet _ _ [_] rfl (fun e he => by simp only [List.mem_singleton] at he; subst he; rfl) rfl rfl
    rw [if_neg h4]
    by_cases h5 : f.command = CMD_SEND_RR
    · rw [if_pos h5]
      split
      · exact ev _ _
      · split
        · split
          · split
            · exact lcfr_TP_trans (en _ _ _ _) (ev _ _)
            · exact lcfr_TP_trans (en _ _ _ _) (lcfr_execMR hook hh ⟨_, t.ext⟩ _ _ _ _ _ _)
          · exact lcfr_TP_trans (en _ _ _ _) (lcfr_execMR hook hh ⟨_, t.ext⟩ _ _ _ _ _ _)
        · exact ev _ _
    rw [if_neg h5]
    by_cases h6 : f.command = CMD_SEND_UNIT
    · rw [if_pos h6]
      split
      · exact ev _ _
      · split
        · rename_i cid seq msg hcpf
          split
          · exact ev _ _
          · rename_i c hc
            have q7 : ∀ (t1 : Target σ) (p : Prop) [Decidable p] (e : String),
                lcfr_TP t1.base (if p then { t1 with base := t1.base.event (.violation e) } else t1).base := by
              intro t1 p _ e; split
              · exact ev _ _
              · exact lcfr_TP_refl _
            have m3 : ∀ (x y z e : Event), lcfr_isFoOk x = false → lcfr_isFoOk y = false → lcfr_isFoOk z = false →
                e ∈ [x, y, z] → lcfr_isFoOk e = false := by
              intro x y z e hx hy hz he
              simp only [List.mem_cons, List.not_mem_nil, or_false] at he
              rcases he with rfl | rfl | rfl <;> assumption
            have m2 : ∀ (y z e : Event), lcfr_isFoOk y = false → lcfr_isFoOk z = false →
                e ∈ [y, z] → lcfr_isFoOk e = false := by
              intro y z e hy hz he
              simp only [List.mem_cons, List.not_mem_nil, or_false] at he
              rcases he with rfl | rfl <;> assumption
            by_cases hlen : msg.length + 2 > c.size
            · by_cases hseq : (c.lastSeq == some seq) = true
              · simp only [hlen, hseq, if_true]
                exact lcfr_TP_quiet _ _ [_, _, _] rfl (fun e he => m3 _ _ _ e rfl rfl rfl he) rfl rfl
              · simp only [hlen, hseq, if_true]
                exact lcfr_TP_quiet _ _ [_, _] rfl (fun e he => m2 _ _ e rfl rfl he) rfl rfl
            · by_cases hseq : (c.lastSeq == some seq) = true
              · simp only [hlen, hseq, if_true, if_false]
                refine lcfr_TP_trans (lcfr_TP_trans ?_ (lcfr_execMR hook hh ⟨_, t.ext⟩ f.session (some (c.size - 2)) true false [] msg)) (q7 _ _ _)
                exact lcfr_TP_quiet _ _ [_, _] rfl (fun e he => m2 _ _ e rfl rfl he) rfl rfl
              · simp only [hlen, hseq, if_false]
                refine lcfr_TP_trans (lcfr_TP_trans ?_ (lcfr_execMR hook hh ⟨_, t.ext⟩ f.session (some (c.size - 2)) true false [] msg)) (q7 _ _ _)
                exact lcfr_TP_quiet _ _ [_] rfl (fun e he => by simp only [List.mem_singleton] at he; subst he; rfl) rfl rfl
        · exact ev _ _
    · rw [if_neg h6]; exact ev _ _

/-! ### one `CIPDriver.send` -/

theorem lcfr_sockSend {σ} (hook : ObjHook σ) (n : Net σ) (frame : Bytes) (p : Net σ × Except Exn Unit)
    (hp : n.sockSend hook frame = p) :
    (p.1.sent = n.sent ∧ p.1.target = n.target ∧ p.2 = .error .comm) ∨
    (p.1.sent = n.sent ++ [frame] ∧ (p.1.target = n.target ∨ p.1.target = (handle hook n.target frame).1) ∧
      p.2 = .ok ()) := by
  unfold Net.sockSend at hp
  dsimp only at hp
  split at hp
  · subst hp; exact .inl ⟨rfl, rfl, rfl⟩
  · split at hp
    · subst hp; exact .inr ⟨rfl, .inl rfl, rfl⟩
    · subst hp; exact .inr ⟨rfl, .inr rfl, rfl⟩

theorem lcfr_sockReceive {σ} (n : Net σ) : n.sockReceive.1.sent = n.sent ∧ n.sockReceive.1.target = n.target := by
  unfold Net.sockReceive
  dsimp only
  split
  · exact ⟨rfl, rfl⟩
  · split <;> exact ⟨rfl, rfl⟩

/-- `send`: the driver attributes are untouched; nothing was written, or exactly the frame built from the driver's
    attributes was appended to what was written before — and the target has handled it or not -/
theorem lcfr_sendReq_net {σ} (hook : ObjHook σ) (w : World σ) (r : Req) (nr : Bool) :
    (sendReq hook w r nr).1.drv = w.drv ∧
    (((sendReq hook w r nr).1.net.sent = w.net.sent ∧ (sendReq hook w r nr).1.net.target = w.net.target) ∨
      ∃ frame, buildRequest r w.drv.ctx = .ok frame ∧ w.drv.hasSock = true ∧
        (sendReq hook w r nr).1.net.sent = w.net.sent ++ [frame] ∧
        ((sendReq hook w r nr).1.net.target = w.net.target ∨
         (sendReq hook w r nr).1.net.target = (handle hook w.net.target frame).1)) := by
  unfold sendReq
  split
  · exact ⟨rfl, .inl ⟨rfl, rfl⟩⟩
  · next frame hb =>
    split
    · exact ⟨rfl, .inl ⟨rfl, rfl⟩⟩
    · next hs =>
      have hs' : w.drv.hasSock = true := by simpa using hs
      have h1 := lcfr_sockSend hook w.net frame _ rfl
      generalize w.net.sockSend hook frame = ss at h1
      obtain ⟨n1, sr⟩ := ss
      dsimp only at h1 ⊢
      rcases h1 with ⟨a1, a2, a3⟩ | ⟨a1, a2, a3⟩
      · subst a3
        exact ⟨rfl, .inl ⟨a1, a2⟩⟩
      · subst a3
        dsimp only
        split
        · exact ⟨rfl, .inr ⟨frame, hb, hs', a1, a2⟩⟩
        · have h2 := lcfr_sockReceive n1
          generalize n1.sockReceive = rr at h2
          obtain ⟨n2, rcv⟩ := rr
          dsimp only at h2 ⊢
          have : (n2.sent = w.net.sent ++ [frame]) ∧ (n2.target = w.net.target ∨ n2.target = (handle hook w.net.target frame).1) := by
            rw [h2.1, h2.2]; exact ⟨a1, a2⟩
          cases rcv with
          | error e => exact ⟨rfl, .inr ⟨frame, hb, hs', this.1, this.2⟩⟩
          | ok reply => exact ⟨rfl, .inr ⟨frame, hb, hs', this.1, this.2⟩⟩

/-- transfer of the invariant along a step that leaves the driver attributes alone -/
theorem lcfr_Inv_step {cid0 : Nat} {σ} {w w' : World σ} (hi : lcfr_Inv cid0 w) (hd : w'.drv = w.drv)
    (ht : lcfr_TP w.net.target.base w'.net.target.base)
    (hs : w'.net.sent = w.net.sent ∨ ∃ f, w'.net.sent = w.net.sent ++ [f] ∧
        lcfr_FrameOk (lcfr_sessions w.net.target.base.log) (lcfr_cids cid0 w.net.target.base.log) f) :
    lcfr_Inv cid0 w' := by
  obtain ⟨⟨x, hx⟩, ht⟩ := ht
  refine ⟨hd ▸ hi.ctx8, hd ▸ hi.opt0, ht cid0 hi.t, ?_, ?_, hd ▸ hi.con, ?_⟩
  · intro s h1 h2
    rw [hx]
    exact lcfr_sessions_mono _ _ s (hi.sess s (hd ▸ h1) h2)
  · intro cidb h
    obtain ⟨a, b⟩ := hi.cid cidb (hd ▸ h)
    rw [hx]
    exact ⟨a, lcfr_cids_mono _ _ _ _ b⟩
  · rw [hx]
    rcases hs with hs | ⟨f, hs, hf⟩
    · rw [hs]; exact .grow x hi.sent
    · rw [hs]; exact .grow x (.snoc f hi.sent hf)

/-- changing driver attributes that the invariant does not mention (sequence counter, Forward Open mode, route, …) -/
theorem lcfr_Inv_drv {cid0 : Nat} {σ} {w : World σ} (hi : lcfr_Inv cid0 w) (d : Drv)
    (h1 : d.context = w.drv.context) (h2 : d.option = w.drv.option) (h3 : d.session = w.drv.session)
    (h4 : d.targetCid = w.drv.targetCid) (h5 : d.targetIsConnected = w.drv.targetIsConnected) :
    lcfr_Inv cid0 ({ w with drv := d } : World σ) :=
  ⟨by show d.context.length = 8; rw [h1]; exact hi.ctx8, by show d.option = 0; rw [h2]; exact hi.opt0, hi.t,
   fun s h => hi.sess s (h3 ▸ h), fun c h => hi.cid c (h4 ▸ h),
   fun h => by show d.targetCid ≠ none ∧ d.session ≠ some 0; rw [h4, h3]; exact hi.con (h5 ▸ h), hi.sent⟩

/-- the requests the driver issues, with the state it issues them in -/
def lcfr_ReqOk (d : Drv) : Req → Prop
  | .registerSession pv fl => pv ++ fl = [1, 0, 0, 0] ∧ (d.session = some 0 ∨ d.session = none)
  | .unregisterSession => d.session ≠ some 0
  | .listIdentity => True
  | .sendRR _ => True
  | .sendUnit _ _ => d.targetIsConnected = true

/-- a frame built in a state that satisfies the invariant is acceptable with respect to the log of that state -/
theorem lcfr_built_ok {cid0 : Nat} {σ} (w : World σ) (hi : lcfr_Inv cid0 w) (r : Req) (hr : lcfr_ReqOk w.drv r)
    (frame : Bytes) (hb : buildRequest r w.drv.ctx = .ok frame) :
    lcfr_FrameOk (lcfr_sessions w.net.target.base.log) (lcfr_cids cid0 w.net.target.base.log) frame := by
  obtain ⟨s, common, hs, hco, _, hp⟩ := parse_built r w.drv.ctx frame hi.ctx8 hb
  have hs' : w.drv.session = some s := hs
  refine ⟨_, hp, rfl, hi.opt0, fun h => hi.sess s hs' h, ?_⟩
  cases r with
  | registerSession pv fl =>
    obtain ⟨h1, h2⟩ := hr
    refine .inl ⟨rfl, ?_, ?_⟩
    · rcases h2 with h2 | h2
      · rw [hs'] at h2; exact (Option.some.inj h2)
      · rw [hs'] at h2; cases h2
    · show common = _
      rw [show common = pv ++ fl from hco, h1]
  | unregisterSession =>
    refine .inr (.inr (.inl ⟨rfl, ?_, hco⟩))
    intro h0
    apply hr
    rw [hs']
    exact congrArg some h0
  | listIdentity => exact .inr (.inl ⟨rfl, hco⟩)
  | sendRR m =>
    obtain ⟨hm, hc⟩ := hco
    refine .inr (.inr (.inr (.inl ⟨rfl, m, ?_⟩)))
    show parseCpf common = _
    rw [hc]
    exact parseCpf_unconnected m hm
  | sendUnit seq m =>
    obtain ⟨hseq, hm, _, hc⟩ := hco
    obtain ⟨c1, c2⟩ := hi.con hr
    cases htc : w.drv.targetCid with
    | none => exact absurd htc c1
    | some cidb =>
      obtain ⟨l4, hg⟩ := hi.cid cidb htc
      refine .inr (.inr (.inr (.inr ⟨rfl, ?_, leVal cidb, seq, m, ?_, hg⟩)))
      · intro h0
        apply c2
        rw [hs']
        exact congrArg some h0
      · show parseCpf common = _
        rw [hc]
        have : w.drv.ctx.targetCid = some cidb := htc
        rw [this]
        exact parseCpf_connected cidb m seq l4 hseq hm

/-- one `send` of a request the driver issues preserves the invariant, whatever the fault plan does to it -/
theorem lcfr_sendReq {σ} (hook : ObjHook σ) (hh : lci_HookOk hook) (cid0 : Nat) (w : World σ) (hi : lcfr_Inv cid0 w)
    (r : Req) (hr : lcfr_ReqOk w.drv r) (nr : Bool) : lcfr_Inv cid0 (sendReq hook w r nr).1 := by
  obtain ⟨hd, hn⟩ := lcfr_sendReq_net hook w r nr
  rcases hn with ⟨h1, h2⟩ | ⟨frame, hb, _, h1, h2⟩
  · exact lcfr_Inv_step hi hd (by rw [h2]; exact lcfr_TP_refl _) (.inl h1)
  · refine lcfr_Inv_step hi hd ?_ (.inr ⟨frame, h1, lcfr_built_ok w hi r hr frame hb⟩)
    rcases h2 with h2 | h2
    · rw [h2]; exact lcfr_TP_refl _
    · rw [h2]; exact lcfr_handle hook hh _ _

/-- after a `send` that waits for the reply nothing is left waiting -/
theorem lcfr_sendReq_pend {σ} (hook : ObjHook σ) (w : World σ) (hp : lcfr_Pend w) (r : Req) :
    lcfr_Pend (sendReq hook w r false).1 := by
  obtain ⟨hd, h, _⟩ := lci_sendReq hook w r false hp _ rfl
  intro hs
  rw [hd] at hs
  exact h rfl hs

end Pycomm.Cli
