/-
  `read("t", "Program:P.t")`: a controller-scope tag and a program-scoped tag (possibly of the same name) in ONE call,
  i.e. in one Multiple Service Packet — the layers composed (after `ldr2_read_two`).
-/
import PycommProofs.LDProg1
namespace Pycomm.Lgx.Drv
open Pycomm Pycomm.Tgt Pycomm.Path Pycomm.Reply Pycomm.Encap Pycomm.Lgx Pycomm.Lgx.E2E

/-- (d, service) the controller's answer to the Read Tag message for one element of the program symbol: status 0, the
    type code and the PROGRAM symbol's memory; the project is untouched -/
theorem ldp_exchange (st : LState) (cap : Nat) (P : Name) (syms : List Symbol) (s : Symbol) (c sz : Nat) (path : Bytes)
    (hP : PlainIdent P) (hprog : (ldp_prog P, syms) ∈ st.proj.programs)
    (hprogU : ∀ pr ∈ st.proj.programs, pr.1 = ldp_prog P → pr = (ldp_prog P, syms))
    (hs : s ∈ syms) (hbytes : ∀ s' ∈ syms, ∀ ch ∈ s'.name, ch < 256)
    (huniqN : ∀ s' ∈ syms, s'.name = s.name → s' = s)
    (huniqI : ∀ s' ∈ syms, s'.inst = s.inst → s' = s)
    (hty : elTyOfWord s.symbolType = .atomic c) (hsz : atomicSize c = some sz) (hlen : s.mem.length = sz)
    (hpos : 0 < sz) (hp : Denotes path (ldp_segs P s.name)) (hfit : sz + 6 ≤ cap) :
    Cl.exchange st cap (Cl.readMsg path 1) =
      ({ st with ctr := st.ctr + 1 }, { status := 0, data := le 2 c ++ s.mem }) := by
  have hmem : s.mem ≠ [] := by
    intro h; rw [h] at hlen; simp at hlen; omega
  have hr := ldp_resolve st.proj P syms s c sz hP hprog hprogU hs hbytes huniqN hty hsz hmem
  have hb := ldp_readBytes st.proj (ldp_prog P) syms s c sz hprog hprogU hs huniqI hsz hlen
  have hav := ldr_dimsProduct_pos s.dims
  have := read_e2e st cap path _ (ldp_loc (ldp_prog P) s c) 1 s.mem hp hr ⟨Nat.le_refl 1, hav, by omega⟩ hb
    (by simp only [ldp_loc, typeBytes, le, RT.leBytes_length]; omega)
  simpa only [ldp_loc, typeBytes] using this

/-- `read(a, "Program:P.b")` of a controller-scope elementary scalar tag `sa` and an elementary scalar tag `sb` of the
    program `P` on a healthy connected driver (not a Micro800) whose two estimated replies fit one multi-service
    packet: ONE frame is written, three sequence numbers are drawn, and the two Tags come back in the order of the
    request, the first with the value decoded from the controller symbol's memory, the second with the value decoded
    from the program symbol's memory -/
theorem ldp_read_ctl_prog (cfg : Cfg) (w : Cli.World Ext) (sess : Nat) (cidb : Bytes) (conn : Conn) (st : LState)
    (P : Name) (syms : List Symbol)
    (sa sb : Symbol) (ia ib : TagInfo) (ca cb sza szb : Nat) (na nb : Name) (ta tb : Ty) (va vb : PyVal) (ra rb : Bytes)
    (hw : ldr_Healthy w sess cidb conn) (hlogix : w.net.target.ext.logix = some st) (hmicro : cfg.micro800 = false)
    (hbytesa : ∀ s' ∈ st.proj.controller, ∀ ch ∈ s'.name, ch < 256)
    (hsa : sa ∈ st.proj.controller)
    (huniqNa : ∀ s' ∈ st.proj.controller, s'.name = sa.name → s' = sa)
    (huniqIa : ∀ s' ∈ st.proj.controller, s'.inst = sa.inst → s' = sa)
    (hida : PlainIdent sa.name) (hinsta : sa.inst < 2 ^ 32)
    (htya : elTyOfWord sa.symbolType = .atomic ca) (hata : atomicOfCode ca = some (na, ta)) (hba : ta.isBits = none)
    (hsza : atomicSize ca = some sza) (hlena : sa.mem.length = sza)
    (hgeta : cfg.tags.get? sa.name = some ia) (hinfoa : ldr_InfoOf ia na ta sa.inst)
    (hdeca : decode ta sa.mem = .ok (va, ra))
    (hP : PlainIdent P) (hPl : P.length ≤ 240)
    (hprog : (ldp_prog P, syms) ∈ st.proj.programs)
    (hprogU : ∀ pr ∈ st.proj.programs, pr.1 = ldp_prog P → pr = (ldp_prog P, syms))
    (hsb : sb ∈ syms)
    (hbytesb : ∀ s' ∈ syms, ∀ ch ∈ s'.name, ch < 256)
    (huniqNb : ∀ s' ∈ syms, s'.name = sb.name → s' = sb)
    (huniqIb : ∀ s' ∈ syms, s'.inst = sb.inst → s' = sb)
    (hidb : PlainIdent sb.name)
    (htyb : elTyOfWord sb.symbolType = .atomic cb) (hatb : atomicOfCode cb = some (nb, tb)) (hbb : tb.isBits = none)
    (hszb : atomicSize cb = some szb) (hlenb : sb.mem.length = szb)
    (hgetb : cfg.tags.get? (ldp_tagStr P sb.name) = some ib)
    (hkb : ib.core.tagType = .atomic) (hnameb : ib.core.dataTypeName = nb) (hibty : ib.core.ty = tb)
    (hibs : ib.core.struct = none)
    (hdecb : decode tb sb.mem = .ok (vb, rb))
    (hC : sa.name.length + P.length + sb.name.length + 76 ≤ w.drv.connectionSize)
    (hT : sa.name.length + P.length + sb.name.length + 76 ≤ conn.size) :
    ∃ w' frm, read hookAll cfg w [sa.name, ldp_tagStr P sb.name] =
        (w', .ok [{ tag := sa.name, value := va, type := some na, error := none },
                  { tag := ldp_tagStr P sb.name, value := vb, type := some nb, error := none }]) ∧
      w'.drv = w.drv.nextSeq.2.nextSeq.2.nextSeq.2 ∧ w'.net.sent = w.net.sent ++ [frm] ∧
      w'.net.target.ext = { w.net.target.ext with logix := some { st with ctr := st.ctr + 2 } } ∧
      ldr_Healthy w' sess cidb { conn with lastSeq := some w.drv.nextSeq.2.nextSeq.2.nextSeq.1 } := by
  have _ := hkb
  obtain ⟨hatya, hentrya, hndwa, hposa, hle8a⟩ := ldr_atomic_table ca sza na ta hata hba hsza
  obtain ⟨hatyb, hentryb, hndwb, hposb, hle8b⟩ := ldr_atomic_table cb szb nb tb hatb hbb hszb
  have hla := hida.2.1
  have hlb := hidb.2.1
  -- (a) parsing
  have hnda : isDword ia = false := by
    have : (na == Drv.nm "DWORD") = false := by simpa using hndwa
    simp [isDword, hinfoa.typeName, this]
  have hndb : isDword ib = false := by
    have : (nb == Drv.nm "DWORD") = false := by simpa using hndwb
    simp [isDword, hnameb, this]
  have hparsed : parseRequestedTags cfg.tags false [sa.name, ldp_tagStr P sb.name] =
      [ldr2_parsedAt 0 sa.name ia, ldr2_parsedAt 1 (ldp_tagStr P sb.name) ib] := by
    show [parseTagRequest cfg.tags false 0 sa.name, parseTagRequest cfg.tags false 1 (ldp_tagStr P sb.name)] = _
    rw [ldr_parse_plain cfg.tags false 0 sa.name ia hida hgeta hnda,
      ldp_parse_scalar cfg.tags false 1 P sb.name ib hP hidb hgetb hndb]
    rfl
  -- (b) building
  obtain ⟨pa, hpa, hpla, hdena⟩ := ldr_requestPath cfg sa.name ia sa.inst hida hinfoa.instanceId hinsta
  obtain ⟨pb, hpb, hplb, hdenb⟩ := ldp_requestPath cfg P sb.name ib hP (by omega) hidb (by omega)
  have hrsa : tagReturnSize ia 1 = sza := by simp [tagReturnSize, hinfoa.struct, hinfoa.typeName, hentrya]
  have hrsb : tagReturnSize ib 1 = szb := by simp [tagReturnSize, hibs, hnameb, hentryb]
  have hmla : (Cl.readMsg pa 1).length = pa.length + 3 := by simp [Cl.readMsg, le, RT.leBytes_length]
  have hmlb : (Cl.readMsg pb 1).length = pb.length + 3 := by simp [Cl.readMsg, le, RT.leBytes_length]
  have hoh : K.OVERHEAD = 10 := rfl
  have hbuild := ldr2_build_two cfg w.drv sa.name (ldp_tagStr P sb.name) ia ib pa pb hmicro hpa hpb
    (by unfold ldr2_estimate; rw [hrsa, hrsb, hmla, hmlb, hoh]; omega)
  -- (c)+(d) sending
  have hw1 : ldr_Healthy ({ w with drv := w.drv.nextSeq.2.nextSeq.2.nextSeq.2 } : Cli.World Ext) sess cidb conn :=
    ldr_Healthy_seq hw _ rfl
  have hqa : parseMR (Cl.readMsg pa 1) = some { service := 0x4C, path := ldr_segs sa.name sa.inst cfg.useInstanceIds, data := le 2 1 } := by
    have := parseMR_msg 0x4C pa (le 2 1) _ hdena
    simpa [Cl.readMsg] using this
  have hqb : parseMR (Cl.readMsg pb 1) = some { service := 0x4C, path := ldp_segs P sb.name, data := le 2 1 } := by
    have := parseMR_msg 0x4C pb (le 2 1) _ hdenb
    simpa [Cl.readMsg] using this
  have hexa := ldr_exchange st (conn.size - 2) sa ca sza cfg.useInstanceIds pa hida hsa hbytesa huniqNa huniqIa htya hsza hlena
    hposa hdena (by omega)
  have hexb := ldp_exchange { st with ctr := st.ctr + 1 } (conn.size - 2) P syms sb cb szb pb hP hprog hprogU hsb hbytesb
    huniqNb huniqIb htyb hszb hlenb hposb hdenb (by omega)
  have hls := ldr2_multi_two st (conn.size - 2) (Cl.readMsg pa 1) (Cl.readMsg pb 1) _ _ hqa hqb (by simp) (by simp)
    (by rw [hmla, hmlb]; omega)
  rw [hexa] at hls
  simp only at hls
  rw [hexb] at hls
  have hst0 : ([encMRReply 0x4C { status := 0, data := le 2 ca ++ sa.mem },
      encMRReply 0x4C { status := 0, data := le 2 cb ++ sb.mem }].any (fun r => r.getD 2 0 != 0)) = false := by
    simp [encMRReply]
  simp only [hst0, Bool.false_eq_true, if_false] at hls
  have hml : (Cl.multiMsg [Cl.readMsg pa 1, Cl.readMsg pb 1]).length = 12 + (pa.length + 3) + (pb.length + 3) := by
    unfold Cl.multiMsg
    rw [List.length_append, ldr2_packMulti_two_length, hmla, hmlb]
    simp; omega
  obtain ⟨w2, frm, hsend, hd2, hsent2, hext2, hh2⟩ := ldr2_sendUnit_logix
    ({ w with drv := w.drv.nextSeq.2.nextSeq.2.nextSeq.2 } : Cli.World Ext) sess cidb conn st
    w.drv.nextSeq.2.nextSeq.2.nextSeq.1 (Cl.multiMsg [Cl.readMsg pa 1, Cl.readMsg pb 1])
    { service := 0x0A, path := [.logical 0 2, .logical 4 1], data := K.packMulti [Cl.readMsg pa 1, Cl.readMsg pb 1] } _
    hw1 hlogix (parseMR_multi _)
    (Or.inr ⟨2, 1, [], rfl, by decide, by decide, by decide, by decide, by decide⟩) hls
    (ldr_nextSeq_lt _) (by rw [hml]; omega) (by rw [hml]; omega)
  -- (e) the response
  obtain ⟨_, hdata, _⟩ := ldr_tagResp_ok 0x0A sess conn.toId w.drv.nextSeq.2.nextSeq.2.nextSeq.1
    w.drv.nextSeq.2.nextSeq.2.nextSeq.2.context
    (K.packMulti [encMRReply 0x4C { status := 0, data := le 2 ca ++ sa.mem },
                  encMRReply 0x4C { status := 0, data := le 2 cb ++ sb.mem }]) hw1.ctx8
  have hrla : (encMRReply 0x4C { status := 0, data := le 2 ca ++ sa.mem }).length = 6 + sza := by
    simp [encMRReply, le, RT.leBytes_length, hlena]; omega
  have hrlb : (encMRReply 0x4C { status := 0, data := le 2 cb ++ sb.mem }).length = 6 + szb := by
    simp [encMRReply, le, RT.leBytes_length, hlenb]; omega
  have hemb : embeddedReplies (some (K.packMulti [encMRReply 0x4C { status := 0, data := le 2 ca ++ sa.mem },
      encMRReply 0x4C { status := 0, data := le 2 cb ++ sb.mem }])) =
      [some (List.replicate 46 0 ++ encMRReply 0x4C { status := 0, data := le 2 ca ++ sa.mem }),
       some (List.replicate 46 0 ++ encMRReply 0x4C { status := 0, data := le 2 cb ++ sb.mem })] := by
    unfold embeddedReplies
    simp only
    rw [if_neg (by rw [ldr2_packMulti_two_length]; omega),
      K.client_unpacks_packed _ (by simp) (by simp only [List.length_cons, List.length_nil, List.map_cons, List.map_nil,
        List.foldl_cons, List.foldl_nil, hrla, hrlb]; omega)]
    rfl
  have hrpa := ldr2_readResp_padded
    { seq := w.drv.nextSeq.1, tag := sa.name, elements := 1, info := ia, rid := 0, path := pa } (le 2 ca ++ sa.mem) va na
    (ldr_parseReadReply ia ca ta na sa.mem ra va hinfoa.ty hinfoa.typeName hndwa hatya hba hdeca)
  have hrpb := ldr2_readResp_padded
    { seq := w.drv.nextSeq.2.nextSeq.1, tag := ldp_tagStr P sb.name, elements := 1, info := ib, rid := 1, path := pb }
    (le 2 cb ++ sb.mem) vb nb (ldr_parseReadReply ib cb tb nb sb.mem rb vb hibty hnameb hndwb hatyb hbb hdecb)
  -- the decorator
  have hfo : Cli.ensureForwardOpen hookAll Cli.FUEL w = (w, .ok ()) := ldr_ensureFO_connected hookAll 7 w hw.connected
  refine ⟨w2, frm, ?_, hd2, hsent2, ?_, hh2⟩
  · unfold read
    rw [hfo]
    dsimp only
    rw [hparsed, hbuild]
    dsimp only
    unfold sendRequests
    have hmap : ([{ seq := w.drv.nextSeq.1, tag := sa.name, elements := 1, info := ia, rid := 0, path := pa },
        { seq := w.drv.nextSeq.2.nextSeq.1, tag := ldp_tagStr P sb.name, elements := 1, info := ib, rid := 1, path := pb }] :
          List ReadReq).map
        (fun q => Cl.readMsg q.path q.elements) = [Cl.readMsg pa 1, Cl.readMsg pb 1] := rfl
    rw [← hmap] at hsend
    rw [ldr2_sendRequest_multi ({ w with drv := w.drv.nextSeq.2.nextSeq.2.nextSeq.2 } : Cli.World Ext) w2 []
      w.drv.nextSeq.2.nextSeq.2.nextSeq.1 _ _ hsend (ldr_tagResp_commandStatus _ _ _ _)]
    dsimp only
    rw [hdata, hemb]
    have hmr : multiReadResults []
        (([{ seq := w.drv.nextSeq.1, tag := sa.name, elements := 1, info := ia, rid := 0, path := pa },
           { seq := w.drv.nextSeq.2.nextSeq.1, tag := ldp_tagStr P sb.name, elements := 1, info := ib, rid := 1,
             path := pb }] : List ReadReq).zip
          [some (List.replicate 46 0 ++ encMRReply 0x4C { status := 0, data := le 2 ca ++ sa.mem }),
           some (List.replicate 46 0 ++ encMRReply 0x4C { status := 0, data := le 2 cb ++ sb.mem })]) =
        .ok [((0 : Nat), { tag := sa.name, value := va, type := some na, error := none }),
             ((1 : Nat), { tag := ldp_tagStr P sb.name, value := vb, type := some nb, error := none })] := by
      simp only [List.zip_cons_cons, List.zip_nil_right, multiReadResults, hrpa.1, hrpa.2, hrpb.1, hrpb.2, if_true]
      rfl
    rw [hmr]
    dsimp only
    unfold sendRequests
    dsimp only [List.isEmpty_cons, Bool.false_eq_true, if_false, List.map_cons, List.map_nil]
    have hresa := ldr2_readResult_get (ldr2_parsedAt 0 sa.name ia) ia
      { tag := sa.name, value := va, type := some na, error := none }
      [((0 : Nat), { tag := sa.name, value := va, type := some na, error := none }),
       ((1 : Nat), { tag := ldp_tagStr P sb.name, value := vb, type := some nb, error := none })]
      rfl rfl rfl (by rw [hinfoa.typeName]; exact hndwa) (ldr_decode_not_none ca ta hatya hba sa.mem ra va hdeca) rfl rfl
    have hresb := ldr2_readResult_get (ldr2_parsedAt 1 (ldp_tagStr P sb.name) ib) ib
      { tag := ldp_tagStr P sb.name, value := vb, type := some nb, error := none }
      [((0 : Nat), { tag := sa.name, value := va, type := some na, error := none }),
       ((1 : Nat), { tag := ldp_tagStr P sb.name, value := vb, type := some nb, error := none })]
      rfl rfl rfl (by rw [hnameb]; exact hndwb) (ldr_decode_not_none cb tb hatyb hbb sb.mem rb vb hdecb) rfl rfl
    simp only [Bool.false_eq_true, if_false, List.map_cons, List.map_nil]
    rw [hresa, hresb]
  · rw [hext2]

end Pycomm.Lgx.Drv
