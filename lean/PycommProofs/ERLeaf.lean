/-
  Non-recursive decoders written with the combinators of ERBasic, and their properties.
-/
import PycommProofs.ERBasic
namespace Pycomm.ER

theorem size_pos (k : IntK) : 0 < k.size := by cases k <;> decide

/-- `streamRead n` followed by the short-read check is `rd n` -/
theorem read_chk {β} (n : Nat) (bs : Bytes) (k : Bytes → Bytes → R β) :
    (streamRead (n : Int) bs >>= fun p => if p.1.length < n then .error .data else k p.1 p.2)
      = (rd n bs >>= fun p => k p.1 p.2) := by
  rw [streamRead_nat]; unfold rd
  by_cases h : n = 0 ∨ bs = []
  · simp [h, bind, Except.bind]
  · simp only [h, if_false, bind, Except.bind]
    have : (bs.take n).length < n ↔ bs.length < n := by simp; omega
    simp only [this]
    split <;> rfl

/-- a one-byte read is never short -/
theorem read_one {β} (bs : Bytes) (k : Bytes → Bytes → R β) :
    (streamRead 1 bs >>= fun p => k p.1 p.2) = (rd 1 bs >>= fun p => k p.1 p.2) := by
  show (streamRead ((1 : Nat) : Int) bs >>= _) = _
  rw [streamRead_nat]; unfold rd
  cases bs with
  | nil => simp [bind, Except.bind]
  | cons b bs => simp [bind, Except.bind]

/-! ### integers -/

theorem decodeIntNat_eq (k : IntK) : decodeIntNat k = bindD (rd k.size) (fun d => ret (leVal d)) := by
  funext bs
  exact read_chk k.size bs (fun d r => .ok (leVal d, r))

theorem intNat_good (k : IntK) : Good (decodeIntNat k) := by
  rw [decodeIntNat_eq]; exact (Good.rd _).bind fun _ => Good.ret

theorem intNat_fixed (k : IntK) : Fixed (decodeIntNat k) k.size := by
  rw [decodeIntNat_eq]; exact (rd_fixed _).bind (w2 := 0) fun _ => Fixed.ret

theorem intNat_prog (k : IntK) : Prog (decodeIntNat k) := (intNat_fixed k).prog (size_pos k)

theorem intNat_bufferEmpty (k : IntK) (bs : Bytes) : decodeIntNat k bs = .error .bufferEmpty ↔ bs = [] := by
  rw [decodeIntNat_eq, bindD_err]
  have := size_pos k
  simp [rd_err, ER.ret]
  omega

theorem decodeIntVal_eq (k : IntK) :
    decodeIntVal k = bindD (decodeIntNat k) (fun n => ret (if k.signed then toSigned k.size n else (n : Int))) := by
  funext bs; rfl

theorem intVal_good (k : IntK) : Good (decodeIntVal k) := by
  rw [decodeIntVal_eq]; exact (intNat_good _).bind fun _ => Good.ret

theorem intVal_fixed (k : IntK) : Fixed (decodeIntVal k) k.size := by
  rw [decodeIntVal_eq]; exact (intNat_fixed _).bind (w2 := 0) fun _ => Fixed.ret

theorem intVal_prog (k : IntK) : Prog (decodeIntVal k) := (intVal_fixed k).prog (size_pos k)


/-! ### the simple leaves of `decode` -/

theorem decode_bool_eq : decode .bool = bindD (rd 1) (fun d => ret (.bool (d != [0]))) := by
  funext bs; rw [decode]
  exact read_one bs (fun d r => .ok (PyVal.bool (d != [0]), r))

theorem decode_int_eq (k : IntK) : decode (.int k) = bindD (decodeIntVal k) (fun i => ret (.int i)) := by
  funext bs; rw [decode]; rfl

theorem decode_real_eq : decode .real = bindD (decodeIntNat .udint) (fun n => ret (.float (Flt.widen n))) := by
  funext bs; rw [decode]; rfl

theorem decode_lreal_eq : decode .lreal = bindD (decodeIntNat .ulint) (fun n => ret (.float n)) := by
  funext bs; rw [decode]; rfl

theorem decode_dt_eq : decode .dateAndTime =
    bindD (decodeIntNat .udint) (fun t => bindD (decodeIntNat .uint) (fun d => ret (.tuple [.int t, .int d]))) := by
  funext bs; rw [decode]; rfl

theorem decodeBits_eq (k : IntK) :
    decodeBits k = bindD (decodeIntNat k) (fun n => ret (.list (natToBits (8 * k.size) n))) := by
  funext bs; rfl

theorem decodeIp_eq : decodeIp = bindD (rd 4) (fun d => ret (.str (renderIPv4 d))) := by
  funext bs
  exact read_chk 4 bs (fun d r => .ok (PyVal.str (renderIPv4 d), r))

/-! ### strings -/

def textK (enc : Enc) (d : Bytes) : D PyVal := fun r =>
  match Text.decode enc d with
  | some cs => .ok (.str cs, r)
  | none => .error .data

theorem textK_good (enc : Enc) (d : Bytes) : Good (textK enc d) := by
  unfold textK
  cases Text.decode enc d with
  | none => exact Good.fail
  | some cs => exact Good.ret

def strK (enc : Enc) (n : Nat) : D PyVal := fun r =>
  if n = 0 then .ok (.str [], r) else bindD (rd (n * charWidth enc)) (textK enc) r

theorem strK_good (enc : Enc) (n : Nat) : Good (strK enc n) := by
  unfold strK
  by_cases h : n = 0
  · simp only [h, if_true]; exact Good.ret
  · simp only [h, if_false]; exact (Good.rd _).bind (textK_good enc)

theorem decodeStr_eq (lenK : IntK) (enc : Enc) : decodeStr lenK enc = bindD (decodeIntNat lenK) (strK enc) := by
  funext bs
  show (decodeIntNat lenK bs >>= _) = (decodeIntNat lenK bs >>= _)
  congr 1; funext p
  obtain ⟨n, rest⟩ := p
  unfold strK
  by_cases h : n = 0
  · simp only [h, if_true]
  · simp only [h, if_false]
    exact read_chk (n * charWidth enc) rest (fun d r => textK enc d r)

theorem str_good (lenK : IntK) (enc : Enc) : Good (decodeStr lenK enc) := by
  rw [decodeStr_eq]; exact (intNat_good _).bind (strK_good enc)

theorem str_prog (lenK : IntK) (enc : Enc) : Prog (decodeStr lenK enc) := by
  rw [decodeStr_eq]; exact (intNat_prog _).bind_left fun n => (strK_good enc n).suf

def strNK (csz cnt : Nat) : D PyVal := fun r2 =>
  match stringNEnc csz with
  | none => .error .data
  | some enc => if cnt = 0 then .ok (.str [], r2) else bindD (rd (cnt * csz)) (textK enc) r2

theorem strNK_good (csz cnt : Nat) : Good (strNK csz cnt) := by
  unfold strNK
  cases stringNEnc csz with
  | none => exact Good.fail
  | some enc =>
    by_cases h : cnt = 0
    · simp only [h, if_true]; exact Good.ret
    · simp only [h, if_false]; exact (Good.rd _).bind (textK_good enc)

theorem decodeStringN_eq :
    decodeStringN = bindD (decodeIntNat .uint) (fun csz => bindD (decodeIntNat .uint) (strNK csz)) := by
  funext bs
  show (decodeIntNat .uint bs >>= _) = (decodeIntNat .uint bs >>= _)
  congr 1; funext p
  obtain ⟨csz, r1⟩ := p
  show (decodeIntNat .uint r1 >>= _) = (decodeIntNat .uint r1 >>= _)
  congr 1; funext q
  obtain ⟨cnt, r2⟩ := q
  unfold strNK
  cases stringNEnc csz with
  | none => rfl
  | some enc =>
    by_cases h : cnt = 0
    · simp only [h, if_true]
    · simp only [h, if_false]
      exact read_chk (cnt * csz) r2 (fun d r => textK enc d r)

theorem stringN_good : Good decodeStringN := by
  rw [decodeStringN_eq]; exact (intNat_good _).bind fun _ => (intNat_good _).bind (strNK_good _)

theorem stringN_prog : Prog decodeStringN := by
  rw [decodeStringN_eq]
  exact (intNat_prog _).bind_left fun _ => ((intNat_good _).bind (strNK_good _)).suf

theorem strKind_good (k : StrKind) : Good k.decode := by
  cases k
  · exact str_good _ _
  · exact str_good _ _
  · exact stringN_good
  · exact str_good _ _


/-! ### STRINGI -/

def itemK (n : Nat) (l3 : Bytes) (tb : UInt8) (ss ls cs : List PyVal) : D PyVal := fun r1 =>
  match StrKind.ofCode tb.toNat with
  | none => .error .data
  | some k =>
      bindD (decodeIntNat .uint) (fun cset => bindD k.decode (fun s r3 =>
        decodeStringIItems n r3 (s :: ss) (.str (Text.decLatin1 l3) :: ls) (.int cset :: cs))) r1

theorem items_succ (n : Nat) (bs : Bytes) (ss ls cs : List PyVal) :
    decodeStringIItems (n + 1) bs ss ls cs =
      bindD (rd 3) (fun l3 => bindD byte1 (fun tb => itemK n l3 tb ss ls cs)) bs := by
  rw [decodeStringIItems]
  by_cases h0 : bs = []
  · subst h0; rfl
  · by_cases h3 : bs.length < 3
    · have e1 : (List.take 3 bs).isEmpty = false := by
        cases bs with
        | nil => exact absurd rfl h0
        | cons b t => rfl
      have e2 : (List.take 3 bs).length < 3 := by simp; omega
      have e3 : rd 3 bs = .error .data := by simp [rd, h0, h3]
      simp only [e1, e2, bindD, e3, bind, Except.bind, if_true, if_false, Bool.false_eq_true]
    · have e1 : (List.take 3 bs).isEmpty = false := by
        cases bs with
        | nil => exact absurd rfl h0
        | cons b t => rfl
      have e2 : ¬ (List.take 3 bs).length < 3 := by simp; omega
      have e3 : rd 3 bs = .ok (bs.take 3, bs.drop 3) := by simp [rd, h0, h3]
      simp only [e1, e2, bindD, e3, bind, Except.bind, if_false, Bool.false_eq_true]
      cases List.drop 3 bs with
      | nil => rfl
      | cons tb r1 => rfl

theorem items_good : ∀ (n : Nat) (ss ls cs : List PyVal), Good (fun bs => decodeStringIItems n bs ss ls cs)
  | 0, ss, ls, cs => by
      have : (fun bs => decodeStringIItems 0 bs ss ls cs)
          = ret (.tuple [.list ss.reverse, .list ls.reverse, .list cs.reverse]) := by
        funext bs; rw [decodeStringIItems]; rfl
      rw [this]; exact Good.ret
  | n + 1, ss, ls, cs => by
      have : (fun bs => decodeStringIItems (n + 1) bs ss ls cs)
          = bindD (rd 3) (fun l3 => bindD byte1 (fun tb => itemK n l3 tb ss ls cs)) := by
        funext bs; exact items_succ ..
      rw [this]
      refine (Good.rd 3).bind fun l3 => Good.byte1.bind fun tb => ?_
      unfold itemK
      cases StrKind.ofCode tb.toNat with
      | none => exact Good.fail
      | some k =>
        exact (intNat_good _).bind fun cset => (strKind_good k).bind fun s => items_good n _ _ _

theorem decodeStringI_eq :
    decodeStringI = bindD (decodeIntNat .usint) (fun count r => decodeStringIItems count r [] [] []) := by
  funext bs; rfl

theorem stringI_good : Good decodeStringI := by
  rw [decodeStringI_eq]; exact (intNat_good _).bind fun n => items_good n _ _ _

theorem stringI_prog : Prog decodeStringI := by
  rw [decodeStringI_eq]; exact (intNat_prog _).bind_left fun n => (items_good n _ _ _).suf

/-! ### n_bytes, FixedSizeString -/

theorem decodeNBytes_nonneg (n : Nat) : decodeNBytes (n : Int) = bindD (rd n) (fun d => ret (.bytes d)) := by
  funext bs
  have h : ∀ d : Bytes, ((0 : Int) ≤ (n : Int) ∧ d.length < (n : Int).toNat) ↔ d.length < n := by
    intro d; simp
  have := read_chk n bs (fun d r => .ok (PyVal.bytes d, r))
  refine Eq.trans ?_ this
  unfold decodeNBytes
  simp only [h]

theorem decodeFixedStr_eq (size : Nat) (lenK : IntK) :
    decodeFixedStr size lenK = bindD (decodeIntVal lenK) (fun n => bindD (rd size) (fun d =>
      ret (.str (Text.decLatin1 (pySliceTo d n))))) := by
  funext bs
  show (decodeIntVal lenK bs >>= _) = (decodeIntVal lenK bs >>= _)
  congr 1; funext p
  obtain ⟨n, rest⟩ := p
  exact read_chk size rest (fun d r => .ok (PyVal.str (Text.decLatin1 (pySliceTo d n)), r))


theorem decodeNBytes_neg (n : Int) (h : n < 0) (bs : Bytes) :
    decodeNBytes n bs = if bs = [] then .error .bufferEmpty else .ok (.bytes bs, []) := by
  have h' : ¬ (0 ≤ n) := by omega
  cases bs with
  | nil => simp [decodeNBytes, streamRead, h, bind, Except.bind]
  | cons b t => simp [decodeNBytes, streamRead, h, h', bind, Except.bind]

theorem nbytes_good (n : Int) (h : 0 ≤ n) : Good (decodeNBytes n) := by
  obtain ⟨m, rfl⟩ := Int.eq_ofNat_of_zero_le h
  rw [decodeNBytes_nonneg]; exact (Good.rd _).bind fun _ => Good.ret

theorem nbytes_err (n : Int) : ErrIn C2 (decodeNBytes n) := by
  by_cases h : 0 ≤ n
  · exact (nbytes_good n h).err
  · intro bs e he
    rw [decodeNBytes_neg n (by omega)] at he
    split at he
    · cases he; exact Or.inr rfl
    · cases he

theorem nbytes_suf (n : Int) : Suf (decodeNBytes n) := by
  by_cases h : 0 ≤ n
  · exact (nbytes_good n h).suf
  · intro bs v r he
    rw [decodeNBytes_neg n (by omega)] at he
    split at he
    · cases he
    · cases he; exact List.nil_suffix

theorem nbytes_prog (n : Int) (hn : n ≠ 0) : Prog (decodeNBytes n) := by
  by_cases h : 0 ≤ n
  · obtain ⟨m, rfl⟩ := Int.eq_ofNat_of_zero_le h
    rw [decodeNBytes_nonneg]; exact (rd_prog _).bind_left fun _ => Suf.ret
  · intro bs v r he
    rw [decodeNBytes_neg n (by omega)] at he
    split at he
    · cases he
    · rename_i hb; cases he
      cases bs with
      | nil => exact absurd rfl hb
      | cons b t => simp

theorem nbytes_fixed (n : Int) (h : 0 < n) : Fixed (decodeNBytes n) n.toNat := by
  obtain ⟨m, rfl⟩ := Int.eq_ofNat_of_zero_le (Int.le_of_lt h)
  rw [decodeNBytes_nonneg]; exact (rd_fixed _).bind (w2 := 0) fun _ => Fixed.ret

theorem fixedStr_good (size : Nat) (lenK : IntK) : Good (decodeFixedStr size lenK) := by
  rw [decodeFixedStr_eq]; exact (intVal_good _).bind fun _ => (Good.rd _).bind fun _ => Good.ret

theorem fixedStr_prog (size : Nat) (lenK : IntK) : Prog (decodeFixedStr size lenK) := by
  rw [decodeFixedStr_eq]
  exact (intVal_prog _).bind_left fun _ => ((Good.rd _).bind fun _ => Good.ret).suf

theorem fixedStr_fixed (size : Nat) (lenK : IntK) : Fixed (decodeFixedStr size lenK) (lenK.size + size) := by
  rw [decodeFixedStr_eq]
  exact (intVal_fixed _).bind fun _ => (rd_fixed _).bind (w2 := 0) fun _ => Fixed.ret

/-! ### all non-recursive types at once -/

def NonRec : Ty → Prop
  | .arr _ _ | .struct _ | .structTag _ _ _ _ => False
  | _ => True

theorem decode_str_eq (lenK : IntK) (enc : Enc) : decode (.str lenK enc) = decodeStr lenK enc := by
  funext bs; rw [decode]
theorem decode_stringN_eq (c : Nat) : decode (.stringN c) = decodeStringN := by
  funext bs; rw [decode]
theorem decode_stringI_eq : decode .stringI = decodeStringI := by
  funext bs; rw [decode]
theorem decode_bits_eq (k : IntK) : decode (.bits k) = decodeBits k := by
  funext bs; rw [decode]
theorem decode_nbytes_eq (n : Int) : decode (.nbytes n) = decodeNBytes n := by
  funext bs; rw [decode]
theorem decode_fixedStr_eq (size : Nat) (lenK : IntK) : decode (.fixedStr size lenK) = decodeFixedStr size lenK := by
  funext bs; rw [decode]
theorem decode_ip_eq : decode .ipAddr = decodeIp := by
  funext bs; rw [decode]

theorem nonrec_good : (t : Ty) → NonRec t → (∀ n, t = .nbytes n → 0 ≤ n) → Good (decode t)
  | .bool, _, _ => by rw [decode_bool_eq]; exact (Good.rd _).bind fun _ => Good.ret
  | .int k, _, _ => by rw [decode_int_eq]; exact (intVal_good _).bind fun _ => Good.ret
  | .real, _, _ => by rw [decode_real_eq]; exact (intNat_good _).bind fun _ => Good.ret
  | .lreal, _, _ => by rw [decode_lreal_eq]; exact (intNat_good _).bind fun _ => Good.ret
  | .dateAndTime, _, _ => by
      rw [decode_dt_eq]; exact (intNat_good _).bind fun _ => (intNat_good _).bind fun _ => Good.ret
  | .str _ _, _, _ => by rw [decode_str_eq]; exact str_good _ _
  | .stringN _, _, _ => by rw [decode_stringN_eq]; exact stringN_good
  | .stringI, _, _ => by rw [decode_stringI_eq]; exact stringI_good
  | .bits k, _, _ => by rw [decode_bits_eq, decodeBits_eq]; exact (intNat_good _).bind fun _ => Good.ret
  | .nbytes n, _, h => by rw [decode_nbytes_eq]; exact nbytes_good n (h n rfl)
  | .fixedStr _ _, _, _ => by rw [decode_fixedStr_eq]; exact fixedStr_good _ _
  | .ipAddr, _, _ => by rw [decode_ip_eq, decodeIp_eq]; exact (Good.rd _).bind fun _ => Good.ret
  | .arr _ _, h, _ => h.elim
  | .struct _, h, _ => h.elim
  | .structTag _ _ _ _, h, _ => h.elim

theorem nonrec_err (t : Ty) (h : NonRec t) : ErrIn C2 (decode t) := by
  by_cases hn : ∀ n, t = .nbytes n → 0 ≤ n
  · exact (nonrec_good t h hn).err
  · obtain ⟨n, hn'⟩ := Classical.not_forall.1 hn
    obtain ⟨rfl, _⟩ := Classical.not_imp.1 hn'
    rw [decode_nbytes_eq]; exact nbytes_err n

theorem nonrec_suf (t : Ty) (h : NonRec t) : Suf (decode t) := by
  by_cases hn : ∀ n, t = .nbytes n → 0 ≤ n
  · exact (nonrec_good t h hn).suf
  · obtain ⟨n, hn'⟩ := Classical.not_forall.1 hn
    obtain ⟨rfl, _⟩ := Classical.not_imp.1 hn'
    rw [decode_nbytes_eq]; exact nbytes_suf n

theorem nonrec_prog : (t : Ty) → NonRec t → PosWidth t → Prog (decode t)
  | .bool, _, _ => by rw [decode_bool_eq]; exact (rd_prog _).bind_left fun _ => Suf.ret
  | .int k, _, _ => by rw [decode_int_eq]; exact (intVal_prog _).bind_left fun _ => Suf.ret
  | .real, _, _ => by rw [decode_real_eq]; exact (intNat_prog _).bind_left fun _ => Suf.ret
  | .lreal, _, _ => by rw [decode_lreal_eq]; exact (intNat_prog _).bind_left fun _ => Suf.ret
  | .dateAndTime, _, _ => by
      rw [decode_dt_eq]; exact (intNat_prog _).bind_left fun _ => ((intNat_good _).bind fun _ => Good.ret).suf
  | .str _ _, _, _ => by rw [decode_str_eq]; exact str_prog _ _
  | .stringN _, _, _ => by rw [decode_stringN_eq]; exact stringN_prog
  | .stringI, _, _ => by rw [decode_stringI_eq]; exact stringI_prog
  | .bits k, _, _ => by rw [decode_bits_eq, decodeBits_eq]; exact (intNat_prog _).bind_left fun _ => Suf.ret
  | .nbytes n, _, h => by
      rw [decode_nbytes_eq]; exact nbytes_prog n (by simpa [PosWidth] using h)
  | .fixedStr _ _, _, _ => by rw [decode_fixedStr_eq]; exact fixedStr_prog _ _
  | .ipAddr, _, _ => by rw [decode_ip_eq, decodeIp_eq]; exact (rd_prog _).bind_left fun _ => Suf.ret
  | .arr _ _, h, _ => h.elim
  | .struct _, h, _ => h.elim
  | .structTag _ _ _ _, h, _ => h.elim

theorem nonrec_fixed : (t : Ty) → NonRec t → (w : Nat) → fixedWidth t = some w → Fixed (decode t) w
  | .bool, _, w, hw => by
      simp [fixedWidth] at hw; subst hw
      rw [decode_bool_eq]; exact (rd_fixed _).bind (w2 := 0) fun _ => Fixed.ret
  | .int k, _, w, hw => by
      simp [fixedWidth] at hw; subst hw
      rw [decode_int_eq]; exact (intVal_fixed _).bind (w2 := 0) fun _ => Fixed.ret
  | .real, _, w, hw => by
      simp [fixedWidth] at hw; subst hw
      rw [decode_real_eq]; exact (intNat_fixed .udint).bind (w2 := 0) fun _ => Fixed.ret
  | .lreal, _, w, hw => by
      simp [fixedWidth] at hw; subst hw
      rw [decode_lreal_eq]; exact (intNat_fixed .ulint).bind (w2 := 0) fun _ => Fixed.ret
  | .dateAndTime, _, w, hw => by
      simp [fixedWidth] at hw; subst hw
      rw [decode_dt_eq]
      exact (intNat_fixed .udint).bind (w2 := 2) fun _ => (intNat_fixed .uint).bind (w2 := 0) fun _ => Fixed.ret
  | .str _ _, _, w, hw => by simp [fixedWidth] at hw
  | .stringN _, _, w, hw => by simp [fixedWidth] at hw
  | .stringI, _, w, hw => by simp [fixedWidth] at hw
  | .bits k, _, w, hw => by
      simp [fixedWidth] at hw; subst hw
      rw [decode_bits_eq, decodeBits_eq]; exact (intNat_fixed _).bind (w2 := 0) fun _ => Fixed.ret
  | .nbytes n, _, w, hw => by
      simp [fixedWidth] at hw; obtain ⟨hn, rfl⟩ := hw
      rw [decode_nbytes_eq]; exact nbytes_fixed n hn
  | .fixedStr size lenK, _, w, hw => by
      simp [fixedWidth] at hw; obtain ⟨hn, rfl⟩ := hw
      rw [decode_fixedStr_eq]; exact fixedStr_fixed _ _
  | .ipAddr, _, w, hw => by
      simp [fixedWidth] at hw; subst hw
      rw [decode_ip_eq, decodeIp_eq]; exact (rd_fixed _).bind (w2 := 0) fun _ => Fixed.ret
  | .arr _ _, h, _, _ => h.elim
  | .struct _, h, _, _ => h.elim
  | .structTag _ _ _ _, h, _, _ => h.elim

end Pycomm.ER
